import OH.Proofs.SentNum
import OH.Proofs.SynWeekday3
/-
C05, the WEEKDAY SELECTOR of sentences (OH/Spec/Sent.lean): every well-formed `WdSel` parses to its
denotation.

New compared with the canonical spellings of C06 (SynWeekday1/2/3):
 * position entries `a-b` besides `a` and `-a`, in any order, with repetitions: the specification
   accumulates them from the right (`nthArrays`), the parser from the left (`nthLoop`/`setNth`); both
   are "or" accumulations, the steps commute;
 * a bracket may set every position (`Mo[1-5,-1,-2,-3,-4,-5]`): the parser's "nothing set ⇒ all set"
   branch is never taken for a well-formed sentence (the first entry sets a position);
 * day offsets with leading zeros and `day`/`days` chosen freely;
 * holidays and weekdays joined by a space; `SH`; lists of holidays.
-/
namespace OH.Proofs.Sent
open OH.Model OH.Model.Peg OH.Model.Parser OH.Generated.Grammar OH.Proofs.Syn
open OH.Spec.Sent (Num DayOff NthEntry WdRange Hol WdSel commaList wdayName optOff optOffWf nthArrays
  setRange)

/-! ### shared spellings -/

theorem commaList_eq {α} (f : α → List Char) : ∀ xs : List α, commaList f xs = Print.selector f xs
  | [] => rfl
  | [_] => rfl
  | x :: y :: rest => by simp [commaList, Print.selector, commaList_eq f (y :: rest)]

theorem commaList_cons {α} (f : α → List Char) (x : α) (xs : List α) :
    commaList f (x :: xs) = f x ++ tailStr f xs := by
  rw [commaList_eq, selector_cons]

theorem wdayName_eq : ∀ a, wdayName a = Print.wdayStr a
  | 0 | 1 | 2 | 3 | 4 | 5 => rfl
  | _ + 6 => rfl

theorem allTrue_eq : OH.Spec.Sent.allTrue = allTrue5 := rfl
theorem allFalse_eq : OH.Spec.Sent.allFalse = allFalse5 := rfl

/-- a weekday name: two letters, the first one starts a weekday selector and is no sign -/
theorem wdayStr_head (a : Nat) (ha : a ≤ 6) :
    ∃ c d, Print.wdayStr a = [c, d] ∧ WeekdayStart c ∧ c ≠ '+' ∧ c ≠ '-' := by
  rcases le6_cases ha with h | h | h | h | h | h | h <;> subst h <;>
    exact ⟨_, _, rfl, by unfold WeekdayStart; decide, by decide, by decide⟩

/-- `All₂` of "builds to the denotation" gives `mapM` -/
theorem mapM_of_all₂_map {α β} (build : T → PM β) (d : α → β) {xs : List α} {ts : List T}
    (h : All₂ (fun x t => build t = .ok (d x)) xs ts) : ts.mapM build = .ok (xs.map d) := by
  induction h with
  | nil => rfl
  | cons h _ ih => simp [List.mapM_cons, h, ih, bind, Except.bind, pure, Except.pure]

/-! ### what may follow

The follow predicates of the canonical printer (`FollowWd` after one element, `FollowWdSel` after the
selector) know the end, `,` and a space.  In a sentence a rule separator may follow WITHOUT a space
(`Mo;Tu`, `Mo|| Tu`), so they are weakened by one more case. -/

/-- a next character with which nothing of a weekday selector can continue: not `,` and not a space
(those are the cases of `FollowWd`/`FollowWdSel`), not `s` (`day` would be read as `days`), not `[`
and not `-` (a single day would be read as a bracket form or a span).  Holds for `;` and `|`. -/
def OtherFollow (rest : List Char) : Prop :=
  ∃ c r, rest = c :: r ∧ c ≠ ',' ∧ c ≠ ' ' ∧ c ≠ 's' ∧ c ≠ '[' ∧ c ≠ '-'

/-- after ONE weekday range or holiday -/
def FollowWdX (rest : List Char) : Prop := FollowWd rest ∨ OtherFollow rest

/-- after the whole weekday selector -/
def FollowWdSelX (rest : List Char) : Prop := FollowWdSel rest ∨ OtherFollow rest

theorem FollowWdSelX.toWdX {rest : List Char} (h : FollowWdSelX rest) : FollowWdX rest :=
  h.imp FollowWdSel.toWd id

theorem FollowWdSelX.of_sel {rest : List Char} (h : FollowWdSel rest) : FollowWdSelX rest := .inl h

/-- the standard context of the canonical printer (end, `, `, space + modifier / separator / time) -/
theorem FollowWdSelX.of_weekday {rest : List Char} (h : FollowWeekday rest) : FollowWdSelX rest :=
  .inl h.toWdSel

/-- a rule separator written without a space -/
theorem FollowWdSelX.semi (r : List Char) : FollowWdSelX (';' :: r) :=
  .inr ⟨';', r, rfl, by decide, by decide, by decide, by decide, by decide⟩

theorem FollowWdSelX.bar (r : List Char) : FollowWdSelX ('|' :: r) :=
  .inr ⟨'|', r, rfl, by decide, by decide, by decide, by decide, by decide⟩

theorem followWdX_comma (r : List Char) : FollowWdX (',' :: r) := .inl (FollowWd.comma r)

theorem followWdX_not_s {rest : List Char} (hf : FollowWdX rest) : ∀ r, rest ≠ 's' :: r := by
  intro r h
  rcases hf with (rfl | ⟨r', rfl⟩ | ⟨c, r', rfl, _⟩) | ⟨c, r', rfl, _, _, hs, _⟩
  · simp at h
  · simp at h
  · simp at h
  · exact hs (List.cons.inj h).1

theorem run_day_offset_none_x (rest : List Char) (hf : FollowWdX rest) :
    run g_day_offset false rest = none := by
  rcases hf with hf | ⟨c, r, rfl, _, h2, _⟩
  · exact run_day_offset_none rest hf
  · simp [g_day_offset, g_space, peg, Ne.symm h2]

theorem stop_holiday_x (rest : List Char) (h : FollowWdSelX rest) :
    run (.seq (.str [',']) g_holiday) false rest = none := by
  rcases h with h | ⟨c, r, rfl, h1, _⟩
  · exact stop_holiday rest h
  · simp [peg, Ne.symm h1]

theorem stop_weekday_range_x (rest : List Char) (h : FollowWdSelX rest) :
    run (.seq (.str [',']) g_weekday_range) false rest = none := by
  rcases h with h | ⟨c, r, rfl, h1, _⟩
  · exact stop_weekday_range rest h
  · simp [peg, Ne.symm h1]

theorem stop_holiday_sequence_x (rest : List Char) (h : FollowWdSelX rest) :
    run (.seq (.alt (.str [',']) g_space) g_holiday_sequence) false rest = none := by
  rcases h with h | ⟨c, r, rfl, h1, h2, _⟩
  · exact stop_holiday_sequence rest h
  · simp [peg, g_space, Ne.symm h1, Ne.symm h2]

theorem stop_weekday_sequence_x (rest : List Char) (h : FollowWdSelX rest) :
    run (.seq (.alt (.str [',']) g_space) g_weekday_sequence) false rest = none := by
  rcases h with h | ⟨c, r, rfl, h1, h2, _⟩
  · exact stop_weekday_sequence rest h
  · simp [peg, g_space, Ne.symm h1, Ne.symm h2]

/-- a single day, nothing else (third alternative of `weekday_range`) -/
theorem parses_wdr_single_x (lo : Nat) (hlo : lo ≤ 6) (rest : List Char) (hf : FollowWdX rest) :
    ParsesTo g_weekday_range buildWeekdayRange (Print.wdayStr lo) rest
      (.fixed lo lo 0 allTrue5 allTrue5) := by
  rcases hf with hf | ⟨c, r, rfl, _, _, _, h4, h5⟩
  · exact parses_wdr_single lo hlo rest hf
  · refine ParsesTo.mk' .weekday_range [wdayTree lo] ?_ ?_
    · simp [g_weekday_range, peg, run_wday lo hlo, Ne.symm h4, Ne.symm h5]
    · simp [buildWeekdayRange, assertRule, tree_rule, tree_kids, build_wday lo hlo, nthLoop,
        allFalse5, bind, Except.bind]

/-! ### the optional day offset -/

theorem run_opt_dayoff (off : Option DayOff) (hwf : optOffWf off = true) (rest : List Char)
    (hf : FollowWdX rest) :
    ∃ ts, run (.opt g_day_offset) false ((optOff off).1 ++ rest) = some ⟨ts, (optOff off).1, rest⟩
      ∧ ((off = none ∧ ts = []) ∨
          ∃ t, ts = [t] ∧ t.rule = .day_offset ∧ buildDayOffset t = .ok (optOff off).2) := by
  cases off with
  | none =>
    refine ⟨[], ?_, .inl ⟨rfl, rfl⟩⟩
    simp [optOff, peg, run_day_offset_none_x rest hf]
  | some o =>
    obtain ⟨t, ht, hbuild⟩ := parses_dayoff o hwf rest (followWdX_not_s hf)
    exact ⟨[t], by simp [optOff, peg, ht], .inr ⟨t, rfl, parses_dayoff_rule hbuild, hbuild⟩⟩

/-! ### position entries: strings and pairs -/

def sEntryTree : NthEntry → T
  | .one a => .node .nth_entry [dc a] [.node .nth [dc a] []]
  | .range a b => .node .nth_entry [dc a, '-', dc b] [.node .nth [dc a] [], .node .nth [dc b] []]
  | .last a => .node .nth_entry ['-', dc a] [.node .nth_minus ['-'] [], .node .nth [dc a] []]

theorem sEntryTree_rule (e : NthEntry) : (sEntryTree e).rule = .nth_entry := by
  cases e <;> rfl

theorem run_sentry (e : NthEntry) (h : e.wf = true) (rest : List Char)
    (hr : ∀ r, rest ≠ '-' :: r) :
    run g_nth_entry false (e.render ++ rest) = some ⟨[sEntryTree e], e.render, rest⟩ := by
  cases e with
  | one a =>
    have ha : 1 ≤ a ∧ a ≤ 5 := by simpa [NthEntry.wf] using h
    simpa [NthEntry.render, digit_eq a (by omega), entryStr, entryTree, sEntryTree] using
      run_nth_entry (false, a) ha rest hr
  | last a =>
    have ha : 1 ≤ a ∧ a ≤ 5 := by simpa [NthEntry.wf] using h
    simpa [NthEntry.render, digit_eq a (by omega), entryStr, entryTree, sEntryTree] using
      run_nth_entry (true, a) ha rest hr
  | range a b =>
    have hab : 1 ≤ a ∧ a ≤ b ∧ b ≤ 5 := by simpa [NthEntry.wf] using h
    obtain ⟨ha15, ham⟩ := dc_15 a (by omega) (by omega)
    obtain ⟨hb15, _⟩ := dc_15 b (by omega) (by omega)
    simp [NthEntry.render, digit_eq a (by omega), digit_eq b (by omega), sEntryTree, g_nth_entry,
      g_nth, g_nth_minus, peg, ha15, hb15]

/-- `nth_entry ("," nth_entry)*` up to the closing bracket -/
theorem run_sentry_star (xs : List NthEntry) (hv : ∀ e ∈ xs, e.wf = true) (r : List Char) :
    run (.star (.seq (.str [',']) g_nth_entry)) false (tailStr NthEntry.render xs ++ ']' :: r)
      = some ⟨xs.map sEntryTree, tailStr NthEntry.render xs, ']' :: r⟩ := by
  obtain ⟨ts, hstar, hrel⟩ := run_comma_star g_nth_entry NthEntry.render
    (fun e t => t = sEntryTree e) (fun e => e.wf = true) (fun rest => ∀ r, rest ≠ '-' :: r)
    (fun e rest he hr => ⟨_, run_sentry e he rest hr, rfl⟩)
    (fun r r' => by simp) xs hv (']' :: r) (fun r' => by simp) (by simp [peg])
  rw [hstar, map_of_forall₂ sEntryTree hrel]

/-! ### position entries: the arrays -/

/-- what one entry does to the two arrays -/
def step : NthEntry → List Bool × List Bool → List Bool × List Bool
  | .one a, st => (setRange st.1 a a, st.2)
  | .range a b, st => (setRange st.1 a b, st.2)
  | .last a, st => (st.1, setRange st.2 a a)

theorem nthArrays_cons (e : NthEntry) (es : List NthEntry) :
    nthArrays (e :: es) = step e (nthArrays es) := by
  cases e <;> rfl

theorem nthArrays_foldr (es : List NthEntry) :
    nthArrays es = es.foldr step (allFalse5, allFalse5) := by
  induction es with
  | nil => rfl
  | cons e es ih => rw [nthArrays_cons, ih]; rfl

/-- the parser's order: from the left -/
def replayL : List NthEntry → List Bool × List Bool → List Bool × List Bool
  | [], st => st
  | e :: es, st => replayL es (step e st)

theorem setRange_explicit (arr : List Bool) (a b : Nat) :
    setRange arr a b =
      [arr.getD 0 false || (decide (a ≤ 1) && decide (1 ≤ b)),
       arr.getD 1 false || (decide (a ≤ 2) && decide (2 ≤ b)),
       arr.getD 2 false || (decide (a ≤ 3) && decide (3 ≤ b)),
       arr.getD 3 false || (decide (a ≤ 4) && decide (4 ≤ b)),
       arr.getD 4 false || (decide (a ≤ 5) && decide (5 ≤ b))] := rfl

/-- "or" accumulations commute -/
theorem setRange_comm (arr : List Bool) (a b c d : Nat) :
    setRange (setRange arr a b) c d = setRange (setRange arr c d) a b := by
  simp only [setRange_explicit, List.getD_cons_zero, List.getD_cons_succ]
  ac_rfl

theorem step_comm (x y : NthEntry) (st : List Bool × List Bool) :
    step x (step y st) = step y (step x st) := by
  cases x <;> cases y <;> simp only [step, setRange_comm]

theorem replayL_step (es : List NthEntry) (x : NthEntry) (st : List Bool × List Bool) :
    replayL es (step x st) = step x (replayL es st) := by
  induction es generalizing st with
  | nil => rfl
  | cons e es ih => simp only [replayL]; rw [step_comm, ih]

/-- THE ARRAY STEP: accumulating from the left (parser) or from the right (specification) gives the
same two arrays -/
theorem replayL_eq (es : List NthEntry) : replayL es (allFalse5, allFalse5) = nthArrays es := by
  induction es with
  | nil => rfl
  | cons e es ih => rw [nthArrays_cons, ← ih, ← replayL_step]; rfl

theorem setNth_range (arr : List Bool) (a b : Nat) (h : 1 ≤ a ∧ a ≤ b ∧ b ≤ 5) :
    setNth arr a b = .ok (setRange arr a b) := by
  have h1 : ¬ a > b := by omega
  have h0 : a ≠ 0 := by omega
  have h5 : ¬ b > 5 := by omega
  simp [setNth, setRange, h0, h1, h5]

theorem build_sentry (e : NthEntry) (h : e.wf = true) :
    buildNthEntry (sEntryTree e) =
      .ok (match e with
           | .one a => (.pos, a, a)
           | .range a b => (.pos, a, b)
           | .last a => (.neg, a, a)) := by
  cases e with
  | one a =>
    have ha : 1 ≤ a ∧ a ≤ 5 := by simpa [NthEntry.wf] using h
    have hk : a < 256 := by omega
    simp [buildNthEntry, buildNth, sEntryTree, assertRule, Tree.rule, Tree.kids, Tree.text,
      parseBounded, natOfDigits_dc a (by omega), u8Bound, hk, bind, Except.bind]
  | last a =>
    have ha : 1 ≤ a ∧ a ≤ 5 := by simpa [NthEntry.wf] using h
    have hk : a < 256 := by omega
    simp [buildNthEntry, buildNth, sEntryTree, assertRule, Tree.rule, Tree.kids, Tree.text,
      parseBounded, natOfDigits_dc a (by omega), u8Bound, hk, bind, Except.bind]
  | range a b =>
    have hab : 1 ≤ a ∧ a ≤ b ∧ b ≤ 5 := by simpa [NthEntry.wf] using h
    have hk : a < 256 := by omega
    have hk' : b < 256 := by omega
    simp [buildNthEntry, buildNth, sEntryTree, assertRule, Tree.rule, Tree.kids, Tree.text,
      parseBounded, natOfDigits_dc a (by omega), natOfDigits_dc b (by omega), u8Bound, hk, hk', bind,
      Except.bind]

theorem nthLoop_sentries (es : List NthEntry) (hv : ∀ e ∈ es, e.wf = true) (tail : List T)
    (ht : ∀ t ∈ tail.head?, t.rule ≠ .nth_entry) (st : List Bool × List Bool) :
    nthLoop (es.map sEntryTree ++ tail) st.1 st.2
      = .ok ((replayL es st).1, (replayL es st).2, tail) := by
  induction es generalizing st with
  | nil =>
    cases tail with
    | nil => simp [nthLoop, replayL]
    | cons t ts =>
      have : t.rule ≠ .nth_entry := ht t (by simp)
      simp [nthLoop, replayL, this]
  | cons x xs ih =>
    have hx := hv x (by simp)
    have ih' := ih (fun y hy => hv y (by simp [hy]))
    cases x with
    | one a =>
      have ha : 1 ≤ a ∧ a ≤ 5 := by simpa [NthEntry.wf] using hx
      have := ih' (step (.one a) st)
      simp only [step] at this
      simp [nthLoop, sEntryTree_rule, build_sentry _ hx, setNth_range _ a a (by omega), this, replayL,
        step, bind, Except.bind]
    | range a b =>
      have hab : 1 ≤ a ∧ a ≤ b ∧ b ≤ 5 := by simpa [NthEntry.wf] using hx
      have := ih' (step (.range a b) st)
      simp only [step] at this
      simp [nthLoop, sEntryTree_rule, build_sentry _ hx, setNth_range _ a b hab, this, replayL,
        step, bind, Except.bind]
    | last a =>
      have ha : 1 ≤ a ∧ a ≤ 5 := by simpa [NthEntry.wf] using hx
      have := ih' (step (.last a) st)
      simp only [step] at this
      simp [nthLoop, sEntryTree_rule, build_sentry _ hx, setNth_range _ a a (by omega), this, replayL,
        step, bind, Except.bind]

/-- a well-formed entry sets a position -/
theorem setRange_contains (arr : List Bool) (a b : Nat) (h : 1 ≤ a ∧ a ≤ b ∧ b ≤ 5) :
    (setRange arr a b).contains true = true := by
  have hcases : a = 1 ∨ a = 2 ∨ a = 3 ∨ a = 4 ∨ a = 5 := by omega
  rw [setRange_explicit]
  rcases hcases with rfl | rfl | rfl | rfl | rfl
  · have : decide (1 ≤ b) = true := by simp; omega
    simp [this]
  · have : decide (2 ≤ b) = true := by simp; omega
    simp [this]
  · have : decide (3 ≤ b) = true := by simp; omega
    simp [this]
  · have : decide (4 ≤ b) = true := by simp; omega
    simp [this]
  · have : decide (5 ≤ b) = true := by simp; omega
    simp [this]

/-- the parser's "nothing set ⇒ everything set" branch is not taken -/
theorem nthArrays_some (e : NthEntry) (es : List NthEntry) (h : e.wf = true) :
    ((nthArrays (e :: es)).1.contains true || (nthArrays (e :: es)).2.contains true) = true := by
  rw [nthArrays_cons]
  cases e with
  | one a =>
    have ha : 1 ≤ a ∧ a ≤ 5 := by simpa [NthEntry.wf] using h
    have hc : true ∈ setRange (nthArrays es).1 a a := by
      simpa using setRange_contains (nthArrays es).1 a a (by omega)
    simp [step, hc]
  | range a b =>
    have hab : 1 ≤ a ∧ a ≤ b ∧ b ≤ 5 := by simpa [NthEntry.wf] using h
    have hc : true ∈ setRange (nthArrays es).1 a b := by
      simpa using setRange_contains (nthArrays es).1 a b hab
    simp [step, hc]
  | last a =>
    have ha : 1 ≤ a ∧ a ≤ 5 := by simpa [NthEntry.wf] using h
    have hc : true ∈ setRange (nthArrays es).2 a a := by
      simpa using setRange_contains (nthArrays es).2 a a (by omega)
    simp [step, hc]

/-! ### `weekday_range` -/

/-- `wday[…] day_offset?` -/
theorem parses_wdr_nth (a : Nat) (ha : a ≤ 6) (x : NthEntry) (xs : List NthEntry)
    (hv : ∀ e ∈ x :: xs, e.wf = true) (off : Option DayOff) (hoff : optOffWf off = true)
    (rest : List Char) (hf : FollowWdX rest) :
    ParsesTo g_weekday_range buildWeekdayRange (WdRange.nth a (x :: xs) off).render rest
      (WdRange.nth a (x :: xs) off).denote := by
  obtain ⟨ts, hts, hcase⟩ := run_opt_dayoff off hoff rest hf
  have hrender : (WdRange.nth a (x :: xs) off).render
      = Print.wdayStr a ++ '[' :: (x.render ++ (tailStr NthEntry.render xs
          ++ ']' :: (optOff off).1)) := by
    simp [WdRange.render, wdayName_eq, commaList_cons]
  rw [hrender]
  refine ParsesTo.mk' .weekday_range (wdayTree a :: ((x :: xs).map sEntryTree ++ ts)) ?_ ?_
  · have hx := run_sentry x (hv x (by simp))
      (tailStr NthEntry.render xs ++ ']' :: ((optOff off).1 ++ rest))
      (by cases xs <;> simp [tailStr_cons])
    have hstar := run_sentry_star xs (fun y hy => hv y (by simp [hy])) ((optOff off).1 ++ rest)
    have hw := run_wday a ha ('[' :: (x.render ++ (tailStr NthEntry.render xs
      ++ ']' :: ((optOff off).1 ++ rest))))
    simp only [List.append_assoc, List.cons_append]
    simp [g_weekday_range, peg, hw, hx, hstar, hts]
  · have hl := nthLoop_sentries (x :: xs) hv ts (by
      rcases hcase with ⟨_, rfl⟩ | ⟨t, rfl, ht, _⟩
      · simp
      · simp [ht]) (allFalse5, allFalse5)
    rw [replayL_eq] at hl
    have hsome := nthArrays_some x xs (hv x (by simp))
    have hcond' : ¬ (¬ true ∈ (nthArrays (x :: xs)).1 ∧ ¬ true ∈ (nthArrays (x :: xs)).2) := by
      intro ⟨h1, h2⟩; simp [h1, h2] at hsome
    rcases hcase with ⟨rfl, rfl⟩ | ⟨t, rfl, _, hbuild⟩
    · simp only [List.map_cons, List.append_nil] at hl
      simp [buildWeekdayRange, assertRule, tree_rule, tree_kids, build_wday a ha, sEntryTree_rule,
        hl, hcond', WdRange.denote, optOff, bind, Except.bind]
    · simp only [List.map_cons, List.cons_append] at hl
      simp [buildWeekdayRange, assertRule, tree_rule, tree_kids, build_wday a ha, sEntryTree_rule,
        hl, hcond', hbuild, WdRange.denote, bind, Except.bind]

theorem parses_wdrange (w : WdRange) (h : w.wf = true) (rest : List Char) (hf : FollowWdX rest) :
    ParsesTo g_weekday_range buildWeekdayRange w.render rest w.denote := by
  cases w with
  | single a =>
    have ha : a ≤ 6 := by simpa [WdRange.wf] using h
    simpa [WdRange.render, WdRange.denote, wdayName_eq, allTrue_eq] using
      parses_wdr_single_x a ha rest hf
  | span a b =>
    have hab : a ≤ 6 ∧ b ≤ 6 := by simpa [WdRange.wf] using h
    simpa [WdRange.render, WdRange.denote, wdayName_eq, allTrue_eq] using
      parses_wdr_span a b hab.1 hab.2 rest
  | nth a es off =>
    simp only [WdRange.wf, Bool.and_eq_true, decide_eq_true_eq, List.all_eq_true] at h
    obtain ⟨⟨⟨ha, hne⟩, hv⟩, hoff⟩ := h
    cases es with
    | nil => simp at hne
    | cons x xs => exact parses_wdr_nth a ha x xs hv off hoff rest hf

/-- a weekday range starts with a weekday name -/
theorem wdrange_head (w : WdRange) (h : w.wf = true) :
    ∃ a tl, a ≤ 6 ∧ w.render = Print.wdayStr a ++ tl := by
  cases w with
  | single a => exact ⟨a, [], by simpa [WdRange.wf] using h, by simp [WdRange.render, wdayName_eq]⟩
  | span a b =>
    have hab : a ≤ 6 ∧ b ≤ 6 := by simpa [WdRange.wf] using h
    exact ⟨a, _, hab.1, by simp only [WdRange.render, wdayName_eq, List.append_assoc]; rfl⟩
  | nth a es off =>
    simp only [WdRange.wf, Bool.and_eq_true, decide_eq_true_eq] at h
    exact ⟨a, _, h.1.1.1, by simp only [WdRange.render, wdayName_eq, List.append_assoc]; rfl⟩

/-! ### `holiday` -/

theorem parses_hol (x : Hol) (h : x.wf = true) (rest : List Char) (hf : FollowWdX rest) :
    ParsesTo g_holiday buildHoliday x.render rest x.denote := by
  cases x with
  | pub off =>
    obtain ⟨ts, hts, hcase⟩ := run_opt_dayoff off (by simpa [Hol.wf] using h) rest hf
    refine ParsesTo.mk' .holiday (.node .public_holiday ['P', 'H'] [] :: ts) ?_ ?_
    · simp [Hol.render, OH.Spec.Sent.t, g_holiday, g_public_holiday, peg, hts]
    · rcases hcase with ⟨rfl, rfl⟩ | ⟨t, rfl, _, hbuild⟩
      · simp [buildHoliday, assertRule, Tree.rule, Tree.kids, Hol.denote, optOff, bind, Except.bind]
      · simp [buildHoliday, assertRule, Tree.rule, Tree.kids, Hol.denote, hbuild, bind, Except.bind]
  | school =>
    refine ParsesTo.mk' .holiday [.node .school_holiday ['S', 'H'] []] ?_ ?_
    · simp [Hol.render, OH.Spec.Sent.t, g_holiday, g_public_holiday, g_school_holiday, peg]
    · simp [buildHoliday, assertRule, Tree.rule, Tree.kids, Hol.denote, bind, Except.bind]

theorem hol_head (x : Hol) : ∃ c tl, x.render = c :: 'H' :: tl ∧ (c = 'P' ∨ c = 'S') := by
  cases x with
  | pub off => exact ⟨'P', (optOff off).1, by simp [Hol.render, OH.Spec.Sent.t], .inl rfl⟩
  | school => exact ⟨'S', [], by simp [Hol.render, OH.Spec.Sent.t], .inr rfl⟩

/-! ### the two sequences -/

abbrev holsStr (hs : List Hol) : List Char := commaList Hol.render hs
abbrev daysStr (ws : List WdRange) : List Char := commaList WdRange.render ws

theorem parses_hol_seq (x : Hol) (xs : List Hol) (h : ∀ y ∈ x :: xs, y.wf = true)
    (rest : List Char) (hf : FollowWdX rest)
    (hstop : run (.seq (.str [',']) g_holiday) false rest = none) :
    ∃ ts, run g_holiday_sequence false (holsStr (x :: xs) ++ rest)
        = some ⟨[.node .holiday_sequence (holsStr (x :: xs)) ts], holsStr (x :: xs), rest⟩
      ∧ ts.mapM buildHoliday = .ok ((x :: xs).map Hol.denote) := by
  obtain ⟨ts, hts, hrel⟩ := run_comma_list g_holiday Hol.render
    (fun w t => buildHoliday t = .ok w.denote) (fun w => w.wf = true) FollowWdX
    (fun w rest hw hr => parses_hol w hw rest hr)
    followWdX_comma x xs h rest hf hstop
  rw [← commaList_eq] at hts
  exact ⟨ts, by simp [g_holiday_sequence, run_rule, hts], mapM_of_all₂_map buildHoliday _ hrel⟩

theorem parses_days_seq (x : WdRange) (xs : List WdRange) (h : ∀ y ∈ x :: xs, y.wf = true)
    (rest : List Char) (hf : FollowWdX rest)
    (hstop : run (.seq (.str [',']) g_weekday_range) false rest = none) :
    ∃ ts, run g_weekday_sequence false (daysStr (x :: xs) ++ rest)
        = some ⟨[.node .weekday_sequence (daysStr (x :: xs)) ts], daysStr (x :: xs), rest⟩
      ∧ ts.mapM buildWeekdayRange = .ok ((x :: xs).map WdRange.denote) := by
  obtain ⟨ts, hts, hrel⟩ := run_comma_list g_weekday_range WdRange.render
    (fun w t => buildWeekdayRange t = .ok w.denote) (fun w => w.wf = true) FollowWdX
    (fun w rest hw hr => parses_wdrange w hw rest hr)
    followWdX_comma x xs h rest hf hstop
  rw [← commaList_eq] at hts
  exact ⟨ts, by simp [g_weekday_sequence, run_rule, hts], mapM_of_all₂_map buildWeekdayRange _ hrel⟩

/-! ### first characters of the two kinds of list -/

theorem daysStr_head (x : WdRange) (xs : List WdRange) (h : x.wf = true) :
    ∃ a tl, a ≤ 6 ∧ daysStr (x :: xs) = Print.wdayStr a ++ tl := by
  obtain ⟨a, tl, ha, e⟩ := wdrange_head x h
  exact ⟨a, tl ++ tailStr WdRange.render xs, ha, by rw [daysStr, commaList_cons, e, List.append_assoc]⟩

theorem holsStr_head (x : Hol) (xs : List Hol) :
    ∃ c tl, holsStr (x :: xs) = c :: 'H' :: tl ∧ (c = 'P' ∨ c = 'S') := by
  obtain ⟨c, tl, e, hc⟩ := hol_head x
  exact ⟨c, tl ++ tailStr Hol.render xs, by rw [holsStr, commaList_cons, e]; rfl, hc⟩

/-- `holiday` fails on a list of weekday ranges -/
theorem run_holiday_days (x : WdRange) (xs : List WdRange) (h : x.wf = true) (r : List Char) :
    run g_holiday false (daysStr (x :: xs) ++ r) = none := by
  obtain ⟨a, tl, ha, e⟩ := daysStr_head x xs h
  rw [e]
  simpa using run_holiday_wday a ha (tl ++ r)

theorem run_holiday_sequence_days (x : WdRange) (xs : List WdRange) (h : x.wf = true)
    (r : List Char) : run g_holiday_sequence false (daysStr (x :: xs) ++ r) = none := by
  simp [g_holiday_sequence, peg, run_holiday_days x xs h r]

/-- `weekday_range` fails on a list of holidays -/
theorem run_weekday_range_hols (x : Hol) (xs : List Hol) (r : List Char) :
    run g_weekday_range false (holsStr (x :: xs) ++ r) = none := by
  obtain ⟨c, tl, e, hc⟩ := holsStr_head x xs
  rw [e]
  exact run_weekday_range_none (by simpa using run_wday_holiday false c _ hc)

/-- the character that joins the two groups -/
abbrev joinChar (s : Bool) : Char := if s then ' ' else ','

/-- a list of weekday ranges may follow a holiday (after `,` or a space) -/
theorem followWd_join_days (s : Bool) (x : WdRange) (xs : List WdRange) (h : x.wf = true)
    (r : List Char) : FollowWdX (joinChar s :: (daysStr (x :: xs) ++ r)) := by
  cases s with
  | false => exact followWdX_comma _
  | true =>
    obtain ⟨a, tl, ha, e⟩ := daysStr_head x xs h
    obtain ⟨c, d, e2, _, h1, h2⟩ := wdayStr_head a ha
    exact .inl (.inr (.inr ⟨c, d :: (tl ++ r), by rw [e, e2]; rfl, h1, h2⟩))

/-- a list of holidays may follow a weekday range (after `,` or a space) -/
theorem followWd_join_hols (s : Bool) (x : Hol) (xs : List Hol) (r : List Char) :
    FollowWdX (joinChar s :: (holsStr (x :: xs) ++ r)) := by
  cases s with
  | false => exact followWdX_comma _
  | true =>
    obtain ⟨c, tl, e, hc⟩ := holsStr_head x xs
    refine .inl (.inr (.inr ⟨c, 'H' :: (tl ++ r), by rw [e]; rfl, ?_⟩))
    rcases hc with rfl | rfl <;> decide

/-! ### the selector -/

theorem wdsel_hols (h : Hol) (hs : List Hol) (hh : ∀ y ∈ h :: hs, y.wf = true) (rest : List Char)
    (hf : FollowWdSelX rest) :
    ParsesTo g_weekday_selector buildWeekdaySelector (holsStr (h :: hs)) rest
      ((h :: hs).map Hol.denote) := by
  obtain ⟨ts, hts, hb⟩ := parses_hol_seq h hs hh rest hf.toWdX (stop_holiday_x rest hf)
  refine ParsesTo.mk' .weekday_selector [.node .holiday_sequence (holsStr (h :: hs)) ts] ?_ ?_
  · simp [g_weekday_selector, run_rule, run_seq, run_alt, run_opt, R.append, R.nil, hts,
      stop_weekday_sequence_x rest hf]
  · simp only [List.map_cons] at hb
    simp [buildWeekdaySelector, assertRule, tree_rule, tree_kids, List.mapM_cons, hb, bind,
      Except.bind, pure, Except.pure]

theorem wdsel_days (f : WdRange) (fs : List WdRange) (hfs : ∀ y ∈ f :: fs, y.wf = true)
    (rest : List Char) (hf : FollowWdSelX rest) :
    ParsesTo g_weekday_selector buildWeekdaySelector (daysStr (f :: fs)) rest
      ((f :: fs).map WdRange.denote) := by
  have hf0 := hfs f (by simp)
  obtain ⟨ts, hts, hb⟩ := parses_days_seq f fs hfs rest hf.toWdX (stop_weekday_range_x rest hf)
  refine ParsesTo.mk' .weekday_selector [.node .weekday_sequence (daysStr (f :: fs)) ts] ?_ ?_
  · simp [g_weekday_selector, run_rule, run_seq, run_alt, run_opt, R.append, R.nil, hts,
      stop_holiday_sequence_x rest hf, run_holiday_sequence_days f fs hf0 rest]
  · simp only [List.map_cons] at hb
    simp [buildWeekdaySelector, assertRule, tree_rule, tree_kids, List.mapM_cons, hb, bind,
      Except.bind, pure, Except.pure]

/-- holidays first: `holiday_sequence ~ (("," | " ") ~ weekday_sequence)?` -/
theorem wdsel_hols_days (h : Hol) (hs : List Hol) (s : Bool) (f : WdRange) (fs : List WdRange)
    (hh : ∀ y ∈ h :: hs, y.wf = true) (hfs : ∀ y ∈ f :: fs, y.wf = true) (rest : List Char)
    (hf : FollowWdSelX rest) :
    ParsesTo g_weekday_selector buildWeekdaySelector
      (holsStr (h :: hs) ++ joinChar s :: daysStr (f :: fs)) rest
      ((h :: hs).map Hol.denote ++ (f :: fs).map WdRange.denote) := by
  have hf0 := hfs f (by simp)
  have hstop : run (.seq (.str [',']) g_holiday) false (joinChar s :: (daysStr (f :: fs) ++ rest))
      = none := by
    cases s with
    | false => simp [peg, run_holiday_days f fs hf0 rest]
    | true => simp [peg]
  obtain ⟨ts, hts, hb⟩ := parses_hol_seq h hs hh (joinChar s :: (daysStr (f :: fs) ++ rest))
    (followWd_join_days s f fs hf0 rest) hstop
  obtain ⟨ts2, hts2, hb2⟩ := parses_days_seq f fs hfs rest hf.toWdX (stop_weekday_range_x rest hf)
  refine ParsesTo.mk' .weekday_selector [.node .holiday_sequence (holsStr (h :: hs)) ts,
    .node .weekday_sequence (daysStr (f :: fs)) ts2] ?_ ?_
  · simp only [List.append_assoc, List.cons_append]
    cases s with
    | false =>
      simp only [joinChar, Bool.false_eq_true, if_false] at hts ⊢
      simp [g_weekday_selector, g_space, run_rule, run_seq, run_alt, run_opt, run_str,
        stripPrefix_cons_cons, R.append, hts, hts2]
    | true =>
      simp only [joinChar, if_true] at hts ⊢
      simp [g_weekday_selector, g_space, run_rule, run_seq, run_alt, run_opt, run_str,
        stripPrefix_cons_cons, R.append, hts, hts2]
  · simp only [List.map_cons] at hb hb2
    simp [buildWeekdaySelector, assertRule, tree_rule, tree_kids, List.mapM_cons, hb, hb2, bind,
      Except.bind, pure, Except.pure]

/-- weekday ranges first: `weekday_sequence ~ (("," | " ") ~ holiday_sequence)?` -/
theorem wdsel_days_hols (f : WdRange) (fs : List WdRange) (s : Bool) (h : Hol) (hs : List Hol)
    (hfs : ∀ y ∈ f :: fs, y.wf = true) (hh : ∀ y ∈ h :: hs, y.wf = true) (rest : List Char)
    (hf : FollowWdSelX rest) :
    ParsesTo g_weekday_selector buildWeekdaySelector
      (daysStr (f :: fs) ++ joinChar s :: holsStr (h :: hs)) rest
      ((f :: fs).map WdRange.denote ++ (h :: hs).map Hol.denote) := by
  have hf0 := hfs f (by simp)
  have hstop : run (.seq (.str [',']) g_weekday_range) false
      (joinChar s :: (holsStr (h :: hs) ++ rest)) = none := by
    cases s with
    | false => simp [peg, run_weekday_range_hols h hs rest]
    | true => simp [peg]
  obtain ⟨ts, hts, hb⟩ := parses_days_seq f fs hfs (joinChar s :: (holsStr (h :: hs) ++ rest))
    (followWd_join_hols s h hs rest) hstop
  obtain ⟨ts2, hts2, hb2⟩ := parses_hol_seq h hs hh rest hf.toWdX (stop_holiday_x rest hf)
  have hfail := run_holiday_sequence_days f fs hf0 (joinChar s :: (holsStr (h :: hs) ++ rest))
  refine ParsesTo.mk' .weekday_selector [.node .weekday_sequence (daysStr (f :: fs)) ts,
    .node .holiday_sequence (holsStr (h :: hs)) ts2] ?_ ?_
  · simp only [List.append_assoc, List.cons_append]
    cases s with
    | false =>
      simp only [joinChar, Bool.false_eq_true, if_false] at hts hfail ⊢
      simp [g_weekday_selector, g_space, run_rule, run_seq, run_alt, run_opt, run_str,
        stripPrefix_cons_cons, R.append, hts, hts2, hfail]
    | true =>
      simp only [joinChar, if_true] at hts hfail ⊢
      simp [g_weekday_selector, g_space, run_rule, run_seq, run_alt, run_opt, run_str,
        stripPrefix_cons_cons, R.append, hts, hts2, hfail]
  · simp only [List.map_cons] at hb hb2
    simp [buildWeekdaySelector, assertRule, tree_rule, tree_kids, List.mapM_cons, hb, hb2, bind,
      Except.bind, pure, Except.pure]

theorem ne_nil_of_not_isEmpty {α} {l : List α} (h : (!l.isEmpty) = true) : ∃ x xs, l = x :: xs := by
  cases l with
  | nil => simp at h
  | cons x xs => exact ⟨x, xs, rfl⟩

/-- THE WEEKDAY SELECTOR OF A SENTENCE PARSES TO ITS DENOTATION (weakest follow condition) -/
theorem parses_wdsel_x (w : WdSel) (h : w.wf = true) (rest : List Char) (hf : FollowWdSelX rest) :
    ParsesTo g_weekday_selector buildWeekdaySelector w.render rest w.denote := by
  cases w with
  | days ws =>
    simp only [WdSel.wf, Bool.and_eq_true, List.all_eq_true] at h
    obtain ⟨f, fs, rfl⟩ := ne_nil_of_not_isEmpty h.1
    exact wdsel_days f fs h.2 rest hf
  | hols hs =>
    simp only [WdSel.wf, Bool.and_eq_true, List.all_eq_true] at h
    obtain ⟨x, xs, rfl⟩ := ne_nil_of_not_isEmpty h.1
    exact wdsel_hols x xs h.2 rest hf
  | holsDays hs s ws =>
    simp only [WdSel.wf, Bool.and_eq_true, List.all_eq_true] at h
    obtain ⟨⟨⟨h1, h2⟩, h3⟩, h4⟩ := h
    obtain ⟨x, xs, rfl⟩ := ne_nil_of_not_isEmpty h1
    obtain ⟨f, fs, rfl⟩ := ne_nil_of_not_isEmpty h3
    simpa [WdSel.render, WdSel.denote] using wdsel_hols_days x xs s f fs h2 h4 rest hf
  | daysHols ws s hs =>
    simp only [WdSel.wf, Bool.and_eq_true, List.all_eq_true] at h
    obtain ⟨⟨⟨h1, h2⟩, h3⟩, h4⟩ := h
    obtain ⟨f, fs, rfl⟩ := ne_nil_of_not_isEmpty h1
    obtain ⟨x, xs, rfl⟩ := ne_nil_of_not_isEmpty h3
    simpa [WdSel.render, WdSel.denote] using wdsel_days_hols f fs s x xs h2 h4 rest hf

/-- THE WEEKDAY SELECTOR OF A SENTENCE PARSES TO ITS DENOTATION, with the follow condition of the
canonical printer -/
theorem parses_wdsel (w : WdSel) (h : w.wf = true) (rest : List Char) (hf : FollowWdSel rest) :
    ParsesTo g_weekday_selector buildWeekdaySelector w.render rest w.denote :=
  parses_wdsel_x w h rest (.inl hf)

/-- a weekday selector starts with the first letter of a weekday or of a holiday -/
theorem wdsel_head (w : WdSel) (h : w.wf = true) : ∃ c cs, w.render = c :: cs ∧ WeekdayStart c := by
  have hdays : ∀ (f : WdRange) (fs : List WdRange) (tl : List Char), f.wf = true →
      ∃ c cs, daysStr (f :: fs) ++ tl = c :: cs ∧ WeekdayStart c := by
    intro f fs tl hf0
    obtain ⟨a, tl', ha, e⟩ := daysStr_head f fs hf0
    obtain ⟨c, d, e2, hc, _⟩ := wdayStr_head a ha
    exact ⟨c, d :: (tl' ++ tl), by rw [e, e2]; rfl, hc⟩
  have hhols : ∀ (x : Hol) (xs : List Hol) (tl : List Char),
      ∃ c cs, holsStr (x :: xs) ++ tl = c :: cs ∧ WeekdayStart c := by
    intro x xs tl
    obtain ⟨c, tl', e, hc⟩ := holsStr_head x xs
    refine ⟨c, 'H' :: (tl' ++ tl), by rw [e]; rfl, ?_⟩
    rcases hc with rfl | rfl <;> simp [WeekdayStart]
  cases w with
  | days ws =>
    simp only [WdSel.wf, Bool.and_eq_true, List.all_eq_true] at h
    obtain ⟨f, fs, rfl⟩ := ne_nil_of_not_isEmpty h.1
    simpa [WdSel.render] using hdays f fs [] (h.2 f (by simp))
  | hols hs =>
    simp only [WdSel.wf, Bool.and_eq_true, List.all_eq_true] at h
    obtain ⟨x, xs, rfl⟩ := ne_nil_of_not_isEmpty h.1
    simpa [WdSel.render] using hhols x xs []
  | holsDays hs s ws =>
    simp only [WdSel.wf, Bool.and_eq_true, List.all_eq_true] at h
    obtain ⟨x, xs, rfl⟩ := ne_nil_of_not_isEmpty h.1.1.1
    simpa [WdSel.render] using hhols x xs _
  | daysHols ws s hs =>
    simp only [WdSel.wf, Bool.and_eq_true, List.all_eq_true] at h
    obtain ⟨f, fs, rfl⟩ := ne_nil_of_not_isEmpty h.1.1.1
    simpa [WdSel.render] using hdays f fs _ (h.1.1.2 f (by simp))

end OH.Proofs.Sent
