/-
Helper lemmas about the model of `UniqueSortedVec` (`OH.Model.SortedVec`).
Everything is generic in an element type with a lawful total order, expressed with the core
classes `Std.TransOrd` (orientation + transitivity of `compare`) and `Std.LawfulEqOrd`
(`compare a b = .eq ↔ a = b`).  Core-only: the classes live in `Init`.
-/
import OH.Model.SortedVec
namespace OH.Proofs.SortedVec
open OH.Model.SortedVec Std

set_option linter.unusedSectionVars false

variable {α : Type} [Ord α]

/-- strictly increasing -/
def Sorted (l : List α) : Prop := l.Pairwise (fun a b => compare a b = .lt)

/-- weakly increasing (the state between `sort_unstable` and `dedup`) -/
def SortedLE (l : List α) : Prop := l.Pairwise (fun a b => compare a b ≠ .gt)

instance (l : List α) : Decidable (Sorted l) := inferInstanceAs (Decidable (List.Pairwise _ _))
instance (l : List α) : Decidable (SortedLE l) := inferInstanceAs (Decidable (List.Pairwise _ _))

/-! ### order facts -/
section order
variable [TransOrd α] [LawfulEqOrd α]

theorem lt_irrefl' (a : α) : compare a a ≠ .lt := by
  rw [ReflCmp.compare_self (cmp := compare)]; decide

theorem lt_trans' {a b c : α} (h1 : compare a b = .lt) (h2 : compare b c = .lt) :
    compare a c = .lt := TransCmp.lt_trans h1 h2

theorem lt_asymm' {a b : α} (h1 : compare a b = .lt) (h2 : compare b a = .lt) : False :=
  lt_irrefl' a (lt_trans' h1 h2)

theorem gt_iff_lt' {a b : α} : compare a b = .gt ↔ compare b a = .lt := OrientedCmp.gt_iff_lt

/-- `a < b ≤ c → a < c` -/
theorem lt_of_lt_of_not_gt {a b c : α} (h1 : compare a b = .lt) (h2 : compare b c ≠ .gt) :
    compare a c = .lt := by
  cases h : compare b c with
  | lt => exact lt_trans' h1 h
  | eq => rw [← LawfulEqCmp.eq_of_compare h]; exact h1
  | gt => exact absurd h h2

/-- `a ≤ b < c → a < c` -/
theorem lt_of_not_gt_of_lt {a b c : α} (h1 : compare a b ≠ .gt) (h2 : compare b c = .lt) :
    compare a c = .lt := by
  cases h : compare a b with
  | lt => exact lt_trans' h h2
  | eq => rw [LawfulEqCmp.eq_of_compare h]; exact h2
  | gt => exact absurd h h1

theorem not_gt_trans {a b c : α} (h1 : compare a b ≠ .gt) (h2 : compare b c ≠ .gt) :
    compare a c ≠ .gt := by
  cases h : compare a b with
  | lt => rw [lt_of_lt_of_not_gt h h2]; decide
  | eq => rw [LawfulEqCmp.eq_of_compare h]; exact h2
  | gt => exact absurd h h1

/-- trichotomy in the form used below -/
theorem eq_of_not_lt_not_lt {a b : α} (h1 : compare a b ≠ .lt) (h2 : compare b a ≠ .lt) : a = b := by
  cases h : compare a b with
  | lt => exact absurd h h1
  | eq => exact LawfulEqCmp.eq_of_compare h
  | gt => exact absurd (gt_iff_lt'.mp h) h2

end order

/-! ### `Sorted` basics -/
section sorted
variable [TransOrd α] [LawfulEqOrd α]

theorem sorted_nil : Sorted ([] : List α) := List.Pairwise.nil

theorem sorted_singleton (x : α) : Sorted [x] := List.pairwise_singleton _ _

theorem sorted_cons {x : α} {l : List α} :
    Sorted (x :: l) ↔ (∀ y ∈ l, compare x y = .lt) ∧ Sorted l := List.pairwise_cons

theorem sorted_append {a b : List α} :
    Sorted (a ++ b) ↔ Sorted a ∧ Sorted b ∧ ∀ x ∈ a, ∀ y ∈ b, compare x y = .lt :=
  List.pairwise_append

theorem sorted_snoc {l : List α} {x : α} :
    Sorted (l ++ [x]) ↔ Sorted l ∧ ∀ y ∈ l, compare y x = .lt := by
  rw [sorted_append]
  simp [sorted_singleton]

theorem Sorted.sublist {a b : List α} (h : a.Sublist b) (hb : Sorted b) : Sorted a :=
  List.Pairwise.sublist h hb

theorem Sorted.nodup {l : List α} (h : Sorted l) : l.Nodup := by
  unfold Sorted at h
  unfold List.Nodup
  refine List.Pairwise.imp ?_ h
  intro a b hab e
  subst e
  exact lt_irrefl' a hab

theorem Sorted.sortedLE {l : List α} (h : Sorted l) : SortedLE l :=
  List.Pairwise.imp (fun {a b} (hab : compare a b = .lt) => by rw [hab]; decide) h

/-- two strictly increasing lists with the same members are equal -/
theorem sorted_ext {a b : List α} (ha : Sorted a) (hb : Sorted b) (h : ∀ x, x ∈ a ↔ x ∈ b) :
    a = b := by
  induction a generalizing b with
  | nil =>
    cases b with
    | nil => rfl
    | cons y ys => exact absurd ((h y).mpr (List.mem_cons_self ..)) (List.not_mem_nil)
  | cons x xs ih =>
    cases b with
    | nil => exact absurd ((h x).mp (List.mem_cons_self ..)) (List.not_mem_nil)
    | cons y ys =>
      obtain ⟨hx, hxs⟩ := sorted_cons.mp ha
      obtain ⟨hy, hys⟩ := sorted_cons.mp hb
      have exy : x = y := by
        apply eq_of_not_lt_not_lt
        · -- `y ∈ x :: xs`, so `x ≤ y`
          intro hlt
          rcases List.mem_cons.mp ((h x).mp (List.mem_cons_self ..)) with e | hm
          · subst e; exact lt_irrefl' _ hlt
          · exact lt_asymm' hlt (hy x hm)
        · intro hlt
          rcases List.mem_cons.mp ((h y).mpr (List.mem_cons_self ..)) with e | hm
          · subst e; exact lt_irrefl' _ hlt
          · exact lt_asymm' hlt (hx y hm)
      subst exy
      congr 1
      apply ih hxs hys
      intro z
      constructor
      · intro hz
        rcases List.mem_cons.mp ((h z).mp (List.mem_cons_of_mem _ hz)) with e | hm
        · subst e; exact absurd (hx z hz) (lt_irrefl' _)
        · exact hm
      · intro hz
        rcases List.mem_cons.mp ((h z).mpr (List.mem_cons_of_mem _ hz)) with e | hm
        · subst e; exact absurd (hy z hz) (lt_irrefl' _)
        · exact hm

end sorted

/-! ### `From<Vec<T>>`: `sort_unstable` then `dedup` -/
section fromVec
variable [TransOrd α] [LawfulEqOrd α]

theorem mem_insertSorted {x y : α} {l : List α} : y ∈ insertSorted x l ↔ y = x ∨ y ∈ l := by
  induction l with
  | nil => simp [insertSorted]
  | cons z zs ih =>
    unfold insertSorted
    split
    · simp only [List.mem_cons, ih]
      constructor
      · rintro (h | h | h) <;> simp [h]
      · rintro (h | h | h) <;> simp [h]
    · simp

theorem sortedLE_insertSorted {x : α} {l : List α} (h : SortedLE l) : SortedLE (insertSorted x l) := by
  induction l with
  | nil => exact List.pairwise_singleton _ _
  | cons z zs ih =>
    obtain ⟨hz, hzs⟩ := List.pairwise_cons.mp h
    unfold insertSorted
    split
    · rename_i hgt
      have hgt : compare x z = .gt := by simpa using hgt
      have hzx : compare z x = .lt := gt_iff_lt'.mp hgt
      refine List.pairwise_cons.mpr ⟨?_, ih hzs⟩
      intro y hy
      rcases mem_insertSorted.mp hy with e | hm
      · subst e; rw [hzx]; decide
      · exact hz y hm
    · rename_i hgt
      have hgt : compare x z ≠ .gt := by simpa using hgt
      refine List.pairwise_cons.mpr ⟨?_, h⟩
      intro y hy
      rcases List.mem_cons.mp hy with e | hm
      · subst e; exact hgt
      · exact not_gt_trans hgt (hz y hm)

theorem mem_sort {y : α} {l : List α} : y ∈ sort l ↔ y ∈ l := by
  induction l with
  | nil => simp [sort]
  | cons z zs ih => simp [sort, mem_insertSorted, ih]

theorem sortedLE_sort (l : List α) : SortedLE (sort l) := by
  induction l with
  | nil => exact List.Pairwise.nil
  | cons z zs ih => exact sortedLE_insertSorted ih

theorem mem_dedup {y : α} {l : List α} : y ∈ dedup l ↔ y ∈ l := by
  fun_induction dedup l with
  | case1 => simp
  | case2 => simp
  | case3 x z rest h ih =>
    have h : compare x z = .eq := by simpa using h
    have e : x = z := LawfulEqCmp.eq_of_compare h
    subst e
    rw [ih]; simp
  | case4 x z rest h ih =>
    simp only [List.mem_cons] at ih ⊢
    rw [ih]

theorem sorted_dedup {l : List α} (h : SortedLE l) : Sorted (dedup l) := by
  fun_induction dedup l with
  | case1 => exact sorted_nil
  | case2 x => exact sorted_singleton x
  | case3 x z rest _ ih => exact ih (List.pairwise_cons.mp h).2
  | case4 x z rest hne ih =>
    obtain ⟨hx, hrest⟩ := List.pairwise_cons.mp h
    have hne : compare x z ≠ .eq := by simpa using hne
    have hxz : compare x z = .lt := by
      have := hx z (List.mem_cons_self ..)
      cases hc : compare x z <;> simp_all
    refine sorted_cons.mpr ⟨?_, ih hrest⟩
    intro y hy
    rcases List.mem_cons.mp (mem_dedup.mp hy) with e | hm
    · subst e; exact hxz
    · exact lt_of_lt_of_not_gt hxz ((List.pairwise_cons.mp hrest).1 y hm)

/-- `dedup` does nothing on a strictly increasing list -/
theorem dedup_of_sorted {l : List α} (h : Sorted l) : dedup l = l :=
  sorted_ext (sorted_dedup h.sortedLE) h (fun _ => mem_dedup)

theorem sorted_fromVec (v : List α) : Sorted (fromVec v) := sorted_dedup (sortedLE_sort v)

theorem mem_fromVec {x : α} {v : List α} : x ∈ fromVec v ↔ x ∈ v := by
  unfold fromVec; rw [mem_dedup, mem_sort]

/-- `From<Vec>` is the identity on vectors that are already strictly increasing -/
theorem fromVec_of_sorted {l : List α} (h : Sorted l) : fromVec l = l :=
  sorted_ext (sorted_fromVec l) h (fun _ => mem_fromVec)

end fromVec

/-! ### `union` -/
section union
variable [TransOrd α] [LawfulEqOrd α]

theorem snoc_of_getLast? {a : List α} {t : α} (h : a.getLast? = some t) : a.dropLast ++ [t] = a := by
  have hne : a ≠ [] := by intro e; simp [e] at h
  have e : a.getLast hne = t := by
    rw [List.getLast?_eq_some_getLast hne] at h; exact Option.some.inj h
  rw [← e]; exact List.dropLast_concat_getLast hne

theorem mem_of_getLast? {a : List α} {t : α} (h : a.getLast? = some t) (x : α) :
    x ∈ a ↔ x ∈ a.dropLast ∨ x = t := by
  conv => lhs; rw [← snoc_of_getLast? h]
  simp

/-- a strictly increasing vector split at its last element -/
theorem Sorted.dropLast {a : List α} {t : α} (ha : Sorted a) (h : a.getLast? = some t) :
    Sorted a.dropLast ∧ ∀ y ∈ a.dropLast, compare y t = .lt := by
  rw [← snoc_of_getLast? h] at ha
  exact sorted_snoc.mp ha

theorem Sorted.le_last {a : List α} {t : α} (ha : Sorted a) (h : a.getLast? = some t) :
    ∀ y ∈ a, compare y t ≠ .gt := by
  intro y hy
  rcases (mem_of_getLast? h y).mp hy with hm | e
  · rw [(ha.dropLast h).2 y hm]; decide
  · subst e; rw [ReflCmp.compare_self (cmp := compare)]; decide

theorem Sorted.head_le {a : List α} {x : α} (ha : Sorted a) (h : a.head? = some x) :
    ∀ y ∈ a, compare x y ≠ .gt := by
  cases a with
  | nil => simp at h
  | cons z zs =>
    have e : z = x := by simpa using h
    subst e
    intro y hy
    rcases List.mem_cons.mp hy with e | hm
    · subst e; rw [ReflCmp.compare_self (cmp := compare)]; decide
    · rw [(sorted_cons.mp ha).1 y hm]; decide

/-- concatenation case of `union`: everything in `a` is below everything in `b` -/
theorem sorted_append_of_last_lt_head {a b : List α} {t h : α} (ha : Sorted a) (hb : Sorted b)
    (hl : a.getLast? = some t) (hh : b.head? = some h) (hlt : compare t h = .lt) :
    Sorted (a ++ b) := by
  refine sorted_append.mpr ⟨ha, hb, ?_⟩
  intro x hx y hy
  exact lt_of_lt_of_not_gt (lt_of_not_gt_of_lt (ha.le_last hl x hx) hlt) (hb.head_le hh y hy)

/-- the pushed element is above everything in the recursive result -/
theorem sorted_snoc_of_forall {u : List α} {t : α} (hu : Sorted u)
    (h : ∀ y ∈ u, compare y t = .lt) : Sorted (u ++ [t]) := sorted_snoc.mpr ⟨hu, h⟩

theorem union_spec (a b : List α) (ha : Sorted a) (hb : Sorted b) :
    Sorted (union a b) ∧ ∀ x, x ∈ union a b ↔ x ∈ a ∨ x ∈ b := by
  fun_induction union a b with
  | case1 a b hbn =>
    have : b = [] := by simpa using hbn
    subst this
    exact ⟨ha, by simp⟩
  | case2 a b han _ =>
    have : a = [] := by simpa using han
    subst this
    exact ⟨hb, by simp⟩
  | case3 a b tx ty hta htb hx hy hhb hha hlt =>
    have hlt : compare tx hy = .lt := by simpa using hlt
    exact ⟨sorted_append_of_last_lt_head ha hb hta hhb hlt, by simp⟩
  | case4 a b tx ty hta htb hx hy hhb hha _ hlt =>
    have hlt : compare ty hx = .lt := by simpa using hlt
    refine ⟨sorted_append_of_last_lt_head hb ha htb hha hlt, ?_⟩
    intro x; rw [List.mem_append]; exact Or.comm
  | case5 a b tx ty hta htb hx hy hhb hha _ _ hc ih =>
    obtain ⟨ha', hlast⟩ := ha.dropLast hta
    obtain ⟨hs, hm⟩ := ih ha' hb
    have hyx : compare ty tx = .lt := gt_iff_lt'.mp hc
    refine ⟨sorted_snoc_of_forall hs ?_, ?_⟩
    · intro y hy
      rcases (hm y).mp hy with h | h
      · exact hlast y h
      · exact lt_of_not_gt_of_lt (hb.le_last htb y h) hyx
    · intro x
      rw [List.mem_append, hm x, mem_of_getLast? hta x, List.mem_singleton]
      constructor
      · rintro ((h | h) | h) <;> simp [h]
      · rintro ((h | h) | h) <;> simp [h]
  | case6 a b tx ty hta htb hx hy hhb hha _ _ hc ih =>
    obtain ⟨hb', hlast⟩ := hb.dropLast htb
    obtain ⟨hs, hm⟩ := ih ha hb'
    refine ⟨sorted_snoc_of_forall hs ?_, ?_⟩
    · intro y hy
      rcases (hm y).mp hy with h | h
      · exact lt_of_not_gt_of_lt (ha.le_last hta y h) hc
      · exact hlast y h
    · intro x
      rw [List.mem_append, hm x, mem_of_getLast? htb x, List.mem_singleton]
      constructor
      · rintro ((h | h) | h) <;> simp [h]
      · rintro (h | h | h) <;> simp [h]
  | case7 a b tx ty hta htb hx hy hhb hha _ _ hc ih =>
    obtain ⟨ha', hlasta⟩ := ha.dropLast hta
    obtain ⟨hb', hlastb⟩ := hb.dropLast htb
    obtain ⟨hs, hm⟩ := ih ha' hb'
    have e : tx = ty := LawfulEqCmp.eq_of_compare hc
    subst e
    refine ⟨sorted_snoc_of_forall hs ?_, ?_⟩
    · intro y hy
      rcases (hm y).mp hy with h | h
      · exact hlasta y h
      · exact hlastb y h
    · intro x
      rw [List.mem_append, hm x, mem_of_getLast? hta x, mem_of_getLast? htb x, List.mem_singleton]
      constructor
      · rintro ((h | h) | h) <;> simp [h]
      · rintro ((h | h) | h | h) <;> simp [h]
  | case8 a b tx ty hta htb hno =>
    -- the catch-all arm of the inner match of the model is dead: both operands are non-empty
    exfalso
    cases a with
    | nil => simp at hta
    | cons x xs =>
      cases b with
      | nil => simp at htb
      | cons y ys => exact hno x y rfl rfl

theorem sorted_union {a b : List α} (ha : Sorted a) (hb : Sorted b) : Sorted (union a b) :=
  (union_spec a b ha hb).1

theorem mem_union {a b : List α} (ha : Sorted a) (hb : Sorted b) {x : α} :
    x ∈ union a b ↔ x ∈ a ∨ x ∈ b := (union_spec a b ha hb).2 x

/-- closed form: on its domain `union` is "concatenate, sort, dedup" -/
theorem union_eq_fromVec_append {a b : List α} (ha : Sorted a) (hb : Sorted b) :
    union a b = fromVec (a ++ b) :=
  sorted_ext (sorted_union ha hb) (sorted_fromVec _)
    (fun x => by rw [mem_union ha hb, mem_fromVec, List.mem_append])

end union

/-! ### `binary_search`, `contains`, `find_first_following` -/
section search
variable [TransOrd α] [LawfulEqOrd α]

/-- index form of `Sorted` -/
theorem Sorted.getElem_lt {v : Array α} (h : Sorted v.toList) {i j : Nat} (hij : i < j)
    (hj : j < v.size) : compare (v[i]'(by omega)) v[j] = .lt := by
  have := List.pairwise_iff_getElem.mp h i j (by simp; omega) (by simpa using hj) hij
  simpa using this

theorem Sorted.getElem_not_gt {v : Array α} (h : Sorted v.toList) {i j : Nat} (hij : i ≤ j)
    (hj : j < v.size) : compare (v[i]'(by omega)) v[j] ≠ .gt := by
  rcases Nat.lt_or_eq_of_le hij with hlt | e
  · rw [h.getElem_lt hlt hj]; decide
  · subst e; rw [ReflCmp.compare_self (cmp := compare)]; decide

theorem Sorted.list_getElem_not_gt {l : List α} (h : Sorted l) {i j : Nat} (hij : i ≤ j)
    (hj : j < l.length) : compare (l[i]'(by omega)) l[j] ≠ .gt := by
  rcases Nat.lt_or_eq_of_le hij with hlt | e
  · rw [List.pairwise_iff_getElem.mp h i j (by omega) hj hlt]; decide
  · subst e; rw [ReflCmp.compare_self (cmp := compare)]; decide

/-- The contract of `slice::binary_search` on a strictly increasing slice, for the search window
`[lo, hi)` with everything left of it below `x` and everything right of it above `x`.  The result
`(found, i)` is *determined* by the contract (see `binarySearch_unique`), so the model's probing
strategy (midpoint, early exit on `Equal`) is immaterial. -/
theorem binarySearch_spec (v : Array α) (x : α) (lo hi : Nat) (hs : Sorted v.toList)
    (hlo : lo ≤ hi) (hhi : hi ≤ v.size)
    (hbelow : ∀ j (hj : j < v.size), j < lo → compare v[j] x = .lt)
    (habove : ∀ j (hj : j < v.size), hi ≤ j → compare v[j] x = .gt) :
    (binarySearch v x lo hi).2 ≤ v.size ∧
    (∀ j (hj : j < v.size), j < (binarySearch v x lo hi).2 → compare v[j] x = .lt) ∧
    (∀ j (hj : j < v.size), (binarySearch v x lo hi).2 ≤ j → compare v[j] x ≠ .lt) ∧
    ((binarySearch v x lo hi).1 = true → v[(binarySearch v x lo hi).2]? = some x) ∧
    ((binarySearch v x lo hi).1 = false →
      ∀ j (hj : j < v.size), (binarySearch v x lo hi).2 ≤ j → compare v[j] x = .gt) := by
  fun_induction binarySearch v x lo hi with
  | case1 lo hi hlt mid hnone =>
    -- `v[mid]? = none` cannot happen: `mid < hi ≤ v.size`
    exfalso
    have : mid < v.size := by simp only [mid]; omega
    simp [this] at hnone
  | case2 lo hi hlt mid y hy hc =>
    have hm : mid < v.size := by simp only [mid]; omega
    have ey : v[mid] = y := by simpa [hm] using hy
    have e : y = x := LawfulEqCmp.eq_of_compare hc
    subst e
    refine ⟨Nat.le_of_lt hm, ?_, ?_, ?_, ?_⟩
    · intro j hj hjm
      rw [← ey]; exact hs.getElem_lt hjm hm
    · intro j hj hmj
      show compare v[j] y ≠ .lt
      intro hl
      have := hs.getElem_not_gt hmj hj
      rw [ey] at this
      exact this (gt_iff_lt'.mpr hl)
    · intro _; simpa [hm] using ey
    · intro h; simp at h
  | case3 lo hi hlt mid y hy hc ih =>
    have hm : mid < v.size := by simp only [mid]; omega
    have ey : v[mid] = y := by simpa [hm] using hy
    apply ih (by simp only [mid]; omega) hhi
    · intro j hj hjm
      have := hs.getElem_not_gt (Nat.le_of_lt_succ hjm) hm
      rw [ey] at this
      exact lt_of_not_gt_of_lt this hc
    · exact habove
  | case4 lo hi hlt mid y hy hc ih =>
    have hm : mid < v.size := by simp only [mid]; omega
    have ey : v[mid] = y := by simpa [hm] using hy
    apply ih (by simp only [mid]; omega) (Nat.le_of_lt hm)
    · exact hbelow
    · intro j hj hmj
      have h1 := hs.getElem_not_gt hmj hj
      rw [ey] at h1
      -- `x < y ≤ v[j]`
      exact gt_iff_lt'.mpr (lt_of_lt_of_not_gt (gt_iff_lt'.mp hc) h1)
  | case5 lo hi hnlt =>
    have e : lo = hi := by omega
    subst e
    refine ⟨hhi, hbelow, ?_, ?_, ?_⟩
    · intro j hj hle; rw [habove j hj hle]; decide
    · intro h; simp at h
    · intro _; exact habove

/-- `binary_search` over the whole of a strictly increasing vector, in list terms: the returned
index splits the vector into the elements below `x` and the elements not below `x`, and the flag
says whether the element at the index is `x`. -/
theorem search_spec (l : List α) (x : α) (hs : Sorted l) :
    (binarySearch l.toArray x 0 l.length).2 ≤ l.length ∧
    (∀ j (hj : j < l.length), j < (binarySearch l.toArray x 0 l.length).2 → compare l[j] x = .lt) ∧
    (∀ j (hj : j < l.length), (binarySearch l.toArray x 0 l.length).2 ≤ j → compare l[j] x ≠ .lt) ∧
    ((binarySearch l.toArray x 0 l.length).1 = true →
      l[(binarySearch l.toArray x 0 l.length).2]? = some x) ∧
    ((binarySearch l.toArray x 0 l.length).1 = false →
      ∀ j (hj : j < l.length), (binarySearch l.toArray x 0 l.length).2 ≤ j → compare l[j] x = .gt) := by
  have h := binarySearch_spec l.toArray x 0 l.length (by simpa using hs) (Nat.zero_le _)
    (by simp) (by intro j _ hj; omega) (by intro j hj hle; simp at hj; omega)
  simpa using h

theorem contains_iff_mem {l : List α} {x : α} (hs : Sorted l) : contains l x = true ↔ x ∈ l := by
  obtain ⟨_, hlt, _, hfound, hnot⟩ := search_spec l x hs
  unfold contains
  constructor
  · intro h; exact List.mem_of_getElem? (hfound h)
  · intro hx
    cases hr : (binarySearch l.toArray x 0 l.length).1 with
    | true => rfl
    | false =>
      exfalso
      obtain ⟨k, hk, e⟩ := List.getElem_of_mem hx
      by_cases hki : k < (binarySearch l.toArray x 0 l.length).2
      · have := hlt k hk hki
        rw [e] at this; exact lt_irrefl' x this
      · have := hnot hr k hk (Nat.le_of_not_lt hki)
        rw [e, ReflCmp.compare_self (cmp := compare)] at this; cases this

/-- the first element satisfying a predicate that is false on a prefix and true afterwards -/
theorem find?_eq_getElem?_of_split {p : α → Bool} (l : List α) (i : Nat)
    (h1 : ∀ j (hj : j < l.length), j < i → p l[j] = false)
    (h2 : ∀ j (hj : j < l.length), i ≤ j → p l[j] = true) : l.find? p = l[i]? := by
  induction l generalizing i with
  | nil => simp
  | cons a l ih =>
    cases i with
    | zero =>
      have : p a = true := h2 0 (by simp) (Nat.le_refl _)
      simp [this]
    | succ i =>
      have : p a = false := h1 0 (by simp) (Nat.succ_pos _)
      simp only [List.find?_cons, this, List.getElem?_cons_succ]
      apply ih
      · intro j hj hji
        exact h1 (j + 1) (by simp; omega) (by omega)
      · intro j hj hij
        exact h2 (j + 1) (by simp; omega) (by omega)

/-- closed form: `find_first_following` is a linear scan for the first element not below `x` -/
theorem findFirstFollowing_eq_find? {l : List α} (x : α) (hs : Sorted l) :
    findFirstFollowing l x = l.find? (fun y => compare y x != .lt) := by
  obtain ⟨_, hlt, hge, _, _⟩ := search_spec l x hs
  unfold findFirstFollowing
  symm
  apply find?_eq_getElem?_of_split
  · intro j hj hji; simp [hlt j hj hji]
  · intro j hj hij; simpa using hge j hj hij

theorem findFirstFollowing_eq_some_iff {l : List α} {x y : α} (hs : Sorted l) :
    findFirstFollowing l x = some y ↔
      y ∈ l ∧ compare y x ≠ .lt ∧ ∀ z ∈ l, compare z x ≠ .lt → compare y z ≠ .gt := by
  obtain ⟨_, hlt, hge, _, _⟩ := search_spec l x hs
  unfold findFirstFollowing
  generalize (binarySearch l.toArray x 0 l.length).2 = i at *
  -- the element at index `i` (if any) is below every element that is not below `x`
  have least : ∀ (hi : i < l.length), ∀ z ∈ l, compare z x ≠ .lt → compare l[i] z ≠ .gt := by
    intro hi z hz hzx
    obtain ⟨k, hk, e⟩ := List.getElem_of_mem hz
    subst e
    have hik : i ≤ k := by
      apply Nat.le_of_not_lt; intro hki; exact hzx (hlt k hk hki)
    exact hs.list_getElem_not_gt hik hk
  constructor
  · intro h
    obtain ⟨hi, e⟩ := List.getElem?_eq_some_iff.mp h
    subst e
    exact ⟨List.getElem_mem hi, hge i hi (Nat.le_refl _), least hi⟩
  · rintro ⟨hy, hyx, hmin⟩
    obtain ⟨k, hk, e⟩ := List.getElem_of_mem hy
    have hik : i ≤ k := by
      apply Nat.le_of_not_lt; intro hki; rw [← e] at hyx; exact hyx (hlt k hk hki)
    have hi : i < l.length := by omega
    rw [List.getElem?_eq_getElem hi]
    congr 1
    apply eq_of_not_lt_not_lt
    · intro hl
      exact hmin l[i] (List.getElem_mem hi) (hge i hi (Nat.le_refl _)) (gt_iff_lt'.mpr hl)
    · intro hl
      exact least hi y hy hyx (gt_iff_lt'.mpr hl)

theorem findFirstFollowing_eq_none_iff {l : List α} {x : α} (hs : Sorted l) :
    findFirstFollowing l x = none ↔ ∀ z ∈ l, compare z x = .lt := by
  rw [findFirstFollowing_eq_find? x hs, List.find?_eq_none]
  simp

/-- The documented contract of `slice::binary_search` (`Ok(i)` ↦ `(true, i)`: `i` is the index of a
matching element; `Err(i)` ↦ `(false, i)`: `i` is where `x` could be inserted keeping the order). -/
def SearchContract (l : List α) (x : α) (r : Bool × Nat) : Prop :=
  r.2 ≤ l.length ∧
  (r.1 = true → l[r.2]? = some x) ∧
  (r.1 = false → (∀ j (hj : j < l.length), j < r.2 → compare l[j] x = .lt) ∧
                 (∀ j (hj : j < l.length), r.2 ≤ j → compare l[j] x = .gt))

theorem binarySearch_contract {l : List α} (x : α) (hs : Sorted l) :
    SearchContract l x (binarySearch l.toArray x 0 l.length) := by
  obtain ⟨h1, h2, _, h4, h5⟩ := search_spec l x hs
  exact ⟨h1, h4, fun h => ⟨h2, h5 h⟩⟩

/-- On a strictly increasing vector the contract has exactly one solution: whatever probing
strategy the standard library uses, it returns what the model returns. -/
theorem searchContract_unique {l : List α} {x : α} (hs : Sorted l) {r1 r2 : Bool × Nat}
    (h1 : SearchContract l x r1) (h2 : SearchContract l x r2) : r1 = r2 := by
  obtain ⟨f1, i1⟩ := r1
  obtain ⟨f2, i2⟩ := r2
  obtain ⟨hl1, ht1, hf1⟩ := h1
  obtain ⟨hl2, ht2, hf2⟩ := h2
  simp only at hl1 ht1 hf1 hl2 ht2 hf2
  -- a hit at `i` is incompatible with a miss at `k`
  have clash : ∀ i k : Nat, l[i]? = some x →
      (∀ j (hj : j < l.length), j < k → compare l[j] x = .lt) →
      (∀ j (hj : j < l.length), k ≤ j → compare l[j] x = .gt) → False := by
    intro i k hi hb ha
    obtain ⟨hil, e⟩ := List.getElem?_eq_some_iff.mp hi
    by_cases hik : i < k
    · have := hb i hil hik; rw [e] at this; exact lt_irrefl' x this
    · have := ha i hil (Nat.le_of_not_lt hik)
      rw [e, ReflCmp.compare_self (cmp := compare)] at this; cases this
  cases f1 <;> cases f2
  · -- two misses: the insertion points coincide
    obtain ⟨hb1, ha1⟩ := hf1 rfl
    obtain ⟨hb2, ha2⟩ := hf2 rfl
    have : i1 = i2 := by
      rcases Nat.lt_trichotomy i1 i2 with h | h | h
      · have a := hb2 i1 (by omega) h
        have b := ha1 i1 (by omega) (Nat.le_refl _)
        rw [a] at b; cases b
      · exact h
      · have a := hb1 i2 (by omega) h
        have b := ha2 i2 (by omega) (Nat.le_refl _)
        rw [a] at b; cases b
    rw [this]
  · exact (clash i2 i1 (ht2 rfl) (hf1 rfl).1 (hf1 rfl).2).elim
  · exact (clash i1 i2 (ht1 rfl) (hf2 rfl).1 (hf2 rfl).2).elim
  · -- two hits: strictly increasing vectors have no repeated element
    obtain ⟨hil1, e1⟩ := List.getElem?_eq_some_iff.mp (ht1 rfl)
    obtain ⟨hil2, e2⟩ := List.getElem?_eq_some_iff.mp (ht2 rfl)
    have : i1 = i2 := by
      rcases Nat.lt_trichotomy i1 i2 with h | h | h
      · have := List.pairwise_iff_getElem.mp hs i1 i2 hil1 hil2 h
        rw [e1, e2] at this; exact (lt_irrefl' x this).elim
      · exact h
      · have := List.pairwise_iff_getElem.mp hs i2 i1 hil2 hil1 h
        rw [e1, e2] at this; exact (lt_irrefl' x this).elim
    rw [this]

end search

/-! ### `to_ref` -/
section toRef
variable {β : Type} [Ord β]

/-- `to_ref` keeps the invariant when `Borrow::borrow` preserves the order (the `Borrow` contract) -/
theorem sorted_toRef {f : α → β} (hf : ∀ a b, compare (f a) (f b) = compare a b) {v : List α}
    (hv : Sorted v) : Sorted (toRef f v) := by
  unfold toRef Sorted
  rw [List.pairwise_map]
  exact List.Pairwise.imp (fun {a b} h => by rw [hf]; exact h) hv

end toRef

end OH.Proofs.SortedVec
