/-
Shared by `OH/Props/ArithC01TimeSel*.lean`: the reading of the generated `TimeSel.TimeSpan` / `TimeSel.Time`
(`OH.Generated.Arith.TimeSel.*`, region `[timesel extension]`) as the model's `TimeSpan` / `Time` of `OH/Model/Syntax.lean`.
Definitions and small lemmas only; the tie theorems are in `OH/Props/ArithC01TimeSel.lean`.
-/
import OH.Generated.Arith
import OH.Model.Syntax
namespace OH.Proofs.ArithTimeSel
open OH.Model.RustInt
open OH.Generated.Arith

def toEvent : OH.Generated.Arith.TimeEvent → OH.Model.TimeEvent
  | .Dawn => .dawn | .Sunrise => .sunrise | .Sunset => .sunset | .Dusk => .dusk

/-- `ExtendedTime { hour, minute }` ↦ minutes from midnight (the model's `Time.fixed`) -/
def toTime : TimeSel.Time → OH.Model.Time
  | .Fixed et => .fixed (60 * et.hour + et.minute).toNat
  | .Variable vt => .variable (toEvent vt.event) vt.offset

/-- generated `TimeSpan` ↦ the model's; `mins` reads the abstract `chrono::Duration` as minutes -/
def toSpan {Dur : Type} (mins : Dur → Int) (s : TimeSel.TimeSpan Dur) : OH.Model.TimeSpan :=
  ⟨toTime s.range.start, toTime s.range.«end», s.open_end, s.repeats.map mins⟩

/-- the invariant of `ExtendedTime` (private fields; `ExtendedTime::new` checks it): `u8` fields, `minute < 60` -/
def ValidTime : TimeSel.Time → Prop
  | .Fixed et => 0 ≤ et.hour ∧ 0 ≤ et.minute ∧ et.minute ≤ 59
  | .Variable _ => True

def ValidSpan {Dur : Type} (s : TimeSel.TimeSpan Dur) : Prop := ValidTime s.range.start ∧ ValidTime s.range.«end»

/-- `TimeSpan::fixed_range(MIDNIGHT_00, MIDNIGHT_24)` as a value -/
def gFull {Dur : Type} : TimeSel.TimeSpan Dur :=
  { range := Range.mk (.Fixed ⟨0, 0⟩) (.Fixed ⟨24, 0⟩), open_end := false, repeats := none }

theorem midnight00 : ExtendedTime.MIDNIGHT_00 = .ok ⟨0, 0⟩ := by
  simp [ExtendedTime.MIDNIGHT_00, ExtendedTime.new, bnd]
theorem midnight24 : ExtendedTime.MIDNIGHT_24 = .ok ⟨24, 0⟩ := by
  simp [ExtendedTime.MIDNIGHT_24, ExtendedTime.new, bnd]

theorem toTime_fixed_iff (t : TimeSel.Time) (hv : ValidTime t) (h m : Int) (hh : 0 ≤ h) (hm : 0 ≤ m) (hm' : m ≤ 59) :
    toTime t = .fixed (60 * h + m).toNat ↔ t = .Fixed ⟨h, m⟩ := by
  cases t with
  | Fixed et =>
    obtain ⟨eh, em⟩ := et
    simp only [ValidTime] at hv
    simp only [toTime, OH.Model.Time.fixed.injEq, TimeSel.Time.Fixed.injEq, ExtendedTime.mk.injEq]
    omega
  | Variable vt => simp [toTime]

theorem toSpan_full {Dur : Type} (mins : Dur → Int) : toSpan mins (gFull : TimeSel.TimeSpan Dur) = OH.Model.TimeSpan.fullDay := by
  simp [toSpan, gFull, toTime, OH.Model.TimeSpan.fullDay]

theorem toSpan_eq_full_iff {Dur : Type} (mins : Dur → Int) (s : TimeSel.TimeSpan Dur) (hv : ValidSpan s) :
    toSpan mins s = OH.Model.TimeSpan.fullDay ↔ s = gFull := by
  obtain ⟨⟨a, b⟩, oe, rp⟩ := s
  have ha := toTime_fixed_iff a hv.1 0 0 (by omega) (by omega) (by omega)
  have hb := toTime_fixed_iff b hv.2 24 0 (by omega) (by omega) (by omega)
  simp only [toSpan, OH.Model.TimeSpan.fullDay, OH.Model.TimeSpan.mk.injEq, gFull, TimeSel.TimeSpan.mk.injEq, Range.mk.injEq]
  have e0 : ((60 : Int) * 0 + 0).toNat = 0 := by decide
  have e24 : ((60 : Int) * 24 + 0).toNat = 1440 := by decide
  rw [e0] at ha
  rw [e24] at hb
  rw [ha, hb]
  cases rp <;> simp [and_assoc]

end OH.Proofs.ArithTimeSel
