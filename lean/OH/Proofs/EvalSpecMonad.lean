import OH.Model.Eval
/-
C01 refinement, layer 1: plumbing lemmas for the `M = Except String` helpers of the evaluator model
(`anyM`, `listFilter`, `mapM'`, `foldM'`): when every call succeeds with a known pure value, the
monadic traversal is the pure traversal.  Core tactics only.
-/
namespace OH.Proofs.EvalSpec
open OH.Model

@[simp] theorem ok_bind {α β} (a : α) (f : α → M β) : (Except.ok a >>= f) = f a := rfl

@[simp] theorem pure_eq_ok {α} (a : α) : (pure a : M α) = .ok a := rfl

/-- `anyM` with a total, pure step is `List.any` -/
theorem anyM_ok {α} (f : α → M Bool) (g : α → Bool) (l : List α)
    (h : ∀ x ∈ l, f x = .ok (g x)) : anyM f l = .ok (l.any g) := by
  induction l with
  | nil => rfl
  | cons x xs ih =>
    have hx := h x (by simp)
    have ih' := ih (fun y hy => h y (by simp [hy]))
    simp only [anyM, hx, ok_bind, List.any_cons]
    cases g x <;> simp [ih']

/-- `impl DateFilter for [T]`: empty ⇒ true, else any -/
theorem listFilter_ok {α} (f : α → M Bool) (g : α → Bool) (l : List α)
    (h : ∀ x ∈ l, f x = .ok (g x)) : listFilter f l = .ok (l.isEmpty || l.any g) := by
  unfold listFilter
  cases l with
  | nil => rfl
  | cons x xs => simp only [List.isEmpty_cons, Bool.false_or]; exact anyM_ok f g _ h

theorem mapM'_ok {α β} (f : α → M β) (g : α → β) (l : List α)
    (h : ∀ x ∈ l, f x = .ok (g x)) : mapM' f l = .ok (l.map g) := by
  induction l with
  | nil => rfl
  | cons x xs ih =>
    have hx := h x (by simp)
    have ih' := ih (fun y hy => h y (by simp [hy]))
    simp only [mapM', hx, ih', ok_bind, pure_eq_ok, List.map_cons]

/-- `foldM'` with a total, pure step is `List.foldl` -/
theorem foldM'_ok {σ α} (f : σ → α → M σ) (g : σ → α → σ) (l : List α) (s : σ)
    (h : ∀ s, ∀ x ∈ l, f s x = .ok (g s x)) : foldM' f s l = .ok (l.foldl g s) := by
  induction l generalizing s with
  | nil => rfl
  | cons x xs ih =>
    simp only [foldM', h s x (by simp), ok_bind, List.foldl_cons]
    exact ih _ (fun s y hy => h s y (by simp [hy]))

/-- `foldM'` against a pure fold on another state space, related by an invariant `I` that every
step (which must succeed on related states) preserves -/
theorem foldM'_inv {σ τ α} (I : σ → τ → Prop) (f : σ → α → M σ) (g : τ → α → τ) (l : List α)
    (h : ∀ s t, ∀ x ∈ l, I s t → ∃ s', f s x = .ok s' ∧ I s' (g t x))
    (s : σ) (t : τ) (h0 : I s t) : ∃ s', foldM' f s l = .ok s' ∧ I s' (l.foldl g t) := by
  induction l generalizing s t with
  | nil => exact ⟨s, rfl, h0⟩
  | cons x xs ih =>
    obtain ⟨s1, e1, i1⟩ := h s t x (by simp) h0
    simp only [foldM', e1, ok_bind, List.foldl_cons]
    exact ih (fun s t y hy => h s t y (by simp [hy])) s1 (g t x) i1

end OH.Proofs.EvalSpec
