import OH.Proofs.HintDated
/-
Layer B — dated ranges, part S3: the general path (`intervals_from_bounds` on the projections of the
two bounds on the years around the day) under *year-locality*: the shifted projection of each bound
on year `k` lies in calendar year `k`.

Under that hypothesis the interval list built on any window of consecutive years is explicit
(`ivsGo`): the start of year `k` pairs with the end of year `k` if it is not after it, else with the
end of year `k + 1` (`dateEnd` on the last year of the window), plus one trailing artefact
`(dateStart, last end)`.  The first interval ending at or after a day of year `y` is one of those of
years `y - 1, y, y + 1`, the same in every window containing these three years, hence the filter
(window `y-2..y+2`) and the hint (window `y-2..y+10`) read the same interval (`window_eq_resV'` is
generic in the window: `1 ≤ before ≤ 2`, `1 ≤ after ≤ 10`).
-/
namespace OH.Model
open OH.Model.Cal

/-- year-locality of two sequences of bounds on the years `lo … hi` -/
structure YL (a b : Int → Int) (lo hi : Int) : Prop where
  a1 : ∀ j, lo ≤ j → j ≤ hi → yearStart j < a j
  a2 : ∀ j, lo ≤ j → j ≤ hi → a j ≤ yearStart (j + 1)
  b1 : ∀ j, lo ≤ j → j ≤ hi → yearStart j < b j
  b2 : ∀ j, lo ≤ j → j ≤ hi → b j ≤ yearStart (j + 1)
  hi_le : hi ≤ 10010

theorem yearStart_10011 : yearStart 10011 = 3656077 := by decide

theorem YL.b_lt_max {a b : Int → Int} {lo hi : Int} (h : YL a b lo hi) (j : Int) (h1 : lo ≤ j) (h2 : j ≤ hi) :
    succ? (b j) = some (b j + 1) := by
  have := h.b2 j h1 h2
  have := h.hi_le
  have := yearStart_le (a := j + 1) (b := 10011) (by omega)
  have := yearStart_10011
  have := maxDay_eq
  rw [succ?_eq_some_iff]; omega

/-! ### `ensure_increasing_iter` is the identity -/

theorem ensureIncAux_local (a : Int → Int) (k : Int) (n : Nat) (last : Int) (hlast : last ≤ yearStart k)
    (h1 : ∀ j, k ≤ j → j < k + n → yearStart j < a j) (h2 : ∀ j, k ≤ j → j < k + n → a j ≤ yearStart (j + 1)) :
    ensureIncAux last ((yearsFrom k n).map a) = (yearsFrom k n).map a := by
  induction n generalizing k last with
  | zero => rfl
  | succ n ih =>
    simp only [yearsFrom, List.map_cons, ensureIncAux]
    have := h1 k (by omega) (by omega)
    rw [if_neg (by omega)]
    rw [ih (k + 1) (a k) (h2 k (by omega) (by omega)) (fun j x y => h1 j (by omega) (by omega))
      (fun j x y => h2 j (by omega) (by omega))]

theorem ensureIncreasing_local (a : Int → Int) (k : Int) (n : Nat)
    (h1 : ∀ j, k ≤ j → j < k + n → yearStart j < a j) (h2 : ∀ j, k ≤ j → j < k + n → a j ≤ yearStart (j + 1)) :
    ensureIncreasing ((yearsFrom k n).map a) = (yearsFrom k n).map a := by
  cases n with
  | zero => rfl
  | succ n =>
    simp only [yearsFrom, List.map_cons, ensureIncreasing]
    rw [ensureIncAux_local a (k + 1) n (a k) (h2 k (by omega) (by omega)) (fun j x y => h1 j (by omega) (by omega))
      (fun j x y => h2 j (by omega) (by omega))]

/-! ### the interval list is explicit -/

/-- the intervals built from the bounds of the years `k, …, k + n - 1`, `pre` being the ends left
over from earlier years -/
def ivsGo (a b : Int → Int) : List Int → Int → Nat → List (Int × Int)
  | pre, _, 0 => pre.map (fun x => (dateStart, x))
  | _, k, n + 1 =>
    if a k ≤ b k then (a k, b k) :: ivsGo a b (if a k = b k then [] else [b k]) (k + 1) n
    else (a k, if n = 0 then dateEnd else b (k + 1)) :: ivsGo a b [] (k + 1) n

theorem intervalsGo_nil (es : List Int) : intervalsGo [] es = es.map (fun x => (dateStart, x)) := by
  induction es with
  | nil => exact intervalsGo_nil_nil
  | cons e es ih => rw [intervalsGo_nil_cons, ih]; rfl

theorem dropWhile_append_all {α} (p : α → Bool) (pre l : List α) (h : ∀ x ∈ pre, p x = true) :
    (pre ++ l).dropWhile p = l.dropWhile p := by
  induction pre with
  | nil => rfl
  | cons x xs ih =>
    simp only [List.cons_append, List.dropWhile_cons]
    rw [if_pos (h x (by simp))]
    exact ih (fun y hy => h y (by simp [hy]))

theorem intervalsGo_local (a b : Int → Int) (lo hi : Int) (hl : YL a b lo hi) (k : Int) (n : Nat) (pre : List Int)
    (hk : lo ≤ k) (hn : k + n ≤ hi + 1) (hpre : ∀ x ∈ pre, x ≤ yearStart k) :
    intervalsGo ((yearsFrom k n).map a) (pre ++ (yearsFrom k n).map b) = ivsGo a b pre k n := by
  induction n generalizing k pre with
  | zero => simp only [yearsFrom, List.map_nil, List.append_nil, ivsGo]; exact intervalsGo_nil pre
  | succ n ih =>
    simp only [yearsFrom, List.map_cons]
    have A1 := hl.a1 k hk (by omega)
    have A2 := hl.a2 k hk (by omega)
    have B1 := hl.b1 k hk (by omega)
    have B2 := hl.b2 k hk (by omega)
    have hdrop : ∀ l, (pre ++ l).dropWhile (· < a k) = l.dropWhile (· < a k) := by
      intro l
      apply dropWhile_append_all
      intro x hx
      have := hpre x hx
      simp only [decide_eq_true_eq]; omega
    by_cases hab : a k ≤ b k
    · have hdw : (pre ++ b k :: (yearsFrom (k + 1) n).map b).dropWhile (· < a k) = b k :: (yearsFrom (k + 1) n).map b := by
        rw [hdrop, List.dropWhile_cons, if_neg (by simp only [decide_eq_true_eq]; omega)]
      rw [intervalsGo_cons_cons _ _ _ _ _ hdw]
      simp only [ivsGo, if_pos hab]
      by_cases heq : a k = b k
      · rw [if_pos (by simpa using heq), if_pos heq]
        have := ih (k + 1) [] (by omega) (by omega) (by simp)
        rw [List.nil_append] at this
        rw [this]
      · rw [if_neg (by simpa using heq), if_neg heq]
        have := ih (k + 1) [b k] (by omega) (by omega) (by simp; omega)
        rw [List.singleton_append] at this
        rw [this]
    · cases n with
      | zero =>
        have hdw : (pre ++ b k :: (yearsFrom (k + 1) 0).map b).dropWhile (· < a k) = [] := by
          rw [hdrop, List.dropWhile_cons, if_pos (by simp only [decide_eq_true_eq]; omega)]
          rfl
        rw [intervalsGo_cons_nil _ _ _ hdw]
        simp only [ivsGo, if_neg hab, yearsFrom, List.map_nil, List.map_nil, if_true]
        rw [intervalsGo_nil_nil]
      | succ n =>
        have A1' := hl.a1 (k + 1) (by omega) (by omega)
        have B1' := hl.b1 (k + 1) (by omega) (by omega)
        have hdw : (pre ++ b k :: (yearsFrom (k + 1) (n + 1)).map b).dropWhile (· < a k) =
            b (k + 1) :: (yearsFrom (k + 1 + 1) n).map b := by
          rw [hdrop, List.dropWhile_cons, if_pos (by simp only [decide_eq_true_eq]; omega)]
          simp only [yearsFrom, List.map_cons]
          rw [List.dropWhile_cons, if_neg (by simp only [decide_eq_true_eq]; omega)]
        rw [intervalsGo_cons_cons _ _ _ _ _ hdw]
        rw [if_neg (by simp only [beq_iff_eq]; omega)]
        have := ih (k + 1) [] (by omega) (by omega) (by simp)
        rw [List.nil_append] at this
        rw [← show (yearsFrom (k + 1) (n + 1)).map b = b (k + 1) :: (yearsFrom (k + 1 + 1) n).map b from rfl, this]
        conv => rhs; rw [ivsGo]
        rw [if_neg hab, if_neg (by omega)]

theorem intervalsFromBounds_local (a b : Int → Int) (lo hi : Int) (hl : YL a b lo hi) (k : Int) (n : Nat)
    (hk : lo ≤ k) (hn : k + n ≤ hi + 1) :
    intervalsFromBounds ((yearsFrom k n).map a) ((yearsFrom k n).map b) = ivsGo a b [] k n := by
  unfold intervalsFromBounds
  rw [ensureIncreasing_local a k n (fun j x y => hl.a1 j (by omega) (by omega)) (fun j x y => hl.a2 j (by omega) (by omega)),
    ensureIncreasing_local b k n (fun j x y => hl.b1 j (by omega) (by omega)) (fun j x y => hl.b2 j (by omega) (by omega))]
  have := intervalsGo_local a b lo hi hl k n [] hk hn (by simp)
  rw [List.nil_append] at this
  exact this

/-! ### the first interval ending at or after a day -/

/-- what `is_open_from_intervals` and `next_change_from_intervals` make of the first interval found -/
def resOf (d : Int) : Option (Int × Int) → Bool × Int
  | none => (false, dateEnd)
  | some r => (decide (r.1 ≤ d) && decide (d ≤ r.2), if r.1 ≤ d then (succ? r.2).getD dateEnd else r.1)

theorem isOpen_eq_resOf (d : Int) (l : List (Int × Int)) :
    isOpenFromIntervals d l = (resOf d (l.find? (fun r => r.2 ≥ d))).1 := by
  unfold isOpenFromIntervals
  cases l.find? (fun r => r.2 ≥ d) <;> rfl

theorem nextChange_eq_resOf (d : Int) (l : List (Int × Int)) :
    nextChangeFromIntervals d l = (resOf d (l.find? (fun r => r.2 ≥ d))).2 := by
  unfold nextChangeFromIntervals
  cases l.find? (fun r => r.2 ≥ d) <;> rfl

/-- the answer read on the intervals of years `k` and `k + 1`, for a day of year `k` -/
def resY (a b : Int → Int) (d k : Int) : Bool × Int :=
  if a k ≤ b k then
    (if d ≤ b k then (decide (a k ≤ d), if a k ≤ d then b k + 1 else a k) else (false, a (k + 1)))
  else (decide (a k ≤ d), if a k ≤ d then b (k + 1) + 1 else a k)

/-- the answer for a day of year `k + 1` -/
def resV' (a b : Int → Int) (d k : Int) : Bool × Int :=
  if b k < a k ∧ d ≤ b (k + 1) then (true, b (k + 1) + 1) else resY a b d (k + 1)

theorem find_y1 (a b : Int → Int) (lo hi : Int) (hl : YL a b lo hi) (d : Int) (hd2 : d < dateEnd) (k : Int) (n : Nat)
    (pre : List Int) (hk : lo ≤ k) (hn : k + (n + 1 : Nat) ≤ hi + 1) (hd : d ≤ yearStart k) :
    resOf d ((ivsGo a b pre k (n + 1)).find? (fun r => r.2 ≥ d)) = (false, a k) := by
  have A1 := hl.a1 k hk (by omega)
  have B1 := hl.b1 k hk (by omega)
  simp only [ivsGo]
  split
  · rw [List.find?_cons_of_pos (by simp only [decide_eq_true_eq]; omega)]
    simp only [resOf]
    rw [if_neg (by omega)]
    simp; omega
  · by_cases h0 : n = 0
    · rw [if_pos h0, List.find?_cons_of_pos (by simp only [decide_eq_true_eq]; omega)]
      simp only [resOf]
      rw [if_neg (by omega)]
      simp; omega
    · have B1' := hl.b1 (k + 1) (by omega) (by omega)
      have := yearStart_lt (a := k) (b := k + 1) (by omega)
      rw [if_neg h0, List.find?_cons_of_pos (by simp only [decide_eq_true_eq]; omega)]
      simp only [resOf]
      rw [if_neg (by omega)]
      simp; omega

theorem find_y (a b : Int → Int) (lo hi : Int) (hl : YL a b lo hi) (d : Int) (hd2 : d < dateEnd) (k : Int) (n : Nat)
    (pre : List Int) (hk : lo ≤ k) (hn : k + (n + 2 : Nat) ≤ hi + 1) (h1 : yearStart k < d) (h2 : d ≤ yearStart (k + 1)) :
    resOf d ((ivsGo a b pre k (n + 2)).find? (fun r => r.2 ≥ d)) = resY a b d k := by
  have A1 := hl.a1 k hk (by omega)
  have B1 := hl.b1 k hk (by omega)
  have A2 := hl.a2 k hk (by omega)
  have B2 := hl.b2 k hk (by omega)
  have B1' := hl.b1 (k + 1) (by omega) (by omega)
  have S := hl.b_lt_max k hk (by omega)
  have S' := hl.b_lt_max (k + 1) (by omega) (by omega)
  rw [show n + 2 = (n + 1) + 1 from rfl, ivsGo]
  unfold resY
  by_cases hab : a k ≤ b k
  · rw [if_pos hab, if_pos hab]
    by_cases hdb : d ≤ b k
    · rw [List.find?_cons_of_pos (by simp only [decide_eq_true_eq]; omega), if_pos hdb]
      simp only [resOf, S, Option.getD_some]
      have : decide (d ≤ b k) = true := by simpa using hdb
      rw [this, Bool.and_true]
    · rw [List.find?_cons_of_neg (by simp only [decide_eq_true_eq]; omega), if_neg hdb]
      exact find_y1 a b lo hi hl d hd2 (k + 1) n _ (by omega) (by omega) h2
  · rw [if_neg hab, if_neg hab, if_neg (by omega)]
    rw [List.find?_cons_of_pos (by simp only [decide_eq_true_eq]; omega)]
    simp only [resOf, S', Option.getD_some]
    have : decide (d ≤ b (k + 1)) = true := by simp; omega
    rw [this, Bool.and_true]

theorem find_ym1 (a b : Int → Int) (lo hi : Int) (hl : YL a b lo hi) (d : Int) (hd2 : d < dateEnd) (k : Int) (n : Nat)
    (pre : List Int) (hk : lo ≤ k) (hn : k + (n + 3 : Nat) ≤ hi + 1) (h1 : yearStart (k + 1) < d)
    (h2 : d ≤ yearStart (k + 1 + 1)) :
    resOf d ((ivsGo a b pre k (n + 3)).find? (fun r => r.2 ≥ d)) = resV' a b d k := by
  have A2 := hl.a2 k hk (by omega)
  have B2 := hl.b2 k hk (by omega)
  have A1' := hl.a1 (k + 1) (by omega) (by omega)
  have B1' := hl.b1 (k + 1) (by omega) (by omega)
  have B2' := hl.b2 (k + 1) (by omega) (by omega)
  have S' := hl.b_lt_max (k + 1) (by omega) (by omega)
  rw [show n + 3 = (n + 2) + 1 from rfl, ivsGo]
  unfold resV'
  by_cases hab : a k ≤ b k
  · rw [if_pos hab, if_neg (show ¬ (b k < a k ∧ d ≤ b (k + 1)) by omega)]
    rw [List.find?_cons_of_neg (by simp only [decide_eq_true_eq]; omega)]
    exact find_y a b lo hi hl d hd2 (k + 1) n _ (by omega) (by omega) h1 h2
  · rw [if_neg hab, if_neg (show ¬ (n + 2 = 0) by omega)]
    by_cases hdb : d ≤ b (k + 1)
    · rw [List.find?_cons_of_pos (by simp only [decide_eq_true_eq]; omega), if_pos ⟨by omega, hdb⟩]
      simp only [resOf, S', Option.getD_some]
      rw [if_pos (by omega)]
      simp; omega
    · rw [List.find?_cons_of_neg (by simp only [decide_eq_true_eq]; omega),
        if_neg (show ¬ (b k < a k ∧ d ≤ b (k + 1)) by omega)]
      exact find_y a b lo hi hl d hd2 (k + 1) n _ (by omega) (by omega) h1 h2

/-- on any window `k … k + n - 1` containing the years `y - 1, y, y + 1` of a day `d` of year `y`,
the first interval ending at or after `d` gives `resV'` -/
theorem find_window (a b : Int → Int) (lo hi : Int) (hl : YL a b lo hi) (d : Int) (hd2 : d < dateEnd) (y : Int)
    (h1 : yearStart (y + 1) < d) (h2 : d ≤ yearStart (y + 1 + 1)) (k : Int) (n : Nat) (pre : List Int)
    (hk : lo ≤ k) (hky : k ≤ y) (hn : k + n ≤ hi + 1) (hyn : y + 3 ≤ k + n) :
    resOf d ((ivsGo a b pre k n).find? (fun r => r.2 ≥ d)) = resV' a b d y := by
  induction n generalizing k pre with
  | zero => omega
  | succ n ih =>
    by_cases hk' : k = y
    · subst hk'
      obtain ⟨n', rfl⟩ : ∃ n', n = n' + 2 := ⟨n - 2, by omega⟩
      exact find_ym1 a b lo hi hl d hd2 k n' pre hk (by omega) h1 h2
    · -- the interval of year `k < y` ends before `d`
      have B2 := hl.b2 k hk (by omega)
      have B2' := hl.b2 (k + 1) (by omega) (by omega)
      have m1 := yearStart_le (a := k + 1) (b := y + 1) (by omega)
      have m2 := yearStart_le (a := k + 1 + 1) (b := y + 1) (by omega)
      rw [ivsGo]
      split
      · rw [List.find?_cons_of_neg (by simp only [decide_eq_true_eq]; omega)]
        exact ih (k + 1) _ (by omega) (by omega) (by omega) (by omega)
      · rw [if_neg (by omega), List.find?_cons_of_neg (by simp only [decide_eq_true_eq]; omega)]
        exact ih (k + 1) _ (by omega) (by omega) (by omega) (by omega)

/-! ### soundness of the explicit answer -/

/-- a day `d` of year `k + 1` is selected -/
def openP (a b : Int → Int) (d k : Int) : Prop :=
  (b k < a k ∧ d ≤ b (k + 1)) ∨ (a (k + 1) ≤ b (k + 1) ∧ a (k + 1) ≤ d ∧ d ≤ b (k + 1)) ∨
    (b (k + 1) < a (k + 1) ∧ a (k + 1) ≤ d)

theorem resV'_fst (a b : Int → Int) (d k : Int) : (resV' a b d k).1 = true ↔ openP a b d k := by
  unfold resV' resY openP
  split
  · simp only [true_iff]; omega
  · split
    · split
      · simp only [decide_eq_true_eq]; omega
      · simp only [Bool.false_eq_true, false_iff]; omega
    · simp only [decide_eq_true_eq]; omega

theorem resV'_snd (a b : Int → Int) (d k : Int) :
    ((b k < a k ∧ d ≤ b (k + 1)) → (resV' a b d k).2 = b (k + 1) + 1) ∧
    (¬ (b k < a k ∧ d ≤ b (k + 1)) → a (k + 1) ≤ b (k + 1) → d ≤ b (k + 1) → a (k + 1) ≤ d →
      (resV' a b d k).2 = b (k + 1) + 1) ∧
    (¬ (b k < a k ∧ d ≤ b (k + 1)) → a (k + 1) ≤ b (k + 1) → d ≤ b (k + 1) → ¬ a (k + 1) ≤ d →
      (resV' a b d k).2 = a (k + 1)) ∧
    (¬ (b k < a k ∧ d ≤ b (k + 1)) → a (k + 1) ≤ b (k + 1) → ¬ d ≤ b (k + 1) →
      (resV' a b d k).2 = a (k + 1 + 1)) ∧
    (¬ (b k < a k ∧ d ≤ b (k + 1)) → ¬ a (k + 1) ≤ b (k + 1) → a (k + 1) ≤ d →
      (resV' a b d k).2 = b (k + 1 + 1) + 1) ∧
    (¬ (b k < a k ∧ d ≤ b (k + 1)) → ¬ a (k + 1) ≤ b (k + 1) → ¬ a (k + 1) ≤ d →
      (resV' a b d k).2 = a (k + 1)) := by
  unfold resV' resY
  refine ⟨?_, ?_, ?_, ?_, ?_, ?_⟩
  · intro h; rw [if_pos h]
  · intro h1 h2 h3 h4; rw [if_neg h1, if_pos h2, if_pos h3, if_pos h4]
  · intro h1 h2 h3 h4; rw [if_neg h1, if_pos h2, if_pos h3, if_neg h4]
  · intro h1 h2 h3; rw [if_neg h1, if_pos h2, if_neg h3]
  · intro h1 h2 h3; rw [if_neg h1, if_neg h2, if_pos h3]
  · intro h1 h2 h3; rw [if_neg h1, if_neg h2, if_neg h3]

theorem resV'_sound (a b : Int → Int) (lo hi : Int) (hl : YL a b lo hi) (d k : Int) (hk : lo ≤ k) (hhi : k + 3 ≤ hi)
    (h1 : yearStart (k + 1) < d) (h2 : d ≤ yearStart (k + 1 + 1)) :
    d < (resV' a b d k).2 ∧
    ∀ d', d ≤ d' → d' < (resV' a b d k).2 →
      (d' ≤ yearStart (k + 1 + 1) ∧ (openP a b d' k ↔ openP a b d k)) ∨
      (yearStart (k + 1 + 1) < d' ∧ d' ≤ yearStart (k + 1 + 1 + 1) ∧ (openP a b d' (k + 1) ↔ openP a b d k)) := by
  have A1 := hl.a1 k hk (by omega)
  have A2 := hl.a2 k hk (by omega)
  have B1 := hl.b1 k hk (by omega)
  have B2 := hl.b2 k hk (by omega)
  have A1' := hl.a1 (k + 1) (by omega) (by omega)
  have A2' := hl.a2 (k + 1) (by omega) (by omega)
  have B1' := hl.b1 (k + 1) (by omega) (by omega)
  have B2' := hl.b2 (k + 1) (by omega) (by omega)
  have A1'' := hl.a1 (k + 1 + 1) (by omega) (by omega)
  have A2'' := hl.a2 (k + 1 + 1) (by omega) (by omega)
  have B1'' := hl.b1 (k + 1 + 1) (by omega) (by omega)
  have B2'' := hl.b2 (k + 1 + 1) (by omega) (by omega)
  have A1''' := hl.a1 (k + 1 + 1 + 1) (by omega) (by omega)
  have B1''' := hl.b1 (k + 1 + 1 + 1) (by omega) (by omega)
  obtain ⟨n1, n2, n3, n4, n5, n6⟩ := resV'_snd a b d k
  generalize (resV' a b d k).2 = x at *
  -- the six cases of the answer
  have fin : ∀ (P : Prop), (∀ v, x = v → (v = b (k + 1) + 1 ∧ (b k < a k ∧ d ≤ b (k + 1))) ∨
      (v = b (k + 1) + 1 ∧ ¬ (b k < a k ∧ d ≤ b (k + 1)) ∧ a (k + 1) ≤ b (k + 1) ∧ d ≤ b (k + 1) ∧ a (k + 1) ≤ d) ∨
      (v = a (k + 1) ∧ ¬ (b k < a k ∧ d ≤ b (k + 1)) ∧ a (k + 1) ≤ b (k + 1) ∧ d ≤ b (k + 1) ∧ ¬ a (k + 1) ≤ d) ∨
      (v = a (k + 1 + 1) ∧ ¬ (b k < a k ∧ d ≤ b (k + 1)) ∧ a (k + 1) ≤ b (k + 1) ∧ ¬ d ≤ b (k + 1)) ∨
      (v = b (k + 1 + 1) + 1 ∧ ¬ (b k < a k ∧ d ≤ b (k + 1)) ∧ ¬ a (k + 1) ≤ b (k + 1) ∧ a (k + 1) ≤ d) ∨
      (v = a (k + 1) ∧ ¬ (b k < a k ∧ d ≤ b (k + 1)) ∧ ¬ a (k + 1) ≤ b (k + 1) ∧ ¬ a (k + 1) ≤ d) → P) → P := by
    intro P hP
    apply hP x rfl
    by_cases c12 : (b k < a k ∧ d ≤ b (k + 1))
    · exact Or.inl ⟨n1 c12, c12⟩
    by_cases c3 : a (k + 1) ≤ b (k + 1)
    · by_cases c2 : d ≤ b (k + 1)
      · by_cases c4 : a (k + 1) ≤ d
        · exact Or.inr (Or.inl ⟨n2 c12 c3 c2 c4, c12, c3, c2, c4⟩)
        · exact Or.inr (Or.inr (Or.inl ⟨n3 c12 c3 c2 c4, c12, c3, c2, c4⟩))
      · exact Or.inr (Or.inr (Or.inr (Or.inl ⟨n4 c12 c3 c2, c12, c3, c2⟩)))
    · by_cases c4 : a (k + 1) ≤ d
      · exact Or.inr (Or.inr (Or.inr (Or.inr (Or.inl ⟨n5 c12 c3 c4, c12, c3, c4⟩))))
      · exact Or.inr (Or.inr (Or.inr (Or.inr (Or.inr ⟨n6 c12 c3 c4, c12, c3, c4⟩))))
  clear n1 n2 n3 n4 n5 n6
  apply fin
  intro v hv hcases
  subst hv
  unfold openP
  rcases hcases with ⟨rfl, c⟩ | ⟨rfl, c⟩ | ⟨rfl, c⟩ | ⟨rfl, c⟩ | ⟨rfl, c⟩ | ⟨rfl, c⟩
  all_goals
    constructor
    · omega
    · intro d' hd' hlt
      by_cases hy : d' ≤ yearStart (k + 1 + 1)
      · left; refine ⟨hy, ?_⟩; constructor <;> intro _ <;> omega
      · right; refine ⟨by omega, by omega, ?_⟩; constructor <;> intro _ <;> omega

/-! ### S3: the general path under year-locality -/

/-- year-locality of a dated range: on every year `k` of 1898 … 10009 both bounds have a projection
whose shifted value lies in calendar year `k` -/
def DatedLocal (s : DateSpec) (so : DateOffset) (e : DateSpec) (eo : DateOffset) : Prop :=
  ∀ k, 1898 ≤ k → k ≤ 10009 →
    (∃ x, boundV s so true k = some x ∧ year x = k) ∧ (∃ x, boundV e eo false k = some x ∧ year x = k)

theorem filterMap_eq_map_of {α β} (f : α → Option β) (g : α → β) (l : List α) (h : ∀ x ∈ l, f x = some (g x)) :
    l.filterMap f = l.map g := by
  induction l with
  | nil => rfl
  | cons x xs ih =>
    rw [List.filterMap_cons, h x (by simp), List.map_cons, ih (fun y hy => h y (by simp [hy]))]

/-- the general-path filter and hint (pure) -/
def genFilterV (s : DateSpec) (so : DateOffset) (e : DateSpec) (eo : DateOffset) (d : Int) : Bool :=
  isOpenFromIntervals d (intervalsFromBounds ((yearsAround (year d) 2 2).filterMap (boundV s so true))
    ((yearsAround (year d) 2 2).filterMap (boundV e eo false)))

def genHintV (s : DateSpec) (so : DateOffset) (e : DateSpec) (eo : DateOffset) (d : Int) : Int :=
  nextChangeFromIntervals d (intervalsFromBounds ((yearsAround (year d) 2 10).filterMap (boundV s so true))
    ((yearsAround (year d) 2 10).filterMap (boundV e eo false)))

theorem DatedLocal.yl {s : DateSpec} {so : DateOffset} {e : DateSpec} {eo : DateOffset} (h : DatedLocal s so e eo) :
    (∀ k, 1898 ≤ k → k ≤ 10009 → boundV s so true k = some ((boundV s so true k).getD 0)) ∧
    (∀ k, 1898 ≤ k → k ≤ 10009 → boundV e eo false k = some ((boundV e eo false k).getD 0)) ∧
    YL (fun k => (boundV s so true k).getD 0) (fun k => (boundV e eo false k).getD 0) 1898 10009 := by
  refine ⟨?_, ?_, ?_, ?_, ?_, ?_, ?_⟩
  · intro k k1 k2
    obtain ⟨⟨x, hx, _⟩, _⟩ := h k k1 k2
    rw [hx]; rfl
  · intro k k1 k2
    obtain ⟨_, ⟨x, hx, _⟩⟩ := h k k1 k2
    rw [hx]; rfl
  · intro k k1 k2
    obtain ⟨⟨x, hx, hy⟩, _⟩ := h k k1 k2
    simp only [hx, Option.getD_some]
    exact (year_eq_iff.1 hy).1
  · intro k k1 k2
    obtain ⟨⟨x, hx, hy⟩, _⟩ := h k k1 k2
    simp only [hx, Option.getD_some]
    exact (year_eq_iff.1 hy).2
  · intro k k1 k2
    obtain ⟨_, ⟨x, hx, hy⟩⟩ := h k k1 k2
    simp only [hx, Option.getD_some]
    exact (year_eq_iff.1 hy).1
  · intro k k1 k2
    obtain ⟨_, ⟨x, hx, hy⟩⟩ := h k k1 k2
    simp only [hx, Option.getD_some]
    exact (year_eq_iff.1 hy).2
  · omega

/-- on any window `y - bef … y + aft` (`1 ≤ bef ≤ 2`, `1 ≤ aft ≤ 10`) around the year `y` of `d`
the interval machinery reads `resV'` -/
theorem window_eq_resV' (s : DateSpec) (so : DateOffset) (e : DateSpec) (eo : DateOffset) (hloc : DatedLocal s so e eo)
    (d k : Int) (hy : year d = k + 1) (hd1 : dateStart ≤ d) (hd2 : d < dateEnd) (bef aft : Nat)
    (hb1 : 1 ≤ bef) (hb2 : bef ≤ 2) (ha1 : 1 ≤ aft) (ha2 : aft ≤ 10) :
    resOf d ((intervalsFromBounds ((yearsAround (year d) bef aft).filterMap (boundV s so true))
      ((yearsAround (year d) bef aft).filterMap (boundV e eo false))).find? (fun r => r.2 ≥ d)) =
      resV' (fun k => (boundV s so true k).getD 0) (fun k => (boundV e eo false k).getD 0) d k := by
  obtain ⟨ha, hb, hl⟩ := hloc.yl
  obtain ⟨y1, y2⟩ := year_window hd1 hd2
  obtain ⟨ys1, ys2⟩ := year_spec d
  rw [hy] at ys1 ys2
  rw [yearsAround_eq,
    filterMap_eq_map_of _ _ _ (fun x hx => ha x (by have := mem_yearsFrom.1 hx; omega) (by have := mem_yearsFrom.1 hx; omega)),
    filterMap_eq_map_of _ _ _ (fun x hx => hb x (by have := mem_yearsFrom.1 hx; omega) (by have := mem_yearsFrom.1 hx; omega)),
    intervalsFromBounds_local _ _ 1898 10009 hl _ _ (by omega) (by omega),
    find_window _ _ 1898 10009 hl d hd2 k (by omega) (by omega) _ _ [] (by omega) (by omega) (by omega) (by omega)]

theorem gen_eq_resV' (s : DateSpec) (so : DateOffset) (e : DateSpec) (eo : DateOffset) (hloc : DatedLocal s so e eo)
    (d k : Int) (hy : year d = k + 1) (hd1 : dateStart ≤ d) (hd2 : d < dateEnd) :
    genFilterV s so e eo d = (resV' (fun k => (boundV s so true k).getD 0) (fun k => (boundV e eo false k).getD 0) d k).1 ∧
    genHintV s so e eo d = (resV' (fun k => (boundV s so true k).getD 0) (fun k => (boundV e eo false k).getD 0) d k).2 := by
  constructor
  · unfold genFilterV
    rw [isOpen_eq_resOf, window_eq_resV' s so e eo hloc d k hy hd1 hd2 2 2 (by omega) (by omega) (by omega) (by omega)]
  · unfold genHintV
    rw [nextChange_eq_resOf, window_eq_resV' s so e eo hloc d k hy hd1 hd2 2 10 (by omega) (by omega) (by omega) (by omega)]

theorem gen_sound (s : DateSpec) (so : DateOffset) (e : DateSpec) (eo : DateOffset) (hloc : DatedLocal s so e eo)
    (d : Int) (hd1 : dateStart ≤ d) (hd2 : d < dateEnd) :
    d < genHintV s so e eo d ∧
      ∀ d', d ≤ d' → d' < genHintV s so e eo d → d' < dateEnd → genFilterV s so e eo d' = genFilterV s so e eo d := by
  obtain ⟨_, _, hl⟩ := hloc.yl
  obtain ⟨y1, y2⟩ := year_window hd1 hd2
  obtain ⟨ys1, ys2⟩ := year_spec d
  obtain ⟨k, hk⟩ : ∃ k, year d = k + 1 := ⟨year d - 1, by omega⟩
  rw [hk] at ys1 ys2
  obtain ⟨e1, e2⟩ := gen_eq_resV' s so e eo hloc d k hk hd1 hd2
  obtain ⟨g1, g2⟩ := resV'_sound _ _ 1898 10009 hl d k (by omega) (by omega) (by omega) (by omega)
  rw [e2]
  refine ⟨g1, ?_⟩
  intro d' a b c
  rcases g2 d' a b with ⟨p1, p2⟩ | ⟨p1, p2, p3⟩
  · have hy' : year d' = k + 1 := by rw [year_eq_iff]; omega
    rw [(gen_eq_resV' s so e eo hloc d' k hy' (by omega) c).1, e1, Bool.eq_iff_iff, resV'_fst, resV'_fst]
    exact p2
  · have hy' : year d' = k + 1 + 1 := by rw [year_eq_iff]; omega
    rw [(gen_eq_resV' s so e eo hloc d' (k + 1) hy' (by omega) c).1, e1, Bool.eq_iff_iff, resV'_fst, resV'_fst]
    exact p3

theorem DatedLocal.start_yearless {s : DateSpec} {so : DateOffset} {e : DateSpec} {eo : DateOffset}
    (h : DatedLocal s so e eo) (hs : s.wf = true) : dateYear s = none := by
  cases s with
  | easter yr =>
    cases yr with
    | none => rfl
    | some y0 =>
      exfalso
      obtain ⟨⟨x, hx, hy⟩, _⟩ := h 1899 (by omega) (by omega)
      obtain ⟨⟨x', hx', hy'⟩, _⟩ := h 1900 (by omega) (by omega)
      have : boundV (.easter (some y0)) so true 1899 = boundV (.easter (some y0)) so true 1900 := rfl
      rw [hx, hx'] at this
      cases this
      omega
  | fixed yr m dd =>
    cases yr with
    | none => rfl
    | some y0 =>
      exfalso
      simp only [DateSpec.wf, optYearOk, yearOk, Bool.and_eq_true, decide_eq_true_eq] at hs
      obtain ⟨⟨x, hx, hy⟩, _⟩ := h 1899 (by omega) (by omega)
      have : boundV (.fixed (some y0) m dd) so true 1899 = none := by
        have hne : ¬ ((y0 : Int) = 1899) := by omega
        simp only [boundV, dateOnYearV, dateOnYear, if_neg hne, Option.map_none]
      rw [this] at hx; cases hx

/-- **S3**: the general path (start without a year, not the single-day shape) is sound under
year-locality. -/
theorem MonthdayRange.date_hintOK_local (s : DateSpec) (so : DateOffset) (e : DateSpec) (eo : DateOffset)
    (hw : (MonthdayRange.date s so e eo).wf = true) (hsd : singleDayOf s e = none) (hloc : DatedLocal s so e eo)
    (d : Int) (hd1 : dateStart ≤ d) (hd2 : d < dateEnd) :
    HintOK (MonthdayRange.date s so e eo).filter (MonthdayRange.date s so e eo).hint d := by
  have hwf := hw
  simp only [MonthdayRange.wf, Bool.and_eq_true] at hw
  obtain ⟨⟨⟨hs, _⟩, _⟩, _⟩ := hw
  have hsi : singleIntervalV s so e eo = none := (singleIntervalV_none_iff s so e eo hwf).2 (hloc.start_yearless hs)
  have hf : ∀ d', datedFilterV s so e eo d' = genFilterV s so e eo d' := by
    intro d'; unfold datedFilterV genFilterV; rw [hsd, hsi]
  have hh : datedHintV s so e eo d = genHintV s so e eo d := by
    unfold datedHintV genHintV; rw [hsd, hsi]
  obtain ⟨g1, g2⟩ := gen_sound s so e eo hloc d hd1 hd2
  apply MonthdayRange.date_hintOK_of_V _ _ _ _ hwf d
  · rw [hh]; exact g1
  · intro d' a b c
    rw [hh] at b
    rw [hf d', hf d]
    exact g2 d' a b c

end OH.Model
