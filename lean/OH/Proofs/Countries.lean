import OH.Model.Country
/-
Consistency of the tables of `enum Country` (`OH.Generated.Countries`, regenerated from
`opening-hours/src/localization/country/generated.rs` on every run): every statement is decided by
the kernel (`decide +kernel`) on the tables as they are now.  Statements about ALL strings are
reduced to statements about the arms of a table by `List.lookup` lemmas.
-/
namespace OH.Proofs.Countries
open OH.Generated OH.Model.Country

/-! ### generic facts on `List.lookup` (first arm wins) -/

theorem lookup_some_mem {β : Type} : ∀ (l : List (String × β)) (k : String) (v : β),
    l.lookup k = some v → (k, v) ∈ l := by
  intro l
  induction l with
  | nil => intro k v h; simp [List.lookup] at h
  | cons p tl ih =>
    intro k v h
    obtain ⟨a, b⟩ := p
    rw [List.lookup_cons] at h
    split at h
    · rename_i e
      have : k = a := by simpa using e
      cases h; subst this; exact List.mem_cons_self
    · exact List.mem_cons_of_mem _ (ih k v h)

theorem lookup_isSome_iff {β : Type} : ∀ (l : List (String × β)) (k : String),
    (l.lookup k).isSome = true ↔ k ∈ l.map (·.1) := by
  intro l
  induction l with
  | nil => intro k; simp [List.lookup]
  | cons p tl ih =>
    intro k
    obtain ⟨a, b⟩ := p
    rw [List.lookup_cons]
    by_cases e : k = a
    · subst e; simp
    · have : (k == a) = false := by simpa using e
      simp only [this, List.map_cons, List.mem_cons, e, false_or]
      exact ih k

/-! ### the decided table facts -/

/-- the `FromStr` arms, read backwards, are `iso_code` arms: pattern `p => Ok(Self::v)` implies
`Self::v => p`, and `v` is a variant -/
theorem fromStrArms_sound :
    ∀ a ∈ Countries.fromStrArms, isoCode a.2 = some a.1 ∧ isVariant a.2 = true := by decide +kernel

/-- every variant: its `iso_code` arm exists and the parser maps the code back to the variant;
`name` has an arm too -/
theorem variants_roundtrip :
    ∀ v ∈ Countries.variants, ∃ code, isoCode v = some code ∧ fromStr code = some v := by
  have h : ∀ v ∈ Countries.variants, ((isoCode v).bind fromStr) = some v := by decide +kernel
  intro v hv
  have := h v hv
  cases hc : isoCode v with
  | none => rw [hc] at this; cases this
  | some code => rw [hc] at this; exact ⟨code, rfl, this⟩

theorem variants_named : ∀ v ∈ Countries.variants, (name v).isSome = true := by decide +kernel

/-- `ALL` is the variant list itself (same order), whose length is the declared array length -/
theorem all_eq_variants : Countries.all = Countries.variants := by decide +kernel
theorem all_length : Countries.all.length = Countries.allLen := by decide +kernel
theorem allLen_eq : Countries.allLen = 115 := by decide +kernel
theorem variants_nodup : Countries.variants.Nodup := by decide +kernel

/-- no two variants share an ISO code / a name; no two `FromStr` patterns are equal (no dead arm);
each `match self` has exactly one arm per variant, in declaration order -/
theorem isoCodes_nodup : (Countries.isoCodeArms.map (·.2)).Nodup := by decide +kernel
theorem names_nodup : (Countries.nameArms.map (·.2)).Nodup := by decide +kernel
theorem fromStr_patterns_nodup : (Countries.fromStrArms.map (·.1)).Nodup := by decide +kernel
theorem isoCodeArms_keys : Countries.isoCodeArms.map (·.1) = Countries.variants := by decide +kernel
theorem nameArms_keys : Countries.nameArms.map (·.1) = Countries.variants := by decide +kernel
theorem fromStrArms_values : Countries.fromStrArms.map (·.2) = Countries.variants := by decide +kernel
/-- the code of a variant is its identifier, two upper-case ASCII letters -/
theorem isoCode_is_ident : ∀ a ∈ Countries.isoCodeArms, a.1 = a.2 := by decide +kernel
def twoUpper (s : String) : Bool :=
  match s.toList with
  | [x, y] => decide ('A' ≤ x ∧ x ≤ 'Z' ∧ 'A' ≤ y ∧ y ≤ 'Z')
  | _ => false
theorem isoCode_shape : ∀ a ∈ Countries.isoCodeArms, twoUpper a.2 = true := by decide +kernel
/-- the doc comment of each variant is its name -/
theorem docs_are_names : Countries.variantDocs = Countries.nameArms := by decide +kernel
theorem display_is_name : Countries.displayIsName = true := by decide +kernel

/-! ### consequences for all strings -/

theorem fromStr_sound {s c : String} (h : fromStr s = some c) : isoCode c = some s ∧ isVariant c = true :=
  fromStrArms_sound (s, c) (lookup_some_mem _ _ _ h)

theorem fromStr_injective {s₁ s₂ c : String} (h1 : fromStr s₁ = some c) (h2 : fromStr s₂ = some c) :
    s₁ = s₂ := by
  have a := (fromStr_sound h1).1
  have b := (fromStr_sound h2).1
  rw [a] at b
  exact Option.some.inj b

theorem isVariant_iff (v : String) : isVariant v = true ↔ v ∈ Countries.variants := by
  simp [isVariant]

end OH.Proofs.Countries
