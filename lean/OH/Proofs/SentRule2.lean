import OH.Proofs.SentRule1
import OH.Proofs.SentTime
import OH.Proofs.SentWeekday
/-
C05, assembly, part 2: `small_range_selectors = { weekday_selector ~ space ~ time_selector
  | weekday_selector | time_selector }` on the weekday selector and/or the time selector of a sentence
(`Mo,PH 10:00-12:00`, `Mo,PH`, `10:00 - 12:00`), in front of what may follow the selectors of a rule in
a sentence (`FollowSelS`: also `;` and `||` without a space).
-/
namespace OH.Proofs.Sent
open OH.Model OH.Model.Peg OH.Model.Parser OH.Generated.Grammar OH.Proofs.Syn
open OH.Spec.Sent (WdSel Span commaList)

/-! ### the text and the value -/

abbrev spansStr (ts : List Span) : List Char := commaList Span.render ts

/-- weekday selector and time selector as `Sel.render` writes them -/
def smallS (wd : Option WdSel) (ts : List Span) : List Char :=
  (match wd with | some x => x.render | none => [])
    ++ (if wd.isSome && !ts.isEmpty then [' '] else []) ++ spansStr ts

def wdVal (wd : Option WdSel) : List WeekDayRange := match wd with | some x => x.denote | none => []

/-- the conditions `Sel.wf` puts on the two small selectors -/
def smallWf (wd : Option WdSel) (ts : List Span) : Prop :=
  (∀ x, wd = some x → x.wf = true) ∧ ts.all Span.wf = true

/-! ### the follow conditions of the two selectors -/

theorem followSelS_timeSel (rest : List Char) (h : FollowSelS rest) : FollowTimeSel rest := by
  rcases h with h | ⟨c, r, rfl, hc⟩
  · exact followTimeSel_of_followSel rest h
  · refine ⟨followSpan_cons _ _ ?_ ?_ ?_ ?_, ?_⟩
    · rcases hc with rfl | rfl <;> decide
    · rcases hc with rfl | rfl <;> decide
    · rcases hc with rfl | rfl <;> decide
    · rcases hc with rfl | rfl <;> decide
    · intro r' e
      injection e with e1 _
      rcases hc with rfl | rfl <;> exact absurd e1 (by decide)

theorem followSelS_wdSelX (rest : List Char) (h : FollowSelS rest) : FollowWdSelX rest := by
  rcases h with h | ⟨c, r, rfl, rfl | rfl⟩
  · exact .of_weekday (.inl h)
  · exact .semi r
  · exact .bar r

/-- no ` 10:00-12:00` after the selectors -/
theorem followSelS_no_space_time (rest : List Char) (h : FollowSelS rest) :
    run (.seq g_space g_time_selector) false rest = none := by
  rcases h with (rfl | ⟨r, rfl⟩ | ⟨c, r, rfl, hc⟩) | ⟨c, r, rfl, hc⟩
  · simp [g_space, peg]
  · simp [g_space, peg]
  · have := run_time_selector_none (c :: r) (.inr ⟨c, r, rfl, modStart_noTimeStart c hc⟩)
    simp [g_space, peg, this]
  · have : ' ' ≠ c := by rcases hc with rfl | rfl <;> decide
    simp [g_space, peg, this]

/-! ### the three shapes -/

/-- `Mo,PH 10:00-12:00` -/
theorem parses_smallS_both (x : WdSel) (hx : x.wf = true) (ts : List Span) (hne : ts ≠ [])
    (hts : ts.all Span.wf = true) (rest : List Char) (hf : FollowSelS rest) :
    ParsesTo g_small_range_selectors buildSmallRangeSelectors (x.render ++ ' ' :: spansStr ts) rest
      (x.denote, ts.map Span.denote) := by
  obtain ⟨c, cs, e, hc⟩ := spans_head ts hne hts
  have hfw : FollowWdSelX (' ' :: (spansStr ts ++ rest)) := by
    refine .of_weekday (.inr ⟨c, cs ++ rest, ?_, hc⟩)
    show ' ' :: (commaList Span.render ts ++ rest) = _
    rw [e]; rfl
  obtain ⟨tw, hw1, hw2⟩ := parses_wdsel_x x hx _ hfw
  obtain ⟨tt, ht1, ht2⟩ := parses_spans ts hne hts rest (followSelS_timeSel rest hf)
  have rw' := rule_of_run hw1
  have rt' := rule_of_run ht1
  refine ⟨.node .small_range_selectors (x.render ++ ' ' :: spansStr ts) [tw, tt], ?_, ?_⟩
  · simp only [List.append_assoc, List.cons_append] at hw1 ⊢
    simp [g_small_range_selectors, g_space, run_rule, run_alt, run_seq, run_str, stripPrefix_cons_cons,
      hw1, ht1, R.append]
  · simp [buildSmallRangeSelectors, smallLoop, assertRule, Tree.rule, Tree.kids, bind, Except.bind]
    simp only [Tree.rule] at rw' rt'
    cases tw with
    | node a b c' =>
      cases tt with
      | node a2 b2 c2 =>
        simp only at rw' rt'
        subst rw' rt'
        simp [hw2, ht2]

/-- `Mo,PH` -/
theorem parses_smallS_weekday (x : WdSel) (hx : x.wf = true) (rest : List Char) (hf : FollowSelS rest) :
    ParsesTo g_small_range_selectors buildSmallRangeSelectors x.render rest (x.denote, []) := by
  obtain ⟨tw, hw1, hw2⟩ := parses_wdsel_x x hx rest (followSelS_wdSelX rest hf)
  have rw' := rule_of_run hw1
  have hst := followSelS_no_space_time rest hf
  refine ⟨.node .small_range_selectors x.render [tw], ?_, ?_⟩
  · simp [g_small_range_selectors, run_rule, run_alt, hw1]
    simp only [run_seq, hw1]
    simp only [run_seq] at hst
    simp [hst]
  · simp [buildSmallRangeSelectors, smallLoop, assertRule, Tree.rule, Tree.kids, bind, Except.bind]
    simp only [Tree.rule] at rw'
    cases tw with
    | node a b c' =>
      simp only at rw'
      subst rw'
      simp [hw2]

/-- `10:00-12:00` -/
theorem parses_smallS_time (ts : List Span) (hne : ts ≠ []) (hts : ts.all Span.wf = true)
    (rest : List Char) (hf : FollowSelS rest) :
    ParsesTo g_small_range_selectors buildSmallRangeSelectors (spansStr ts) rest ([], ts.map Span.denote) := by
  obtain ⟨c, cs, e, hc⟩ := spans_head ts hne hts
  obtain ⟨tt, ht1, ht2⟩ := parses_spans ts hne hts rest (followSelS_timeSel rest hf)
  have rt' := rule_of_run ht1
  have hwd : run g_weekday_selector false (spansStr ts ++ rest) = none := by
    apply run_weekday_selector_none
    refine .inr ⟨c, cs ++ rest, ?_, timeStart_noWdStart c hc⟩
    show commaList Span.render ts ++ rest = _
    rw [e]; rfl
  refine ⟨.node .small_range_selectors (spansStr ts) [tt], ?_, ?_⟩
  · simp [g_small_range_selectors, run_rule, run_alt, run_seq, hwd, ht1]
  · simp [buildSmallRangeSelectors, smallLoop, assertRule, Tree.rule, Tree.kids, bind, Except.bind]
    simp only [Tree.rule] at rt'
    cases tt with
    | node a b c' =>
      simp only at rt'
      subst rt'
      simp [ht2]

/-! ### together -/

theorem spansStr_nil : spansStr [] = [] := rfl

/-- the small selectors of a rule, when at least one is written -/
theorem parses_smallS (wd : Option WdSel) (ts : List Span) (hne : ¬ (wd = none ∧ ts = []))
    (hwf : smallWf wd ts) (rest : List Char) (hf : FollowSelS rest) :
    ParsesTo g_small_range_selectors buildSmallRangeSelectors (smallS wd ts) rest
      (wdVal wd, ts.map Span.denote) := by
  cases wd with
  | none =>
    cases ts with
    | nil => simp at hne
    | cons t tl =>
      have := parses_smallS_time (t :: tl) (by simp) hwf.2 rest hf
      simpa [smallS, wdVal] using this
  | some x =>
    cases ts with
    | nil =>
      have := parses_smallS_weekday x (hwf.1 x rfl) rest hf
      simpa [smallS, wdVal, spansStr_nil] using this
    | cons t tl =>
      have := parses_smallS_both x (hwf.1 x rfl) (t :: tl) (by simp) hwf.2 rest hf
      simpa [smallS, wdVal] using this

/-- a rendered weekday or time selector starts here -/
def SmallHere (rest : List Char) : Prop :=
  (∃ (x : WdSel) (r : List Char), x.wf = true ∧ rest = x.render ++ r)
    ∨ (∃ (ts : List Span) (r : List Char), ts ≠ [] ∧ ts.all Span.wf = true ∧ rest = spansStr ts ++ r)

theorem smallS_here (wd : Option WdSel) (ts : List Span) (hne : ¬ (wd = none ∧ ts = []))
    (hwf : smallWf wd ts) (rest : List Char) : SmallHere (smallS wd ts ++ rest) := by
  cases wd with
  | none =>
    cases ts with
    | nil => simp at hne
    | cons t tl => exact .inr ⟨t :: tl, rest, by simp, hwf.2, by simp [smallS]⟩
  | some x =>
    exact .inl ⟨x, (if (some x).isSome && !ts.isEmpty then [' '] else []) ++ spansStr ts ++ rest,
      hwf.1 x rfl, by simp [smallS]⟩

/-- the first character of the small selectors: a weekday / holiday letter or the start of a time -/
theorem smallHere_head (rest : List Char) (h : SmallHere rest) :
    ∃ c cs, rest = c :: cs ∧ (WeekdayStart c ∨ TimeStart c) := by
  rcases h with ⟨x, r, hx, rfl⟩ | ⟨ts, r, hne, hts, rfl⟩
  · obtain ⟨c, cs, e, hc⟩ := wdsel_head x hx
    exact ⟨c, cs ++ r, by rw [e]; rfl, .inl hc⟩
  · obtain ⟨c, cs, e, hc⟩ := spans_head ts hne hts
    exact ⟨c, cs ++ r, by show commaList Span.render ts ++ r = _; rw [e]; rfl, .inr hc⟩

theorem weekdayStart_ruleStart (c : Char) (h : WeekdayStart c) : RuleStart c ∧ c ≠ '2' := by
  rcases h with rfl | rfl | rfl | rfl | rfl | rfl <;> simp [RuleStart]

theorem timeStart_ruleStart (c : Char) (h : TimeStart c) : RuleStart c := by
  rcases h with ⟨h0, h9⟩ | rfl | rfl | rfl
  · obtain ⟨-, -, -, f4, -, -, f7, f8, f9⟩ := digit_facts c h0 h9
    exact ⟨f4, f7, f8, f9⟩
  · simp [RuleStart]
  · simp [RuleStart]
  · simp [RuleStart]

theorem smallHere_ruleStart (rest : List Char) (h : SmallHere rest) :
    ∃ c cs, rest = c :: cs ∧ RuleStart c := by
  obtain ⟨c, cs, e, hc⟩ := smallHere_head rest h
  refine ⟨c, cs, e, ?_⟩
  rcases hc with hc | hc
  · exact (weekdayStart_ruleStart c hc).1
  · exact timeStart_ruleStart c hc

end OH.Proofs.Sent
