import OH.Proofs.HintYear
/-
Layer B — weekday ranges (`Mo-Fr`, `Sa[1]`, `Fr[-1] +1 day`) and holidays (`PH`, `SH -1 day`):
the filters never panic; the hint of a fixed range is `none`; the holiday hint is sound for a context
whose calendars are strictly increasing lists of representable days (`CtxWF`).
-/
namespace OH.Model
open OH.Model.Cal

/-- `add_days_saturating` always returns a representable day -/
theorem addDaysSat_inRange' (d n : Int) : minDay ≤ addDaysSat d n ∧ addDaysSat d n ≤ maxDay := by
  have := minDay_eq; have := maxDay_eq
  unfold addDaysSat
  split
  · split <;> omega
  · cases h : addDays? d n with
    | some r =>
      have := (addDays?_eq_some_iff).1 h
      simp only []; omega
    | none =>
      simp only []
      split <;> omega

theorem nthGet_ok (l : List Bool) (i : Nat) (site : String) (h : i < l.length) : ∃ b, nthGet l i site = .ok b := by
  unfold nthGet
  rw [List.getElem?_eq_getElem h]
  exact ⟨_, rfl⟩

theorem wdayFixedSimple_total (lo hi : Nat) (offset : Int) (ns ne : List Bool) (hns : ns.length = 5) (hne : ne.length = 5)
    (d : Int) : ∃ b, wdayFixedSimple lo hi offset ns ne d = .ok b := by
  obtain ⟨r1, r2⟩ := addDaysSat_inRange' d (satNeg offset)
  have hc := countDaysInMonth_eq _ r1 r2
  have hb := dayOfMonth_bounds (addDaysSat d (satNeg offset))
  have hdm := daysInMonth_bounds (year (addDaysSat d (satNeg offset))) (month (addDaysSat d (satNeg offset)))
  unfold wdayFixedSimple
  simp only [hc, M.bind_ok]
  rw [if_neg (by omega)]
  split
  · obtain ⟨b1, e1⟩ := nthGet_ok ns ((dayOfMonth (addDaysSat d (satNeg offset)) - 1) / 7) "date_filter.rs:nth_from_start" (by omega)
    obtain ⟨b2, e2⟩ := nthGet_ok ne ((daysInMonth (year (addDaysSat d (satNeg offset))) (month (addDaysSat d (satNeg offset)))
      - dayOfMonth (addDaysSat d (satNeg offset))) / 7) "date_filter.rs:nth_from_end" (by omega)
    simp only [e1, M.bind_ok]
    cases b1
    · exact ⟨b2, by simpa using e2⟩
    · exact ⟨true, rfl⟩
  · exact ⟨false, rfl⟩

theorem WeekDayRange.filter_total (ctx : Ctx) (r : WeekDayRange) (hw : r.wf = true) (d : Int) :
    ∃ b, r.filter ctx d = .ok b := by
  cases r with
  | fixed lo hi offset ns ne =>
    simp only [WeekDayRange.wf, Bool.and_eq_true, decide_eq_true_eq, beq_iff_eq] at hw
    obtain ⟨⟨⟨⟨_, _⟩, _⟩, hns⟩, hne⟩ := hw
    unfold WeekDayRange.filter
    simp only []
    split
    · obtain ⟨b1, e1⟩ := wdayFixedSimple_total lo 6 offset ns ne hns hne d
      obtain ⟨b2, e2⟩ := wdayFixedSimple_total 0 hi offset ns ne hns hne d
      simp only [e1, M.bind_ok]
      cases b1
      · exact ⟨b2, by simpa using e2⟩
      · exact ⟨true, rfl⟩
    · exact wdayFixedSimple_total lo hi offset ns ne hns hne d
  | holiday k offset => exact ⟨_, rfl⟩

/-! ### holidays -/

theorem calContains_iff (c : List Int) (d : Int) : calContains c d = true ↔ d ∈ c := by
  simp [calContains]

theorem calFirstAfter_none (c : List Int) (d : Int) (h : calFirstAfter c d = none) : ∀ x ∈ c, x ≤ d := by
  induction c with
  | nil => simp
  | cons x xs ih =>
    simp only [calFirstAfter] at h
    split at h
    · cases h
    · intro y hy
      rcases List.mem_cons.1 hy with rfl | hy
      · omega
      · exact ih h y hy

/-- on a strictly increasing list `first_after` is the least member after `d` -/
theorem calFirstAfter_some (c : List Int) (hs : c.Pairwise (· < ·)) (d f : Int) (h : calFirstAfter c d = some f) :
    f ∈ c ∧ d < f ∧ ∀ x ∈ c, d < x → f ≤ x := by
  induction c with
  | nil => simp [calFirstAfter] at h
  | cons x xs ih =>
    simp only [calFirstAfter] at h
    rw [List.pairwise_cons] at hs
    split at h
    · cases h
      refine ⟨by simp, by assumption, ?_⟩
      intro y hy _
      rcases List.mem_cons.1 hy with rfl | hy
      · omega
      · have := hs.1 y hy; omega
    · obtain ⟨a, b, c'⟩ := ih hs.2 h
      refine ⟨by simp [a], b, ?_⟩
      intro y hy hdy
      rcases List.mem_cons.1 hy with rfl | hy
      · omega
      · exact c' y hy hdy

def Ctx.cal (ctx : Ctx) : HolidayKind → List Int
  | .pub => ctx.pub
  | .school => ctx.school

theorem CtxWF.sorted {ctx : Ctx} (h : CtxWF ctx) (k : HolidayKind) : (ctx.cal k).Pairwise (· < ·) := by
  cases k
  · exact h.1
  · exact h.2.1

theorem CtxWF.range {ctx : Ctx} (h : CtxWF ctx) (k : HolidayKind) : ∀ x ∈ ctx.cal k, minDay ≤ x ∧ x ≤ maxDay := by
  cases k
  · exact h.2.2.1
  · exact h.2.2.2

theorem holiday_filter_eq (ctx : Ctx) (k : HolidayKind) (offset d : Int) :
    (WeekDayRange.holiday k offset).filter ctx d = .ok (calContains (ctx.cal k) (addDaysSat d (satNeg offset))) := by
  cases k <;> rfl

theorem holiday_hint_eq (ctx : Ctx) (k : HolidayKind) (offset d : Int) :
    (WeekDayRange.holiday k offset).hint ctx d =
      if calContains (ctx.cal k) (addDaysSat d (satNeg offset)) then .ok (succ? d)
      else match calFirstAfter (ctx.cal k) (addDaysSat d (satNeg offset)) with
        | none => .ok (some dateEnd)
        | some f => .ok (some (addDaysSat f offset)) := by
  cases k <;> rfl

theorem holiday_hintOK (ctx : Ctx) (hc : CtxWF ctx) (k : HolidayKind) (offset : Int) (ho : i64Ok offset = true)
    (d : Int) (hd1 : dateStart ≤ d) (hd2 : d < dateEnd) :
    HintOK ((WeekDayRange.holiday k offset).filter ctx) ((WeekDayRange.holiday k offset).hint ctx) d := by
  have hmin := minDay_eq
  have hmax := maxDay_eq
  have hds := Cal.dateStart_eq
  have hde := Cal.dateEnd_eq
  simp only [i64Ok, Bool.and_eq_true, decide_eq_true_eq] at ho
  have hcl : ∀ d', dateStart ≤ d' → d' < dateEnd → addDaysSat d' (satNeg offset) = clampDay (d' + satNeg offset) :=
    fun d' h1 h2 => addDaysSat_clamp (by omega) (by omega)
  have hsorted := hc.sorted k
  have hrange := hc.range k
  by_cases hin : calContains (ctx.cal k) (addDaysSat d (satNeg offset)) = true
  · refine HintOK.of_some (x := d + 1) ?_ (by omega) ?_
    · rw [holiday_hint_eq, if_pos hin]
      simp [succ?]; omega
    · intro d' h1 h2 _
      have : d' = d := by omega
      rw [this]
  · have hin0 := hin
    rw [calContains_iff] at hin
    cases hfa : calFirstAfter (ctx.cal k) (addDaysSat d (satNeg offset)) with
    | none =>
      have hall := calFirstAfter_none _ _ hfa
      refine HintOK.of_some (x := dateEnd) (by rw [holiday_hint_eq, if_neg hin0, hfa]) hd2 ?_
      intro d' h1 _ h3
      rw [holiday_filter_eq, holiday_filter_eq]
      congr 1
      rw [Bool.eq_iff_iff, calContains_iff, calContains_iff]
      constructor
      · intro hm
        exfalso
        have := hall _ hm
        rw [hcl d' (by omega) h3] at this hm
        rw [hcl d hd1 hd2] at this hin
        have : clampDay (d' + satNeg offset) = clampDay (d + satNeg offset) := by unfold clampDay at *; omega
        rw [this] at hm
        exact hin hm
      · intro hm; exact absurd hm hin
    | some f =>
      obtain ⟨fm, fgt, fleast⟩ := calFirstAfter_some _ hsorted _ _ hfa
      obtain ⟨f1, f2⟩ := hrange f fm
      have hh : (WeekDayRange.holiday k offset).hint ctx d = .ok (some (clampDay (f + offset))) := by
        rw [holiday_hint_eq, if_neg hin0, hfa]; simp only []; rw [addDaysSat_clamp f1 f2]
      rw [hcl d hd1 hd2] at fgt hin fleast
      have hneg : satNeg offset = -offset ∨ (offset = -9223372036854775808 ∧ satNeg offset = 9223372036854775807) := by
        unfold satNeg; split <;> omega
      refine HintOK.of_some hh ?_ ?_
      · unfold clampDay at *; omega
      · intro d' h1 h2 h3
        rw [holiday_filter_eq, holiday_filter_eq]
        congr 1
        rw [Bool.eq_iff_iff, calContains_iff, calContains_iff, hcl d' (by omega) h3, hcl d hd1 hd2]
        constructor
        · intro hm
          exfalso
          by_cases e : clampDay (d' + satNeg offset) = clampDay (d + satNeg offset)
          · rw [e] at hm; exact hin hm
          · have := fleast _ hm (by unfold clampDay at *; omega)
            unfold clampDay at *; omega
        · intro hm; exact absurd hm hin

theorem WeekDayRange.hintOK (ctx : Ctx) (hc : CtxWF ctx) (r : WeekDayRange) (hw : r.wf = true) (d : Int)
    (hd1 : dateStart ≤ d) (hd2 : d < dateEnd) : HintOK (r.filter ctx) (r.hint ctx) d := by
  cases r with
  | fixed lo hi offset ns ne => exact HintOK.of_none rfl
  | holiday k offset => exact holiday_hintOK ctx hc k offset (by simpa [WeekDayRange.wf] using hw) d hd1 hd2

end OH.Model
