import OH.Generated.Arith
import OH.Proofs.RustInt
import OH.Proofs.HintWeek
/-
Helper lemmas of OH/Props/ArithC01Week.lean (rs2lean.py, seventh increment): the `while res <= date` loop of
`WeekRange::next_change_hint` as translated from the source against the model's loop, and the fuel it needs.
-/
namespace OH.Proofs.ArithWeek
set_option linter.unusedSimpArgs false
set_option linter.unusedVariables false
open OH.Model OH.Model.Cal
open OH.Model.RustInt
open OH.Model.RustChrono
open OH.Generated.Arith

/-- what the function makes of the way the loop ended: `return v` inside the body, or `Some(res)` after it -/
def flowOut : Flow (Option Int) Int → Option Int
  | .ret v _ => v
  | .next s => some s

/-- the generated loop against the model's: the same outcome with the same fuel; running out of fuel on both sides -/
inductive AgreeLoop : R (Flow (Option Int) Int) → Except String (Option Int) → Prop
  | value (f : Flow (Option Int) Int) : AgreeLoop (.ok f) (.ok (flowOut f))
  | fuel (e : String) : AgreeLoop (.error (.panic loopFuelExhausted)) (.error e)

/-- the ISO year of a date chrono represents, plus one, is an `i32` -/
theorem isoYear_succ_i32 {x : Int} (h1 : minDay ≤ x) (h2 : x ≤ maxDay) : InRange .i32 (isoYear x + 1) := by
  have hy := (inRange_iff_year x).1 ⟨h1, h2⟩
  have hn := isoYear_near_year x
  simp only [minYear, maxYear] at hy
  in_range

/-- the loop as translated IS the model's loop, for every fuel (no overflow of `year() + 1`: the dates are chrono's) -/
theorem loop_agree (d : Int) (wn : Nat) (fuel : Nat) : ∀ (res : Int), minDay ≤ res → res ≤ maxDay →
    AgreeLoop (WeekRange.next_change_hint.loop1 fuel res d wn) (weekHintLoop d wn fuel res) := by
  induction fuel with
  | zero => intro res _ _; exact .fuel _
  | succ n ih =>
    intro res h1 h2
    rw [WeekRange.next_change_hint.loop1, weekHintLoop]
    by_cases c : res ≤ d
    · simp only [c, decide_true, if_true, ↓reduceIte, Chrono.iso_week, Chrono.iso_week_year, Chrono.from_isoywd_opt]
      rw [add_ok (isoYear_succ_i32 h1 h2)]
      simp only [bnd_ok, Int.toNat_natCast, show (0 : Int).toNat = 0 from rfl]
      cases e : ofIsoYwd? (isoYear res + 1) wn 0 with
      | none => exact .value (.ret none res)
      | some r' =>
        simp only []
        obtain ⟨_, _, _, g1, g2, _⟩ := ofIsoYwd?_eq_some_iff.1 e
        exact ih r' g1 g2
    · simp only [c, decide_false, Bool.false_eq_true, if_false, ↓reduceIte]
      exact .value (.next res)

/-- two iterations suffice: from the Monday of week `wn` of the ISO year of `d` the model's loop gives the same value
for every fuel ≥ 2 as for the fuel the model gives it (and never runs out) -/
theorem weekHintLoop_fuel (d : Int) (wn : Nat) (fuel : Nat) (hf : 2 ≤ fuel) (res : Int)
    (e : ofIsoYwd? (isoYear d) wn 0 = some res) :
    ∃ x, weekHintLoop d wn fuel res = .ok x ∧ weekHintLoop d wn ((d - res) / 364 + 3).toNat res = .ok x := by
  obtain ⟨v1, v2, v3, _, _, rfl⟩ := ofIsoYwd?_eq_some_iff.1 e
  have hy := (iso_isoYwdRaw ⟨v1, v2, v3⟩).1
  have hspec := isoYear_spec d
  have hc := isoWeeksInYear_cases (isoYear d)
  have hraw : isoYwdRaw (isoYear d) wn 0 = isoYearStart (isoYear d) + 7 * ((wn : Int) - 1) := by
    unfold isoYwdRaw; omega
  obtain ⟨f0, rfl⟩ : ∃ f0, fuel = f0 + 2 := ⟨fuel - 2, by omega⟩
  by_cases hcase : d < isoYwdRaw (isoYear d) wn 0
  · obtain ⟨f, hf'⟩ : ∃ f, ((d - isoYwdRaw (isoYear d) wn 0) / 364 + 3).toNat = f + 1 :=
      ⟨((d - isoYwdRaw (isoYear d) wn 0) / 364 + 3).toNat - 1, by omega⟩
    rw [hf', weekHintLoop_gt _ _ _ _ hcase, weekHintLoop_gt _ _ _ _ hcase]
    exact ⟨_, rfl, rfl⟩
  · obtain ⟨f, hf'⟩ : ∃ f, ((d - isoYwdRaw (isoYear d) wn 0) / 364 + 3).toNat = f + 2 :=
      ⟨((d - isoYwdRaw (isoYear d) wn 0) / 364 + 3).toNat - 2, by omega⟩
    rw [hf', weekHintLoop_le _ _ _ _ (by omega) hy, weekHintLoop_le _ _ _ _ (by omega) hy]
    exact ⟨_, rfl, rfl⟩

end OH.Proofs.ArithWeek
