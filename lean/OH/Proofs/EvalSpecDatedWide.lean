import OH.Proofs.EvalSpecDatedYear
/-
C01 refinement, dated ranges without years: a RULE-LEVEL sufficient condition for the adequacy of the
implementation's pairing window (`WindowOK`), valid for every day of 1899-12-31 … 9999-12-31.
Every instance of a date lies at a nearly fixed position inside its year (`posLo … posHi` days after
the year's start); shifted by its offset the position is within `shiftLo … shiftHi`; the window is
adequate as soon as these positions are less than about a year away from the year (`datedWideB`).
-/
namespace OH.Proofs.EvalSpec
open OH.Model OH.Model.Cal
open OH.Spec (shift dateInstance specYear yearSpan isFixedDate)

theorem monthStart_leap_bounds (leap : Bool) (m : Nat) :
    monthStart false m ≤ monthStart leap m ∧ monthStart leap m ≤ monthStart false m + 1 := by
  cases leap
  · omega
  · unfold monthStart
    split <;> simp

/-- position of the clamped instance of `m/dd` inside its year -/
theorem fixedInstance_pos (y : Int) (m dd : Nat) (after : Bool) (hd2 : dd ≤ 31) :
    yearStart y + monthStart false m + dd - 3 ≤ fixedInstance y m dd after ∧
      fixedInstance y m dd after ≤ yearStart y + monthStart false m + dd + 1 := by
  have hb := monthStart_leap_bounds (isLeap y) m
  have hdim := daysInMonth_bounds y m
  unfold fixedInstance
  by_cases hv : dd ≤ daysInMonth y m
  · rw [if_pos hv]; unfold ymdRaw; omega
  · rw [if_neg hv]
    cases after <;> simp only [if_true, Bool.false_eq_true, if_false] <;> unfold ymdRaw <;> omega

/-- every instance of the date on year `k` lies between `yearStart k + posLo` and `yearStart k + posHi`
(`yearStart k` = the day before Jan 1): a fixed date moves by the leap day and by clamping
(`Feb 31` → Feb 28 … Mar 1), Easter between Mar 22 and Apr 25 -/
def posLo : DateSpec → Int
  | .fixed _ m dd => monthStart false m + dd - 3
  | .easter _ => 81

def posHi : DateSpec → Int
  | .fixed _ m dd => monthStart false m + dd + 1
  | .easter _ => 116

theorem pos_width (ds : DateSpec) : posHi ds - posLo ds ≤ 35 := by
  cases ds <;> simp only [posLo, posHi] <;> omega

theorem inst_pos (ds : DateSpec) (hwf : ds.wf = true) (hyl : specYear ds = none) (k : Int)
    (hk : 0 ≤ k ∧ k ≤ 20000) (after : Bool) (p : Int) (hp : dateInstance ds k after = some p) :
    yearStart k + posLo ds ≤ p ∧ p ≤ yearStart k + posHi ds := by
  cases ds with
  | easter yr =>
    obtain ⟨d, he, _, lo, hi, _⟩ := easter_spec k hk.1 (by unfold maxYear; omega)
    simp only [dateInstance, he] at hp
    split at hp
    · cases hp
      have h3 := monthStart_mar k
      have h4 := monthStart_apr k
      have hl := yearLen_cases k
      simp only [posLo, posHi]
      unfold ymdRaw at lo hi
      omega
    · cases hp
  | fixed yr m dd =>
    cases yr with
    | some n => simp [specYear] at hyl
    | none =>
      simp only [DateSpec.wf, Bool.and_eq_true, decide_eq_true_eq] at hwf
      obtain ⟨⟨⟨⟨_, hm1⟩, hm2⟩, hd1⟩, hd2⟩ := hwf
      rw [dateInstance_fixed none k m dd after (Or.inl rfl) (by unfold minYear; omega) (by unfold maxYear; omega)
        hm1 hm2 hd1 hd2] at hp
      cases hp
      have := fixedInstance_pos k m dd after hd2
      simp only [posLo, posHi]
      omega

/-- position range of the SHIFTED instances (day offset, and up to 6 days of weekday shift) -/
def shiftLo (ds : DateSpec) (o : DateOffset) : Int := posLo ds + o.days - 6
def shiftHi (ds : DateSpec) (o : DateOffset) : Int := posHi ds + o.days + 6

theorem projT_pos {ds : DateSpec} {o : DateOffset} (h : BoundOK ds o) (hyl : specYear ds = none)
    (after : Bool) (k : Int) (hk : 0 ≤ k ∧ k ≤ 20000) :
    yearStart k + shiftLo ds o ≤ projT ds o after k ∧ projT ds o after k ≤ yearStart k + shiftHi ds o := by
  obtain ⟨P, hP⟩ := proj_some_yearless ds o after h.wf hyl k hk
  obtain ⟨p, hp, rfl⟩ := proj_eq_some hP
  have a := inst_pos ds h.wf hyl k hk after p hp
  have b := inst_shift_bounds h hk hp
  simp only [projT, hP, Option.getD_some, shiftLo, shiftHi]
  omega

/-- Rule-level condition for a dated range whose two bounds carry no year: the shifted start lies less
than a year before its nominal year (`-364 ≤ shiftLo`), the shifted end less than two years before
(`-730 ≤ shiftLo`), and either the start is at most two years late and every end comes before the NEXT
projection of the start, or the start is at most one year late and every end comes before the projection
of the start two years later.  (Covers every range whose bounds are shifted by less than a year and
whose occurrences are shorter than about a year, e.g. `Jan 1 -10 days-Dec 25`,
`Dec 31 +100 days-Jan 1 +50 days`, `easter -47 days-easter +60 days`.) -/
def datedWideB (s : DateSpec) (so : DateOffset) (e : DateSpec) (eo : DateOffset) : Bool :=
  decide (-364 ≤ shiftLo s so) && decide (-730 ≤ shiftLo e eo) &&
    ((decide (shiftHi s so ≤ 730) && decide (shiftHi e eo < 365 + shiftLo s so)) ||
     (decide (shiftHi s so ≤ 365) && decide (shiftHi e eo < 730 + shiftLo s so)))

theorem yearStart_step (a b : Int) (h : b = a + 1) :
    365 ≤ yearStart b - yearStart a ∧ yearStart b - yearStart a ≤ 366 := by
  subst h
  have := yearStart_succ a
  have := yearLen_cases a
  omega

theorem windowOK_of_wide (s : DateSpec) (so : DateOffset) (e : DateSpec) (eo : DateOffset) (d : Int)
    (hs : BoundOK s so) (he : BoundOK e eo) (hsy : specYear s = none) (hey : specYear e = none)
    (h : datedWideB s so e eo = true) (h1 : dateStart - 1 ≤ d) (h2 : d < dateEnd) :
    WindowOK (projT s so true) (projT e eo false) (year d) d (yearSpan so eo) := by
  have hy := year_window h1 h2
  have hw := yearSpan_bounds so eo hs.small he.small
  have hd : InY (year d) d := inY_year d
  unfold InY at hd
  generalize year d = y at *
  generalize yearSpan so eo = w at *
  simp only [datedWideB, Bool.and_eq_true, Bool.or_eq_true, decide_eq_true_eq] at h
  obtain ⟨⟨c1, c2⟩, c3⟩ := h
  have pS := fun k (hk : 0 ≤ k ∧ k ≤ 20000) => projT_pos hs hsy true k hk
  have pE := fun k (hk : 0 ≤ k ∧ k ≤ 20000) => projT_pos he hey false k hk
  have wS := pos_width s
  have wE := pos_width e
  simp only [shiftLo, shiftHi] at *
  have y32 := yearStart_step (y - 3) (y - 2) (by omega)
  have y21 := yearStart_step (y - 2) (y - 1) (by omega)
  have y10 := yearStart_step (y - 1) y (by omega)
  have y01 := yearStart_step y (y + 1) (by omega)
  have y12 := yearStart_step (y + 1) (y + 2) (by omega)
  have y23 := yearStart_step (y + 2) (y + 3) (by omega)
  refine ⟨fun k a b => ?_, fun k a b => ?_, ?_, ?_, ?_⟩
  · have p1 := pS k (by omega)
    have p2 := pS (k + 1) (by omega)
    have := yearStart_step k (k + 1) rfl
    omega
  · have p1 := pE k (by omega)
    have p2 := pE (k + 1) (by omega)
    have := yearStart_step k (k + 1) rfl
    omega
  · have := pS (y + 2) (by omega); omega
  · have := pE (y + 3) (by omega); omega
  · have e3 := pE (y - 3) (by omega)
    rcases c3 with ⟨a, b⟩ | ⟨a, b⟩
    · have s2 := pS (y - 2) (by omega)
      exact ⟨y - 2, by omega, by omega, by omega, by omega⟩
    · have s1 := pS (y - 1) (by omega)
      exact ⟨y - 1, by omega, by omega, by omega, by omega⟩

end OH.Proofs.EvalSpec
