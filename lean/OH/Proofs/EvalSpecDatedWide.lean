import OH.Proofs.EvalSpecDated
import OH.Proofs.HintDatedTotal
/-
C01 refinement, dated ranges with two FIXED yearless bounds (`Jan 01 …-Dec 31 …`, not a single day), day offsets
within ±92 000 000 days — as far as the search windows of the code (`ys-2 … ys+10` around the year of
`d - day offset`) are years chrono can represent.

Beyond ±30 000 000 days (OH/Proofs/EvalSpecDated.lean) the specification's candidate years (`yearSpan` years on
either side of the day, capped at the whole calendar) reach years whose SHIFTED instances are pinned at
`NaiveDate::MIN/MAX`, and years outside the calendar, which carry no instance.  So here:
 * the shifted instances `S k`, `E k` are WEAKLY increasing on all of `minYear … maxYear` (`projT_wmono`: the
   saturating shift is monotone, `DateOffset.shiftC_mono`) — which is all `openOn_widenW` needs;
 * they are strictly increasing, at their nominal position, on the years near the year of `d - day offset`
   (`projT_posW`, `noSat_near`), where the code looks;
 * the specification's pairing is read on the candidate years that are years of the calendar
   (`datedOk_yearless_iffW`).
-/
namespace OH.Proofs.EvalSpec
open OH.Model OH.Model.Cal
open OH.Spec (shift dateInstance exactInstance specYear datedOk candidateYears yearsNear yearSpan isFixedDate)

/-- a year of chrono's calendar -/
def RY (k : Int) : Prop := minYear ≤ k ∧ k ≤ maxYear

/-- `F` does not decrease from each year to the next on `lo … hi` -/
def WMono (F : Int → Int) (lo hi : Int) : Prop := ∀ k, lo ≤ k → k < hi → F k ≤ F (k + 1)

theorem wmono_le (F : Int → Int) (lo hi : Int) (h : WMono F lo hi)
    (a b : Int) (ha : lo ≤ a) (hab : a ≤ b) (hb : b ≤ hi) : F a ≤ F b := by
  obtain ⟨n, rfl⟩ : ∃ n : Nat, b = a + n := ⟨(b - a).toNat, by omega⟩
  induction n with
  | zero => simp
  | succ n ih =>
    have ih' := ih (by omega) (by omega)
    have st := h (a + n) (by omega) (by omega)
    rw [show a + ((n + 1 : Nat) : Int) = a + n + 1 by omega]
    omega

/-- `openOn_widen` with the weak order only -/
theorem openOn_widenW (S E : Int → Int) (lo hi a1 a2 b1 b2 d : Int) (mS : WMono S lo hi)
    (mE : WMono E lo hi) (ha : lo ≤ a1 ∧ a1 ≤ a2 ∧ a2 ≤ hi) (hb : lo ≤ b1 ∧ b1 ≤ b2 ∧ b2 ≤ hi)
    (ok : Adequate S E a1 a2 b1 b2 d) :
    OpenOn S E a1 a2 b1 b2 d ↔ OpenOn S E lo hi lo hi d := by
  have MS := wmono_le S lo hi mS
  have ME := wmono_le E lo hi mE
  constructor
  · rintro ⟨k, hk1, hk2, hle, hno⟩
    refine ⟨k, by omega, by omega, hle, fun j hj1 hj2 => ?_⟩
    by_cases hj : j < b1
    · have a := ME j b1 hj1 (by omega) (by omega)
      have b := hno b1 (by omega) (by omega)
      have := ok.eLo
      omega
    · by_cases hj' : b2 < j
      · have a := ME b2 j (by omega) (by omega) hj2
        have := ok.eHi
        omega
      · exact hno j (by omega) (by omega)
  · rintro ⟨k, hk1, hk2, hle, hno⟩
    have hk : k < a2 := by
      by_cases h : a2 ≤ k
      · have := MS a2 k (by omega) h hk2
        have := ok.sHi
        omega
      · omega
    by_cases hka : a1 ≤ k
    · exact ⟨k, hka, by omega, hle, fun j hj1 hj2 => hno j (by omega) (by omega)⟩
    · refine ⟨a1, by omega, by omega, ok.sLo, fun j hj1 hj2 => ?_⟩
      have a := MS k a1 hk1 (by omega) (by omega)
      have := hno j (by omega) (by omega)
      omega

/-- a fixed yearless bound with a day offset within ±92 000 000 days -/
structure BoundW (ds : DateSpec) (o : DateOffset) : Prop where
  wf : ds.wf = true
  owf : o.wday.wf = true
  fx : isFixedDate ds = true
  yl : specYear ds = none
  small : -92000000 ≤ o.days ∧ o.days ≤ 92000000

theorem BoundW.oWf {ds : DateSpec} {o : DateOffset} (h : BoundW ds o) : o.wf = true := by
  have := h.small
  simp only [DateOffset.wf, h.owf, i64Ok, Bool.true_and, Bool.and_eq_true, decide_eq_true_eq]
  omega

/-- the instance of a fixed yearless date on a year of the calendar: it exists, lies in that year, at its
nominal position, and is a day chrono can represent -/
theorem instW {ds : DateSpec} (hwf : ds.wf = true) (hfx : isFixedDate ds = true) (hyl : specYear ds = none)
    (k : Int) (hk : RY k) (after : Bool) :
    ∃ p, dateInstance ds k after = some p ∧ InY k p ∧
      (yearStart k + posLo ds ≤ p ∧ p ≤ yearStart k + posHi ds) ∧ (minDay ≤ p ∧ p ≤ maxDay) := by
  cases ds with
  | easter yr => simp [isFixedDate] at hfx
  | fixed yr m dd =>
    cases yr with
    | some n => simp [specYear] at hyl
    | none =>
      simp only [DateSpec.wf, Bool.and_eq_true, decide_eq_true_eq] at hwf
      obtain ⟨⟨⟨⟨_, hm1⟩, hm2⟩, hd1⟩, hd2⟩ := hwf
      have hy := fixedInstance_year k m dd after hm1 hm2 hd1 hd2
      have hp := fixedInstance_pos k m dd after hd2
      refine ⟨_, dateInstance_fixed none k m dd after (Or.inl rfl) hk.1 hk.2 hm1 hm2 hd1 hd2, hy, ?_, ?_⟩
      · simp only [posLo, posHi]; omega
      · have a := yearStart_le (a := minYear) (b := k) hk.1
        have b := yearStart_le (a := k + 1) (b := maxYear + 1) (by have := hk.2; omega)
        rw [yearStart_minYear] at a; rw [yearStart_maxYear_succ] at b
        rw [minDay_eq, maxDay_eq]; omega

/-- a fixed date has no instance outside the calendar -/
theorem dateInstance_out (yr : Option Nat) (m dd : Nat) (k : Int) (after : Bool) (hk : ¬ RY k) :
    dateInstance (.fixed yr m dd) k after = none := by
  unfold RY at hk
  have h0 : ofYmd? k m dd = none := by unfold ofYmd?; rw [if_neg (by omega)]
  have hc : ¬ (minYear ≤ k ∧ k ≤ maxYear ∧ dd > daysInMonth k m ∧ 1 ≤ m ∧ m ≤ 12 ∧ dd ≤ 31) := by omega
  simp [dateInstance, h0, hc]

theorem shift_eq_shiftC (o : DateOffset) (hw : o.wf = true) (p : Int) (h1 : minDay ≤ p) (h2 : p ≤ maxDay) :
    shift o p = o.shiftC p := by
  have hwd : o.wday.wf = true := by
    simp only [DateOffset.wf, Bool.and_eq_true] at hw; exact hw.1
  have a := apply_eq_shift o hwd p
  have b := o.apply_eq hw p h1 h2
  rw [a] at b
  exact Except.ok.inj b

theorem projW_some {ds : DateSpec} {o : DateOffset} (h : BoundW ds o) (after : Bool) (k : Int) (hk : RY k) :
    proj ds o after k = some (projT ds o after k) := by
  obtain ⟨p, hp, _⟩ := instW h.wf h.fx h.yl k hk after
  simp only [projT, proj, hp, Option.map_some, Option.getD_some]

/-- the shifted instances never decrease from a year to the next, saturated or not -/
theorem projT_wmono {ds : DateSpec} {o : DateOffset} (h : BoundW ds o) (after : Bool) :
    WMono (projT ds o after) minYear maxYear := by
  intro k h1 h2
  obtain ⟨p, hp, ip, _, rp⟩ := instW h.wf h.fx h.yl k ⟨h1, by omega⟩ after
  obtain ⟨q, hq, iq, _, rq⟩ := instW h.wf h.fx h.yl (k + 1) ⟨by omega, by omega⟩ after
  simp only [projT, proj, hp, hq, Option.map_some, Option.getD_some]
  rw [shift_eq_shiftC o h.oWf p rp.1 rp.2, shift_eq_shiftC o h.oWf q rq.1 rq.2]
  apply DateOffset.shiftC_mono o h.oWf
  unfold InY at ip iq
  omega

/-- on a year whose days, moved by the day offset, stay well inside the calendar, the shifted instance is
at its nominal position -/
theorem projT_posW {ds : DateSpec} {o : DateOffset} (h : BoundW ds o) (after : Bool) (k : Int) (hk : RY k)
    (hns : -95000000 ≤ yearStart k + o.days ∧ yearStart k + o.days ≤ 95000000) :
    yearStart k + shiftLo ds o ≤ projT ds o after k ∧ projT ds o after k ≤ yearStart k + shiftHi ds o := by
  obtain ⟨p, hp, ip, pp, _⟩ := instW h.wf h.fx h.yl k hk after
  have r := pos_range ds h.wf
  have hs := h.small
  have b := shift_bounds o p (by omega) (by rw [minDay_eq]; omega) (by rw [maxDay_eq]; omega)
  simp only [projT, proj, hp, Option.map_some, Option.getD_some, shiftLo, shiftHi]
  omega

/-- the years near the year `a` of `d - day offset`, `d` a day of the evaluation window (or a little after):
nothing saturates there, and they are years of the calendar -/
theorem noSat_near {d a : Int} {o : DateOffset} (hs : -92000000 ≤ o.days ∧ o.days ≤ 92000000)
    (ha : InY a (d - o.days)) (hd : 693595 ≤ d ∧ d ≤ 3652059) (k : Int) (hk : a - 6 ≤ k ∧ k ≤ a + 14) :
    RY k ∧ -95000000 ≤ yearStart k + o.days ∧ yearStart k + o.days ≤ 95000000 := by
  unfold InY at ha
  have hst := yearStart_step a (a + 1) rfl
  have hk' : d - 2600 ≤ yearStart k + o.days ∧ yearStart k + o.days ≤ d + 5200 := by
    by_cases hka : k ≤ a
    · have := yearStart_add_le k (a - k).toNat
      rw [show k + ((a - k).toNat : Int) = a by omega] at this
      have := yearStart_le (a := k) (b := a) hka
      omega
    · have := yearStart_add_le a (k - a).toNat
      rw [show a + ((k - a).toNat : Int) = k by omega] at this
      omega
  refine ⟨?_, by omega, by omega⟩
  unfold RY
  constructor
  · -- `yearStart minYear < yearStart k`
    have : yearStart minYear < yearStart k := by rw [yearStart_minYear]; omega
    have := yearStart_lt_iff.1 this
    omega
  · have : yearStart k < yearStart (maxYear + 1) := by rw [yearStart_maxYear_succ]; omega
    have := yearStart_lt_iff.1 this
    omega

/-- the centre of the code's windows, offsets within ±92 000 000 days -/
theorem yearBeforeOffset_eqW (d : Int) (o : DateOffset) (hs : -92000000 ≤ o.days ∧ o.days ≤ 92000000)
    (hd : 693595 ≤ d ∧ d ≤ 3652059) : yearBeforeOffset d o = year (d - o.days) := by
  unfold yearBeforeOffset
  have e : satNeg o.days = -o.days := by unfold satNeg; rw [if_neg (by omega)]
  rw [e, addDaysSat_eq (by omega) (by rw [minDay_eq]; omega) (by rw [maxDay_eq]; omega)]
  congr 1

theorem boundsOn_eqW {ds : DateSpec} {o : DateOffset} (h : BoundW ds o) (after : Bool) (ys : List Int)
    (hys : ∀ y ∈ ys, RY y) :
    boundsOn ds o after ys = .ok (ys.filterMap (proj ds o after)) := by
  induction ys with
  | nil => rfl
  | cons y ys ih =>
    have hy := hys y (by simp)
    have ih' := ih (fun z hz => hys z (by simp [hz]))
    unfold boundsOn
    rw [ih', dateOnYear_eq_instance ds y after h.wf hy.1 hy.2 (Or.inl h.yl)]
    simp only [ok_bind, List.filterMap_cons, proj]
    cases hp : dateInstance ds y after with
    | none => rfl
    | some p => simp only [apply_eq_shift o h.owf p, ok_bind, pure_eq_ok, Option.map_some]

/-- declarative reading of `datedOk` for two fixed yearless bounds: the pairing on the candidate years that
are years of the calendar -/
theorem datedOk_yearless_iffW (s : DateSpec) (so : DateOffset) (e : DateSpec) (eo : DateOffset) (d : Int)
    (hs : BoundW s so) (he : BoundW e eo) (hns : ¬ (s = e ∧ isFixedDate s = true)) :
    datedOk s so e eo d = true ↔
      OpenOn (projT s so true) (projT e eo false)
        (max (year d - yearSpan so eo) minYear) (min (year d + yearSpan so eo) maxYear)
        (max (year d - yearSpan so eo) minYear) (min (year d + yearSpan so eo) maxYear) d := by
  have hsy := hs.yl
  have hey := he.yl
  rw [datedOk_range_iff s so e eo d hns]
  have cand : ∀ k, k ∈ candidateYears s e (yearSpan so eo) d ↔
      year d - yearSpan so eo ≤ k ∧ k ≤ year d + yearSpan so eo := by
    intro k; rw [candidateYears_yearless s e _ d hsy hey, mem_yearsNear]
  have outS : ∀ k p, dateInstance s k true = some p → RY k := by
    intro k p hp
    by_cases hk : RY k
    · exact hk
    · cases s with
      | easter yr => have := hs.fx; simp [isFixedDate] at this
      | fixed yr m dd => rw [dateInstance_out yr m dd k true hk] at hp; cases hp
  have outE : ∀ k p, dateInstance e k false = some p → RY k := by
    intro k p hp
    by_cases hk : RY k
    · exact hk
    · cases e with
      | easter yr => have := he.fx; simp [isFixedDate] at this
      | fixed yr m dd => rw [dateInstance_out yr m dd k false hk] at hp; cases hp
  have pS := fun k (hk : RY k) => projW_some hs true k hk
  have pE := fun k (hk : RY k) => projW_some he false k hk
  simp only [hey, ne_eq, not_true_eq_false, false_imp_iff, and_true]
  unfold OpenOn
  constructor
  · rintro ⟨s0, hs0, hle, hno⟩
    obtain ⟨k, hk, p, hp, rfl⟩ := mem_specStarts.1 hs0
    have hk' := (cand k).1 hk
    have rk := outS k p hp
    have ek := pS k rk
    simp only [proj, hp, Option.map_some, Option.some.injEq] at ek
    unfold RY at rk
    refine ⟨k, by omega, by omega, by rw [← ek]; exact hle, fun j hj1 hj2 => ?_⟩
    have rj : RY j := by unfold RY; omega
    have ej := pE j rj
    unfold proj at ej
    rw [Option.map_eq_some_iff] at ej
    obtain ⟨q, hq, hqe⟩ := ej
    rw [← ek, ← hqe]
    exact hno _ (mem_specEnds.2 ⟨j, (cand j).2 ⟨by omega, by omega⟩, q, hq, rfl⟩)
  · rintro ⟨k, hk1, hk2, hle, hno⟩
    have rk : RY k := by unfold RY; omega
    refine ⟨projT s so true k, mem_specStarts.2 ⟨k, (cand k).2 ⟨by omega, by omega⟩, ?_⟩, hle, ?_⟩
    · have := pS k rk
      unfold proj at this
      rw [Option.map_eq_some_iff] at this
      obtain ⟨p, hp, hpe⟩ := this
      exact ⟨p, hp, hpe.symm⟩
    · intro x hx
      obtain ⟨j, hj, p, hp, rfl⟩ := mem_specEnds.1 hx
      have hj' := (cand j).1 hj
      have rj := outE j p hp
      have := pE j rj
      simp only [proj, hp, Option.map_some, Option.some.injEq] at this
      unfold RY at rj
      rw [this]; exact hno j (by omega) (by omega)

/-- strict order (and nominal positions) on the years near the centre `a` of a window -/
theorem projT_stepNear {ds : DateSpec} {o : DateOffset} (h : BoundW ds o) (after : Bool) {d a : Int}
    (ha : InY a (d - o.days)) (hd : 693595 ≤ d ∧ d ≤ 3652059) :
    StepMono (projT ds o after) (a - 6) (a + 13) := by
  intro k h1 h2
  obtain ⟨r1, n1⟩ := noSat_near h.small ha hd k ⟨by omega, by omega⟩
  obtain ⟨r2, n2⟩ := noSat_near h.small ha hd (k + 1) ⟨by omega, by omega⟩
  have p1 := projT_posW h after k r1 n1
  have p2 := projT_posW h after (k + 1) r2 n2
  have := yearStart_step k (k + 1) rfl
  have := pos_width ds
  simp only [shiftLo, shiftHi] at *
  omega

/-- `a` being the year of `d - offset`, the instances of the years up to `a - 2` are shifted before `d` … -/
theorem projT_lt_of_yearW {ds : DateSpec} {o : DateOffset} (h : BoundW ds o) (after : Bool) {d a : Int}
    (ha : InY a (d - o.days)) (hd : 693595 ≤ d ∧ d ≤ 3652059) (k : Int) (hk : RY k) (hka : k + 2 ≤ a) :
    projT ds o after k < d := by
  obtain ⟨r, n⟩ := noSat_near h.small ha hd (a - 2) ⟨by omega, by omega⟩
  have m := wmono_le _ _ _ (projT_wmono h after) k (a - 2) hk.1 (by omega) r.2
  have p := projT_posW h after (a - 2) r n
  have rr := pos_range ds h.wf
  have s1 := yearStart_step (a - 2) (a - 1) (by omega)
  have s2 := yearStart_step (a - 1) a (by omega)
  unfold InY at ha
  simp only [shiftLo, shiftHi] at *
  omega

/-- … and the instances of the years from `a + 2` on are shifted after `d` -/
theorem lt_projT_of_yearW {ds : DateSpec} {o : DateOffset} (h : BoundW ds o) (after : Bool) {d a : Int}
    (ha : InY a (d - o.days)) (hd : 693595 ≤ d ∧ d ≤ 3652059) (k : Int) (hk : RY k) (hka : a + 2 ≤ k) :
    d < projT ds o after k := by
  obtain ⟨r, n⟩ := noSat_near h.small ha hd (a + 2) ⟨by omega, by omega⟩
  have m := wmono_le _ _ _ (projT_wmono h after) (a + 2) k r.1 hka hk.2
  have p := projT_posW h after (a + 2) r n
  have rr := pos_range ds h.wf
  have s1 := yearStart_step (a + 1) (a + 2) (by omega)
  unfold InY at ha
  simp only [shiftLo, shiftHi] at *
  omega

/-- THE WINDOW THEOREM for two fixed yearless bounds (not a single day), day offsets within ±92 000 000 days:
pairing the starts of a run of years near the year of `d - start offset` that reaches two years below and above
it with the ends of such a run around the year of `d - end offset` selects `d` iff the specification does. -/
theorem dated_window_eqW (s : DateSpec) (so : DateOffset) (e : DateSpec) (eo : DateOffset) (d : Int)
    (hs : BoundW s so) (he : BoundW e eo) (hns : ¬ (s = e ∧ isFixedDate s = true))
    (hd : 693595 ≤ d ∧ d ≤ 3652059) (a1 : Int) (na : Nat) (b1 : Int) (nb : Nat)
    (ha : year (d - so.days) - 6 ≤ a1 ∧ a1 + na ≤ year (d - so.days) + 14)
    (hb : year (d - eo.days) - 6 ≤ b1 ∧ b1 + nb ≤ year (d - eo.days) + 14)
    (ha1 : a1 + 2 ≤ year (d - so.days)) (ha2 : year (d - so.days) + 2 ≤ a1 + na - 1)
    (hb1 : b1 + 2 ≤ year (d - eo.days)) (hb2 : year (d - eo.days) + 2 ≤ b1 + nb - 1) :
    isOpenFromIntervals d (intervalsFromBounds ((yearRun a1 na).filterMap (proj s so true))
      ((yearRun b1 nb).filterMap (proj e eo false))) = datedOk s so e eo d := by
  have hy : 1899 ≤ year d ∧ year d ≤ 9999 :=
    year_window (by rw [dateStart_eq]; omega) (by rw [dateEnd_eq]; omega)
  have hwdef : yearSpan so eo = min (3 + (so.days.natAbs + eo.days.natAbs) / 365) 272200 := rfl
  have hmin : minYear = -262143 := rfl
  have hmax : maxYear = 262142 := rfl
  have nS := year_sub_near d so.days
  have nE := year_sub_near d eo.days
  have hss := hs.small
  have hes := he.small
  have iS : InY (year (d - so.days)) (d - so.days) := inY_year _
  have iE : InY (year (d - eo.days)) (d - eo.days) := inY_year _
  have cS := fun k hk => (noSat_near hss iS hd k hk).1
  have cE := fun k hk => (noSat_near hes iE hd k hk).1
  have stS := projT_stepNear hs true iS hd
  have stE := projT_stepNear he false iE hd
  have wS := projT_wmono hs true
  have wE := projT_wmono he false
  have ltS := projT_lt_of_yearW hs true iS hd
  have gtS := lt_projT_of_yearW hs true iS hd
  have ltE := projT_lt_of_yearW he false iE hd
  have gtE := lt_projT_of_yearW he false iE hd
  have pS := fun k (hk : RY k) => projW_some hs true k hk
  have pE := fun k (hk : RY k) => projW_some he false k hk
  have hiff := datedOk_yearless_iffW s so e eo d hs he hns
  unfold RY at *
  generalize year (d - so.days) = ys at *
  generalize year (d - eo.days) = ye at *
  generalize projT s so true = S at *
  generalize projT e eo false = E at *
  rw [run_filterMap _ S a1 na (fun k a b => pS k (cS k (by omega))),
    run_filterMap _ E b1 nb (fun k a b => pE k (cE k (by omega)))]
  have sortS := run_map_sorted S (ys - 6) (ys + 13) a1 na stS (by omega) (by omega)
  have sortE := run_map_sorted E (ye - 6) (ye + 13) b1 nb stE (by omega) (by omega)
  have rA1 := cS a1 (by omega)
  have rA2 := cS (a1 + na - 1) (by omega)
  have rB1 := cE b1 (by omega)
  have rB2 := cE (b1 + nb - 1) (by omega)
  have rS6 := cS (ys - 6) (by omega)
  have rS14 := cS (ys + 14) (by omega)
  have rE6 := cE (ye - 6) (by omega)
  have rE14 := cE (ye + 14) (by omega)
  rw [Bool.eq_iff_iff, isOpen_intervalsFromBounds' _ _ d sortS sortE (by rw [dateEnd_eq]; omega),
    pairSpec_run S E a1 na b1 nb d,
    openOn_widenW S E minYear maxYear a1 (a1 + na - 1) b1 (b1 + nb - 1) d wS wE (by omega) (by omega)
      ⟨by have := ltS a1 rA1 (by omega); omega, gtS _ rA2 (by omega),
        ltE b1 rB1 (by omega),
        by have := gtE (b1 + nb - 1) rB2 (by omega); omega⟩,
    hiff]
  generalize yearSpan so eo = w at *
  generalize year d = y at *
  exact (openOn_widenW S E minYear maxYear (max (y - w) minYear) (min (y + w) maxYear)
    (max (y - w) minYear) (min (y + w) maxYear) d wS wE (by omega) (by omega)
    ⟨by have := ltS (max (y - w) minYear) (by omega) (by omega); omega,
      gtS (min (y + w) maxYear) (by omega) (by omega),
      ltE (max (y - w) minYear) (by omega) (by omega),
      by have := gtE (min (y + w) maxYear) (by omega) (by omega); omega⟩).symm

/-- Class (c), two FIXED yearless bounds: the model's filter is the specification's `datedOk` on every day of
1899-12-31 … 9999-12-31, whatever the offsets within ±92 000 000 days. -/
theorem dated_yearless_eqW (s : DateSpec) (so : DateOffset) (e : DateSpec) (eo : DateOffset) (d : Int)
    (hs : BoundW s so) (he : BoundW e eo) (hns : ¬ (s = e ∧ isFixedDate s = true))
    (h1 : dateStart - 1 ≤ d) (h2 : d < dateEnd) :
    MonthdayRange.filter (.date s so e eo) d = .ok (datedOk s so e eo d) := by
  have hdw := window_days h1 h2
  have eS := yearBeforeOffset_eqW d so hs.small hdw
  have eE := yearBeforeOffset_eqW d eo he.small hdw
  have iS : InY (year (d - so.days)) (d - so.days) := inY_year _
  have iE : InY (year (d - eo.days)) (d - eo.days) := inY_year _
  have cS := fun k hk => (noSat_near hs.small iS hdw k hk).1
  have cE := fun k hk => (noSat_near he.small iE hdw k hk).1
  have b1 : boundsOn s so true (yearsAround (yearBeforeOffset d so) 2 2)
      = .ok ((yearRun (year (d - so.days) - 2) 5).filterMap (proj s so true)) := by
    rw [eS, yearsAround_eq_run, boundsOn_eqW hs true _ (fun k hk => by
      rw [mem_yearRun] at hk; exact cS k (by omega))]
    rfl
  have b2 : boundsOn e eo false (yearsAround (yearBeforeOffset d eo) 2 2)
      = .ok ((yearRun (year (d - eo.days) - 2) 5).filterMap (proj e eo false)) := by
    rw [eE, yearsAround_eq_run, boundsOn_eqW he false _ (fun k hk => by
      rw [mem_yearRun] at hk; exact cE k (by omega))]
    rfl
  rw [filter_generic s so e eo d hs.yl hns _ _ b1 b2]
  congr 1
  exact dated_window_eqW s so e eo d hs he hns hdw _ 5 _ 5 (by omega) (by omega)
    (by omega) (by omega) (by omega) (by omega)

/-! ### a single fixed day without a year, end offset within ±92 000 000 days (any start offset) -/

/-- the saturating shift is monotone on the days chrono can represent -/
theorem shift_mono (o : DateOffset) (hw : o.wf = true) {p q : Int} (hp : minDay ≤ p) (hpq : p ≤ q)
    (hq : q ≤ maxDay) : shift o p ≤ shift o q := by
  rw [shift_eq_shiftC o hw p hp (by omega), shift_eq_shiftC o hw q (by omega) hq]
  exact DateOffset.shiftC_mono o hw hpq

/-- a shifted day at or before a day of the evaluation window is not pinned at `NaiveDate::MAX` … -/
theorem shift_le_imp (o : DateOffset) (hw : o.wf = true) {f d : Int} (hf : minDay ≤ f ∧ f ≤ maxDay)
    (hd : d ≤ 3652059) (h : shift o f ≤ d) : f + o.days - 6 ≤ d := by
  rw [shift_eq_shiftC o hw f hf.1 hf.2] at h
  have := (o.shiftC_near f).1
  have := minDay_eq; have := maxDay_eq
  unfold clampDay at *
  omega

/-- … and one at or after such a day is not pinned at `NaiveDate::MIN` -/
theorem le_shift_imp (o : DateOffset) (hw : o.wf = true) {f d : Int} (hf : minDay ≤ f ∧ f ≤ maxDay)
    (hd : 693595 ≤ d) (h : d ≤ shift o f) : d ≤ f + o.days + 6 := by
  rw [shift_eq_shiftC o hw f hf.1 hf.2] at h
  have := (o.shiftC_near f).2
  have := minDay_eq; have := maxDay_eq
  unfold clampDay at *
  omega

/-- THE SINGLE-DAY WINDOW THEOREM, wide.  `c` being the year of `d - end offset`: some occurrence of the years
`c-1 … c-2+n` (`10 ≤ n ≤ 13`), shifted, contains `d` iff the specification selects `d`. -/
theorem single_window_iffW (m dd : Nat) (so eo : DateOffset) (d : Int) (hso : so.wf = true) (heo : eo.wf = true)
    (hes : -92000000 ≤ eo.days ∧ eo.days ≤ 92000000)
    (hd : 693595 ≤ d ∧ d ≤ 3652059) (n : Nat) (hn : 10 ≤ n ∧ n ≤ 13) :
    (∃ r ∈ (yearRun (year (d - eo.days) - 1) n).filterMap (dayIv m dd so eo), r.1 ≤ d ∧ d ≤ r.2) ↔
      datedOk (.fixed none m dd) so (.fixed none m dd) eo d = true := by
  have hy : 1899 ≤ year d ∧ year d ≤ 9999 :=
    year_window (by rw [dateStart_eq]; omega) (by rw [dateEnd_eq]; omega)
  have hwdef : yearSpan so eo = min (3 + (so.days.natAbs + eo.days.natAbs) / 365) 272200 := rfl
  have hmin : minYear = -262143 := rfl
  have hmax : maxYear = 262142 := rfl
  have iE : InY (year (d - eo.days)) (d - eo.days) := inY_year _
  have iD : InY (year d) d := inY_year d
  have cE := fun k hk => noSat_near hes iE hd k hk
  rw [datedOk_single_iff]
  generalize year (d - eo.days) = c at *
  generalize yearSpan so eo = w at *
  generalize year d = y at *
  simp only [List.mem_filterMap, mem_yearRun, dayIv, Option.map_eq_some_iff]
  constructor
  · rintro ⟨r, ⟨k, hk, f, hf, rfl⟩, hle, hge⟩
    simp only at hle hge
    obtain ⟨⟨r1, r2⟩, _, _, p1, p2⟩ := day_pos hf
    have fr := ofYmd?_inRange hf
    have l1 := shift_le_imp so hso fr hd.2 hle
    have l2 := le_shift_imp eo heo fr hd.1 hge
    have := year_dist (a := k) (b := y) (p := f) (q := d) ⟨p1, p2⟩ iD (so.days.natAbs + eo.days.natAbs + 6)
      (by omega) (by omega)
    exact ⟨k, by omega, by omega, f, hf, hle, hge⟩
  · rintro ⟨k, hk1, hk2, f, hf, hle, hge⟩
    obtain ⟨⟨r1, r2⟩, _, _, p1, p2⟩ := day_pos hf
    have fr := ofYmd?_inRange hf
    have l2 := le_shift_imp eo heo fr hd.1 hge
    -- the occurrence is not older than the year before `c`
    have hkc : c - 1 ≤ k := by
      by_cases h : k + 2 ≤ c
      · have := yearStart_le (a := k + 2) (b := c) h
        have := yearStart_step (k + 1) (k + 2) (by omega)
        unfold InY at iE
        omega
      · omega
    by_cases hk8 : k < c - 1 + n
    · exact ⟨_, ⟨k, ⟨hkc, hk8⟩, f, hf, rfl⟩, hle, hge⟩
    · -- a later occurrence: one of the years c+1 … c+8 does as well
      have rc1 := (cE (c + 1) (by omega)).1
      have rc8 := (cE (c + 8) (by omega)).1
      obtain ⟨k1, f1, a1, a2, hf1, hlate⟩ := day_exists_late m dd k f hf (c + 1)
        ⟨rc1.1, by have := rc8.2; omega⟩
      obtain ⟨_, _, _, q1, q2⟩ := day_pos hf1
      have fr1 := ofYmd?_inRange hf1
      have hff : f1 ≤ f := by
        have := yearStart_le (a := k1 + 1) (b := k) (by omega)
        omega
      have m1 := shift_mono so hso fr1.1 hff fr.2
      have n1 := (cE k1 (by omega)).2
      have st1 := yearStart_step k1 (k1 + 1) rfl
      have sb := shift_bounds eo f1 (by omega) (by rw [minDay_eq]; omega) (by rw [maxDay_eq]; omega)
      unfold InY at iE
      exact ⟨_, ⟨k1, ⟨by omega, by omega⟩, f1, hf1, rfl⟩, by simp only; omega, by simp only; omega⟩

/-- the shifted occurrences of a run of years start in (weakly) increasing order — any offsets -/
theorem dayIv_sortedW (m dd : Nat) (so eo : DateOffset) (hso : so.wf = true) (a : Int) (n : Nat) :
    ((yearRun a n).filterMap (dayIv m dd so eo)).Pairwise (fun r r' => r.1 ≤ r'.1) := by
  unfold yearRun
  rw [List.filterMap_map, List.pairwise_filterMap]
  refine List.Pairwise.imp_of_mem ?_ (List.pairwise_lt_range (n := n))
  intro i j hin hjn hij r hr r' hr'
  simp only [List.mem_range] at hin hjn
  simp only [Function.comp, dayIv, Option.map_eq_some_iff] at hr hr'
  obtain ⟨f, hf, rfl⟩ := hr
  obtain ⟨f', hf', rfl⟩ := hr'
  obtain ⟨_, _, _, p1, p2⟩ := day_pos hf
  obtain ⟨_, _, _, q1, q2⟩ := day_pos hf'
  have := yearStart_le (a := a + i + 1) (b := a + j) (by omega)
  simp only
  exact shift_mono so hso (ofYmd?_inRange hf).1 (by omega) (ofYmd?_inRange hf').2

/-- Class (b), wide: a single fixed day without a year — every day of 1899-12-31 … 9999-12-31, end offset
within ±92 000 000 days, ANY start offset. -/
theorem dated_single_eqW (m dd : Nat) (so eo : DateOffset) (d : Int)
    (hso : so.wf = true) (heo : eo.wf = true) (hes : -92000000 ≤ eo.days ∧ eo.days ≤ 92000000)
    (h1 : dateStart - 1 ≤ d) (h2 : d < dateEnd) :
    MonthdayRange.filter (.date (.fixed none m dd) so (.fixed none m dd) eo) d
      = .ok (datedOk (.fixed none m dd) so (.fixed none m dd) eo d) := by
  have hdw := window_days h1 h2
  have eE := yearBeforeOffset_eqW d eo hes hdw
  have hso' : so.wday.wf = true := by simp only [DateOffset.wf, Bool.and_eq_true] at hso; exact hso.1
  have heo' : eo.wday.wf = true := by simp only [DateOffset.wf, Bool.and_eq_true] at heo; exact heo.1
  have hfind := singleDayFind_eq m dd so eo d hso' heo' (yearRun (year (d - eo.days) - 1) 10)
  rw [filter_single none m dd so eo d _ (by simp only []; rw [eE, yearsAround_eq_run]; exact hfind)]
  congr 1
  rw [Bool.eq_iff_iff, find_contains_iff _ d (dayIv_sortedW m dd so eo hso _ 10),
    single_window_iffW m dd so eo d hso heo hes hdw 10 (by omega)]

end OH.Proofs.EvalSpec
