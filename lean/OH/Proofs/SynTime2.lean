import OH.Proofs.SynTime1
/-
Time selector, part 2: `timespan`.  The rule is an ordered choice of five sequences; it is first
re-bracketed (`g_timespan_eq`, by `rfl` against the generated grammar) into a common prefix `pre K`
(`time ~ space? ~ "-" ~ K`), the repetition tail `tailRep X` (`space? ~ "/" ~ space? ~ X`) and the
five continuations, so that each alternative is run — and each earlier alternative is shown to FAIL
— on each of the four printed shapes:
   `a-b/HH:MM` (alt 1)   `a-b/MM` (alt 2)   `a-b+` (alt 3)   `a-b` (alt 4)   `a+` (alt 5).
-/
namespace OH.Proofs.Syn
open OH.Model OH.Model.Peg OH.Model.Parser OH.Generated.Grammar

/-! ### the shape of the rule -/

/-- `space?` (kept folded so that the lemmas below, not the unfolding equations, rewrite it) -/
def optSpace : G := .opt g_space

/-- `space? ~ "/" ~ space? ~ X` -/
def tailRep (X : G) : G := .seq optSpace (.seq (.str ['/']) (.seq optSpace X))

/-- `time ~ space? ~ "-" ~ K` -/
def pre (K : G) : G := .seq g_time (.seq optSpace (.seq (.str ['-']) K))

def k1 : G := .seq g_extended_time (tailRep g_hour_minutes)
def k2 : G := .seq g_extended_time (tailRep g_minute)
def k3 : G := .seq optSpace (.seq g_extended_time g_timespan_plus)
def k4 : G := .seq optSpace g_extended_time
def alt5 : G := .seq g_time g_timespan_plus

/-- the generated rule is this ordered choice (checked against the grammar as it is now) -/
theorem g_timespan_eq :
    g_timespan = .rule .timespan false (.alt (pre k1) (.alt (pre k2) (.alt (pre k3) (.alt (pre k4) alt5)))) :=
  rfl

/-! ### what may follow a printed time span -/

/-- after a time span: not `:` (it would extend a `/MM` repetition to `/HH:MM`), not `+` (open end),
not `/` or ` /` (a repetition) -/
def FollowSpan (rest : List Char) : Prop :=
  (∀ r, rest ≠ ':' :: r) ∧ (∀ r, rest ≠ '+' :: r) ∧ (∀ r, rest ≠ '/' :: r) ∧ (∀ r, rest ≠ ' ' :: '/' :: r)

theorem followSpan_nil : FollowSpan [] := by simp [FollowSpan]

theorem followSpan_cons (c : Char) (r : List Char) (h1 : c ≠ ':') (h2 : c ≠ '+') (h3 : c ≠ '/')
    (h4 : c ≠ ' ') : FollowSpan (c :: r) := by
  simp [FollowSpan, h1, h2, h3, h4]

/-! ### small pieces -/

theorem run_optSpace_nil (q : Bool) : run optSpace q [] = some ⟨[], [], []⟩ := by
  simp [optSpace, g_space, peg]

theorem run_optSpace_cons (q : Bool) (c : Char) (r : List Char) (h : ' ' ≠ c) :
    run optSpace q (c :: r) = some ⟨[], [], c :: r⟩ := by
  simp [optSpace, g_space, peg, h]

theorem run_optSpace_space (q : Bool) (r : List Char) :
    run optSpace q (' ' :: r) = some ⟨[], [' '], r⟩ := by
  simp [optSpace, g_space, peg]

theorem timeStart_ne_space (c : Char) (h : TimeStart c) : ' ' ≠ c := by
  intro e; subst e; unfold TimeStart at h; revert h; decide

theorem run_optSpace_time (q : Bool) (t : Time) (h : okStop t = true) (inp : List Char) :
    run optSpace q (Print.time t ++ inp) = some ⟨[], [], Print.time t ++ inp⟩ := by
  obtain ⟨c, cs, e, hc⟩ := time_head t h
  rw [e]
  exact run_optSpace_cons q c _ (timeStart_ne_space c hc)

theorem run_pre (K : G) (s : Time) (hs : okStart s = true) (inp : List Char) :
    run (pre K) false (Print.time s ++ '-' :: inp) =
      match run K false inp with
      | none => none
      | some r => some ⟨timeTree s :: r.kids, Print.time s ++ '-' :: r.eaten, r.rest⟩ := by
  rcases h : run K false inp with _ | r <;>
    simp [pre, peg, run_time s hs, run_optSpace_cons, h]

theorem run_pre_plus (K : G) (s : Time) (hs : okStart s = true) (inp : List Char) :
    run (pre K) false (Print.time s ++ '+' :: inp) = none := by
  simp [pre, peg, run_time s hs, run_optSpace_cons]

theorem run_tailRep_follow (X : G) (q : Bool) (rest : List Char) (hf : FollowSpan rest) :
    run (tailRep X) q rest = none := by
  obtain ⟨_, _, h3, h4⟩ := hf
  cases rest with
  | nil => simp [tailRep, run_optSpace_nil, peg]
  | cons c r =>
    by_cases hc : c = ' '
    · subst hc
      cases r with
      | nil => simp [tailRep, run_optSpace_space, peg]
      | cons d r' =>
        have : '/' ≠ d := by intro e; subst e; exact h4 r' rfl
        simp [tailRep, run_optSpace_space, peg, this]
    · have h1 : ' ' ≠ c := fun e => hc e.symm
      have h2 : '/' ≠ c := by intro e; subst e; exact h3 r rfl
      simp [tailRep, run_optSpace_cons _ c r h1, peg, h2]

theorem run_tailRep_plus (X : G) (q : Bool) (inp : List Char) :
    run (tailRep X) q ('+' :: inp) = none := by
  simp [tailRep, run_optSpace_cons, peg]

/-! ### the repetition: `/HH:MM` (alternative 1) or `/MM` (alternative 2) -/

theorem dc_ne_space : ∀ d, d < 10 → ' ' ≠ dc d := by decide

theorem run_tailRep_hm (n : Nat) (hn : n ≤ 1440) (rest : List Char) :
    run (tailRep g_hour_minutes) false ('/' :: (Print.extTime n ++ rest)) =
      some ⟨[hmTree n], '/' :: Print.extTime n, rest⟩ := by
  have hsp := run_optSpace_time false (.fixed n) (by simp [okStop]; omega) rest
  simp only [Print.time] at hsp
  simp [tailRep, peg, run_optSpace_cons, hsp, run_hour_minutes n hn rest]

theorem run_tailRep_minute (n : Nat) (hn : n < 60) (rest : List Char) :
    run (tailRep g_minute) false ('/' :: (Print.pad2 n ++ rest)) =
      some ⟨[.node .minute (Print.pad2 n) []], '/' :: Print.pad2 n, rest⟩ := by
  have hm := run_minute false n hn rest
  rw [pad2_lt100 n (by omega)] at hm ⊢
  simp only [List.cons_append, List.nil_append] at hm ⊢
  simp [tailRep, peg, run_optSpace_cons, dc_ne_space (n / 10) (by omega), hm]
theorem dc_ge4 : ∀ d, d < 10 → 4 ≤ d → ¬ (dc d ≤ '3') := by decide
theorem dc_ge3 : ∀ d, d < 10 → 3 ≤ d → '2' ≠ dc d ∧ ¬ (dc d ≤ '1') := by decide

/-- two digits below 60 followed by anything but `:` are not an `hour_minutes`: this is why the
printed `/05` falls through alternative 1 -/
theorem run_hour_minutes_pad2 (n : Nat) (hn : n < 60) (rest : List Char) (hr : ∀ r, rest ≠ ':' :: r) :
    run g_hour_minutes false (Print.pad2 n ++ rest) = none := by
  have hcolon : run (.str [':'] : G) false rest = none := by
    cases rest with
    | nil => simp [peg]
    | cons c r =>
      have : ':' ≠ c := by intro e; subst e; exact hr r rfl
      simp [peg, this]
  have hlit : run (.str ['2', '4', ':', '0', '0'] : G) false (Print.pad2 n ++ rest) = none := by
    rw [pad2_lt100 n (by omega)]
    cases rest with
    | nil => simp [peg]
    | cons c r =>
      have : ':' ≠ c := by intro e; subst e; exact hr r rfl
      simp [peg, this]
  by_cases h24 : n < 24
  · simp [g_hour_minutes, peg, run_hour false n h24 rest, hcolon, hlit]
  · have hh : run g_hour false (Print.pad2 n ++ rest) = none := by
      rw [pad2_lt100 n (by omega)]
      have hd := dc_digit (n % 10) (by omega)
      have hd1 := dc_digit (n / 10) (by omega)
      by_cases h30 : n < 30
      · have e : n / 10 = 2 := by omega
        have h2 : dc 2 = '2' := by decide
        have h3 := dc_ge4 (n % 10) (by omega) (by omega)
        simp [g_hour, peg, e, h2, h3, hd]
      · obtain ⟨h2, h1⟩ := dc_ge3 (n / 10) (by omega) (by omega)
        simp [g_hour, peg, h1, h2, hd, hd1]
    simp [g_hour_minutes, peg, hh, hlit]

theorem run_tailRep_hm_pad2 (n : Nat) (hn : n < 60) (rest : List Char) (hr : ∀ r, rest ≠ ':' :: r) :
    run (tailRep g_hour_minutes) false ('/' :: (Print.pad2 n ++ rest)) = none := by
  have hm := run_hour_minutes_pad2 n hn rest hr
  rw [pad2_lt100 n (by omega)] at hm ⊢
  simp only [List.cons_append, List.nil_append] at hm ⊢
  simp [tailRep, peg, run_optSpace_cons, dc_ne_space (n / 10) (by omega), hm]

/-! ### the four continuations after `time ~ space? ~ "-"`, on the four printed shapes -/

-- shape `b/HH:MM`
theorem run_k1_hm (e : Time) (he : okStop e = true) (n : Nat) (hn : n ≤ 1440) (rest : List Char) :
    run k1 false (Print.time e ++ '/' :: (Print.extTime n ++ rest)) =
      some ⟨[extTree e, hmTree n], Print.time e ++ '/' :: Print.extTime n, rest⟩ := by
  simp [k1, peg, run_extended_time e he, run_tailRep_hm n hn rest]

-- shape `b/MM`
theorem run_k1_minute (e : Time) (he : okStop e = true) (n : Nat) (hn : n < 60) (rest : List Char)
    (hr : ∀ r, rest ≠ ':' :: r) :
    run k1 false (Print.time e ++ '/' :: (Print.pad2 n ++ rest)) = none := by
  simp [k1, peg, run_extended_time e he, run_tailRep_hm_pad2 n hn rest hr]

theorem run_k2_minute (e : Time) (he : okStop e = true) (n : Nat) (hn : n < 60) (rest : List Char) :
    run k2 false (Print.time e ++ '/' :: (Print.pad2 n ++ rest)) =
      some ⟨[extTree e, .node .minute (Print.pad2 n) []], Print.time e ++ '/' :: Print.pad2 n, rest⟩ := by
  simp [k2, peg, run_extended_time e he, run_tailRep_minute n hn rest]

-- shape `b+`
theorem run_k1_plus (e : Time) (he : okStop e = true) (rest : List Char) :
    run k1 false (Print.time e ++ '+' :: rest) = none := by
  simp [k1, peg, run_extended_time e he, run_tailRep_plus]

theorem run_k2_plus (e : Time) (he : okStop e = true) (rest : List Char) :
    run k2 false (Print.time e ++ '+' :: rest) = none := by
  simp [k2, peg, run_extended_time e he, run_tailRep_plus]

def plusTree : T := .node .timespan_plus ['+'] []

theorem run_k3_plus (e : Time) (he : okStop e = true) (rest : List Char) :
    run k3 false (Print.time e ++ '+' :: rest) =
      some ⟨[extTree e, plusTree], Print.time e ++ ['+'], rest⟩ := by
  simp [k3, plusTree, peg, run_optSpace_time false e he, run_extended_time e he, g_timespan_plus]

-- shape `b`
theorem run_k1_plain (e : Time) (he : okStop e = true) (rest : List Char) (hf : FollowSpan rest) :
    run k1 false (Print.time e ++ rest) = none := by
  simp [k1, peg, run_extended_time e he, run_tailRep_follow _ _ rest hf]

theorem run_k2_plain (e : Time) (he : okStop e = true) (rest : List Char) (hf : FollowSpan rest) :
    run k2 false (Print.time e ++ rest) = none := by
  simp [k2, peg, run_extended_time e he, run_tailRep_follow _ _ rest hf]

theorem run_k3_plain (e : Time) (he : okStop e = true) (rest : List Char) (hf : FollowSpan rest) :
    run k3 false (Print.time e ++ rest) = none := by
  have : run g_timespan_plus false rest = none := by
    cases rest with
    | nil => simp [g_timespan_plus, peg]
    | cons c r =>
      have : '+' ≠ c := by intro h; subst h; exact hf.2.1 r rfl
      simp [g_timespan_plus, peg, this]
  simp [k3, peg, run_optSpace_time false e he, run_extended_time e he, this]

theorem run_k4_plain (e : Time) (he : okStop e = true) (rest : List Char) :
    run k4 false (Print.time e ++ rest) = some ⟨[extTree e], Print.time e, rest⟩ := by
  simp [k4, peg, run_optSpace_time false e he, run_extended_time e he]

/-! ### `timespan`: each alternative on its printed shape -/

/-- alternative 1: `a-b/HH:MM` -/
theorem run_timespan_hm (s e : Time) (hs : okStart s = true) (he : okStop e = true) (n : Nat)
    (hn : n ≤ 1440) (rest : List Char) :
    run g_timespan false (Print.time s ++ '-' :: (Print.time e ++ '/' :: (Print.extTime n ++ rest))) =
      some ⟨[.node .timespan (Print.time s ++ '-' :: (Print.time e ++ '/' :: Print.extTime n))
              [timeTree s, extTree e, hmTree n]],
            Print.time s ++ '-' :: (Print.time e ++ '/' :: Print.extTime n), rest⟩ := by
  simp [g_timespan_eq, run_rule, run_alt, run_pre _ s hs, run_k1_hm e he n hn rest]

/-- alternative 2: `a-b/MM` (alternative 1 fails: no `:` after the two digits) -/
theorem run_timespan_minute (s e : Time) (hs : okStart s = true) (he : okStop e = true) (n : Nat)
    (hn : n < 60) (rest : List Char) (hr : ∀ r, rest ≠ ':' :: r) :
    run g_timespan false (Print.time s ++ '-' :: (Print.time e ++ '/' :: (Print.pad2 n ++ rest))) =
      some ⟨[.node .timespan (Print.time s ++ '-' :: (Print.time e ++ '/' :: Print.pad2 n))
              [timeTree s, extTree e, .node .minute (Print.pad2 n) []]],
            Print.time s ++ '-' :: (Print.time e ++ '/' :: Print.pad2 n), rest⟩ := by
  simp [g_timespan_eq, run_rule, run_alt, run_pre _ s hs, run_k1_minute e he n hn rest hr,
    run_k2_minute e he n hn rest]

/-- alternative 3: `a-b+` (alternatives 1 and 2 fail on the `+`) -/
theorem run_timespan_open (s e : Time) (hs : okStart s = true) (he : okStop e = true) (rest : List Char) :
    run g_timespan false (Print.time s ++ '-' :: (Print.time e ++ '+' :: rest)) =
      some ⟨[.node .timespan (Print.time s ++ '-' :: (Print.time e ++ ['+']))
              [timeTree s, extTree e, plusTree]],
            Print.time s ++ '-' :: (Print.time e ++ ['+']), rest⟩ := by
  simp [g_timespan_eq, run_rule, run_alt, run_pre _ s hs, run_k1_plus e he rest, run_k2_plus e he rest,
    run_k3_plus e he rest]

/-- alternative 4: `a-b` (alternatives 1 to 3 fail on what follows) -/
theorem run_timespan_plain (s e : Time) (hs : okStart s = true) (he : okStop e = true) (rest : List Char)
    (hf : FollowSpan rest) :
    run g_timespan false (Print.time s ++ '-' :: (Print.time e ++ rest)) =
      some ⟨[.node .timespan (Print.time s ++ '-' :: Print.time e) [timeTree s, extTree e]],
            Print.time s ++ '-' :: Print.time e, rest⟩ := by
  simp [g_timespan_eq, run_rule, run_alt, run_pre _ s hs, run_k1_plain e he rest hf,
    run_k2_plain e he rest hf, run_k3_plain e he rest hf, run_k4_plain e he rest]

/-- alternative 5: `a+` (alternatives 1 to 4 fail: no `-` after the time) -/
theorem run_timespan_from (s : Time) (hs : okStart s = true) (rest : List Char) :
    run g_timespan false (Print.time s ++ '+' :: rest) =
      some ⟨[.node .timespan (Print.time s ++ ['+']) [timeTree s, plusTree]],
            Print.time s ++ ['+'], rest⟩ := by
  simp [g_timespan_eq, run_rule, run_alt, run_seq, run_pre_plus _ s hs, alt5, run_time s hs, plusTree,
    g_timespan_plus, peg]

end OH.Proofs.Syn
