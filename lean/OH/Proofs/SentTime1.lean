import OH.Proofs.SynTime
import OH.Spec.Sent
/-
C05, time selector of sentences, part 1: the TIMES (`Clock`, `EvOff`, `Var`, `Start`, `Stop`).

For every category the pair pest produces on the rendered text is given as a function of the sentence
(`hmTreeC`, `ehmTreeC`, `offTree`, `varTree`, `startTree`, `stopTree`) with
  `run_X   : run g_X false (x.render ++ rest) = some ⟨[treeX x], x.render, rest⟩`   (whatever follows)
  `build_X : buildX (treeX x) = .ok x.denote`.
New compared with the canonical spellings of C06 (SynTime1): the one-digit hour (`9:00`, third
alternative of `hour`/`extended_hour`; the look-ahead `!('0'..'9')` sees the `:`), and an offset
written `-00:00` (sign node present, value 0).  Canonical pieces reuse the C06 lemmas through
`clkpad2_eq` (the specification's `pad2` is `Print.pad2` below 100).
-/
namespace OH.Proofs.Sent
open OH.Model OH.Model.Peg OH.Model.Parser OH.Generated.Grammar OH.Proofs.Syn
open OH.Spec.Sent (Clock EvOff Var Start Stop Period Span eventName sp commaList)

/-! ### the specification's digit printers agree with `Print` -/

theorem clkdigit_eq : ∀ n, n < 10 → OH.Spec.Sent.digit n = dc n := by decide
theorem clkpad2_eq : ∀ n, n < 100 → OH.Spec.Sent.pad2 n = Print.pad2 n := by decide

theorem lit2400 : OH.Spec.Sent.t "24:00" = Print.extTime 1440 := by decide

theorem eventName_eq (ev : TimeEvent) : eventName ev = Print.eventStr ev := by cases ev <;> rfl

/-! ### the hour text of a clock -/

/-- how the hour of a clock is written -/
def hourTxt (c : Clock) : List Char :=
  if c.short && decide (c.h < 10) then [OH.Spec.Sent.digit c.h] else OH.Spec.Sent.pad2 c.h

theorem clock_render (c : Clock) : c.render = hourTxt c ++ ':' :: OH.Spec.Sent.pad2 c.m := by
  simp [Clock.render, hourTxt]

theorem natOfDigits_dc : ∀ h, h < 10 → natOfDigits [dc h] = some h := by decide

theorem natOfDigits_hourTxt (c : Clock) (hh : c.h < 100) : natOfDigits (hourTxt c) = some c.h := by
  unfold hourTxt
  split
  · next hs =>
    simp only [Bool.and_eq_true, decide_eq_true_eq] at hs
    rw [clkdigit_eq c.h hs.2]
    exact natOfDigits_dc c.h hs.2
  · rw [clkpad2_eq c.h hh]
    exact natOfDigits_pad2 c.h hh

theorem dc_colon : ¬ ('0' ≤ ':' ∧ ':' ≤ '9') := by decide

/-- a one-digit hour followed by `:` — third alternative of `hour`; the first two fail on the `:` -/
theorem run_hour_short (q : Bool) (h : Nat) (hh : h < 10) (rest : List Char) :
    run g_hour q (dc h :: ':' :: rest) =
      some (if q then ⟨[], [dc h], ':' :: rest⟩ else ⟨[.node .hour [dc h] []], [dc h], ':' :: rest⟩) := by
  have hd := dc_digit h hh
  by_cases h2 : '2' = dc h
  · rw [← h2]
    simp [g_hour, peg]
    cases q <;> simp
  · by_cases h1 : dc h ≤ '1' <;> simp [g_hour, peg, hd, h1, h2] <;> cases q <;> simp

/-- a one-digit hour followed by `:` — third alternative of `extended_hour` -/
theorem run_extended_hour_short (q : Bool) (h : Nat) (hh : h < 10) (rest : List Char) :
    run g_extended_hour q (dc h :: ':' :: rest) =
      some (if q then ⟨[], [dc h], ':' :: rest⟩
            else ⟨[.node .extended_hour [dc h] []], [dc h], ':' :: rest⟩) := by
  have hd := dc_digit h hh
  by_cases h2 : '4' = dc h
  · rw [← h2]
    simp [g_extended_hour, peg]
    cases q <;> simp
  · by_cases h1 : dc h ≤ '3' <;> simp [g_extended_hour, peg, hd, h1, h2] <;> cases q <;> simp

theorem run_hour_txt (q : Bool) (c : Clock) (hh : c.h ≤ 23) (rest : List Char) :
    run g_hour q (hourTxt c ++ ':' :: rest) =
      some (if q then ⟨[], hourTxt c, ':' :: rest⟩
            else ⟨[.node .hour (hourTxt c) []], hourTxt c, ':' :: rest⟩) := by
  unfold hourTxt
  split
  · next hs =>
    simp only [Bool.and_eq_true, decide_eq_true_eq] at hs
    rw [clkdigit_eq c.h hs.2]
    exact run_hour_short q c.h hs.2 rest
  · rw [clkpad2_eq c.h (by omega)]
    exact run_hour q c.h (by omega) _

theorem run_extended_hour_txt (q : Bool) (c : Clock) (hh : c.h ≤ 48) (rest : List Char) :
    run g_extended_hour q (hourTxt c ++ ':' :: rest) =
      some (if q then ⟨[], hourTxt c, ':' :: rest⟩
            else ⟨[.node .extended_hour (hourTxt c) []], hourTxt c, ':' :: rest⟩) := by
  unfold hourTxt
  split
  · next hs =>
    simp only [Bool.and_eq_true, decide_eq_true_eq] at hs
    rw [clkdigit_eq c.h hs.2]
    exact run_extended_hour_short q c.h hs.2 rest
  · rw [clkpad2_eq c.h (by omega)]
    exact run_extended_hour q c.h (by omega) _

/-- the text of a clock starts with a digit -/
theorem hourTxt_head (c : Clock) (hh : c.h < 100) :
    ∃ d ds, hourTxt c = d :: ds ∧ '0' ≤ d ∧ d ≤ '9' := by
  unfold hourTxt
  split
  · next hs =>
    simp only [Bool.and_eq_true, decide_eq_true_eq] at hs
    exact ⟨_, [], rfl, by rw [clkdigit_eq c.h hs.2]; exact dc_digit _ hs.2⟩
  · rw [clkpad2_eq c.h hh, pad2_lt100 c.h hh]
    exact ⟨_, _, rfl, dc_digit _ (by omega)⟩

theorem clock_head (c : Clock) (hh : c.h < 100) :
    ∃ d ds, c.render = d :: ds ∧ TimeStart d := by
  obtain ⟨d, ds, e, hd⟩ := hourTxt_head c hh
  exact ⟨d, ds ++ ':' :: OH.Spec.Sent.pad2 c.m, by rw [clock_render, e]; rfl, Or.inl hd⟩

/-! ### `hour_minutes` and `extended_hour_minutes` on a clock -/

def clkKids (hr : PRule) (c : Clock) : List T :=
  [.node hr (hourTxt c) [], .node .minute (OH.Spec.Sent.pad2 c.m) []]

/-- the pair for a clock read as `hour_minutes` -/
def hmTreeC (c : Clock) : T := .node .hour_minutes c.render (clkKids .hour c)

/-- the pair for a clock read as `extended_hour_minutes` -/
def ehmTreeC (c : Clock) : T := .node .extended_hour_minutes c.render (clkKids .extended_hour c)

theorem clock_wf (maxH : Nat) (c : Clock) (h : c.wf maxH = true) : c.h ≤ maxH ∧ c.m ≤ 59 := by
  simpa [Clock.wf] using h

theorem run_hm_clock (c : Clock) (h : c.wf 23 = true) (rest : List Char) :
    run g_hour_minutes false (c.render ++ rest) = some ⟨[hmTreeC c], c.render, rest⟩ := by
  obtain ⟨hh, hm⟩ := clock_wf 23 c h
  have h1 := run_hour_txt false c hh (OH.Spec.Sent.pad2 c.m ++ rest)
  have h2 := run_minute false c.m (by omega) rest
  rw [← clkpad2_eq c.m (by omega)] at h2
  simp only [clock_render, List.append_assoc, List.cons_append] at h1 ⊢
  simp [g_hour_minutes, hmTreeC, clkKids, clock_render, peg, h1, h2]

theorem run_ehm_clock (c : Clock) (hh : c.h ≤ 48) (hm : c.m ≤ 59) (rest : List Char) :
    run g_extended_hour_minutes false (c.render ++ rest) = some ⟨[ehmTreeC c], c.render, rest⟩ := by
  have h1 := run_extended_hour_txt false c hh (OH.Spec.Sent.pad2 c.m ++ rest)
  have h2 := run_minute false c.m (by omega) rest
  rw [← clkpad2_eq c.m (by omega)] at h2
  simp only [clock_render, List.append_assoc, List.cons_append] at h1 ⊢
  simp [g_extended_hour_minutes, ehmTreeC, clkKids, clock_render, peg, h1, h2]

theorem natOfDigits_min (c : Clock) (hm : c.m ≤ 59) : natOfDigits (OH.Spec.Sent.pad2 c.m) = some c.m := by
  rw [clkpad2_eq c.m (by omega)]
  exact natOfDigits_pad2 c.m (by omega)

/-- hours and minutes the parser accepts as an `ExtendedTime` -/
def extOk (c : Clock) : Prop := (c.h ≤ 47 ∧ c.m ≤ 59) ∨ (c.h = 48 ∧ c.m = 0)

theorem build_hm_clock (c : Clock) (h : c.wf 23 = true) : buildHourMinutes (hmTreeC c) = .ok c.mins := by
  obtain ⟨hh, hm⟩ := clock_wf 23 c h
  have a : c.h < 256 := by omega
  have b : c.m < 256 := by omega
  have k : ¬ ((48 < c.h ∨ 59 < c.m) ∨ c.h = 48 ∧ 0 < c.m) := by omega
  simp [buildHourMinutes, hmTreeC, clkKids, assertRule, Tree.rule, Tree.kids, Tree.text, parseBounded,
    natOfDigits_hourTxt c (by omega), natOfDigits_min c hm, u8Bound, buildExt,
    ExtendedTime.new, ExtendedTime.mins, Clock.mins, a, b, k, bind, Except.bind]
  omega

theorem build_ehm_clock (c : Clock) (h : extOk c) : buildExtendedHourMinutes (ehmTreeC c) = .ok c.mins := by
  have hh : c.h ≤ 48 := by unfold extOk at h; omega
  have hm : c.m ≤ 59 := by unfold extOk at h; omega
  have a : c.h < 256 := by omega
  have b : c.m < 256 := by omega
  have k : ¬ ((48 < c.h ∨ 59 < c.m) ∨ c.h = 48 ∧ 0 < c.m) := by unfold extOk at h; omega
  simp [buildExtendedHourMinutes, ehmTreeC, clkKids, assertRule, Tree.rule, Tree.kids, Tree.text, parseBounded,
    natOfDigits_hourTxt c (by omega), natOfDigits_min c hm, u8Bound, buildExt,
    ExtendedTime.new, ExtendedTime.mins, Clock.mins, a, b, k, bind, Except.bind]
  omega

theorem build_hm_dur_clock (c : Clock) (h : c.wf 23 = true) :
    buildHourMinutesAsDuration (hmTreeC c) = .ok (c.mins : Int) := by
  obtain ⟨hh, hm⟩ := clock_wf 23 c h
  have a : c.h < Parser.i64Bound := by unfold Parser.i64Bound; omega
  have b : c.m < Parser.i64Bound := by unfold Parser.i64Bound; omega
  simp [buildHourMinutesAsDuration, hmTreeC, clkKids, assertRule, Tree.rule, Tree.kids, Tree.text,
    parseBounded, natOfDigits_hourTxt c (by omega), natOfDigits_min c hm, Clock.mins, a, b, bind, Except.bind]

/-! ### `hour_minutes` on an offset / period (`EvOff`: a clock up to 23:59, or the literal `24:00`) -/

def offTree : EvOff → T
  | .clock c => hmTreeC c
  | .h24 => hmTree 1440

theorem offTree_rule (o : EvOff) : (offTree o).rule = .hour_minutes := by cases o <;> rfl

theorem run_hm_off (o : EvOff) (h : o.wf = true) (rest : List Char) :
    run g_hour_minutes false (o.render ++ rest) = some ⟨[offTree o], o.render, rest⟩ := by
  cases o with
  | clock c => exact run_hm_clock c h rest
  | h24 =>
    simp only [EvOff.render, offTree, lit2400]
    exact run_hour_minutes 1440 (by omega) rest

theorem build_hm_off (o : EvOff) (h : o.wf = true) : buildHourMinutes (offTree o) = .ok o.mins := by
  cases o with
  | clock c => exact build_hm_clock c h
  | h24 => exact build_hour_minutes 1440 (by omega)

theorem build_hm_dur_off (o : EvOff) (h : o.wf = true) :
    buildHourMinutesAsDuration (offTree o) = .ok (o.mins : Int) := by
  cases o with
  | clock c => exact build_hm_dur_clock c h
  | h24 => exact build_hour_minutes_as_duration 1440 (by omega)

theorem off_mins_le (o : EvOff) (h : o.wf = true) : o.mins ≤ 1440 := by
  cases o with
  | clock c =>
    obtain ⟨hh, hm⟩ := clock_wf 23 c h
    simp only [EvOff.mins, Clock.mins]; omega
  | h24 => simp [EvOff.mins]

theorem off_head (o : EvOff) (h : o.wf = true) : ∃ d ds, o.render = d :: ds ∧ TimeStart d := by
  cases o with
  | clock c => exact clock_head c (by have := (clock_wf 23 c h).1; omega)
  | h24 => exact ⟨'2', ['4', ':', '0', '0'], by decide, by unfold TimeStart; decide⟩

/-! ### `variable_time` -/

def sgnTree (neg : Bool) : T :=
  if neg then .node .plus_or_minus ['-'] [.node .minus ['-'] []]
  else .node .plus_or_minus ['+'] [.node .plus ['+'] []]

def varTree : Var → T
  | .plain ev => .node .variable_time (eventName ev) [evTree ev]
  | .shifted ev neg off =>
    .node .variable_time (Var.render (.shifted ev neg off)) [evTree ev, sgnTree neg, offTree off]

theorem varTree_rule (v : Var) : (varTree v).rule = .variable_time := by cases v <;> rfl

/-- a rendered variable time starts with `(`, `d` or `s` -/
theorem var_head (v : Var) : ∃ c cs, v.render = c :: cs ∧ (c = '(' ∨ c = 'd' ∨ c = 's') := by
  cases v with
  | plain ev =>
    obtain ⟨c, cs, e, hc⟩ := eventStr_head ev
    exact ⟨c, cs, by simp [Var.render, eventName_eq, e], Or.inr hc⟩
  | shifted ev neg off => exact ⟨'(', _, by simp only [Var.render]; rfl, Or.inl rfl⟩

theorem run_var (v : Var) (h : v.wf = true) (rest : List Char) :
    run g_variable_time false (v.render ++ rest) = some ⟨[varTree v], v.render, rest⟩ := by
  cases v with
  | plain ev =>
    obtain ⟨c, cs, e, hc⟩ := eventStr_head ev
    have hc' : '(' ≠ c := by rcases hc with rfl | rfl <;> decide
    have hev := run_event ev rest
    simp only [Var.render, varTree, eventName_eq]
    rw [e] at hev ⊢
    simp only [List.cons_append] at hev ⊢
    simp [g_variable_time, peg, hc', hev]
  | shifted ev neg off =>
    have hhm := run_hm_off off h (')' :: rest)
    simp only [Var.render, varTree, eventName_eq, List.append_assoc, List.cons_append, List.nil_append]
    cases neg <;>
      simp [g_variable_time, g_plus_or_minus, g_plus, g_minus, sgnTree, peg, run_event, hhm]

theorem build_var (v : Var) (h : v.wf = true) : buildVariableTime (varTree v) = .ok v.denote := by
  cases v with
  | plain ev =>
    simp [buildVariableTime, varTree, Var.denote, assertRule, Tree.rule, Tree.kids, build_event, bind,
      Except.bind]
  | shifted ev neg off =>
    have hb := build_hm_off off h
    have hlt : ¬ 32768 ≤ off.mins := by have := off_mins_le off h; omega
    cases neg <;>
      simp [buildVariableTime, varTree, Var.denote, sgnTree, buildPlusOrMinus, assertRule, Tree.rule,
        Tree.kids, build_event, hb, hlt, bind, Except.bind]

/-- no rule that starts with a digit matches at the head of a rendered variable time -/
theorem run_hm_var (v : Var) (rest : List Char) :
    run g_hour_minutes false (v.render ++ rest) = none := by
  obtain ⟨c, cs, e, hc⟩ := var_head v
  rw [e]
  rcases hc with rfl | rfl | rfl <;> simp [g_hour_minutes, g_hour, g_minute, peg]

theorem run_ehm_var (v : Var) (rest : List Char) :
    run g_extended_hour_minutes false (v.render ++ rest) = none := by
  obtain ⟨c, cs, e, hc⟩ := var_head v
  rw [e]
  rcases hc with rfl | rfl | rfl <;> simp [g_extended_hour_minutes, g_extended_hour, g_minute, peg]

/-! ### `time` on a `Start`, `extended_time` on a `Stop` -/

def startTree : Start → T
  | .clock c => .node .time c.render [hmTreeC c]
  | .h24 => .node .time (OH.Spec.Sent.t "24:00") [hmTree 1440]
  | .var v => .node .time v.render [varTree v]

def stopTree : Stop → T
  | .clock c => .node .extended_time c.render [ehmTreeC c]
  | .var v => .node .extended_time v.render [varTree v]

theorem startTree_rule (a : Start) : (startTree a).rule = .time := by cases a <;> rfl
theorem stopTree_rule (b : Stop) : (stopTree b).rule = .extended_time := by cases b <;> rfl

theorem run_start (a : Start) (h : a.wf = true) (rest : List Char) :
    run g_time false (a.render ++ rest) = some ⟨[startTree a], a.render, rest⟩ := by
  cases a with
  | clock c => simp [g_time, startTree, Start.render, peg, run_hm_clock c h rest]
  | h24 =>
    have := run_hour_minutes 1440 (by omega) rest
    simp only [Start.render, startTree, lit2400]
    simp [g_time, peg, this]
  | var v => simp [g_time, startTree, Start.render, peg, run_hm_var, run_var v h rest]

theorem build_start (a : Start) (h : a.wf = true) : buildTime (startTree a) = .ok a.denote := by
  cases a with
  | clock c =>
    have := build_hm_clock c h
    simp only [hmTreeC] at this
    simp [buildTime, startTree, hmTreeC, Start.denote, assertRule, Tree.rule, Tree.kids, this, bind,
      Except.bind]
  | h24 =>
    have := build_hour_minutes 1440 (by omega)
    simp only [hmTree, if_true] at this
    simp [buildTime, startTree, hmTree, Start.denote, assertRule, Tree.rule, Tree.kids, this, bind,
      Except.bind]
  | var v =>
    have := build_var v h
    cases v <;> simp only [varTree] at this <;>
      simp [buildTime, startTree, varTree, Start.denote, assertRule, Tree.rule, Tree.kids, this, bind,
        Except.bind]

theorem stop_clock_wf (c : Clock) (h : (Stop.clock c).wf = true) : extOk c := by
  simp only [Stop.wf, Clock.wf, Bool.or_eq_true, Bool.and_eq_true, decide_eq_true_eq] at h
  exact h

theorem run_stop (b : Stop) (h : b.wf = true) (rest : List Char) :
    run g_extended_time false (b.render ++ rest) = some ⟨[stopTree b], b.render, rest⟩ := by
  cases b with
  | clock c =>
    have hk := stop_clock_wf c h
    have := run_ehm_clock c (by unfold extOk at hk; omega) (by unfold extOk at hk; omega) rest
    simp [g_extended_time, stopTree, Stop.render, peg, this]
  | var v => simp [g_extended_time, stopTree, Stop.render, peg, run_ehm_var, run_var v h rest]

theorem build_stop (b : Stop) (h : b.wf = true) : buildExtendedTime (stopTree b) = .ok b.denote := by
  cases b with
  | clock c =>
    have := build_ehm_clock c (stop_clock_wf c h)
    simp only [ehmTreeC] at this
    simp [buildExtendedTime, stopTree, ehmTreeC, Stop.denote, assertRule, Tree.rule, Tree.kids, this, bind,
      Except.bind]
  | var v =>
    have := build_var v h
    cases v <;> simp only [varTree] at this <;>
      simp [buildExtendedTime, stopTree, varTree, Stop.denote, assertRule, Tree.rule, Tree.kids, this, bind,
        Except.bind]

theorem start_head (a : Start) (h : a.wf = true) : ∃ c cs, a.render = c :: cs ∧ TimeStart c := by
  cases a with
  | clock c => exact clock_head c (by have := (clock_wf 23 c h).1; omega)
  | h24 => exact ⟨'2', ['4', ':', '0', '0'], by decide, by unfold TimeStart; decide⟩
  | var v =>
    obtain ⟨c, cs, e, hc⟩ := var_head v
    exact ⟨c, cs, e, Or.inr hc⟩

theorem stop_head (b : Stop) (h : b.wf = true) : ∃ c cs, b.render = c :: cs ∧ TimeStart c := by
  cases b with
  | clock c =>
    have hk := stop_clock_wf c h
    exact clock_head c (by unfold extOk at hk; omega)
  | var v =>
    obtain ⟨c, cs, e, hc⟩ := var_head v
    exact ⟨c, cs, e, Or.inr hc⟩

end OH.Proofs.Sent
