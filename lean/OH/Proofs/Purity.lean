import OH.Model.Purity
/-
Helper lemmas for C18 (OH/Props/C18.lean): the once-cell invariant and what it gives for the atomic
and for the small-step (racing initialisers) semantics of OH/Model/Purity.lean.  Core only.
-/
namespace OH.Model.Purity
variable {D : Tables}

/-- THE invariant: a cell is either not yet initialised, or holds the value of its (constant) initialiser -/
def Inv (st : State D) : Prop := ∀ c, st c = .uninit ∨ st c = .init (D.decode c)

/-- the state after cell `c` has been forced, written without casts -/
def forced (st : State D) (c : CellId) : State D :=
  fun c' => if c' = c then .init (D.decode c') else st c'

theorem set_same (st : State D) (c : CellId) (x : Cell (D.T c)) : (st.set c x) c = x := by
  simp [State.set]

theorem set_other (st : State D) (c c' : CellId) (x : Cell (D.T c)) (h : c' ≠ c) :
    (st.set c x) c' = st c' := by
  simp [State.set, h]

theorem set_decode_eq_forced (st : State D) (c : CellId) :
    st.set c (.init (D.decode c)) = forced st c := by
  funext c'
  by_cases h : c' = c
  · subst h; simp [set_same, forced]
  · simp [set_other _ _ _ _ h, forced, h]

theorem inv_allUninit : Inv (allUninit D) := fun _ => .inl rfl
theorem inv_allInit : Inv (allInit D) := fun _ => .inr rfl

theorem inv_forced {st : State D} (h : Inv st) (c : CellId) : Inv (forced st c) := by
  intro c'
  by_cases e : c' = c
  · right; simp [forced, e]
  · simpa [forced, e] using h c'

theorem forced_of_init {st : State D} (c : CellId) (h : st c = .init (D.decode c)) : forced st c = st := by
  funext c'
  by_cases e : c' = c
  · subst e; simp [forced, h]
  · simp [forced, e]

/-- `force` under the invariant: the value read is the decoded table, whatever the state -/
theorem force_eq {st : State D} (h : Inv st) (c : CellId) : force st c = (forced st c, D.decode c) := by
  unfold force
  rcases h c with e | e
  · simp only [e]; rw [set_decode_eq_forced]
  · simp only [e]; rw [forced_of_init c e]

theorem inv_forceList {st : State D} (h : Inv st) (l : List CellId) : Inv (forceList st l) := by
  induction l generalizing st with
  | nil => exact h
  | cons c cs ih => simp only [forceList, force_eq h]; exact ih (inv_forced h c)

/-- closed form of a sequence of first uses: it depends only on WHICH cells were used -/
theorem forceList_eq {st : State D} (h : Inv st) (l : List CellId) :
    forceList st l = fun c => if c ∈ l then .init (D.decode c) else st c := by
  induction l generalizing st with
  | nil => simp [forceList]
  | cons c cs ih =>
    simp only [forceList, force_eq h]
    rw [ih (inv_forced h c)]
    funext c'
    by_cases h1 : c' ∈ cs
    · simp [h1]
    · by_cases h2 : c' = c
      · simp [h2, forced]
      · simp [h1, h2, forced]

theorem forceList_append (st : State D) (l1 l2 : List CellId) :
    forceList st (l1 ++ l2) = forceList (forceList st l1) l2 := by
  induction l1 generalizing st with
  | nil => rfl
  | cons c cs ih => simp only [List.cons_append, forceList]; exact ih _

/-- an atomic evaluation under the invariant: the answer is the pure one, the state afterwards is the
state before plus the cells the evaluation touched -/
theorem run_eq {ρ : Type} (p : Prog D ρ) {st : State D} (h : Inv st) :
    run p st = (forceList st p.touched, p.pureRun) := by
  induction p generalizing st with
  | ret r => rfl
  | read c k ih =>
    simp only [run, force_eq h, Prog.touched, Prog.pureRun, forceList]
    exact ih (D.decode c) (inv_forced h c)

theorem inv_run {ρ : Type} (p : Prog D ρ) {st : State D} (h : Inv st) : Inv (run p st).1 := by
  rw [run_eq p h]; exact inv_forceList h _

theorem runAll_eq {ρ : Type} (ps : List (Prog D ρ)) {st : State D} (h : Inv st) :
    runAll ps st = (forceList st (ps.flatMap Prog.touched), ps.map Prog.pureRun) := by
  induction ps generalizing st with
  | nil => rfl
  | cons p ps ih =>
    simp only [runAll, run_eq p h, List.flatMap_cons, List.map_cons, forceList_append]
    rw [ih (inv_forceList h _)]

theorem runHistory_eq {A ρ : Type} (eval : A → Prog D ρ) (hist : List (Nat × A)) {st : State D} (h : Inv st) :
    runHistory eval hist st =
      (forceList st (hist.flatMap (fun s => (eval s.2).touched)), hist.map (fun s => (eval s.2).pureRun)) := by
  induction hist generalizing st with
  | nil => rfl
  | cons s hs ih =>
    obtain ⟨t, a⟩ := s
    simp only [runHistory, run_eq (eval a) h, List.flatMap_cons, List.map_cons, forceList_append]
    rw [ih (inv_forceList h _)]

/-! ### reachable states -/

/-- reachable from process start by any sequence of first uses -/
def Reachable (st : State D) : Prop := ∃ l, st = forceList (allUninit D) l

def Cell.isInit {α : Type} : Cell α → Bool
  | .uninit => false
  | .init _ => true

theorem mem_all (c : CellId) : c ∈ CellId.all := by cases c <;> simp [CellId.all]

/-- the reachable states are exactly those satisfying the invariant (2⁶ of them) -/
theorem reachable_iff_inv (st : State D) : Reachable st ↔ Inv st := by
  constructor
  · rintro ⟨l, rfl⟩; exact inv_forceList inv_allUninit l
  · intro h
    refine ⟨CellId.all.filter (fun c => (st c).isInit), ?_⟩
    rw [forceList_eq inv_allUninit]
    funext c
    rcases h c with e | e
    · simp [e, Cell.isInit, allUninit]
    · simp [e, Cell.isInit, mem_all]

/-! ### small steps, racing initialisers -/

/-- what a thread will answer: it runs (the rest of) a program whose pure answer is `r`, and a
candidate it has computed for a cell is the decoded table -/
def TOK {ρ : Type} (r : ρ) : Thread D ρ → Prop
  | .running p => p.pureRun = r
  | .initialising c cand k => cand = D.decode c ∧ (k (D.decode c)).pureRun = r

theorem thread_step_inv {ρ : Type} {st : State D} (h : Inv st) (r : ρ) (t : Thread D ρ) (ht : TOK r t) :
    Inv (t.step st).1 ∧ TOK r (t.step st).2 := by
  match t, ht with
  | .running (.ret r'), ht => exact ⟨h, ht⟩
  | .running (.read c k), ht =>
    simp only [Thread.step]
    rcases h c with e | e
    · simp only [e]; exact ⟨h, rfl, ht⟩
    · simp only [e]; exact ⟨h, ht⟩
  | .initialising c cand k, ⟨hc, hk⟩ =>
    simp only [Thread.step]
    subst hc
    rcases h c with e | e
    · simp only [e]; rw [set_decode_eq_forced]; exact ⟨inv_forced h c, hk⟩
    · simp only [e]; exact ⟨h, hk⟩

/-- invariant of a configuration started on the programs `ps` -/
def CInv {ρ : Type} (ps : List (Prog D ρ)) (cfg : Config D ρ) : Prop :=
  Inv cfg.st ∧ ∀ (i : Nat) (t : Thread D ρ), cfg.threads[i]? = some t → ∃ p : Prog D ρ, ps[i]? = some p ∧ TOK p.pureRun t

theorem cinv_start {ρ : Type} {st : State D} (h : Inv st) (ps : List (Prog D ρ)) :
    CInv ps (Config.start st ps) := by
  refine ⟨h, ?_⟩
  intro i t ht
  simp only [Config.start, List.getElem?_map] at ht
  cases hp : ps[i]? with
  | none => simp [hp] at ht
  | some p =>
    simp only [hp, Option.map_some, Option.some.injEq] at ht
    subst ht; exact ⟨p, rfl, rfl⟩

theorem cinv_step {ρ : Type} (ps : List (Prog D ρ)) (cfg : Config D ρ) (h : CInv ps cfg) (i : Nat) :
    CInv ps (cfg.step i) := by
  unfold Config.step
  cases hi : cfg.threads[i]? with
  | none => exact h
  | some t =>
    obtain ⟨p, hp, htok⟩ := h.2 i t hi
    have hs := thread_step_inv h.1 _ t htok
    refine ⟨hs.1, ?_⟩
    intro j u hu
    simp only [List.getElem?_set] at hu
    by_cases e : i = j
    · subst e
      simp only [if_true] at hu
      split at hu
      · cases hu; exact ⟨p, hp, hs.2⟩
      · cases hu
    · simp only [e, if_false] at hu
      exact h.2 j u hu

theorem cinv_runSchedule {ρ : Type} (ps : List (Prog D ρ)) (cfg : Config D ρ) (h : CInv ps cfg)
    (sched : List Nat) : CInv ps (runSchedule cfg sched) := by
  induction sched generalizing cfg with
  | nil => exact h
  | cons i is ih => exact ih _ (cinv_step ps cfg h i)

theorem tok_result {ρ : Type} (r r' : ρ) (t : Thread D ρ) (h : TOK r t) (hr : t.result? = some r') : r' = r := by
  match t, h with
  | .running (.ret x), h => simp only [Thread.result?, Option.some.injEq] at hr; subst hr; exact h
  | .running (.read _ _), _ => cases hr
  | .initialising _ _ _, _ => cases hr

/-! ### progress: no thread waits for another -/

/-- an upper bound on the number of own steps a thread still needs: two per cell read -/
def Thread.fuel {ρ : Type} : Thread D ρ → Nat
  | .running p => 2 * p.touched.length
  | .initialising c _ k => 1 + 2 * (k (D.decode c)).touched.length

theorem fuel_zero_result {ρ : Type} (r : ρ) (t : Thread D ρ) (h : TOK r t) (hf : t.fuel = 0) :
    t.result? = some r := by
  match t, h with
  | .running (.ret x), h => simp only [Thread.result?]; exact congrArg some h
  | .running (.read _ _), _ => simp [Thread.fuel, Prog.touched] at hf
  | .initialising _ _ _, _ => simp only [Thread.fuel] at hf; omega

/-- under the invariant every own step consumes fuel, whatever the other threads did in between -/
theorem thread_step_fuel {ρ : Type} {st : State D} (h : Inv st) (r : ρ) (t : Thread D ρ) (ht : TOK r t) :
    (t.step st).2.fuel ≤ t.fuel - 1 := by
  match t, ht with
  | .running (.ret r'), _ => simp [Thread.step, Thread.fuel, Prog.touched]
  | .running (.read c k), _ =>
    simp only [Thread.step]
    rcases h c with e | e
    · simp only [e, Thread.fuel, Prog.touched, List.length_cons]; omega
    · simp only [e, Thread.fuel, Prog.touched, List.length_cons]; omega
  | .initialising c cand k, ⟨hc, _⟩ =>
    simp only [Thread.step]
    subst hc
    rcases h c with e | e
    · simp only [e, Thread.fuel]; omega
    · simp only [e, Thread.fuel]; omega

theorem step_thread_self {ρ : Type} (cfg : Config D ρ) (i : Nat) (t : Thread D ρ)
    (hi : cfg.threads[i]? = some t) : (cfg.step i).threads[i]? = some (t.step cfg.st).2 := by
  have hlt : i < cfg.threads.length := by
    rcases Nat.lt_or_ge i cfg.threads.length with h | h
    · exact h
    · rw [List.getElem?_eq_none h] at hi; cases hi
  unfold Config.step
  simp only [hi, List.getElem?_set, if_true, hlt]

theorem step_thread_other {ρ : Type} (cfg : Config D ρ) (i j : Nat) (h : j ≠ i) :
    (cfg.step j).threads[i]? = cfg.threads[i]? := by
  unfold Config.step
  cases hj : cfg.threads[j]? with
  | none => rfl
  | some t => simp [h]

/-- a thread that is scheduled often enough (twice per cell it reads) has finished, with the pure
answer, whatever the other threads do: nobody waits for anybody in this model -/
theorem finishes {ρ : Type} (ps : List (Prog D ρ)) (cfg : Config D ρ) (h : CInv ps cfg) (sched : List Nat)
    (i : Nat) (t : Thread D ρ) (p : Prog D ρ) (hi : cfg.threads[i]? = some t) (hp : ps[i]? = some p)
    (hc : t.fuel ≤ sched.count i) :
    ∃ t', (runSchedule cfg sched).threads[i]? = some t' ∧ t'.result? = some p.pureRun := by
  induction sched generalizing cfg t with
  | nil =>
    obtain ⟨p', hp', htok⟩ := h.2 i t hi
    rw [hp] at hp'; cases hp'
    exact ⟨t, hi, fuel_zero_result _ t htok (by simpa using hc)⟩
  | cons j js ih =>
    simp only [runSchedule]
    by_cases e : j = i
    · subst e
      obtain ⟨p', hp', htok⟩ := h.2 j t hi
      have hf := thread_step_fuel h.1 _ t htok
      refine ih (cfg.step j) (cinv_step ps cfg h j) _ (step_thread_self cfg j t hi) ?_
      simp only [List.count_cons_self] at hc
      omega
    · refine ih (cfg.step j) (cinv_step ps cfg h j) t ?_ ?_
      · rw [step_thread_other cfg i j e]; exact hi
      · rw [List.count_cons_of_ne (by simpa using e)] at hc; exact hc

end OH.Model.Purity
