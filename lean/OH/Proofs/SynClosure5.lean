import OH.Proofs.SynClosure4
import OH.Proofs.SortedVec
/-
Closing the loop of C06, part 5: assembly.

  parse_ok_printable   : parseChars inp = .ok e → PrintableOut e = true            (every input)
  parse_print_parse    : parseChars inp = .ok e → parseChars (Print.expr e) = .ok (reparsed e)
  parse_toString_parse : parse s = .ok e → ∃ p, Print.toString? e = some p ∧ parse p = .ok (reparsed e)
  print_never_panics_on_parsed : parse s = .ok e → Print.printPanics e = false

`small_range_selectors` on `Conf`; `selector_sequence`, `rules_modifier`, `rule_sequence`, the loop of
`opening_hours` and the entry rule on `run` (they lead to `comment` and `wide_range_selectors`).
-/
namespace OH.Proofs.SynClosure
open OH.Model OH.Model.Peg OH.Model.Parser OH.Generated.Grammar OH.Proofs.SynTotal
open OH.Proofs.Syn (okComment okSpan okTimes okTimes_iff okWeekdays okWide okWide_iff okRuleSmall okRule
  PrintableOut reparsed)

/-! ### the small-range selectors -/

theorem conf_small_range_selectors' {k t} (h : Conf g_small_range_selectors false k t) :
    ∃ x, k = [x] ∧ Good .small_range_selectors buildSmallRangeSelectors
      (fun r => (r.1 ≠ [] → okWeekdays r.1 = true) ∧ (r.2 ≠ [] → okTimes r.2 = true)) x := by
  conf_unfoldk [g_small_range_selectors, g_space] at h
  conf_destruct [conf_weekday_selector', conf_time_selector']
  all_goals refine ⟨_, rfl, rfl, ?_⟩
  all_goals build_simp [buildSmallRangeSelectors, smallLoop, *]
  all_goals repeat safe_bind
  all_goals simp_all

theorem runs_small_range_selectors {inp : List Char} {k : List T} {t rest : List Char}
    (h : Runs g_small_range_selectors false inp k t rest) :
    ∃ x, k = [x] ∧ Good .small_range_selectors buildSmallRangeSelectors
      (fun r => (r.1 ≠ [] → okWeekdays r.1 = true) ∧ (r.2 ≠ [] → okTimes r.2 = true)) x :=
  conf_small_range_selectors' h.conf

/-! ### `selector_sequence` -/

/-- what `build_selector_sequence` returns for a rule that can be printed and read back -/
def SelSeqOK (r : DaySelector × List TimeSpan × Option String) : Prop :=
  okWide r.1 = true ∧ okTimes r.2.1 = true ∧ (r.1.weekday ≠ [] → okWeekdays r.1.weekday = true) ∧
    ∀ c, r.2.2 = some c → okComment c = true

theorem okTimes_fullDay : okTimes [TimeSpan.fullDay] = true := by decide

theorem okTimes_new (l : List TimeSpan) (h : l ≠ [] → okTimes l = true) : okTimes (timeSelectorNew l) = true := by
  unfold timeSelectorNew
  cases l with
  | nil => exact okTimes_fullDay
  | cons a l => exact h (by simp)

theorem okWide_of (w : Wide) (h : WideOK w) (wd : List WeekDayRange) :
    okWide ⟨w.year, w.monthday, w.week, wd⟩ = true :=
  (okWide_iff _).mpr ⟨h.1, h.2.1, h.2.2.1, h.2.2.2.1⟩

theorem okWide_empty : okWide ⟨[], [], [], []⟩ = true := by decide

theorem runs_selector_sequence {inp : List Char} {k : List T} {t rest : List Char}
    (h : Runs g_selector_sequence false inp k t rest) :
    ∃ x, k = [x] ∧ Good .selector_sequence buildSelectorSequence SelSeqOK x := by
  runs_unfold [g_selector_sequence, g_always_open] at h
  conf_destruct [runs_wide_range_selectors, runs_small_range_selectors]
  all_goals refine ⟨_, rfl, rfl, ?_⟩
  all_goals build_simp [buildSelectorSequence, *]
  all_goals repeat safe_bind
  · simp [SelSeqOK, okWide_empty, okTimes_fullDay]
  · rename_i w hw r hr
    exact Safe.ok ⟨okWide_of w hw r.1, okTimes_new r.2 hr.2, hr.1, hw.2.2.2.2⟩
  · rename_i w hw
    exact Safe.ok ⟨okWide_of w hw [], okTimes_new [] (by simp), by simp, hw.2.2.2.2⟩

/-! ### `rules_modifier`, `rule_sequence` -/

theorem runs_rules_modifier_enum {inp : List Char} {k : List T} {t rest : List Char}
    (h : Runs g_rules_modifier_enum false inp k t rest) :
    ∃ x, k = [x] ∧ Good .rules_modifier_enum buildRulesModifierEnum (fun _ => True) x :=
  conf_rules_modifier_enum h.conf

theorem runs_rules_modifier {inp : List Char} {k : List T} {t rest : List Char}
    (h : Runs g_rules_modifier false inp k t rest) :
    ∃ x, k = [x] ∧ Good .rules_modifier buildRulesModifier
      (fun r => ∀ c, r.2 = some c → okComment c = true) x := by
  runs_unfold [g_rules_modifier] at h
  conf_destruct [runs_comment, runs_rules_modifier_enum]
  all_goals refine ⟨_, rfl, rfl, ?_⟩
  all_goals build_simp [buildRulesModifier, *]
  all_goals repeat safe_bind
  all_goals simp [*]

/-- the comments of a rule: the modifier's and the wide part's, sorted, without duplicates -/
theorem okRule_mk (day : DaySelector) (time : List TimeSpan) (kind : Kind) (op : RuleOp)
    (comment extra : Option String) (hs : SelSeqOK (day, time, extra))
    (hc : ∀ c, comment = some c → okComment c = true) :
    okRule ⟨day, time, kind, op, SortedVec.fromVec (comment.toList ++ extra.toList)⟩ = true := by
  obtain ⟨h1, h2, h3, h4⟩ := hs
  simp only at h1 h2 h3 h4
  simp only [okRule, okRuleSmall, Bool.and_eq_true, Bool.or_eq_true, List.all_eq_true, List.isEmpty_iff]
  refine ⟨⟨⟨h2, ?_⟩, ?_⟩, h1⟩
  · by_cases hw : day.weekday = []
    · exact .inl hw
    · exact .inr (h3 hw)
  · intro s hs
    have := OH.Proofs.SortedVec.mem_fromVec.mp hs
    rcases List.mem_append.mp this with hm | hm
    · exact hc s (by simpa [Option.mem_toList] using hm)
    · exact h4 s (by simpa [Option.mem_toList] using hm)

theorem runs_rule_sequence {inp : List Char} {k : List T} {t rest : List Char}
    (h : Runs g_rule_sequence false inp k t rest) :
    ∃ x, k = [x] ∧ x.rule = .rule_sequence ∧
      ∀ op, Safe (fun r => okRule r = true ∧ r.op = op) (buildRuleSequence x op) := by
  runs_unfold [g_rule_sequence] at h
  conf_destruct [runs_selector_sequence, runs_rules_modifier]
  all_goals refine ⟨_, rfl, rfl, ?_⟩
  all_goals intro op
  all_goals build_simp [buildRuleSequence, *]
  all_goals repeat safe_bind
  · rename_i v hv m hm
    exact Safe.ok ⟨okRule_mk _ _ _ _ _ _ hv hm, rfl⟩
  · rename_i v hv
    exact Safe.ok ⟨by simpa using okRule_mk v.1 v.2.1 .open op none v.2.2 hv (by simp), rfl⟩

/-! ### `opening_hours` -/

/-- the `while let Some(pair) = pairs.next()` loop on `(any_rule_separator ~ rule_sequence)*` -/
theorem loop_safe' {inp : List Char} {k : List T} {t rest : List Char}
    (h : Runs (.star (.seq g_any_rule_separator g_rule_sequence)) false inp k t rest) :
    Safe (fun l => ∀ r ∈ l, okRule r = true) (buildOpeningHoursLoop k) := by
  refine runs_star_ind
    (P := fun _ k _ _ => Safe (fun l => ∀ r ∈ l, okRule r = true) (buildOpeningHoursLoop k)) ?_ ?_ h
  · intro _
    simp [buildOpeningHoursLoop]
  · intro inp k1 t1 rest1 k2 t2 rest h1 ih
    rw [runs_seq] at h1
    obtain ⟨k3, t3, rest3, k4, t4, hs, hr, rfl, -⟩ := h1
    obtain ⟨s, rfl, hsg⟩ := conf_any_rule_separator hs.conf
    obtain ⟨q, rfl, hq⟩ := runs_rule_sequence hr
    simp only [List.cons_append, List.nil_append, buildOpeningHoursLoop, hsg.1]
    refine Safe.bind hsg.2 (fun op _ => ?_)
    refine Safe.bind (hq.2 op) (fun r hr => ?_)
    refine Safe.bind ih (fun rs hrs => ?_)
    simp only [Safe.ok_iff]
    intro x hx
    rcases List.mem_cons.mp hx with rfl | hx
    · exact hr.1
    · exact hrs x hx

theorem runs_opening_hours {inp : List Char} {k : List T} {t rest : List Char}
    (h : Runs g_opening_hours false inp k t rest) :
    ∃ x, k = [x] ∧ Good .opening_hours buildOpeningHours (fun e => PrintableOut e = true) x := by
  unfold g_opening_hours at h
  rw [runs_rule] at h
  obtain ⟨k', hb, rfl⟩ := h
  rw [runs_seq] at hb
  obtain ⟨k1, t1, rest1, k2, t2, h1, h2, rfl, rfl⟩ := hb
  obtain ⟨q, rfl, hq1, hq2⟩ := runs_rule_sequence h1
  have hl := loop_safe' h2
  refine ⟨_, rfl, rfl, ?_⟩
  build_simp_only [buildOpeningHours]
  rw [buildOpeningHoursLoop.eq_def]
  simp only [hq1]
  refine Safe.bind (hq2 .normal) (fun r hr => ?_)
  refine Safe.bind hl (fun rs hrs => ?_)
  simp only [Safe.ok_iff, PrintableOut]
  simp [List.all_eq_true, hr.1, hr.2]
  exact hrs

/-- `input_opening_hours = _{ SOI ~ &ANY ~ opening_hours ~ EOI }` -/
theorem runs_entry {inp : List Char} {ks : List T} {t rest : List Char} (h : Runs entry false inp ks t rest) :
    ∃ x rest', ks = x :: rest' ∧ Good .opening_hours buildOpeningHours (fun e => PrintableOut e = true) x := by
  unfold entry g_input_opening_hours at h
  rw [runs_seq] at h
  obtain ⟨k1, t1, r1, k2, t2, h1, h2, rfl, -⟩ := h
  obtain ⟨rfl, -, -⟩ := runs_soi.mp h1
  rw [runs_seq] at h2
  obtain ⟨k3, t3, r3, k4, t4, h3, h4, rfl, -⟩ := h2
  obtain ⟨-, rfl, -, -⟩ := runs_andp.mp h3
  rw [runs_seq] at h4
  obtain ⟨k5, t5, r5, k6, t6, h5, h6, rfl, -⟩ := h4
  obtain ⟨x, rfl, hx⟩ := runs_opening_hours h5
  exact ⟨x, k6, rfl, hx⟩

/-- whatever the input, the outcome of the parser model is not a panic and, when it is an expression,
the expression is `PrintableOut` -/
theorem parseChars_printable (inp : List Char) : Safe (fun e => PrintableOut e = true) (parseChars inp) := by
  unfold parseChars
  cases hp : parseWith entry inp with
  | none => simp
  | some ks =>
    simp only [parseWith, Option.map_eq_some_iff] at hp
    obtain ⟨r, hr, rfl⟩ := hp
    obtain ⟨x, rest', e, hx⟩ := runs_entry (show Runs entry false inp r.kids r.eaten r.rest from hr)
    rw [e]
    exact hx.2

/-- **EVERYTHING THE PARSER ACCEPTS IS `PrintableOut`** (every input) -/
theorem parse_ok_printable (inp : List Char) (e : Expr) (h : Parser.parseChars inp = .ok e) :
    PrintableOut e = true :=
  (parseChars_printable inp).2 e h

/-- **C06, syntactic half, without hypothesis on the expression**: whatever the parser returns,
printed, parses back to itself with the comments of each rule joined -/
theorem parse_print_parse (inp : List Char) (e : Expr) (h : Parser.parseChars inp = .ok e) :
    Parser.parseChars (Print.expr e) = .ok (reparsed e) :=
  OH.Proofs.Syn.parse_print_roundtrip e (parse_ok_printable inp e h)

/-- the same on strings: `to_string` does not panic on a parsed expression and `parse (to_string e)`
is `e` with the comments of each rule joined -/
theorem parse_toString_parse (s : String) (e : Expr) (h : Parser.parse s = .ok e) :
    ∃ p, Print.toString? e = some p ∧ Parser.parse p = .ok (reparsed e) :=
  OH.Proofs.Syn.toString_parse_roundtrip e (parse_ok_printable s.toList e h)

/-- `Display` never panics on a parsed expression -/
theorem print_never_panics_on_parsed (s : String) (e : Expr) (h : Parser.parse s = .ok e) :
    Print.printPanics e = false :=
  OH.Proofs.Syn.printable_no_panic e (parse_ok_printable s.toList e h)

/-- the round trip is idempotent from the first parse on: what comes back is accepted again unchanged -/
theorem parse_print_parse_twice (inp : List Char) (e : Expr) (h : Parser.parseChars inp = .ok e) :
    Parser.parseChars (Print.expr (reparsed e)) = .ok (reparsed e) :=
  OH.Proofs.Syn.parse_print_reparsed e (parse_ok_printable inp e h)

/-- an accepted expression none of whose rules has two comments comes back unchanged -/
theorem parse_print_parse_same (inp : List Char) (e : Expr) (h : Parser.parseChars inp = .ok e)
    (hc : ∀ r ∈ e, r.comments.length ≤ 1) : Parser.parseChars (Print.expr e) = .ok e :=
  OH.Proofs.Syn.parse_print_roundtrip_same e (parse_ok_printable inp e h) hc

end OH.Proofs.SynClosure
