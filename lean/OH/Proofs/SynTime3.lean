import OH.Proofs.SynTime
/-
Time selector, part 4 (the converse direction, for the one conjunct of `okSpan` that is not in
`TimeSpan.wf`): whatever `timespan` matches, the span built from its pair has a repetition only if it
is not open-ended.  The grammar puts `/…` only after `extended_time` (alternatives 1 and 2), and
`buildTimespan` sets `openEnd` before a repetition only when the second pair is `timespan_plus`.
-/
namespace OH.Proofs.Syn
open OH.Model OH.Model.Peg OH.Model.Parser OH.Generated.Grammar

/-! ### inversion of the engine on the constructs used -/

theorem run_seq_inv {a b : G} {q : Bool} {inp : List Char} {r : R PRule}
    (h : run (.seq a b) q inp = some r) :
    ∃ r1 r2, run a q inp = some r1 ∧ run b q r1.rest = some r2 ∧ r = r1.append r2 := by
  simp only [run_seq] at h
  split at h
  · cases h
  · next r1 h1 =>
    split at h
    · cases h
    · next r2 h2 => cases h; exact ⟨r1, r2, h1, h2, rfl⟩

/-- a normal rule, outside atomic context, yields exactly one pair of that rule -/
theorem run_rule_inv {n : PRule} {atm : Bool} {body : G} {inp : List Char} {r : R PRule}
    (h : run (.rule n atm body) false inp = some r) : ∃ t, r.kids = [t] ∧ t.rule = n := by
  simp only [run_rule] at h
  split at h
  · cases h
  · simp only [Bool.false_eq_true, if_false, Option.some.injEq] at h
    subst h
    exact ⟨_, rfl, rfl⟩

theorem run_str_kids {s : List Char} {q : Bool} {inp : List Char} {r : R PRule}
    (h : run (.str s : G) q inp = some r) : r.kids = [] := by
  simp only [run_str, Option.map_eq_some_iff] at h
  obtain ⟨_, _, rfl⟩ := h
  rfl

theorem run_optSpace_kids {q : Bool} {inp : List Char} {r : R PRule}
    (h : run optSpace q inp = some r) : r.kids = [] := by
  simp only [optSpace, g_space, run_opt] at h
  split at h
  · next x hx => cases h; exact run_str_kids hx
  · cases h; rfl

/-! ### the pairs inside a `timespan` pair -/

/-- the five possible lists of inner pairs (by rule) -/
def SpanShape (kids : List T) : Prop :=
  (∃ a b c, kids = [a, b, c] ∧ a.rule = .time ∧ b.rule = .extended_time ∧ c.rule = .hour_minutes) ∨
  (∃ a b c, kids = [a, b, c] ∧ a.rule = .time ∧ b.rule = .extended_time ∧ c.rule = .minute) ∨
  (∃ a b c, kids = [a, b, c] ∧ a.rule = .time ∧ b.rule = .extended_time ∧ c.rule = .timespan_plus) ∨
  (∃ a b, kids = [a, b] ∧ a.rule = .time ∧ b.rule = .extended_time) ∨
  (∃ a b, kids = [a, b] ∧ a.rule = .time ∧ b.rule = .timespan_plus)

theorem run_tailRep_inv {X : G} {n : PRule} {atm : Bool} {body : G} (hX : X = .rule n atm body)
    {inp : List Char} {r : R PRule} (h : run (tailRep X) false inp = some r) :
    ∃ c, r.kids = [c] ∧ c.rule = n := by
  subst hX
  obtain ⟨r1, r2, h1, h2, rfl⟩ := run_seq_inv h
  obtain ⟨r3, r4, h3, h4, rfl⟩ := run_seq_inv h2
  obtain ⟨r5, r6, h5, h6, rfl⟩ := run_seq_inv h4
  obtain ⟨c, hc, hr⟩ := run_rule_inv h6
  exact ⟨c, by simp [R.append, run_optSpace_kids h1, run_str_kids h3, run_optSpace_kids h5, hc], hr⟩

theorem run_pre_inv {K : G} {inp : List Char} {r : R PRule} (h : run (pre K) false inp = some r) :
    ∃ a rk inp', r.kids = a :: rk.kids ∧ a.rule = .time ∧ run K false inp' = some rk := by
  obtain ⟨r1, r2, h1, h2, rfl⟩ := run_seq_inv h
  obtain ⟨r3, r4, h3, h4, rfl⟩ := run_seq_inv h2
  obtain ⟨r5, r6, h5, h6, rfl⟩ := run_seq_inv h4
  obtain ⟨a, ha, hr⟩ := run_rule_inv (h1 : run (.rule .time false _) false inp = some r1)
  exact ⟨a, r6, _, by simp [R.append, ha, run_optSpace_kids h3, run_str_kids h5], hr, h6⟩

theorem run_timespan_shape {inp : List Char} {r : R PRule} (h : run g_timespan false inp = some r) :
    ∃ text kids, r.kids = [.node .timespan text kids] ∧ SpanShape kids := by
  rw [g_timespan_eq] at h
  simp only [run_rule] at h
  split at h
  · cases h
  · next r0 h0 =>
    simp only [Bool.false_eq_true, if_false, Option.some.injEq] at h
    subst h
    refine ⟨_, _, rfl, ?_⟩
    simp only [Bool.or_false, run_alt] at h0
    split at h0
    · next x hx =>
      cases h0
      obtain ⟨a, rk, inp', hk, ha, hK⟩ := run_pre_inv hx
      obtain ⟨r1, r2, h1, h2, rfl⟩ := run_seq_inv hK
      obtain ⟨b, hb, hbr⟩ := run_rule_inv (h1 : run (.rule .extended_time false _) false inp' = some r1)
      obtain ⟨c, hc, hcr⟩ := run_tailRep_inv (X := g_hour_minutes) rfl h2
      exact Or.inl ⟨a, b, c, by simp [hk, R.append, hb, hc], ha, hbr, hcr⟩
    · split at h0
      · next x hx =>
        cases h0
        obtain ⟨a, rk, inp', hk, ha, hK⟩ := run_pre_inv hx
        obtain ⟨r1, r2, h1, h2, rfl⟩ := run_seq_inv hK
        obtain ⟨b, hb, hbr⟩ := run_rule_inv (h1 : run (.rule .extended_time false _) false inp' = some r1)
        obtain ⟨c, hc, hcr⟩ := run_tailRep_inv (X := g_minute) rfl h2
        exact Or.inr (Or.inl ⟨a, b, c, by simp [hk, R.append, hb, hc], ha, hbr, hcr⟩)
      · split at h0
        · next x hx =>
          cases h0
          obtain ⟨a, rk, inp', hk, ha, hK⟩ := run_pre_inv hx
          obtain ⟨r1, r2, h1, h2, rfl⟩ := run_seq_inv hK
          obtain ⟨r3, r4, h3, h4, rfl⟩ := run_seq_inv h2
          obtain ⟨b, hb, hbr⟩ := run_rule_inv (h3 : run (.rule .extended_time false _) false _ = some r3)
          obtain ⟨c, hc, hcr⟩ := run_rule_inv (h4 : run (.rule .timespan_plus true _) false _ = some r4)
          exact Or.inr (Or.inr (Or.inl
            ⟨a, b, c, by simp [hk, R.append, run_optSpace_kids h1, hb, hc], ha, hbr, hcr⟩))
        · split at h0
          · next x hx =>
            cases h0
            obtain ⟨a, rk, inp', hk, ha, hK⟩ := run_pre_inv hx
            obtain ⟨r1, r2, h1, h2, rfl⟩ := run_seq_inv hK
            obtain ⟨b, hb, hbr⟩ := run_rule_inv (h2 : run (.rule .extended_time false _) false _ = some r2)
            exact Or.inr (Or.inr (Or.inr (Or.inl
              ⟨a, b, by simp [hk, R.append, run_optSpace_kids h1, hb], ha, hbr⟩)))
          · obtain ⟨r1, r2, h1, h2, rfl⟩ := run_seq_inv h0
            obtain ⟨a, ha, har⟩ := run_rule_inv (h1 : run (.rule .time false _) false inp = some r1)
            obtain ⟨b, hb, hbr⟩ := run_rule_inv (h2 : run (.rule .timespan_plus true _) false _ = some r2)
            exact Or.inr (Or.inr (Or.inr (Or.inr ⟨a, b, by simp [R.append, ha, hb], har, hbr⟩)))

/-! ### what `buildTimespan` makes of these shapes -/

theorem build_timespan_shape (text : List Char) (kids : List T) (hs : SpanShape kids) (x : TimeSpan)
    (h : buildTimespan (.node .timespan text kids) = .ok x) : x.repeats ≠ none → x.openEnd = false := by
  rcases hs with ⟨a, b, c, rfl, -, hb, hc⟩ | ⟨a, b, c, rfl, -, hb, hc⟩ | ⟨a, b, c, rfl, -, hb, hc⟩ |
    ⟨a, b, rfl, -, hb⟩ | ⟨a, b, rfl, -, hb⟩
  · simp only [buildTimespan, assertRule, time_rule_node, time_kids_node, reduceIte, hb, hc, bind, Except.bind] at h
    cases h1 : buildTime a <;> simp only [h1] at h <;> try cases h
    cases h2 : buildExtendedTime b <;> simp [h2] at h
    cases h3 : buildHourMinutesAsDuration c <;> simp [h3] at h
    subst h; simp
  · simp only [buildTimespan, assertRule, time_rule_node, time_kids_node, reduceIte, hb, hc, bind, Except.bind] at h
    cases h1 : buildTime a <;> simp only [h1] at h <;> try cases h
    cases h2 : buildExtendedTime b <;> simp [h2] at h
    cases h3 : buildMinute c <;> simp [h3] at h
    subst h; simp
  · simp only [buildTimespan, assertRule, time_rule_node, time_kids_node, reduceIte, hb, hc, bind, Except.bind] at h
    cases h1 : buildTime a <;> simp only [h1] at h <;> try cases h
    cases h2 : buildExtendedTime b <;> simp [h2] at h
    subst h; simp
  · simp only [buildTimespan, assertRule, time_rule_node, time_kids_node, reduceIte, hb, bind, Except.bind] at h
    cases h1 : buildTime a <;> simp only [h1] at h <;> try cases h
    cases h2 : buildExtendedTime b <;> simp [h2] at h
    subst h; simp
  · simp only [buildTimespan, assertRule, time_rule_node, time_kids_node, reduceIte, hb, bind, Except.bind] at h
    cases h1 : buildTime a <;> simp [h1] at h
    subst h; simp

/-- every span the parser builds from a `timespan` match has a repetition only if it is not open-ended -/
theorem timespan_repeats_not_open {inp : List Char} {r : R PRule} (h : run g_timespan false inp = some r)
    (t : T) (ht : t ∈ r.kids) (x : TimeSpan) (hx : buildTimespan t = .ok x) :
    x.repeats ≠ none → x.openEnd = false := by
  obtain ⟨text, kids, hk, hs⟩ := run_timespan_shape h
  rw [hk] at ht
  simp only [List.mem_singleton] at ht
  subst ht
  exact build_timespan_shape text kids hs x hx

end OH.Proofs.Syn
