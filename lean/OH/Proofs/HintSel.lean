import OH.Proofs.HintMonth
import OH.Proofs.HintWeek
import OH.Proofs.HintWeekday
/-
Layer B — the day selector: `DaySelector.filter` never panics and `DaySelector.hint` (the minimum of
the four list hints, `DATE_END` for the empty selector) is a sound hint, provided every DATED range
of the selector is (`MdOK`; month ranges are handled here, dated ranges in OH/Proofs/HintDated*.lean).
-/
namespace OH.Model
open OH.Model.Cal

/-- what is required of one monthday range: total filter, sound hint on the supported window -/
def MdOK (m : MonthdayRange) : Prop :=
  (∀ d, ∃ b, m.filter d = .ok b) ∧ ∀ d, dateStart ≤ d → d < dateEnd → HintOK m.filter m.hint d

theorem MdOK_month (lo hi : Nat) (yr : Option Nat) (hw : (MonthdayRange.month lo hi yr).wf = true) :
    MdOK (MonthdayRange.month lo hi yr) :=
  ⟨month_filter_total lo hi yr, month_hintOK lo hi yr hw⟩

/-- every dated range of the selector is fine -/
def DaySelector.DatedOK (s : DaySelector) : Prop :=
  ∀ m ∈ s.monthday, (match m with | .date .. => MdOK m | .month .. => True)

theorem DaySelector.mdOK (s : DaySelector) (hw : s.wf = true) (hd : s.DatedOK) : ∀ m ∈ s.monthday, MdOK m := by
  intro m hm
  simp only [DaySelector.wf, Bool.and_eq_true, List.all_eq_true] at hw
  have hwm := hw.1.1.2 m hm
  have := hd m hm
  cases m with
  | month lo hi yr => exact MdOK_month lo hi yr hwm
  | date s so e eo => exact this

theorem DaySelector.filter_total (ctx : Ctx) (s : DaySelector) (hw : s.wf = true) (hd : s.DatedOK) (d : Int) :
    ∃ b, s.filter ctx d = .ok b := by
  have hmd := s.mdOK hw hd
  simp only [DaySelector.wf, Bool.and_eq_true, List.all_eq_true] at hw
  obtain ⟨⟨⟨wy, _⟩, ww⟩, wd⟩ := hw
  obtain ⟨b1, e1⟩ := listFilter_total (·.filter d) s.year (fun x hx => YearRange.filter_total x (wy x hx) d)
  obtain ⟨b2, e2⟩ := listFilter_total (·.filter d) s.monthday (fun x hx => (hmd x hx).1 d)
  obtain ⟨b3, e3⟩ := listFilter_total (·.filter d) s.week (fun x hx => WeekRange.filter_total x (ww x hx) d)
  obtain ⟨b4, e4⟩ := listFilter_total (·.filter ctx d) s.weekday (fun x hx => WeekDayRange.filter_total ctx x (wd x hx) d)
  unfold DaySelector.filter
  simp only [e1, e2, e3, e4, M.bind_ok]
  cases b1 <;> cases b2 <;> cases b3 <;> simp <;> first | exact ⟨_, rfl⟩ | exact ⟨_, e4⟩

theorem DaySelector.filter_congr (ctx : Ctx) (s : DaySelector) (d d' : Int)
    (h1 : listFilter (·.filter d') s.year = listFilter (·.filter d) s.year)
    (h2 : listFilter (·.filter d') s.monthday = listFilter (·.filter d) s.monthday)
    (h3 : listFilter (·.filter d') s.week = listFilter (·.filter d) s.week)
    (h4 : listFilter (·.filter ctx d') s.weekday = listFilter (·.filter ctx d) s.weekday) :
    s.filter ctx d' = s.filter ctx d := by
  unfold DaySelector.filter
  rw [h1, h2, h3, h4]

theorem DaySelector.filter_empty (ctx : Ctx) (s : DaySelector) (h : s.isEmpty = true) (d : Int) :
    s.filter ctx d = .ok true := by
  simp only [DaySelector.isEmpty, Bool.and_eq_true, List.isEmpty_iff] at h
  obtain ⟨⟨⟨h1, h2⟩, h3⟩, h4⟩ := h
  unfold DaySelector.filter
  simp [h1, h2, h3, h4, listFilter]

theorem DaySelector.hintOK (ctx : Ctx) (hc : CtxWF ctx) (s : DaySelector) (hw : s.wf = true) (hdt : s.DatedOK)
    (d : Int) (hd1 : dateStart ≤ d) (hd2 : d < dateEnd) : HintOK (s.filter ctx) (s.hint ctx) d := by
  by_cases hem : s.isEmpty = true
  · refine HintOK.of_some (x := dateEnd) ?_ hd2 ?_
    · unfold DaySelector.hint; simp [hem]
    · intro d' _ _ _
      rw [s.filter_empty ctx hem, s.filter_empty ctx hem]
  · have hmd := s.mdOK hw hdt
    simp only [DaySelector.wf, Bool.and_eq_true, List.all_eq_true] at hw
    obtain ⟨⟨⟨wy, _⟩, ww⟩, wd⟩ := hw
    have A := listHintOK (fun (x : YearRange) => x.filter) (fun x => x.hint) s.year d hd2
      (fun x hx => YearRange.hintOK x (wy x hx) d hd1 hd2)
    have B := listHintOK (fun (x : MonthdayRange) => x.filter) (fun x => x.hint) s.monthday d hd2
      (fun x hx => (hmd x hx).2 d hd1 hd2)
    have C := listHintOK (fun (x : WeekRange) => x.filter) (fun x => x.hint) s.week d hd2
      (fun x hx => WeekRange.hintOK x (ww x hx) d hd1 hd2)
    have E := listHintOK (fun (x : WeekDayRange) => x.filter ctx) (fun x => x.hint ctx) s.weekday d hd2
      (fun x hx => WeekDayRange.hintOK ctx hc x (wd x hx) d hd1 hd2)
    obtain ⟨a, ha⟩ := A.total
    obtain ⟨b, hb⟩ := B.total
    obtain ⟨c, hc'⟩ := C.total
    obtain ⟨e, he⟩ := E.total
    have ga := fun x (hx : a = some x) => A.gt x (by rw [ha, hx])
    have gb := fun x (hx : b = some x) => B.gt x (by rw [hb, hx])
    have gc := fun x (hx : c = some x) => C.gt x (by rw [hc', hx])
    have ge := fun x (hx : e = some x) => E.gt x (by rw [he, hx])
    have hval : s.hint ctx d = .ok (optMin (optMin a b) (optMin c e)) := by
      unfold DaySelector.hint
      simp [hem, ha, hb, hc', he]
    have gab := optMin_gt ga gb
    have gce := optMin_gt gc ge
    refine ⟨⟨_, hval⟩, ?_, ?_⟩
    · intro x hx
      rw [hval] at hx
      exact optMin_gt gab gce x (by simpa using hx)
    · intro x hx d' h1 h2 h3
      rw [hval] at hx
      simp only [Except.ok.injEq] at hx
      subst hx
      have l1 := hintDay_optMin_le_left (d := d) (a := optMin a b) (b := optMin c e) gab
      have l2 := hintDay_optMin_le_right (d := d) (a := optMin a b) (b := optMin c e) gce
      have l3 := hintDay_optMin_le_left (d := d) (a := a) (b := b) ga
      have l4 := hintDay_optMin_le_right (d := d) (a := a) (b := b) gb
      have l5 := hintDay_optMin_le_left (d := d) (a := c) (b := e) gc
      have l6 := hintDay_optMin_le_right (d := d) (a := c) (b := e) ge
      exact s.filter_congr ctx d d'
        (A.sound a ha d' h1 (by omega) h3) (B.sound b hb d' h1 (by omega) h3)
        (C.sound c hc' d' h1 (by omega) h3) (E.sound e he d' h1 (by omega) h3)

end OH.Model
