import OH.Proofs.SynRule7
/-
Assembly, part 8: `wide_range_selectors = { comment ~ ":" | monthday_selector ~ week_selector? ~ sep?
  | year_selector? ~ monthday_selector? ~ week_selector? ~ sep? }` on the printed wide part, and the
discharge of `WideHyp`:
 * years printed (also as `2020-2020` in front of a month-day selector without year): the second
   alternative FAILS (`run_monthday_selector_none_years`, `…_year_long`), the third reads everything;
 * no years, month days printed: the second alternative;
 * only weeks: the second alternative fails (`week…` is no date), the third reads the weeks.
-/
namespace OH.Proofs.Syn
open OH.Model OH.Model.Peg OH.Model.Parser OH.Generated.Grammar OH.Proofs.Syn.Wide

/-! ### the wide parts covered -/

/-- A `/step` at the end of the year selector is not followed by a month-day selector that starts with
a year: `2020-2030/2` ++ `2021Jan` would print `2020-2030/22021Jan` (step 22021).  The parser cannot
build that pair: `positive_number` takes every digit after the `/`. -/
def yearStepOk (ys : List YearRange) (ms : List MonthdayRange) : Bool :=
  match ys.getLast?, ms.head? with
  | some y, some m => decide (y.step = 1) || !Print.startsWithYear m
  | _, _ => true

/-- the years, month days and weeks of a parsed rule -/
def okWide (d : DaySelector) : Bool :=
  d.year.all okYear && d.monthday.all okMonthday && d.week.all okWeek && yearStepOk d.year d.monthday

/-! ### the two successful alternatives, from their parts -/

theorem run_wide_alt3 (inp : List Char) (ky km kw : List T) (yt mt wt sp r1 r2 r3 rest : List Char)
    (h1 : run g_comment false inp = none) (h2 : run g_monthday_selector false inp = none)
    (hY : run (.opt g_year_selector) false inp = some ⟨ky, yt, r1⟩)
    (hM : run (.opt g_monthday_selector) false r1 = some ⟨km, mt, r2⟩)
    (hW : run (.opt g_week_selector) false r2 = some ⟨kw, wt, r3⟩)
    (hS : run (.opt g_separator_for_readability) false r3 = some ⟨[], sp, rest⟩) :
    run g_wide_range_selectors false inp
      = some ⟨[.node .wide_range_selectors (yt ++ (mt ++ (wt ++ sp))) (ky ++ (km ++ kw))],
          yt ++ (mt ++ (wt ++ sp)), rest⟩ := by
  simp [g_wide_range_selectors, run_rule, run_alt, run_seq, h1, h2, hY, hM, hW, hS, R.append]

theorem run_wide_alt2 (inp : List Char) (tm : T) (kw : List T) (mt wt sp r2 r3 rest : List Char)
    (h1 : run g_comment false inp = none)
    (hM : run g_monthday_selector false inp = some ⟨[tm], mt, r2⟩)
    (hW : run (.opt g_week_selector) false r2 = some ⟨kw, wt, r3⟩)
    (hS : run (.opt g_separator_for_readability) false r3 = some ⟨[], sp, rest⟩) :
    run g_wide_range_selectors false inp
      = some ⟨[.node .wide_range_selectors (mt ++ (wt ++ sp)) (tm :: kw)], mt ++ (wt ++ sp), rest⟩ := by
  simp [g_wide_range_selectors, run_rule, run_alt, run_seq, h1, hM, hW, hS, R.append]

theorem build_wide (text : List Char) (ky km kw : List T) (ys : List YearRange) (ms : List MonthdayRange)
    (ws : List WeekRange) (hy : OptKid ky .year_selector buildYearSelector ys)
    (hm : OptKid km .monthday_selector buildMonthdaySelector ms)
    (hw : OptKid kw .week_selector buildWeekSelector ws) :
    buildWideRangeSelectors (.node .wide_range_selectors text (ky ++ (km ++ kw))) = .ok ⟨ys, ms, ws, none⟩ := by
  have := wideLoop_kids ky km kw ys ms ws hy hm hw
  simp only [List.append_assoc] at this
  simp only [buildWideRangeSelectors, assertRule, Tree.rule, Tree.kids, reduceIte, bind, Except.bind, this]

/-! ### the week part -/

theorem weekPart_nil (ys : List YearRange) (ms : List MonthdayRange) : weekPart ys ms [] = [] := by
  simp [weekPart]

theorem weekPart_space (ys : List YearRange) (ms : List MonthdayRange) (ws : List WeekRange)
    (h : ys ≠ [] ∨ ms ≠ []) (hw : ws ≠ []) : ∃ r, weekPart ys ms ws = ' ' :: 'w' :: r := by
  have h1 : ws.isEmpty = false := by cases ws <;> simp_all
  have h2 : (!ys.isEmpty || !ms.isEmpty) = true := by
    cases ys <;> cases ms <;> simp_all
  simp only [weekPart, h1, h2, Bool.not_false, if_true, str_week, List.cons_append, List.nil_append]
  exact ⟨_, rfl⟩

/-! ### what follows the year selector -/

structure YearCtx (ys : List YearRange) (R : List Char) : Prop where
  fy : FollowYear R
  step : YearStepFollow ys R
  /-- what keeps a single plain year from being read as the year of a date -/
  nodate : YearNotDate R

/-- the year selector is followed by the month-day selector, the week part, or the context -/
theorem yearCtx (ys : List YearRange) (hys : ys ≠ []) (ms : List MonthdayRange)
    (hokm : ∀ m ∈ ms, okMonthday m = true) (hstep : yearStepOk ys ms = true)
    (hdash : ∀ m, ms.head? = some m → Print.startsWithYear m = true)
    (ws : List WeekRange) (X : List Char) (hctx : WideCtx X) :
    YearCtx ys (Print.selector Print.monthdayRange ms ++ (weekPart ys ms ws ++ X)) := by
  by_cases hms : ms = []
  · subst hms
    simp only [Print.selector, List.nil_append]
    by_cases hws : ws = []
    · subst hws
      rw [weekPart_nil, List.nil_append]
      exact ⟨FollowYear_of_FollowWide X hctx.fw,
        YearStepFollow_of_NoDigit ys X (NoDigit_of_FollowWide X hctx.fw),
        YearNotDate_of_FollowWide X hctx.fw hctx.wday⟩
    · obtain ⟨r, e⟩ := weekPart_space ys [] ws (.inl hys) hws
      rw [e]
      exact ⟨FollowYear_space _, YearStepFollow_of_NoDigit ys _ (NoDigit_space _), YearNotDate_week _⟩
  · refine ⟨FollowYear_monthday ms hms hokm _, ?_, YearNotDate_monthday ms hms hokm hdash _⟩
    intro y hy hs
    exfalso
    cases ms with
    | nil => exact hms rfl
    | cons m l =>
      have h1 := hdash m rfl
      simp only [yearStepOk, hy, List.head?_cons, Bool.or_eq_true, decide_eq_true_eq, Bool.not_eq_true'] at hstep
      rcases hstep with h | h
      · exact hs h
      · rw [h1] at h; cases h

/-- the long form `2020-2020` is followed by a month-day selector without year -/
theorem yearCtx_long (ms : List MonthdayRange) (hms : ms ≠ []) (hokm : ∀ m ∈ ms, okMonthday m = true)
    (R : List Char) : FollowYear (Print.selector Print.monthdayRange ms ++ R) :=
  FollowYear_monthday ms hms hokm R

/-! ### the year part -/

/-- the printed year part with the special case -/
theorem yearDash_cases (ys : List YearRange) (ms : List MonthdayRange) :
    (yearDash ys ms = [] ∧
        ((∃ y, ys = [y] ∧ y.lo = y.hi ∧ y.step = 1) → ∀ m, ms.head? = some m → Print.startsWithYear m = true))
      ∨ (∃ lo m l, ys = [⟨lo, lo, 1⟩] ∧ ms = m :: l ∧ Print.startsWithYear m = false
          ∧ Print.selector Print.yearRange ys ++ yearDash ys ms = Print.natStr lo ++ '-' :: Print.natStr lo) := by
  rcases ys with _ | ⟨y, _ | ⟨y2, l⟩⟩
  · exact .inl ⟨by simp [yearDash], by simp⟩
  · cases ms with
    | nil => exact .inl ⟨by simp [yearDash], by simp⟩
    | cons m l =>
      by_cases h : y.lo = y.hi ∧ y.step = 1 ∧ (!Print.startsWithYear m) = true
      · obtain ⟨lo, hi, st⟩ := y
        obtain ⟨h1, h2, h3⟩ := h
        simp only at h1 h2
        subst h1 h2
        refine .inr ⟨lo, m, l, rfl, rfl, by simpa using h3, ?_⟩
        have : Print.yearRange ⟨lo, lo, 1⟩ = Print.natStr lo := yearRange_short _ (by simp)
        simp [yearDash, h3, Print.selector, this]
      · refine .inl ⟨by simp only [yearDash, h, if_false], ?_⟩
        rintro ⟨y', e, h1, h2⟩ m' hm'
        simp only [List.cons.injEq, and_true] at e
        subst e
        simp only [List.head?_cons, Option.some.injEq] at hm'
        subst hm'
        by_cases h3 : Print.startsWithYear m = true
        · exact h3
        · exact absurd ⟨h1, h2, by simpa using h3⟩ h
  · exact .inl ⟨by simp [yearDash], by
      rintro ⟨y', e, -⟩
      simp at e⟩

/-- years are printed: the second alternative fails, `year_selector` reads them -/
theorem year_part (ys : List YearRange) (hys : ys ≠ []) (hoky : ∀ y ∈ ys, okYear y = true)
    (ms : List MonthdayRange) (hokm : ∀ m ∈ ms, okMonthday m = true) (hstep : yearStepOk ys ms = true)
    (ws : List WeekRange) (X : List Char) (hctx : WideCtx X) :
    let R := Print.selector Print.monthdayRange ms ++ (weekPart ys ms ws ++ X)
    let YT := Print.selector Print.yearRange ys ++ yearDash ys ms
    run g_monthday_selector false (YT ++ R) = none ∧
      ParsesTo g_year_selector buildYearSelector YT R ys := by
  intro R YT
  rcases yearDash_cases ys ms with ⟨hd, hdash⟩ | ⟨lo, m, l, rfl, rfl, hsy, e⟩
  · have hYT : YT = Print.selector Print.yearRange ys := by simp [YT, hd]
    rw [hYT]
    by_cases hplain : ∃ y, ys = [y] ∧ y.lo = y.hi ∧ y.step = 1
    · have C := yearCtx ys hys ms hokm hstep (hdash hplain) ws X hctx
      exact ⟨run_monthday_selector_none_years ys hys hoky R (fun _ => C.nodate),
        parses_year_selector ys hys hoky R C.fy C.step⟩
    · refine ⟨run_monthday_selector_none_years ys hys hoky R (fun h => absurd h hplain), ?_⟩
      -- not a single plain year: `YearNotDate` is not needed; the other two conditions
      by_cases hms : ms = []
      · subst hms
        have C := yearCtx ys hys [] hokm hstep (by simp) ws X hctx
        exact parses_year_selector ys hys hoky R C.fy C.step
      · refine parses_year_selector ys hys hoky R (FollowYear_monthday ms hms hokm _) ?_
        intro y hy hs
        cases ms with
        | nil => exact absurd rfl hms
        | cons m l =>
          apply NoDigit_monthday (m :: l) hms hokm
          intro m' hm'
          simp only [List.head?_cons, Option.some.injEq] at hm'
          subst hm'
          simp only [yearStepOk, hy, List.head?_cons, Bool.or_eq_true, decide_eq_true_eq,
            Bool.not_eq_true'] at hstep
          rcases hstep with h | h
          · exact absurd h hs
          · exact h
  · have hlo : 1900 ≤ lo ∧ lo ≤ 9999 := by
      have := hoky ⟨lo, lo, 1⟩ (by simp)
      simp only [okYear, decide_eq_true_eq] at this
      exact ⟨this.1, this.2.1⟩
    have hYT : YT = Print.natStr lo ++ '-' :: Print.natStr lo := e
    rw [hYT]
    exact ⟨run_monthday_selector_none_year_long lo hlo R,
      parses_year_selector_long lo hlo R (FollowYear_monthday (m :: l) (by simp) hokm _)⟩

/-! ### the head of the printed wide part -/

theorem mdStart_ruleStart (c : Char) (h : MdStartChar c) : RuleStart c ∧ c ≠ '"' := by
  rcases h with ⟨h1, h9⟩ | h | h
  · obtain ⟨-, -, -, f4, -, f6, f7, f8, f9⟩ := digit_facts c (Char.le_trans (by decide) h1) h9
    exact ⟨⟨f4, f7, f8, f9⟩, f6⟩
  · rcases h with h | h | h | h | h | h | h | h <;> subst h <;> simp [RuleStart]
  · subst h; simp [RuleStart]

theorem okWide_iff (d : DaySelector) : okWide d = true ↔
    (∀ y ∈ d.year, okYear y = true) ∧ (∀ m ∈ d.monthday, okMonthday m = true)
      ∧ (∀ w ∈ d.week, okWeek w = true) ∧ yearStepOk d.year d.monthday = true := by
  simp [okWide, and_assoc]

theorem wide_head (d : DaySelector) (hok : okWide d = true) (hne : wideEmpty d = false) :
    (∃ c cs, wideText d = c :: cs ∧ RuleStart c ∧ c ≠ '"')
      ∧ ∀ rest, run g_always_open false (wideText d ++ rest) = none := by
  obtain ⟨hoky, hokm, hokw, -⟩ := (okWide_iff d).mp hok
  obtain ⟨ys, ms, ws, wd⟩ := d
  simp only at hoky hokm hokw
  rw [wideText_parts]
  simp only [List.append_assoc]
  by_cases hys : ys = []
  · subst hys
    by_cases hms : ms = []
    · subst hms
      have hws : ws ≠ [] := by
        intro h; subst h; simp [wideEmpty] at hne
      have h1 : ws.isEmpty = false := by cases ws <;> simp_all
      have e : ∀ R, Print.selector Print.yearRange [] ++ (yearDash [] [] ++
          (Print.selector Print.monthdayRange [] ++ (weekPart [] [] ws ++ R)))
          = 'w' :: 'e' :: 'e' :: 'k' :: (Print.selector Print.weekRange ws ++ R) := by
        intro R
        simp [Print.selector, yearDash, weekPart, h1, str_week]
      constructor
      · have := e []
        simp only [List.append_nil] at this
        exact ⟨'w', _, this, by simp [RuleStart], by decide⟩
      · intro rest
        rw [e rest]
        exact run_always_open_none_head _ _ (by decide)
    · obtain ⟨c, r, e, hc, -⟩ := monthday_selector_head ms hms hokm
      obtain ⟨h1, h2⟩ := mdStart_ruleStart c hc
      have e0 : yearDash [] ms = [] := by simp [yearDash]
      constructor
      · exact ⟨c, r ++ weekPart [] ms ws, by simp [Print.selector, e0, e], h1, h2⟩
      · intro rest
        simp only [Print.selector, e0, List.nil_append]
        exact run_always_open_none_monthday ms hms hokm _
  · obtain ⟨y, tail, hy, e, -⟩ := year_selector_text ys hys
    have hmem : y ∈ ys := by
      cases ys with
      | nil => cases hy
      | cons a l => simp only [List.head?_cons, Option.some.injEq] at hy; subst hy; simp
    have hoky' := hoky y hmem
    simp only [okYear, decide_eq_true_eq] at hoky'
    obtain ⟨c, cs, ec, hc⟩ := natStr_year_head y.lo ⟨hoky'.1, hoky'.2.1⟩
    obtain ⟨h1, h2⟩ := mdStart_ruleStart c (.inl hc)
    constructor
    · exact ⟨c, _, by rw [e, ec]; rfl, h1, h2⟩
    · intro rest
      exact run_always_open_none_years ys hys hoky _

/-! ### `wide_range_selectors` on the printed wide part -/

theorem parses_wide (d : DaySelector) (hok : okWide d = true) (hne : wideEmpty d = false)
    (sp rest : List Char) (h : AfterWide sp rest) :
    ParsesTo g_wide_range_selectors buildWideRangeSelectors (wideText d ++ sp) rest
      ⟨d.year, d.monthday, d.week, none⟩ := by
  obtain ⟨⟨c, cs, ehead, -, hq⟩, -⟩ := wide_head d hok hne
  obtain ⟨hoky, hokm, hokw, hstep⟩ := (okWide_iff d).mp hok
  have hctx := wideCtx_of_afterWide sp rest h
  have hS := run_opt_sep_after sp rest h
  obtain ⟨ys, ms, ws, wd⟩ := d
  simp only at hoky hokm hokw hstep ⊢
  obtain ⟨kw, hW, okw⟩ := opt_week ys ms ws hokw _ hctx
  obtain ⟨km, hM, okm⟩ := opt_monthday ys ms hokm ws _ hctx
  have h1 : run g_comment false (wideText ⟨ys, ms, ws, wd⟩ ++ sp ++ rest) = none := by
    apply run_comment_none
    intro r e
    rw [ehead] at e
    simp only [List.cons_append, List.cons.injEq] at e
    exact hq e.1
  have einp : wideText ⟨ys, ms, ws, wd⟩ ++ sp ++ rest
      = (Print.selector Print.yearRange ys ++ yearDash ys ms)
        ++ (Print.selector Print.monthdayRange ms ++ (weekPart ys ms ws ++ (sp ++ rest))) := by
    rw [wideText_parts]; simp only [List.append_assoc]
  have etext : wideText ⟨ys, ms, ws, wd⟩ ++ sp
      = (Print.selector Print.yearRange ys ++ yearDash ys ms)
        ++ (Print.selector Print.monthdayRange ms ++ (weekPart ys ms ws ++ sp)) := by
    rw [wideText_parts]; simp only [List.append_assoc]
  rw [einp] at h1
  unfold ParsesTo
  rw [einp, etext]
  by_cases hys : ys = []
  · subst hys
    have eY : Print.selector Print.yearRange [] ++ yearDash [] ms = [] := by simp [Print.selector, yearDash]
    rw [eY] at h1 ⊢
    simp only [List.nil_append] at h1 ⊢
    by_cases hms : ms = []
    · -- only weeks
      subst hms
      simp only [Print.selector, List.nil_append] at h1 hM ⊢
      have hh := week_ctx_head [] ws _ hctx
      have h2 := run_monthday_selector_none_head _ hh
      have hyn : run g_year false (weekPart [] [] ws ++ (sp ++ rest)) = none := by
        apply run_year_none
        intro c' r' e' hc'
        rcases hh with h0 | ⟨c'', r'', e'', hc''⟩
        · rw [h0] at e'; cases e'
        · rw [e''] at e'
          cases e'
          rcases hc'' with rfl | rfl | rfl <;> exact absurd hc' (by decide)
      have hY := opt_none (run_year_selector_none_start _ hyn)
      have hrun := run_wide_alt3 _ [] km kw [] [] _ sp _ _ _ rest h1 h2 hY hM hW hS
      simp only [List.nil_append] at hrun
      exact ⟨_, hrun, build_wide _ [] km kw [] [] ws (.inl ⟨rfl, rfl⟩) okm okw⟩
    · -- month days (and maybe weeks)
      obtain ⟨tm, htm, hbm⟩ := parses_monthday_selector ms hms hokm _ (followMonthday_ctx [] ms hms ws _ hctx)
      have hrun := run_wide_alt2 _ tm kw _ _ sp _ _ rest h1 htm hW hS
      refine ⟨_, hrun, ?_⟩
      exact build_wide _ [] [tm] kw [] ms ws (.inl ⟨rfl, rfl⟩) (.inr ⟨tm, rfl, rule_of_run htm, hbm⟩) okw
  · -- years
    obtain ⟨h2, ty, hty, hby⟩ := year_part ys hys hoky ms hokm hstep ws _ hctx
    have hY := opt_some hty
    have hrun := run_wide_alt3 _ [ty] km kw _ _ _ sp _ _ _ rest h1 h2 hY hM hW hS
    exact ⟨_, hrun, build_wide _ [ty] km kw ys ms ws (.inr ⟨ty, rfl, rule_of_run hty, hby⟩) okm okw⟩

/-- the hypothesis of the rule-level lemmas holds for every parser-producible wide part -/
theorem wideHyp_of_ok (d : DaySelector) (hok : okWide d = true) (hne : wideEmpty d = false) : WideHyp d := by
  obtain ⟨⟨c, cs, e, hc, -⟩, hao⟩ := wide_head d hok hne
  exact ⟨hao, ⟨c, cs, e, hc⟩, parses_wide d hok hne⟩

end OH.Proofs.Syn
