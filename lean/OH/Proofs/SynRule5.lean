import OH.Proofs.SynRule4
/-
Assembly, part 5: `rule_sequence = { !(space? ~ (any_rule_separator | EOI)) ~ selector_sequence
  ~ space? ~ rules_modifier? }` on one printed rule `Print.rule r`, in front of the end of the text or
of a printed separator.  The pair is built back into `r` with its comments joined
(`joinRuleComments`), whatever operator it is given.
-/
namespace OH.Proofs.Syn
open OH.Model OH.Model.Peg OH.Model.Parser OH.Generated.Grammar OH.Proofs.Syn.Wide

/-! ### the rules covered and what they become -/

/-- the conditions on the weekday list, the time list and the comments of a parsed rule -/
def okRuleSmall (r : Rule) : Bool :=
  okTimes r.time && (r.day.weekday.isEmpty || okWeekdays r.day.weekday) && r.comments.all okComment

/-- `[a, b]` ↦ `["a, b"]`: what the comments of a rule become after printing and parsing (two comments
are written as one, `"a, b"`) -/
def joinRuleComments (r : Rule) : Rule :=
  if r.comments.length ≥ 2 then { r with comments := [String.ofList (Print.joinComments r.comments)] } else r

/-- what may follow a printed rule: the end, or a printed separator -/
def FollowRule (rest : List Char) : Prop := rest = [] ∨ ∃ op tail, rest = Print.sepStr op ++ tail

/-- what is left after `rule_sequence`: the separator, possibly without its leading space -/
def AfterRule (rest rest' : List Char) : Prop :=
  (rest = [] ∧ rest' = []) ∨
    ∃ op tail sp, rest = Print.sepStr op ++ tail ∧ (sp = [] ∨ sp = sepLead op) ∧ rest' = sp ++ sepCore op ++ tail

/-! ### the negative look-ahead -/

theorem run_rule_lookahead (c : Char) (cs : List Char) (h : RuleStart c) :
    run (.notp (.seq (.opt g_space) (.alt g_any_rule_separator (.rule .EOI true .eoi)))) false (c :: cs)
      = some ⟨[], [], c :: cs⟩ := by
  obtain ⟨h1, h2, h3, h4⟩ := h
  simp [g_any_rule_separator, g_normal_rule_separator, g_additional_rule_separator,
    g_fallback_rule_separator, g_space, peg, Ne.symm h1, Ne.symm h2, Ne.symm h3, Ne.symm h4]

/-- a rule whose selectors are all empty and whose time is `00:00-24:00` is printed `24/7` -/
theorem small_nonempty (r : Rule) (hc : r.isConstant = false) (htne : r.time ≠ [])
    (hW : wideEmpty r.day = true) : ¬ (r.day.weekday = [] ∧ timesPrinted r.time = []) := by
  intro hse
  have h1 : r.day.isEmpty = true := by
    show (wideEmpty r.day && r.day.weekday.isEmpty) = true
    rw [hW, hse.1]; rfl
  have h2 : is0024 r.time = true := by
    by_cases h24 : is0024 r.time = true
    · exact h24
    · have := hse.2
      simp only [timesPrinted, h24, Bool.false_eq_true, if_false] at this
      exact absurd this htne
  have : r.isConstant = true := by simp only [Rule.isConstant, h1, h2, Bool.and_self]
  rw [this] at hc; cases hc

theorem okSmall_of_rule (r : Rule) (hok : okRuleSmall r = true) :
    okTimes r.time = true ∧ (r.day.weekday ≠ [] → okWeekdays r.day.weekday = true)
      ∧ ∀ s ∈ r.comments, okComment s = true := by
  simp only [okRuleSmall, Bool.and_eq_true, Bool.or_eq_true, List.isEmpty_iff, List.all_eq_true] at hok
  refine ⟨hok.1.1, ?_, hok.2⟩
  intro h
  rcases hok.1.2 with h' | h'
  · exact absurd h' h
  · exact h'

/-- first character of a printed rule -/
theorem rule_head (r : Rule) (hok : okRuleSmall r = true) (hw : wideEmpty r.day = false → WideHyp r.day) :
    ∃ c cs, Print.rule r = c :: cs ∧ RuleStart c := by
  obtain ⟨hts, hwd, -⟩ := okSmall_of_rule r hok
  have htne : r.time ≠ [] := ((okTimes_iff _).mp hts).1
  rw [rule_eq]
  by_cases hc : r.isConstant = true
  · exact ⟨'2', ['4', '/', '7'] ++ modText r, by simp [selText, hc, Print.str], by simp [RuleStart]⟩
  · have hc' : r.isConstant = false := by simpa using hc
    rw [selText_eq r hc' htne]
    cases hW : wideEmpty r.day with
    | false =>
      obtain ⟨c, cs, e, hc⟩ := (hw hW).head
      exact ⟨c, _, by rw [e]; rfl, hc⟩
    | true =>
      have hse := small_nonempty r hc' htne hW
      have hok' : OkSmall r.day.weekday (timesPrinted r.time) := by
        refine ⟨hwd, ?_⟩
        intro h
        by_cases h24 : is0024 r.time = true
        · simp [timesPrinted, h24] at h
        · simpa [timesPrinted, h24] using hts
      obtain ⟨c, cs, e, hc⟩ := (small_head _ _ hse hok' (modText r)).1
      refine ⟨c, cs, ?_, hc⟩
      rw [wideText_empty _ hW]
      simpa using e

/-! ### the modifier part -/

/-- the modifier of a rule as the parser returns it -/
def modVal (r : Rule) : Kind × Option String :=
  (r.kind, if r.comments.isEmpty then none else some (String.ofList (Print.joinComments r.comments)))

theorem followRule_noComment (rest : List Char) (hf : FollowRule rest) : NoComment rest := by
  rcases hf with rfl | ⟨op, tail, rfl⟩
  · exact ⟨by simp, by simp⟩
  · cases op <;> exact ⟨by simp [Print.sepStr, Print.str], by simp [Print.sepStr, Print.str]⟩

/-- no modifier is printed: the separator (or the end) comes next -/
theorem cut_follow (rest : List Char) (hf : FollowRule rest) :
    ∃ sp rest', Cut rest sp rest' ∧ AfterRule rest rest' ∧ run (.opt g_rules_modifier) false rest'
      = some ⟨[], [], rest'⟩ := by
  rcases hf with rfl | ⟨op, tail, rfl⟩
  · exact ⟨[], [], .nil, .inl ⟨rfl, rfl⟩, opt_none' (run_modifier_none [] (.inl rfl))⟩
  · cases op with
    | normal =>
      refine ⟨[' '], ';' :: ' ' :: tail, .space ';' _ (by simp [ModStart]),
        .inr ⟨.normal, tail, [], rfl, .inl rfl, rfl⟩, opt_none' (run_modifier_none _ (.inr ⟨';', _, rfl, ?_⟩))⟩
      decide
    | additional =>
      refine ⟨[], ',' :: ' ' :: tail, .comma _,
        .inr ⟨.additional, tail, [], rfl, .inl rfl, rfl⟩, opt_none' (run_modifier_none _ (.inr ⟨',', _, rfl, ?_⟩))⟩
      decide
    | fallback =>
      refine ⟨[' '], '|' :: '|' :: ' ' :: tail, .space '|' _ (by simp [ModStart]),
        .inr ⟨.fallback, tail, [], rfl, .inl rfl, rfl⟩, opt_none' (run_modifier_none _ (.inr ⟨'|', _, rfl, ?_⟩))⟩
      decide

theorem afterRule_self (rest : List Char) (hf : FollowRule rest) : AfterRule rest rest := by
  rcases hf with rfl | ⟨op, tail, rfl⟩
  · exact .inl ⟨rfl, rfl⟩
  · exact .inr ⟨op, tail, sepLead op, rfl, .inr rfl, by rw [sepStr_eq]⟩

/-- a modifier is printed: ` closed`, ` unknown "x"`, ` "x"` -/
theorem parses_modText (r : Rule) (hcm : ∀ s ∈ r.comments, okComment s = true)
    (hm : ¬ (r.kind = .open ∧ r.comments = [])) (rest : List Char) (hf : FollowRule rest) :
    ∃ body c, modText r = ' ' :: body ∧ (∃ cs, body = c :: cs) ∧ ModStart c ∧
      ParsesTo g_rules_modifier buildRulesModifier body rest (modVal r) := by
  have hnc := followRule_noComment rest hf
  by_cases hcs : r.comments = []
  · have hk : r.kind ≠ .open := fun h => hm ⟨h, hcs⟩
    refine ⟨Print.kindStr r.kind, if r.kind = .closed then 'c' else 'u', ?_, ?_, ?_, ?_⟩
    · simp [modText, hk, hcs]
    · cases hk' : r.kind <;> simp_all [Print.kindStr, Print.str]
    · cases hk' : r.kind <;> simp_all [ModStart]
    · have := parses_modifier_kind r.kind rest hnc
      simpa [modVal, hcs] using this
  · have hj := okCommentChars_join r.comments hcs hcm
    have hne : r.comments.isEmpty = false := by cases h : r.comments <;> simp_all
    by_cases hk : r.kind = .open
    · refine ⟨commentText r.comments, '"', ?_, ⟨_, rfl⟩, by simp [ModStart], ?_⟩
      · simp [modText, hk, hne]
      · have := parses_modifier_comment _ hj rest
        simpa [modVal, hne, hk, commentText] using this
    · refine ⟨Print.kindStr r.kind ++ ' ' :: commentText r.comments, if r.kind = .closed then 'c' else 'u',
        ?_, ?_, ?_, ?_⟩
      · simp [modText, hk, hne]
      · cases hk' : r.kind <;> simp_all [Print.kindStr, Print.str]
      · cases hk' : r.kind <;> simp_all [ModStart]
      · have := parses_modifier_kind_comment r.kind _ hj rest
        simpa [modVal, hne, commentText] using this

/-! ### `buildRuleSequence` -/

theorem fromVec_nil : SortedVec.fromVec ([] : List String) = [] := by
  simp [SortedVec.fromVec, SortedVec.sort, SortedVec.dedup]

theorem fromVec_single (x : String) : SortedVec.fromVec [x] = [x] := by
  simp [SortedVec.fromVec, SortedVec.sort, SortedVec.insertSorted, SortedVec.dedup]

/-- the comments after the round trip -/
theorem comments_modVal (r : Rule) :
    SortedVec.fromVec ((modVal r).2.toList ++ (none : Option String).toList) = (joinRuleComments r).comments := by
  cases h : r.comments with
  | nil => simp [modVal, joinRuleComments, h, fromVec_nil]
  | cons a l =>
    cases l with
    | nil => simp [modVal, joinRuleComments, h, fromVec_single, Print.joinComments]
    | cons b l' => simp [modVal, joinRuleComments, h, fromVec_single]

theorem joinRuleComments_fields (r : Rule) :
    (joinRuleComments r).day = r.day ∧ (joinRuleComments r).time = r.time
      ∧ (joinRuleComments r).kind = r.kind ∧ (joinRuleComments r).op = r.op := by
  unfold joinRuleComments
  split <;> simp

theorem build_rule_sequence_mod (text : List Char) (tsel tmod : T) (r : Rule)
    (hs : buildSelectorSequence tsel = .ok (r.day, r.time, none))
    (hm : buildRulesModifier tmod = .ok (modVal r)) (op : RuleOp) :
    buildRuleSequence (.node .rule_sequence text [tsel, tmod]) op = .ok { joinRuleComments r with op := op } := by
  obtain ⟨h1, h2, h3, -⟩ := joinRuleComments_fields r
  have hc := comments_modVal r
  simp only [buildRuleSequence, assertRule, Tree.rule, Tree.kids, reduceIte, hs, hm, bind, Except.bind, hc]
  simp [modVal, h1, h2, h3]

theorem build_rule_sequence_plain (text : List Char) (tsel : T) (r : Rule)
    (hs : buildSelectorSequence tsel = .ok (r.day, r.time, none))
    (hk : r.kind = .open) (hcs : r.comments = []) (op : RuleOp) :
    buildRuleSequence (.node .rule_sequence text [tsel]) op = .ok { joinRuleComments r with op := op } := by
  obtain ⟨h1, h2, h3, -⟩ := joinRuleComments_fields r
  have hc : (joinRuleComments r).comments = [] := by simp [joinRuleComments, hcs]
  simp only [buildRuleSequence, assertRule, Tree.rule, Tree.kids, reduceIte, hs, bind, Except.bind]
  simp [h1, h2, h3, hc, hk, fromVec_nil]

/-! ### `rule_sequence` -/

theorem run_rule_sequence (r : Rule) (hok : okRuleSmall r = true)
    (hw : wideEmpty r.day = false → WideHyp r.day) (rest : List Char) (hf : FollowRule rest) :
    ∃ t eaten rest', AfterRule rest rest' ∧
      run g_rule_sequence false (Print.rule r ++ rest) = some ⟨[t], eaten, rest'⟩ ∧
      ∀ op, buildRuleSequence t op = .ok { joinRuleComments r with op := op } := by
  obtain ⟨hts, hwd, hcm⟩ := okSmall_of_rule r hok
  obtain ⟨c, cs, ehead, hstart⟩ := rule_head r hok hw
  have hla := run_rule_lookahead c (cs ++ rest) hstart
  have hla' : run (.notp (.seq (.opt g_space) (.alt g_any_rule_separator (.rule .EOI true .eoi)))) false
      (Print.rule r ++ rest) = some ⟨[], [], Print.rule r ++ rest⟩ := by
    rw [ehead]; exact hla
  by_cases hm : r.kind = .open ∧ r.comments = []
  · -- no modifier
    obtain ⟨sp, rest', hcut, hafter, hmod⟩ := cut_follow rest hf
    obtain ⟨tsel, hsel, hbsel⟩ := run_selector_space r hts hwd hw rest sp rest' hcut
    have emod : modText r = [] := by simp [modText, hm.1, hm.2]
    refine ⟨.node .rule_sequence (selText r ++ sp) [tsel], selText r ++ sp, rest', hafter, ?_,
      build_rule_sequence_plain _ tsel r hbsel hm.1 hm.2⟩
    have hbody : run (.seq g_selector_sequence (.seq (.opt g_space) (.opt g_rules_modifier))) false
        (selText r ++ rest) = some ⟨[tsel], selText r ++ sp, rest'⟩ := by
      rw [run_seq_assoc, run_seq, hsel]
      simp [hmod, R.append]
    rw [rule_eq, emod, List.append_nil] at hla' ⊢
    simp only [g_rule_sequence, run_rule, run_seq, Bool.or_self] at hbody ⊢
    simp only [hla', hbody]
    simp [R.append]
  · -- a modifier
    obtain ⟨body, c', emod, ⟨cs', ebody⟩, hc', tmod, hrm, hbm⟩ := parses_modText r hcm hm rest hf
    have hcut : Cut (modText r ++ rest) [' '] (body ++ rest) := by
      rw [emod, ebody]; exact .space c' _ hc'
    obtain ⟨tsel, hsel, hbsel⟩ := run_selector_space r hts hwd hw _ _ _ hcut
    refine ⟨.node .rule_sequence (Print.rule r) [tsel, tmod], Print.rule r, rest, afterRule_self rest hf, ?_,
      build_rule_sequence_mod _ tsel tmod r hbsel hbm⟩
    have hbody : run (.seq g_selector_sequence (.seq (.opt g_space) (.opt g_rules_modifier))) false
        (selText r ++ (modText r ++ rest)) = some ⟨[tsel, tmod], selText r ++ modText r, rest⟩ := by
      rw [run_seq_assoc, run_seq, hsel]
      simp [opt_some' hrm, R.append, emod]
    rw [rule_eq, List.append_assoc] at hla' ⊢
    simp only [g_rule_sequence, run_rule, run_seq, Bool.or_self] at hbody ⊢
    simp only [hla', hbody]
    simp [R.append]

end OH.Proofs.Syn
