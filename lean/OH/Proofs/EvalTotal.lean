import OH.Proofs.EvalSpecSel
/-
Totality of the day selectors of the evaluator model: under the parser's well-formedness predicates
(`OH.Model.ParserWF`), every selector's `filter` returns `.ok` — none of the modelled Rust panic
sites (`debug_assert!`s of `DateOffset::apply`, `easter`'s `expect`s, remainder by zero, `u8`
subtraction overflow, `nth` indexing, `count_days_in_month`'s `expect`) is reachable — for every
representable day (`NaiveDate::MIN ..= NaiveDate::MAX`) and with NO bound on the day offsets: they
may be any integer, `add_days_saturating` saturates at `minDay` / `maxDay`.
Core tactics only.
-/
namespace OH.Proofs.EvalSpec
open OH.Model OH.Model.Cal

/-! ### `DateOffset::apply` -/

/-- `DateOffset::apply` never trips its two `debug_assert!`s and stays representable, for any
(unbounded) day offset -/
theorem apply_total (o : DateOffset) (hw : o.wday.wf = true) (d : Int) (hd : minDay ≤ d ∧ d ≤ maxDay) :
    ∃ r, o.apply d = .ok r ∧ minDay ≤ r ∧ r ≤ maxDay := by
  have _ := hd
  exact ⟨_, apply_eq_shift o hw d, shift_repr o d⟩

/-! ### `date_on_year` -/

theorem easter_repr {y : Int} {r : Option Int} (h : easter y = .ok r) :
    ∀ p, r = some p → minDay ≤ p ∧ p ≤ maxDay := by
  unfold easter at h
  simp only [] at h
  split at h
  · cases h
  · split at h
    · cases h
    · intro p hp
      cases h
      exact ofYmd?_inRange hp

theorem firstValidBelow_repr (y : Int) (m : Nat) (succ : Bool) (n : Nat) :
    ∀ p, firstValidBelow y m succ n = some p → minDay ≤ p ∧ p ≤ maxDay := by
  induction n with
  | zero => intro p hp; simp [firstValidBelow] at hp
  | succ k ih =>
    intro p hp
    unfold firstValidBelow at hp
    split at hp
    · cases hp
    · split at hp
      · rename_i r hr
        cases succ with
        | false =>
          simp only [Bool.false_eq_true, if_false] at hp
          cases hp
          exact ofYmd?_inRange hr
        | true =>
          simp only [if_true] at hp
          split at hp
          · rename_i r' hr'
            cases hp
            have := ofYmd?_inRange hr
            rw [succ?_eq_some_iff] at hr'
            omega
          · exact ih p hp
      · exact ih p hp

theorem validYmdBefore_repr (y : Int) (m d : Nat) (p : Int) (h : validYmdBefore y m d = some p) :
    minDay ≤ p ∧ p ≤ maxDay := by
  unfold validYmdBefore at h
  split at h
  · rename_i r hr; cases h; exact ofYmd?_inRange hr
  · exact firstValidBelow_repr y m false (d - 1) p h

theorem validYmdAfter_repr (y : Int) (m d : Nat) (p : Int) (h : validYmdAfter y m d = some p) :
    minDay ≤ p ∧ p ≤ maxDay := by
  unfold validYmdAfter at h
  split at h
  · rename_i r hr; cases h; exact ofYmd?_inRange hr
  · exact firstValidBelow_repr y m true (d - 1) p h

theorem dateOnYear_total (ds : DateSpec) (y : Int) (after : Bool) :
    ∃ r, dateOnYear ds y after = .ok r ∧ ∀ p, r = some p → (minDay ≤ p ∧ p ≤ maxDay) := by
  have hv : ∀ yy m d p, (if after = true then validYmdAfter yy m d else validYmdBefore yy m d) = some p →
      minDay ≤ p ∧ p ≤ maxDay := by
    intro yy m d p hp
    cases after
    · exact validYmdBefore_repr yy m d p hp
    · exact validYmdAfter_repr yy m d p hp
  cases ds with
  | easter oy =>
    unfold dateOnYear
    simp only []
    obtain ⟨r, hr⟩ := easter_no_panic (match oy with | some y => (y : Int) | none => y)
    exact ⟨r, hr, easter_repr hr⟩
  | fixed oy m d =>
    cases oy with
    | none =>
      unfold dateOnYear
      exact ⟨_, rfl, fun p hp => hv y m d p hp⟩
    | some yy =>
      unfold dateOnYear
      simp only []
      split
      · exact ⟨_, rfl, fun p hp => hv yy m d p hp⟩
      · exact ⟨none, rfl, fun p hp => by cases hp⟩


/-! ### dated ranges -/

theorem boundsOn_total (ds : DateSpec) (off : DateOffset) (hw : off.wday.wf = true) (after : Bool)
    (ys : List Int) : ∃ l, boundsOn ds off after ys = .ok l := by
  induction ys with
  | nil => exact ⟨[], rfl⟩
  | cons y ys ih =>
    obtain ⟨rest, hrest⟩ := ih
    obtain ⟨r, hr, hp⟩ := dateOnYear_total ds y after
    unfold boundsOn
    simp only [hrest, hr, ok_bind, pure_eq_ok]
    cases r with
    | none => exact ⟨_, rfl⟩
    | some p =>
      obtain ⟨q, hq, _⟩ := apply_total off hw p (hp p rfl)
      simp only [hq, ok_bind]
      exact ⟨_, rfl⟩

theorem firstEndFrom_total (e : DateSpec) (eo : DateOffset) (hw : eo.wday.wf = true) (start : Int)
    (ys : List Int) :
    ∃ r, firstEndFrom e eo start ys = .ok r ∧ ∀ p, r = some p → (minDay ≤ p ∧ p ≤ maxDay) := by
  induction ys with
  | nil => exact ⟨none, rfl, fun p hp => by cases hp⟩
  | cons y ys ih =>
    obtain ⟨r, hr, hp⟩ := dateOnYear_total e y false
    unfold firstEndFrom
    simp only [hr, ok_bind, pure_eq_ok]
    cases r with
    | none => exact ih
    | some p =>
      obtain ⟨q, hq, hq'⟩ := apply_total eo hw p (hp p rfl)
      simp only [hq, ok_bind]
      split
      · exact ⟨some q, rfl, fun p hp => by cases hp; exact hq'⟩
      · exact ih

/-- `single_interval_from_bounds` is total and both ends of its interval are representable -/
theorem singleInterval_total (s : DateSpec) (so : DateOffset) (e : DateSpec) (eo : DateOffset)
    (hso : so.wday.wf = true) (heo : eo.wday.wf = true) :
    ∃ r, singleInterval s so e eo = .ok r ∧
      ∀ iv, r = some iv → (minDay ≤ iv.1 ∧ iv.1 ≤ maxDay) ∧ (minDay ≤ iv.2 ∧ iv.2 ≤ maxDay) := by
  unfold singleInterval
  cases dateYear s with
  | none => exact ⟨none, rfl, fun iv h => by cases h⟩
  | some sy =>
    simp only []
    obtain ⟨r, hr, hp⟩ := dateOnYear_total s sy true
    simp only [hr, ok_bind, pure_eq_ok]
    cases r with
    | none => exact ⟨none, rfl, fun iv h => by cases h⟩
    | some s0 =>
      obtain ⟨start, hst, hst'⟩ := apply_total so hso s0 (hp s0 rfl)
      simp only [hst, ok_bind]
      cases dateYear e with
      | some ey =>
        simp only []
        obtain ⟨r2, hr2, hp2⟩ := dateOnYear_total e ey false
        simp only [hr2, ok_bind]
        cases r2 with
        | none => exact ⟨none, rfl, fun iv h => by cases h⟩
        | some e0 =>
          obtain ⟨stop, hsp, hsp'⟩ := apply_total eo heo e0 (hp2 e0 rfl)
          simp only [hsp, ok_bind]
          exact ⟨_, rfl, fun iv h => by cases h; exact ⟨hst', hsp'⟩⟩
      | none =>
        simp only []
        obtain ⟨r3, hr3, hp3⟩ := firstEndFrom_total e eo heo start
          [yearBeforeOffset start eo - 1, yearBeforeOffset start eo, yearBeforeOffset start eo + 1,
            yearBeforeOffset start eo + 2]
        simp only [hr3, ok_bind]
        cases r3 with
        | some stop => exact ⟨_, rfl, fun iv h => by cases h; exact ⟨hst', hp3 stop rfl⟩⟩
        | none => exact ⟨_, rfl, fun iv h => by cases h; exact ⟨hst', repr_dateEnd⟩⟩

theorem singleDayFind_total (m dd : Nat) (so eo : DateOffset)
    (hso : so.wday.wf = true) (heo : eo.wday.wf = true) (d : Int) (ys : List Int) :
    ∃ r, singleDayFind m dd so eo d ys = .ok r ∧
      ∀ iv, r = some iv → (minDay ≤ iv.1 ∧ iv.1 ≤ maxDay) ∧ (minDay ≤ iv.2 ∧ iv.2 ≤ maxDay) := by
  induction ys with
  | nil => exact ⟨none, rfl, fun iv h => by cases h⟩
  | cons y ys ih =>
    unfold singleDayFind
    cases hf : ofYmd? y m dd with
    | none => exact ih
    | some f =>
      simp only []
      have hfr := ofYmd?_inRange hf
      obtain ⟨a, ha, ha'⟩ := apply_total so hso f hfr
      obtain ⟨b, hb, hb'⟩ := apply_total eo heo f hfr
      simp only [ha, hb, ok_bind, pure_eq_ok]
      split
      · exact ⟨_, rfl, fun iv h => by cases h; exact ⟨ha', hb'⟩⟩
      · exact ih

theorem monthdayFilter_total (r : MonthdayRange) (hwf : r.wf = true) (d : Int) :
    ∃ b, MonthdayRange.filter r d = .ok b := by
  cases r with
  | month lo hi yr => exact ⟨_, rfl⟩
  | date s so e eo =>
    simp only [MonthdayRange.wf, DateOffset.wf, Bool.and_eq_true] at hwf
    have hso : so.wday.wf = true := hwf.1.1.2.1
    have heo : eo.wday.wf = true := hwf.2.1
    clear hwf
    obtain ⟨r1, h1, -⟩ := singleInterval_total s so e eo hso heo
    have hb1 := boundsOn_total s so hso true (yearsAround (yearBeforeOffset d so) 2 2)
    have hb2 := boundsOn_total e eo heo false (yearsAround (yearBeforeOffset d eo) 2 2)
    have hsd := fun m dd ys => singleDayFind_total m dd so eo hso heo d ys
    unfold MonthdayRange.filter
    simp only []
    split
    · rename_i fy m dd _
      cases fy with
      | none =>
        obtain ⟨r2, h2, -⟩ := hsd m dd (yearsAround (yearBeforeOffset d eo) 1 8)
        simp only [h2, ok_bind]
        cases r2 <;> exact ⟨_, rfl⟩
      | some n =>
        obtain ⟨r2, h2, -⟩ := hsd m dd [(n : Int)]
        simp only [h2, ok_bind]
        cases r2 <;> exact ⟨_, rfl⟩
    · simp only [h1, ok_bind, pure_eq_ok]
      cases r1 with
      | some iv => exact ⟨_, rfl⟩
      | none =>
        obtain ⟨l1, e1⟩ := hb1
        obtain ⟨l2, e2⟩ := hb2
        simp only [e1, e2, ok_bind]
        exact ⟨_, rfl⟩

/-! ### year and week ranges -/

theorem yearFilter_total (r : YearRange) (hwf : r.wf = true) (d : Int) :
    ∃ b, YearRange.filter r d = .ok b := by
  simp only [YearRange.wf, Bool.and_eq_true, decide_eq_true_eq] at hwf
  unfold YearRange.filter
  simp only []
  split
  · exact ⟨_, rfl⟩
  · split
    · rw [if_neg (by omega)]; exact ⟨_, rfl⟩
    · exact ⟨_, rfl⟩

theorem weekFilter_total (r : WeekRange) (hwf : r.wf = true) (d : Int) :
    ∃ b, WeekRange.filter r d = .ok b := by
  simp only [WeekRange.wf, Bool.and_eq_true, decide_eq_true_eq] at hwf
  unfold WeekRange.filter
  simp only []
  split
  · rw [if_neg (by omega)]; exact ⟨_, rfl⟩
  · exact ⟨_, rfl⟩

/-! ### weekday and holiday ranges -/

theorem wdayFixedSimple_total (lo hi : Nat) (off : Int) (ns ne : List Bool) (d : Int)
    (hns : ns.length = 5) (hne : ne.length = 5) (hd : minDay ≤ d ∧ d ≤ maxDay) :
    ∃ b, wdayFixedSimple lo hi off ns ne d = .ok b := by
  have _ := hd
  have hr := addDaysSat_repr d (satNeg off)
  unfold wdayFixedSimple
  generalize addDaysSat d (satNeg off) = d' at hr
  simp only [countDaysInMonth_eq _ hr.1 hr.2, ok_bind, pure_eq_ok]
  have hb := dayOfMonth_bounds d'
  have hm := daysInMonth_bounds (year d') (Cal.month d')
  rw [if_neg (by omega)]
  split
  · rw [nthGet_ok _ _ _ (by omega), nthGet_ok _ _ _ (by omega)]
    simp only [ok_bind]
    split <;> exact ⟨_, rfl⟩
  · exact ⟨_, rfl⟩

theorem weekdayFilter_total (ctx : Ctx) (r : WeekDayRange) (hwf : r.wf = true) (d : Int)
    (hd : minDay ≤ d ∧ d ≤ maxDay) : ∃ b, WeekDayRange.filter ctx r d = .ok b := by
  cases r with
  | holiday k off => exact ⟨_, rfl⟩
  | fixed lo hi off ns ne =>
    simp only [WeekDayRange.wf, Bool.and_eq_true, decide_eq_true_eq, beq_iff_eq] at hwf
    obtain ⟨b1, h1⟩ := wdayFixedSimple_total lo 6 off ns ne d hwf.1.2 hwf.2 hd
    obtain ⟨b2, h2⟩ := wdayFixedSimple_total 0 hi off ns ne d hwf.1.2 hwf.2 hd
    obtain ⟨b3, h3⟩ := wdayFixedSimple_total lo hi off ns ne d hwf.1.2 hwf.2 hd
    unfold WeekDayRange.filter
    simp only [h1, h2, h3, ok_bind, pure_eq_ok]
    split
    · split <;> exact ⟨_, rfl⟩
    · exact ⟨_, rfl⟩

/-! ### selectors -/

theorem anyM_total {α} (f : α → M Bool) (l : List α) (h : ∀ x ∈ l, ∃ b, f x = .ok b) :
    ∃ b, anyM f l = .ok b := by
  induction l with
  | nil => exact ⟨false, rfl⟩
  | cons x xs ih =>
    obtain ⟨b, hb⟩ := h x (by simp)
    have ih' := ih (fun y hy => h y (by simp [hy]))
    simp only [anyM, hb, ok_bind, pure_eq_ok]
    cases b
    · simpa using ih'
    · exact ⟨true, rfl⟩

theorem listFilter_total {α} (f : α → M Bool) (l : List α) (h : ∀ x ∈ l, ∃ b, f x = .ok b) :
    ∃ b, listFilter f l = .ok b := by
  unfold listFilter
  split
  · exact ⟨true, rfl⟩
  · exact anyM_total f l h

theorem daySelectorFilter_total (ctx : Ctx) (s : DaySelector) (hwf : s.wf = true) (d : Int)
    (hd : minDay ≤ d ∧ d ≤ maxDay) : ∃ b, DaySelector.filter ctx s d = .ok b := by
  simp only [DaySelector.wf, Bool.and_eq_true, List.all_eq_true] at hwf
  obtain ⟨⟨⟨wy, wm⟩, ww⟩, wd⟩ := hwf
  obtain ⟨b1, e1⟩ := listFilter_total (fun (r : YearRange) => r.filter d) s.year
    (fun r hr => yearFilter_total r (wy r hr) d)
  obtain ⟨b2, e2⟩ := listFilter_total (fun (r : MonthdayRange) => r.filter d) s.monthday
    (fun r hr => monthdayFilter_total r (wm r hr) d)
  obtain ⟨b3, e3⟩ := listFilter_total (fun (r : WeekRange) => r.filter d) s.week
    (fun r hr => weekFilter_total r (ww r hr) d)
  obtain ⟨b4, e4⟩ := listFilter_total (fun (r : WeekDayRange) => r.filter ctx d) s.weekday
    (fun r hr => weekdayFilter_total ctx r (wd r hr) d hd)
  unfold DaySelector.filter
  simp only [e1, e2, e3, e4, ok_bind]
  cases b1 <;> cases b2 <;> cases b3 <;> exact ⟨_, rfl⟩

end OH.Proofs.EvalSpec
