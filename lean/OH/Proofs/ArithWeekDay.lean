/-
Helper lemmas for OH/Props/ArithC01WeekDay.lean: the generated `WeekDayRange.filter` (rs2lean.py, [weekday extension])
against the evaluator model `OH.Model.WeekDayRange.filter`.
-/
import OH.Generated.Arith
import OH.Proofs.RustInt
import OH.Proofs.RustDated
import OH.Proofs.Calendar
import OH.Props.ArithC01Offset
import OH.Props.ArithC01Range
import OH.Props.ArithC01WeekDays
import OH.Model.Eval
namespace OH.Proofs.ArithWeekDay
set_option linter.unusedSimpArgs false
set_option linter.unusedVariables false
open OH.Model.RustInt
open OH.Model.RustChrono
open OH.Generated.Arith
open OH.Model.Cal
open OH.Props.ArithC01WeekDays (AgreeP countDaysInMonth_agree)

/-- the generated outcome and the model outcome agree: the same truth value, or a panic / overflow outcome exactly where
the model has its error -/
inductive AgreeB : R Bool → Except String Bool → Prop
  | value (b : Bool) : AgreeB (.ok b) (.ok b)
  | error (e : Err) (s : String) : AgreeB (.error e) (.error s)

theorem wrappingContains_cast (lo hi x : Nat) :
    OH.Model.wrappingContains (lo : Int) (hi : Int) (x : Int) = OH.Model.wrappingContains lo hi x := by
  simp only [OH.Model.wrappingContains, Int.ofNat_le]

theorem countDays_le (d : Int) (n : Nat) (h : OH.Model.countDaysInMonth d = .ok n) : n ≤ 255 := by
  unfold OH.Model.countDaysInMonth at h
  cases e : addOneMonth? d with
  | none => rw [e] at h; simp only [] at h; cases h; omega
  | some nxt =>
    rw [e] at h
    simp only [] at h
    split at h
    · cases h; omega
    · cases h

/-- the non-wrapping case: one level of the generated function is the model's `wdayFixedSimple` -/
theorem simple_agree (fuel : Nat) (lo hi : Nat) (h : lo ≤ hi) (off : Int) (ns ne : Vector Bool 5) (d : Int)
    (pc sc : Int → Bool) :
    AgreeB (WeekDayRange.filter (fuel + 1) (.Fixed ⟨lo, hi⟩ off ns ne) d pc sc)
      (OH.Model.wdayFixedSimple lo hi off ns.toList ne.toList d) := by
  have hn : ¬ ((lo : Int) > (hi : Int)) := by omega
  simp only [WeekDayRange.filter, hn, decide_false, Bool.false_eq_true, if_false, OH.Proofs.RustDated.saturatingNeg_i64,
    OH.Props.ArithC01Offset.addDaysSat_eq_model, bnd, OH.Model.wdayFixedSimple, Chrono.day, Chrono.weekday]
  generalize OH.Model.addDaysSat d (OH.Model.satNeg off) = d'
  have hb := dayOfMonth_bounds d'
  have hm := daysInMonth_bounds (year d') (month d')
  have hw := weekday_lt d'
  generalize dayOfMonth d' = dom at hb ⊢
  generalize weekday d' = wd at hw ⊢
  rw [wrap_id (by in_range), sub_ok (by in_range)]
  have hc := countDaysInMonth_agree d'
  generalize Dates.count_days_in_month d' = g at hc ⊢
  have hle := countDays_le d'
  generalize OH.Model.countDaysInMonth d' = mo at hc hle ⊢
  cases hc with
  | panic msg e => exact .error _ _
  | value n =>
    simp only [bind, Except.bind, pure, Except.pure]
    by_cases hlt : n < dom
    · rw [sub_overflow (by in_range), if_pos hlt]; exact .error _ _
    · have hbig : n ≤ 255 := hle n rfl
      rw [sub_ok (by in_range), if_neg hlt]
      simp only [OH.Props.ArithC01Range.wrappingContains_eq_model, wrappingContains_cast, OH.Model.nthGet]
      have e1 : (((dom : Int) - 1) / 7).toNat = (dom - 1) / 7 := by omega
      have e2 : (((n : Int) - (dom : Int)) / 7).toNat = (n - dom) / 7 := by omega
      rw [e1, e2]
      cases OH.Model.wrappingContains lo hi wd
      · exact .value _
      · simp only [if_true]
        cases ns.toList[(dom - 1) / 7]? with
        | none => exact .error _ _
        | some b =>
          cases b
          · simp only [Bool.false_eq_true, if_false]
            cases ne.toList[(n - dom) / 7]? with
            | none => exact .error _ _
            | some b2 => exact .value _
          · exact .value _

/-- the generated `HolidayKind` of a model one -/
def genKind : OH.Model.HolidayKind → HolidayKind
  | .pub => .Public
  | .school => .School

/-- a wrapping range: two recursive calls on ranges that do not wrap -/
theorem wrap_agree (fuel : Nat) (lo hi : Nat) (hlo : lo ≤ 6) (h : lo > hi) (off : Int) (ns ne : Vector Bool 5) (d : Int)
    (pc sc : Int → Bool) (ctx : OH.Model.Ctx) :
    AgreeB (WeekDayRange.filter (fuel + 2) (.Fixed ⟨lo, hi⟩ off ns ne) d pc sc)
      (OH.Model.WeekDayRange.filter ctx (.fixed lo hi off ns.toList ne.toList) d) := by
  have h1 : AgreeB (WeekDayRange.filter (fuel + 1) (.Fixed ⟨(lo : Int), 6⟩ off ns ne) d pc sc)
      (OH.Model.wdayFixedSimple lo 6 off ns.toList ne.toList d) := simple_agree fuel lo 6 hlo off ns ne d pc sc
  have h2 : AgreeB (WeekDayRange.filter (fuel + 1) (.Fixed ⟨0, (hi : Int)⟩ off ns ne) d pc sc)
      (OH.Model.wdayFixedSimple 0 hi off ns.toList ne.toList d) := simple_agree fuel 0 hi (Nat.zero_le _) off ns ne d pc sc
  have hg : ((lo : Int) > (hi : Int)) := by omega
  rw [WeekDayRange.filter]
  simp only [hg, decide_true, if_true, OH.Model.WeekDayRange.filter, if_pos h, bind, Except.bind, pure, Except.pure]
  generalize WeekDayRange.filter (fuel + 1) (.Fixed ⟨(lo : Int), 6⟩ off ns ne) d pc sc = g1 at h1 ⊢
  generalize OH.Model.wdayFixedSimple lo 6 off ns.toList ne.toList d = m1 at h1 ⊢
  generalize WeekDayRange.filter (fuel + 1) (.Fixed ⟨0, (hi : Int)⟩ off ns ne) d pc sc = g2 at h2 ⊢
  generalize OH.Model.wdayFixedSimple 0 hi off ns.toList ne.toList d = m2 at h2 ⊢
  cases h1 with
  | error e s => exact .error _ _
  | value b =>
    cases b
    · simp only [bnd, Bool.false_eq_true, if_false]
      cases h2 with
      | error e s => exact .error _ _
      | value b2 => exact .value _
    · exact .value _
