import OH.Proofs.SentWeek
/-
C05, wide-range selectors of SENTENCES, part 3a: the pieces of a month-day range as sentences write
them: month and weekday names, `daynum` with one digit, with a leading zero, and with its look-ahead
kept as a hypothesis on the context (a `:` may follow a day number in a sentence: `Jan 5: Mo`),
`date_from` with its optional spaces (`2020Jan5`, `2020 Jan 05`), `date_offset` with day offsets in
either spelling, `date_to` from a date or from a bare day number (`Jan 5-10`) with the roll-over of
`build_date_to`.
-/
namespace OH.Proofs.Sent.Wide
open OH.Model OH.Model.Peg OH.Model.Parser OH.Generated.Grammar OH.Proofs.Syn OH.Proofs.Syn.Wide
open OH.Spec.Sent (Num Small DayOff SDate SOffset commaList yearPrefix optOff sp monthName wdayName)

/-! ### names -/

theorem monthName_eq (m : Nat) : monthName m = Print.monthStr m :=
  match m with
  | 0 => rfl | 1 => rfl | 2 => rfl | 3 => rfl | 4 => rfl | 5 => rfl | 6 => rfl | 7 => rfl | 8 => rfl
  | 9 => rfl | 10 => rfl | 11 => rfl | _ + 12 => rfl

theorem wdayName_eq (w : Nat) : wdayName w = Print.wdayStr w :=
  match w with
  | 0 => rfl | 1 => rfl | 2 => rfl | 3 => rfl | 4 => rfl | 5 => rfl | _ + 6 => rfl

theorem monthWf_iff (m : Nat) : OH.Spec.Sent.monthWf m = true ↔ 1 ≤ m ∧ m ≤ 12 := by
  simp [OH.Spec.Sent.monthWf]

/-! ### optional spaces -/

theorem run_opt_space (b : Bool) (X : List Char) (h : ∀ r, X ≠ ' ' :: r) :
    run (.opt (.str [' ']) : G) false (sp b ++ X) = some ⟨[], sp b, X⟩ := by
  cases b with
  | true => simp [sp, peg]
  | false =>
    simp only [sp, Bool.false_eq_true, if_false, List.nil_append]
    exact opt_none (str1_none false ' ' X h)

theorem run_opt_gspace (b : Bool) (X : List Char) (h : ∀ r, X ≠ ' ' :: r) :
    run (.opt g_space) false (sp b ++ X) = some ⟨[], sp b, X⟩ := run_opt_space b X h

/-- what follows starts with a character that is not a space -/
theorem ne_space_of_head {c : Char} {cs X : List Char} (hc : c ≠ ' ') (e : X = c :: cs) :
    ∀ r, X ≠ ' ' :: r := by
  intro r h; rw [e] at h; cases h; exact hc rfl

/-! ### `daynum = @{ daynum_digits ~ !(":" ~ minute ~ !(":" ~ minute)) }` -/

/-- the expression under the look-ahead of `daynum` -/
def lookE : G := .seq (.str [':']) (.seq g_minute (.notp (.seq (.str [':']) g_minute)))

/-- re-checked against the generated grammar -/
theorem g_daynum_eq : g_daynum = .rule .daynum true (.seq g_daynum_digits (.notp lookE)) := rfl

/-- the context of a written day number: no digit, and the look-ahead of `daynum` finds no
`:MM` that is not itself followed by `:MM` (weaker than `Syn.Wide.DayFollow`, which forbids `:`) -/
def DayFollowS (rest : List Char) : Prop := NoDigit rest ∧ run lookE true rest = none

theorem lookE_none_of_not_colon (rest : List Char) (h : ∀ r, rest ≠ ':' :: r) :
    run lookE true rest = none := seq_none_left (str1_none true ':' rest h)

theorem DayFollowS_of_DayFollow (rest : List Char) (h : DayFollow rest) : DayFollowS rest :=
  ⟨h.1, lookE_none_of_not_colon rest h.2⟩

/-- a context that starts with a character that is neither a digit nor `:` -/
theorem DayFollowS_cons (c : Char) (r : List Char) (h1 : ¬ ('0' ≤ c ∧ c ≤ '9')) (h2 : c ≠ ':') :
    DayFollowS (c :: r) :=
  ⟨NoDigit_cons c r h1, lookE_none_of_not_colon _ (by intro r' e; cases e; exact h2 rfl)⟩

theorem DayFollowS_nil : DayFollowS [] :=
  ⟨NoDigit_nil, lookE_none_of_not_colon _ (by intro r' e; cases e)⟩

def dnTree (d : Small) : T := .node .daynum d.render []

@[simp] theorem dnTree_rule (d : Small) : (dnTree d).rule = .daynum := rfl

theorem run_daynum_digits (d : Small) (hd : 1 ≤ d.val ∧ d.val ≤ 31) (rest : List Char)
    (hnd : NoDigit rest) :
    run g_daynum_digits true (d.render ++ rest) = some ⟨[], d.render, rest⟩ := by
  have h09 := range_none_of_NoDigit true rest hnd '0' '9' (by decide) (by decide)
  have h01 := range_none_of_NoDigit true rest hnd '0' '1' (by decide) (by decide)
  have d3 : dc 3 = '3' := by decide
  have d0 : dc 0 = '0' := by decide
  rcases small_render_cases d (by omega) with ⟨h10, e⟩ | e
  · -- one digit
    rw [e]
    have n0 := dc_ne0 d.val h10 hd.1
    have h19 := dc_19 d.val h10 hd.1
    by_cases h3 : d.val = 3
    · rw [h3]
      simp [g_daynum_digits, peg, d3, h01]
    · have n3 := dc_ne3 d.val h10 h3
      by_cases h12 : d.val < 3
      · have h1 := dc_12 d.val h12 hd.1
        simp [g_daynum_digits, peg, h1, h09, n3, n0, h19]
      · have h1 := dc_not12 d.val h10 (by omega)
        simp [g_daynum_digits, peg, h1, n3, n0, h19]
  · rw [e, pad2_lt100 d.val (by omega)]
    by_cases h10 : d.val < 10
    · -- a leading zero
      have e1 : d.val / 10 = 0 := by omega
      have e2 : d.val % 10 = d.val := by omega
      have h19 := dc_19 d.val h10 hd.1
      simp [g_daynum_digits, peg, e1, e2, d0, h19]
    · have h2 := dc_digit (d.val % 10) (by omega)
      by_cases h30 : d.val < 30
      · have h1 := dc_12 (d.val / 10) (by omega) (by omega)
        simp [g_daynum_digits, peg, h1, h2]
      · have e1 : d.val / 10 = 3 := by omega
        have h2' := dc_le1 (d.val % 10) (by omega)
        simp [g_daynum_digits, peg, e1, d3, h2']

theorem run_dn (q : Bool) (d : Small) (hd : 1 ≤ d.val ∧ d.val ≤ 31) (rest : List Char)
    (hf : DayFollowS rest) :
    run g_daynum q (d.render ++ rest) =
      some (if q then ⟨[], d.render, rest⟩ else ⟨[dnTree d], d.render, rest⟩) := by
  have h1 := run_daynum_digits d hd rest hf.1
  simp only [g_daynum_eq, run_rule, run_seq, run_notp, Bool.or_true, h1, hf.2, dnTree]
  cases q <;> simp [R.append, R.nil]

theorem build_dn (d : Small) (hd : 1 ≤ d.val ∧ d.val ≤ 31) : buildDaynum (dnTree d) = .ok d.val := by
  have h1 : d.val < u8Bound := by unfold u8Bound; omega
  have h2 : d.val ≠ 0 := by omega
  have h3 : ¬ d.val > 31 := by omega
  simp [buildDaynum, dnTree, assertRule, parseBounded, natOfDigits_small d (by omega), h1, h2, h3, bind,
    Except.bind]

/-- one or two digits followed by something that is not a digit are not a year -/
theorem run_year_none_one (q : Bool) (a : Char) (X : List Char) (hX : NoDigit X) :
    run g_year q (a :: X) = none := by
  cases X with
  | nil => by_cases h29 : '2' ≤ a ∧ a ≤ '9' <;> simp [g_year, PExpr.rep, peg, h29]
  | cons c r =>
    have hc := hX c r rfl
    have n9 : '9' ≠ c := by intro h; subst h; exact hc (by decide)
    by_cases h29 : '2' ≤ a ∧ a ≤ '9' <;> simp [g_year, PExpr.rep, peg, n9, hc, h29]

theorem run_year_none_two (q : Bool) (a b : Char) (X : List Char) (hX : NoDigit X) :
    run g_year q (a :: b :: X) = none := by
  have h09 : run (.range '0' '9' : G) true X = none :=
    range_none_of_NoDigit true X hX '0' '9' (by decide) (by decide)
  by_cases h1 : a = '1'
  · subst h1
    by_cases h9 : b = '9'
    · subst h9
      simp [g_year, PExpr.rep, peg, h09]
    · have h9' : '9' ≠ b := Ne.symm h9
      simp [g_year, PExpr.rep, peg, h9']
  · have h1' : '1' ≠ a := Ne.symm h1
    by_cases h29 : '2' ≤ a ∧ a ≤ '9' <;> by_cases hb : '0' ≤ b ∧ b ≤ '9' <;>
      simp [g_year, PExpr.rep, peg, h09, h29, hb, h1']

theorem run_year_none_small (q : Bool) (d : Small) (hd : d.val < 100) (X : List Char) (hX : NoDigit X) :
    run g_year q (d.render ++ X) = none := by
  rcases small_render_cases d hd with ⟨h10, e⟩ | e
  · rw [e]; exact run_year_none_one q _ X hX
  · rw [e, pad2_lt100 d.val hd]; exact run_year_none_two q _ _ X hX

/-! ### `date_from = { (year ~ " "?)? ~ month ~ " "? ~ daynum | (year ~ " "?)? ~ variable_date }` -/

theorem yearPrefixWf_iff (y : Option (Nat × Bool)) :
    OH.Spec.Sent.yearPrefixWf y = true ↔ okYearOpt (yearPrefix y).2 = true := by
  cases y with
  | none => simp [OH.Spec.Sent.yearPrefixWf, yearPrefix, okYearOpt]
  | some p => obtain ⟨y, s⟩ := p; simp [OH.Spec.Sent.yearPrefixWf, yearPrefix, okYearOpt, yearWf_iff]

/-- `(year ~ " "?)?` on a written year prefix (present or not) -/
theorem run_year_prefix (y : Option (Nat × Bool)) (hy : OH.Spec.Sent.yearPrefixWf y = true)
    (X : List Char) (hsp : ∀ r, X ≠ ' ' :: r) (hyn : run g_year false X = none) :
    run (.opt (.seq g_year (.opt (.str [' ']))) : G) false ((yearPrefix y).1 ++ X)
      = some ⟨yearKids (yearPrefix y).2, (yearPrefix y).1, X⟩ := by
  cases y with
  | none =>
    simp only [yearPrefix, yearKids, List.nil_append]
    exact opt_none (seq_none_left hyn)
  | some p =>
    obtain ⟨y, s⟩ := p
    have hy' : 1900 ≤ y ∧ y ≤ 9999 := by
      simpa [OH.Spec.Sent.yearPrefixWf, yearWf_iff] using hy
    have h1 := run_year false y hy' (sp s ++ X)
    have h2 := run_opt_space s X hsp
    simp only [yearPrefix, yearKids, dec_eq_natStr, List.append_assoc]
    simp only [run_opt, run_seq, h1, Bool.false_eq_true, if_false, h2, R.append]
    simp

def sdTree : SDate → T
  | .fixed y m s d =>
    .node .date_from (SDate.render (.fixed y m s d)) (yearKids (yearPrefix y).2 ++ [monthTree m, dnTree d])
  | .easter y => .node .date_from (SDate.render (.easter y)) (yearKids (yearPrefix y).2 ++ [easterTree])

@[simp] theorem sdTree_rule (d : SDate) : (sdTree d).rule = .date_from := by
  cases d <;> rfl

theorem monthStr_ne_space (m : Nat) (X : List Char) : ∀ r, Print.monthStr m ++ X ≠ ' ' :: r := by
  obtain ⟨c, cs, e, hc⟩ := monthStr_head m
  have : c ≠ ' ' := by
    rcases hc with h | h | h | h | h | h | h | h <;> subst h <;> decide
  intro r h
  rw [e] at h
  cases h
  exact this rfl

theorem small_ne_space (d : Small) (hd : d.val < 100) (X : List Char) : ∀ r, d.render ++ X ≠ ' ' :: r := by
  obtain ⟨c, cs, e, hc⟩ := small_head d hd
  intro r h
  rw [e] at h
  cases h
  exact absurd hc.1 (by decide)

theorem run_sdate_fixed (y : Option (Nat × Bool)) (m : Nat) (s : Bool) (d : Small)
    (hy : OH.Spec.Sent.yearPrefixWf y = true) (hm : 1 ≤ m ∧ m ≤ 12) (hd : 1 ≤ d.val ∧ d.val ≤ 31)
    (X : List Char) (hf : DayFollowS X) :
    run g_date_from false ((SDate.fixed y m s d).render ++ X) =
      some ⟨[sdTree (.fixed y m s d)], (SDate.fixed y m s d).render, X⟩ := by
  have hpre := run_year_prefix y hy (Print.monthStr m ++ (sp s ++ (d.render ++ X)))
    (monthStr_ne_space m _) (run_year_none_month false m _)
  have hmon := run_month m hm (sp s ++ (d.render ++ X))
  have hsp := run_opt_space s (d.render ++ X) (small_ne_space d (by omega) X)
  have hday := run_dn false d hd X hf
  simp only [SDate.render, sdTree, monthName_eq, List.append_assoc]
  simp only [g_date_from, run_rule, run_alt, run_seq, Bool.or_self, hpre, hmon, hsp, hday, R.append]
  simp

theorem run_sdate_easter (y : Option (Nat × Bool)) (hy : OH.Spec.Sent.yearPrefixWf y = true)
    (X : List Char) :
    run g_date_from false ((SDate.easter y).render ++ X) =
      some ⟨[sdTree (.easter y)], (SDate.easter y).render, X⟩ := by
  have hmn : ∀ r, run g_month false ('e' :: r) = none := fun r =>
    run_month_none_head false 'e' r (by simp [MonthLetter])
  have hyn : ∀ r, run g_year false ('e' :: r) = none := fun r =>
    run_year_none false _ (by intro c r' h; cases h; decide)
  have hpre := run_year_prefix y hy ('e' :: 'a' :: 's' :: 't' :: 'e' :: 'r' :: X)
    (by intro r h; cases h) (hyn _)
  have hvd : run g_variable_date false ('e' :: 'a' :: 's' :: 't' :: 'e' :: 'r' :: X)
      = some ⟨[easterTree], ['e', 'a', 's', 't', 'e', 'r'], X⟩ := by
    simp [g_variable_date, peg, easterTree]
  have e : OH.Spec.Sent.t "easter" = ['e', 'a', 's', 't', 'e', 'r'] := rfl
  simp only [SDate.render, sdTree, e, List.append_assoc, List.cons_append, List.nil_append]
  simp only [g_date_from, run_rule, run_alt, run_seq, Bool.or_self, hpre, hmn, hvd, R.append]
  simp

theorem smallWf31 {d : Small} (h : d.wf 31 = true) : 1 ≤ d.val ∧ d.val ≤ 31 := (smallWf_iff 31 d).mp h

theorem run_sdate (d : SDate) (hd : d.wf = true) (X : List Char) (hf : DayFollowS X) :
    run g_date_from false (d.render ++ X) = some ⟨[sdTree d], d.render, X⟩ := by
  cases d with
  | fixed y m s d =>
    simp only [OH.Spec.Sent.SDate.wf, Bool.and_eq_true, monthWf_iff] at hd
    exact run_sdate_fixed y m s d hd.1.1 hd.1.2 (smallWf31 hd.2) X hf
  | easter y => exact run_sdate_easter y hd X

theorem build_sdate (d : SDate) (hd : d.wf = true) : buildDateFrom (sdTree d) = .ok d.denote := by
  cases d with
  | fixed y m s d =>
    simp only [OH.Spec.Sent.SDate.wf, Bool.and_eq_true, monthWf_iff] at hd
    have hbm := build_month m hd.1.2
    have hbd := build_dn d (smallWf31 hd.2)
    cases y with
    | none =>
      simp [buildDateFrom, sdTree, yearPrefix, yearKids, assertRule, hbm, hbd, SDate.denote, bind,
        Except.bind]
    | some p =>
      obtain ⟨y, s0⟩ := p
      have hy' : 1900 ≤ y ∧ y ≤ 9999 := by
        simpa [OH.Spec.Sent.yearPrefixWf, yearWf_iff] using hd.1.1
      simp [buildDateFrom, sdTree, yearPrefix, yearKids, assertRule, build_year y hy'.2, hbm, hbd,
        SDate.denote, bind, Except.bind]
  | easter y =>
    cases y with
    | none =>
      simp [buildDateFrom, sdTree, yearPrefix, yearKids, easterTree, assertRule, SDate.denote, bind,
        Except.bind]
    | some p =>
      obtain ⟨y, s0⟩ := p
      have hy' : 1900 ≤ y ∧ y ≤ 9999 := by
        simpa [OH.Spec.Sent.SDate.wf, OH.Spec.Sent.yearPrefixWf, yearWf_iff] using hd
      simp [buildDateFrom, sdTree, yearPrefix, yearKids, easterTree, assertRule, build_year y hy'.2,
        SDate.denote, bind, Except.bind]

theorem parses_sdate (d : SDate) (hd : d.wf = true) (X : List Char) (hf : DayFollowS X) :
    ParsesTo g_date_from buildDateFrom d.render X d.denote :=
  ⟨sdTree d, run_sdate d hd X hf, build_sdate d hd⟩

/-- a written date starts with a year digit, a month letter or `e`; without a year: a letter -/
theorem sdate_head (d : SDate) (hd : d.wf = true) :
    ∃ c cs, d.render = c :: cs ∧ MdStartChar c ∧ (d.hasYear = false → MonthLetter c ∨ c = 'e') := by
  have hyear : ∀ (p : Nat × Bool) (X : List Char), OH.Spec.Sent.yearPrefixWf (some p) = true →
      ∃ c cs, (yearPrefix (some p)).1 ++ X = c :: cs ∧ '1' ≤ c ∧ c ≤ '9' := by
    intro p X hp
    obtain ⟨y, s⟩ := p
    have hy' : 1900 ≤ y ∧ y ≤ 9999 := by
      simpa [OH.Spec.Sent.yearPrefixWf, yearWf_iff] using hp
    obtain ⟨c, cs, e, hc⟩ := natStr_year_head y hy'
    exact ⟨c, cs ++ (sp s ++ X), by simp only [yearPrefix, dec_eq_natStr, e]; simp, hc⟩
  cases d with
  | fixed y m s d =>
    simp only [OH.Spec.Sent.SDate.wf, Bool.and_eq_true] at hd
    cases y with
    | none =>
      obtain ⟨c, cs, e, hc⟩ := monthStr_head m
      exact ⟨c, cs ++ (sp s ++ d.render), by
        simp only [SDate.render, yearPrefix, monthName_eq, e]; simp,
        Or.inr (Or.inl hc), fun _ => Or.inl hc⟩
    | some p =>
      obtain ⟨c, cs, e, hc⟩ := hyear p (monthName m ++ sp s ++ d.render) hd.1.1
      exact ⟨c, cs, by simp only [SDate.render, List.append_assoc] at e ⊢; exact e, Or.inl hc,
        fun h => by simp [SDate.hasYear] at h⟩
  | easter y =>
    cases y with
    | none =>
      exact ⟨'e', ['a', 's', 't', 'e', 'r'], rfl, Or.inr (Or.inr rfl), fun _ => Or.inr rfl⟩
    | some p =>
      obtain ⟨c, cs, e, hc⟩ := hyear p (OH.Spec.Sent.t "easter") hd
      exact ⟨c, cs, by simp only [SDate.render] at e ⊢; exact e, Or.inl hc,
        fun h => by simp [SDate.hasYear] at h⟩

theorem sdate_ne_space (d : SDate) (hd : d.wf = true) (X : List Char) : ∀ r, d.render ++ X ≠ ' ' :: r := by
  obtain ⟨c, cs, e, hc, _⟩ := sdate_head d hd
  intro r h
  rw [e] at h
  cases h
  exact MdStartChar_ne_space hc rfl

/-- the text of a date that starts with a year -/
theorem sdate_year_text (d : SDate) (hd : d.wf = true) (hy : d.hasYear = true) :
    ∃ y t, (1900 ≤ y ∧ y ≤ 9999) ∧ d.render = Print.natStr y ++ t := by
  have key : ∀ (y : Option (Nat × Bool)) (X : List Char), OH.Spec.Sent.yearPrefixWf y = true →
      y.isSome = true → ∃ v t, (1900 ≤ v ∧ v ≤ 9999) ∧ (yearPrefix y).1 ++ X = Print.natStr v ++ t := by
    intro y X hp hs
    cases y with
    | none => simp at hs
    | some p =>
      obtain ⟨v, s⟩ := p
      have hv : 1900 ≤ v ∧ v ≤ 9999 := by
        simpa [OH.Spec.Sent.yearPrefixWf, yearWf_iff] using hp
      exact ⟨v, sp s ++ X, hv, by simp only [yearPrefix, dec_eq_natStr, List.append_assoc]⟩
  cases d with
  | fixed y m s d =>
    simp only [OH.Spec.Sent.SDate.wf, Bool.and_eq_true] at hd
    obtain ⟨v, t, hv, e⟩ := key y (monthName m ++ sp s ++ d.render) hd.1.1 hy
    exact ⟨v, t, hv, by simp only [SDate.render, List.append_assoc] at e ⊢; exact e⟩
  | easter y =>
    obtain ⟨v, t, hv, e⟩ := key y (OH.Spec.Sent.t "easter") hd hy
    exact ⟨v, t, hv, by simp only [SDate.render] at e ⊢; exact e⟩

theorem sdate_hasYear (d : SDate) : DateSpec.hasYear d.denote = d.hasYear := by
  cases d with
  | fixed y m s d => cases y <;> simp [SDate.denote, SDate.hasYear, DateSpec.hasYear, yearPrefix]
  | easter y => cases y <;> simp [SDate.denote, SDate.hasYear, DateSpec.hasYear, yearPrefix]

/-- no weekday name starts a written date -/
theorem run_wd_none_sdate (d : SDate) (hd : d.wf = true) (X : List Char) :
    run g_wday false (d.render ++ X) = none := by
  obtain ⟨c, cs, e, hc, hl⟩ := sdate_head d hd
  by_cases hy : d.hasYear = true
  · rw [e]
    apply run_wd_none_head
    rcases hc with h | h | h
    · refine ⟨?_, ?_, ?_, ?_, ?_⟩ <;> (intro h'; subst h'; exact absurd h.2 (by decide))
    · exfalso
      obtain ⟨y, t, hv, e'⟩ := sdate_year_text d hd hy
      obtain ⟨c', cs', ec, hc'⟩ := natStr_year_head y hv
      rw [e', ec] at e
      cases e
      rcases h with h | h | h | h | h | h | h | h <;> (subst h; exact absurd hc'.2 (by decide))
    · subst h; decide
  · cases d with
    | fixed y m s d =>
      cases y with
      | none =>
        simp only [SDate.render, yearPrefix, monthName_eq, List.nil_append, List.append_assoc]
        exact run_wd_none_month false m _
      | some p => simp [SDate.hasYear] at hy
    | easter y =>
      cases y with
      | none => exact run_wd_none_head false 'e' _ (by decide)
      | some p => simp [SDate.hasYear] at hy

/-! ### `date_offset = { plus_or_minus ~ wday ~ day_offset | plus_or_minus ~ wday | day_offset }` -/

/-- the pairs `buildMonthdayRange` finds for an optional date offset `d`: none (the neutral offset),
or one `date_offset` pair that builds to `d` -/
def OffK (k : List T) (d : DateOffset) : Prop :=
  (k = [] ∧ d = noOffset) ∨ ∃ t, k = [t] ∧ t.rule = .date_offset ∧ buildDateOffset t = .ok d

theorem optOffWf_some {o : DayOff} (h : OH.Spec.Sent.optOffWf (some o) = true) : o.wf = true := h

/-- a written date offset that is present: one `date_offset` pair -/
theorem run_soffset_some (o : SOffset) (ho : o.wf = true) (hne : o ≠ .none) (inp : List Char)
    (H1 : run g_day_offset false inp = none) (H2 : ∀ r, inp ≠ 's' :: r) :
    ∃ t, run g_date_offset false (o.render ++ inp) = some ⟨[t], o.render, inp⟩ ∧
      t.rule = .date_offset ∧ buildDateOffset t = .ok o.denote := by
  cases o with
  | none => exact absurd rfl hne
  | days off =>
    obtain ⟨t, hrun, hb⟩ := parses_dayoff off ho inp H2
    have hr := parses_dayoff_rule hb
    obtain ⟨c, r, e, _⟩ := dayoff_head off
    have hpm : run g_plus_or_minus false (off.render ++ inp) = none := by
      rw [e]
      exact run_pm_none false _ (fun _ h => by cases h) (fun _ h => by cases h)
    refine ⟨.node .date_offset off.render [t], ?_, rfl, ?_⟩
    · simp only [SOffset.render]
      simp only [g_date_offset, run_rule, run_alt, run_seq, Bool.or_self, hpm, hrun]
      simp
    · simp [buildDateOffset, assertRule, hr, hb, SOffset.denote, bind, Except.bind]
  | wday neg w off =>
    simp only [OH.Spec.Sent.SOffset.wf, Bool.and_eq_true, decide_eq_true_eq] at ho
    have hwd := run_wd w ho.1
    have hbw := build_wd w ho.1
    have hpm : ∀ X, run g_plus_or_minus false ((if neg then '-' else '+') :: X)
        = some ⟨[pmTree (!neg)], [if neg then '-' else '+'], X⟩ := by
      intro X
      cases neg with
      | true => exact run_pm_minus X
      | false => exact run_pm_plus X
    cases off with
    | none =>
      refine ⟨.node .date_offset (SOffset.render (.wday neg w none)) [pmTree (!neg), wdTree w], ?_, rfl, ?_⟩
      · simp only [SOffset.render, optOff, wdayName_eq, List.append_nil, List.cons_append,
          List.nil_append]
        simp only [g_date_offset, run_rule, run_alt, run_seq, R.append, Bool.or_self, hpm, hwd, H1]
        simp
      · cases neg <;>
          simp [buildDateOffset, assertRule, build_pm_plus, build_pm_minus, hbw, SOffset.denote, optOff,
            bind, Except.bind]
    | some off =>
      obtain ⟨t, hrun, hb⟩ := parses_dayoff off (optOffWf_some ho.2) inp H2
      have hr := parses_dayoff_rule hb
      refine ⟨.node .date_offset (SOffset.render (.wday neg w (some off))) [pmTree (!neg), wdTree w, t],
        ?_, rfl, ?_⟩
      · simp only [SOffset.render, optOff, wdayName_eq, List.cons_append, List.nil_append,
          List.append_assoc]
        simp only [g_date_offset, run_rule, run_alt, run_seq, R.append, Bool.or_self, hpm, hwd, hrun]
        simp
      · cases neg <;>
          simp [buildDateOffset, assertRule, build_pm_plus, build_pm_minus, hbw, hb, SOffset.denote, optOff,
            bind, Except.bind]

/-- `date_offset` fails: no sign-and-weekday, no day offset -/
theorem run_date_offset_none' (inp : List Char) (H1 : run g_day_offset false inp = none)
    (H3 : run (.seq g_plus_or_minus g_wday) false inp = none) : run g_date_offset false inp = none := by
  have ha1 : run (.seq g_plus_or_minus (.seq g_wday g_day_offset)) false inp = none := by
    rw [← run_seq_reassoc]; exact seq_none_left H3
  simp only [g_date_offset, run_rule, run_alt, Bool.or_self, ha1, H3, H1]

/-- the optional date offset, present or not -/
theorem run_soffset (o : SOffset) (ho : o.wf = true) (inp : List Char)
    (H1 : run g_day_offset false inp = none) (H2 : ∀ r, inp ≠ 's' :: r)
    (H3 : run (.seq g_plus_or_minus g_wday) false inp = none) :
    ∃ k, run (.opt g_date_offset) false (o.render ++ inp) = some ⟨k, o.render, inp⟩ ∧
      OffK k o.denote := by
  by_cases hne : o = .none
  · subst hne
    refine ⟨[], ?_, Or.inl ⟨rfl, rfl⟩⟩
    simp only [SOffset.render, List.nil_append]
    exact opt_none (run_date_offset_none' inp H1 H3)
  · obtain ⟨t, hrun, hr, hb⟩ := run_soffset_some o ho hne inp H1 H2
    exact ⟨[t], opt_some hrun, Or.inr ⟨t, rfl, hr, hb⟩⟩

/-- a written date offset is empty or starts with `+`, `-` or a space -/
theorem soffset_head (o : SOffset) :
    o.render = [] ∧ o = .none ∨ ∃ c r, o.render = c :: r ∧ (c = ' ' ∨ c = '+' ∨ c = '-') := by
  cases o with
  | none => exact Or.inl ⟨rfl, rfl⟩
  | days off =>
    obtain ⟨c, r, e, _⟩ := dayoff_head off
    exact Or.inr ⟨' ', _, e, Or.inl rfl⟩
  | wday neg w off =>
    refine Or.inr ⟨if neg then '-' else '+', _, rfl, ?_⟩
    cases neg <;> simp

/-- … so that a day number may precede it -/
theorem soffset_dayFollow (o : SOffset) (X : List Char) (hX : DayFollowS X) :
    DayFollowS (o.render ++ X) := by
  rcases soffset_head o with ⟨e, _⟩ | ⟨c, r, e, hc⟩
  · rw [e]; exact hX
  · rw [e]
    apply DayFollowS_cons
    · rcases hc with h | h | h <;> subst h <;> decide
    · rcases hc with h | h | h <;> subst h <;> decide

/-- … and that the `" day"` test of `NoDayWord` passes on it -/
def NoDayWord (Z : List Char) : Prop := ∀ r, Z ≠ ' ' :: 'd' :: 'a' :: 'y' :: r

theorem soffset_noDayWord (o : SOffset) (X : List Char) (hX : NoDayWord X) :
    NoDayWord (o.render ++ X) := by
  cases o with
  | none => exact hX
  | days off =>
    obtain ⟨c, r, e, hc⟩ := dayoff_head off
    intro r' h
    simp only [SOffset.render] at h
    rw [e] at h
    simp only [List.cons_append, List.cons.injEq] at h
    have h1 := h.2.1
    rcases hc with h | h <;> (subst h; exact absurd h1 (by decide))
  | wday neg w off =>
    intro r' h
    cases neg <;> cases h

/-! ### `day_offset` fails on a space and the `-` of a range (`Jan 5 -10`, `Jan 5 - Feb 10`) -/

/-- `positive_number` needs a digit -/
theorem run_pn_none_head (q : Bool) (inp : List Char) (h : NoDigit inp) :
    run g_positive_number q inp = none := by
  have hz := run_zeros_star true 0 inp (by
    intro r e; exact h '0' r e (by decide))
  have h19 := range_none_of_NoDigit true inp h '1' '9' (by decide) (by decide)
  simp only [List.replicate_zero, List.nil_append] at hz
  simp [g_positive_number, peg, hz, h19]

theorem run_day_offset_none_pn (X : List Char) (h : run g_positive_number false X = none) :
    run g_day_offset false (' ' :: '-' :: X) = none := by
  simp [g_day_offset, g_space, peg, run_pm_minus, h]

/-- the number is read, but no ` day` follows it -/
theorem run_day_offset_none_num (n : Num) (hn : 0 < n.val) (Z : List Char) (hnd : NoDigit Z)
    (hz : NoDayWord Z) : run g_day_offset false (' ' :: '-' :: (n.render ++ Z)) = none := by
  have hpn := run_positive_number_num false n hn Z hnd
  have hday : run (.seq g_space (.seq (.str ['d', 'a', 'y']) (.opt (.str ['s']))) : G) false Z = none := by
    cases Z with
    | nil => simp [g_space, peg]
    | cons c r =>
      by_cases hc : c = ' '
      · subst hc
        cases r with
        | nil => simp [g_space, peg]
        | cons c1 r1 =>
          by_cases h1 : c1 = 'd'
          · subst h1
            cases r1 with
            | nil => simp [g_space, peg]
            | cons c2 r2 =>
              by_cases h2 : c2 = 'a'
              · subst h2
                cases r2 with
                | nil => simp [g_space, peg]
                | cons c3 r3 =>
                  have h3 : 'y' ≠ c3 := by intro h; subst h; exact hz r3 rfl
                  simp [g_space, peg, h3]
              · simp [g_space, peg, Ne.symm h2]
          · simp [g_space, peg, Ne.symm h1]
      · simp [g_space, peg, Ne.symm hc]
  simp only [g_day_offset, run_rule, run_seq, Bool.or_self, g_space, run_str, stripPrefix_cons_cons,
    stripPrefix_nil, if_true, Option.map_some, run_pm_minus, hpn, Bool.false_eq_true, if_false] at hday ⊢
  simp [hday]

/-- a `Small` is a number with at most one leading zero -/
theorem small_as_num (d : Small) (hd : 1 ≤ d.val ∧ d.val < 100) :
    ∃ n : Num, n.val = d.val ∧ n.render = d.render := by
  rcases small_render_cases d hd.2 with ⟨h10, e⟩ | e
  · exact ⟨⟨d.val, 0⟩, rfl, by rw [e, num_render_eq, natStr_lt10 d.val h10]; rfl⟩
  · by_cases h10 : d.val < 10
    · refine ⟨⟨d.val, 1⟩, rfl, ?_⟩
      have d0 : dc 0 = '0' := by decide
      rw [e, num_render_eq, natStr_lt10 d.val h10, pad2_lt100 d.val hd.2]
      have e1 : d.val / 10 = 0 := by omega
      have e2 : d.val % 10 = d.val := by omega
      simp [e1, e2, d0]
    · refine ⟨⟨d.val, 0⟩, rfl, ?_⟩
      rw [e, num_render_eq]
      simp [Print.pad2, h10]

/-- `Jan 5 -10`: the space and the `-` are not the start of a day offset, because no ` day` follows
the number -/
theorem run_day_offset_none_dash_small (d : Small) (hd : 1 ≤ d.val ∧ d.val < 100) (Z : List Char)
    (hnd : NoDigit Z) (hz : NoDayWord Z) :
    run g_day_offset false (' ' :: '-' :: (d.render ++ Z)) = none := by
  obtain ⟨n, hv, e⟩ := small_as_num d hd
  rw [← e]
  exact run_day_offset_none_num n (by omega) Z hnd hz

theorem NoDayWord_cons (c : Char) (r : List Char) (h : c ≠ ' ') : NoDayWord (c :: r) := by
  intro r' e; cases e; exact h rfl

theorem NoDayWord_space (c : Char) (r : List Char) (h : c ≠ 'd') : NoDayWord (' ' :: c :: r) := by
  intro r' e; cases e; exact h rfl

/-- `Jan 5 -Feb 10`, `Jan 5 -2020 Feb 10`, `Jan 5 -easter`: the same for a date -/
theorem run_day_offset_none_dash_sdate (d : SDate) (hd : d.wf = true) (Z : List Char) :
    run g_day_offset false (' ' :: '-' :: (d.render ++ Z)) = none := by
  have hmonth : ∀ m X, NoDigit (monthName m ++ X) ∧ NoDayWord (monthName m ++ X) ∧
      ∀ b, NoDayWord (sp b ++ (monthName m ++ X)) := by
    intro m X
    obtain ⟨c, cs, e, hc⟩ := monthStr_head m
    have h1 : ¬ ('0' ≤ c ∧ c ≤ '9') ∧ c ≠ ' ' ∧ c ≠ 'd' := by
      rcases hc with h | h | h | h | h | h | h | h <;> subst h <;> decide
    rw [monthName_eq, e]
    refine ⟨NoDigit_cons _ _ h1.1, NoDayWord_cons _ _ h1.2.1, ?_⟩
    intro b
    cases b with
    | true => exact NoDayWord_space _ _ h1.2.2
    | false => exact NoDayWord_cons _ _ h1.2.1
  have heaster : ∀ X, NoDigit (OH.Spec.Sent.t "easter" ++ X) ∧ NoDayWord (OH.Spec.Sent.t "easter" ++ X) ∧
      ∀ b, NoDayWord (sp b ++ (OH.Spec.Sent.t "easter" ++ X)) := by
    intro X
    refine ⟨NoDigit_cons 'e' _ (by decide), NoDayWord_cons 'e' _ (by decide), ?_⟩
    intro b
    cases b with
    | true => exact NoDayWord_space 'e' _ (by decide)
    | false => exact NoDayWord_cons 'e' _ (by decide)
  -- after an optional year prefix comes `W` (a month name or `easter`)
  have key : ∀ (y : Option (Nat × Bool)) (W : List Char), OH.Spec.Sent.yearPrefixWf y = true →
      NoDigit W → (∀ b, NoDayWord (sp b ++ W)) →
      run g_day_offset false (' ' :: '-' :: ((yearPrefix y).1 ++ W)) = none := by
    intro y W hy hW1 hW2
    cases y with
    | none => exact run_day_offset_none_pn _ (run_pn_none_head false _ hW1)
    | some p =>
      obtain ⟨y, s⟩ := p
      have hy' : 1900 ≤ y ∧ y ≤ 9999 := by
        simpa [OH.Spec.Sent.yearPrefixWf, yearWf_iff] using hy
      have hnd : NoDigit (sp s ++ W) := by
        cases s with
        | true => exact NoDigit_space _
        | false => exact hW1
      have := run_day_offset_none_num ⟨y, 0⟩ (by show 0 < y; omega) (sp s ++ W) hnd (hW2 s)
      simpa [yearPrefix, num_render_eq, dec_eq_natStr] using this
  cases d with
  | fixed y m s d =>
    simp only [OH.Spec.Sent.SDate.wf, Bool.and_eq_true] at hd
    obtain ⟨h1, _, h3⟩ := hmonth m (sp s ++ d.render ++ Z)
    have := key y (monthName m ++ (sp s ++ d.render ++ Z)) hd.1.1 h1 h3
    simpa [SDate.render, List.append_assoc] using this
  | easter y =>
    obtain ⟨h1, _, h3⟩ := heaster Z
    have := key y (OH.Spec.Sent.t "easter" ++ Z) hd h1 h3
    simpa [SDate.render, List.append_assoc] using this

/-! ### `date_to = { date_from | daynum }` -/

theorem run_dateto_sdate (e : SDate) (he : e.wf = true) (X : List Char) (hf : DayFollowS X) :
    run g_date_to false (e.render ++ X) = some ⟨[.node .date_to e.render [sdTree e]], e.render, X⟩ := by
  simp only [g_date_to, run_rule, run_alt, Bool.or_self, run_sdate e he X hf]
  simp

theorem build_dateto_sdate (e : SDate) (he : e.wf = true) (frm : DateSpec) :
    buildDateTo (.node .date_to e.render [sdTree e]) frm = .ok e.denote := by
  simp [buildDateTo, assertRule, build_sdate e he, bind, Except.bind]

/-- `date_from` fails on a bare day number -/
theorem run_date_from_none_small (d : Small) (hd : d.val < 100) (X : List Char) (hX : NoDigit X) :
    run g_date_from false (d.render ++ X) = none := by
  have hy := run_year_none_small false d hd X hX
  obtain ⟨c, cs, e, hc⟩ := small_head d hd
  have hml : ¬ MonthLetter c := by
    intro h
    rcases h with h | h | h | h | h | h | h | h <;> (subst h; exact absurd hc.2 (by decide))
  have hm : run g_month false (d.render ++ X) = none := by
    rw [e]; exact run_month_none_head false c _ hml
  have he : 'e' ≠ c := by intro h; subst h; exact absurd hc.2 (by decide)
  have hv : run g_variable_date false (d.render ++ X) = none := by
    rw [e]; simp [g_variable_date, peg, he]
  simp [g_date_from, peg, hy, hm, hv]

theorem run_dateto_small (d : Small) (hd : 1 ≤ d.val ∧ d.val ≤ 31) (X : List Char) (hf : DayFollowS X) :
    run g_date_to false (d.render ++ X) = some ⟨[.node .date_to d.render [dnTree d]], d.render, X⟩ := by
  simp only [g_date_to, run_rule, run_alt, Bool.or_self, run_date_from_none_small d (by omega) X hf.1,
    run_dn false d hd X hf]
  simp

/-- the end of `Jan 5-10`: the roll-over of `build_date_to` -/
def toDayEnd (yv : Option Nat) (m dv d2v : Nat) : DateSpec :=
  let m2 := if dv > d2v then m % 12 + 1 else m
  let y2 := if dv > d2v && m2 == 1 then yv.map (· + 1) else yv
  .fixed y2 m2 d2v

theorem build_dateto_small (d2 : Small) (hd : 1 ≤ d2.val ∧ d2.val ≤ 31) (yv : Option Nat) (m dv : Nat)
    (hm : 1 ≤ m ∧ m ≤ 12)
    (hov : ¬ (dv > d2.val ∧ m = 12 ∧ ∃ v, yv = some v ∧ v ≥ 9999)) :
    buildDateTo (.node .date_to d2.render [dnTree d2]) (.fixed yv m dv) = .ok (toDayEnd yv m dv d2.val) := by
  have hb := build_dn d2 hd
  by_cases hgt : dv > d2.val
  · by_cases h12 : m = 12
    · subst h12
      cases yv with
      | none =>
        simp [buildDateTo, assertRule, hb, hgt, monthNext, toDayEnd, bind, Except.bind]
      | some v =>
        have hv : ¬ v ≥ 9999 := fun h => hov ⟨hgt, rfl, v, rfl, h⟩
        simp [buildDateTo, assertRule, hb, hgt, monthNext, toDayEnd, hv, bind, Except.bind]
    · have hne : ¬ m % 12 = 0 := by omega
      simp [buildDateTo, assertRule, hb, hgt, monthNext, toDayEnd, hne, bind, Except.bind]
  · simp [buildDateTo, assertRule, hb, hgt, toDayEnd, bind, Except.bind]

end OH.Proofs.Sent.Wide
