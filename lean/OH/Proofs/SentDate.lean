import OH.Proofs.SentWeek
/-
C05, wide-range selectors of SENTENCES, part 3a: the pieces of a month-day range as sentences write
them: month and weekday names, `daynum` with one digit, with a leading zero, and with its look-ahead
kept as a hypothesis on the context (a `:` may follow a day number in a sentence: `Jan 5: Mo`),
`date_from` with its optional spaces (`2020Jan5`, `2020 Jan 05`), `date_offset` with day offsets in
either spelling, `date_to` from a date or from a bare day number (`Jan 5-10`) with the roll-over of
`build_date_to`.
-/
namespace OH.Proofs.Sent.Wide
open OH.Model OH.Model.Peg OH.Model.Parser OH.Generated.Grammar OH.Proofs.Syn OH.Proofs.Syn.Wide
open OH.Spec.Sent (Num Small DayOff SDate SOffset commaList yearPrefix optOff sp monthName wdayName)

/-! ### names -/

theorem monthName_eq (m : Nat) : monthName m = Print.monthStr m := by
  unfold monthName Print.monthStr OH.Spec.Sent.t Print.str
  split <;> rfl

theorem wdayName_eq (w : Nat) : wdayName w = Print.wdayStr w := by
  unfold wdayName Print.wdayStr OH.Spec.Sent.t Print.str
  split <;> rfl

theorem monthWf_iff (m : Nat) : OH.Spec.Sent.monthWf m = true ↔ 1 ≤ m ∧ m ≤ 12 := by
  simp [OH.Spec.Sent.monthWf]

/-! ### optional spaces -/

theorem run_opt_space (b : Bool) (X : List Char) (h : ∀ r, X ≠ ' ' :: r) :
    run (.opt (.str [' ']) : G) false (sp b ++ X) = some ⟨[], sp b, X⟩ := by
  cases b with
  | true => simp [sp, peg]
  | false =>
    simp only [sp, Bool.false_eq_true, if_false, List.nil_append]
    exact opt_none (str1_none false ' ' X h)

theorem run_opt_gspace (b : Bool) (X : List Char) (h : ∀ r, X ≠ ' ' :: r) :
    run (.opt g_space) false (sp b ++ X) = some ⟨[], sp b, X⟩ := run_opt_space b X h

/-- what follows starts with a character that is not a space -/
theorem ne_space_of_head {c : Char} {cs X : List Char} (hc : c ≠ ' ') (e : X = c :: cs) :
    ∀ r, X ≠ ' ' :: r := by
  intro r h; rw [e] at h; cases h; exact hc rfl

/-! ### `daynum = @{ daynum_digits ~ !(":" ~ minute ~ !(":" ~ minute)) }` -/

/-- the expression under the look-ahead of `daynum` -/
def lookE : G := .seq (.str [':']) (.seq g_minute (.notp (.seq (.str [':']) g_minute)))

/-- re-checked against the generated grammar -/
theorem g_daynum_eq : g_daynum = .rule .daynum true (.seq g_daynum_digits (.notp lookE)) := rfl

/-- the context of a written day number: no digit, and the look-ahead of `daynum` finds no
`:MM` that is not itself followed by `:MM` (weaker than `Syn.Wide.DayFollow`, which forbids `:`) -/
def DayFollowS (rest : List Char) : Prop := NoDigit rest ∧ run lookE true rest = none

theorem lookE_none_of_not_colon (rest : List Char) (h : ∀ r, rest ≠ ':' :: r) :
    run lookE true rest = none := seq_none_left (str1_none true ':' rest h)

theorem DayFollowS_of_DayFollow (rest : List Char) (h : DayFollow rest) : DayFollowS rest :=
  ⟨h.1, lookE_none_of_not_colon rest h.2⟩

/-- a context that starts with a character that is neither a digit nor `:` -/
theorem DayFollowS_cons (c : Char) (r : List Char) (h1 : ¬ ('0' ≤ c ∧ c ≤ '9')) (h2 : c ≠ ':') :
    DayFollowS (c :: r) :=
  ⟨NoDigit_cons c r h1, lookE_none_of_not_colon _ (by intro r' e; cases e; exact h2 rfl)⟩

theorem DayFollowS_nil : DayFollowS [] :=
  ⟨NoDigit_nil, lookE_none_of_not_colon _ (by intro r' e; cases e)⟩

def dnTree (d : Small) : T := .node .daynum d.render []

@[simp] theorem dnTree_rule (d : Small) : (dnTree d).rule = .daynum := rfl

theorem run_daynum_digits (d : Small) (hd : 1 ≤ d.val ∧ d.val ≤ 31) (rest : List Char)
    (hnd : NoDigit rest) :
    run g_daynum_digits true (d.render ++ rest) = some ⟨[], d.render, rest⟩ := by
  have h09 := range_none_of_NoDigit true rest hnd '0' '9' (by decide) (by decide)
  have h01 := range_none_of_NoDigit true rest hnd '0' '1' (by decide) (by decide)
  have d3 : dc 3 = '3' := by decide
  have d0 : dc 0 = '0' := by decide
  rcases small_render_cases d (by omega) with ⟨h10, e⟩ | e
  · -- one digit
    rw [e]
    have n0 := dc_ne0 d.val h10 hd.1
    have h19 := dc_19 d.val h10 hd.1
    by_cases h3 : d.val = 3
    · rw [h3]
      simp [g_daynum_digits, peg, d3, h01]
    · have n3 := dc_ne3 d.val h10 h3
      by_cases h12 : d.val < 3
      · have h1 := dc_12 d.val h12 hd.1
        simp [g_daynum_digits, peg, h1, h09, n3, n0, h19]
      · have h1 := dc_not12 d.val h10 (by omega)
        simp [g_daynum_digits, peg, h1, n3, n0, h19]
  · rw [e, pad2_lt100 d.val (by omega)]
    by_cases h10 : d.val < 10
    · -- a leading zero
      have e1 : d.val / 10 = 0 := by omega
      have e2 : d.val % 10 = d.val := by omega
      have h19 := dc_19 d.val h10 hd.1
      simp [g_daynum_digits, peg, e1, e2, d0, h19]
    · have h2 := dc_digit (d.val % 10) (by omega)
      by_cases h30 : d.val < 30
      · have h1 := dc_12 (d.val / 10) (by omega) (by omega)
        simp [g_daynum_digits, peg, h1, h2]
      · have e1 : d.val / 10 = 3 := by omega
        have h2' := dc_le1 (d.val % 10) (by omega)
        simp [g_daynum_digits, peg, e1, d3, h2']

theorem run_dn (q : Bool) (d : Small) (hd : 1 ≤ d.val ∧ d.val ≤ 31) (rest : List Char)
    (hf : DayFollowS rest) :
    run g_daynum q (d.render ++ rest) =
      some (if q then ⟨[], d.render, rest⟩ else ⟨[dnTree d], d.render, rest⟩) := by
  have h1 := run_daynum_digits d hd rest hf.1
  simp only [g_daynum_eq, run_rule, run_seq, run_notp, Bool.or_true, h1, hf.2, dnTree]
  cases q <;> simp [R.append, R.nil]

theorem build_dn (d : Small) (hd : 1 ≤ d.val ∧ d.val ≤ 31) : buildDaynum (dnTree d) = .ok d.val := by
  have h1 : d.val < u8Bound := by unfold u8Bound; omega
  have h2 : d.val ≠ 0 := by omega
  have h3 : ¬ d.val > 31 := by omega
  simp [buildDaynum, dnTree, assertRule, parseBounded, natOfDigits_small d (by omega), h1, h2, h3, bind,
    Except.bind]

/-- one or two digits followed by something that is not a digit are not a year -/
theorem run_year_none_small (q : Bool) (d : Small) (hd : d.val < 100) (X : List Char) (hX : NoDigit X) :
    run g_year q (d.render ++ X) = none := by
  have h09 : ∀ q', run (.range '0' '9' : G) q' X = none := fun q' =>
    range_none_of_NoDigit q' X hX '0' '9' (by decide) (by decide)
  rcases small_render_cases d hd with ⟨h10, e⟩ | e
  · rw [e]
    cases X with
    | nil => simp [g_year, PExpr.rep, peg]
    | cons c r =>
      have hc := hX c r rfl
      have n9 : '9' ≠ c := by intro h; subst h; exact hc (by decide)
      simp [g_year, PExpr.rep, peg, n9, hc]
  · rw [e, pad2_lt100 d.val hd]
    simp [g_year, PExpr.rep, peg, h09]

/-! ### `date_from = { (year ~ " "?)? ~ month ~ " "? ~ daynum | (year ~ " "?)? ~ variable_date }` -/

theorem yearPrefixWf_iff (y : Option (Nat × Bool)) :
    OH.Spec.Sent.yearPrefixWf y = true ↔ okYearOpt (yearPrefix y).2 = true := by
  cases y with
  | none => simp [OH.Spec.Sent.yearPrefixWf, yearPrefix, okYearOpt]
  | some p => obtain ⟨y, s⟩ := p; simp [OH.Spec.Sent.yearPrefixWf, yearPrefix, okYearOpt, yearWf_iff]

/-- `(year ~ " "?)?` on a written year prefix (present or not) -/
theorem run_year_prefix (y : Option (Nat × Bool)) (hy : OH.Spec.Sent.yearPrefixWf y = true)
    (X : List Char) (hsp : ∀ r, X ≠ ' ' :: r) (hyn : run g_year false X = none) :
    run (.opt (.seq g_year (.opt (.str [' ']))) : G) false ((yearPrefix y).1 ++ X)
      = some ⟨yearKids (yearPrefix y).2, (yearPrefix y).1, X⟩ := by
  cases y with
  | none =>
    simp only [yearPrefix, yearKids, List.nil_append]
    exact opt_none (seq_none_left hyn)
  | some p =>
    obtain ⟨y, s⟩ := p
    have hy' : 1900 ≤ y ∧ y ≤ 9999 := by
      simpa [OH.Spec.Sent.yearPrefixWf, yearWf_iff] using hy
    have h1 := run_year false y hy' (sp s ++ X)
    have h2 := run_opt_space s X hsp
    simp only [yearPrefix, yearKids, dec_eq_natStr, List.append_assoc]
    simp only [run_opt, run_seq, h1, Bool.false_eq_true, if_false, h2, R.append]
    simp

def sdTree : SDate → T
  | .fixed y m s d =>
    .node .date_from (SDate.render (.fixed y m s d)) (yearKids (yearPrefix y).2 ++ [monthTree m, dnTree d])
  | .easter y => .node .date_from (SDate.render (.easter y)) (yearKids (yearPrefix y).2 ++ [easterTree])

@[simp] theorem sdTree_rule (d : SDate) : (sdTree d).rule = .date_from := by
  cases d <;> rfl

theorem monthStr_ne_space (m : Nat) (X : List Char) : ∀ r, Print.monthStr m ++ X ≠ ' ' :: r := by
  obtain ⟨c, cs, e, hc⟩ := monthStr_head m
  have : c ≠ ' ' := by
    rcases hc with h | h | h | h | h | h | h | h <;> subst h <;> decide
  intro r h
  rw [e] at h
  cases h
  exact this rfl

theorem small_ne_space (d : Small) (hd : d.val < 100) (X : List Char) : ∀ r, d.render ++ X ≠ ' ' :: r := by
  obtain ⟨c, cs, e, hc⟩ := small_head d hd
  intro r h
  rw [e] at h
  cases h
  exact absurd hc.1 (by decide)

theorem run_sdate_fixed (y : Option (Nat × Bool)) (m : Nat) (s : Bool) (d : Small)
    (hy : OH.Spec.Sent.yearPrefixWf y = true) (hm : 1 ≤ m ∧ m ≤ 12) (hd : 1 ≤ d.val ∧ d.val ≤ 31)
    (X : List Char) (hf : DayFollowS X) :
    run g_date_from false ((SDate.fixed y m s d).render ++ X) =
      some ⟨[sdTree (.fixed y m s d)], (SDate.fixed y m s d).render, X⟩ := by
  have hpre := run_year_prefix y hy (Print.monthStr m ++ (sp s ++ (d.render ++ X)))
    (monthStr_ne_space m _) (run_year_none_month false m _)
  have hmon := run_month m hm (sp s ++ (d.render ++ X))
  have hsp := run_opt_space s (d.render ++ X) (small_ne_space d (by omega) X)
  have hday := run_dn false d hd X hf
  simp only [SDate.render, sdTree, monthName_eq, List.append_assoc]
  simp only [g_date_from, run_rule, run_alt, run_seq, Bool.or_self, hpre, hmon, hsp, hday, R.append]
  simp

theorem run_sdate_easter (y : Option (Nat × Bool)) (hy : OH.Spec.Sent.yearPrefixWf y = true)
    (X : List Char) :
    run g_date_from false ((SDate.easter y).render ++ X) =
      some ⟨[sdTree (.easter y)], (SDate.easter y).render, X⟩ := by
  have hmn : ∀ r, run g_month false ('e' :: r) = none := fun r =>
    run_month_none_head false 'e' r (by simp [MonthLetter])
  have hyn : ∀ r, run g_year false ('e' :: r) = none := fun r =>
    run_year_none false _ (by intro c r' h; cases h; decide)
  have hpre := run_year_prefix y hy ('e' :: 'a' :: 's' :: 't' :: 'e' :: 'r' :: X)
    (by intro r h; cases h) (hyn _)
  have hvd : run g_variable_date false ('e' :: 'a' :: 's' :: 't' :: 'e' :: 'r' :: X)
      = some ⟨[easterTree], ['e', 'a', 's', 't', 'e', 'r'], X⟩ := by
    simp [g_variable_date, peg, easterTree]
  have e : OH.Spec.Sent.t "easter" = ['e', 'a', 's', 't', 'e', 'r'] := rfl
  simp only [SDate.render, sdTree, e, List.append_assoc, List.cons_append, List.nil_append]
  simp only [g_date_from, run_rule, run_alt, run_seq, Bool.or_self, hpre, hmn, hvd, R.append]
  simp

theorem smallWf31 {d : Small} (h : d.wf 31 = true) : 1 ≤ d.val ∧ d.val ≤ 31 := (smallWf_iff 31 d).mp h

theorem run_sdate (d : SDate) (hd : d.wf = true) (X : List Char) (hf : DayFollowS X) :
    run g_date_from false (d.render ++ X) = some ⟨[sdTree d], d.render, X⟩ := by
  cases d with
  | fixed y m s d =>
    simp only [OH.Spec.Sent.SDate.wf, Bool.and_eq_true, monthWf_iff] at hd
    exact run_sdate_fixed y m s d hd.1.1 hd.1.2 (smallWf31 hd.2) X hf
  | easter y => exact run_sdate_easter y hd X

theorem build_year_kids (y : Option Nat) (hy : okYearOpt y = true) (text : List Char) (tail : List T)
    (ht : ∀ t ∈ tail.head?, t.rule ≠ .year) :
    (match yearKids y ++ tail with
      | y :: rest =>
        if y.rule = .year then do let v ← buildYear y; (.ok (some v, rest) : PM (Option Nat × List T))
        else .ok (none, y :: rest)
      | [] => .ok (none, [])) = .ok (y, tail) := by
  cases y with
  | none =>
    cases tail with
    | nil => rfl
    | cons t l =>
      have := ht t (by simp)
      simp [yearKids, this]
  | some y =>
    simp only [okYearOpt, decide_eq_true_eq] at hy
    simp [yearKids, build_year y hy.2, bind, Except.bind]

theorem build_sdate (d : SDate) (hd : d.wf = true) : buildDateFrom (sdTree d) = .ok d.denote := by
  cases d with
  | fixed y m s d =>
    simp only [OH.Spec.Sent.SDate.wf, Bool.and_eq_true, monthWf_iff] at hd
    have hy := (yearPrefixWf_iff y).mp hd.1.1
    have hk := build_year_kids (yearPrefix y).2 hy [] [monthTree m, dnTree d] (by simp)
    simp only [buildDateFrom, sdTree, tr_kids, tr_rule, assertRule, if_true, hk, bind, Except.bind]
    simp [build_month m hd.1.2, build_dn d (smallWf31 hd.2), SDate.denote, bind, Except.bind]
  | easter y =>
    have hy := (yearPrefixWf_iff y).mp hd
    have hk := build_year_kids (yearPrefix y).2 hy [] [easterTree] (by simp [easterTree])
    simp only [buildDateFrom, sdTree, tr_kids, tr_rule, assertRule, if_true, hk, bind, Except.bind]
    simp [easterTree, SDate.denote]

theorem parses_sdate (d : SDate) (hd : d.wf = true) (X : List Char) (hf : DayFollowS X) :
    ParsesTo g_date_from buildDateFrom d.render X d.denote :=
  ⟨sdTree d, run_sdate d hd X hf, build_sdate d hd⟩

/-- a written date starts with a year digit, a month letter or `e`; without a year: a letter -/
theorem sdate_head (d : SDate) (hd : d.wf = true) :
    ∃ c cs, d.render = c :: cs ∧ MdStartChar c ∧ (d.hasYear = false → MonthLetter c ∨ c = 'e') := by
  have hyear : ∀ (p : Nat × Bool) (X : List Char), OH.Spec.Sent.yearPrefixWf (some p) = true →
      ∃ c cs, (yearPrefix (some p)).1 ++ X = c :: cs ∧ '1' ≤ c ∧ c ≤ '9' := by
    intro p X hp
    obtain ⟨y, s⟩ := p
    have hy' : 1900 ≤ y ∧ y ≤ 9999 := by
      simpa [OH.Spec.Sent.yearPrefixWf, yearWf_iff] using hp
    obtain ⟨c, cs, e, hc⟩ := natStr_year_head y hy'
    exact ⟨c, cs ++ (sp s ++ X), by simp only [yearPrefix, dec_eq_natStr, e]; simp, hc⟩
  cases d with
  | fixed y m s d =>
    simp only [OH.Spec.Sent.SDate.wf, Bool.and_eq_true] at hd
    cases y with
    | none =>
      obtain ⟨c, cs, e, hc⟩ := monthStr_head m
      exact ⟨c, cs ++ (sp s ++ d.render), by
        simp only [SDate.render, yearPrefix, monthName_eq, e]; simp,
        Or.inr (Or.inl hc), fun _ => Or.inl hc⟩
    | some p =>
      obtain ⟨c, cs, e, hc⟩ := hyear p (monthName m ++ sp s ++ d.render) hd.1.1
      exact ⟨c, cs, by simp only [SDate.render, List.append_assoc] at e ⊢; exact e, Or.inl hc,
        fun h => by simp [SDate.hasYear] at h⟩
  | easter y =>
    cases y with
    | none =>
      exact ⟨'e', ['a', 's', 't', 'e', 'r'], rfl, Or.inr (Or.inr rfl), fun _ => Or.inr rfl⟩
    | some p =>
      obtain ⟨c, cs, e, hc⟩ := hyear p (OH.Spec.Sent.t "easter") hd
      exact ⟨c, cs, by simp only [SDate.render] at e ⊢; exact e, Or.inl hc,
        fun h => by simp [SDate.hasYear] at h⟩

theorem sdate_ne_space (d : SDate) (hd : d.wf = true) (X : List Char) : ∀ r, d.render ++ X ≠ ' ' :: r := by
  obtain ⟨c, cs, e, hc, _⟩ := sdate_head d hd
  intro r h
  rw [e] at h
  cases h
  exact MdStartChar_ne_space hc rfl

/-- the text of a date that starts with a year -/
theorem sdate_year_text (d : SDate) (hd : d.wf = true) (hy : d.hasYear = true) :
    ∃ y t, (1900 ≤ y ∧ y ≤ 9999) ∧ d.render = Print.natStr y ++ t := by
  have key : ∀ (y : Option (Nat × Bool)) (X : List Char), OH.Spec.Sent.yearPrefixWf y = true →
      y.isSome = true → ∃ v t, (1900 ≤ v ∧ v ≤ 9999) ∧ (yearPrefix y).1 ++ X = Print.natStr v ++ t := by
    intro y X hp hs
    cases y with
    | none => simp at hs
    | some p =>
      obtain ⟨v, s⟩ := p
      have hv : 1900 ≤ v ∧ v ≤ 9999 := by
        simpa [OH.Spec.Sent.yearPrefixWf, yearWf_iff] using hp
      exact ⟨v, sp s ++ X, hv, by simp only [yearPrefix, dec_eq_natStr, List.append_assoc]⟩
  cases d with
  | fixed y m s d =>
    simp only [OH.Spec.Sent.SDate.wf, Bool.and_eq_true] at hd
    obtain ⟨v, t, hv, e⟩ := key y (monthName m ++ sp s ++ d.render) hd.1.1 hy
    exact ⟨v, t, hv, by simp only [SDate.render, List.append_assoc] at e ⊢; exact e⟩
  | easter y =>
    obtain ⟨v, t, hv, e⟩ := key y (OH.Spec.Sent.t "easter") hd hy
    exact ⟨v, t, hv, by simp only [SDate.render] at e ⊢; exact e⟩

theorem sdate_hasYear (d : SDate) : DateSpec.hasYear d.denote = d.hasYear := by
  cases d with
  | fixed y m s d => cases y <;> simp [SDate.denote, SDate.hasYear, DateSpec.hasYear, yearPrefix]
  | easter y => cases y <;> simp [SDate.denote, SDate.hasYear, DateSpec.hasYear, yearPrefix]

/-- no weekday name starts a written date -/
theorem run_wd_none_sdate (d : SDate) (hd : d.wf = true) (X : List Char) :
    run g_wday false (d.render ++ X) = none := by
  obtain ⟨c, cs, e, hc, hl⟩ := sdate_head d hd
  by_cases hy : d.hasYear = true
  · rw [e]
    apply run_wd_none_head
    rcases hc with h | h | h
    · refine ⟨?_, ?_, ?_, ?_, ?_⟩ <;> (intro h'; subst h'; exact absurd h.2 (by decide))
    · exfalso
      obtain ⟨y, t, hv, e'⟩ := sdate_year_text d hd hy
      obtain ⟨c', cs', ec, hc'⟩ := natStr_year_head y hv
      rw [e', ec] at e
      cases e
      rcases h with h | h | h | h | h | h | h | h <;> (subst h; exact absurd hc'.2 (by decide))
    · subst h; decide
  · cases d with
    | fixed y m s d =>
      cases y with
      | none =>
        simp only [SDate.render, yearPrefix, monthName_eq, List.nil_append, List.append_assoc]
        exact run_wd_none_month false m _
      | some p => simp [SDate.hasYear] at hy
    | easter y =>
      cases y with
      | none => exact run_wd_none_head false 'e' _ (by decide)
      | some p => simp [SDate.hasYear] at hy

end OH.Proofs.Sent.Wide
