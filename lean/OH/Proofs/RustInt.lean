import OH.Model.RustInt
/-
Basic lemmas about the machine-integer support library (`OH/Model/RustInt.lean`), so that the proofs
about the generated definitions (`OH/Generated/Arith.lean`) are: unfold, rewrite every checked
operation whose result is in range to its mathematical value (`simp (disch := in_range) only
[rs_ok]`), then `omega`.
-/
namespace OH.Model.RustInt

/-! ### the type table is the two's-complement one -/

theorem Ty.modulus_eq (t : Ty) : t.modulus = 2 ^ t.bits := by cases t <;> decide
theorem Ty.min_eq (t : Ty) : t.min = if t.signed then -(2 ^ (t.bits - 1)) else 0 := by cases t <;> decide
theorem Ty.max_eq (t : Ty) : t.max = t.min + t.modulus - 1 := by cases t <;> decide

/-! ### sequencing -/

/- NOT stated with `:= rfl`: `simp` would then use them as definitional (`dsimp`) steps that leave no
proof term, and the kernel would have to re-discover the reduction by comparing two long `bnd` chains
(exponential on the 29 steps of `easter`). -/
@[simp] theorem bnd_ok {α β : Type} (a : α) (f : α → R β) : bnd (.ok a) f = f a := by
  unfold bnd; exact rfl
@[simp] theorem bnd_error {α β : Type} (e : Err) (f : α → R β) : bnd (.error e) f = .error e := by
  unfold bnd; exact rfl

theorem bnd_eq_ok {α β : Type} {x : R α} {f : α → R β} {b : β} :
    bnd x f = .ok b ↔ ∃ a, x = .ok a ∧ f a = .ok b := by
  cases x with
  | ok a => simp
  | error e => simp [bnd]

/-- discharges `InRange t x` side conditions: the bounds of `t` become numerals, the rest is linear -/
macro "in_range" : tactic =>
  `(tactic| (simp only [InRange, Ty.min, Ty.max, Ty.modulus, Ty.bits] at *; omega))

/-! ### checked operations in range -/

theorem chk_ok {t : Ty} {s : String} {x : Int} (h : InRange t x) : chk t s x = .ok x := by
  unfold chk; exact if_pos h

theorem chk_overflow {t : Ty} {s : String} {x : Int} (h : ¬ InRange t x) :
    chk t s x = .error (.overflow s) := by
  unfold chk; exact if_neg h

theorem add_ok {t : Ty} {s : String} {a b : Int} (h : InRange t (a + b)) : add t s a b = .ok (a + b) := chk_ok h
theorem sub_ok {t : Ty} {s : String} {a b : Int} (h : InRange t (a - b)) : sub t s a b = .ok (a - b) := chk_ok h
theorem mul_ok {t : Ty} {s : String} {a b : Int} (h : InRange t (a * b)) : mul t s a b = .ok (a * b) := chk_ok h
theorem neg_ok {t : Ty} {s : String} {a : Int} (h : InRange t (-a)) : neg t s a = .ok (-a) := chk_ok h

theorem add_overflow {t : Ty} {s : String} {a b : Int} (h : ¬ InRange t (a + b)) :
    add t s a b = .error (.overflow s) := chk_overflow h
theorem sub_overflow {t : Ty} {s : String} {a b : Int} (h : ¬ InRange t (a - b)) :
    sub t s a b = .error (.overflow s) := chk_overflow h
theorem mul_overflow {t : Ty} {s : String} {a b : Int} (h : ¬ InRange t (a * b)) :
    mul t s a b = .error (.overflow s) := chk_overflow h

theorem tryInto_some {t : Ty} {x : Int} (h : InRange t x) : tryInto t x = some x := by
  unfold tryInto; exact if_pos h

theorem tryInto_none {t : Ty} {x : Int} (h : ¬ InRange t x) : tryInto t x = none := by
  unfold tryInto; exact if_neg h

theorem tryInto_eq_some {t : Ty} {x v : Int} : tryInto t x = some v ↔ InRange t x ∧ v = x := by
  unfold tryInto InRange
  split
  · rename_i h; simp [h, eq_comm]
  · rename_i h; simp [h]

theorem checkedAdd_some {t : Ty} {a b : Int} (h : InRange t (a + b)) : checkedAdd t a b = some (a + b) := tryInto_some h
theorem checkedAdd_none {t : Ty} {a b : Int} (h : ¬ InRange t (a + b)) : checkedAdd t a b = none := tryInto_none h
theorem checkedSub_some {t : Ty} {a b : Int} (h : InRange t (a - b)) : checkedSub t a b = some (a - b) := tryInto_some h
theorem checkedSub_none {t : Ty} {a b : Int} (h : ¬ InRange t (a - b)) : checkedSub t a b = none := tryInto_none h
theorem checkedMul_some {t : Ty} {a b : Int} (h : InRange t (a * b)) : checkedMul t a b = some (a * b) := tryInto_some h
theorem checkedMul_none {t : Ty} {a b : Int} (h : ¬ InRange t (a * b)) : checkedMul t a b = none := tryInto_none h

/-- a cast that does not change the value -/
theorem wrap_id {t : Ty} {x : Int} (h : InRange t x) : wrap t x = x := by
  unfold wrap
  have hm := Ty.max_eq t
  unfold InRange at h
  have : (x - t.min) % t.modulus = x - t.min := Int.emod_eq_of_lt (by omega) (by omega)
  omega

/-- a cast always lands in the target type and is congruent to its argument -/
theorem wrap_inRange (t : Ty) (x : Int) : InRange t (wrap t x) := by
  unfold wrap InRange
  have hm := Ty.max_eq t
  have hpos : 0 < t.modulus := by cases t <;> decide
  have h1 := Int.emod_nonneg (x - t.min) (show t.modulus ≠ 0 by omega)
  have h2 := Int.emod_lt_of_pos (x - t.min) hpos
  omega

/-! ### truncating division by a positive literal: what `omega` needs -/

/-- `/` on non-negative operands is floor division; on a negative dividend it is the negated floor
division of the negated dividend -/
theorem tdiv_cases (a c : Int) :
    (0 ≤ a ∧ a.tdiv c = a / c) ∨ (a < 0 ∧ a.tdiv c = -((-a) / c)) := by
  by_cases h : 0 ≤ a
  · exact Or.inl ⟨h, Int.tdiv_eq_ediv_of_nonneg h⟩
  · refine Or.inr ⟨by omega, ?_⟩
    have e : a = -(-a) := by omega
    rw [e, Int.neg_tdiv, Int.tdiv_eq_ediv_of_nonneg (by omega)]
    simp

theorem tmod_cases (a c : Int) :
    (0 ≤ a ∧ a.tmod c = a % c) ∨ (a < 0 ∧ a.tmod c = -((-a) % c)) := by
  by_cases h : 0 ≤ a
  · exact Or.inl ⟨h, Int.tmod_eq_emod_of_nonneg h⟩
  · refine Or.inr ⟨by omega, ?_⟩
    have e : a = -(-a) := by omega
    rw [e, Int.neg_tmod, Int.tmod_eq_emod_of_nonneg (by omega)]
    simp

/-- a truncated quotient by a positive number stays within any bounds of the dividend that contain 0 -/
theorem tdiv_le (a : Int) {c lo hi : Int} (hc : 0 < c) (h1 : lo ≤ a) (h2 : a ≤ hi) (hlo : lo ≤ 0)
    (hhi : 0 ≤ hi) : lo ≤ a.tdiv c ∧ a.tdiv c ≤ hi := by
  rcases tdiv_cases a c with ⟨h, e⟩ | ⟨h, e⟩
  · rw [e]
    have : a / c ≤ a := Int.ediv_le_self _ h
    have : 0 ≤ a / c := Int.ediv_nonneg h (by omega)
    omega
  · rw [e]
    have : (-a) / c ≤ -a := Int.ediv_le_self _ (by omega)
    have : 0 ≤ (-a) / c := Int.ediv_nonneg (by omega) (by omega)
    omega

/-- a truncated remainder by a positive number is smaller than it in absolute value -/
theorem tmod_lt (a : Int) {c : Int} (hc : 0 < c) : -c < a.tmod c ∧ a.tmod c < c := by
  rcases tmod_cases a c with ⟨h, e⟩ | ⟨h, e⟩
  · rw [e]
    have := Int.emod_nonneg a (show c ≠ 0 by omega)
    have := Int.emod_lt_of_pos a hc
    omega
  · rw [e]
    have := Int.emod_nonneg (-a) (show c ≠ 0 by omega)
    have := Int.emod_lt_of_pos (-a) hc
    omega

theorem tdiv_nonneg_eq {a : Int} (c : Int) (h : 0 ≤ a) : a.tdiv c = a / c := Int.tdiv_eq_ediv_of_nonneg h
theorem tmod_nonneg_eq {a : Int} (c : Int) (h : 0 ≤ a) : a.tmod c = a % c := Int.tmod_eq_emod_of_nonneg h

/-- rewrites every checked operation / conversion whose side condition `in_range` can decide (from
the hypotheses in the context) to its outcome, and reduces the `bnd`/`match` around it -/
macro "rs_ok" : tactic =>
  `(tactic| simp (disch := in_range) only
      [add_ok, sub_ok, mul_ok, neg_ok, add_overflow, sub_overflow, mul_overflow,
       tryInto_some, tryInto_none, checkedAdd_some, checkedAdd_none, checkedSub_some, checkedSub_none,
       checkedMul_some, checkedMul_none, wrap_id, bnd_ok, bnd_error])

end OH.Model.RustInt
