import OH.Proofs.EvalSpecRule
import OH.Spec.Holds
import OH.Model.Iter
/-
C01 refinement, layer 5: rule combination.  The loop of `schedule_at` (`scheduleStep` folded over the
rules) keeps the invariant "the schedule built so far shows, minute by minute, the specification's day
table built so far"; the iterated schedule (`daySchedule`) therefore gives every minute of the day
the state `OH.Spec.dayState` defines.
-/
namespace OH.Proofs.EvalSpec
open OH.Model OH.Model.Cal OH.Props.C14 OH.Spec.Schedule
open OH.Spec (applies ruleDay ruleSpill tab DayTab overlay hasNonClosed emptyDay dayTable)

/-! ### day tables -/

theorem overlay_at (base top : DayTab) (m : Nat) (hm : m < 1440) :
    (overlay base top).at m = (top.at m).or (base.at m) := by
  unfold overlay
  rw [tab_at, if_pos hm]
  cases top.at m <;> rfl

theorem overlay_size (base top : DayTab) : (overlay base top).size = 1440 := by simp [overlay]

theorem ruleDay_size (ctx : Ctx) (r : Rule) (d : Int) : (ruleDay ctx r d).size = 1440 := by simp [ruleDay]

theorem hasNonClosed_iff (t : DayTab) :
    hasNonClosed t = true ↔ ∃ m, m < t.size ∧ (t.at m = some .open ∨ t.at m = some .unknown) := by
  unfold hasNonClosed DayTab.at
  simp only [Array.any_eq_true, Bool.or_eq_true, beq_iff_eq]
  constructor
  · rintro ⟨i, hi, h⟩; exact ⟨i, hi, by simpa [hi] using h⟩
  · rintro ⟨i, hi, h⟩; exact ⟨i, hi, by simpa [hi] using h⟩

/-! ### combining optional schedules -/

/-- `match prev, curr { (Some(p), Some(c)) => Some(p.addition(c)), (p, c) => p.or(c) }` -/
def combine (p c : Option Schedule) : Option Schedule :=
  match p, c with
  | some p, some c => some (p.addition c)
  | p, c => p <|> c

/-- "well-formed and within the day" for an optional schedule -/
def GoodO (o : Option Schedule) : Prop := ∀ s, o = some s → Good s

theorem goodO_combine (p c : Option Schedule) (hp : GoodO p) (hc : GoodO c) : GoodO (combine p c) := by
  intro s hs
  unfold combine at hs
  cases p with
  | none => cases c with
    | none => simp at hs
    | some c => simp at hs; subst hs; exact hc _ rfl
  | some p => cases c with
    | none => simp at hs; subst hs; exact hp _ rfl
    | some c => simp at hs; subst hs; exact good_addition _ _ (hp _ rfl) (hc _ rfl)

theorem combine_state (p c : Option Schedule) (hp : GoodO p) (hc : GoodO c) (m : Nat) :
    (combine p c).bind (stateAt · m) = (c.bind (stateAt · m)).or (p.bind (stateAt · m)) := by
  unfold combine
  cases p with
  | none => cases c with
    | none => rfl
    | some c => simp
  | some p => cases c with
    | none => simp
    | some c => simp [addition_state p c (hp _ rfl).1 (hc _ rfl).1 m]

/-! ### the invariant of the loop -/

/-- the optional schedule `o` shows the table `acc` -/
structure Shows (o : Option Schedule) (acc : DayTab) : Prop where
  size : acc.size = 1440
  good : GoodO o
  state : ∀ m, m < 1440 → o.bind (stateAt · m) = acc.at m

theorem shows_rule (ctx : Ctx) (r : Rule) (d : Int) : Shows (rulePure ctx r d) (ruleDay ctx r d) :=
  ⟨ruleDay_size ctx r d, good_rulePure ctx r d, fun m hm => rulePure_state ctx r d m hm⟩

theorem shows_overlay (p c : Option Schedule) (a b : DayTab) (hp : Shows p a) (hc : Shows c b) :
    Shows (combine p c) (overlay a b) :=
  ⟨overlay_size a b, goodO_combine p c hp.good hc.good, fun m hm => by
    rw [combine_state p c hp.good hc.good, overlay_at _ _ _ hm, hp.state m hm, hc.state m hm]⟩

/-- replacing the table by one that agrees with it on every minute of the day -/
theorem shows_congr (o : Option Schedule) (a b : DayTab) (h : Shows o a) (hs : b.size = 1440)
    (e : ∀ m, m < 1440 → a.at m = b.at m) : Shows o b :=
  ⟨hs, h.good, fun m hm => by rw [h.state m hm, e m hm]⟩

/-- the fallback test: `is_always_closed` on the ranges of the schedule is "no minute of the table is
open or unknown" (a closed range counts as closed, a hole as nothing) -/
theorem fallback_test (o : Option Schedule) (acc : DayTab) (h : Shows o acc) :
    (!((o.map Schedule.isAlwaysClosed).getD true)) = hasNonClosed acc := by
  rw [Bool.eq_iff_iff, hasNonClosed_iff, h.size]
  constructor
  · intro hn
    cases o with
    | none => simp at hn
    | some s =>
      simp only [Option.map_some, Option.getD_some, Bool.not_eq_true', Schedule.isAlwaysClosed,
        List.all_eq_false, beq_iff_eq] at hn
      obtain ⟨t, ht, hk⟩ := hn
      have hg := h.good s rfl
      have hne := OH.Proofs.Schedule.wf_nonempty s hg.1 t ht
      have hw := hg.2 t ht
      have hst := OH.Proofs.Schedule.stateAt_of_mem s hg.1 t ht t.s ⟨Nat.le_refl _, hne⟩
      have := h.state t.s (by omega)
      simp only [Option.bind_some, hst] at this
      refine ⟨t.s, by omega, ?_⟩
      rw [← this]
      cases hk' : t.kind <;> simp_all
  · rintro ⟨m, hm, hk⟩
    have := h.state m hm
    cases o with
    | none => simp at this; rw [← this] at hk; simp at hk
    | some s =>
      simp only [Option.bind_some] at this
      simp only [Option.map_some, Option.getD_some, Bool.not_eq_true', Schedule.isAlwaysClosed,
        List.all_eq_false, beq_iff_eq]
      rw [← this] at hk
      rcases hk with hk | hk
      · obtain ⟨t, ht, _, _, e⟩ := OH.Proofs.Schedule.stateAt_eq_some s m _ hk
        exact ⟨t, ht, by rw [e]; simp⟩
      · obtain ⟨t, ht, _, _, e⟩ := OH.Proofs.Schedule.stateAt_eq_some s m _ hk
        exact ⟨t, ht, by rw [e]; simp⟩

/-- one iteration of the loop of `schedule_at` against one `step` of the specification -/
theorem scheduleStep_spec (ctx : Ctx) (r : Rule) (d : Int) (hr : RuleOK ctx r d)
    (h1 : dateStart ≤ d) (h2 : d < dateEnd) (st : Bool × Option Schedule) (acc : DayTab)
    (h : Shows st.2 acc) :
    ∃ st', scheduleStep ctx d st r = .ok st' ∧ Shows st'.2 (OH.Spec.step ctx d acc r) := by
  obtain ⟨pm, pe⟩ := st
  simp only at h
  have hcur := shows_rule ctx r d
  have hov := shows_overlay pe (rulePure ctx r d) acc (ruleDay ctx r d) h hcur
  unfold scheduleStep OH.Spec.step
  simp only [filter_today ctx r d hr h1 h2, ruleScheduleAt_eq ctx r d hr h1 h2, ok_bind, pure_eq_ok]
  -- the three arms
  have normalArm : Shows (if applies ctx r d = true then rulePure ctx r d else combine pe (rulePure ctx r d))
      (if applies ctx r d = true then ruleDay ctx r d else overlay acc (ruleSpill ctx r d)) := by
    cases ha : applies ctx r d
    · simp only [Bool.false_eq_true, if_false]
      exact shows_congr _ _ _ hov (overlay_size _ _) (fun m hm => by
        rw [overlay_at _ _ _ hm, overlay_at _ _ _ hm, ruleDay_eq_ruleSpill ctx r d ha m])
    · simp only [if_true]; exact hcur
  have fallbackArm : Shows (if (!((pe.map Schedule.isAlwaysClosed).getD true)) = true then pe else rulePure ctx r d)
      (if hasNonClosed acc = true then acc else ruleDay ctx r d) := by
    rw [fallback_test pe acc h]
    cases hasNonClosed acc
    · simp only [Bool.false_eq_true, if_false]; exact hcur
    · simp only [if_true]; exact h
  cases hop : r.op <;> cases hk : r.kind <;> simp only [] <;>
    first
    | exact ⟨_, rfl, normalArm⟩
    | exact ⟨_, rfl, hov⟩
    | (split <;> rename_i hc <;> simp only [hc, if_true, if_false, Bool.false_eq_true] at fallbackArm <;>
        exact ⟨_, rfl, fallbackArm⟩)

/-- the hypotheses of the refinement on a whole expression, for day `d` -/
def ExprOK (ctx : Ctx) (e : Expr) (d : Int) : Prop := ∀ r ∈ e, RuleOK ctx r d

theorem shows_empty : Shows none emptyDay :=
  ⟨by simp [emptyDay], fun s hs => by simp at hs, fun m hm => by simp [emptyDay, tab_at]⟩

/-- `schedule_at` succeeds and its schedule shows the specification's day table -/
theorem scheduleAt_spec (ctx : Ctx) (e : Expr) (d : Int) (he : ExprOK ctx e d)
    (h1 : dateStart ≤ d) (h2 : d < dateEnd) :
    ∃ s, scheduleAt ctx e d = .ok s ∧ Good s ∧ ∀ m, m < 1440 → stateAt s m = (dayTable ctx e d).at m := by
  obtain ⟨st, hst, hsh⟩ := foldM'_inv (fun (st : Bool × Option Schedule) (acc : DayTab) => Shows st.2 acc)
    (scheduleStep ctx d) (OH.Spec.step ctx d) e
    (fun st acc r hr hI => scheduleStep_spec ctx r d (he r hr) h1 h2 st acc hI)
    (false, none) emptyDay shows_empty
  unfold scheduleAt dayTable
  have hin : dateStart ≤ d ∧ d < dateEnd := ⟨h1, h2⟩
  simp only [hin, and_self, if_true, hst, ok_bind, pure_eq_ok]
  obtain ⟨pm, ev⟩ := st
  refine ⟨_, rfl, ?_, ?_⟩
  · cases ev with
    | none => exact ⟨trivial, fun t ht => by simp at ht⟩
    | some s => exact hsh.good s rfl
  · intro m hm
    have := hsh.state m hm
    cases ev with
    | none => simpa [stateAt] using this
    | some s => simpa using this

theorem kindAt_eq_stateAt (rs : List TimeRange) (m : Nat) : OH.Spec.kindAt rs m = stateAt rs m := by
  unfold OH.Spec.kindAt
  induction rs with
  | nil => rfl
  | cons t ts ih =>
    simp only [List.find?_cons, stateAt]
    by_cases h : t.s ≤ m ∧ m < t.e
    · simp [h]
    · have : (decide (t.s ≤ m) && decide (m < t.e)) = false := by
        rw [Bool.eq_false_iff]; simpa using h
      simp only [this, if_neg h]; exact ih

/-- `schedule_at(date).into_iter()` succeeds and gives every minute the specified state -/
theorem daySchedule_spec (ctx : Ctx) (e : Expr) (d : Int) (he : ExprOK ctx e d)
    (h1 : dateStart ≤ d) (h2 : d < dateEnd) :
    ∃ rs, daySchedule ctx e d = .ok rs ∧
      ∀ m, m < 1440 → OH.Spec.kindAt rs m = some (OH.Spec.dayState ctx e d m) := by
  obtain ⟨s, hs, hg, hst⟩ := scheduleAt_spec ctx e d he h1 h2
  unfold daySchedule
  simp only [hs, iter_no_panic s hg.1, Bool.false_eq_true, if_false]
  refine ⟨_, rfl, fun m hm => ?_⟩
  rw [kindAt_eq_stateAt, iter_state s hg.1 m hm]
  unfold OH.Spec.Schedule.dayState OH.Spec.dayState
  rw [hst m hm]

/-! ### totality alone (no specification involved): C04 -/

/-- one iteration of the loop succeeds as soon as the rule's selector can be evaluated on the day and
on the day before, and keeps the schedule well-formed -/
theorem scheduleStep_total (ctx : Ctx) (r : Rule) (d : Int)
    (hf : ∃ a, r.day.filter ctx d = .ok a) (hf1 : ∃ a, r.day.filter ctx (d - 1) = .ok a)
    (h1 : dateStart ≤ d) (st : Bool × Option Schedule) (hg : GoodO st.2) :
    ∃ st', scheduleStep ctx d st r = .ok st' ∧ GoodO st'.2 := by
  obtain ⟨pm, pe⟩ := st
  obtain ⟨a, ha⟩ := hf
  obtain ⟨a1, ha1⟩ := hf1
  simp only at hg
  have hc : GoodO (rulePureB ctx r d a a1) := good_rulePureB ctx r d a a1
  have hov := goodO_combine pe _ hg hc
  unfold scheduleStep
  simp only [ha, ruleScheduleAt_eqB ctx r d a a1 ha ha1 h1, ok_bind, pure_eq_ok]
  have normalArm : GoodO (if a = true then rulePureB ctx r d a a1 else combine pe (rulePureB ctx r d a a1)) := by
    split
    · exact hc
    · exact hov
  cases hop : r.op <;> cases hk : r.kind <;> simp only [] <;>
    first
    | exact ⟨_, rfl, normalArm⟩
    | exact ⟨_, rfl, hov⟩
    | (split <;> first | exact ⟨_, rfl, hg⟩ | exact ⟨_, rfl, hc⟩)

theorem good_nil : Good [] := ⟨trivial, fun t ht => by simp at ht⟩

/-- `schedule_at` never fails when the selectors of the rules can be evaluated, and returns a
well-formed schedule within 00:00–24:00 — for every day, inside or outside 1900–9999 -/
theorem scheduleAt_total (ctx : Ctx) (e : Expr) (d : Int)
    (hf : dateStart ≤ d ∧ d < dateEnd →
      ∀ r ∈ e, (∃ a, r.day.filter ctx d = .ok a) ∧ (∃ a, r.day.filter ctx (d - 1) = .ok a)) :
    ∃ s, scheduleAt ctx e d = .ok s ∧ Good s := by
  unfold scheduleAt
  by_cases hin : dateStart ≤ d ∧ d < dateEnd
  · obtain ⟨st, hst, hsh⟩ := foldM'_inv (fun (st : Bool × Option Schedule) (_ : Unit) => GoodO st.2)
      (scheduleStep ctx d) (fun _ _ => ()) e
      (fun st _ r hr hI => scheduleStep_total ctx r d (hf hin r hr).1 (hf hin r hr).2 hin.1 st hI)
      (false, none) () (fun s hs => by simp at hs)
    simp only [hin, and_self, hst, ok_bind, pure_eq_ok]
    obtain ⟨pm, ev⟩ := st
    refine ⟨_, rfl, ?_⟩
    cases ev with
    | none => exact good_nil
    | some s => exact hsh s rfl
  · refine ⟨[], ?_, good_nil⟩
    simp [hin]

theorem daySchedule_total (ctx : Ctx) (e : Expr) (d : Int)
    (hf : dateStart ≤ d ∧ d < dateEnd →
      ∀ r ∈ e, (∃ a, r.day.filter ctx d = .ok a) ∧ (∃ a, r.day.filter ctx (d - 1) = .ok a)) :
    ∃ rs, daySchedule ctx e d = .ok rs := by
  obtain ⟨s, hs, hg⟩ := scheduleAt_total ctx e d hf
  unfold daySchedule
  simp only [hs, iter_no_panic s hg.1, Bool.false_eq_true, if_false]
  exact ⟨_, rfl⟩

end OH.Proofs.EvalSpec
