import OH.Proofs.EvalSpecMonad
import OH.Props.C14
import OH.Spec.Rules
/-
C01 refinement, layer 3: time spans.  `TimeSpan.asNaive` is the specification's `spanOn`;
`intervalsAt` covers exactly the minutes `inToday` selects and `intervalsAtNextDay` exactly the
minutes `inSpill` selects (for minutes of the day, `m < 1440`).
-/
namespace OH.Proofs.EvalSpec
open OH.Model OH.Model.Cal OH.Props.C14

theorem asNaive_eq (ctx : Ctx) (d : Int) (t : TimeSpan) :
    TimeSpan.asNaive ctx d t = .ok (OH.Spec.spanOn ctx d t) := by
  unfold TimeSpan.asNaive OH.Spec.spanOn
  simp only []
  generalize t.start.asNaive ctx d = a
  generalize t.stop.asNaive ctx d = b
  by_cases h : a < b
  · rw [if_pos h, if_pos h]
  · rw [if_neg h, if_neg h]
    have e : (if b + 1440 > 2880 then 2880 else b + 1440) = min (b + 1440) 2880 := by
      by_cases h' : b + 1440 > 2880
      · rw [if_pos h']; omega
      · rw [if_neg h']; omega
    rw [e]

theorem spans_eq (ctx : Ctx) (ts : List TimeSpan) (d : Int) :
    mapM' (·.asNaive ctx d) ts = .ok (ts.map (OH.Spec.spanOn ctx d)) :=
  mapM'_ok _ _ _ (fun t _ => asNaive_eq ctx d t)

/-- the value of `time_selector_intervals_at` -/
def todayRanges (spans : List (Nat × Nat)) : List (Nat × Nat) :=
  rangesUnion (spans.filterMap (fun r => rangeIntersection r (0, 1440)))

/-- the value of `time_selector_intervals_at_next_day` -/
def spillRanges (spans : List (Nat × Nat)) : List (Nat × Nat) :=
  rangesUnion ((spans.filterMap (fun r => rangeIntersection r (1440, 2880))).map
    (fun r => (r.1 - 1440, r.2 - 1440)))

theorem intervalsAt_eq (ctx : Ctx) (ts : List TimeSpan) (d : Int) :
    intervalsAt ctx ts d = .ok (todayRanges (ts.map (OH.Spec.spanOn ctx d))) := by
  unfold intervalsAt todayRanges
  simp only [spans_eq, ok_bind, pure_eq_ok]

theorem intervalsAtNextDay_eq (ctx : Ctx) (ts : List TimeSpan) (d : Int) :
    intervalsAtNextDay ctx ts d = .ok (spillRanges (ts.map (OH.Spec.spanOn ctx d))) := by
  unfold intervalsAtNextDay spillRanges
  simp only [spans_eq, ok_bind, pure_eq_ok]

theorem todayRanges_covers (spans : List (Nat × Nat)) (m : Nat) :
    (∃ r ∈ todayRanges spans, r.1 ≤ m ∧ m < r.2) ↔ OH.Spec.inToday spans m = true := by
  unfold todayRanges OH.Spec.inToday
  rw [rangesUnion_covers]
  simp only [List.mem_filterMap, List.any_eq_true, Bool.and_eq_true, decide_eq_true_eq]
  constructor
  · rintro ⟨r, ⟨se, hse, hi⟩, hm⟩
    have := (rangeIntersection_some _ _ _ hi).2 m
    exact ⟨se, hse, by simp only at this; omega⟩
  · rintro ⟨se, hse, hm⟩
    cases hi : rangeIntersection se (0, 1440) with
    | none => have := rangeIntersection_none _ _ hi m; simp only at this; omega
    | some r =>
      have := (rangeIntersection_some _ _ _ hi).2 m
      exact ⟨r, ⟨se, hse, hi⟩, by simp only at this; omega⟩

theorem rangesUnionLoop_end (cur : Nat × Nat) (rest : List (Nat × Nat)) :
    ∀ x ∈ rangesUnionLoop cur rest, ∃ y ∈ cur :: rest, x.2 = y.2 := by
  fun_induction rangesUnionLoop cur rest <;> grind

/-- every range of a union ends where one of its inputs ends -/
theorem rangesUnion_end (l : List (Nat × Nat)) : ∀ r ∈ rangesUnion l, ∃ y ∈ l, r.2 = y.2 := by
  intro r hr
  unfold rangesUnion at hr
  split at hr
  · simp at hr
  · rename_i cur rest h
    obtain ⟨y, hy, e⟩ := rangesUnionLoop_end cur rest r hr
    exact ⟨y, (OH.Proofs.Schedule.mem_sortPairs y l).mp (h ▸ hy), e⟩

theorem todayRanges_within (spans : List (Nat × Nat)) : ∀ r ∈ todayRanges spans, r.2 ≤ 1440 := by
  intro r hr
  obtain ⟨y, hy, e⟩ := rangesUnion_end _ r hr
  simp only [List.mem_filterMap] at hy
  obtain ⟨se, _, hi⟩ := hy
  unfold rangeIntersection at hi
  simp only at hi
  split at hi
  · cases hi; simp only at e; omega
  · cases hi

theorem spillRanges_covers (spans : List (Nat × Nat)) (m : Nat) (hm : m < 1440) :
    (∃ r ∈ spillRanges spans, r.1 ≤ m ∧ m < r.2) ↔ OH.Spec.inSpill spans m = true := by
  unfold spillRanges OH.Spec.inSpill
  rw [rangesUnion_covers]
  simp only [List.mem_map, List.mem_filterMap, List.any_eq_true, Bool.and_eq_true, decide_eq_true_eq]
  constructor
  · rintro ⟨r, ⟨r', ⟨se, hse, hi⟩, rfl⟩, hm'⟩
    have h1 := (rangeIntersection_some _ _ _ hi).2 (m + 1440)
    have h2 := (rangeIntersection_some _ _ _ hi).2 r'.1
    have h3 := (rangeIntersection_some _ _ _ hi).1
    exact ⟨se, hse, by simp only at h1 h2 hm'; omega⟩
  · rintro ⟨se, hse, hm'⟩
    cases hi : rangeIntersection se (1440, 2880) with
    | none => have := rangeIntersection_none _ _ hi (m + 1440); simp only at this; omega
    | some r =>
      have h1 := (rangeIntersection_some _ _ _ hi).2 (m + 1440)
      exact ⟨_, ⟨r, ⟨se, hse, hi⟩, rfl⟩, by simp only at h1 ⊢; omega⟩

theorem spillRanges_within (spans : List (Nat × Nat)) : ∀ r ∈ spillRanges spans, r.2 ≤ 1440 := by
  intro r hr
  obtain ⟨y, hy, e⟩ := rangesUnion_end _ r hr
  simp only [List.mem_map, List.mem_filterMap] at hy
  obtain ⟨r', ⟨se, _, hi⟩, rfl⟩ := hy
  unfold rangeIntersection at hi
  simp only at hi
  split at hi
  · cases hi; simp only at e; omega
  · cases hi

end OH.Proofs.EvalSpec
