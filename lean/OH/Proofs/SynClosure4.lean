import OH.Proofs.SynClosure3
/-
Closing the loop of C06, part 4: `year_range`, `year_selector` and `wide_range_selectors` ON `run`
(not only on `Conf`): `yearStepOk` holds of everything the parser builds.
-/
namespace OH.Proofs.SynClosure
open OH.Model OH.Model.Peg OH.Model.Parser OH.Generated.Grammar OH.Proofs.SynTotal
open OH.Proofs.Syn (NoDigit okComment okYear okWeek okMonthday yearStepOk okYear_of_wf okWeek_of_wf)

theorem runs_year_val {inp : List Char} {k : List T} {t rest : List Char} (h : Runs g_year false inp k t rest) :
    ∃ x, k = [x] ∧ Good .year buildYear (fun y => 1900 ≤ y ∧ y ≤ 9999) x := conf_year_val h.conf

/-- a year range with a step other than 1 was written with `/step`, and `positive_number` has taken
every digit: the rest does not start with a digit -/
theorem runs_year_range {inp : List Char} {k : List T} {t rest : List Char}
    (h : Runs g_year_range false inp k t rest) :
    ∃ x, k = [x] ∧ Good .year_range buildYearRange
      (fun y => okYear y = true ∧ (y.step ≠ 1 → NoDigit rest)) x := by
  runs_unfold [g_year_range, g_year_range_plus] at h
  conf_destruct [runs_year_val, runs_positive_number]
  all_goals refine ⟨_, rfl, rfl, ?_⟩
  all_goals build_simp [buildYearRange, *]
  all_goals repeat safe_bind
  all_goals first
    | (split <;> simp [okYear, *] <;> omega)
    | (simp [okYear, *] <;> omega)

/-- the outcome of the builder on the pairs of `("," ~ year_range)*`, with the rest of the input -/
def YearTail (inp : List Char) (k : List T) (_t rest : List Char) : Prop :=
  (k = [] → rest = inp) ∧
    Safe (fun ys => ys.length = k.length ∧ (∀ y ∈ ys, okYear y = true) ∧
        ∀ y, ys.getLast? = some y → y.step ≠ 1 → NoDigit rest) (k.mapM buildYearRange)

theorem yearTail_cons {x : T} {rest1 : List Char} {k2 : List T} {t2 rest : List Char}
    (hx : Safe (fun y => okYear y = true ∧ (y.step ≠ 1 → NoDigit rest1)) (buildYearRange x))
    (h2 : YearTail rest1 k2 t2 rest) :
    Safe (fun ys => ys.length = (x :: k2).length ∧ (∀ y ∈ ys, okYear y = true) ∧
        ∀ y, ys.getLast? = some y → y.step ≠ 1 → NoDigit rest) ((x :: k2).mapM buildYearRange) := by
  rw [List.mapM_cons]
  refine Safe.bind hx (fun y hy => ?_)
  refine Safe.bind h2.2 (fun ys hys => ?_)
  refine Safe.pure ⟨by simp [hys.1], ?_, ?_⟩
  · intro y' hy'
    rcases List.mem_cons.mp hy' with rfl | hy'
    · exact hy.1
    · exact hys.2.1 y' hy'
  · intro y' hy' hs
    cases ys with
    | nil =>
      simp only [List.getLast?_singleton, Option.some.injEq] at hy'
      subst hy'
      have hk2 : k2 = [] := by
        have := hys.1
        simp only [List.length_nil] at this
        exact List.length_eq_zero_iff.mp this.symm
      rw [h2.1 hk2]
      exact hy.2 hs
    | cons a l =>
      rw [List.getLast?_cons_cons] at hy'
      exact hys.2.2 y' hy' hs

theorem runs_year_tail {inp : List Char} {k : List T} {t rest : List Char}
    (h : Runs (.star (.seq (.str [',']) g_year_range)) false inp k t rest) : YearTail inp k t rest := by
  refine runs_star_ind (P := YearTail) ?_ ?_ h
  · intro inp
    refine ⟨fun _ => rfl, ?_⟩
    simp [List.mapM_nil, Safe, Pure.pure, Except.pure]
  · intro inp k1 t1 rest1 k2 t2 rest h1 ih
    rw [runs_seq] at h1
    obtain ⟨k3, t3, rest3, k4, t4, h3, h4, rfl, -⟩ := h1
    have hk3 : k3 = [] := (runs_str.mp h3).1
    subst hk3
    obtain ⟨x, rfl, hx⟩ := runs_year_range h4
    refine ⟨fun e => by simp at e, ?_⟩
    exact yearTail_cons hx.2 ih

/-- a year selector whose last range has a step other than 1 is not followed by a digit -/
theorem runs_year_selector {inp : List Char} {k : List T} {t rest : List Char}
    (h : Runs g_year_selector false inp k t rest) :
    ∃ x, k = [x] ∧ Good .year_selector buildYearSelector
      (fun ys => (∀ y ∈ ys, okYear y = true) ∧ ∀ y, ys.getLast? = some y → y.step ≠ 1 → NoDigit rest) x := by
  unfold g_year_selector at h
  rw [runs_rule] at h
  obtain ⟨k', hb, rfl⟩ := h
  refine ⟨_, rfl, rfl, ?_⟩
  rw [runs_seq] at hb
  obtain ⟨k1, t1, rest1, k2, t2, h1, h2, rfl, rfl⟩ := hb
  obtain ⟨x, rfl, hx⟩ := runs_year_range h1
  build_simp_only [buildYearSelector]
  exact (yearTail_cons hx.2 (runs_year_tail h2)).mono (fun ys h => h.2)

/-! ### month days and weeks, from `run` -/

theorem runs_monthday_selector {inp : List Char} {k : List T} {t rest : List Char}
    (h : Runs g_monthday_selector false inp k t rest) :
    ∃ x, k = [x] ∧ Good .monthday_selector buildMonthdaySelector
      (fun l => (∀ r ∈ l, okMonthday r = true) ∧
        ∀ u, NoDigit (t ++ u) → ∀ m, l.head? = some m → Print.startsWithYear m = false) x ∧
      inp = t ++ rest := by
  obtain ⟨x, rfl, hx⟩ := conf_monthday_selector' h.conf
  exact ⟨x, rfl, hx, h.sound⟩

theorem runs_week_selector {inp : List Char} {k : List T} {t rest : List Char}
    (h : Runs g_week_selector false inp k t rest) :
    ∃ x, k = [x] ∧ Good .week_selector buildWeekSelector (fun l => ∀ r ∈ l, okWeek r = true) x := by
  obtain ⟨x, rfl, hx⟩ := conf_week_selector h.conf
  exact ⟨x, rfl, hx.1, hx.2.mono (fun l hl r hr => okWeek_of_wf r (hl r hr))⟩

/-! ### `yearStepOk` -/

theorem yearStepOk_nil_left (ms : List MonthdayRange) : yearStepOk [] ms = true := by
  simp [yearStepOk]

theorem yearStepOk_nil_right (ys : List YearRange) : yearStepOk ys [] = true := by
  unfold yearStepOk
  cases ys.getLast? <;> rfl

/-- the rest of the year selector starts with the text of the month-day selector -/
theorem yearStepOk_of (ys : List YearRange) (ms : List MonthdayRange) (tm rest2 : List Char)
    (hy : ∀ y, ys.getLast? = some y → y.step ≠ 1 → NoDigit (tm ++ rest2))
    (hm : ∀ u, NoDigit (tm ++ u) → ∀ m, ms.head? = some m → Print.startsWithYear m = false) :
    yearStepOk ys ms = true := by
  unfold yearStepOk
  cases hy' : ys.getLast? with
  | none => rfl
  | some y =>
    cases hm' : ms.head? with
    | none => rfl
    | some m =>
      simp only [Bool.or_eq_true, decide_eq_true_eq, Bool.not_eq_true']
      by_cases hs : y.step = 1
      · exact .inl hs
      · exact .inr (hm rest2 (hy y hy' hs) m hm')

/-! ### `wide_range_selectors` -/

/-- the wide part of a rule the parser builds: what `okWide` asks, and a comment that can be printed -/
def WideOK (w : Wide) : Prop :=
  (∀ y ∈ w.year, okYear y = true) ∧ (∀ m ∈ w.monthday, okMonthday m = true) ∧ (∀ r ∈ w.week, okWeek r = true) ∧
    yearStepOk w.year w.monthday = true ∧ ∀ c, w.comment = some c → okComment c = true

theorem runs_wide_range_selectors {inp : List Char} {k : List T} {t rest : List Char}
    (h : Runs g_wide_range_selectors false inp k t rest) :
    ∃ x, k = [x] ∧ Good .wide_range_selectors buildWideRangeSelectors WideOK x := by
  runs_unfold [g_wide_range_selectors] at h
  conf_destruct [runs_comment, runs_monthday_selector, runs_week_selector, runs_year_selector]
  all_goals refine ⟨_, rfl, rfl, ?_⟩
  all_goals build_simp [buildWideRangeSelectors, wideLoop, *]
  all_goals repeat safe_bind2
  all_goals simp only [Safe.ok_iff, WideOK]
  all_goals refine ⟨by first | assumption | simp, by first | assumption | simp,
    by first | assumption | simp, ?_, by simp [*]⟩
  all_goals first
    | exact yearStepOk_nil_left _
    | exact yearStepOk_nil_right _
    | exact yearStepOk_of _ _ _ _ ‹_› ‹_›

end OH.Proofs.SynClosure
