import OH.Proofs.EvalSpecMonad
import OH.Proofs.EvalSpecSat
import OH.Proofs.CalendarEval
import OH.Spec.Rules
import OH.Model.ParserWF
/-
C01 refinement, dated ranges (`MonthdayRange.date`), basics shared by the three sub-classes:
 * `dateOnYear` is the specification's `dateInstance` (same clamping of impossible days);
 * instances of a date lie inside their year; shifted instances within the offset bound of it;
 * a declarative reading of `datedOk` (no `maxOpt`).
-/
namespace OH.Proofs.EvalSpec
open OH.Model OH.Model.Cal
open OH.Spec (shift dateInstance exactInstance specYear datedOk maxOpt candidateYears yearsNear yearSpan isFixedDate)

/-! ### instances of a date on a year -/

theorem firstValidBelow_spec (y : Int) (m : Nat) (succ : Bool) (hy1 : minYear ≤ y) (hy2 : y ≤ maxYear)
    (hm1 : 1 ≤ m) (hm2 : m ≤ 11) (k : Nat) (hk : daysInMonth y m ≤ k) :
    firstValidBelow y m succ k =
      some (if succ then ymdRaw y m (daysInMonth y m) + 1 else ymdRaw y m (daysInMonth y m)) := by
  have hb := daysInMonth_bounds y m
  induction k with
  | zero => omega
  | succ k ih =>
    unfold firstValidBelow
    rw [if_neg (by omega)]
    by_cases hk' : k + 1 = daysInMonth y m
    · have v : ValidYmd y m (k + 1) := ⟨hm1, by omega, by omega, by omega⟩
      rw [ofYmd?_of_valid hy1 hy2 v, hk']
      simp only []
      cases succ
      · rfl
      · simp only [if_true]
        have hlt : ymdRaw y m (daysInMonth y m) < maxDay := by
          have := (ymdRaw_bounds (validYmd_last y hm1 (by omega))).2
          have h13 := monthStart_succ_le_yearLen y m hm1 (by omega)
          have hle : yearStart y + yearLen y ≤ yearStart (maxYear + 1) := by
            rw [← yearStart_succ]; exact yearStart_le (by omega)
          rw [yearStart_maxYear_succ] at hle
          rw [maxDay_eq]
          have h12 := monthStart_lt (y := y) (m := m + 1) (m' := 13) (by omega) (by omega) (by omega)
          have hs := monthStart_succ y m hm1 (by omega)
          simp only [monthStart_13] at h12
          have hb' := daysInMonth_bounds y (m + 1)
          unfold ymdRaw at *
          omega
        rw [(succ?_eq_some_iff (d' := ymdRaw y m (daysInMonth y m) + 1)).2 ⟨hlt, rfl⟩]
    · have hn : ofYmd? y m (k + 1) = none := by
        rw [ofYmd?_eq_none_iff]; unfold ValidYmd; omega
      rw [hn]
      exact ih (by omega)

/-- the clamped instance of a yearless fixed date: the model's `valid_ymd_after`/`valid_ymd_before` -/
def fixedInstance (y : Int) (m dd : Nat) (after : Bool) : Int :=
  if dd ≤ daysInMonth y m then ymdRaw y m dd
  else if after then ymdRaw y m (daysInMonth y m) + 1 else ymdRaw y m (daysInMonth y m)

theorem validYmd_eq (y : Int) (m dd : Nat) (after : Bool) (hy1 : minYear ≤ y) (hy2 : y ≤ maxYear)
    (hm1 : 1 ≤ m) (hm2 : m ≤ 12) (hd1 : 1 ≤ dd) (hd2 : dd ≤ 31) :
    (if after then validYmdAfter y m dd else validYmdBefore y m dd) = fixedInstance y m dd after := by
  unfold fixedInstance validYmdAfter validYmdBefore
  by_cases hv : dd ≤ daysInMonth y m
  · have v : ValidYmd y m dd := ⟨hm1, hm2, hd1, hv⟩
    rw [ofYmd?_of_valid hy1 hy2 v, if_pos hv]; simp
  · have hn : ofYmd? y m dd = none := by rw [ofYmd?_eq_none_iff]; unfold ValidYmd; omega
    have hm : m ≤ 11 := by
      by_cases h12 : m = 12
      · subst h12; simp at hv; omega
      · omega
    rw [hn, if_neg hv]
    simp only []
    rw [firstValidBelow_spec y m true hy1 hy2 hm1 hm _ (by omega),
      firstValidBelow_spec y m false hy1 hy2 hm1 hm _ (by omega)]
    cases after <;> simp

theorem dateInstance_fixed (yr : Option Nat) (y : Int) (m dd : Nat) (after : Bool)
    (hyr : yr = none ∨ yr.map (fun (n : Nat) => (n : Int)) = some y)
    (hy1 : minYear ≤ y) (hy2 : y ≤ maxYear)
    (hm1 : 1 ≤ m) (hm2 : m ≤ 12) (hd1 : 1 ≤ dd) (hd2 : dd ≤ 31) :
    dateInstance (.fixed yr m dd) y after = some (fixedInstance y m dd after) := by
  unfold dateInstance fixedInstance
  have hc : yr.isNone = true ∨ yr.map (fun (n : Nat) => (n : Int)) = some y := by
    rcases hyr with h | h
    · left; simp [h]
    · right; exact h
  simp only [if_pos hc]
  by_cases hv : dd ≤ daysInMonth y m
  · have v : ValidYmd y m dd := ⟨hm1, hm2, hd1, hv⟩
    rw [ofYmd?_of_valid hy1 hy2 v, if_pos hv]
  · have hn : ofYmd? y m dd = none := by rw [ofYmd?_eq_none_iff]; unfold ValidYmd; omega
    rw [hn, if_neg hv]
    simp only []
    rw [if_pos (by omega)]
    cases after <;> simp

/-- `date_on_year` is the specification's `dateInstance`, for a date without a year or on its own year -/
theorem dateOnYear_eq_instance (ds : DateSpec) (y : Int) (after : Bool) (hwf : ds.wf = true)
    (hy1 : minYear ≤ y) (hy2 : y ≤ maxYear) (hyr : specYear ds = none ∨ specYear ds = some y) :
    dateOnYear ds y after = .ok (dateInstance ds y after) := by
  cases ds with
  | easter yr =>
    obtain ⟨r, hr⟩ := easter_no_panic y
    unfold dateOnYear dateInstance
    simp only [specYear] at hyr
    cases yr with
    | none => simp [hr]
    | some y' =>
      simp only [Option.map_some, reduceCtorEq, Option.some.injEq, false_or] at hyr
      subst hyr
      simp [hr]
  | fixed yr m dd =>
    simp only [DateSpec.wf, Bool.and_eq_true, decide_eq_true_eq] at hwf
    obtain ⟨⟨⟨⟨_, hm1⟩, hm2⟩, hd1⟩, hd2⟩ := hwf
    simp only [specYear] at hyr
    have hyr' : yr = none ∨ yr.map (fun (n : Nat) => (n : Int)) = some y := by
      rcases hyr with h | h
      · left; cases yr <;> simp_all
      · right; exact h
    rw [dateInstance_fixed yr y m dd after hyr' hy1 hy2 hm1 hm2 hd1 hd2]
    unfold dateOnYear
    cases yr with
    | none => simp only []; rw [validYmd_eq y m dd after hy1 hy2 hm1 hm2 hd1 hd2]
    | some y' =>
      simp only [Option.map_some, reduceCtorEq, Option.some.injEq, false_or] at hyr'
      subst hyr'
      simp only [if_true]
      rw [validYmd_eq _ m dd after hy1 hy2 hm1 hm2 hd1 hd2]

/-- a date with a year has no instance on another year (specification side) -/
theorem dateInstance_other_year (ds : DateSpec) (y y' : Int) (after : Bool)
    (h : specYear ds = some y') (hne : y ≠ y') (hy : 0 < y') : dateInstance ds y after = none := by
  cases ds with
  | easter yr =>
    cases yr with
    | none => simp [specYear] at h
    | some n =>
      simp only [specYear, Option.map_some, Option.some.injEq] at h
      unfold dateInstance
      have : ¬ (some n = some y.toNat) := by simp; omega
      simp [this]
  | fixed yr m dd =>
    cases yr with
    | none => simp [specYear] at h
    | some n =>
      simp only [specYear, Option.map_some, Option.some.injEq] at h
      unfold dateInstance
      have : ¬ ((n : Int) = y) := by omega
      simp [this]

/-- the clamped instance lies inside its year -/
theorem fixedInstance_year (y : Int) (m dd : Nat) (after : Bool)
    (hm1 : 1 ≤ m) (hm2 : m ≤ 12) (hd1 : 1 ≤ dd) (hd2 : dd ≤ 31) :
    yearStart y < fixedInstance y m dd after ∧ fixedInstance y m dd after ≤ yearStart (y + 1) := by
  unfold fixedInstance
  rw [yearStart_succ]
  by_cases hv : dd ≤ daysInMonth y m
  · rw [if_pos hv]; exact ymdRaw_bounds ⟨hm1, hm2, hd1, hv⟩
  · rw [if_neg hv]
    have hm : m ≤ 11 := by
      by_cases h12 : m = 12
      · subst h12; simp at hv; omega
      · omega
    have b := ymdRaw_bounds (validYmd_last y hm1 hm2)
    have h12 := monthStart_lt (y := y) (m := m + 1) (m' := 13) (by omega) (by omega) (by omega)
    have hs := monthStart_succ y m hm1 (by omega)
    simp only [monthStart_13] at h12
    have hb' := daysInMonth_bounds y (m + 1)
    cases after <;> simp only [if_true, Bool.false_eq_true, if_false] <;> unfold ymdRaw at * <;> omega

/-- every instance of a well-formed date lies inside the year it is taken on (Easter: on the years from 0 on,
where the computus is the one of the Gregorian calendar) -/
theorem dateInstance_year (ds : DateSpec) (y : Int) (after : Bool) (hwf : ds.wf = true)
    (hy1 : minYear ≤ y) (hyE : isFixedDate ds = false → 0 ≤ y) (hy2 : y ≤ maxYear) (p : Int)
    (h : dateInstance ds y after = some p) :
    yearStart y < p ∧ p ≤ yearStart (y + 1) := by
  cases ds with
  | easter yr =>
    obtain ⟨d, he, hyd, _⟩ := easter_spec y (hyE rfl) hy2
    simp only [dateInstance, he] at h
    split at h
    · simp only [Option.some.injEq] at h; subst h
      have := year_spec d; rw [hyd] at this; omega
    · cases h
  | fixed yr m dd =>
    simp only [DateSpec.wf, Bool.and_eq_true, decide_eq_true_eq] at hwf
    obtain ⟨⟨⟨⟨_, hm1⟩, hm2⟩, hd1⟩, hd2⟩ := hwf
    by_cases hc : yr = none ∨ yr.map (fun (n : Nat) => (n : Int)) = some y
    · rw [dateInstance_fixed yr y m dd after hc hy1 hy2 hm1 hm2 hd1 hd2] at h
      simp only [Option.some.injEq] at h; subst h
      exact fixedInstance_year y m dd after hm1 hm2 hd1 hd2
    · simp only [dateInstance] at h
      have : ¬ (yr.isNone = true ∨ yr.map (fun (n : Nat) => (n : Int)) = some y) := by
        intro h'; apply hc
        rcases h' with h' | h'
        · left; cases yr <;> simp_all
        · right; exact h'
      rw [if_neg this] at h; cases h

/-! ### a declarative reading of `datedOk` -/

theorem foldl_max_spec (l : List Int) (b : Int) :
    b ≤ l.foldl max b ∧ (∀ x ∈ l, x ≤ l.foldl max b) ∧ (l.foldl max b = b ∨ l.foldl max b ∈ l) := by
  induction l generalizing b with
  | nil => simp
  | cons x xs ih =>
    simp only [List.foldl_cons, List.mem_cons]
    obtain ⟨h1, h2, h3⟩ := ih (max b x)
    refine ⟨by omega, ?_, ?_⟩
    · rintro y (rfl | hy)
      · omega
      · exact h2 y hy
    · rcases h3 with h | h
      · rw [h]; by_cases hb : x ≤ b
        · left; omega
        · right; left; omega
      · right; right; exact h

theorem maxOpt_cons (x : Int) (xs : List Int) : maxOpt (x :: xs) = some (xs.foldl max x) := by
  unfold maxOpt
  simp only [List.foldl_cons]
  generalize x = b
  induction xs generalizing b with
  | nil => rfl
  | cons y ys ih => simp only [List.foldl_cons]; exact ih _

theorem maxOpt_none (l : List Int) : maxOpt l = none ↔ l = [] := by
  cases l with
  | nil => simp [maxOpt]
  | cons x xs => simp [maxOpt_cons]

theorem maxOpt_some (l : List Int) (a : Int) (h : maxOpt l = some a) : a ∈ l ∧ ∀ x ∈ l, x ≤ a := by
  cases l with
  | nil => simp [maxOpt] at h
  | cons x xs =>
    simp only [maxOpt_cons, Option.some.injEq] at h
    obtain ⟨h1, h2, h3⟩ := foldl_max_spec xs x
    rw [h] at h1 h2 h3
    simp only [List.mem_cons]
    refine ⟨?_, ?_⟩
    · rcases h3 with h3 | h3
      · left; exact h3
      · right; exact h3
    · rintro y (rfl | hy)
      · exact h1
      · exact h2 y hy

theorem mem_yearsNear (c : Int) (w : Nat) (y : Int) : y ∈ yearsNear c w ↔ c - w ≤ y ∧ y ≤ c + w := by
  unfold yearsNear
  simp only [List.mem_map, List.mem_range]
  constructor
  · rintro ⟨i, hi, rfl⟩; omega
  · intro h; exact ⟨(y - (c - w)).toNat, by omega, by omega⟩

/-- the shifted start instances the specification considers -/
def specStarts (s : DateSpec) (so : DateOffset) (e : DateSpec) (eo : DateOffset) (d : Int) : List Int :=
  (candidateYears s e (yearSpan so eo) d).filterMap (fun y => (dateInstance s y true).map (shift so))

/-- the shifted end instances the specification considers -/
def specEnds (s : DateSpec) (so : DateOffset) (e : DateSpec) (eo : DateOffset) (d : Int) : List Int :=
  (candidateYears s e (yearSpan so eo) d).filterMap (fun y => (dateInstance e y false).map (shift eo))

theorem mem_specStarts {s so e eo d x} : x ∈ specStarts s so e eo d ↔
    ∃ y ∈ candidateYears s e (yearSpan so eo) d, ∃ p, dateInstance s y true = some p ∧ x = shift so p := by
  unfold specStarts
  simp only [List.mem_filterMap, Option.map_eq_some_iff]
  constructor
  · rintro ⟨y, hy, p, hp, rfl⟩; exact ⟨y, hy, p, hp, rfl⟩
  · rintro ⟨y, hy, p, hp, rfl⟩; exact ⟨y, hy, p, hp, rfl⟩

theorem mem_specEnds {s so e eo d x} : x ∈ specEnds s so e eo d ↔
    ∃ y ∈ candidateYears s e (yearSpan so eo) d, ∃ p, dateInstance e y false = some p ∧ x = shift eo p := by
  unfold specEnds
  simp only [List.mem_filterMap, Option.map_eq_some_iff]
  constructor
  · rintro ⟨y, hy, p, hp, rfl⟩; exact ⟨y, hy, p, hp, rfl⟩
  · rintro ⟨y, hy, p, hp, rfl⟩; exact ⟨y, hy, p, hp, rfl⟩

/-- Declarative reading of a dated range that is not a single fixed day: `d` is selected iff SOME
start instance at or before `d` has no end instance between it and `d` (then the latest one has
none either) — and, when the end carries a year, some end instance is at or after `d`. -/
theorem datedOk_range_iff (s : DateSpec) (so : DateOffset) (e : DateSpec) (eo : DateOffset) (d : Int)
    (hns : ¬ (s = e ∧ isFixedDate s = true)) :
    datedOk s so e eo d = true ↔
      ∃ s0 ∈ specStarts s so e eo d, s0 ≤ d ∧ (∀ x ∈ specEnds s so e eo d, ¬ (s0 ≤ x ∧ x < d)) ∧
        (specYear e ≠ none → ∃ x ∈ specEnds s so e eo d, d ≤ x) := by
  unfold datedOk
  simp only [if_neg hns]
  change (match maxOpt ((specStarts s so e eo d).filter (· ≤ d)) with
    | none => false
    | some s0 => !((specEnds s so e eo d).any (fun x => decide (s0 ≤ x) && decide (x < d))) &&
        (match specYear e with | some _ => (specEnds s so e eo d).any (fun x => decide (d ≤ x)) | none => true)) = true ↔ _
  have tail : (match specYear e with | some _ => (specEnds s so e eo d).any (fun x => decide (d ≤ x)) | none => true) = true
      ↔ (specYear e ≠ none → ∃ x ∈ specEnds s so e eo d, d ≤ x) := by
    cases specYear e <;> simp
  cases hm : maxOpt ((specStarts s so e eo d).filter (· ≤ d)) with
  | none =>
    rw [maxOpt_none] at hm
    simp only [Bool.false_eq_true, false_iff]
    rintro ⟨s0, hs0, hle, _⟩
    have : s0 ∈ (specStarts s so e eo d).filter (· ≤ d) := by simp [hs0, hle]
    rw [hm] at this; simp at this
  | some a =>
    obtain ⟨ha, hmax⟩ := maxOpt_some _ _ hm
    simp only [List.mem_filter, decide_eq_true_eq] at ha hmax
    simp only [Bool.and_eq_true, Bool.not_eq_true', List.any_eq_false, decide_eq_true_eq, tail]
    constructor
    · rintro ⟨h1, h2⟩
      exact ⟨a, ha.1, ha.2, fun x hx => by have := h1 x hx; omega, h2⟩
    · rintro ⟨s0, hs0, hle, hno, h2⟩
      refine ⟨fun x hx => ?_, h2⟩
      have := hno x hx
      have := hmax s0 ⟨hs0, hle⟩
      omega

end OH.Proofs.EvalSpec
