/-
Shared by `OH/Props/ArithC02Eval*.lean`: the generated `OpeningHours::next_change_hint` (`OH.Generated.Arith.Eval.*`,
region `[eval2 extension]`) at the instantiation of `OH/Proofs/ArithEval.lean` (the carriers of the hand-written model
`OH/Model/Eval.lean`), the untranslated callees (named, effectful parameters) instantiated with the model's functions.
Definitions and small lemmas only; the tie theorems are in `OH/Props/ArithC02Eval.lean`.
-/
import OH.Proofs.ArithEval
namespace OH.Proofs.ArithEval2
open OH.Model.RustInt
open OH.Model.RustChrono
open OH.Generated.Arith
open OH.Proofs.ArithEval

/-! The generated definitions are parametric in the day-selector type `DaySel`; an instantiation of it (`DayInst`) is a
carrier `DS`, its reading as a model `DaySelector`, and the three day-selector functions the generated code takes BY NAME
together with the proofs that they are the model's.  Two instances are used: the model's own functions
(`modelInst`) and the GENERATED `DayFilter.DaySelector.*` (in `OH/Props/ArithC02EvalLink.lean`, by the theorems of
`ArithC02EvalDay`). -/

abbrev GRuleD (DS : Type) := Eval.RuleSequence Nat OH.Model.Kind (List String) OH.Model.RuleOp DS (List OH.Model.TimeSpan) OH.Model.Ctx
abbrev GExprD (DS : Type) := Eval.OpeningHoursExpression Nat OH.Model.Kind (List String) OH.Model.RuleOp DS (List OH.Model.TimeSpan) OH.Model.Ctx
abbrev GOHD (DS : Type) := Eval.OpeningHours Nat OH.Model.Kind (List String) OH.Model.RuleOp DS (List OH.Model.TimeSpan) OH.Model.Ctx

structure DayInst (DS : Type) where
  toDS : DS → OH.Model.DaySelector
  filt : DS → Int → OH.Model.Ctx → R Bool
  hint : DS → Int → OH.Model.Ctx → R (Option Int)
  isEmp : DS → R Bool
  filt_eq : ∀ ds d ctx, filt ds d ctx = liftR (OH.Model.DaySelector.filter ctx (toDS ds) d)
  hint_eq : ∀ ds d ctx, hint ds d ctx = liftR (OH.Model.DaySelector.hint ctx (toDS ds) d)
  isEmp_eq : ∀ ds, isEmp ds = .ok (toDS ds).isEmpty

/-- generated `RuleSequence` ↦ the model's `Rule` -/
def toRuleD {DS : Type} (I : DayInst DS) (r : GRuleD DS) : OH.Model.Rule :=
  ⟨I.toDS r.day_selector, r.time_selector, r.kind, r.operator, r.comments⟩
@[simp] theorem toRuleD_kind {DS : Type} (I : DayInst DS) (r : GRuleD DS) : (toRuleD I r).kind = r.kind := rfl
@[simp] theorem toRuleD_op {DS : Type} (I : DayInst DS) (r : GRuleD DS) : (toRuleD I r).op = r.operator := rfl

def gImmutable (ts : List OH.Model.TimeSpan) : R Bool := .ok (OH.Model.isImmutableFullDay ts)
def gIs0024 (ts : List OH.Model.TimeSpan) : R Bool := .ok (OH.Model.is0024 ts)

/-- the model functions standing for the untranslated day-selector callees -/
def gHint (ds : OH.Model.DaySelector) (d : Int) (ctx : OH.Model.Ctx) : R (Option Int) := liftR (OH.Model.DaySelector.hint ctx ds d)
def gIsEmpty (ds : OH.Model.DaySelector) : R Bool := .ok ds.isEmpty
def modelInst : DayInst OH.Model.DaySelector :=
  ⟨id, gFilter, gHint, gIsEmpty, fun _ _ _ => rfl, fun _ _ _ => rfl, fun _ => rfl⟩

/-- the generated `RuleSequence::is_constant`, the `find` of `OpeningHoursExpression::is_constant` and that function at
an instantiation -/
def gRuleIsConstant {DS : Type} (I : DayInst DS) (r : GRuleD DS) : R Bool :=
  Eval.RuleSequence.is_constant r (ext_day_selector_is_empty := I.isEmp) (ext_time_selector_is_00_24 := gIs0024)
def gFind {DS : Type} (I : DayInst DS) (kind : OH.Model.Kind) (rules : List (GRuleD DS)) : R (Option (GRuleD DS)) :=
  Eval.OpeningHoursExpression.is_constant.find1 kind rules (RuleKind_Closed := .closed) (RuleOperator_Fallback := .fallback)
    (ext_day_selector_is_empty := I.isEmp) (ext_time_selector_is_00_24 := gIs0024)
def gIsConstant {DS : Type} (I : DayInst DS) (e : GExprD DS) : R Bool :=
  Eval.OpeningHoursExpression.is_constant e (RuleKind_Closed := .closed) (RuleOperator_Fallback := .fallback)
    (ext_day_selector_is_empty := I.isEmp) (ext_time_selector_is_00_24 := gIs0024)

/-- the generated adaptor `.map(|rule| ..)` of `next_change_hint` at an instantiation -/
def gHintMap {DS : Type} (I : DayInst DS) (self : GOHD DS) (d : Int) (rules : List (GRuleD DS)) : R (List (Option Int)) :=
  Eval.OpeningHours.next_change_hint.map1 self d rules (RuleKind_Closed := .closed) (RuleOperator_Fallback := .fallback)
    (ext_day_selector_filter := I.filt) (ext_day_selector_is_empty := I.isEmp)
    (ext_day_selector_next_change_hint := I.hint) (ext_time_selector_is_00_24 := gIs0024)
    (ext_time_selector_is_immutable_full_day := gImmutable)

/-- the generated `OpeningHours::next_change_hint` at an instantiation (it CALLS the generated `is_constant`) -/
def gNextChangeHint {DS : Type} (I : DayInst DS) (self : GOHD DS) (d : Int) : R (Option Int) :=
  Eval.OpeningHours.next_change_hint self d (RuleKind_Closed := .closed) (RuleOperator_Fallback := .fallback)
    (ext_day_selector_filter := I.filt) (ext_day_selector_is_empty := I.isEmp)
    (ext_day_selector_next_change_hint := I.hint) (ext_time_selector_is_00_24 := gIs0024)
    (ext_time_selector_is_immutable_full_day := gImmutable)

/-- the predicate of the `find` of the model's `isConstant` -/
def tailPred (kind : OH.Model.Kind) (rs : OH.Model.Rule) : Bool :=
  rs.day.isEmpty || !OH.Model.is0024 rs.time || rs.kind != kind

/-- the closure of the model's `nextChangeHint` (one rule), the outcomes of its callees abstract -/
def ruleHintCore (imm : Bool) (f1 : OH.Model.M Bool) (p : Option Int) (f2 : Int → OH.Model.M Bool)
    (h : OH.Model.M (Option Int)) (s : Option Int) : OH.Model.M (Option Int) := do
  if imm then h
  else
    let m ← (do
      if ← f1 then pure true
      else match p with
        | none => pure false
        | some p => f2 p)
    if !m then h else pure s

/-- the closure of the model's `nextChangeHint` (one rule) -/
def modelRuleHint (ctx : OH.Model.Ctx) (d : Int) (r : OH.Model.Rule) : OH.Model.M (Option Int) :=
  ruleHintCore (OH.Model.isImmutableFullDay r.time) (r.day.filter ctx d) (OH.Model.Cal.pred? d) (fun p => r.day.filter ctx p)
    (r.day.hint ctx d) (OH.Model.Cal.succ? d)

theorem optMin_assoc (a b c : Option Int) :
    OH.Model.optMin (OH.Model.optMin a b) c = OH.Model.optMin a (OH.Model.optMin b c) := by
  cases a <;> cases b <;> cases c <;> simp [OH.Model.optMin, Int.min_assoc]

theorem minStep_eq (a b : Option Int) : (if optDateGt a b then b else a) = OH.Model.optMin a b := by
  cases a <;> cases b <;> simp [optDateGt, OH.Model.optMin]
  rename_i x y
  by_cases h : y < x
  · simp [h, Int.min_def] <;> omega
  · simp [h, Int.min_def] <;> omega

theorem hintsMin_cons_optMin (x y : Option Int) (ys : List (Option Int)) :
    OH.Model.hintsMin (OH.Model.optMin x y :: ys) = OH.Model.hintsMin (x :: y :: ys) := by
  cases ys with
  | nil => simp [OH.Model.hintsMin]
  | cons z zs => simp [OH.Model.hintsMin, optMin_assoc]

theorem foldl_optMin (xs : List (Option Int)) (x : Option Int) :
    xs.foldl OH.Model.optMin x = OH.Model.hintsMin (x :: xs) := by
  induction xs generalizing x with
  | nil => simp [OH.Model.hintsMin]
  | cons y ys ih => rw [List.foldl_cons, ih, hintsMin_cons_optMin]

/-- std's `Iterator::min` followed by `flatten` is the model's `hintsMin` on a non-empty list, `None` on the empty one -/
theorem minJoin_eq (hs : List (Option Int)) :
    Option.join (iterMinOptDate hs) = (match hs with | [] => none | _ => OH.Model.hintsMin hs) := by
  cases hs with
  | nil => rfl
  | cons x xs =>
    have : (fun acc y : Option Int => if optDateGt acc y then y else acc) = OH.Model.optMin := by
      funext a b; exact minStep_eq a b
    simp [iterMinOptDate, this, foldl_optMin]

/-! ### `DateFilter for [T]` / `DateFilter for DaySelector` (region `[eval2 extension]`, second part) -/

abbrev GDaySel := DayFilter.DaySelector OH.Model.YearRange OH.Model.MonthdayRange OH.Model.WeekRange OH.Model.WeekDayRange

/-- generated `DaySelector` ↦ the model's (a bijection: the same four fields) -/
def toDS (s : GDaySel) : OH.Model.DaySelector := ⟨s.year, s.monthday, s.week, s.weekday⟩

/-- the model's per-selector functions standing for the `DateFilter` impls of the four element types -/
def gYearF (r : OH.Model.YearRange) (d : Int) (_ : OH.Model.Ctx) : R Bool := liftR (r.filter d)
def gMonthdayF (r : OH.Model.MonthdayRange) (d : Int) (_ : OH.Model.Ctx) : R Bool := liftR (r.filter d)
def gWeekF (r : OH.Model.WeekRange) (d : Int) (_ : OH.Model.Ctx) : R Bool := liftR (r.filter d)
def gWeekdayF (r : OH.Model.WeekDayRange) (d : Int) (ctx : OH.Model.Ctx) : R Bool := liftR (r.filter ctx d)
def gYearH (r : OH.Model.YearRange) (d : Int) (_ : OH.Model.Ctx) : R (Option Int) := liftR (r.hint d)
def gMonthdayH (r : OH.Model.MonthdayRange) (d : Int) (_ : OH.Model.Ctx) : R (Option Int) := liftR (r.hint d)
def gWeekH (r : OH.Model.WeekRange) (d : Int) (_ : OH.Model.Ctx) : R (Option Int) := liftR (r.hint d)
def gWeekdayH (r : OH.Model.WeekDayRange) (d : Int) (ctx : OH.Model.Ctx) : R (Option Int) := liftR (r.hint ctx d)

/-- the generated `DaySelector::filter` / `next_change_hint` at the instantiation -/
def gDayFilter (s : GDaySel) (d : Int) (ctx : OH.Model.Ctx) : R Bool :=
  DayFilter.DaySelector.filter s d ctx (ext_year_range_filter := gYearF) (ext_monthday_range_filter := gMonthdayF)
    (ext_week_range_filter := gWeekF) (ext_weekday_range_filter := gWeekdayF)
def gDayHint (s : GDaySel) (d : Int) (ctx : OH.Model.Ctx) : R (Option Int) :=
  DayFilter.DaySelector.next_change_hint s d ctx (ext_year_range_next_change_hint := gYearH)
    (ext_monthday_range_next_change_hint := gMonthdayH) (ext_week_range_next_change_hint := gWeekH)
    (ext_weekday_range_next_change_hint := gWeekdayH)

/-- std's `Iterator::min` with the default `Some(DATE_END)` is the model's `hintsMin` -/
theorem minGetD_eq (hs : List (Option Int)) :
    Option.getD (iterMinOptDate hs) (some Chrono.DATE_END) = OH.Model.hintsMin hs := by
  cases hs with
  | nil => rfl
  | cons x xs =>
    have : (fun acc y : Option Int => if optDateGt acc y then y else acc) = OH.Model.optMin := by
      funext a b; exact minStep_eq a b
    simp [iterMinOptDate, this, foldl_optMin]

/-- `.min().unwrap()` of the four hints -/
theorem min4_eq (a b c e : Option Int) :
    iterMinOptDate [a, b, c, e] = some (OH.Model.optMin (OH.Model.optMin a b) (OH.Model.optMin c e)) := by
  have : (fun acc y : Option Int => if optDateGt acc y then y else acc) = OH.Model.optMin := by
    funext a b; exact minStep_eq a b
  simp [iterMinOptDate, this, optMin_assoc]

end OH.Proofs.ArithEval2
