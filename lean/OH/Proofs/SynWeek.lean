import OH.Proofs.SynYear
/-
Wide-range selectors, part 2: the week selector
  `week_selector = { separator_for_readability? ~ "week" ~ space? ~ week ~ ("," ~ week)* }`
printed ` week01-10/2,20` (or `week…` at the very start of a rule).
-/
namespace OH.Proofs.Syn
open OH.Model

/-- every week range the parser can build: `weeknum` is 1..53, the step is a positive `u8` -/
def okWeek (w : WeekRange) : Bool :=
  decide (1 ≤ w.lo ∧ w.lo ≤ 53 ∧ 1 ≤ w.hi ∧ w.hi ≤ 53 ∧ 1 ≤ w.step ∧ w.step < 256)

end OH.Proofs.Syn

namespace OH.Proofs.Syn.Wide
open OH.Model OH.Model.Peg OH.Model.Parser OH.Generated.Grammar OH.Proofs.Syn

/-! ### `weeknum = @{ '1'..'4' ~ DIGIT | "5" ~ '0'..'3' | "0"? ~ '1'..'9' }` -/

def weeknumTree (n : Nat) : T := .node .weeknum (Print.pad2 n) []

@[simp] theorem weeknumTree_rule (n : Nat) : (weeknumTree n).rule = .weeknum := rfl

theorem dc_14 : ∀ d, d < 5 → 1 ≤ d → '1' ≤ dc d ∧ dc d ≤ '4' := by decide
theorem dc_19 : ∀ d, d < 10 → 1 ≤ d → '1' ≤ dc d ∧ dc d ≤ '9' := by decide

theorem run_weeknum (q : Bool) (n : Nat) (h : 1 ≤ n ∧ n ≤ 53) (rest : List Char) :
    run g_weeknum q (Print.pad2 n ++ rest) =
      some (if q then ⟨[], Print.pad2 n, rest⟩ else ⟨[weeknumTree n], Print.pad2 n, rest⟩) := by
  unfold weeknumTree
  rw [pad2_lt100 n (by omega)]
  have d0 : dc 0 = '0' := by decide
  have d5 : dc 5 = '5' := by decide
  by_cases h10 : n < 10
  · have e1 : n / 10 = 0 := by omega
    have e2 : n % 10 = n := by omega
    have h2 := dc_19 n h10 h.1
    simp [g_weeknum, peg, e1, e2, d0, h2]
    cases q <;> simp
  · by_cases h50 : n < 50
    · have h1 := dc_14 (n / 10) (by omega) (by omega)
      have h2 := dc_digit (n % 10) (by omega)
      simp [g_weeknum, peg, h1, h2]
      cases q <;> simp
    · have e1 : n / 10 = 5 := by omega
      have h2 := dc_le3 (n % 10) (by omega)
      simp [g_weeknum, peg, e1, d5, h2]
      cases q <;> simp

theorem build_weeknum (n : Nat) (h : n < 100) : buildWeeknum (weeknumTree n) = .ok n := by
  have : n < u8Bound := by unfold u8Bound; omega
  simp [buildWeeknum, weeknumTree, assertRule, parseBounded, natOfDigits_pad2 n h, this, bind,
    Except.bind]

theorem run_weeknum_none (q : Bool) (inp : List Char)
    (h : ∀ c r, inp = c :: r → ¬ ('0' ≤ c ∧ c ≤ '9')) : run g_weeknum q inp = none := by
  cases inp with
  | nil => simp [g_weeknum, peg]
  | cons c r =>
    have hc := h c r rfl
    have h1 : ¬ ('1' ≤ c ∧ c ≤ '4') := fun ⟨a, b⟩ =>
      hc ⟨Char.le_trans (by decide) a, Char.le_trans b (by decide)⟩
    have h2 : '5' ≠ c := by intro e; subst e; exact hc (by decide)
    have h3 : '0' ≠ c := by intro e; subst e; exact hc (by decide)
    have h4 : ¬ ('1' ≤ c ∧ c ≤ '9') := fun ⟨a, b⟩ => hc ⟨Char.le_trans (by decide) a, b⟩
    simp [g_weeknum, peg, h1, h2, h3, h4]

/-! ### `week = { weeknum ~ ("-" ~ weeknum ~ ("/" ~ positive_number)?)? }` -/

def weekTree (w : WeekRange) : T :=
  .node .week (Print.weekRange w)
    (if w.lo = w.hi ∧ w.step = 1 then [weeknumTree w.lo]
     else weeknumTree w.lo :: weeknumTree w.hi :: (if w.step ≠ 1 then [pnTree w.step] else []))

/-- what may follow ONE printed week range -/
def FeWeek (w : WeekRange) (rest : List Char) : Prop :=
  (∀ r, rest ≠ '-' :: r) ∧ (∀ r, rest ≠ '/' :: r) ∧ (w.step ≠ 1 → NoDigit rest)

theorem FeWeek_comma (w : WeekRange) (r : List Char) : FeWeek w (',' :: r) := by
  refine ⟨fun _ h => (by cases h), fun _ h => (by cases h), ?_⟩
  intro _ c r' e
  cases e
  decide

theorem str1_none (q : Bool) (c : Char) (rest : List Char) (h : ∀ r, rest ≠ c :: r) :
    run (.str [c] : G) q rest = none := by
  cases rest with
  | nil => simp [peg]
  | cons d r =>
    have : c ≠ d := by intro e; subst e; exact h r rfl
    simp [peg, this]

theorem run_week (w : WeekRange) (hw : okWeek w = true) (rest : List Char) (hf : FeWeek w rest) :
    run g_week false (Print.weekRange w ++ rest) = some ⟨[weekTree w], Print.weekRange w, rest⟩ := by
  simp only [okWeek, decide_eq_true_eq] at hw
  obtain ⟨hm, hsl, hd⟩ := hf
  unfold weekTree Print.weekRange
  by_cases h : w.lo = w.hi ∧ w.step = 1
  · have h2 := str1_none false '-' rest hm
    simp only [h, and_self, if_true]
    simp [g_week, peg, run_weeknum false w.hi (by omega), h2]
  · simp only [h, if_false]
    by_cases hs1 : w.step = 1
    · have h2 := str1_none false '/' rest hsl
      simp only [hs1, ne_eq, not_true, if_false, List.append_nil, List.append_assoc, List.cons_append,
        List.nil_append]
      simp [g_week, peg, run_weeknum false w.lo (by omega), run_weeknum false w.hi (by omega), h2]
    · have hpn := run_positive_number false w.step (by omega) rest (hd hs1)
      simp only [hs1, ne_eq, not_false_eq_true, if_true, List.append_assoc, List.cons_append,
        List.nil_append]
      simp [g_week, peg, run_weeknum false w.lo (by omega), run_weeknum false w.hi (by omega), hpn,
        pnTree]

theorem build_week (w : WeekRange) (hw : okWeek w = true) : buildWeek (weekTree w) = .ok w := by
  simp only [okWeek, decide_eq_true_eq] at hw
  have hb1 : ¬ u8Bound ≤ 1 := by unfold u8Bound; omega
  have hb : ¬ u8Bound ≤ w.step := by unfold u8Bound; omega
  cases w with
  | mk lo hi step =>
    simp only at hw hb
    unfold weekTree
    by_cases h : lo = hi ∧ step = 1
    · obtain ⟨rfl, rfl⟩ := h
      simp [buildWeek, assertRule, build_weeknum lo (by omega), hb1, bind, Except.bind]
    · simp only [h, if_false]
      by_cases hs1 : step = 1
      · subst hs1
        simp [buildWeek, assertRule, build_weeknum lo (by omega), build_weeknum hi (by omega), hb1, bind,
          Except.bind]
      · have hpn := build_pn step (by unfold u64Bound; omega)
        simp [buildWeek, assertRule, build_weeknum lo (by omega), build_weeknum hi (by omega), hs1, hpn,
          hb, bind, Except.bind]

/-- a printed week range starts with a digit -/
theorem weekRange_head (w : WeekRange) (hw : okWeek w = true) :
    ∃ c r, Print.weekRange w = c :: r ∧ ('0' ≤ c ∧ c ≤ '9') := by
  simp only [okWeek, decide_eq_true_eq] at hw
  have hd := dc_digit (w.lo / 10) (by omega)
  unfold Print.weekRange
  rw [pad2_lt100 w.lo (by omega)]
  by_cases h : w.lo = w.hi ∧ w.step = 1
  · exact ⟨_, _, by simp only [h, and_self, if_true]; rfl, hd⟩
  · exact ⟨_, _, by simp only [h, if_false]; rfl, hd⟩

theorem week_selector_head (ws : List WeekRange) (hne : ws ≠ []) (hok : ∀ w ∈ ws, okWeek w = true) :
    ∃ c r, Print.selector Print.weekRange ws = c :: r ∧ ('0' ≤ c ∧ c ≤ '9') := by
  cases ws with
  | nil => exact absurd rfl hne
  | cons w l =>
    obtain ⟨c, r, e, hc⟩ := weekRange_head w (hok w (by simp))
    cases l with
    | nil => exact ⟨c, r, by simp [Print.selector, e], hc⟩
    | cons y l => exact ⟨c, _, by rw [selector_cons2, e]; rfl, hc⟩

end OH.Proofs.Syn.Wide

namespace OH.Proofs.Syn
open OH.Model OH.Model.Peg OH.Model.Parser OH.Generated.Grammar OH.Proofs.Syn.Wide

/-! ### the week selector -/

/-- what may follow a printed week selector: no `-`, no `/`, no digit, no `,` followed by a digit -/
def FollowWeek (rest : List Char) : Prop :=
  (∀ r, rest ≠ '-' :: r) ∧ (∀ r, rest ≠ '/' :: r) ∧ NoDigit rest ∧
    (∀ c r, rest = ',' :: c :: r → ¬ ('0' ≤ c ∧ c ≤ '9'))

theorem week_stop (rest : List Char) (hf : FollowWeek rest) :
    run (.seq (.str [',']) g_week) false rest = none := by
  cases rest with
  | nil => simp [peg]
  | cons c r =>
    by_cases hc : c = ','
    · subst hc
      have hy : run g_weeknum false r = none := by
        apply run_weeknum_none
        intro c' r' e
        exact hf.2.2.2 c' r' (by rw [e])
      simp [g_week, peg, hy]
    · simp [peg, Ne.symm hc]

/-- `week ~ ("," ~ week)*` on the printed list -/
theorem run_week_list (ws : List WeekRange) (hne : ws ≠ []) (hok : ∀ w ∈ ws, okWeek w = true)
    (rest : List Char) (hf : FollowWeek rest) :
    run (.seq g_week (.star (.seq (.str [',']) g_week))) false (Print.selector Print.weekRange ws ++ rest)
      = some ⟨ws.map weekTree, Print.selector Print.weekRange ws, rest⟩ :=
  run_list g_week Print.weekRange weekTree (fun w => okWeek w = true) FeWeek run_week FeWeek_comma
    ws hne hok rest ⟨hf.1, hf.2.1, fun _ => hf.2.2.1⟩ (week_stop rest hf)

theorem build_week_selector (s : List Char) (ws : List WeekRange) (hok : ∀ w ∈ ws, okWeek w = true) :
    buildWeekSelector (.node .week_selector s (ws.map weekTree)) = .ok ws := by
  simp [buildWeekSelector, assertRule, bind, Except.bind,
    mapM_map buildWeek weekTree ws (fun w hw => build_week w (hok w hw))]

/-- ` week01-10/2,20` after a year or month-day selector -/
theorem parses_week_selector (ws : List WeekRange) (hne : ws ≠ []) (hok : ∀ w ∈ ws, okWeek w = true)
    (rest : List Char) (hf : FollowWeek rest) :
    ParsesTo g_week_selector buildWeekSelector
      (' ' :: 'w' :: 'e' :: 'e' :: 'k' :: Print.selector Print.weekRange ws) rest ws := by
  have hrun := run_week_list ws hne hok rest hf
  obtain ⟨c, r, e, hc⟩ := week_selector_head ws hne hok
  have hsp : ' ' ≠ c := by intro h; subst h; exact absurd hc (by decide)
  refine ParsesTo.mk' .week_selector (ws.map weekTree) ?_ (build_week_selector _ ws hok)
  have hsp' : run (.opt g_space) false (Print.selector Print.weekRange ws ++ rest)
      = some (R.nil (Print.selector Print.weekRange ws ++ rest)) := by
    rw [e]; simp [g_space, peg, hsp]
  simp only [g_week_selector, g_separator_for_readability, run_rule, run_seq, run_opt, run_alt, run_str,
    Bool.or_self, List.cons_append, stripPrefix_cons_cons, stripPrefix_nil, if_true, Option.map_some,
    hsp', R.nil, hrun]
  simp [R.append]

/-- `week01-10/2,20` at the very start of a rule (no year, no month-day selector) -/
theorem parses_week_selector_start (ws : List WeekRange) (hne : ws ≠ [])
    (hok : ∀ w ∈ ws, okWeek w = true) (rest : List Char) (hf : FollowWeek rest) :
    ParsesTo g_week_selector buildWeekSelector
      ('w' :: 'e' :: 'e' :: 'k' :: Print.selector Print.weekRange ws) rest ws := by
  have hrun := run_week_list ws hne hok rest hf
  obtain ⟨c, r, e, hc⟩ := week_selector_head ws hne hok
  have hsp : ' ' ≠ c := by intro h; subst h; exact absurd hc (by decide)
  refine ParsesTo.mk' .week_selector (ws.map weekTree) ?_ (build_week_selector _ ws hok)
  have hsp' : run (.opt g_space) false (Print.selector Print.weekRange ws ++ rest)
      = some (R.nil (Print.selector Print.weekRange ws ++ rest)) := by
    rw [e]; simp [g_space, peg, hsp]
  have hsep : run (.opt g_separator_for_readability) false
      ('w' :: 'e' :: 'e' :: 'k' :: (Print.selector Print.weekRange ws ++ rest))
      = some (R.nil ('w' :: 'e' :: 'e' :: 'k' :: (Print.selector Print.weekRange ws ++ rest))) := by
    simp [g_separator_for_readability, peg]
  simp only [List.cons_append]
  simp only [g_week_selector, run_rule, run_seq, Bool.or_self, hsep, R.nil, run_str,
    stripPrefix_cons_cons, stripPrefix_nil, if_true, Option.map_some, hsp', hrun]
  simp [R.append]

/-! ### the follow contexts of a week selector -/

theorem FollowWeek_of_FollowWide (rest : List Char) (h : FollowWide rest) : FollowWeek rest := by
  have hd := NoDigit_of_FollowWide rest h
  rcases h with (rfl | ⟨r, rfl⟩ | ⟨c, r, rfl, _⟩) | ⟨c, r, rfl, _⟩
  · exact ⟨fun _ h => (by cases h), fun _ h => (by cases h), hd, fun _ _ h => (by cases h)⟩
  · refine ⟨fun _ h => (by cases h), fun _ h => (by cases h), hd, ?_⟩
    intro c r' e; cases e; decide
  · exact ⟨fun _ h => (by cases h), fun _ h => (by cases h), hd, fun _ _ h => (by cases h)⟩
  · exact ⟨fun _ h => (by cases h), fun _ h => (by cases h), hd, fun _ _ h => (by cases h)⟩

end OH.Proofs.Syn
