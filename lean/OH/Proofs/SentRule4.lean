import OH.Proofs.SentRule3
/-
C05, assembly, part 4: `selector_sequence` on `Sel.render`, together with the `space?` that follows it
in `rule_sequence`.  Who consumes the space after the selectors depends on the spelling:
 * after a weekday / time selector, after `24/7`, after `"c":` alone: the `space?` of `rule_sequence`;
 * after year / month-day / week selectors written alone (`WideSep.none`): `separator_for_readability?`
   takes it (first alternative `" "`), `space?` matches nothing;
 * after the `:` that closes them (`WideSep.colon`, nothing else in the rule): the ordered choice
   `" " | ": " | ":"` takes `: ` — again the space is gone when `space?` runs.
In every case exactly the one space (when there is one) is consumed: `run_selector_spaceS`.
-/
namespace OH.Proofs.Sent
open OH.Model OH.Model.Peg OH.Model.Parser OH.Generated.Grammar OH.Proofs.Syn OH.Proofs.Syn.Wide
open OH.Spec.Sent (WdSel Span YearR MdRange WeekSel WideSep Sel commaList quote)

/-- the hypothesis on the year / month-day / week selectors of a rule (none for the other shapes) -/
def WideOK : Sel → Prop
  | .sel (.sel ys ms ws _) _ _ => WideHypS ys ms ws
  | _ => True

/-! ### the two shapes of a selector sequence, for any wide part -/

theorem timeSelectorNew_map (ts : List Span) :
    timeSelectorNew (ts.map Span.denote) = if ts.isEmpty then [TimeSpan.fullDay] else ts.map Span.denote := by
  cases ts <;> simp [timeSelectorNew]

/-- wide part, then a weekday and/or time selector, then `space?` -/
theorem selseq_with_small (wtext : List Char) (W : Parser.Wide) (wd : Option WdSel) (ts : List Span)
    (hne : ¬ (wd = none ∧ ts = [])) (hswf : smallWf wd ts) (after sp after' : List Char)
    (hcut : CutS after sp after')
    (hao : run g_always_open false (wtext ++ (smallS wd ts ++ after)) = none)
    (hwide : ParsesTo g_wide_range_selectors buildWideRangeSelectors wtext (smallS wd ts ++ after) W) :
    ∃ t, run (.seq g_selector_sequence (.opt g_space)) false (wtext ++ (smallS wd ts ++ after))
        = some ⟨[t], wtext ++ smallS wd ts ++ sp, after'⟩
      ∧ buildSelectorSequence t
        = .ok (⟨W.year, W.monthday, W.week, wdVal wd⟩,
            (if ts.isEmpty then [TimeSpan.fullDay] else ts.map Span.denote), W.comment) := by
  obtain ⟨tw, htw, hbw⟩ := hwide
  obtain ⟨tsm, htsm, hbsm⟩ := parses_smallS wd ts hne hswf after hcut.followSelS
  have hrw := rule_of_run htw
  have h2 := hcut.optSpace
  have h3 := opt_some' htsm
  refine ⟨.node .selector_sequence (wtext ++ smallS wd ts) [tw, tsm], ?_, ?_⟩
  · simp [g_selector_sequence, run_rule, run_seq, run_alt, hao, htw, h2, h3, R.append]
  · rw [build_selseq_both _ tw tsm hrw _ hbw _ hbsm, timeSelectorNew_map]

/-- wide part alone (it leaves `rest`), then `space?` -/
theorem selseq_wide_only (wtext rest sp rest' : List Char) (W : Parser.Wide)
    (hao : run g_always_open false (wtext ++ rest) = none)
    (hwide : ParsesTo g_wide_range_selectors buildWideRangeSelectors wtext rest W)
    (hsmall : run g_small_range_selectors false rest = none)
    (hsp : run (.opt g_space) false rest = some ⟨[], sp, rest'⟩) :
    ∃ t, run (.seq g_selector_sequence (.opt g_space)) false (wtext ++ rest)
        = some ⟨[t], wtext ++ sp, rest'⟩
      ∧ buildSelectorSequence t = .ok (⟨W.year, W.monthday, W.week, []⟩, [TimeSpan.fullDay], W.comment) := by
  obtain ⟨tw, htw, hbw⟩ := hwide
  have hrw := rule_of_run htw
  have h1 := opt_none' hsmall
  refine ⟨.node .selector_sequence wtext [tw], ?_, build_selseq_wide _ tw hrw _ hbw⟩
  simp [g_selector_sequence, run_rule, run_seq, run_alt, hao, htw, h1, hsp, R.append]

/-! ### what follows the year / month-day / week selectors, from the cut -/

theorem CutS.endHere_or {a sp a' : List Char} (h : CutS a sp a') :
    (sp = [] ∧ EndHere a') ∨ (sp = [' '] ∧ ∃ c r, a' = c :: r ∧ ModStart c) := by
  cases h with
  | nil => exact .inl ⟨rfl, .inl rfl⟩
  | semi r => exact .inl ⟨rfl, .inr (.inl ⟨r, rfl⟩)⟩
  | comma r => exact .inl ⟨rfl, .inr (.inr (.inl ⟨r, rfl⟩))⟩
  | bar r => exact .inl ⟨rfl, .inr (.inr (.inr ⟨r, rfl⟩))⟩
  | space c r hc => exact .inr ⟨rfl, c, r, rfl, hc⟩

/-- nothing else is written in the rule and no separator: the optional separator takes the space -/
theorem CutS.afterWide_none {a sp a' : List Char} (h : CutS a sp a') : AfterWideS sp a' := by
  rcases h.endHere_or with ⟨rfl, he⟩ | ⟨rfl, hm⟩
  · exact .inl ⟨.inl rfl, he⟩
  · exact .inr (.inl ⟨.inl rfl, hm⟩)

/-- nothing else is written in the rule after the closing `:` -/
theorem CutS.afterWide_colon {a sp a' : List Char} (h : CutS a sp a') : AfterWideS (':' :: sp) a' := by
  rcases h.endHere_or with ⟨rfl, he⟩ | ⟨rfl, hm⟩
  · exact .inl ⟨.inr rfl, he⟩
  · exact .inr (.inl ⟨.inr rfl, hm⟩)

theorem afterWide_small (sep : WideSep) (hsep : sep ≠ .none) (rest : List Char) (h : SmallHere rest) :
    AfterWideS sep.render rest := by
  refine .inr (.inr ⟨?_, h⟩)
  cases sep with
  | none => exact absurd rfl hsep
  | space => exact .inl rfl
  | colon => exact .inr (.inl rfl)
  | colonSpace => exact .inr (.inr rfl)

/-! ### `selector_sequence ~ space?` on the selectors of a rule -/

theorem sel_wf_small {w : OH.Spec.Sent.Wide} {wd : Option WdSel} {ts : List Span}
    (h : (Sel.sel w wd ts).wf = true) : smallWf wd ts := by
  simp only [Sel.wf, Bool.and_eq_true] at h
  refine ⟨?_, h.1.2⟩
  intro x hx
  subst hx
  exact h.1.1.2

theorem small_empty_cases (wd : Option WdSel) (ts : List Span) :
    (wd = none ∧ ts = []) ∨ ((wd.isSome || !ts.isEmpty) = true ∧ ¬ (wd = none ∧ ts = [])) := by
  cases wd <;> cases ts <;> simp

theorem run_selector_spaceS (s : Sel) (hwf : s.wf = true) (hw : WideOK s) (after sp after' : List Char)
    (hcut : CutS after sp after') :
    ∃ t, run (.seq g_selector_sequence (.opt g_space)) false (s.render ++ after)
        = some ⟨[t], s.render ++ sp, after'⟩ ∧ buildSelectorSequence t = .ok s.denote := by
  cases s with
  | always =>
    refine ⟨.node .selector_sequence ['2', '4', '/', '7'] [.node .always_open ['2', '4', '/', '7'] []], ?_, ?_⟩
    · have := hcut.optSpace
      simp [Sel.render, OH.Spec.Sent.t, g_selector_sequence, g_always_open, run_rule, run_seq, run_alt,
        run_str, stripPrefix_cons_cons, this, R.append]
    · simp [buildSelectorSequence, assertRule, Tree.rule, Tree.kids, Sel.denote, bind, Except.bind]
  | sel w wd ts =>
    have hswf := sel_wf_small hwf
    have hrender : (Sel.sel w wd ts).render = w.render ++ smallS wd ts := by
      cases wd <;> simp [Sel.render, smallS, spansStr, List.append_assoc]
    cases w with
    | empty =>
      -- a weekday or time selector is written (`Sel.wf`)
      have hne : ¬ (wd = none ∧ ts = []) := by
        simp only [Sel.wf, Bool.and_eq_true] at hwf
        have := hwf.2
        rcases small_empty_cases wd ts with ⟨rfl, rfl⟩ | ⟨_, h⟩
        · simp at this
        · exact h
      have hhere := smallS_here wd ts hne hswf after
      obtain ⟨t, hrun, hbuild⟩ := selseq_with_small [] _ wd ts hne hswf after sp after' hcut
        (by simpa using run_always_open_none_small _ hhere) (parses_wide_emptyS _ hhere)
      refine ⟨t, ?_, ?_⟩
      · simpa [hrender, OH.Spec.Sent.Wide.render] using hrun
      · rw [hbuild]; rfl
    | comment c =>
      have hc : OH.Spec.Sent.commentWf c = true := by
        simp only [Sel.wf, OH.Spec.Sent.Wide.wf, Bool.and_eq_true] at hwf
        exact hwf.1.1.1
      have hwr : (OH.Spec.Sent.Wide.comment c).render = quote c ++ [':'] := rfl
      have hao : ∀ rest, run g_always_open false ((quote c ++ [':']) ++ rest) = none := by
        intro rest
        simp only [quote_eq, List.cons_append]
        exact run_always_open_none_quote _
      rcases small_empty_cases wd ts with ⟨rfl, rfl⟩ | ⟨_, hne⟩
      · obtain ⟨t, hrun, hbuild⟩ := selseq_wide_only (quote c ++ [':']) after sp after' _ (hao _)
          (parses_wide_comment c hc after) hcut.small_none_all hcut.optSpace
        refine ⟨t, ?_, ?_⟩
        · simpa [hrender, hwr, smallS, spansStr_nil] using hrun
        · rw [hbuild]; rfl
      · obtain ⟨t, hrun, hbuild⟩ := selseq_with_small (quote c ++ [':']) _ wd ts hne hswf after sp after' hcut
          (hao _) (parses_wide_comment c hc _)
        refine ⟨t, ?_, ?_⟩
        · simpa [hrender, hwr, List.append_assoc] using hrun
        · rw [hbuild]; rfl
    | sel ys ms ws sep =>
      have H : WideHypS ys ms ws := hw
      have hwr := wide_render_sel ys ms ws sep
      have hsepwf : (if (wd.isSome || !ts.isEmpty) = true then sep != WideSep.none
          else (sep == WideSep.none || sep == WideSep.colon)) = true := by
        simp only [Sel.wf, Bool.and_eq_true] at hwf
        exact hwf.2
      have hval : ∀ tm : List TimeSpan,
          ((⟨(wideVal ys ms ws).year, (wideVal ys ms ws).monthday, (wideVal ys ms ws).week, wdVal wd⟩ : DaySelector),
            (if ts.isEmpty then [TimeSpan.fullDay] else ts.map Span.denote), (wideVal ys ms ws).comment)
          = (Sel.sel (.sel ys ms ws sep) wd ts).denote := by
        intro _
        cases ws <;> cases wd <;> rfl
      rcases small_empty_cases wd ts with ⟨rfl, rfl⟩ | ⟨hsome, hne⟩
      · -- only the wide part is written: `sep` is nothing or `:`
        simp only [Option.isSome_none, List.isEmpty_nil, Bool.not_true, Bool.or_self, Bool.false_eq_true,
          if_false, Bool.or_eq_true, beq_iff_eq] at hsepwf
        have hsmall := hcut.small_none
        have hsp := hcut.optSpace'
        rcases hsepwf with rfl | rfl
        · obtain ⟨t, hrun, hbuild⟩ := selseq_wide_only (wideBody ys ms ws ++ sp) after' [] after' _
            (by rw [List.append_assoc]; exact H.notAlways _) (H.parses sp after' hcut.afterWide_none) hsmall hsp
          refine ⟨t, ?_, ?_⟩
          · rw [hcut.eq]
            simpa [hrender, hwr, WideSep.render, smallS, spansStr_nil, List.append_assoc] using hrun
          · rw [hbuild]; exact congrArg Except.ok (hval [])
        · obtain ⟨t, hrun, hbuild⟩ := selseq_wide_only (wideBody ys ms ws ++ ':' :: sp) after' [] after' _
            (by rw [List.append_assoc]; exact H.notAlways _) (H.parses _ after' hcut.afterWide_colon) hsmall hsp
          refine ⟨t, ?_, ?_⟩
          · rw [hcut.eq]
            simpa [hrender, hwr, WideSep.render, smallS, spansStr_nil, List.append_assoc] using hrun
          · rw [hbuild]; exact congrArg Except.ok (hval [])
      · -- a weekday or time selector follows: `sep` is a space, `:` or `: `
        rw [if_pos hsome] at hsepwf
        have hsep : sep ≠ .none := by simpa using hsepwf
        have hhere := smallS_here wd ts hne hswf after
        obtain ⟨t, hrun, hbuild⟩ := selseq_with_small (wideBody ys ms ws ++ sep.render) _ wd ts hne hswf
          after sp after' hcut (by rw [List.append_assoc]; exact H.notAlways _)
          (H.parses _ _ (afterWide_small sep hsep _ hhere))
        refine ⟨t, ?_, ?_⟩
        · simpa [hrender, hwr, List.append_assoc] using hrun
        · rw [hbuild]; exact congrArg Except.ok (hval [])

end OH.Proofs.Sent
