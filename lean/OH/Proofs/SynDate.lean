import OH.Proofs.SynWeek
/-
Wide-range selectors, part 3a: the pieces of a month-day range:
  `month`, `daynum` (with its look-ahead), `wday`, `day_offset` (explicit pair), `date_from`,
  `date_offset`, `date_to`: each printed piece is read back as one explicit pair, and the failure
  lemmas that the ordered choices of `monthday_range` need.
-/
namespace OH.Proofs.Syn
open OH.Model OH.Model.Parser

def okYearOpt : Option Nat → Bool
  | none => true
  | some y => decide (1900 ≤ y ∧ y ≤ 9999)

/-- a date the parser can build: year 1900..9999 or none, month 1..12, day 1..31 -/
def okDate : DateSpec → Bool
  | .fixed y m d => okYearOpt y && decide (1 ≤ m ∧ m ≤ 12 ∧ 1 ≤ d ∧ d ≤ 31)
  | .easter y => okYearOpt y

def okWdayOffset : WdayOffset → Bool
  | .none => true
  | .next w => decide (w ≤ 6)
  | .prev w => decide (w ≤ 6)

/-- a date offset the parser can build: a weekday 0..6, a day count that fits an `i64` -/
def okDateOffset (o : DateOffset) : Bool :=
  okWdayOffset o.wday && decide (o.days.natAbs < i64Bound)

end OH.Proofs.Syn

namespace OH.Proofs.Syn.Wide
open OH.Model OH.Model.Peg OH.Model.Parser OH.Generated.Grammar OH.Proofs.Syn

/-! ### PEG combinators (to steer the big ordered choices by hand) -/

theorem seq_some {a b : G} {q : Bool} {inp : List Char} {r1 r2 : R PRule}
    (h1 : run a q inp = some r1) (h2 : run b q r1.rest = some r2) :
    run (.seq a b) q inp = some (r1.append r2) := by
  simp only [run_seq, h1, h2]

theorem seq_none_left {a b : G} {q : Bool} {inp : List Char} (h1 : run a q inp = none) :
    run (.seq a b) q inp = none := by
  simp only [run_seq, h1]

theorem seq_none_right {a b : G} {q : Bool} {inp : List Char} {r1 : R PRule}
    (h1 : run a q inp = some r1) (h2 : run b q r1.rest = none) :
    run (.seq a b) q inp = none := by
  simp only [run_seq, h1, h2]

theorem opt_none {a : G} {q : Bool} {inp : List Char} (h : run a q inp = none) :
    run (.opt a) q inp = some (R.nil inp) := by
  simp only [run_opt, h]

theorem opt_some {a : G} {q : Bool} {inp : List Char} {r : R PRule} (h : run a q inp = some r) :
    run (.opt a) q inp = some r := by
  simp only [run_opt, h]

/-- quiet and normal mode fail together -/
theorem run_none_iff (e : G) (q q' : Bool) (inp : List Char) :
    run e q inp = none ↔ run e q' inp = none := by
  have h1 := run_quiet e q inp
  have h2 := run_quiet e q' inp
  constructor
  · intro h; rw [h] at h1; rw [h1] at h2
    cases hh : run e q' inp with
    | none => rfl
    | some x => rw [hh] at h2; simp at h2
  · intro h; rw [h] at h2; rw [h2] at h1
    cases hh : run e q inp with
    | none => rfl
    | some x => rw [hh] at h1; simp at h1

/-! ### `month` -/

def monthRule : Nat → PRule
  | 1 => .january | 2 => .february | 3 => .march | 4 => .april | 5 => .may | 6 => .june
  | 7 => .july | 8 => .august | 9 => .september | 10 => .october | 11 => .november | _ => .december

def monthTree (m : Nat) : T := .node .month (Print.monthStr m) [.node (monthRule m) (Print.monthStr m) []]

@[simp] theorem monthTree_rule (m : Nat) : (monthTree m).rule = .month := rfl

theorem month_cases {m : Nat} (h : 1 ≤ m ∧ m ≤ 12) :
    m = 1 ∨ m = 2 ∨ m = 3 ∨ m = 4 ∨ m = 5 ∨ m = 6 ∨ m = 7 ∨ m = 8 ∨ m = 9 ∨ m = 10 ∨ m = 11 ∨ m = 12 := by
  omega

theorem run_month (m : Nat) (hm : 1 ≤ m ∧ m ≤ 12) (rest : List Char) :
    run g_month false (Print.monthStr m ++ rest) = some ⟨[monthTree m], Print.monthStr m, rest⟩ := by
  rcases month_cases hm with h | h | h | h | h | h | h | h | h | h | h | h <;> subst h <;>
    simp [g_month, g_january, g_february, g_march, g_april, g_may, g_june, g_july, g_august,
      g_september, g_october, g_november, g_december, peg, Print.monthStr, Print.str, monthTree,
      monthRule]

theorem build_month (m : Nat) (hm : 1 ≤ m ∧ m ≤ 12) : buildMonth (monthTree m) = .ok m := by
  rcases month_cases hm with h | h | h | h | h | h | h | h | h | h | h | h <;> subst h <;>
    simp [buildMonth, monthTree, monthRule, assertRule, bind, Except.bind]

/-- first letters of the month names -/
def MonthLetter (c : Char) : Prop :=
  c = 'J' ∨ c = 'F' ∨ c = 'M' ∨ c = 'A' ∨ c = 'S' ∨ c = 'O' ∨ c = 'N' ∨ c = 'D'

theorem run_month_none_nil (q : Bool) : run g_month q [] = none := by
  simp [g_month, g_january, g_february, g_march, g_april, g_may, g_june, g_july, g_august,
    g_september, g_october, g_november, g_december, peg]

theorem run_month_none_head (q : Bool) (c : Char) (r : List Char) (h : ¬ MonthLetter c) :
    run g_month q (c :: r) = none := by
  simp only [MonthLetter, not_or] at h
  obtain ⟨h1, h2, h3, h4, h5, h6, h7, h8⟩ := h
  simp [g_month, g_january, g_february, g_march, g_april, g_may, g_june, g_july, g_august,
    g_september, g_october, g_november, g_december, peg, Ne.symm h1, Ne.symm h2, Ne.symm h3,
    Ne.symm h4, Ne.symm h5, Ne.symm h6, Ne.symm h7, Ne.symm h8]

/-- a printed month starts with a month letter -/
theorem monthStr_head (m : Nat) : ∃ c cs, Print.monthStr m = c :: cs ∧ MonthLetter c := by
  unfold Print.monthStr
  split <;> simp [Print.str, MonthLetter]

/-! ### `daynum = @{ daynum_digits ~ !(":" ~ minute ~ !(":" ~ minute)) }` -/

def daynumTree (d : Nat) : T := .node .daynum (Print.natStr d) []

@[simp] theorem daynumTree_rule (d : Nat) : (daynumTree d).rule = .daynum := rfl

/-- the context of a printed day number: neither a digit nor `:` -/
def DayFollow (rest : List Char) : Prop := NoDigit rest ∧ ∀ r, rest ≠ ':' :: r

theorem dc_12 : ∀ d, d < 3 → 1 ≤ d → '1' ≤ dc d ∧ dc d ≤ '2' := by decide
theorem dc_not12 : ∀ d, d < 10 → 3 ≤ d → ¬ dc d ≤ '2' := by decide
theorem dc_ne0 : ∀ d, d < 10 → 1 ≤ d → '0' ≠ dc d := by decide
theorem dc_ne3 : ∀ d, d < 10 → d ≠ 3 → '3' ≠ dc d := by decide

theorem run_daynum (q : Bool) (d : Nat) (hd : 1 ≤ d ∧ d ≤ 31) (rest : List Char) (hf : DayFollow rest) :
    run g_daynum q (Print.natStr d ++ rest) =
      some (if q then ⟨[], Print.natStr d, rest⟩ else ⟨[daynumTree d], Print.natStr d, rest⟩) := by
  unfold daynumTree
  obtain ⟨hnd, hcol⟩ := hf
  -- the look-ahead and the second digit both fail on `rest`
  have hdig : ∀ lo : Char, '0' ≤ lo → ∀ hi : Char, hi ≤ '9' → run (.range lo hi : G) true rest = none := by
    intro lo hlo hi hhi
    cases rest with
    | nil => rfl
    | cons c r =>
      have := hnd c r rfl
      have : ¬ (lo ≤ c ∧ c ≤ hi) := fun ⟨a, b⟩ => this ⟨Char.le_trans hlo a, Char.le_trans b hhi⟩
      simp [peg, this]
  have hcolon : run (.str [':'] : G) true rest = none := str1_none true ':' rest hcol
  have h09 := hdig '0' (by decide) '9' (by decide)
  have h01 := hdig '0' (by decide) '1' (by decide)
  have d3 : dc 3 = '3' := by decide
  by_cases h10 : d < 10
  · rw [natStr_lt10 d h10]
    have n0 := dc_ne0 d h10 hd.1
    have h19 := dc_19 d h10 hd.1
    by_cases h3 : d = 3
    · subst h3
      simp [g_daynum, g_daynum_digits, peg, d3, h01, hcolon]
      cases q <;> simp
    · have n3 := dc_ne3 d h10 h3
      by_cases h12 : d < 3
      · have h1 := dc_12 d h12 hd.1
        simp [g_daynum, g_daynum_digits, peg, h1, h09, n3, n0, h19, hcolon]
        cases q <;> simp
      · have h1 := dc_not12 d h10 (by omega)
        simp [g_daynum, g_daynum_digits, peg, h1, n3, n0, h19, hcolon]
        cases q <;> simp
  · rw [natStr_ge10 d (by omega), natStr_lt10 (d / 10) (by omega)]
    have h2 := dc_digit (d % 10) (by omega)
    by_cases h30 : d < 30
    · have h1 := dc_12 (d / 10) (by omega) (by omega)
      simp [g_daynum, g_daynum_digits, peg, h1, h2, hcolon]
      cases q <;> simp
    · have e : d / 10 = 3 := by omega
      have h2' := dc_le1 (d % 10) (by omega)
      simp [g_daynum, g_daynum_digits, peg, e, d3, h2', hcolon]
      cases q <;> simp

theorem build_daynum (d : Nat) (hd : 1 ≤ d ∧ d ≤ 31) : buildDaynum (daynumTree d) = .ok d := by
  have h1 : d < u8Bound := by unfold u8Bound; omega
  have h2 : d ≠ 0 := by omega
  have h3 : ¬ d > 31 := by omega
  simp [buildDaynum, daynumTree, assertRule, parseBounded, natOfDigits_natStr, h1, h2, h3, bind,
    Except.bind]

/-- `daynum` needs a digit -/
theorem run_daynum_none (q : Bool) (inp : List Char) (h : NoDigit inp) : run g_daynum q inp = none := by
  cases inp with
  | nil => simp [g_daynum, g_daynum_digits, peg]
  | cons c r =>
    have hc := h c r rfl
    have h1 : ¬ ('1' ≤ c ∧ c ≤ '2') := fun ⟨a, b⟩ =>
      hc ⟨Char.le_trans (by decide) a, Char.le_trans b (by decide)⟩
    have h2 : '3' ≠ c := by intro e; subst e; exact hc (by decide)
    have h3 : '0' ≠ c := by intro e; subst e; exact hc (by decide)
    have h4 : ¬ ('1' ≤ c ∧ c ≤ '9') := fun ⟨a, b⟩ => hc ⟨Char.le_trans (by decide) a, b⟩
    simp [g_daynum, g_daynum_digits, peg, h1, h2, h3, h4]


/-- a printed time `HH:MM` (up to `24:00`) that is not followed by `:` is not a day number: this is
what the look-ahead of `daynum` is for (`Jan 10:00-12:00`) -/
theorem run_daynum_time_none (q : Bool) (m : Nat) (hm : m ≤ 1440) (r : List Char)
    (hr : ∀ x, r ≠ ':' :: x) : run g_daynum q (Print.extTime m ++ r) = none := by
  have hcolon : run (.str [':'] : G) true r = none := str1_none true ':' r hr
  have hmin := run_minute true (m % 60) (by omega) r
  unfold Print.extTime
  rw [pad2_lt100 (m / 60) (by omega)]
  simp only [List.cons_append, List.nil_append]
  have h2 := dc_digit (m / 60 % 10) (by omega)
  have d0 : dc 0 = '0' := by decide
  by_cases h10 : m / 60 < 10
  · have e1 : m / 60 / 10 = 0 := by omega
    have e2 : m / 60 % 10 = m / 60 := by omega
    by_cases h0 : m / 60 = 0
    · simp [g_daynum, g_daynum_digits, peg, h0, d0]
    · have h19 := dc_19 (m / 60) h10 (by omega)
      simp [g_daynum, g_daynum_digits, peg, e1, e2, d0, h19, hmin, hcolon]
  · have h1 := dc_12 (m / 60 / 10) (by omega) (by omega)
    simp [g_daynum, g_daynum_digits, peg, h1, h2, hmin, hcolon]

/-! ### `plus_or_minus`, `wday` -/

def pmTree (plus : Bool) : T :=
  if plus then .node .plus_or_minus ['+'] [.node .plus ['+'] []]
  else .node .plus_or_minus ['-'] [.node .minus ['-'] []]

@[simp] theorem pmTree_rule (b : Bool) : (pmTree b).rule = .plus_or_minus := by
  cases b <;> rfl

theorem run_pm_plus (X : List Char) :
    run g_plus_or_minus false ('+' :: X) = some ⟨[pmTree true], ['+'], X⟩ := by
  simp [g_plus_or_minus, g_plus, g_minus, peg, pmTree]

theorem run_pm_minus (X : List Char) :
    run g_plus_or_minus false ('-' :: X) = some ⟨[pmTree false], ['-'], X⟩ := by
  simp [g_plus_or_minus, g_plus, g_minus, peg, pmTree]

theorem run_pm_none (q : Bool) (inp : List Char) (h1 : ∀ r, inp ≠ '+' :: r) (h2 : ∀ r, inp ≠ '-' :: r) :
    run g_plus_or_minus q inp = none := by
  simp [g_plus_or_minus, g_plus, g_minus, peg, str1_none _ '+' inp h1, str1_none _ '-' inp h2]

theorem build_pm_plus : buildPlusOrMinus (pmTree true) = .ok .plus := by
  simp [buildPlusOrMinus, pmTree, assertRule, bind, Except.bind]

theorem build_pm_minus : buildPlusOrMinus (pmTree false) = .ok .minus := by
  simp [buildPlusOrMinus, pmTree, assertRule, bind, Except.bind]

def wdRule : Nat → PRule
  | 0 => .monday | 1 => .tuesday | 2 => .wednesday | 3 => .thursday
  | 4 => .friday | 5 => .saturday | _ => .sunday

def wdTree (w : Nat) : T := .node .wday (Print.wdayStr w) [.node (wdRule w) (Print.wdayStr w) []]

@[simp] theorem wdTree_rule (w : Nat) : (wdTree w).rule = .wday := rfl

theorem wd_cases {w : Nat} (h : w ≤ 6) : w = 0 ∨ w = 1 ∨ w = 2 ∨ w = 3 ∨ w = 4 ∨ w = 5 ∨ w = 6 := by
  omega

theorem run_wd (w : Nat) (hw : w ≤ 6) (rest : List Char) :
    run g_wday false (Print.wdayStr w ++ rest) = some ⟨[wdTree w], Print.wdayStr w, rest⟩ := by
  rcases wd_cases hw with h | h | h | h | h | h | h <;> subst h <;>
    simp [g_wday, g_sunday, g_monday, g_tuesday, g_wednesday, g_thursday, g_friday, g_saturday, peg,
      Print.wdayStr, Print.str, wdTree, wdRule]

theorem build_wd (w : Nat) (hw : w ≤ 6) : buildWday (wdTree w) = .ok w := by
  rcases wd_cases hw with h | h | h | h | h | h | h <;> subst h <;>
    simp [buildWday, wdTree, wdRule, assertRule, bind, Except.bind]

theorem run_wd_none_nil (q : Bool) : run g_wday q [] = none := by
  simp [g_wday, g_sunday, g_monday, g_tuesday, g_wednesday, g_thursday, g_friday, g_saturday, peg]

theorem run_wd_none_head (q : Bool) (c : Char) (r : List Char)
    (h : c ≠ 'S' ∧ c ≠ 'M' ∧ c ≠ 'T' ∧ c ≠ 'W' ∧ c ≠ 'F') : run g_wday q (c :: r) = none := by
  obtain ⟨h1, h2, h3, h4, h5⟩ := h
  simp [g_wday, g_sunday, g_monday, g_tuesday, g_wednesday, g_thursday, g_friday, g_saturday, peg,
    Ne.symm h1, Ne.symm h2, Ne.symm h3, Ne.symm h4, Ne.symm h5]

theorem run_wd_none_month (q : Bool) (m : Nat) (rest : List Char) :
    run g_wday q (Print.monthStr m ++ rest) = none := by
  unfold Print.monthStr
  split <;>
    simp [g_wday, g_sunday, g_monday, g_tuesday, g_wednesday, g_thursday, g_friday, g_saturday, peg,
      Print.str]

/-! ### `day_offset`, with its explicit pair -/

def dayOffTree (off : Int) : T :=
  .node .day_offset (Print.daysOffset off) [pmTree (decide (off > 0)), pnTree off.natAbs]

@[simp] theorem dayOffTree_rule (off : Int) : (dayOffTree off).rule = .day_offset := rfl

theorem run_day_offset (off : Int) (h0 : off ≠ 0) (rest : List Char) (hr : ∀ r, rest ≠ 's' :: r) :
    run g_day_offset false (Print.daysOffset off ++ rest) =
      some ⟨[dayOffTree off], Print.daysOffset off, rest⟩ := by
  have hn : 0 < off.natAbs := by omega
  have hnd : NoDigit ([' ', 'd', 'a', 'y'] ++ (if off.natAbs > 1 then ['s'] else []) ++ rest) := by
    intro c r h; simp at h; rw [← h.1]; decide
  have hnum := run_positive_number false off.natAbs hn _ hnd
  have hs : run (.opt (.str ['s']) : G) false ((if off.natAbs > 1 then ['s'] else []) ++ rest)
      = some ⟨[], (if off.natAbs > 1 then ['s'] else []), rest⟩ := by
    by_cases h1 : off.natAbs > 1
    · simp [h1, peg]
    · simp [h1, peg, str1_none false 's' rest hr]
  unfold dayOffTree
  rw [daysOffset_eq off h0]
  by_cases hp : off > 0
  · simp only [hp, if_true, List.cons_append, List.nil_append, List.append_assoc] at hnum ⊢
    simp [g_day_offset, g_space, peg, run_pm_plus, hnum, hs, pnTree]
  · simp only [hp, if_false, List.cons_append, List.nil_append, List.append_assoc] at hnum ⊢
    simp [g_day_offset, g_space, peg, run_pm_minus, hnum, hs, pnTree]

theorem build_day_offset (off : Int) (hb : off.natAbs < i64Bound) :
    buildDayOffset (dayOffTree off) = .ok off := by
  have hbp := build_pn off.natAbs (by unfold u64Bound; unfold i64Bound at hb; omega)
  have hnb : ¬ i64Bound ≤ off.natAbs := by omega
  by_cases hp : off > 0
  · have e : ((off.natAbs : Nat) : Int) = off := by omega
    simp [buildDayOffset, dayOffTree, assertRule, hp, build_pm_plus, hbp, hnb, e, bind, Except.bind]
  · have e : -((off.natAbs : Nat) : Int) = off := by omega
    simp [buildDayOffset, dayOffTree, assertRule, hp, build_pm_minus, hbp, hnb, e, bind, Except.bind]

/-- `day_offset` needs a space and a sign -/
def NoDayOffset (inp : List Char) : Prop := ∀ c r, inp = ' ' :: c :: r → c ≠ '+' ∧ c ≠ '-'

theorem run_day_offset_none (q : Bool) (inp : List Char) (h : NoDayOffset inp) :
    run g_day_offset q inp = none := by
  cases inp with
  | nil => simp [g_day_offset, g_space, peg]
  | cons c r =>
    by_cases hc : c = ' '
    · subst hc
      have hpm : run g_plus_or_minus q r = none := by
        apply run_pm_none
        · intro r' e; exact (h '+' r' (by rw [e])).1 rfl
        · intro r' e; exact (h '-' r' (by rw [e])).2 rfl
      simp [g_day_offset, g_space, peg, hpm]
    · simp [g_day_offset, g_space, peg, Ne.symm hc]


/-! ### `date_from = { (year ~ " "?)? ~ month ~ " "? ~ daynum | (year ~ " "?)? ~ variable_date }` -/

def yearKids : Option Nat → List T
  | none => []
  | some y => [yearTree y]

def easterTree : T := .node .variable_date ['e', 'a', 's', 't', 'e', 'r'] []

def dateTree : DateSpec → T
  | .fixed y m d => .node .date_from (Print.date (.fixed y m d)) (yearKids y ++ [monthTree m, daynumTree d])
  | .easter y => .node .date_from (Print.date (.easter y)) (yearKids y ++ [easterTree])

@[simp] theorem dateTree_rule (s : DateSpec) : (dateTree s).rule = .date_from := by
  cases s <;> rfl

/-- `year` does not match a month name -/
theorem run_year_none_month (q : Bool) (m : Nat) (rest : List Char) :
    run g_year q (Print.monthStr m ++ rest) = none := by
  obtain ⟨c, cs, e, hc⟩ := monthStr_head m
  rw [e]
  apply run_year_none
  intro c' r' h
  cases h
  rcases hc with h | h | h | h | h | h | h | h <;> subst h <;> decide

theorem run_date_from (s : DateSpec) (hs : okDate s = true) (rest : List Char) (hf : DayFollow rest) :
    run g_date_from false (Print.date s ++ rest) = some ⟨[dateTree s], Print.date s, rest⟩ := by
  cases s with
  | fixed y m d =>
    simp only [okDate, Bool.and_eq_true, decide_eq_true_eq] at hs
    obtain ⟨hy, hm1, hm2, hd1, hd2⟩ := hs
    have hmon := run_month m ⟨hm1, hm2⟩
    have hday := run_daynum false d ⟨hd1, hd2⟩ rest hf
    cases y with
    | none =>
      have hyn := run_year_none_month false m
      simp only [Print.date, dateTree, yearKids, List.nil_append, List.append_assoc, List.cons_append]
      simp [g_date_from, peg, hyn, hmon, hday]
    | some y =>
      simp only [okYearOpt, decide_eq_true_eq] at hy
      have hyr := run_year false y hy
      simp only [Print.date, dateTree, yearKids, List.nil_append, List.append_assoc, List.cons_append]
      simp [g_date_from, peg, hyr, hmon, hday]
  | easter y =>
    have hmn : ∀ r, run g_month false ('e' :: r) = none := fun r =>
      run_month_none_head false 'e' r (by simp [MonthLetter])
    cases y with
    | none =>
      have hyn : ∀ r, run g_year false ('e' :: r) = none := fun r =>
        run_year_none false _ (by intro c r' h; cases h; decide)
      simp only [Print.date, dateTree, yearKids, easterTree, List.nil_append]
      simp [g_date_from, g_variable_date, peg, Print.str, hyn, hmn]
    | some y =>
      simp only [okDate, okYearOpt, decide_eq_true_eq] at hs
      have hyr := run_year false y hs
      simp only [Print.date, dateTree, yearKids, easterTree, List.nil_append, List.append_assoc,
        List.cons_append]
      simp [g_date_from, g_variable_date, peg, Print.str, hyr, hmn]

theorem build_date_from (s : DateSpec) (hs : okDate s = true) : buildDateFrom (dateTree s) = .ok s := by
  cases s with
  | fixed y m d =>
    simp only [okDate, Bool.and_eq_true, decide_eq_true_eq] at hs
    obtain ⟨hy, hm1, hm2, hd1, hd2⟩ := hs
    cases y with
    | none =>
      simp [buildDateFrom, dateTree, yearKids, assertRule, build_month m ⟨hm1, hm2⟩,
        build_daynum d ⟨hd1, hd2⟩, bind, Except.bind]
    | some y =>
      simp only [okYearOpt, decide_eq_true_eq] at hy
      simp [buildDateFrom, dateTree, yearKids, assertRule, build_year y hy.2, build_month m ⟨hm1, hm2⟩,
        build_daynum d ⟨hd1, hd2⟩, bind, Except.bind]
  | easter y =>
    cases y with
    | none => simp [buildDateFrom, dateTree, yearKids, easterTree, assertRule, bind, Except.bind]
    | some y =>
      simp only [okDate, okYearOpt, decide_eq_true_eq] at hs
      simp [buildDateFrom, dateTree, yearKids, easterTree, assertRule, build_year y hs.2, bind,
        Except.bind]

/-- first character of a printed date or month range: a year digit, a month letter, `e` of easter -/
def MdStartChar (c : Char) : Prop := ('1' ≤ c ∧ c ≤ '9') ∨ MonthLetter c ∨ c = 'e'

theorem natStr_year_head (y : Nat) (hy : 1900 ≤ y ∧ y ≤ 9999) :
    ∃ c cs, Print.natStr y = c :: cs ∧ '1' ≤ c ∧ c ≤ '9' := natStr_head y (by omega)

theorem date_head (s : DateSpec) (hs : okDate s = true) :
    ∃ c cs, Print.date s = c :: cs ∧ MdStartChar c := by
  cases s with
  | fixed y m d =>
    cases y with
    | none =>
      obtain ⟨c, cs, e, hc⟩ := monthStr_head m
      exact ⟨c, _, by simp only [Print.date, List.nil_append, e]; rfl, Or.inr (Or.inl hc)⟩
    | some y =>
      simp only [okDate, okYearOpt, Bool.and_eq_true, decide_eq_true_eq] at hs
      obtain ⟨c, cs, e, hc⟩ := natStr_year_head y hs.1
      exact ⟨c, _, by simp only [Print.date, e]; rfl, Or.inl hc⟩
  | easter y =>
    cases y with
    | none => exact ⟨'e', ['a', 's', 't', 'e', 'r'], by simp [Print.date, Print.str], Or.inr (Or.inr rfl)⟩
    | some y =>
      simp only [okDate, okYearOpt, decide_eq_true_eq] at hs
      obtain ⟨c, cs, e, hc⟩ := natStr_year_head y hs
      exact ⟨c, _, by simp only [Print.date, e]; rfl, Or.inl hc⟩

/-- nothing that `date_from` accepts starts here -/
theorem run_date_from_none_head (inp : List Char) (h : ∀ c r, inp = c :: r → ¬ MdStartChar c) :
    run g_date_from false inp = none := by
  have hy : run g_year false inp = none := by
    apply run_year_none
    intro c r e hc
    exact h c r e (Or.inl hc)
  cases inp with
  | nil =>
    simp [g_date_from, g_variable_date, peg, hy, run_month_none_nil]
  | cons c r =>
    have hc := h c r rfl
    simp only [MdStartChar, not_or] at hc
    have hm := run_month_none_head false c r hc.2.1
    have he : 'e' ≠ c := Ne.symm hc.2.2
    simp [g_date_from, g_variable_date, peg, hy, hm, he]

/-- the optional year in front of a month range (`2020Jan`) -/
def yearStr : Option Nat → List Char
  | some y => Print.natStr y
  | none => []

/-- `date_from` on a printed month (with or without year) that is NOT followed by a day number -/
theorem run_date_from_none_month (y : Option Nat) (hy : okYearOpt y = true) (m : Nat)
    (hm : 1 ≤ m ∧ m ≤ 12) (X : List Char) (h1 : run g_daynum false X = none)
    (h2 : ∀ r, X = ' ' :: r → run g_daynum false r = none) :
    run g_date_from false (yearStr y ++ Print.monthStr m ++ X)
      = none := by
  have hmon := run_month m hm
  -- `" "? ~ daynum` fails on `X`
  have hsd : run (.seq (.opt (.str [' '])) g_daynum : G) false X = none := by
    cases X with
    | nil => simp [peg, h1]
    | cons c r =>
      by_cases hc : c = ' '
      · subst hc; simp [peg, h2 r rfl]
      · simp [peg, Ne.symm hc, h1]
  -- `variable_date` fails on a month name
  have hvd : run g_variable_date false (Print.monthStr m ++ X) = none := by
    obtain ⟨c, cs, e, hc⟩ := monthStr_head m
    have : 'e' ≠ c := by
      rcases hc with h | h | h | h | h | h | h | h <;> subst h <;> decide
    rw [e]; simp [g_variable_date, peg, this]
  -- the optional year
  have hpre : ∃ yk, run (.opt (.seq g_year (.opt (.str [' ']))) : G) false
      (yearStr y ++ (Print.monthStr m ++ X))
      = some ⟨yk, yearStr y, Print.monthStr m ++ X⟩ := by
    cases y with
    | none =>
      refine ⟨[], ?_⟩
      simp [yearStr, peg, run_year_none_month false m]
    | some y =>
      simp only [okYearOpt, decide_eq_true_eq] at hy
      obtain ⟨c, cs, e, hc⟩ := monthStr_head m
      have : ' ' ≠ c := by
        rcases hc with h | h | h | h | h | h | h | h <;> subst h <;> decide
      refine ⟨[yearTree y], ?_⟩
      simp only [yearStr, run_opt, run_seq, run_year false y hy, if_false, Bool.false_eq_true]
      rw [e]
      simp [peg, this]
  obtain ⟨yk, hpre⟩ := hpre
  have ha1 := seq_none_right hpre (seq_none_right (hmon X) hsd)
  have ha2 := seq_none_right hpre hvd
  rw [List.append_assoc]
  simp only [g_date_from, run_rule, run_alt, Bool.or_self, ha1, ha2]

/-! ### `date_offset = { plus_or_minus ~ wday ~ day_offset | plus_or_minus ~ wday | day_offset }` -/

def wdKids : WdayOffset → List T
  | .none => []
  | .next w => [pmTree true, wdTree w]
  | .prev w => [pmTree false, wdTree w]

def offTree (o : DateOffset) : T :=
  .node .date_offset (Print.dateOffset o)
    (wdKids o.wday ++ (if o.days ≠ 0 then [dayOffTree o.days] else []))

@[simp] theorem offTree_rule (o : DateOffset) : (offTree o).rule = .date_offset := rfl

/-- the pairs of an optional date offset: the neutral offset prints nothing -/
def offKids (o : DateOffset) : List T := if o = noOffset then [] else [offTree o]

theorem daysOffset_head (off : Int) (h0 : off ≠ 0) : ∃ cs, Print.daysOffset off = ' ' :: cs := by
  rw [daysOffset_eq off h0]
  exact ⟨_, rfl⟩

theorem run_date_offset (o : DateOffset) (ho : okDateOffset o = true) (hne : o ≠ noOffset)
    (inp : List Char) (H1 : NoDayOffset inp) (H2 : ∀ r, inp ≠ 's' :: r) :
    run g_date_offset false (Print.dateOffset o ++ inp) = some ⟨[offTree o], Print.dateOffset o, inp⟩ := by
  obtain ⟨wd, days⟩ := o
  simp only [okDateOffset, Bool.and_eq_true, decide_eq_true_eq] at ho
  obtain ⟨hw, hb⟩ := ho
  have hdn := run_day_offset_none false inp H1
  cases wd with
  | none =>
    have h0 : days ≠ 0 := by
      intro h; subst h; exact hne rfl
    obtain ⟨cs, e⟩ := daysOffset_head days h0
    have hpm : run g_plus_or_minus false (Print.daysOffset days ++ inp) = none := by
      rw [e]
      exact run_pm_none false _ (fun _ h => by cases h) (fun _ h => by cases h)
    have hdo := run_day_offset days h0 inp H2
    simp only [Print.dateOffset, Print.wdayOffset, offTree, wdKids, List.nil_append, h0, ne_eq,
      not_false_eq_true, if_true]
    simp only [g_date_offset, run_rule, run_alt, run_seq, Bool.or_self, hpm, hdo]
    simp
  | next w =>
    simp only [okWdayOffset, decide_eq_true_eq] at hw
    have hwd := run_wd w hw
    by_cases h0 : days = 0
    · subst h0
      simp only [Print.dateOffset, Print.wdayOffset, Print.daysOffset, offTree, wdKids, ne_eq, not_true,
        if_false, if_true, List.append_nil, List.cons_append]
      simp only [g_date_offset, run_rule, run_alt, run_seq, R.append, Bool.or_self, run_pm_plus, hwd, hdn]
      simp
    · have hdo := run_day_offset days h0 inp H2
      simp only [Print.dateOffset, Print.wdayOffset, offTree, wdKids, ne_eq, h0, not_false_eq_true,
        if_true, List.cons_append, List.append_assoc]
      simp only [g_date_offset, run_rule, run_alt, run_seq, R.append, Bool.or_self, run_pm_plus, hwd, hdo]
      simp
  | prev w =>
    simp only [okWdayOffset, decide_eq_true_eq] at hw
    have hwd := run_wd w hw
    by_cases h0 : days = 0
    · subst h0
      simp only [Print.dateOffset, Print.wdayOffset, Print.daysOffset, offTree, wdKids, ne_eq, not_true,
        if_false, if_true, List.append_nil, List.cons_append]
      simp only [g_date_offset, run_rule, run_alt, run_seq, R.append, Bool.or_self, run_pm_minus, hwd, hdn]
      simp
    · have hdo := run_day_offset days h0 inp H2
      simp only [Print.dateOffset, Print.wdayOffset, offTree, wdKids, ne_eq, h0, not_false_eq_true,
        if_true, List.cons_append, List.append_assoc]
      simp only [g_date_offset, run_rule, run_alt, run_seq, R.append, Bool.or_self, run_pm_minus, hwd, hdo]
      simp

/-- `date_offset` fails: no sign-and-weekday, no day offset -/
theorem run_date_offset_none (inp : List Char) (H1 : NoDayOffset inp)
    (H3 : run (.seq g_plus_or_minus g_wday) false inp = none) : run g_date_offset false inp = none := by
  have hdn := run_day_offset_none false inp H1
  have ha1 : run (.seq g_plus_or_minus (.seq g_wday g_day_offset)) false inp = none := by
    rw [← run_seq_reassoc]; exact seq_none_left H3
  simp only [g_date_offset, run_rule, run_alt, Bool.or_self, ha1, H3, hdn]

/-- the optional date offset, present or not -/
theorem run_opt_date_offset (o : DateOffset) (ho : okDateOffset o = true) (inp : List Char)
    (H1 : NoDayOffset inp) (H2 : ∀ r, inp ≠ 's' :: r)
    (H3 : run (.seq g_plus_or_minus g_wday) false inp = none) :
    run (.opt g_date_offset) false (Print.dateOffset o ++ inp) = some ⟨offKids o, Print.dateOffset o, inp⟩ := by
  unfold offKids
  by_cases h : o = noOffset
  · subst h
    have e : Print.dateOffset noOffset = [] := by
      simp [Print.dateOffset, noOffset, Print.wdayOffset, Print.daysOffset]
    rw [e]
    simp only [List.nil_append, if_true]
    exact opt_none (run_date_offset_none inp H1 H3)
  · simp only [h, if_false]
    exact opt_some (run_date_offset o ho h inp H1 H2)

theorem pm_wd_none_of_pm (inp : List Char) (h1 : ∀ r, inp ≠ '+' :: r) (h2 : ∀ r, inp ≠ '-' :: r) :
    run (.seq g_plus_or_minus g_wday) false inp = none :=
  seq_none_left (run_pm_none false inp h1 h2)

theorem run_wd_none_date (e : DateSpec) (he : okDate e = true) (X : List Char) :
    run g_wday false (Print.date e ++ X) = none := by
  have hdig : ∀ y, 1900 ≤ y ∧ y ≤ 9999 → ∀ Z, run g_wday false (Print.natStr y ++ Z) = none := by
    intro y hy Z
    obtain ⟨c, cs, e, hc⟩ := natStr_year_head y hy
    rw [e]
    apply run_wd_none_head
    refine ⟨?_, ?_, ?_, ?_, ?_⟩ <;> (intro h; subst h; exact absurd hc.2 (by decide))
  cases e with
  | fixed y m d =>
    cases y with
    | none =>
      simp only [Print.date, List.nil_append, List.append_assoc]
      exact run_wd_none_month false m _
    | some y =>
      simp only [okDate, okYearOpt, Bool.and_eq_true, decide_eq_true_eq] at he
      simp only [Print.date, List.append_assoc]
      exact hdig y he.1 _
  | easter y =>
    cases y with
    | none =>
      simp only [Print.date, List.nil_append, Print.str]
      exact run_wd_none_head false 'e' _ (by decide)
    | some y =>
      simp only [okDate, okYearOpt, decide_eq_true_eq] at he
      simp only [Print.date, List.append_assoc]
      exact hdig y he _

/-- `-` followed by a printed date is not a date offset -/
theorem pm_wd_none_dash_date (e : DateSpec) (he : okDate e = true) (X : List Char) :
    run (.seq g_plus_or_minus g_wday) false ('-' :: (Print.date e ++ X)) = none :=
  seq_none_right (run_pm_minus _) (run_wd_none_date e he X)

theorem build_date_offset (o : DateOffset) (ho : okDateOffset o = true) :
    buildDateOffset (offTree o) = .ok o := by
  obtain ⟨wd, days⟩ := o
  simp only [okDateOffset, Bool.and_eq_true, decide_eq_true_eq] at ho
  obtain ⟨hw, hb⟩ := ho
  cases wd with
  | none =>
    by_cases h0 : days = 0
    · subst h0
      simp [buildDateOffset, offTree, wdKids, assertRule, bind, Except.bind]
    · simp [buildDateOffset, offTree, wdKids, assertRule, h0, build_day_offset days hb, bind,
        Except.bind]
  | next w =>
    simp only [okWdayOffset, decide_eq_true_eq] at hw
    by_cases h0 : days = 0
    · subst h0
      simp [buildDateOffset, offTree, wdKids, assertRule, build_pm_plus, build_wd w hw, bind,
        Except.bind]
    · simp [buildDateOffset, offTree, wdKids, assertRule, h0, build_pm_plus, build_wd w hw,
        build_day_offset days hb, bind, Except.bind]
  | prev w =>
    simp only [okWdayOffset, decide_eq_true_eq] at hw
    by_cases h0 : days = 0
    · subst h0
      simp [buildDateOffset, offTree, wdKids, assertRule, build_pm_minus, build_wd w hw, bind,
        Except.bind]
    · simp [buildDateOffset, offTree, wdKids, assertRule, h0, build_pm_minus, build_wd w hw,
        build_day_offset days hb, bind, Except.bind]

/-- a printed date offset is empty or starts with `+`, `-` or a space: a day number may precede it -/
theorem dateOffset_dayFollow (o : DateOffset) (X : List Char) (hX : DayFollow X) :
    DayFollow (Print.dateOffset o ++ X) := by
  obtain ⟨wd, days⟩ := o
  cases wd with
  | none =>
    by_cases h0 : days = 0
    · subst h0
      simpa [Print.dateOffset, Print.wdayOffset, Print.daysOffset] using hX
    · obtain ⟨cs, e⟩ := daysOffset_head days h0
      simp only [Print.dateOffset, Print.wdayOffset, List.nil_append, e, List.cons_append]
      exact ⟨fun c r h => by cases h; decide, fun r h => by cases h⟩
  | next w =>
    simp only [Print.dateOffset, Print.wdayOffset, List.cons_append]
    exact ⟨fun c r h => by cases h; decide, fun r h => by cases h⟩
  | prev w =>
    simp only [Print.dateOffset, Print.wdayOffset, List.cons_append]
    exact ⟨fun c r h => by cases h; decide, fun r h => by cases h⟩

/-! ### `date_to = { date_from | daynum }` -/

def dateToTree (e : DateSpec) : T := .node .date_to (Print.date e) [dateTree e]

@[simp] theorem dateToTree_rule (e : DateSpec) : (dateToTree e).rule = .date_to := rfl

theorem run_date_to (e : DateSpec) (he : okDate e = true) (rest : List Char) (hf : DayFollow rest) :
    run g_date_to false (Print.date e ++ rest) = some ⟨[dateToTree e], Print.date e, rest⟩ := by
  simp only [g_date_to, run_rule, run_alt, Bool.or_self, run_date_from e he rest hf]
  simp [dateToTree]

theorem build_date_to (e : DateSpec) (he : okDate e = true) (frm : DateSpec) :
    buildDateTo (dateToTree e) frm = .ok e := by
  simp [buildDateTo, dateToTree, assertRule, build_date_from e he, bind, Except.bind]

end OH.Proofs.Syn.Wide
