import OH.Proofs.SynDate
/-
Wide-range selectors, part 3b: the month-day selector
  monthday_range = { date_from ~ date_offset? ~ space? ~ "-" ~ space? ~ date_to ~ date_offset?
                   | date_from ~ date_offset ~ monthday_range_plus?
                   | date_from ~ monthday_range_plus?
                   | year? ~ month ~ ("-" ~ month)? }
  monthday_selector = { monthday_range ~ ("," ~ monthday_range)* }
against `Print.monthdayRange`: `2020Jan-Feb`, `Jan 5`, `Jan 5-Mo +1 day-2021 easter -2 days`.
-/
namespace OH.Proofs.Syn
open OH.Model OH.Model.Parser

/-- every month-day range the parser can build: months 1..12, years 1900..9999, days 1..31, offsets
with a weekday 0..6 and an `i64` day count.  (Ends built from a bare day number or from `+` are
ordinary dates once built.) -/
def okMonthday : MonthdayRange → Bool
  | .month lo hi y => decide (1 ≤ lo ∧ lo ≤ 12 ∧ 1 ≤ hi ∧ hi ≤ 12) && okYearOpt y
  | .date s so e eo => okDate s && okDateOffset so && okDate e && okDateOffset eo

end OH.Proofs.Syn

namespace OH.Proofs.Syn.Wide
open OH.Model OH.Model.Peg OH.Model.Parser OH.Generated.Grammar OH.Proofs.Syn

/-! ### the four alternatives of `monthday_range`, named -/

def mdAlt1 : G :=
  .seq g_date_from (.seq (.opt g_date_offset) (.seq (.opt g_space) (.seq (.str ['-'])
    (.seq (.opt g_space) (.seq g_date_to (.opt g_date_offset))))))
def mdAlt2 : G := .seq g_date_from (.seq g_date_offset (.opt g_monthday_range_plus))
def mdAlt3 : G := .seq g_date_from (.opt g_monthday_range_plus)
def mdAlt4 : G := .seq (.opt g_year) (.seq g_month (.opt (.seq (.str ['-']) g_month)))

/-- re-checked against the generated grammar -/
theorem g_monthday_range_eq :
    g_monthday_range = .rule .monthday_range false (.alt mdAlt1 (.alt mdAlt2 (.alt mdAlt3 mdAlt4))) := rfl

/-- what may follow ONE printed month-day range -/
structure FeMd (rest : List Char) : Prop where
  /-- a day number or a day count must end -/
  nodigit : NoDigit rest
  /-- the look-ahead of `daynum` -/
  nocolon : ∀ r, rest ≠ ':' :: r
  /-- `monthday_range_plus`, `+Mo` -/
  noplus : ∀ r, rest ≠ '+' :: r
  /-- `- date_to`, `-Mo`, `-Feb` -/
  nominus : ∀ r, rest ≠ '-' :: r
  /-- `day` / `days` -/
  nos : ∀ r, rest ≠ 's' :: r
  /-- ` +1 day`, ` - date_to` -/
  nooff : NoDayOffset rest
  /-- after a month range (`Jan`), a space and a day number would make it a date (`Jan 10`); the
  look-ahead of `daynum` is what tells `Jan 10:00-12:00` apart -/
  noday : ∀ r, rest = ' ' :: r → run g_daynum false r = none

theorem FeMd_comma (r : List Char) : FeMd (',' :: r) where
  nodigit := by intro c r' e; cases e; decide
  nocolon := fun _ h => by cases h
  noplus := fun _ h => by cases h
  nominus := fun _ h => by cases h
  nos := fun _ h => by cases h
  nooff := fun _ _ h => by cases h
  noday := fun _ h => by cases h

/-- `monthday_range_plus?` finds nothing -/
theorem run_opt_mdplus_none (rest : List Char) (h : ∀ r, rest ≠ '+' :: r) :
    run (.opt g_monthday_range_plus) false rest = some (R.nil rest) := by
  apply opt_none
  simp [g_monthday_range_plus, peg, str1_none true '+' rest h]

/-- `space? ~ "-"` finds nothing -/
theorem run_space_dash_none (rest : List Char) (h1 : ∀ r, rest ≠ '-' :: r) (h2 : NoDayOffset rest)
    (X : G) : run (.seq (.opt g_space) (.seq (.str ['-']) X)) false rest = none := by
  cases rest with
  | nil => simp [g_space, peg]
  | cons c r =>
    by_cases hc : c = ' '
    · subst hc
      have h3 : run (.str ['-'] : G) false r = none := by
        apply str1_none
        intro r' e
        exact (h2 '-' r' (by rw [e])).2 rfl
      simp [g_space, peg, h3]
    · have h3 : '-' ≠ c := by intro e; subst e; exact h1 r rfl
      simp [g_space, peg, Ne.symm hc, h3]

theorem MdStartChar_ne_space {c : Char} (h : MdStartChar c) : ' ' ≠ c := by
  rcases h with h | h | h
  · intro e; subst e; exact absurd h (by decide)
  · rcases h with h | h | h | h | h | h | h | h <;> subst h <;> decide
  · subst h; decide

/-! ### month ranges `2020Jan-Feb` -/

theorem monthdayRange_month (lo hi : Nat) (y : Option Nat) :
    Print.monthdayRange (.month lo hi y) =
      yearStr y ++ (Print.monthStr lo ++ (if lo ≠ hi then '-' :: Print.monthStr hi else [])) := by
  cases y <;> simp [Print.monthdayRange, yearStr]

def mdTree : MonthdayRange → T
  | .month lo hi y =>
    .node .monthday_range (Print.monthdayRange (.month lo hi y))
      (yearKids y ++ monthTree lo :: (if lo ≠ hi then [monthTree hi] else []))
  | .date s so e eo =>
    .node .monthday_range (Print.monthdayRange (.date s so e eo))
      (dateTree s :: offKids so ++ (if (s, so) ≠ (e, eo) then dateToTree e :: offKids eo else []))

theorem run_opt_year (y : Option Nat) (hy : okYearOpt y = true) (m : Nat) (X : List Char) :
    run (.opt g_year) false (yearStr y ++ (Print.monthStr m ++ X))
      = some ⟨yearKids y, yearStr y, Print.monthStr m ++ X⟩ := by
  cases y with
  | none => simp [yearStr, yearKids, peg, run_year_none_month false m]
  | some y =>
    simp only [okYearOpt, decide_eq_true_eq] at hy
    simp [yearStr, yearKids, peg, run_year false y hy]

theorem run_md_month (lo hi : Nat) (y : Option Nat) (hm : okMonthday (.month lo hi y) = true)
    (rest : List Char) (hf : FeMd rest) :
    run g_monthday_range false (Print.monthdayRange (.month lo hi y) ++ rest) =
      some ⟨[mdTree (.month lo hi y)], Print.monthdayRange (.month lo hi y), rest⟩ := by
  simp only [okMonthday, Bool.and_eq_true, decide_eq_true_eq] at hm
  obtain ⟨⟨hl1, hl2, hh1, hh2⟩, hy⟩ := hm
  unfold mdTree
  rw [monthdayRange_month]
  -- what follows the first month
  let X := (if lo ≠ hi then '-' :: Print.monthStr hi else []) ++ rest
  have hin : yearStr y ++ (Print.monthStr lo ++ (if lo ≠ hi then '-' :: Print.monthStr hi else [])) ++ rest
      = yearStr y ++ (Print.monthStr lo ++ X) := by simp [X]
  rw [hin]
  -- no day number follows
  have hX1 : run g_daynum false X = none := by
    apply run_daynum_none
    by_cases h : lo = hi
    · simp only [X, h, ne_eq, not_true, if_false, List.nil_append]; exact hf.nodigit
    · simp only [X, h, ne_eq, not_false_eq_true, if_true, List.cons_append]
      intro c r e; cases e; decide
  have hX2 : ∀ r, X = ' ' :: r → run g_daynum false r = none := by
    intro r e
    by_cases h : lo = hi
    · simp only [X, h, ne_eq, not_true, if_false, List.nil_append] at e; exact hf.noday r e
    · simp only [X, h, ne_eq, not_false_eq_true, if_true, List.cons_append] at e; cases e
  have hdf : run g_date_from false (yearStr y ++ (Print.monthStr lo ++ X)) = none := by
    have := run_date_from_none_month y hy lo ⟨hl1, hl2⟩ X hX1 hX2
    rwa [List.append_assoc] at this
  have h1 : run mdAlt1 false (yearStr y ++ (Print.monthStr lo ++ X)) = none := seq_none_left hdf
  have h2 : run mdAlt2 false (yearStr y ++ (Print.monthStr lo ++ X)) = none := seq_none_left hdf
  have h3 : run mdAlt3 false (yearStr y ++ (Print.monthStr lo ++ X)) = none := seq_none_left hdf
  have hyr := run_opt_year y hy lo X
  have hmon := run_month lo ⟨hl1, hl2⟩ X
  have h4 : run mdAlt4 false (yearStr y ++ (Print.monthStr lo ++ X)) =
      some ⟨yearKids y ++ monthTree lo :: (if lo ≠ hi then [monthTree hi] else []),
        yearStr y ++ (Print.monthStr lo ++ (if lo ≠ hi then '-' :: Print.monthStr hi else [])), rest⟩ := by
    have htail : run (.opt (.seq (.str ['-']) g_month)) false X =
        some ⟨(if lo ≠ hi then [monthTree hi] else []),
          (if lo ≠ hi then '-' :: Print.monthStr hi else []), rest⟩ := by
      by_cases h : lo = hi
      · simp only [X, h, ne_eq, not_true, if_false, List.nil_append]
        exact opt_none (seq_none_left (str1_none false '-' rest hf.nominus))
      · simp only [X, h, ne_eq, not_false_eq_true, if_true, List.cons_append]
        simp [peg, run_month hi ⟨hh1, hh2⟩]
    simp only [mdAlt4, run_seq, hyr, hmon, htail, R.append]
    simp
  simp only [g_monthday_range_eq, run_rule, run_alt, Bool.or_self, h1, h2, h3, h4]
  simp [monthdayRange_month]

/-! ### dated ranges `Jan 5-Mo +1 day-2021 easter`, single dates `Jan 5 +1 day` -/

theorem monthdayRange_date_range (s : DateSpec) (so : DateOffset) (e : DateSpec) (eo : DateOffset)
    (h : (s, so) ≠ (e, eo)) :
    Print.monthdayRange (.date s so e eo) =
      Print.date s ++ (Print.dateOffset so ++ '-' :: (Print.date e ++ Print.dateOffset eo)) := by
  simp [Print.monthdayRange, h]

theorem monthdayRange_date_single (s : DateSpec) (so : DateOffset) (e : DateSpec) (eo : DateOffset)
    (h : ¬ (s, so) ≠ (e, eo)) :
    Print.monthdayRange (.date s so e eo) = Print.date s ++ Print.dateOffset so := by
  simp [Print.monthdayRange, h]

theorem DayFollow_dash (Z : List Char) : DayFollow ('-' :: Z) :=
  ⟨fun c r h => by cases h; decide, fun r h => by cases h⟩

/-- alternative 1 on a printed range with two different ends -/
theorem run_mdAlt1_range (s : DateSpec) (so : DateOffset) (e : DateSpec) (eo : DateOffset)
    (hs : okDate s = true) (hso : okDateOffset so = true) (he : okDate e = true)
    (heo : okDateOffset eo = true) (rest : List Char) (hf : FeMd rest) :
    run mdAlt1 false
        (Print.date s ++ (Print.dateOffset so ++ '-' :: (Print.date e ++ (Print.dateOffset eo ++ rest)))) =
      some ⟨dateTree s :: offKids so ++ dateToTree e :: offKids eo,
        Print.date s ++ (Print.dateOffset so ++ '-' :: (Print.date e ++ Print.dateOffset eo)), rest⟩ := by
  have hdf := run_date_from s hs _
    (dateOffset_dayFollow so ('-' :: (Print.date e ++ (Print.dateOffset eo ++ rest))) (DayFollow_dash _))
  have hoff := run_opt_date_offset so hso ('-' :: (Print.date e ++ (Print.dateOffset eo ++ rest)))
    (fun _ _ h => by cases h) (fun _ h => by cases h) (pm_wd_none_dash_date e he _)
  have hsp1 : run (.opt g_space) false ('-' :: (Print.date e ++ (Print.dateOffset eo ++ rest)))
      = some ⟨[], [], '-' :: (Print.date e ++ (Print.dateOffset eo ++ rest))⟩ := by
    simp [g_space, peg]
  have hdash : run (.str ['-'] : G) false ('-' :: (Print.date e ++ (Print.dateOffset eo ++ rest)))
      = some ⟨[], ['-'], Print.date e ++ (Print.dateOffset eo ++ rest)⟩ := by
    simp [peg]
  have hsp2 : run (.opt g_space) false (Print.date e ++ (Print.dateOffset eo ++ rest))
      = some ⟨[], [], Print.date e ++ (Print.dateOffset eo ++ rest)⟩ := by
    obtain ⟨c, cs, ec, hc⟩ := date_head e he
    rw [ec]
    simp [g_space, peg, MdStartChar_ne_space hc]
  have hto := run_date_to e he _ (dateOffset_dayFollow eo rest ⟨hf.nodigit, hf.nocolon⟩)
  have hoff2 := run_opt_date_offset eo heo rest hf.nooff hf.nos
    (pm_wd_none_of_pm rest hf.noplus hf.nominus)
  simp only [mdAlt1, run_seq, hdf, hoff, hsp1, hdash, hsp2, hto, hoff2, R.append]
  simp

/-- alternative 1 fails on a printed single date: no `-` follows -/
theorem run_mdAlt1_single (s : DateSpec) (so : DateOffset) (hs : okDate s = true)
    (hso : okDateOffset so = true) (rest : List Char) (hf : FeMd rest) :
    run mdAlt1 false (Print.date s ++ (Print.dateOffset so ++ rest)) = none := by
  have hdf := run_date_from s hs _ (dateOffset_dayFollow so rest ⟨hf.nodigit, hf.nocolon⟩)
  have hoff := run_opt_date_offset so hso rest hf.nooff hf.nos
    (pm_wd_none_of_pm rest hf.noplus hf.nominus)
  exact seq_none_right hdf (seq_none_right hoff (run_space_dash_none rest hf.nominus hf.nooff _))

theorem run_md_date (s : DateSpec) (so : DateOffset) (e : DateSpec) (eo : DateOffset)
    (hm : okMonthday (.date s so e eo) = true) (rest : List Char) (hf : FeMd rest) :
    run g_monthday_range false (Print.monthdayRange (.date s so e eo) ++ rest) =
      some ⟨[mdTree (.date s so e eo)], Print.monthdayRange (.date s so e eo), rest⟩ := by
  simp only [okMonthday, Bool.and_eq_true] at hm
  obtain ⟨⟨⟨hs, hso⟩, he⟩, heo⟩ := hm
  unfold mdTree
  by_cases h : (s, so) ≠ (e, eo)
  · rw [monthdayRange_date_range s so e eo h]
    have h1 := run_mdAlt1_range s so e eo hs hso he heo rest hf
    simp only [List.append_assoc, List.cons_append]
    simp only [g_monthday_range_eq, run_rule, run_alt, Bool.or_self, h1]
    simp [h, monthdayRange_date_range s so e eo h]
  · rw [monthdayRange_date_single s so e eo h]
    have h1 := run_mdAlt1_single s so hs hso rest hf
    have hdf := run_date_from s hs _ (dateOffset_dayFollow so rest ⟨hf.nodigit, hf.nocolon⟩)
    have hpl := run_opt_mdplus_none rest hf.noplus
    simp only [List.append_assoc]
    by_cases hno : so = noOffset
    · subst hno
      have e0 : Print.dateOffset noOffset = [] := by
        simp [Print.dateOffset, noOffset, Print.wdayOffset, Print.daysOffset]
      rw [e0] at hdf h1 ⊢
      simp only [List.nil_append, List.append_nil] at hdf h1 ⊢
      have hoffn := run_date_offset_none rest hf.nooff (pm_wd_none_of_pm rest hf.noplus hf.nominus)
      have h2 : run mdAlt2 false (Print.date s ++ rest) = none :=
        seq_none_right hdf (seq_none_left hoffn)
      have h3 : run mdAlt3 false (Print.date s ++ rest) = some ⟨[dateTree s], Print.date s, rest⟩ := by
        simp only [mdAlt3, run_seq, hdf, hpl, R.append, R.nil]
        simp
      simp only [g_monthday_range_eq, run_rule, run_alt, Bool.or_self, h1, h2, h3]
      simp [h, offKids, monthdayRange_date_single s noOffset e eo h, e0]
    · have hoff := run_date_offset so hso hno rest hf.nooff hf.nos
      have h2 : run mdAlt2 false (Print.date s ++ (Print.dateOffset so ++ rest)) =
          some ⟨[dateTree s, offTree so], Print.date s ++ Print.dateOffset so, rest⟩ := by
        simp only [mdAlt2, run_seq, hdf, hoff, hpl, R.append, R.nil]
        simp
      simp only [g_monthday_range_eq, run_rule, run_alt, Bool.or_self, h1, h2]
      simp [h, offKids, hno, monthdayRange_date_single s so e eo h]

/-! ### the builder -/

theorem build_md (m : MonthdayRange) (hm : okMonthday m = true) :
    buildMonthdayRange (mdTree m) = .ok m := by
  cases m with
  | month lo hi y =>
    simp only [okMonthday, Bool.and_eq_true, decide_eq_true_eq] at hm
    obtain ⟨⟨hl1, hl2, hh1, hh2⟩, hy⟩ := hm
    have hbl := build_month lo ⟨hl1, hl2⟩
    have hbh := build_month hi ⟨hh1, hh2⟩
    cases y with
    | none =>
      by_cases h : lo = hi
      · subst h
        simp [buildMonthdayRange, mdTree, yearKids, assertRule, hbl, bind, Except.bind]
      · simp [buildMonthdayRange, mdTree, yearKids, assertRule, hbl, hbh, h, bind, Except.bind]
    | some y =>
      simp only [okYearOpt, decide_eq_true_eq] at hy
      have hby := build_year y hy.2
      by_cases h : lo = hi
      · subst h
        simp [buildMonthdayRange, mdTree, yearKids, assertRule, hbl, hby, bind, Except.bind]
      · simp [buildMonthdayRange, mdTree, yearKids, assertRule, hbl, hbh, hby, h, bind, Except.bind]
  | date s so e eo =>
    simp only [okMonthday, Bool.and_eq_true] at hm
    obtain ⟨⟨⟨hs, hso⟩, he⟩, heo⟩ := hm
    have hbs := build_date_from s hs
    have hbso := build_date_offset so hso
    have hbeo := build_date_offset eo heo
    have hbe := build_date_to e he s
    by_cases h : (s, so) ≠ (e, eo)
    · by_cases h1 : so = noOffset <;> by_cases h2 : eo = noOffset
      · subst h1 h2
        simp [buildMonthdayRange, mdTree, offKids, assertRule, hbs, hbe, h, bind, Except.bind]
      · subst h1
        simp [buildMonthdayRange, mdTree, offKids, assertRule, hbs, hbe, hbeo, h, h2, bind, Except.bind]
      · subst h2
        simp [buildMonthdayRange, mdTree, offKids, assertRule, hbs, hbe, hbso, h, h1, bind, Except.bind]
      · simp [buildMonthdayRange, mdTree, offKids, assertRule, hbs, hbe, hbso, hbeo, h, h1, h2, bind,
          Except.bind]
    · have heq : (s, so) = (e, eo) := Classical.not_not.mp h
      cases heq
      by_cases h1 : so = noOffset
      · subst h1
        simp [buildMonthdayRange, mdTree, offKids, assertRule, hbs, bind, Except.bind]
      · simp [buildMonthdayRange, mdTree, offKids, assertRule, hbs, hbso, h1, bind, Except.bind]

end OH.Proofs.Syn.Wide

namespace OH.Proofs.Syn.Wide
open OH.Model OH.Model.Peg OH.Model.Parser OH.Generated.Grammar OH.Proofs.Syn

theorem run_md (m : MonthdayRange) (hm : okMonthday m = true) (rest : List Char) (hf : FeMd rest) :
    run g_monthday_range false (Print.monthdayRange m ++ rest) =
      some ⟨[mdTree m], Print.monthdayRange m, rest⟩ := by
  cases m with
  | month lo hi y => exact run_md_month lo hi y hm rest hf
  | date s so e eo => exact run_md_date s so e eo hm rest hf

/-- nothing that `monthday_range` accepts starts here -/
theorem run_md_none_head (inp : List Char) (h : ∀ c r, inp = c :: r → ¬ MdStartChar c) :
    run g_monthday_range false inp = none := by
  have hdf := run_date_from_none_head inp h
  have h1 : run mdAlt1 false inp = none := seq_none_left hdf
  have h2 : run mdAlt2 false inp = none := seq_none_left hdf
  have h3 : run mdAlt3 false inp = none := seq_none_left hdf
  have hy : run g_year false inp = none := by
    apply run_year_none
    intro c r e hc
    exact h c r e (Or.inl hc)
  have hm : run g_month false inp = none := by
    cases inp with
    | nil => exact run_month_none_nil false
    | cons c r =>
      apply run_month_none_head
      intro hc
      exact h c r rfl (Or.inr (Or.inl hc))
  have h4 : run mdAlt4 false inp = none := seq_none_right (opt_none hy) (seq_none_left hm)
  simp only [g_monthday_range_eq, run_rule, run_alt, Bool.or_self, h1, h2, h3, h4]

/-- a printed month-day range starts with a year digit, a month letter or `e` -/
theorem monthdayRange_head (m : MonthdayRange) (hm : okMonthday m = true) :
    ∃ c r, Print.monthdayRange m = c :: r ∧ MdStartChar c ∧
      (Print.startsWithYear m = false → MonthLetter c ∨ c = 'e') := by
  cases m with
  | month lo hi y =>
    rw [monthdayRange_month]
    obtain ⟨c, cs, e, hc⟩ := monthStr_head lo
    cases y with
    | none =>
      exact ⟨c, _, by simp only [yearStr, List.nil_append, e]; rfl, Or.inr (Or.inl hc), fun _ => Or.inl hc⟩
    | some y =>
      simp only [okMonthday, okYearOpt, Bool.and_eq_true, decide_eq_true_eq] at hm
      obtain ⟨c', cs', e', hc'⟩ := natStr_year_head y hm.2
      exact ⟨c', _, by simp only [yearStr, e']; rfl, Or.inl hc', fun h => by simp [Print.startsWithYear] at h⟩
  | date s so e eo =>
    simp only [okMonthday, Bool.and_eq_true] at hm
    obtain ⟨c, cs, ec, hc⟩ := date_head s hm.1.1.1
    refine ⟨c, cs ++ (Print.dateOffset so ++
      (if (s, so) ≠ (e, eo) then ['-'] ++ Print.date e ++ Print.dateOffset eo else [])), ?_, hc, ?_⟩
    · simp only [Print.monthdayRange, ec, List.cons_append, List.append_assoc]
    · intro hsy
      cases s with
      | fixed y m d =>
        cases y with
        | none =>
          obtain ⟨c', cs', e', hc'⟩ := monthStr_head m
          simp only [Print.date, List.nil_append, e', List.cons_append, List.cons.injEq] at ec
          rw [← ec.1]; exact Or.inl hc'
        | some y => simp [Print.startsWithYear] at hsy
      | easter y =>
        cases y with
        | none =>
          simp only [Print.date, List.nil_append, Print.str] at ec
          have : 'e' = c := by
            have := congrArg List.head? ec
            simpa using this
          exact Or.inr this.symm
        | some y => simp [Print.startsWithYear] at hsy

theorem monthday_selector_head (ms : List MonthdayRange) (hne : ms ≠ [])
    (hok : ∀ m ∈ ms, okMonthday m = true) :
    ∃ c r, Print.selector Print.monthdayRange ms = c :: r ∧ MdStartChar c ∧
      ((∀ m, ms.head? = some m → Print.startsWithYear m = false) → MonthLetter c ∨ c = 'e') := by
  cases ms with
  | nil => exact absurd rfl hne
  | cons m l =>
    obtain ⟨c, r, e, hc, hy⟩ := monthdayRange_head m (hok m (by simp))
    cases l with
    | nil => exact ⟨c, r, by simp [Print.selector, e], hc, fun h => hy (h m rfl)⟩
    | cons y l => exact ⟨c, _, by rw [selector_cons2, e]; rfl, hc, fun h => hy (h m rfl)⟩

end OH.Proofs.Syn.Wide

namespace OH.Proofs.Syn
open OH.Model OH.Model.Peg OH.Model.Parser OH.Generated.Grammar OH.Proofs.Syn.Wide

/-! ### the month-day selector -/

/-- what may follow a printed month-day selector: see the fields of `Wide.FeMd`; and no `,` followed by
something a month-day range can start with (a digit `1..9`, a month letter, `e`) -/
def FollowMonthday (rest : List Char) : Prop :=
  FeMd rest ∧ ∀ c r, rest = ',' :: c :: r → ¬ MdStartChar c

theorem md_stop (rest : List Char) (hf : FollowMonthday rest) :
    run (.seq (.str [',']) g_monthday_range) false rest = none := by
  cases rest with
  | nil => simp [peg]
  | cons c r =>
    by_cases hc : c = ','
    · subst hc
      have := run_md_none_head r (fun c' r' e => hf.2 c' r' (by rw [e]))
      simp [peg, this]
    · simp [peg, Ne.symm hc]

theorem parses_monthday_selector (ms : List MonthdayRange) (hne : ms ≠ [])
    (hok : ∀ m ∈ ms, okMonthday m = true) (rest : List Char) (hf : FollowMonthday rest) :
    ParsesTo g_monthday_selector buildMonthdaySelector (Print.selector Print.monthdayRange ms) rest ms := by
  have hrun := run_list g_monthday_range Print.monthdayRange mdTree (fun m => okMonthday m = true)
    (fun _ r => FeMd r) run_md (fun _ r => FeMd_comma r) ms hne hok rest hf.1 (md_stop rest hf)
  refine ParsesTo.mk' .monthday_selector (ms.map mdTree) ?_ ?_
  · simp only [g_monthday_selector, run_rule, Bool.or_self, hrun]
    simp
  · simp [buildMonthdaySelector, assertRule, bind, Except.bind,
      mapM_map buildMonthdayRange mdTree ms (fun m hm => build_md m (hok m hm))]

/-! ### the follow contexts of a month-day selector -/

/-- ` week…` -/
theorem FollowMonthday_week (r : List Char) : FollowMonthday (' ' :: 'w' :: r) := by
  refine ⟨⟨?_, ?_, ?_, ?_, ?_, ?_, ?_⟩, ?_⟩
  · intro c r' e; cases e; decide
  · intro _ h; cases h
  · intro _ h; cases h
  · intro _ h; cases h
  · intro _ h; cases h
  · intro c r' e; cases e; decide
  · intro r' e; cases e
    exact run_daynum_none false _ (by intro c r'' e; cases e; decide)
  · intro c r' e; cases e

/-- `FollowWide` is NOT enough after a month range: `Jan 10:00-12:00` is told apart from `Jan 10` only
by the look-ahead of `daynum`.  The extra hypothesis: when a space and a digit follow, no day number
can be read there (`daynum_fails_at_time` proves it for a printed time span). -/
theorem FollowMonthday_of_FollowWide (rest : List Char) (h : FollowWide rest)
    (hday : ∀ c r, rest = ' ' :: c :: r → ('0' ≤ c ∧ c ≤ '9') → run g_daynum false (c :: r) = none) :
    FollowMonthday rest := by
  have hnd := NoDigit_of_FollowWide rest h
  have key : ∀ c r, rest = ' ' :: c :: r → c ≠ '+' ∧ c ≠ '-' → FollowMonthday rest := by
    intro c r e hc
    subst e
    refine ⟨⟨hnd, ?_, ?_, ?_, ?_, ?_, ?_⟩, ?_⟩
    · intro _ h; cases h
    · intro _ h; cases h
    · intro _ h; cases h
    · intro _ h; cases h
    · intro c' r' e; cases e; exact hc
    · intro r' e; cases e
      by_cases hd : '0' ≤ c ∧ c ≤ '9'
      · exact hday c r rfl hd
      · exact run_daynum_none false _ (by intro c' r'' e; cases e; exact hd)
    · intro c' r' e; cases e
  rcases h with (rfl | ⟨r, rfl⟩ | ⟨c, r, rfl, hc⟩) | ⟨c, r, rfl, hc⟩
  · refine ⟨⟨hnd, ?_, ?_, ?_, ?_, ?_, ?_⟩, ?_⟩
    · intro _ h; cases h
    · intro _ h; cases h
    · intro _ h; cases h
    · intro _ h; cases h
    · intro _ _ h; cases h
    · intro _ h; cases h
    · intro _ _ h; cases h
  · refine ⟨FeMd_comma _, ?_⟩
    intro c r' e; cases e
    intro hc
    rcases hc with h | h | h
    · exact absurd h (by decide)
    · rcases h with h | h | h | h | h | h | h | h <;> exact absurd h (by decide)
    · exact absurd h (by decide)
  · apply key c r rfl
    rcases hc with h | h | h | h | h | h <;> subst h <;> decide
  · apply key c r rfl
    rcases hc with (h | h | h | h) | (h | h | h | h | h | h)
    · constructor <;> (intro e; subst e; exact absurd h (by decide))
    all_goals (subst h; decide)

/-- the day-number look-ahead at a printed time: `HH:MM` (at most `24:00`) followed by anything but `:` -/
theorem daynum_fails_at_time (m : Nat) (hm : m ≤ 1440) (r : List Char) (hr : ∀ x, r ≠ ':' :: x) :
    run g_daynum false (Print.extTime m ++ r) = none :=
  run_daynum_time_none false m hm r hr

/-! ### a month-day selector after a year selector -/

theorem FollowYear_of_MdStartChar (c : Char) (r : List Char) (hc : MdStartChar c) :
    FollowYear (c :: r) := by
  apply FollowYear_of_head
  rcases hc with h | h | h
  · refine ⟨?_, ?_, ?_, ?_⟩ <;> (intro e; subst e; exact absurd h (by decide))
  · rcases h with h | h | h | h | h | h | h | h <;> subst h <;> decide
  · subst h; decide

/-- a printed month-day selector may follow a year selector -/
theorem FollowYear_monthday (ms : List MonthdayRange) (hne : ms ≠ [])
    (hok : ∀ m ∈ ms, okMonthday m = true) (rest : List Char) :
    FollowYear (Print.selector Print.monthdayRange ms ++ rest) := by
  obtain ⟨c, r, e, hc, _⟩ := monthday_selector_head ms hne hok
  rw [e]
  exact FollowYear_of_MdStartChar c _ hc

/-- … and when its first range does not start with a year, it does not start with a digit (needed
when the last year range ends with `/step`) -/
theorem NoDigit_monthday (ms : List MonthdayRange) (hne : ms ≠ [])
    (hok : ∀ m ∈ ms, okMonthday m = true) (hy : ∀ m, ms.head? = some m → Print.startsWithYear m = false)
    (rest : List Char) : NoDigit (Print.selector Print.monthdayRange ms ++ rest) := by
  obtain ⟨c, r, e, _, hc⟩ := monthday_selector_head ms hne hok
  rw [e]
  intro c' r' e'
  cases e'
  rcases hc hy with h | h
  · rcases h with h | h | h | h | h | h | h | h <;> subst h <;> decide
  · subst h; decide

end OH.Proofs.Syn
