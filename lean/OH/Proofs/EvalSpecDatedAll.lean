import OH.Proofs.EvalSpecDatedWide
/-
C01 refinement, dated ranges with two FIXED yearless bounds (not a single day): EVERY day offset an `i64` can
hold — within and beyond representability.

Beyond about ±92 000 000 days the day `d - offset` is not a day chrono can represent (`year_before_offset` is
pinned at the first or the last year of the calendar), the code's windows of years are cut by the calendar (a
year outside it has no occurrence), and the shifted occurrences inside the windows may themselves be pinned at
`NaiveDate::MIN/MAX` (then they are equal, and `ensure_increasing_iter` keeps one of them).  So, on top of
OH/Proofs/EvalSpecDatedWide.lean:
 * `mem_ensureIncreasing`: on a WEAKLY increasing list `ensure_increasing_iter` keeps every value;
 * `openOn_widenE`: a window is adequate also when it starts at the first / ends at the last year of the calendar;
 * `far_lt` / `far_gt`: whatever the offset, the occurrences of the years two below (above) the centre of the window
   are shifted before (after) the day — or there is no such year.
-/
namespace OH.Proofs.EvalSpec
open OH.Model OH.Model.Cal
open OH.Spec (shift dateInstance exactInstance specYear datedOk candidateYears yearsNear yearSpan isFixedDate)

/-! ### `ensure_increasing_iter` on a weakly increasing list -/

theorem mem_ensureIncAux (last : Int) (l : List Int) (hl : ∀ y ∈ l, last ≤ y) (h : l.Pairwise (· ≤ ·)) :
    ∀ x ∈ l, x = last ∨ x ∈ ensureIncAux last l := by
  induction l generalizing last with
  | nil => simp
  | cons y ys ih =>
    rw [List.pairwise_cons] at h
    intro x hx
    have hy := hl y (by simp)
    unfold ensureIncAux
    by_cases hle : y ≤ last
    · rw [if_pos hle]
      rcases List.mem_cons.1 hx with rfl | hx'
      · left; omega
      · exact ih last (fun z hz => hl z (by simp [hz])) h.2 x hx'
    · rw [if_neg hle]
      rcases List.mem_cons.1 hx with rfl | hx'
      · right; simp
      · rcases ih y (fun z hz => h.1 z hz) h.2 x hx' with e | m
        · right; simp [e]
        · right; exact List.mem_cons_of_mem _ m

theorem mem_ensureIncreasing (l : List Int) (h : l.Pairwise (· ≤ ·)) (x : Int) :
    x ∈ ensureIncreasing l ↔ x ∈ l := by
  constructor
  · exact ensureIncreasing_sub l x
  · intro hx
    cases l with
    | nil => simp at hx
    | cons y ys =>
      rw [List.pairwise_cons] at h
      unfold ensureIncreasing
      rcases List.mem_cons.1 hx with rfl | hx'
      · simp
      · rcases mem_ensureIncAux y ys (fun z hz => h.1 z hz) h.2 x hx' with e | m
        · simp [e]
        · exact List.mem_cons_of_mem _ m

/-- the pairing on weakly increasing bounds -/
theorem isOpen_intervalsFromBoundsW (ss es : List Int) (d : Int)
    (hs : ss.Pairwise (· ≤ ·)) (he : es.Pairwise (· ≤ ·)) (h2 : d ≤ dateEnd) :
    isOpenFromIntervals d (intervalsFromBounds ss es) = true ↔ PairSpec ss es d := by
  rw [intervalsFromBounds,
    isOpen_intervalsGo_spec _ _ d (ensureIncreasing_sorted ss) (ensureIncreasing_sorted es) h2]
  unfold PairSpec
  simp only [mem_ensureIncreasing ss hs, mem_ensureIncreasing es he]

/-! ### adequate windows, the ends of the calendar included -/

theorem openOn_widenE (S E : Int → Int) (lo hi a1 a2 b1 b2 d : Int) (mS : WMono S lo hi)
    (mE : WMono E lo hi) (ha : lo ≤ a1 ∧ a1 ≤ a2 ∧ a2 ≤ hi) (hb : lo ≤ b1 ∧ b1 ≤ b2 ∧ b2 ≤ hi)
    (sLo : a1 = lo ∨ S a1 ≤ d) (sHi : a2 = hi ∨ d < S a2) (eLo : b1 = lo ∨ E b1 < d) (eHi : b2 = hi ∨ d ≤ E b2) :
    OpenOn S E a1 a2 b1 b2 d ↔ OpenOn S E lo hi lo hi d := by
  have MS := wmono_le S lo hi mS
  have ME := wmono_le E lo hi mE
  constructor
  · rintro ⟨k, hk1, hk2, hle, hno⟩
    refine ⟨k, by omega, by omega, hle, fun j hj1 hj2 => ?_⟩
    by_cases hj : j < b1
    · have a := ME j b1 hj1 (by omega) (by omega)
      have b := hno b1 (by omega) (by omega)
      omega
    · by_cases hj' : b2 < j
      · have a := ME b2 j (by omega) (by omega) hj2
        omega
      · exact hno j (by omega) (by omega)
  · rintro ⟨k, hk1, hk2, hle, hno⟩
    have hk : k ≤ a2 := by
      by_cases h : a2 < k
      · have := MS a2 k (by omega) (by omega) hk2
        omega
      · omega
    by_cases hka : a1 ≤ k
    · exact ⟨k, hka, hk, hle, fun j hj1 hj2 => hno j (by omega) (by omega)⟩
    · refine ⟨a1, by omega, by omega, by omega, fun j hj1 hj2 => ?_⟩
      have a := MS k a1 hk1 (by omega) (by omega)
      have := hno j (by omega) (by omega)
      omega

/-! ### the centre of the windows, any offset -/

/-- a fixed yearless bound, any offset an `i64` can hold -/
structure BoundA (ds : DateSpec) (o : DateOffset) : Prop where
  wf : ds.wf = true
  owf : o.wf = true
  fx : isFixedDate ds = true
  yl : specYear ds = none

theorem BoundA.toW {ds : DateSpec} {o : DateOffset} (h : BoundA ds o) (hs : -92000000 ≤ o.days ∧ o.days ≤ 92000000) :
    BoundW ds o :=
  ⟨h.wf, by have := h.owf; simp only [DateOffset.wf, Bool.and_eq_true] at this; exact this.1, h.fx, h.yl, hs⟩

/-- `year_before_offset`: the year of `d - offset` pinned into the calendar -/
theorem yearBeforeOffset_clamp (d : Int) (o : DateOffset) (hw : o.wf = true) (hd : 693595 ≤ d ∧ d ≤ 3652059) :
    yearBeforeOffset d o = year (clampDay (d - o.days)) := by
  unfold yearBeforeOffset
  have hmin := minDay_eq; have hmax := maxDay_eq
  rw [addDaysSat_clamp (by omega) (by omega)]
  simp only [DateOffset.wf, i64Ok, Bool.and_eq_true, decide_eq_true_eq] at hw
  congr 1
  unfold satNeg clampDay
  split <;> omega

theorem shiftC_le_of (o : DateOffset) (p d : Int) (hd : 0 ≤ d) (h : p + o.days + 6 ≤ d) : o.shiftC p ≤ d := by
  have := (o.shiftC_near p).2
  have := minDay_eq; have := maxDay_eq
  unfold clampDay at *
  omega

theorem lt_shiftC_of (o : DateOffset) (p d : Int) (hd : d ≤ 4000000) (h : d + 6 < p + o.days) : d < o.shiftC p := by
  have := (o.shiftC_near p).1
  have := minDay_eq; have := maxDay_eq
  unfold clampDay at *
  omega

/-- the shifted instance of a year of the calendar, as a clamped shift of a day of that year -/
theorem projT_eq {ds : DateSpec} {o : DateOffset} (h : BoundA ds o) (after : Bool) (k : Int) (hk : RY k) :
    ∃ p, InY k p ∧ projT ds o after k = o.shiftC p := by
  obtain ⟨p, hp, ip, _, rp⟩ := instW h.wf h.fx h.yl k hk after
  refine ⟨p, ip, ?_⟩
  simp only [projT, proj, hp, Option.map_some, Option.getD_some]
  exact shift_eq_shiftC o h.owf p rp.1 rp.2

theorem projA_some {ds : DateSpec} {o : DateOffset} (h : BoundA ds o) (after : Bool) (k : Int) (hk : RY k) :
    proj ds o after k = some (projT ds o after k) := by
  obtain ⟨p, hp, _⟩ := instW h.wf h.fx h.yl k hk after
  simp only [projT, proj, hp, Option.map_some, Option.getD_some]

theorem projA_none {ds : DateSpec} {o : DateOffset} (h : BoundA ds o) (after : Bool) (k : Int) (hk : ¬ RY k) :
    proj ds o after k = none := by
  have hfx := h.fx
  cases ds with
  | easter yr => simp [isFixedDate] at hfx
  | fixed yr m dd => simp only [proj, dateInstance_out yr m dd k after hk, Option.map_none]

theorem projT_wmonoA {ds : DateSpec} {o : DateOffset} (h : BoundA ds o) (after : Bool) :
    WMono (projT ds o after) minYear maxYear := by
  intro k h1 h2
  obtain ⟨p, ip, ep⟩ := projT_eq h after k ⟨h1, by omega⟩
  obtain ⟨q, iq, eq⟩ := projT_eq h after (k + 1) ⟨by omega, by omega⟩
  rw [ep, eq]
  apply DateOffset.shiftC_mono o h.owf
  unfold InY at ip iq
  omega

/-- whatever the offset: the occurrences of the years two below the centre are shifted before the day … -/
theorem far_lt {ds : DateSpec} {o : DateOffset} (h : BoundA ds o) (after : Bool) (d : Int)
    (hd : 693595 ≤ d ∧ d ≤ 3652059) (k : Int) (hk : RY k) (hka : k + 2 ≤ year (clampDay (d - o.days))) :
    projT ds o after k < d := by
  obtain ⟨p, ip, ep⟩ := projT_eq h after k hk
  have ic : InY (year (clampDay (d - o.days))) (clampDay (d - o.days)) := inY_year _
  have hmin := minDay_eq; have hmax := maxDay_eq
  have ymin := year_minDay
  generalize year (clampDay (d - o.days)) = c at *
  have s1 := yearStart_le (a := k + 2) (b := c) hka
  have s2 := yearStart_step (k + 1) (k + 2) (by omega)
  unfold InY at ip ic
  rw [ep]
  by_cases hcl : d - o.days < minDay
  · -- pinned at the first day: the centre is the first year, there is no year two below
    exfalso
    have e : clampDay (d - o.days) = minDay := by unfold clampDay; omega
    rw [e] at ic
    have : ¬ (minYear < c) := fun hc => by
      have := yearStart_lt_iff.2 hc; rw [yearStart_minYear] at this; omega
    unfold RY at hk
    omega
  · have e : clampDay (d - o.days) ≤ d - o.days := by unfold clampDay; omega
    have := shiftC_le_of o p (d - 300) (by omega) (by omega)
    omega

/-- … and those of the years two above it after the day -/
theorem far_gt {ds : DateSpec} {o : DateOffset} (h : BoundA ds o) (after : Bool) (d : Int)
    (hd : 693595 ≤ d ∧ d ≤ 3652059) (k : Int) (hk : RY k) (hka : year (clampDay (d - o.days)) + 2 ≤ k) :
    d < projT ds o after k := by
  obtain ⟨p, ip, ep⟩ := projT_eq h after k hk
  have ic : InY (year (clampDay (d - o.days))) (clampDay (d - o.days)) := inY_year _
  have hmin := minDay_eq; have hmax := maxDay_eq
  generalize year (clampDay (d - o.days)) = c at *
  have s1 := yearStart_le (a := c + 2) (b := k) hka
  have s2 := yearStart_step (c + 1) (c + 2) (by omega)
  unfold InY at ip ic
  rw [ep]
  by_cases hcl : maxDay < d - o.days
  · exfalso
    have e : clampDay (d - o.days) = maxDay := by unfold clampDay; omega
    rw [e] at ic
    have : ¬ (c + 1 < maxYear + 1) := fun hc => by
      have := yearStart_lt_iff.2 hc; rw [yearStart_maxYear_succ] at this; omega
    unfold RY at hk
    omega
  · have e : d - o.days ≤ clampDay (d - o.days) := by unfold clampDay; omega
    have := lt_shiftC_of o p (d + 300) (by omega) (by omega)
    omega

/-- declarative reading of `datedOk` for two fixed yearless bounds: the pairing on the candidate years that
are years of the calendar -/
theorem datedOk_yearless_iffA (s : DateSpec) (so : DateOffset) (e : DateSpec) (eo : DateOffset) (d : Int)
    (hs : BoundA s so) (he : BoundA e eo) (hns : ¬ (s = e ∧ isFixedDate s = true)) :
    datedOk s so e eo d = true ↔
      OpenOn (projT s so true) (projT e eo false)
        (max (year d - yearSpan so eo) minYear) (min (year d + yearSpan so eo) maxYear)
        (max (year d - yearSpan so eo) minYear) (min (year d + yearSpan so eo) maxYear) d := by
  have hsy := hs.yl
  have hey := he.yl
  rw [datedOk_range_iff s so e eo d hns]
  have cand : ∀ k, k ∈ candidateYears s e (yearSpan so eo) d ↔
      year d - yearSpan so eo ≤ k ∧ k ≤ year d + yearSpan so eo := by
    intro k; rw [candidateYears_yearless s e _ d hsy hey, mem_yearsNear]
  have outS : ∀ k p, dateInstance s k true = some p → RY k := by
    intro k p hp
    by_cases hk : RY k
    · exact hk
    · cases s with
      | easter yr => have := hs.fx; simp [isFixedDate] at this
      | fixed yr m dd => rw [dateInstance_out yr m dd k true hk] at hp; cases hp
  have outE : ∀ k p, dateInstance e k false = some p → RY k := by
    intro k p hp
    by_cases hk : RY k
    · exact hk
    · cases e with
      | easter yr => have := he.fx; simp [isFixedDate] at this
      | fixed yr m dd => rw [dateInstance_out yr m dd k false hk] at hp; cases hp
  have pS := fun k (hk : RY k) => projA_some hs true k hk
  have pE := fun k (hk : RY k) => projA_some he false k hk
  simp only [hey, ne_eq, not_true_eq_false, false_imp_iff, and_true]
  unfold OpenOn
  constructor
  · rintro ⟨s0, hs0, hle, hno⟩
    obtain ⟨k, hk, p, hp, rfl⟩ := mem_specStarts.1 hs0
    have hk' := (cand k).1 hk
    have rk := outS k p hp
    have ek := pS k rk
    simp only [proj, hp, Option.map_some, Option.some.injEq] at ek
    unfold RY at rk
    refine ⟨k, by omega, by omega, by rw [← ek]; exact hle, fun j hj1 hj2 => ?_⟩
    have rj : RY j := by unfold RY; omega
    have ej := pE j rj
    unfold proj at ej
    rw [Option.map_eq_some_iff] at ej
    obtain ⟨q, hq, hqe⟩ := ej
    rw [← ek, ← hqe]
    exact hno _ (mem_specEnds.2 ⟨j, (cand j).2 ⟨by omega, by omega⟩, q, hq, rfl⟩)
  · rintro ⟨k, hk1, hk2, hle, hno⟩
    have rk : RY k := by unfold RY; omega
    refine ⟨projT s so true k, mem_specStarts.2 ⟨k, (cand k).2 ⟨by omega, by omega⟩, ?_⟩, hle, ?_⟩
    · have := pS k rk
      unfold proj at this
      rw [Option.map_eq_some_iff] at this
      obtain ⟨p, hp, hpe⟩ := this
      exact ⟨p, hp, hpe.symm⟩
    · intro x hx
      obtain ⟨j, hj, p, hp, rfl⟩ := mem_specEnds.1 hx
      have hj' := (cand j).1 hj
      have rj := outE j p hp
      have := pE j rj
      simp only [proj, hp, Option.map_some, Option.some.injEq] at this
      unfold RY at rj
      rw [this]; exact hno j (by omega) (by omega)


/-! ### the code's windows, cut by the calendar -/

theorem firstValidBelow_out (y : Int) (m : Nat) (succ : Bool) (n : Nat) (hy : ¬ RY y) :
    firstValidBelow y m succ n = none := by
  induction n with
  | zero => rfl
  | succ n ih =>
    have h0 : ofYmd? y m (n + 1) = none := by
      unfold ofYmd?; rw [if_neg (by unfold RY at hy; omega)]
    simp only [firstValidBelow, h0, ih]
    split <;> rfl

theorem dateOnYear_out (m dd : Nat) (y : Int) (after : Bool) (hy : ¬ RY y) :
    dateOnYear (.fixed none m dd) y after = .ok none := by
  have h0 : ofYmd? y m dd = none := by
    unfold ofYmd?; rw [if_neg (by unfold RY at hy; omega)]
  simp only [dateOnYear, validYmdAfter, validYmdBefore, h0, firstValidBelow_out y m _ _ hy]
  cases after <;> rfl

theorem boundsOn_eqA {ds : DateSpec} {o : DateOffset} (h : BoundA ds o) (after : Bool) (ys : List Int) :
    boundsOn ds o after ys = .ok (ys.filterMap (proj ds o after)) := by
  have howf : o.wday.wf = true := by
    have := h.owf; simp only [DateOffset.wf, Bool.and_eq_true] at this; exact this.1
  induction ys with
  | nil => rfl
  | cons y ys ih =>
    unfold boundsOn
    rw [ih]
    by_cases hy : RY y
    · rw [dateOnYear_eq_instance ds y after h.wf hy.1 hy.2 (Or.inl h.yl)]
      simp only [ok_bind, List.filterMap_cons, proj]
      cases hp : dateInstance ds y after with
      | none => rfl
      | some p => simp only [apply_eq_shift o howf p, ok_bind, pure_eq_ok, Option.map_some]
    · have hfx := h.fx
      have hyl := h.yl
      cases ds with
      | easter yr => simp [isFixedDate] at hfx
      | fixed yr m dd =>
        cases yr with
        | some n => simp [specYear] at hyl
        | none =>
          rw [dateOnYear_out m dd y after hy]
          simp only [ok_bind, List.filterMap_cons, projA_none h after y hy, pure_eq_ok]

/-- the shifted instances of the years `a … a+n-1` that are years of the calendar -/
theorem mem_window {ds : DateSpec} {o : DateOffset} (h : BoundA ds o) (after : Bool) (a : Int) (n : Nat) (x : Int) :
    x ∈ (yearRun a n).filterMap (proj ds o after) ↔
      ∃ k, (a ≤ k ∧ k < a + n) ∧ RY k ∧ x = projT ds o after k := by
  simp only [List.mem_filterMap, mem_yearRun]
  constructor
  · rintro ⟨k, hk, hx⟩
    by_cases r : RY k
    · rw [projA_some h after k r] at hx
      exact ⟨k, hk, r, (Option.some.inj hx).symm⟩
    · rw [projA_none h after k r] at hx; cases hx
  · rintro ⟨k, hk, r, rfl⟩; exact ⟨k, hk, projA_some h after k r⟩

theorem window_wsorted {ds : DateSpec} {o : DateOffset} (h : BoundA ds o) (after : Bool) (a : Int) (n : Nat) :
    ((yearRun a n).filterMap (proj ds o after)).Pairwise (· ≤ ·) := by
  unfold yearRun
  rw [List.filterMap_map, List.pairwise_filterMap]
  refine List.Pairwise.imp_of_mem ?_ (List.pairwise_lt_range (n := n))
  intro i j hin hjn hij x hx y hy
  simp only [Function.comp, Option.mem_def] at hx hy
  have ri : RY (a + i) := by
    by_cases r : RY (a + i)
    · exact r
    · rw [projA_none h after _ r] at hx; cases hx
  have rj : RY (a + j) := by
    by_cases r : RY (a + j)
    · exact r
    · rw [projA_none h after _ r] at hy; cases hy
  rw [projA_some h after _ ri] at hx
  rw [projA_some h after _ rj] at hy
  have ex := Option.some.inj hx
  have ey := Option.some.inj hy
  rw [← ex, ← ey]
  exact wmono_le _ _ _ (projT_wmonoA h after) (a + i) (a + j) ri.1 (by omega) rj.2

theorem pairSpec_window {s e : DateSpec} {so eo : DateOffset} (hs : BoundA s so) (he : BoundA e eo)
    (a : Int) (na : Nat) (b : Int) (nb : Nat) (d : Int) :
    PairSpec ((yearRun a na).filterMap (proj s so true)) ((yearRun b nb).filterMap (proj e eo false)) d ↔
      OpenOn (projT s so true) (projT e eo false) (max a minYear) (min (a + na - 1) maxYear)
        (max b minYear) (min (b + nb - 1) maxYear) d := by
  unfold PairSpec OpenOn
  simp only [mem_window hs, mem_window he]
  constructor
  · rintro ⟨x, ⟨k, hk, rk, rfl⟩, hle, hno⟩
    unfold RY at rk
    exact ⟨k, by omega, by omega, hle, fun j hj1 hj2 => hno _ ⟨j, by omega, by unfold RY; omega, rfl⟩⟩
  · rintro ⟨k, hk1, hk2, hle, hno⟩
    refine ⟨_, ⟨k, by omega, by unfold RY; omega, rfl⟩, hle, ?_⟩
    rintro x ⟨j, hj, rj, rfl⟩
    unfold RY at rj
    exact hno j (by omega) (by omega)

/-- the instances of the years far below the year of the day (by more than the offset can make up for) are
shifted before the day, whatever the offset … -/
theorem spec_lt {ds : DateSpec} {o : DateOffset} (h : BoundA ds o) (after : Bool) (d : Int)
    (hd : 693595 ≤ d ∧ d ≤ 3652059) (k : Int) (hk : RY k) (hka : k + 3 + (o.days.natAbs / 365 : Nat) ≤ year d) :
    projT ds o after k < d := by
  obtain ⟨p, ip, ep⟩ := projT_eq h after k hk
  have iD : InY (year d) d := inY_year d
  have a := (yearStart_add_le (k + 1) (2 + o.days.natAbs / 365)).1
  have b := yearStart_le (a := k + 1 + ((2 + o.days.natAbs / 365 : Nat) : Int)) (b := year d) (by omega)
  unfold InY at ip iD
  rw [ep]
  have := shiftC_le_of o p (d - 300) (by omega) (by omega)
  omega

/-- … and those of the years far above it after the day -/
theorem spec_gt {ds : DateSpec} {o : DateOffset} (h : BoundA ds o) (after : Bool) (d : Int)
    (hd : 693595 ≤ d ∧ d ≤ 3652059) (k : Int) (hk : RY k) (hka : year d + 3 + (o.days.natAbs / 365 : Nat) ≤ k) :
    d < projT ds o after k := by
  obtain ⟨p, ip, ep⟩ := projT_eq h after k hk
  have iD : InY (year d) d := inY_year d
  have a := (yearStart_add_le (year d + 1) (2 + o.days.natAbs / 365)).1
  have b := yearStart_le (a := year d + 1 + ((2 + o.days.natAbs / 365 : Nat) : Int)) (b := k) (by omega)
  unfold InY at ip iD
  rw [ep]
  have := lt_shiftC_of o p (d + 300) (by omega) (by omega)
  omega

/-- the year of `d - offset` pinned into the calendar is a year of the calendar, and it is as near the year of
`d` as the offset allows — or the first / the last year of the calendar -/
theorem centre_facts (d : Int) (o : DateOffset) (hd : 693595 ≤ d ∧ d ≤ 3652059) :
    RY (year (clampDay (d - o.days))) ∧
      (year d - year (clampDay (d - o.days)) ≤ o.days.natAbs / 365 + 1 ∨ year (clampDay (d - o.days)) = maxYear) ∧
      (year (clampDay (d - o.days)) - year d ≤ o.days.natAbs / 365 + 1 ∨ year (clampDay (d - o.days)) = minYear) := by
  have hmin := minDay_eq; have hmax := maxDay_eq
  have cr := clampDay_inRange (d - o.days)
  refine ⟨(inRange_iff_year _).1 cr, ?_, ?_⟩
  · by_cases hc : d - o.days ≤ maxDay
    · left
      by_cases hc' : minDay ≤ d - o.days
      · rw [clampDay_of_inRange hc' hc]; exact (year_sub_near d o.days).2
      · have e : clampDay (d - o.days) = minDay := by unfold clampDay; omega
        rw [e, year_minDay]
        have iD : InY (year d) d := inY_year d
        have a := (yearStart_add_le minYear (o.days.natAbs / 365 + 2)).2
        have hy : year d ≤ 9999 := by
          have := year_mono (a := d) (b := 3652059) hd.2
          have : year 3652059 = 9999 := by rw [year_eq_iff]; decide
          omega
        by_cases hlt : year d ≤ minYear + (o.days.natAbs / 365 + 1 : Nat)
        · omega
        · exfalso
          have b := yearStart_le (a := minYear + ((o.days.natAbs / 365 + 2 : Nat) : Int)) (b := year d) (by omega)
          have := (yearStart_add_le minYear (o.days.natAbs / 365 + 2)).1
          rw [yearStart_minYear] at this
          unfold InY at iD
          omega
    · right
      have e : clampDay (d - o.days) = maxDay := by unfold clampDay; omega
      rw [e, year_maxDay]
  · by_cases hc : minDay ≤ d - o.days
    · left
      by_cases hc' : d - o.days ≤ maxDay
      · rw [clampDay_of_inRange hc hc']; exact (year_sub_near d o.days).1
      · have e : clampDay (d - o.days) = maxDay := by unfold clampDay; omega
        rw [e, year_maxDay]
        have iD : InY (year d) d := inY_year d
        by_cases hlt : maxYear ≤ year d + (o.days.natAbs / 365 + 1 : Nat)
        · omega
        · exfalso
          have b := yearStart_le (a := year d + 1 + ((o.days.natAbs / 365 + 2 : Nat) : Int)) (b := maxYear + 1) (by omega)
          have := (yearStart_add_le (year d + 1) (o.days.natAbs / 365 + 2)).1
          rw [yearStart_maxYear_succ] at b
          unfold InY at iD
          omega
    · right
      have e : clampDay (d - o.days) = minDay := by unfold clampDay; omega
      rw [e, year_minDay]

theorem edge_lo (P : Int → Prop) (lo A : Int) (h : lo < A → P A) : max A lo = lo ∨ P (max A lo) := by
  by_cases hc : A ≤ lo
  · left; omega
  · right; rw [show max A lo = A by omega]; exact h (by omega)

theorem edge_hi (P : Int → Prop) (hi B : Int) (h : B < hi → P B) : min B hi = hi ∨ P (min B hi) := by
  by_cases hc : hi ≤ B
  · left; omega
  · right; rw [show min B hi = B by omega]; exact h (by omega)

/-- **Two fixed dates without a year (not a single day), EVERY day offset**: the model's filter is the
specification's `datedOk` on every day of 1899-12-31 … 9999-12-31. -/
theorem dated_yearless_eqA (s : DateSpec) (so : DateOffset) (e : DateSpec) (eo : DateOffset) (d : Int)
    (hs : BoundA s so) (he : BoundA e eo) (hns : ¬ (s = e ∧ isFixedDate s = true))
    (h1 : dateStart - 1 ≤ d) (h2 : d < dateEnd) :
    MonthdayRange.filter (.date s so e eo) d = .ok (datedOk s so e eo d) := by
  have hdw := window_days h1 h2
  have hy : 1899 ≤ year d ∧ year d ≤ 9999 := year_window h1 h2
  have hwdef : yearSpan so eo = min (3 + (so.days.natAbs + eo.days.natAbs) / 365) 272200 := rfl
  have hmin : minYear = -262143 := rfl
  have hmax : maxYear = 262142 := rfl
  have eS := yearBeforeOffset_clamp d so hs.owf hdw
  have eE := yearBeforeOffset_clamp d eo he.owf hdw
  have b1 : boundsOn s so true (yearsAround (yearBeforeOffset d so) 2 2)
      = .ok ((yearRun (year (clampDay (d - so.days)) - 2) 5).filterMap (proj s so true)) := by
    rw [eS, yearsAround_eq_run, boundsOn_eqA hs true]
    rfl
  have b2 : boundsOn e eo false (yearsAround (yearBeforeOffset d eo) 2 2)
      = .ok ((yearRun (year (clampDay (d - eo.days)) - 2) 5).filterMap (proj e eo false)) := by
    rw [eE, yearsAround_eq_run, boundsOn_eqA he false]
    rfl
  rw [filter_generic s so e eo d hs.yl hns _ _ b1 b2]
  congr 1
  obtain ⟨rS, nS1, nS2⟩ := centre_facts d so hdw
  obtain ⟨rE, nE1, nE2⟩ := centre_facts d eo hdw
  have ltS := far_lt hs true d hdw
  have gtS := far_gt hs true d hdw
  have ltE := far_lt he false d hdw
  have gtE := far_gt he false d hdw
  have lowS := spec_lt hs true d hdw
  have highS := spec_gt hs true d hdw
  have lowE := spec_lt he false d hdw
  have highE := spec_gt he false d hdw
  have wS := projT_wmonoA hs true
  have wE := projT_wmonoA he false
  have hiff := datedOk_yearless_iffA s so e eo d hs he hns
  have hde := dateEnd_eq
  rw [Bool.eq_iff_iff, isOpen_intervalsFromBoundsW _ _ d (window_wsorted hs true _ 5) (window_wsorted he false _ 5)
    (by omega), pairSpec_window hs he, hiff]
  unfold RY at *
  generalize year (clampDay (d - so.days)) = ys at *
  generalize year (clampDay (d - eo.days)) = ye at *
  generalize projT s so true = S at *
  generalize projT e eo false = E at *
  generalize yearSpan so eo = w at *
  generalize year d = y at *
  have A := openOn_widenE S E minYear maxYear (max (ys - 2) minYear) (min (ys - 2 + ((5 : Nat) : Int) - 1) maxYear)
    (max (ye - 2) minYear) (min (ye - 2 + ((5 : Nat) : Int) - 1) maxYear) d wS wE (by omega) (by omega)
    (edge_lo (fun k => S k ≤ d) minYear (ys - 2)
      (fun h => by have := ltS (ys - 2) ⟨by omega, by omega⟩ (by omega); omega))
    (edge_hi (fun k => d < S k) maxYear (ys - 2 + ((5 : Nat) : Int) - 1)
      (fun h => gtS _ ⟨by omega, by omega⟩ (by omega)))
    (edge_lo (fun k => E k < d) minYear (ye - 2)
      (fun h => ltE (ye - 2) ⟨by omega, by omega⟩ (by omega)))
    (edge_hi (fun k => d ≤ E k) maxYear (ye - 2 + ((5 : Nat) : Int) - 1)
      (fun h => by have := gtE (ye - 2 + ((5 : Nat) : Int) - 1) ⟨by omega, by omega⟩ (by omega); omega))
  have B := openOn_widenE S E minYear maxYear (max (y - w) minYear) (min (y + w) maxYear)
    (max (y - w) minYear) (min (y + w) maxYear) d wS wE (by omega) (by omega)
    (edge_lo (fun k => S k ≤ d) minYear (y - w)
      (fun h => by have := lowS (y - w) ⟨by omega, by omega⟩ (by omega); omega))
    (edge_hi (fun k => d < S k) maxYear (y + w)
      (fun h => highS (y + w) ⟨by omega, by omega⟩ (by omega)))
    (edge_lo (fun k => E k < d) minYear (y - w)
      (fun h => lowE (y - w) ⟨by omega, by omega⟩ (by omega)))
    (edge_hi (fun k => d ≤ E k) maxYear (y + w)
      (fun h => by have := highE (y + w) ⟨by omega, by omega⟩ (by omega); omega))
  exact A.trans B.symm

/-! ### a single fixed day without a year, EVERY offset -/

/-- THE SINGLE-DAY WINDOW THEOREM, any offsets.  `c` being the year of `d - end offset` pinned into the calendar:
some occurrence of the years `c-1 … c-2+n` (`10 ≤ n ≤ 13`; those that are years of the calendar), shifted,
contains `d` iff the specification selects `d`. -/
theorem single_window_iffA (m dd : Nat) (so eo : DateOffset) (d : Int) (hso : so.wf = true) (heo : eo.wf = true)
    (hd : 693595 ≤ d ∧ d ≤ 3652059) (n : Nat) (hn : 10 ≤ n ∧ n ≤ 13) :
    (∃ r ∈ (yearRun (year (clampDay (d - eo.days)) - 1) n).filterMap (dayIv m dd so eo), r.1 ≤ d ∧ d ≤ r.2) ↔
      datedOk (.fixed none m dd) so (.fixed none m dd) eo d = true := by
  have hy : 1899 ≤ year d ∧ year d ≤ 9999 :=
    year_window (by rw [dateStart_eq]; omega) (by rw [dateEnd_eq]; omega)
  have hwdef : yearSpan so eo = min (3 + (so.days.natAbs + eo.days.natAbs) / 365) 272200 := rfl
  have hmin : minYear = -262143 := rfl
  have hmax : maxYear = 262142 := rfl
  have hmind := minDay_eq
  have hmaxd := maxDay_eq
  have iE : InY (year (clampDay (d - eo.days))) (clampDay (d - eo.days)) := inY_year _
  have iD : InY (year d) d := inY_year d
  obtain ⟨rC, _, _⟩ := centre_facts d eo hd
  rw [datedOk_single_iff]
  generalize hcdef : year (clampDay (d - eo.days)) = c at *
  generalize yearSpan so eo = w at *
  generalize year d = y at *
  simp only [List.mem_filterMap, mem_yearRun, dayIv, Option.map_eq_some_iff]
  constructor
  · rintro ⟨r, ⟨k, hk, f, hf, rfl⟩, hle, hge⟩
    simp only at hle hge
    obtain ⟨⟨r1, r2⟩, _, _, p1, p2⟩ := day_pos hf
    have fr := ofYmd?_inRange hf
    have l1 := shift_le_imp so hso fr hd.2 hle
    have l2 := le_shift_imp eo heo fr hd.1 hge
    have := year_dist (a := k) (b := y) (p := f) (q := d) ⟨p1, p2⟩ iD (so.days.natAbs + eo.days.natAbs + 6)
      (by omega) (by omega)
    exact ⟨k, by omega, by omega, f, hf, hle, hge⟩
  · rintro ⟨k, hk1, hk2, f, hf, hle, hge⟩
    obtain ⟨⟨r1, r2⟩, _, _, p1, p2⟩ := day_pos hf
    have fr := ofYmd?_inRange hf
    have l2 := le_shift_imp eo heo fr hd.1 hge
    -- the occurrence is not older than the year before `c`
    have hkc : c - 1 ≤ k := by
      by_cases h : k + 2 ≤ c
      · exfalso
        have a := yearStart_le (a := k + 2) (b := c) h
        have b := yearStart_step (k + 1) (k + 2) (by omega)
        unfold InY at iE
        by_cases hx : d - eo.days < minDay
        · have e : clampDay (d - eo.days) = minDay := by unfold clampDay; omega
          rw [e] at iE
          have : ¬ (minYear < c) := fun hc => by
            have := yearStart_lt_iff.2 hc; rw [yearStart_minYear] at this; omega
          omega
        · have e : clampDay (d - eo.days) ≤ d - eo.days := by unfold clampDay; omega
          omega
      · omega
    by_cases hk8 : k < c - 1 + n
    · exact ⟨_, ⟨k, ⟨hkc, hk8⟩, f, hf, rfl⟩, hle, hge⟩
    · -- a later occurrence: one of the years c+1 … c+8 does as well
      have hc8 : c + 8 ≤ maxYear := by omega
      unfold RY at rC
      obtain ⟨k1, f1, a1, a2, hf1, hlate⟩ := day_exists_late m dd k f hf (c + 1) ⟨by omega, by omega⟩
      obtain ⟨_, _, _, q1, q2⟩ := day_pos hf1
      have fr1 := ofYmd?_inRange hf1
      have hff : f1 ≤ f := by
        have := yearStart_le (a := k1 + 1) (b := k) (by omega)
        omega
      have m1 := shift_mono so hso fr1.1 hff fr.2
      have hx : d - eo.days ≤ maxDay := by
        by_cases hx : d - eo.days ≤ maxDay
        · exact hx
        · exfalso
          have e : clampDay (d - eo.days) = maxDay := by unfold clampDay; omega
          rw [e, year_maxDay] at hcdef
          omega
      have e2 : d - eo.days ≤ clampDay (d - eo.days) := by unfold clampDay; omega
      unfold InY at iE
      have g := lt_shiftC_of eo f1 d (by omega) (by omega)
      rw [← shift_eq_shiftC eo heo f1 fr1.1 fr1.2] at g
      exact ⟨_, ⟨k1, ⟨by omega, by omega⟩, f1, hf1, rfl⟩, by simp only; omega, by simp only; omega⟩

/-- **A single fixed day without a year, EVERY day offset**: the model's filter is the specification's `datedOk`
on every day of 1899-12-31 … 9999-12-31. -/
theorem dated_single_eqA (m dd : Nat) (so eo : DateOffset) (d : Int)
    (hso : so.wf = true) (heo : eo.wf = true) (h1 : dateStart - 1 ≤ d) (h2 : d < dateEnd) :
    MonthdayRange.filter (.date (.fixed none m dd) so (.fixed none m dd) eo) d
      = .ok (datedOk (.fixed none m dd) so (.fixed none m dd) eo d) := by
  have hdw := window_days h1 h2
  have eE := yearBeforeOffset_clamp d eo heo hdw
  have hso' : so.wday.wf = true := by simp only [DateOffset.wf, Bool.and_eq_true] at hso; exact hso.1
  have heo' : eo.wday.wf = true := by simp only [DateOffset.wf, Bool.and_eq_true] at heo; exact heo.1
  have hfind := singleDayFind_eq m dd so eo d hso' heo' (yearRun (year (clampDay (d - eo.days)) - 1) 10)
  rw [filter_single none m dd so eo d _ (by simp only []; rw [eE, yearsAround_eq_run]; exact hfind)]
  congr 1
  rw [Bool.eq_iff_iff, find_contains_iff _ d (dayIv_sortedW m dd so eo hso _ 10),
    single_window_iffA m dd so eo d hso heo hdw 10 (by omega)]

end OH.Proofs.EvalSpec
