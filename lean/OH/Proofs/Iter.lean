import OH.Model.Iter
/-
Layer A of C02 (and C03, C08, C16): the time-domain iterator of `OH/Model/Iter.lean`, for ANY day
level `Env` that meets `EnvOK`, produces exactly the maximal constant runs of the pointwise state.

This file: the specification vocabulary (`TilesFrom`, `pointKind`, `EnvOK`, `Runs`) and the helper
lemmas (`consume_spec` → `itNext_spec` → `collect_spec`/`first_spec`).  The property theorems are in
`OH/Props/C02A.lean`.  Core-only (no Mathlib).
-/
namespace OH.Model
open OH.Model.Cal

/-! ## Specification vocabulary -/

/-- `l` tiles the minutes `[a, 1440)`: the ranges are non-empty, the first starts at `a`, each starts
where the previous one ends, the last ends at 1440.  (What `Schedule.iter` yields, with `a = 0`.
Nothing is required about kinds or comments of neighbouring ranges: the iterator merges equal kinds itself.) -/
def TilesFrom : Nat → List TimeRange → Prop
  | a, [] => a = 1440
  | a, r :: rs => r.s = a ∧ r.s < r.e ∧ TilesFrom r.e rs

instance instDecidableTilesFrom : (a : Nat) → (l : List TimeRange) → Decidable (TilesFrom a l)
  | a, [] => inferInstanceAs (Decidable (a = 1440))
  | _, r :: rs =>
    have := instDecidableTilesFrom r.e rs
    inferInstanceAs (Decidable (_ ∧ _ ∧ _))

/-- `tr.range.contains(&m)` -/
def covers (m : Nat) (tr : TimeRange) : Bool := tr.s ≤ m && m < tr.e

/-- the range of a day schedule that contains minute `m` -/
def rangeAt (rs : List TimeRange) (m : Nat) : Option TimeRange := rs.find? (covers m)

/-- kind of the last range of a day schedule -/
def lastKind (rs : List TimeRange) : Kind :=
  match rs.getLast? with
  | some r => r.kind
  | none => .closed

/-- the schedule of day `d` (`[]` if the day level panics: excluded by `EnvOK`) -/
def Env.schedOf (env : Env) (d : Int) : List TimeRange :=
  match env.sched d with
  | .ok rs => rs
  | .error _ => []

/-- the day the iterator jumps to after day `d`:
`next_change_hint(d).unwrap_or_else(|| d.succ_opt())` -/
def Env.hintOf (env : Env) (d : Int) : Int :=
  match env.hint d with
  | .ok (some x) => x
  | _ => d + 1

/-- the schedule range in force at instant `t`: the range of `t`'s day that contains `t`'s minute -/
def pointRange (env : Env) (t : Instant) : Option TimeRange :=
  rangeAt (env.schedOf (instDay t)) (instMinuteOfDay t)

/-- the state the daily schedules give to instant `t` -/
def pointKind (env : Env) (t : Instant) : Kind :=
  match pointRange env t with
  | some r => r.kind
  | none => .closed

/-- the comments the daily schedules give to instant `t` -/
def pointComments (env : Env) (t : Instant) : List String :=
  match pointRange env t with
  | some r => r.comments
  | none => []

/-- What the time-domain iterator needs from the day level.  Only days up to `dateEnd` are
constrained (the iterator never looks further), and nothing is said about the interval-size bound.

* `sched_ok`: `schedule_at(d).into_iter()` does not panic for `d ≤ dateEnd` (the day `dateEnd` itself is
  loaded, and thrown away, by `TimeDomainIterator::new` when `from ≥ DATE_END`);
* `tiles`: it tiles the day, for `d < dateEnd`;
* `hint_ok`, `hint_gt`: `next_change_hint(d)` does not panic and, when it is `Some(x)`, `d < x`
  (the `assert!(next_change_hint > self.curr_date)`);
* `hint_sound`: every day strictly between `d` and the jump target (and before `dateEnd`) consists of
  ranges of the kind of the LAST range of day `d` — the one kind the iterator is extending when it
  consults the hint.  Comments play no role. -/
structure EnvOK (env : Env) : Prop where
  sched_ok : ∀ d, d ≤ dateEnd → ∃ rs, env.sched d = .ok rs
  tiles : ∀ d, d < dateEnd → TilesFrom 0 (env.schedOf d)
  hint_ok : ∀ d, d < dateEnd → ∃ h, env.hint d = .ok h
  hint_gt : ∀ d, d < dateEnd → d < env.hintOf d
  hint_sound : ∀ d d', d < d' → d' < env.hintOf d → d' < dateEnd →
    ∀ r ∈ env.schedOf d', r.kind = lastKind (env.schedOf d)

/-- `l` is the list of maximal constant runs of `pointKind env` that tiles `[a, b)`:
each interval starts where the previous one stopped (the first at `a`, the last stops at `b`), is
non-empty, has the kind `pointKind` gives to EVERY instant inside it and the comments of the schedule
range in force at its first instant, and the next interval has a different kind. -/
def Runs (env : Env) : Instant → Instant → List Interval → Prop
  | a, b, [] => a = b
  | a, b, iv :: rest =>
    iv.start = a ∧ a < iv.stop ∧ iv.stop ≤ b
    ∧ (∀ t, a ≤ t → t < iv.stop → pointKind env t = iv.kind)
    ∧ iv.comments = pointComments env a
    ∧ (∀ nx ∈ rest.head?, nx.kind ≠ iv.kind)
    ∧ Runs env iv.stop b rest

/-! ## Constants -/

theorem dateEnd_eq : dateEnd = 3652060 := by decide
theorem dateStart_eq : dateStart = 693596 := by decide
theorem dateEnd_lt_maxDay : dateEnd < maxDay := by decide
theorem instEnd_eq : instEnd = dateEnd * nsPerDay := by simp [instEnd, mkInstant]

/-! ## Tilings -/

theorem TilesFrom.le {a : Nat} {l : List TimeRange} (h : TilesFrom a l) : a ≤ 1440 := by
  induction l generalizing a with
  | nil => simp only [TilesFrom] at h; omega
  | cons r rs ih => simp only [TilesFrom] at h; have := ih h.2.2; omega

/-- a tiling of `[a, 1440)` has at most `1440 - a` ranges -/
theorem TilesFrom.length_le {a : Nat} {l : List TimeRange} (h : TilesFrom a l) : l.length + a ≤ 1440 := by
  induction l generalizing a with
  | nil => simp only [TilesFrom] at h; simp; omega
  | cons r rs ih => simp only [TilesFrom] at h; have := ih h.2.2; simp only [List.length_cons]; omega

theorem tiles_append {a : Nat} {pre rest : List TimeRange} (h : TilesFrom a (pre ++ rest)) :
    ∃ b, TilesFrom b rest ∧ a ≤ b ∧ ∀ p ∈ pre, p.e ≤ b := by
  induction pre generalizing a with
  | nil => exact ⟨a, h, Nat.le_refl _, by simp⟩
  | cons p ps ih =>
    simp only [List.cons_append, TilesFrom] at h
    obtain ⟨b, hb, hle, hp⟩ := ih h.2.2
    refine ⟨b, hb, by omega, ?_⟩
    intro q hq
    rcases List.mem_cons.1 hq with rfl | hq
    · exact hle
    · exact hp q hq

theorem rangeAt_append_of_le {pre rest : List TimeRange} {m b : Nat} (hp : ∀ p ∈ pre, p.e ≤ b) (hm : b ≤ m) :
    rangeAt (pre ++ rest) m = rangeAt rest m := by
  induction pre with
  | nil => rfl
  | cons p ps ih =>
    have h1 : p.e ≤ b := hp p (by simp)
    have hc : covers m p = false := by simp [covers]; omega
    simp only [rangeAt, List.cons_append, List.find?_cons, hc]
    exact ih (fun q hq => hp q (by simp [hq]))

/-- in a tiling every minute of `[a, 1440)` is covered, by a member of the list -/
theorem rangeAt_total {a : Nat} {l : List TimeRange} (h : TilesFrom a l) {m : Nat} (h1 : a ≤ m) (h2 : m < 1440) :
    ∃ r ∈ l, rangeAt l m = some r := by
  induction l generalizing a with
  | nil => simp only [TilesFrom] at h; omega
  | cons r rs ih =>
    simp only [TilesFrom] at h
    by_cases hc : covers m r = true
    · exact ⟨r, by simp, by simp [rangeAt, hc]⟩
    · have hc' : covers m r = false := by simpa using hc
      have : r.e ≤ m := by simp [covers] at hc'; omega
      obtain ⟨q, hq, hr⟩ := ih h.2.2 this
      exact ⟨q, by simp [hq], by simpa [rangeAt, List.find?_cons, hc'] using hr⟩

/-- what `TimeDomainIterator::new`'s `while !tr.range.contains(&start_time)` loop finds -/
theorem dropWhile_tiles {a : Nat} {l : List TimeRange} (h : TilesFrom a l) {m : Nat} (h1 : a ≤ m) (h2 : m < 1440) :
    ∃ pre r rs, l = pre ++ r :: rs ∧ l.dropWhile (fun tr => !(decide (tr.s ≤ m) && decide (m < tr.e))) = r :: rs
      ∧ r.s ≤ m ∧ m < r.e := by
  induction l generalizing a with
  | nil => simp only [TilesFrom] at h; omega
  | cons r rs ih =>
    simp only [TilesFrom] at h
    by_cases hc : r.s ≤ m ∧ m < r.e
    · exact ⟨[], r, rs, rfl, by simp [hc.1, hc.2], hc.1, hc.2⟩
    · have : r.e ≤ m := by omega
      obtain ⟨pre, q, qs, e1, e2, e3, e4⟩ := ih h.2.2 this
      refine ⟨r :: pre, q, qs, by simp [e1], ?_, e3, e4⟩
      have hd : (!(decide (r.s ≤ m) && decide (m < r.e))) = true := by
        simp only [Bool.not_eq_true', Bool.and_eq_false_iff, decide_eq_false_iff_not]; omega
      rw [List.dropWhile_cons, if_pos hd]
      exact e2

theorem lastKind_append_singleton (pre : List TimeRange) (r : TimeRange) : lastKind (pre ++ [r]) = r.kind := by
  simp [lastKind]

/-- facts about a range inside a tiling -/
theorem suffix_facts {l pre : List TimeRange} {r : TimeRange} {rs : List TimeRange}
    (ht : TilesFrom 0 l) (hs : l = pre ++ r :: rs) :
    r.s < r.e ∧ r.e ≤ 1440 ∧ TilesFrom r.e rs ∧ (∀ m, r.s ≤ m → m < r.e → rangeAt l m = some r) := by
  subst hs
  obtain ⟨b, hb, _, hp⟩ := tiles_append ht
  simp only [TilesFrom] at hb
  refine ⟨hb.2.1, hb.2.2.le, hb.2.2, ?_⟩
  intro m h1 h2
  rw [rangeAt_append_of_le hp (by omega)]
  simp [rangeAt, covers, h1, h2]

/-! ## Instants -/

/-- an instant between minute `s` and minute `e ≤ 1440` of day `d` lies on day `d`, minute in `[s, e)` -/
theorem inst_decomp {d : Int} {s e : Nat} {t : Int} (he : e ≤ 1440)
    (h1 : mkInstant d s ≤ t) (h2 : t < mkInstant d e) :
    instDay t = d ∧ s ≤ instMinuteOfDay t ∧ instMinuteOfDay t < e := by
  simp only [mkInstant, instDay, instMinuteOfDay, instTod, nsPerDay, nsPerMin] at *
  omega

theorem inst_bounds (t : Int) :
    mkInstant (instDay t) (instMinuteOfDay t) ≤ t ∧ t < mkInstant (instDay t) (instMinuteOfDay t + 1)
    ∧ instMinuteOfDay t < 1440 := by
  simp only [mkInstant, instDay, instMinuteOfDay, instTod, nsPerDay, nsPerMin]
  omega

theorem mkInstant_mono {d : Int} {a b : Nat} (h : a ≤ b) : mkInstant d a ≤ mkInstant d b := by
  simp only [mkInstant, nsPerDay, nsPerMin]; omega

theorem mkInstant_1440 (d : Int) : mkInstant d 1440 = mkInstant (d + 1) 0 := by
  simp only [mkInstant, nsPerDay, nsPerMin]; omega

theorem mkInstant_zero (d : Int) : mkInstant d 0 = d * nsPerDay := by simp [mkInstant]

theorem instDay_lt_dateEnd {t : Int} (h : t < instEnd) : instDay t < dateEnd := by
  simp only [instEnd_eq, instDay, nsPerDay] at *; omega

theorem instDay_le_dateEnd {t : Int} (h : t ≤ instEnd) : instDay t ≤ dateEnd := by
  simp only [instEnd_eq, instDay, nsPerDay] at *; omega

/-! ## Pointwise state -/

theorem schedOf_eq {env : Env} {d : Int} {rs : List TimeRange} (h : env.sched d = .ok rs) : env.schedOf d = rs := by
  simp [Env.schedOf, h]

theorem sched_eq_schedOf {env : Env} (ok : EnvOK env) {d : Int} (hd : d ≤ dateEnd) : env.sched d = .ok (env.schedOf d) := by
  obtain ⟨rs, h⟩ := ok.sched_ok d hd
  rw [schedOf_eq h, h]

/-- inside a range of day `d`'s schedule, that range is in force -/
theorem pointRange_in {env : Env} (ok : EnvOK env) {d : Int} (hd : d < dateEnd) {pre : List TimeRange} {r : TimeRange}
    {rs : List TimeRange} (hs : env.schedOf d = pre ++ r :: rs) {t : Int}
    (h1 : mkInstant d r.s ≤ t) (h2 : t < mkInstant d r.e) : pointRange env t = some r := by
  obtain ⟨f1, f2, f3, f4⟩ := suffix_facts (ok.tiles d hd) hs
  obtain ⟨e1, e2, e3⟩ := inst_decomp f2 h1 h2
  rw [pointRange, e1]
  exact f4 _ e2 e3

theorem pointKind_in {env : Env} (ok : EnvOK env) {d : Int} (hd : d < dateEnd) {pre : List TimeRange} {r : TimeRange}
    {rs : List TimeRange} (hs : env.schedOf d = pre ++ r :: rs) {t : Int}
    (h1 : mkInstant d r.s ≤ t) (h2 : t < mkInstant d r.e) : pointKind env t = r.kind := by
  simp [pointKind, pointRange_in ok hd hs h1 h2]

/-- a whole day of one kind -/
theorem pointKind_full_day {env : Env} (ok : EnvOK env) {d : Int} (hd : d < dateEnd) {k : Kind}
    (hk : ∀ r ∈ env.schedOf d, r.kind = k) {t : Int} (h1 : mkInstant d 0 ≤ t) (h2 : t < mkInstant (d + 1) 0) :
    pointKind env t = k := by
  rw [← mkInstant_1440] at h2
  obtain ⟨e1, _, e3⟩ := inst_decomp (Nat.le_refl _) h1 h2
  obtain ⟨r, hr, hra⟩ := rangeAt_total (ok.tiles d hd) (Nat.zero_le _) e3
  simp only [pointKind, pointRange, e1, hra]
  exact hk r hr

/-! ## The iterator state -/

/-- the instant the iterator stands at: start of its current range (midnight when exhausted) -/
def ItState.cursor (st : ItState) : Instant :=
  mkInstant st.date (match st.sched with | [] => 0 | r :: _ => r.s)

/-- end of the iterator's current range -/
def ItState.headEnd (st : ItState) : Instant :=
  mkInstant st.date (match st.sched with | [] => 0 | r :: _ => r.e)

/-- the iterator holds a non-empty suffix of the schedule of its day, a day before `dateEnd` -/
def Rep (env : Env) (st : ItState) : Prop :=
  st.date < dateEnd ∧ st.sched ≠ [] ∧ ∃ pre, env.schedOf st.date = pre ++ st.sched

/-- the early `return` of `consume_until_next_kind` fires at day `d`
(`curr_date − start_date > max(bound, 0) + 1 day`, saturating at `TimeDelta::MAX`) -/
def Cut (env : Env) (startDate d : Int) : Prop :=
  ∃ b, env.bound = some b ∧ (d - startDate) * nsPerDay > boundLimit b

/-- the limit of the loop test is at least one day, whatever the bound (negative, huge) -/
theorem boundLimit_ge_day (b : Int) : nsPerDay ≤ boundLimit b := by
  unfold boundLimit
  split <;> simp only [deltaMax, nsPerDay] at * <;> omega

/-- …and, unless `bound + 1 day` overflows `TimeDelta`, it is `max(bound, 0) + 1 day` -/
theorem boundLimit_eq {b : Int} (h : max b 0 + nsPerDay ≤ deltaMax) : boundLimit b = max b 0 + nsPerDay := by
  simp only [boundLimit]; rw [if_neg (by omega)]

theorem boundLimit_sat {b : Int} (h : ¬ max b 0 + nsPerDay ≤ deltaMax) : boundLimit b = deltaMax := by
  simp only [boundLimit]; rw [if_pos (by omega)]

/-- what `consume_until_next_kind` establishes: everything between the old and the new cursor (below
`instEnd`) has kind `k`; the cursor never moves back; it moves past the current range if that range
has kind `k` and the bound test does not fire at once; afterwards the iterator either ran out (beyond
`endDay` or at/after `dateEnd`), or stands on a range of another kind, or was stopped by the bound test. -/
structure ConsumePost (env : Env) (endDay startDate : Int) (k : Kind) (st st' : ItState) : Prop where
  const : ∀ t, st.cursor ≤ t → t < st'.cursor → t < instEnd → pointKind env t = k
  mono : st.cursor ≤ st'.cursor
  meas : st.date < st'.date ∨ (st'.date = st.date ∧ st'.sched.length ≤ st.sched.length)
  prog : (∃ r rs, st.sched = r :: rs ∧ r.kind = k) → ¬ Cut env startDate st.date →
    st.headEnd ≤ st'.cursor ∧ (st.date < st'.date ∨ (st'.date = st.date ∧ st'.sched.length < st.sched.length))
  fin : (st'.sched = [] ∧ (endDay < st'.date ∨ dateEnd ≤ st'.date))
    ∨ (Rep env st' ∧ ((∀ r rs, st'.sched = r :: rs → r.kind ≠ k) ∨ Cut env startDate st'.date))

theorem boundHit_spec (env : Env) (date startDate : Int) :
    ∃ c : Bool, (match env.bound with
      | none => (.ok false : M Bool)
      | some b => .ok ((date - startDate) * nsPerDay > boundLimit b)) = .ok c
      ∧ (c = true ↔ Cut env startDate date) := by
  cases hbd : env.bound with
  | none => exact ⟨false, rfl, by simp [Cut, hbd]⟩
  | some b => exact ⟨decide ((date - startDate) * nsPerDay > boundLimit b), rfl, by simp [Cut, hbd]⟩

theorem cursor_cons (d : Int) (r : TimeRange) (rs : List TimeRange) :
    ItState.cursor ⟨d, r :: rs⟩ = mkInstant d r.s := rfl
theorem cursor_nil (d : Int) : ItState.cursor ⟨d, []⟩ = mkInstant d 0 := rfl

theorem ConsumePost.step {env : Env} {endDay startDate : Int} {k : Kind} {st st2 st' : ItState}
    (post2 : ConsumePost env endDay startDate k st2 st')
    (hconst : ∀ t, st.cursor ≤ t → t < st2.cursor → t < instEnd → pointKind env t = k)
    (hle : st.cursor ≤ st.headEnd) (hmono : st.headEnd ≤ st2.cursor)
    (hmeas : st.date < st2.date ∨ (st2.date = st.date ∧ st2.sched.length < st.sched.length)) :
    ConsumePost env endDay startDate k st st' := by
  have hm2 := post2.mono
  have hs2 := post2.meas
  refine ⟨?_, by omega, by omega, fun _ _ => ⟨by omega, by omega⟩, post2.fin⟩
  intro t h1 h2 h3
  by_cases hlt : t < st2.cursor
  · exact hconst t h1 hlt h3
  · exact post2.const t (by omega) h2 h3

theorem ConsumePost.nil {env : Env} {endDay startDate : Int} {k : Kind} {nd : Int}
    (h : endDay < nd ∨ dateEnd ≤ nd) : ConsumePost env endDay startDate k ⟨nd, []⟩ ⟨nd, []⟩ :=
  ⟨fun t h1 h2 _ => by omega, Int.le_refl _, Or.inr ⟨rfl, Nat.le_refl _⟩,
   fun ⟨_, _, h, _⟩ _ => (nomatch h), Or.inl ⟨rfl, h⟩⟩

theorem hint_target {env : Env} {d nd : Int} {h : Option Int} (hh : env.hint d = .ok h)
    (hm : (match (generalizing := false) h with | some x => some x | none => succ? d) = some nd) :
    nd = env.hintOf d := by
  cases h with
  | some x => simp only [Option.some.injEq] at hm; simp [Env.hintOf, hh, hm]
  | none =>
    simp only [succ?] at hm
    split at hm
    · simp only [Option.some.injEq] at hm; simp [Env.hintOf, hh, hm]
    · cases hm

/-- the days jumped over after the last range `tr` of day `d` have the kind of `tr` -/
theorem pointKind_skipped {env : Env} (ok : EnvOK env) {d nd : Int} {pre : List TimeRange} {tr : TimeRange}
    (hs : env.schedOf d = pre ++ [tr]) (hnd : nd ≤ env.hintOf d) {t : Int}
    (h1 : mkInstant (d + 1) 0 ≤ t) (h2 : t < mkInstant nd 0) (h3 : t < instEnd) : pointKind env t = tr.kind := by
  have hd' : instDay t < dateEnd := instDay_lt_dateEnd h3
  have hb := inst_bounds t
  have e1 : d < instDay t ∧ instDay t < nd ∧ mkInstant (instDay t) 0 ≤ t ∧ t < mkInstant (instDay t + 1) 0 := by
    simp only [mkInstant, instDay, nsPerDay, nsPerMin] at *; omega
  refine pointKind_full_day ok hd' (fun r hr => ?_) e1.2.2.1 e1.2.2.2
  rw [ok.hint_sound d (instDay t) e1.1 (by omega) hd' r hr, hs, lastKind_append_singleton]

theorem consume_spec {env : Env} (ok : EnvOK env) (endDay startDate : Int) (k : Kind)
    (st : ItState) (hrep : Rep env st) :
    ∃ st', consume env endDay startDate k st = .ok st' ∧ ConsumePost env endDay startDate k st st' := by
  fun_induction consume env endDay startDate k st with
  | case1 st hs => exact absurd hs hrep.2.1
  | case2 st tr rest hs hk =>
    have hk' : tr.kind ≠ k := by simpa using hk
    refine ⟨st, rfl, ⟨fun t h1 h2 _ => by omega, Int.le_refl _, Or.inr ⟨rfl, Nat.le_refl _⟩, ?_, ?_⟩⟩
    · intro ⟨r, rs, h, h'⟩; rw [hs] at h; cases h; exact absurd h' hk'
    · refine Or.inr ⟨hrep, Or.inl ?_⟩
      intro r rs h; rw [hs] at h; cases h; exact hk'
  | case3 st tr rest hs hk boundHit p hp =>
    obtain ⟨c, hc, _⟩ := boundHit_spec env st.date startDate
    have : (Except.error p : M Bool) = .ok c := hp.symm.trans hc
    cases this
  | case4 st tr rest hs hk boundHit hp =>
    obtain ⟨c, hc, hiff⟩ := boundHit_spec env st.date startDate
    have : (Except.ok true : M Bool) = .ok c := hp.symm.trans hc
    cases this
    have hcut : Cut env startDate st.date := hiff.1 rfl
    refine ⟨st, rfl, ⟨fun t h1 h2 _ => by omega, Int.le_refl _, Or.inr ⟨rfl, Nat.le_refl _⟩, ?_, ?_⟩⟩
    · intro _ h; exact absurd hcut h
    · exact Or.inr ⟨hrep, Or.inr hcut⟩
  | case5 st tr hk boundHit hp head tail hs hs' ih =>
    have hk' : tr.kind = k := by simpa using hk
    obtain ⟨hd, _, pre, hpre⟩ := hrep
    rw [hs] at hpre
    obtain ⟨f1, f2, f3, _⟩ := suffix_facts (ok.tiles _ hd) hpre
    have hrep2 : Rep env ⟨st.date, head :: tail⟩ := ⟨hd, by simp, pre ++ [tr], by simp [hpre]⟩
    obtain ⟨st', hc, post2⟩ := ih hrep2
    refine ⟨st', hc, post2.step ?_ ?_ ?_ ?_⟩
    · intro t h1 h2 _
      rw [← hk']
      simp only [ItState.cursor, hs] at h1
      rw [cursor_cons, f3.1] at h2
      exact pointKind_in ok hd hpre h1 h2
    · simp only [ItState.cursor, ItState.headEnd, hs]; exact mkInstant_mono (by omega)
    · simp only [ItState.headEnd, hs, cursor_cons, f3.1]; exact Int.le_refl _
    · exact Or.inr ⟨rfl, by simp [hs]⟩
  | case6 st tr hk boundHit hp hs p hh hs' =>
    obtain ⟨h, hh'⟩ := ok.hint_ok st.date hrep.1
    rw [hh] at hh'; cases hh'
  | case7 st tr hk boundHit hp hs h hh hm hs' =>
    have hd := hrep.1
    have := dateEnd_lt_maxDay
    cases h with
    | some x => cases hm
    | none =>
      simp only [succ?] at hm
      split at hm
      · cases hm
      · omega
  | case8 st tr hk boundHit hp hs h hh nd hm hgt hle p hsc hs' =>
    obtain ⟨rs, hrs⟩ := ok.sched_ok nd (by omega)
    rw [hsc] at hrs; cases hrs
  | case9 st tr hk boundHit hp hs h hh nd hm hgt hle s hsc hs' ih =>
    have hk' : tr.kind = k := by simpa using hk
    obtain ⟨hd, _, pre, hpre⟩ := hrep
    rw [hs] at hpre
    obtain ⟨f1, f2, f3, _⟩ := suffix_facts (ok.tiles _ hd) hpre
    simp only [TilesFrom] at f3
    have hnd := hint_target hh hm
    have hsn : env.schedOf nd = s := schedOf_eq hsc
    have htn := ok.tiles nd hle.2
    rw [hsn] at htn
    cases s with
    | nil => simp [TilesFrom] at htn
    | cons r0 rs0 =>
    have hr0 : r0.s = 0 := htn.1
    have hrep2 : Rep env ⟨nd, r0 :: rs0⟩ := ⟨hle.2, by simp, [], by simp [hsn]⟩
    obtain ⟨st', hc, post2⟩ := ih hrep2
    refine ⟨st', hc, post2.step ?_ ?_ ?_ (Or.inl hgt)⟩
    · intro t h1 h2 h3
      rw [← hk']
      simp only [ItState.cursor, hs] at h1
      rw [cursor_cons, hr0] at h2
      by_cases hlt : t < mkInstant st.date tr.e
      · exact pointKind_in ok hd hpre h1 hlt
      · rw [f3, mkInstant_1440] at hlt
        exact pointKind_skipped ok hpre (by omega) (by omega) h2 h3
    · simp only [ItState.cursor, ItState.headEnd, hs]; exact mkInstant_mono (by omega)
    · simp only [ItState.headEnd, hs, cursor_cons, hr0, f3]
      simp only [mkInstant, nsPerDay, nsPerMin]; omega
  | case10 st tr hk boundHit hp hs h hh nd hm hgt hnle hs' =>
    have hk' : tr.kind = k := by simpa using hk
    obtain ⟨hd, _, pre, hpre⟩ := hrep
    rw [hs] at hpre
    obtain ⟨f1, f2, f3, _⟩ := suffix_facts (ok.tiles _ hd) hpre
    simp only [TilesFrom] at f3
    have hnd := hint_target hh hm
    refine ⟨⟨nd, []⟩, rfl, (ConsumePost.nil (by omega)).step ?_ ?_ ?_ (Or.inl hgt)⟩
    · intro t h1 h2 h3
      rw [← hk']
      simp only [ItState.cursor, hs] at h1
      rw [cursor_nil] at h2
      by_cases hlt : t < mkInstant st.date tr.e
      · exact pointKind_in ok hd hpre h1 hlt
      · rw [f3, mkInstant_1440] at hlt
        exact pointKind_skipped ok hpre (by omega) (by omega) h2 h3
    · simp only [ItState.cursor, ItState.headEnd, hs]; exact mkInstant_mono (by omega)
    · simp only [ItState.headEnd, hs, cursor_nil, f3]
      simp only [mkInstant, nsPerDay, nsPerMin]; omega
  | case11 st tr hk boundHit hp hs h hh nd hm hngt hs' =>
    have := ok.hint_gt st.date hrep.1
    have hnd := hint_target hh hm
    omega

/-! ## `TimeDomainIterator::new` -/

theorem itNew_empty {env : Env} (ok : EnvOK env) {frm to : Int} (h1 : to ≤ frm) (h2 : frm ≤ instEnd) :
    itNew env frm to = .ok ⟨instDay frm, []⟩ := by
  have hs := sched_eq_schedOf ok (instDay_le_dateEnd h2)
  simp only [itNew, hs, ge_iff_le, h1, if_true, List.dropWhile_nil]

theorem itNew_spec {env : Env} (ok : EnvOK env) {frm to : Int} (h1 : frm < to) (h2 : to ≤ instEnd) :
    ∃ st, itNew env frm to = .ok st ∧ Rep env st ∧ st.date = instDay frm ∧ st.cursor ≤ frm ∧ frm < st.headEnd := by
  have hd : instDay frm < dateEnd := instDay_lt_dateEnd (by omega)
  have hs := sched_eq_schedOf ok (Int.le_of_lt hd)
  have hb := inst_bounds frm
  obtain ⟨pre, r, rs, e1, e2, e3, e4⟩ := dropWhile_tiles (ok.tiles _ hd) (Nat.zero_le _) hb.2.2
  have hn : ¬ (frm ≥ to) := by omega
  refine ⟨⟨instDay frm, r :: rs⟩, ?_, ⟨hd, by simp, pre, e1⟩, rfl, ?_, ?_⟩
  · simp only [itNew, hs, hn, if_false, e2]
  · have := mkInstant_mono (d := instDay frm) e3
    rw [cursor_cons]; omega
  · have := mkInstant_mono (d := instDay frm) (show instMinuteOfDay frm + 1 ≤ r.e by omega)
    simp only [ItState.headEnd]; omega

/-! ## `TimeDomainIterator::next` -/

/-- the end the iterator reports for an interval that really runs from `start` to `stop'` -/
def reported (env : Env) (start stop' : Instant) : Instant :=
  match env.bound with
  | some b => if stop' - start > b then instEnd else stop'
  | none => stop'

/-- the bound test never fires before the first range is consumed (whatever the bound) -/
theorem not_cut_self (env : Env) (d : Int) : ¬ Cut env d d := by
  rintro ⟨b, _, h2⟩
  have := boundLimit_ge_day b
  simp only [nsPerDay] at *; omega

theorem rep_head {env : Env} (ok : EnvOK env) {st : ItState} (hrep : Rep env st) :
    ∃ tr rest, st.sched = tr :: rest ∧ tr.s < tr.e ∧ tr.e ≤ 1440 := by
  obtain ⟨hd, hne, pre, hpre⟩ := hrep
  cases hs : st.sched with
  | nil => exact absurd hs hne
  | cons tr rest =>
    rw [hs] at hpre
    obtain ⟨f1, f2, _, _⟩ := suffix_facts (ok.tiles _ hd) hpre
    exact ⟨tr, rest, rfl, f1, f2⟩

theorem itNext_spec {env : Env} (ok : EnvOK env) (stop : Int) (st : ItState) (hrep : Rep env st) :
    ∃ tr rest st', st.sched = tr :: rest
      ∧ ConsumePost env (instDay stop) st.date tr.kind st st'
      ∧ itNext env stop st = .ok (some (⟨st.cursor, reported env st.cursor (min stop st'.cursor), tr.kind, tr.comments⟩, st')) := by
  obtain ⟨tr, rest, hs, f1, f2⟩ := rep_head ok hrep
  obtain ⟨st', hc, post⟩ := consume_spec ok (instDay stop) st.date tr.kind st hrep
  refine ⟨tr, rest, st', hs, post, ?_⟩
  have hcm : clockMinute tr.s = .ok tr.s := by simp [clockMinute]; omega
  have hcur : st.cursor = mkInstant st.date tr.s := by simp [ItState.cursor, hs]
  have hfin : ∀ (em : Nat), em < 1440 → st'.cursor = mkInstant st'.date em →
      (match clockMinute em with
        | .error p => (.error p : M (Option (Interval × ItState)))
        | .ok em =>
          match env.bound with
          | some b =>
            if min stop (mkInstant st'.date em) - mkInstant st.date tr.s > b
            then (.ok (some (⟨mkInstant st.date tr.s, instEnd, tr.kind, tr.comments⟩, st')) : M (Option (Interval × ItState)))
            else .ok (some (⟨mkInstant st.date tr.s, min stop (mkInstant st'.date em), tr.kind, tr.comments⟩, st'))
          | none => .ok (some (⟨mkInstant st.date tr.s, min stop (mkInstant st'.date em), tr.kind, tr.comments⟩, st')))
      = .ok (some (⟨st.cursor, reported env st.cursor (min stop st'.cursor), tr.kind, tr.comments⟩, st')) := by
    intro em h1 h2
    have : clockMinute em = .ok em := by simp [clockMinute, h1]
    simp only [this, reported, hcur, h2]
    cases env.bound with
    | none => rfl
    | some b => simp only []; split <;> rfl
  rcases post.fin with ⟨h, _⟩ | ⟨hrep', _⟩
  · simp only [itNext, hs, hcm, hc, h]
    exact hfin 0 (by omega) (by simp [ItState.cursor, h])
  · obtain ⟨tr', rest', hs', g1, g2⟩ := rep_head ok hrep'
    simp only [itNext, hs, hcm, hc, hs']
    exact hfin tr'.s (by omega) (by simp [ItState.cursor, hs'])

theorem itNext_nil (env : Env) (stop : Int) {st : ItState} (h : st.sched = []) : itNext env stop st = .ok none := by
  simp only [itNext, h]

theorem not_cut_of_none {env : Env} (h : env.bound = none) (a b : Int) : ¬ Cut env a b := by
  rintro ⟨x, hx, _⟩; rw [h] at hx; cases hx

theorem rep_length_le {env : Env} (ok : EnvOK env) {st : ItState} (hrep : Rep env st) : st.sched.length ≤ 1440 := by
  obtain ⟨hd, _, pre, hpre⟩ := hrep
  have ht := ok.tiles _ hd
  rw [hpre] at ht
  obtain ⟨b, hb, _, _⟩ := tiles_append ht
  have := hb.length_le
  omega

theorem measure_lt (endDay : Int) {st st' : ItState} (hd : st.date < dateEnd) (hlen : st.sched.length ≤ 1440)
    (h : st.date < st'.date ∨ (st'.date = st.date ∧ st'.sched.length < st.sched.length)) :
    itMeasure endDay st' < itMeasure endDay st := by
  simp only [itMeasure, limitDay]
  rcases h with h | ⟨h1, h2⟩
  · have : (max (endDay + 1) dateEnd - st'.date).toNat < (max (endDay + 1) dateEnd - st.date).toNat := by omega
    omega
  · rw [h1]; omega

theorem rep_cursor_lt {env : Env} (ok : EnvOK env) {st : ItState} (hrep : Rep env st) : st.cursor < st.headEnd := by
  obtain ⟨tr, rest, hs, f1, f2⟩ := rep_head ok hrep
  simp only [ItState.cursor, ItState.headEnd, hs, mkInstant, nsPerMin]
  omega

/-- exhausted iterator: beyond the end day or at/after `dateEnd`, hence at or after `stop` -/
theorem stop_le_cursor_nil {stop : Int} (hstop : stop ≤ instEnd) {st : ItState} (h : st.sched = [])
    (h2 : instDay stop < st.date ∨ dateEnd ≤ st.date) : stop ≤ st.cursor := by
  simp only [ItState.cursor, h, instEnd_eq, mkInstant, instDay, nsPerDay, nsPerMin] at *
  omega

/-- `next` without a bound: the interval `[cursor, min stop cursor')` of the current kind -/
theorem itNext_none {env : Env} (ok : EnvOK env) (hbn : env.bound = none) {stop : Int} (hstop : stop ≤ instEnd)
    (st : ItState) (hrep : Rep env st) :
    ∃ tr rest st', st.sched = tr :: rest
      ∧ itNext env stop st = .ok (some (⟨st.cursor, min stop st'.cursor, tr.kind, tr.comments⟩, st'))
      ∧ st.headEnd ≤ st'.cursor
      ∧ (∀ t, st.cursor ≤ t → t < min stop st'.cursor → pointKind env t = tr.kind)
      ∧ itMeasure (instDay stop) st' < itMeasure (instDay stop) st
      ∧ ((st'.sched = [] ∧ stop ≤ st'.cursor) ∨ (Rep env st' ∧ ∀ r rs, st'.sched = r :: rs → r.kind ≠ tr.kind)) := by
  obtain ⟨tr, rest, st', hs, post, hn⟩ := itNext_spec ok stop st hrep
  have hp := post.prog ⟨tr, rest, hs, rfl⟩ (not_cut_of_none hbn _ _)
  refine ⟨tr, rest, st', hs, ?_, hp.1, ?_, measure_lt _ hrep.1 (rep_length_le ok hrep) hp.2, ?_⟩
  · rw [hn]; simp only [reported, hbn]
  · intro t h1 h2; exact post.const t h1 (by omega) (by omega)
  · rcases post.fin with ⟨h1, h2⟩ | ⟨h1, h2 | h2⟩
    · exact Or.inl ⟨h1, stop_le_cursor_nil hstop h1 h2⟩
    · exact Or.inr ⟨h1, h2⟩
    · exact absurd h2 (not_cut_of_none hbn _ _)

theorem collect_spec {env : Env} (ok : EnvOK env) (hbn : env.bound = none) {frm to : Int} (hft : frm < to)
    (hto : to ≤ instEnd) (st : ItState) (acc : List Interval)
    (h : (st.sched = [] ∧ to ≤ st.cursor) ∨ (Rep env st ∧ frm < st.headEnd)) :
    ∃ l, collect env frm to st acc = .ok (acc.reverse ++ l)
      ∧ (if st.cursor < to then
           Runs env (max st.cursor frm) to l ∧ (∀ iv ∈ l.head?, ∀ r rs, st.sched = r :: rs → iv.kind = r.kind)
         else l = []) := by
  fun_induction collect env frm to st acc with
  | case1 st acc p hn =>
    rcases h with ⟨h1, _⟩ | ⟨hrep, _⟩
    · rw [itNext_nil env to h1] at hn; cases hn
    · obtain ⟨tr, rest, st', _, hn', _⟩ := itNext_none ok hbn hto st hrep
      rw [hn'] at hn; cases hn
  | case2 st acc hn =>
    rcases h with ⟨h1, h2⟩ | ⟨hrep, _⟩
    · exact ⟨[], by simp, by rw [if_neg (by omega)]⟩
    · obtain ⟨tr, rest, st', _, hn', _⟩ := itNext_none ok hbn hto st hrep
      rw [hn'] at hn; cases hn
  | case3 st acc iv st' hn hge =>
    rcases h with ⟨h1, _⟩ | ⟨hrep, _⟩
    · rw [itNext_nil env to h1] at hn; cases hn
    · obtain ⟨tr, rest, st'', _, hn', _⟩ := itNext_none ok hbn hto st hrep
      rw [hn'] at hn; cases hn
      exact ⟨[], by simp, by rw [if_neg (by simpa using hge)]⟩
  | case5 st acc iv st' hn hlt hnm =>
    rcases h with ⟨h1, _⟩ | ⟨hrep, _⟩
    · rw [itNext_nil env to h1] at hn; cases hn
    · obtain ⟨tr, rest, st'', _, hn', _, _, hm, _⟩ := itNext_none ok hbn hto st hrep
      rw [hn'] at hn; cases hn
      exact absurd hm hnm
  | case4 st acc iv st' hn hlt hm ih =>
    rcases h with ⟨h1, _⟩ | ⟨hrep, hfrm⟩
    · rw [itNext_nil env to h1] at hn; cases hn
    · obtain ⟨tr, rest, st'', hs, hn', hhe, hconst, _, hfin⟩ := itNext_none ok hbn hto st hrep
      rw [hn'] at hn; cases hn
      simp only [ge_iff_le, Int.not_le] at hlt
      have hcl := rep_cursor_lt ok hrep
      have hih : st'.sched = [] ∧ to ≤ st'.cursor ∨ Rep env st' ∧ frm < st'.headEnd := by
        rcases hfin with h | ⟨h, _⟩
        · exact Or.inl h
        · exact Or.inr ⟨h, by have := rep_cursor_lt ok h; omega⟩
      obtain ⟨l', hc, hl'⟩ := ih hih
      refine ⟨⟨max st.cursor frm, min (min to st'.cursor) to, tr.kind, tr.comments⟩ :: l', by rw [hc]; simp, ?_⟩
      rw [if_pos hlt]
      refine ⟨⟨rfl, ?_, ?_, ?_, ?_, ?_, ?_⟩, ?_⟩
      · simp only []; omega
      · simp only []; omega
      · intro t h1 h2; simp only [] at h2; exact hconst t (by omega) (by omega)
      · obtain ⟨hd, _, pre, hpre⟩ := hrep
        rw [hs] at hpre
        have h1 : mkInstant st.date tr.s ≤ max st.cursor frm := by simp only [ItState.cursor, hs]; omega
        have h2 : max st.cursor frm < mkInstant st.date tr.e := by simp only [ItState.headEnd, hs] at hcl hfrm; omega
        simp only [pointComments, pointRange_in ok hd hpre h1 h2]
      · intro nx hnx
        simp only []
        by_cases hlt' : st'.cursor < to
        · rw [if_pos hlt'] at hl'
          rcases hfin with ⟨_, h⟩ | ⟨hrep', hk⟩
          · omega
          · obtain ⟨tr', rest', hs', _⟩ := rep_head ok hrep'
            rw [hl'.2 nx hnx tr' rest' hs']
            exact hk tr' rest' hs'
        · rw [if_neg hlt'] at hl'; rw [hl'] at hnx; cases hnx
      · simp only []
        by_cases hlt' : st'.cursor < to
        · rw [if_pos hlt'] at hl'
          have e1 : min (min to st'.cursor) to = max st'.cursor frm := by omega
          rw [e1]; exact hl'.1
        · rw [if_neg hlt'] at hl'
          rw [hl']
          simp only [Runs]; omega
      · intro iv hiv r rs hrs
        simp only [List.head?_cons, Option.mem_def, Option.some.injEq] at hiv
        rw [hs] at hrs; cases hrs; rw [← hiv]

/-! ## `iter_range_naive` -/

theorem collect_nil (env : Env) (frm to : Int) (d : Int) : collect env frm to ⟨d, []⟩ [] = .ok [] := by
  rw [collect, itNext_nil env to rfl]; rfl

/-- the whole stream, without a bound -/
theorem iterRangeG_spec {env : Env} (ok : EnvOK env) (hbn : env.bound = none) (frm to : Int) :
    ∃ out, iterRangeG env frm to = .ok out
      ∧ (if min instEnd frm < min instEnd to then Runs env (min instEnd frm) (min instEnd to) out else out = []) := by
  by_cases hlt : min instEnd frm < min instEnd to
  · obtain ⟨st, hnew, hrep, _, hc1, hc2⟩ := itNew_spec ok hlt (Int.min_le_left _ _)
    obtain ⟨l, hcol, hl⟩ := collect_spec ok hbn hlt (Int.min_le_left _ _) st [] (Or.inr ⟨hrep, hc2⟩)
    rw [if_pos (by omega)] at hl
    refine ⟨l, ?_, ?_⟩
    · simp only [iterRangeG, hnew, hcol, List.reverse_nil, List.nil_append]
    · rw [if_pos hlt]
      have : max st.cursor (min instEnd frm) = min instEnd frm := by omega
      rw [← this]; exact hl.1
  · refine ⟨[], ?_, by rw [if_neg hlt]⟩
    have hnew := itNew_empty ok (frm := min instEnd frm) (to := min instEnd to) (by omega) (Int.min_le_left _ _)
    simp only [iterRangeG, hnew, collect_nil]

/-! ## the first interval (what `state` and `next_change` use), with or without a bound -/

theorem firstIntervalG_clip (env : Env) (frm to : Int) :
    firstIntervalG env frm to = firstIntervalG env (min instEnd frm) (min instEnd to) := by
  have h1 : min instEnd (min instEnd frm) = min instEnd frm := by omega
  have h2 : min instEnd (min instEnd to) = min instEnd to := by omega
  simp only [firstIntervalG, h1, h2]

theorem firstIntervalG_empty {env : Env} (ok : EnvOK env) {frm to : Int} (h : min instEnd to ≤ min instEnd frm) :
    firstIntervalG env frm to = .ok none := by
  have hnew := itNew_empty ok (frm := min instEnd frm) (to := min instEnd to) h (Int.min_le_left _ _)
  simp only [firstIntervalG, hnew, itNext_nil]

/-- First interval of the stream from `frm` (already clipped: `frm < to ≤ instEnd`).  `s` is the start of
the schedule range containing `frm` (same day), `c` the cursor after `consume_until_next_kind`. -/
theorem first_spec {env : Env} (ok : EnvOK env) {frm to : Int} (hft : frm < to) (hto : to ≤ instEnd) :
    ∃ (s c : Int) (tr : TimeRange),
      firstIntervalG env frm to = .ok (some ⟨frm, min (reported env s (min to c)) to, tr.kind, tr.comments⟩)
      ∧ pointRange env frm = some tr
      ∧ (instDay frm * nsPerDay ≤ s ∧ s ≤ frm) ∧ frm < s + nsPerDay ∧ frm < c
      ∧ (∀ t, frm ≤ t → t < c → t < instEnd → pointKind env t = tr.kind)
      ∧ (to ≤ c ∨ (c < instEnd ∧ (pointKind env c ≠ tr.kind
            ∨ ∃ b, env.bound = some b ∧ c - s > boundLimit b - nsPerDay))) := by
  obtain ⟨st, hnew, hrep, hdate, hc1, hc2⟩ := itNew_spec ok hft hto
  obtain ⟨tr, rest, st', hs, post, hn⟩ := itNext_spec ok to st hrep
  have hp := post.prog ⟨tr, rest, hs, rfl⟩ (not_cut_self env _)
  obtain ⟨hd, _, pre, hpre⟩ := hrep
  rw [hs] at hpre
  obtain ⟨f1, f2, _, _⟩ := suffix_facts (ok.tiles _ hd) hpre
  have hcur : st.cursor = mkInstant st.date tr.s := by simp [ItState.cursor, hs]
  have hhe : st.headEnd = mkInstant st.date tr.e := by simp [ItState.headEnd, hs]
  refine ⟨st.cursor, st'.cursor, tr, ?_, ?_, ⟨?_, hc1⟩, ?_, by omega, ?_, ?_⟩
  · rw [firstIntervalG_clip]
    have h1 : min instEnd frm = frm := by omega
    have h2 : min instEnd to = to := by omega
    have h3 : ¬ (st.cursor ≥ to) := by omega
    have h4 : max st.cursor frm = frm := by omega
    simp only [firstIntervalG, h1, h2, hnew, hn, h3, if_false, h4]
  · exact pointRange_in ok hd hpre (by omega) (by omega)
  · rw [hcur, ← hdate]; simp only [mkInstant, nsPerDay, nsPerMin]; omega
  · rw [hhe] at hc2; rw [hcur]
    simp only [mkInstant, nsPerDay, nsPerMin] at *; omega
  · intro t h1 h2 h3; exact post.const t (by omega) h2 h3
  · rcases post.fin with ⟨h1, h2⟩ | ⟨hrep', h2⟩
    · exact Or.inl (stop_le_cursor_nil hto h1 h2)
    · refine Or.inr ?_
      obtain ⟨hd', _, pre', hpre'⟩ := hrep'
      obtain ⟨tr', rest', hs', g1, g2⟩ := rep_head ok ⟨hd', ‹_›, pre', hpre'⟩
      rw [hs'] at hpre'
      have hcur' : st'.cursor = mkInstant st'.date tr'.s := by simp [ItState.cursor, hs']
      have hlt : st'.cursor < instEnd := by
        rw [hcur']; simp only [instEnd_eq, mkInstant, nsPerDay, nsPerMin] at *; omega
      refine ⟨hlt, ?_⟩
      rcases h2 with h2 | ⟨b, hb1, hb2⟩
      · refine Or.inl ?_
        have := pointKind_in ok hd' hpre' (t := st'.cursor) (by omega) (by
          rw [hcur']; simp only [mkInstant, nsPerDay, nsPerMin]; omega)
        rw [this]; exact h2 tr' rest' hs'
      · refine Or.inr ⟨b, hb1, ?_⟩
        rw [hcur', hcur]
        generalize boundLimit b = L at hb2 ⊢
        simp only [mkInstant, nsPerDay, nsPerMin] at *; omega

/-! ## Consequences of `Runs` (list-level reading of the stream property) -/

theorem Runs.le {env : Env} {a b : Int} {l : List Interval} (h : Runs env a b l) : a ≤ b := by
  induction l generalizing a with
  | nil => simp only [Runs] at h; omega
  | cons iv rest ih => simp only [Runs] at h; have := ih h.2.2.2.2.2.2; omega

theorem Runs.eq_nil_iff {env : Env} {a b : Int} {l : List Interval} (h : Runs env a b l) : l = [] ↔ b ≤ a := by
  cases l with
  | nil => simp only [Runs] at h; simp; omega
  | cons iv rest => simp only [Runs] at h; have := h.2.2.2.2.2.2.le; simp; omega

theorem Runs.head {env : Env} {a b : Int} {l : List Interval} (h : Runs env a b l) :
    ∀ iv ∈ l.head?, iv.start = a ∧ iv.kind = pointKind env a ∧ iv.comments = pointComments env a := by
  cases l with
  | nil => simp
  | cons iv rest =>
    simp only [Runs] at h
    intro x hx; simp only [List.head?_cons, Option.mem_def, Option.some.injEq] at hx; subst hx
    exact ⟨h.1, (h.2.2.2.1 a (Int.le_refl _) h.2.1).symm, h.2.2.2.2.1⟩

theorem Runs.last {env : Env} {a b : Int} {l : List Interval} (h : Runs env a b l) :
    ∀ iv ∈ l.getLast?, iv.stop = b := by
  induction l generalizing a with
  | nil => simp
  | cons iv rest ih =>
    simp only [Runs] at h
    cases rest with
    | nil =>
      have := h.2.2.2.2.2.2; simp only [Runs] at this
      intro x hx; simp only [List.getLast?_singleton, Option.mem_def, Option.some.injEq] at hx; subst hx; exact this
    | cons iv2 rest2 =>
      intro x hx; rw [List.getLast?_cons_cons] at hx
      exact ih h.2.2.2.2.2.2 x hx

/-- every interval: inside the window, non-empty, constant with the right kind, comments of its first instant -/
theorem Runs.mem {env : Env} {a b : Int} {l : List Interval} (h : Runs env a b l) :
    ∀ iv ∈ l, a ≤ iv.start ∧ iv.start < iv.stop ∧ iv.stop ≤ b
      ∧ (∀ t, iv.start ≤ t → t < iv.stop → pointKind env t = iv.kind)
      ∧ iv.comments = pointComments env iv.start := by
  induction l generalizing a with
  | nil => simp
  | cons iv rest ih =>
    simp only [Runs] at h
    obtain ⟨h1, h2, h3, h4, h5, _, h7⟩ := h
    intro x hx
    rcases List.mem_cons.1 hx with rfl | hx
    · exact ⟨by omega, by omega, h3, by rw [h1]; exact h4, by rw [h1]; exact h5⟩
    · obtain ⟨g1, g2⟩ := ih h7 x hx
      exact ⟨by omega, g2⟩

/-- consecutive intervals: contiguous and of different kinds -/
theorem Runs.adjacent {env : Env} {a b : Int} {l : List Interval} (h : Runs env a b l) :
    ∀ i (hi : i + 1 < l.length), l[i].stop = l[i + 1].start ∧ l[i].kind ≠ l[i + 1].kind := by
  induction l generalizing a with
  | nil => intro i hi; simp at hi
  | cons iv rest ih =>
    simp only [Runs] at h
    obtain ⟨_, _, _, _, _, h6, h7⟩ := h
    intro i hi
    cases i with
    | zero =>
      cases rest with
      | nil => simp at hi
      | cons iv2 rest2 =>
        simp only [Runs] at h7
        simp only [List.getElem_cons_zero, List.getElem_cons_succ]
        exact ⟨h7.1.symm, fun e => h6 iv2 (by simp) e.symm⟩
    | succ j =>
      simp only [List.getElem_cons_succ]
      exact ih h7 j (by simpa using hi)

/-- increasing order -/
theorem Runs.pairwise {env : Env} {a b : Int} {l : List Interval} (h : Runs env a b l) :
    l.Pairwise (fun x y => x.stop ≤ y.start) := by
  induction l generalizing a with
  | nil => exact List.Pairwise.nil
  | cons iv rest ih =>
    simp only [Runs] at h
    refine List.Pairwise.cons ?_ (ih h.2.2.2.2.2.2)
    intro y hy
    exact (h.2.2.2.2.2.2.mem y hy).1

/-- exact cover: every instant of `[a, b)` lies in an interval of the list -/
theorem Runs.cover {env : Env} {a b : Int} {l : List Interval} (h : Runs env a b l) :
    ∀ t, a ≤ t → t < b → ∃ iv ∈ l, iv.start ≤ t ∧ t < iv.stop := by
  induction l generalizing a with
  | nil => simp only [Runs] at h; intro t h1 h2; omega
  | cons iv rest ih =>
    simp only [Runs] at h
    intro t h1 h2
    by_cases hlt : t < iv.stop
    · exact ⟨iv, by simp, by omega, hlt⟩
    · obtain ⟨x, hx, g⟩ := ih h.2.2.2.2.2.2 t (by omega) h2
      exact ⟨x, by simp [hx], g⟩

/-- no state change is skipped or displaced: wherever the pointwise state changes inside the window,
an interval starts -/
theorem Runs.change_is_boundary {env : Env} {a b : Int} {l : List Interval} (h : Runs env a b l)
    (t : Int) (h1 : a < t) (h2 : t < b) (hne : pointKind env (t - 1) ≠ pointKind env t) :
    ∃ iv ∈ l, iv.start = t := by
  obtain ⟨iv, hiv, g1, g2⟩ := h.cover t (by omega) h2
  refine ⟨iv, hiv, ?_⟩
  obtain ⟨_, _, _, hc, _⟩ := h.mem iv hiv
  by_cases hlt : iv.start < t
  · exact absurd ((hc (t - 1) (by omega) (by omega)).trans (hc t g1 g2).symm) hne
  · omega

/-- the specification determines the stream: two lists of runs over the same window are equal -/
theorem Runs.unique {env : Env} {a b : Int} {l l' : List Interval} (h : Runs env a b l) (h' : Runs env a b l') :
    l = l' := by
  induction l generalizing a l' with
  | nil =>
    cases l' with
    | nil => rfl
    | cons iv' rest' => simp only [Runs] at h h'; have := h'.2.2.2.2.2.2.le; omega
  | cons iv rest ih =>
    cases l' with
    | nil => simp only [Runs] at h h'; have := h.2.2.2.2.2.2.le; omega
    | cons iv' rest' =>
      have hh := h.head iv (by simp)
      have hh' := h'.head iv' (by simp)
      simp only [Runs] at h h'
      obtain ⟨h1, h2, h3, h4, h5, h6, h7⟩ := h
      obtain ⟨g1, g2, g3, g4, g5, g6, g7⟩ := h'
      have hstop : iv.stop = iv'.stop := by
        by_cases hlt : iv.stop < iv'.stop
        · -- `rest` is non-empty and its head has the kind of `iv`: contradiction
          cases rest with
          | nil => simp only [Runs] at h7; omega
          | cons nx rest2 =>
            have hn := h7.head nx (by simp)
            have := h6 nx (by simp)
            rw [hn.2.1, g4 iv.stop (by omega) hlt, hh'.2.1, ← hh.2.1] at this
            exact absurd rfl this
        · by_cases hgt : iv'.stop < iv.stop
          · cases rest' with
            | nil => simp only [Runs] at g7; omega
            | cons nx rest2 =>
              have hn := g7.head nx (by simp)
              have := g6 nx (by simp)
              rw [hn.2.1, h4 iv'.stop (by omega) hgt, hh.2.1, ← hh'.2.1] at this
              exact absurd rfl this
          · omega
      have hiv : iv = iv' := by
        cases iv; cases iv'
        simp only [Interval.mk.injEq]
        simp only [] at hh hh' hstop
        exact ⟨by omega, hstop, by rw [hh.2.1, hh'.2.1], by rw [hh.2.2, hh'.2.2]⟩
      subst hiv
      rw [ih h7 g7]

/-! ## `next_change`, semantically -/

/-- `r` is the exact next change after `t`: the earliest instant after `t` (before `instEnd`) whose state
differs from the state at `t`; `none` when the state stays the same until `instEnd` -/
def IsNextChange (env : Env) (t : Instant) : Option Instant → Prop
  | some c => t < c ∧ c < instEnd ∧ (∀ u, t ≤ u → u < c → pointKind env u = pointKind env t)
      ∧ pointKind env c ≠ pointKind env t
  | none => ∀ u, t ≤ u → u < instEnd → pointKind env u = pointKind env t

theorem IsNextChange.unique {env : Env} {t : Int} {r r' : Option Int}
    (h : IsNextChange env t r) (h' : IsNextChange env t r') : r = r' := by
  cases r with
  | none =>
    cases r' with
    | none => rfl
    | some c' => exact absurd (h c' (by have := h'.1; omega) h'.2.1) h'.2.2.2
  | some c =>
    cases r' with
    | none => exact absurd (h' c (by have := h.1; omega) h.2.1) h.2.2.2
    | some c' =>
      obtain ⟨a1, a2, a3, a4⟩ := h
      obtain ⟨b1, b2, b3, b4⟩ := h'
      by_cases h1 : c < c'
      · exact absurd (b3 c (by omega) h1) a4
      · by_cases h2 : c' < c
        · exact absurd (a3 c' (by omega) h2) b4
        · have : c = c' := by omega
          rw [this]

/-- the exact next change is the same for every instant of the interval -/
theorem IsNextChange.shift {env : Env} {t u : Int} {r : Option Int} (h : IsNextChange env t r) (h1 : t ≤ u)
    (h2 : ∀ c, r = some c → u < c) (h3 : r = none → u < instEnd) : IsNextChange env u r := by
  cases r with
  | none =>
    have hu := h u h1 (h3 rfl)
    intro v hv1 hv2; rw [hu]; exact h v (by omega) hv2
  | some c =>
    obtain ⟨a1, a2, a3, a4⟩ := h
    have huc := h2 c rfl
    have hu := a3 u h1 huc
    exact ⟨huc, a2, fun v hv1 hv2 => by rw [hu]; exact a3 v (by omega) hv2, by rw [hu]; exact a4⟩

/-! ## `state` and `next_change` over an abstract day level -/

-- `stateG` / `nextChangeG` are defined at the end of `OH/Model/Iter.lean` (used by `OH/Model/Tz.lean` too)

theorem state_eq_stateG (ctx : Ctx) (e : Expr) (t : Int) : state ctx e t = stateG (envOf ctx e) t := rfl
theorem nextChange_eq_nextChangeG (ctx : Ctx) (e : Expr) (t : Int) :
    nextChange ctx e t = nextChangeG (envOf ctx e) t := rfl

theorem pointKind_of_range {env : Env} {t : Int} {tr : TimeRange} (h : pointRange env t = some tr) :
    pointKind env t = tr.kind := by simp [pointKind, h]

/-- `state`: whatever the bound, and for every instant (the former `t + 1 minute` overflow is gone:
below `instEnd` it cannot overflow, from `instEnd` on the function returns early) -/
theorem stateG_spec {env : Env} (ok : EnvOK env) (t : Int) :
    (t < instEnd → stateG env t = .ok (pointKind env t)) ∧ (instEnd ≤ t → stateG env t = .ok .closed) := by
  constructor
  · intro hlt
    have hn : ¬ (t ≥ instEnd) := by omega
    have h1 : min instEnd t = t := by omega
    have h2 : t < min instEnd (t + nsPerMin) := by simp only [nsPerMin]; omega
    obtain ⟨s, c, tr, hf, hr, _⟩ := first_spec ok h2 (Int.min_le_left _ _)
    simp only [stateG, hn, if_false]
    rw [firstIntervalG_clip, h1, hf, pointKind_of_range hr]
  · intro hge
    have hn : t ≥ instEnd := hge
    simp only [stateG, hn, if_true]

/-- below `instEnd` the one-minute window of `state` is representable (no overflow site left) -/
theorem state_window_representable {t : Int} (h : t < instEnd) : t + nsPerMin ≤ instMax := by
  have h1 := dateEnd_lt_maxDay
  simp only [instEnd_eq, instMax, nsPerDay, nsPerMin] at *; omega

/-- `next_change` never reports an instant at or beyond `instEnd` — for ANY day level and bound -/
theorem nextChangeG_lt_end (env : Env) (t c : Int) (h : nextChangeG env t = .ok (some c)) : c < instEnd := by
  simp only [nextChangeG] at h
  split at h
  · cases h
  · cases h
  · split at h
    · cases h
    · simp only [Except.ok.injEq, Option.some.injEq] at h; omega

theorem nextChangeG_after_end {env : Env} (ok : EnvOK env) {t : Int} (h : instEnd ≤ t) : nextChangeG env t = .ok none := by
  simp only [nextChangeG]
  rw [firstIntervalG_empty ok (by omega)]

/-- without a bound, `next_change` is the exact next change -/
theorem nextChangeG_exact {env : Env} (ok : EnvOK env) (hbn : env.bound = none) {t : Int} (hlt : t < instEnd) :
    ∃ x, nextChangeG env t = .ok x ∧ IsNextChange env t x := by
  obtain ⟨s, c, tr, hf, hr, h1, h2, h3, h4, h5⟩ := first_spec ok hlt (Int.le_refl _)
  have hk := pointKind_of_range hr
  simp only [reported, hbn] at hf
  by_cases hc : instEnd ≤ c
  · refine ⟨none, ?_, ?_⟩
    · simp only [nextChangeG, hf]; rw [if_pos (by omega)]
    · intro u hu1 hu2; rw [hk]; exact h4 u hu1 (by omega) hu2
  · refine ⟨some c, ?_, ?_⟩
    · simp only [nextChangeG, hf]; rw [if_neg (by omega)]
      have : min (min instEnd c) instEnd = c := by omega
      rw [this]
    · rcases h5 with h5 | ⟨h5, h6 | ⟨b, hb, _⟩⟩
      · omega
      · exact ⟨h3, h5, fun u hu1 hu2 => by rw [hk]; exact h4 u hu1 hu2 (by omega), by rw [hk]; exact h6⟩
      · rw [hbn] at hb; cases hb

theorem minDay_eq : minDay = -95746129 := by decide

/-- When the loop test of `consume_until_next_kind` stopped the run at cursor `c` (`c − s > limit − 1 day`),
the test of `next` (`end − start > B`, raw bound) fires too.  For `B < 0` trivially; for `B ≥ 0` because the
limit is `B + 1 day` — or, if that overflowed `TimeDelta` and saturated, because no two representable
instants before `instEnd` are `TimeDelta::MAX − 1 day` apart (`hfit`: one of the two; the second
alternative holds for every `NaiveDateTime`). -/
theorem cut_far {B s c t : Int} (hfit : B + nsPerDay ≤ deltaMax ∨ instMin ≤ t)
    (hs : instDay t * nsPerDay ≤ s) (hst : s ≤ t) (htc : t < c) (hc : c < instEnd)
    (h : c - s > boundLimit B - nsPerDay) : c - s > B := by
  by_cases hB0 : B < 0
  · omega
  · by_cases hov : max B 0 + nsPerDay ≤ deltaMax
    · rw [boundLimit_eq hov] at h; omega
    · rw [boundLimit_sat hov] at h
      rcases hfit with hfit | hfit
      · omega
      · have e1 := dateEnd_eq
        have e2 := minDay_eq
        simp only [instEnd_eq, instMin, instDay, deltaMax, nsPerDay] at *
        omega

/-- with a bound `B` — ANY `B`, negative or huge — the answer is the exact one or `none`, as C16 says
(`x` is the exact answer) -/
theorem nextChangeG_bounded {env : Env} (ok : EnvOK env) {B : Int} (hB : env.bound = some B)
    {t : Int} (hfit : B + nsPerDay ≤ deltaMax ∨ instMin ≤ t)
    (hlt : t < instEnd) {x : Option Int} (hx : IsNextChange env t x) :
    ∃ y, nextChangeG env t = .ok y
      ∧ (y = x ∨ y = none)
      ∧ (∀ c, x = some c → c - t ≤ B - nsPerDay → y = x)
      ∧ (∀ c, x = some c → c - t > B → y = none)
      ∧ (x = none → y = none) := by
  obtain ⟨s, c, tr, hf, hr, ⟨h0, h1⟩, h2, h3, h4, h5⟩ := first_spec ok hlt (Int.le_refl _)
  have hk := pointKind_of_range hr
  simp only [reported, hB] at hf
  by_cases hc : instEnd ≤ c
  · -- the run reaches the end of the supported range: exact answer `none`
    have hx' : IsNextChange env t none := fun u hu1 hu2 => by rw [hk]; exact h4 u hu1 (by omega) hu2
    have := hx.unique hx'
    subst this
    refine ⟨none, ?_, Or.inl rfl, fun _ h => (nomatch h), fun _ h => (nomatch h), fun _ => rfl⟩
    simp only [nextChangeG, hf]
    have e1 : min instEnd c = instEnd := by omega
    rw [e1]
    split <;> rw [if_pos (by omega)]
  · have hc' : c < instEnd := by omega
    have e1 : min instEnd c = c := by omega
    rw [e1] at hf
    have hcut : ∀ (_ : c - s > B), nextChangeG env t = .ok none := by
      intro hgt
      simp only [nextChangeG, hf, if_pos hgt]; rw [if_pos (by omega)]
    rcases h5 with h5 | ⟨_, h6 | ⟨b, hb1, hb2⟩⟩
    · omega
    · -- stopped at a real change `c`
      have hx' : IsNextChange env t (some c) :=
        ⟨h3, hc', fun u hu1 hu2 => by rw [hk]; exact h4 u hu1 hu2 (by omega), by rw [hk]; exact h6⟩
      have := hx.unique hx'
      subst this
      by_cases hgt : c - s > B
      · refine ⟨none, hcut hgt, Or.inr rfl, ?_, fun _ _ _ => rfl, fun h => (nomatch h)⟩
        intro c0 h0 hle; cases h0; omega
      · refine ⟨some c, ?_, Or.inl rfl, fun _ _ _ => rfl, ?_, fun h => (nomatch h)⟩
        · simp only [nextChangeG, hf, if_neg hgt]; rw [if_neg (by omega)]
          have : min c instEnd = c := by omega
          rw [this]
        · intro c0 h0 hgt0; cases h0; omega
    · -- stopped by the bound test of the loop
      rw [hB] at hb1; cases hb1
      have hb2 : c - s > B := cut_far hfit h0 h1 h3 hc' hb2
      refine ⟨none, hcut hb2, Or.inr rfl, ?_, fun _ _ _ => rfl, fun _ => rfl⟩
      intro c0 h0 hle
      subst h0
      obtain ⟨a1, a2, a3, a4⟩ := hx
      by_cases hlt0 : c0 < c
      · exact absurd (by rw [hk]; exact h4 c0 (by omega) hlt0 a2) a4
      · omega

/-- a NEGATIVE bound: `end − start > B` always holds, so every item is reported as `start..DATE_END`
(clipped to the window end); in particular the first one -/
theorem firstIntervalG_negative_bound {env : Env} (ok : EnvOK env) {B : Int} (hB : env.bound = some B) (hneg : B < 0)
    {frm to : Int} (hft : frm < to) (hto : to ≤ instEnd) :
    firstIntervalG env frm to = .ok (some ⟨frm, to, pointKind env frm, pointComments env frm⟩) := by
  obtain ⟨s, c, tr, hf, hr, ⟨_, h1⟩, h2, h3, _, _⟩ := first_spec ok hft hto
  have hk := pointKind_of_range hr
  have hcm : pointComments env frm = tr.comments := by simp [pointComments, hr]
  simp only [reported, hB] at hf
  rw [if_pos (by omega)] at hf
  have : min instEnd to = to := by omega
  rw [hf, hk, hcm, this]

/-- …hence `next_change` is `none` for every instant -/
theorem nextChangeG_negative_bound {env : Env} (ok : EnvOK env) {B : Int} (hB : env.bound = some B) (hneg : B < 0)
    (t : Int) : nextChangeG env t = .ok none := by
  by_cases hlt : t < instEnd
  · simp only [nextChangeG, firstIntervalG_negative_bound ok hB hneg hlt (Int.le_refl _)]
    rw [if_pos (Int.le_refl _)]
  · exact nextChangeG_after_end ok (by omega)

/-! ## Clipping holds for any day level (C08) -/

theorem collect_clip (env : Env) (frm to : Int) (st : ItState) (acc : List Interval)
    (hacc : ∀ iv ∈ acc, frm ≤ iv.start ∧ iv.stop ≤ to) :
    ∀ out, collect env frm to st acc = .ok out → ∀ iv ∈ out, frm ≤ iv.start ∧ iv.stop ≤ to := by
  fun_induction collect env frm to st acc with
  | case1 st acc p hn => intro out h; cases h
  | case2 st acc hn =>
    intro out h; cases h
    intro iv hiv; exact hacc iv (by simpa using hiv)
  | case3 st acc iv st' hn hge =>
    intro out h; cases h
    intro iv hiv; exact hacc iv (by simpa using hiv)
  | case4 st acc iv st' hn hlt hm ih =>
    apply ih
    intro x hx
    rcases List.mem_cons.1 hx with rfl | hx
    · simp only []; omega
    · exact hacc x hx
  | case5 st acc iv st' hn hlt hnm => intro out h; cases h

/-! ## Totality with a bound: no panic, and the progress check of `collect` never fires -/

theorem itNext_progress {env : Env} (ok : EnvOK env) (stop : Int) (st : ItState) (hrep : Rep env st) :
    ∃ iv st', itNext env stop st = .ok (some (iv, st'))
      ∧ itMeasure (instDay stop) st' < itMeasure (instDay stop) st ∧ (st'.sched = [] ∨ Rep env st') := by
  obtain ⟨tr, rest, st', hs, post, hn⟩ := itNext_spec ok stop st hrep
  have hp := post.prog ⟨tr, rest, hs, rfl⟩ (not_cut_self env _)
  refine ⟨_, st', hn, measure_lt _ hrep.1 (rep_length_le ok hrep) hp.2, ?_⟩
  rcases post.fin with ⟨h, _⟩ | ⟨h, _⟩
  · exact Or.inl h
  · exact Or.inr h

theorem collect_total {env : Env} (ok : EnvOK env) (frm to : Int) (st : ItState)
    (acc : List Interval) (h : st.sched = [] ∨ Rep env st) : ∃ out, collect env frm to st acc = .ok out := by
  fun_induction collect env frm to st acc with
  | case1 st acc p hn =>
    rcases h with h | h
    · rw [itNext_nil env to h] at hn; cases hn
    · obtain ⟨iv, st', hn', _⟩ := itNext_progress ok to st h
      rw [hn'] at hn; cases hn
  | case2 st acc hn => exact ⟨_, rfl⟩
  | case3 st acc iv st' hn hge => exact ⟨_, rfl⟩
  | case4 st acc iv st' hn hlt hm ih =>
    rcases h with h | h
    · rw [itNext_nil env to h] at hn; cases hn
    · obtain ⟨iv', st'', hn', _, hfin⟩ := itNext_progress ok to st h
      rw [hn'] at hn; cases hn
      exact ih hfin
  | case5 st acc iv st' hn hlt hnm =>
    rcases h with h | h
    · rw [itNext_nil env to h] at hn; cases hn
    · obtain ⟨iv', st'', hn', hm, _⟩ := itNext_progress ok to st h
      rw [hn'] at hn; cases hn
      exact absurd hm hnm

/-- with ANY bound (none, negative, zero, up to and beyond `TimeDelta::MAX`) the stream is finite and
nothing panics -/
theorem iterRangeG_total {env : Env} (ok : EnvOK env) (frm to : Int) :
    ∃ out, iterRangeG env frm to = .ok out := by
  simp only [iterRangeG]
  by_cases hlt : min instEnd frm < min instEnd to
  · obtain ⟨st, hnew, hrep, _⟩ := itNew_spec ok hlt (Int.min_le_left _ _)
    rw [hnew]; exact collect_total ok _ _ st [] (Or.inr hrep)
  · rw [itNew_empty ok (by omega) (Int.min_le_left _ _)]
    exact collect_total ok _ _ _ [] (Or.inl rfl)

/-! ## `firstIntervalG` is the head of the stream (any day level, any bound) -/

theorem collect_prefix (env : Env) (frm to : Int) (st : ItState) (acc : List Interval) :
    ∀ out, collect env frm to st acc = .ok out → ∃ l, out = acc.reverse ++ l := by
  fun_induction collect env frm to st acc with
  | case1 st acc p hn => intro out h; cases h
  | case2 st acc hn => intro out h; cases h; exact ⟨[], by simp⟩
  | case3 st acc iv st' hn hge => intro out h; cases h; exact ⟨[], by simp⟩
  | case4 st acc iv st' hn hlt hm ih =>
    intro out h
    obtain ⟨l, hl⟩ := ih out h
    exact ⟨⟨max iv.start frm, min iv.stop to, iv.kind, iv.comments⟩ :: l, by rw [hl]; simp⟩
  | case5 st acc iv st' hn hlt hnm => intro out h; cases h

theorem firstIntervalG_eq_head (env : Env) (frm to : Int) {out : List Interval}
    (h : iterRangeG env frm to = .ok out) : firstIntervalG env frm to = .ok out.head? := by
  simp only [iterRangeG] at h
  simp only [firstIntervalG]
  split at h
  · cases h
  · rename_i st hnew
    rw [collect] at h
    split at h
    · cases h
    · cases h; rfl
    · rename_i iv st' hn
      split at h
      · rename_i hge; rw [if_pos hge]; cases h; rfl
      · rename_i hge
        rw [if_neg hge]
        split at h
        · obtain ⟨l, hl⟩ := collect_prefix _ _ _ _ _ out h
          rw [hl]; simp
        · cases h

/-! ## Extreme bounds

History: in the original code the loop test was `curr_date − start_date > max_interval_size + TimeDelta::days(1)`.
A bound below −1 day made it fire before anything was consumed (`iter_range` yielded the same item for ever;
former theorem `iterRangeG_stuck`), a bound above `TimeDelta::MAX − 1 day` made the addition panic in every
query (former theorem `firstIntervalG_bound_overflow`).  Repaired in the repository ("fix: an interval-size
bound below -1 day or close to TimeDelta::MAX must not hang or panic"): the limit is now `boundLimit b`
= `max(b, 0) + 1 day` saturating at `TimeDelta::MAX`, which is `≥ 1 day` for every `b`
(`boundLimit_ge_day`), so the first range is always consumed (`not_cut_self`) and nothing can overflow.
The positive replacements are `iterRangeG_total` (all bounds), `nextChangeG_bounded` (all bounds) and
`firstIntervalG_negative_bound` / `nextChangeG_negative_bound`. -/

/-! ## Witnesses for the non-vacuity examples of `OH/Props/C02A.lean` -/

/-- the real day level of the empty expression -/
theorem scheduleAt_nil (d : Int) : scheduleAt Ctx.default [] d = .ok [] := by
  simp only [scheduleAt]
  split <;> rfl

theorem daySchedule_nil (d : Int) : daySchedule Ctx.default [] d = .ok [⟨0, 1440, .closed, []⟩] := by
  have h1 : Schedule.iterPanics [] = false := by decide +kernel
  have h2 : Schedule.iter [] = [⟨0, 1440, .closed, []⟩] := by decide +kernel
  simp [daySchedule, scheduleAt_nil, h1, h2]

theorem hint_nil (d : Int) :
    nextChangeHint Ctx.default [] d = .ok (some (if d < dateStart then dateStart else dateEnd)) := by
  simp only [nextChangeHint]
  split
  · rfl
  · simp [isConstant]

theorem envOK_nil : EnvOK (envOf Ctx.default []) where
  sched_ok d _ := ⟨_, daySchedule_nil d⟩
  tiles d _ := by simp [Env.schedOf, envOf, daySchedule_nil]; decide
  hint_ok d _ := ⟨_, hint_nil d⟩
  hint_gt d hd := by
    simp only [Env.hintOf, envOf, hint_nil]
    have := dateStart_eq; have := dateEnd_eq
    split <;> omega
  hint_sound d d' _ _ _ r hr := by
    simp [Env.schedOf, envOf, daySchedule_nil] at hr
    simp [Env.schedOf, envOf, daySchedule_nil, lastKind, hr]

/-- an abstract "Mo-Fr 09:00-17:00 open "c"" day level (day `d` is a working day iff `d % 7 < 5`) whose
hint jumps from Saturday over Sunday to Monday; optional bound -/
def weekSched (d : Int) : List TimeRange :=
  if d % 7 < 5 then [⟨0, 540, .closed, []⟩, ⟨540, 1020, .open, ["c"]⟩, ⟨1020, 1440, .closed, []⟩]
  else [⟨0, 1440, .closed, []⟩]

def weekEnv (bound : Option Int) : Env :=
  ⟨fun d => .ok (weekSched d), fun d => .ok (if d % 7 = 5 then some (d + 2) else none), bound⟩

theorem envOK_week (bound : Option Int) : EnvOK (weekEnv bound) where
  sched_ok d _ := ⟨_, rfl⟩
  tiles d _ := by
    simp only [Env.schedOf, weekEnv, weekSched]
    split <;> decide
  hint_ok d _ := ⟨_, rfl⟩
  hint_gt d _ := by
    simp only [Env.hintOf, weekEnv]
    split <;> rename_i h <;> split at h <;> simp_all <;> omega
  hint_sound d d' h1 h2 _ r hr := by
    simp only [Env.hintOf, Env.schedOf, weekEnv] at h2 hr ⊢
    by_cases h5 : d % 7 = 5
    · simp only [h5, if_true] at h2
      have h6 : ¬ (d' % 7 < 5) := by omega
      have h7 : ¬ (d % 7 < 5) := by omega
      simp only [weekSched, h6, h7, if_false, List.mem_singleton] at hr ⊢
      rw [hr]; rfl
    · simp only [h5, if_false] at h2; omega

end OH.Model
