import OH.Model.HolidayDb
import OH.Proofs.CompactCalendar
import OH.Proofs.Countries
/-
Helper lemmas for C10 (`OH.Props.C10`): `split`/`join` on `,`, the `BTreeMap` grouping, the
write-then-read induction over regions (on top of C15's framing theorem `roundtrip`), the
`HashMap` reading of the decoded pair list.
-/
namespace OH.Proofs.HolidayDb
open OH.Model OH.Model.HolidayDb OH.Model.CompactCalendar OH.Model.CompactCalendar.CompactCalendar
open OH.Proofs.CompactCalendar OH.Proofs.Countries

/-! ## `join(",")` then `split(',')` -/

theorem splitComma_ne_nil (cs : List Char) : splitComma cs ≠ [] := by
  induction cs with
  | nil => simp [splitComma]
  | cons c cs ih =>
    unfold splitComma
    split
    · simp
    · split <;> simp

theorem splitComma_single (w : List Char) (h : ',' ∉ w) : splitComma w = [w] := by
  induction w with
  | nil => rfl
  | cons c w ih =>
    have hc : c ≠ ',' := fun e => h (by simp [e])
    have hw : ',' ∉ w := fun e => h (List.mem_cons_of_mem _ e)
    simp only [splitComma, hc, if_false, ih hw]

theorem splitComma_append (w rest : List Char) (h : ',' ∉ w) :
    splitComma (w ++ ',' :: rest) = w :: splitComma rest := by
  induction w with
  | nil => simp [splitComma]
  | cons c w ih =>
    have hc : c ≠ ',' := fun e => h (by simp [e])
    have hw : ',' ∉ w := fun e => h (List.mem_cons_of_mem _ e)
    simp only [List.cons_append, splitComma, hc, if_false, ih hw]

/-- `split(',')` undoes `join(",")` on a NON-EMPTY list of comma-free words
(`[].join(",") = ""` but `"".split(',') = [""]`) -/
theorem splitComma_joinComma : ∀ (ws : List (List Char)), ws ≠ [] → (∀ w ∈ ws, ',' ∉ w) →
    splitComma (joinComma ws) = ws
  | [], h, _ => absurd rfl h
  | [w], _, h => by
    simp only [joinComma]
    exact splitComma_single w (h w (by simp))
  | w :: w' :: ws, _, h => by
    simp only [joinComma]
    rw [splitComma_append w _ (h w (by simp)),
      splitComma_joinComma (w' :: ws) (by simp) (fun x hx => h x (List.mem_cons_of_mem _ hx))]

/-- the exported region list is read back as the list of the map's keys -/
theorem regions_roundtrip (db : Db) (hne : db ≠ []) (hc : ∀ p ∈ db, ',' ∉ p.1.toList) :
    (splitComma (regionNames db).toList).map String.ofList = db.map (·.1) := by
  unfold regionNames
  rw [String.toList_ofList, splitComma_joinComma]
  · rw [List.map_map]
    apply List.map_congr_left
    intro p _
    simp [String.ofList_toList]
  · intro e
    apply hne
    simpa using e
  · intro w hw
    simp only [List.mem_map] at hw
    obtain ⟨p, hp, rfl⟩ := hw
    exact hc p hp

/-! ## the `BTreeMap` grouping -/

/-- the keys are strictly increasing (`BTreeMap` iteration order) -/
def KeysSorted (db : Db) : Prop := (db.map (·.1)).Pairwise (· < ·)

theorem lt_of_not_lt_of_ne {a b : String} (h1 : ¬ a < b) (h2 : a ≠ b) : b < a := by
  apply Classical.byContradiction
  intro h3
  exact h2 (String.le_antisymm (String.not_lt.mp h3) (String.not_lt.mp h1))

theorem addLine_keys (db : Db) (r : String) (d : Date) (k : String) :
    k ∈ (addLine db r d).map (·.1) ↔ k = r ∨ k ∈ db.map (·.1) := by
  induction db with
  | nil => simp [addLine]
  | cons p tl ih =>
    obtain ⟨a, ds⟩ := p
    unfold addLine
    split
    · rename_i e; subst e; simp
    · split
      · simp
      · simp only [List.map_cons, List.mem_cons, ih]
        constructor
        · rintro (h | h | h) <;> simp [h]
        · rintro (h | h | h) <;> simp [h]

theorem addLine_sorted (db : Db) (r : String) (d : Date) (h : KeysSorted db) :
    KeysSorted (addLine db r d) := by
  induction db with
  | nil => simp [addLine, KeysSorted]
  | cons p tl ih =>
    obtain ⟨a, ds⟩ := p
    unfold KeysSorted at h
    simp only [List.map_cons, List.pairwise_cons] at h
    obtain ⟨h1, h2⟩ := h
    unfold addLine
    split
    · unfold KeysSorted
      simp only [List.map_cons, List.pairwise_cons]
      exact ⟨h1, h2⟩
    · rename_i hne
      split
      · rename_i hlt
        unfold KeysSorted
        simp only [List.map_cons, List.pairwise_cons, List.mem_cons]
        refine ⟨?_, h1, h2⟩
        rintro x (rfl | hx)
        · exact hlt
        · exact String.lt_trans hlt (h1 x hx)
      · rename_i hnlt
        unfold KeysSorted
        simp only [List.map_cons, List.pairwise_cons]
        refine ⟨?_, ih h2⟩
        intro x hx
        rw [addLine_keys] at hx
        rcases hx with rfl | hx
        · exact lt_of_not_lt_of_ne hnlt hne
        · exact h1 x hx

/-- `(k, x)` is recorded (`x` is among the dates of key `k`) -/
def Has (db : Db) (k : String) (x : Date) : Prop := ∃ ds, (k, ds) ∈ db ∧ x ∈ ds

theorem has_nil (k : String) (x : Date) : ¬ Has [] k x := by simp [Has]

theorem has_cons (a : String) (ds : List Date) (tl : Db) (k : String) (x : Date) :
    Has ((a, ds) :: tl) k x ↔ (k = a ∧ x ∈ ds) ∨ Has tl k x := by
  unfold Has
  constructor
  · rintro ⟨ds', hm, hx⟩
    rcases List.mem_cons.mp hm with e | hm
    · cases e; exact Or.inl ⟨rfl, hx⟩
    · exact Or.inr ⟨ds', hm, hx⟩
  · rintro (⟨rfl, hx⟩ | ⟨ds', hm, hx⟩)
    · exact ⟨ds, List.mem_cons_self, hx⟩
    · exact ⟨ds', List.mem_cons_of_mem _ hm, hx⟩

theorem addLine_has (db : Db) (r : String) (d : Date) (k : String) (x : Date) :
    Has (addLine db r d) k x ↔ (k = r ∧ x = d) ∨ Has db k x := by
  induction db with
  | nil => simp [addLine, has_cons, has_nil]
  | cons p tl ih =>
    obtain ⟨a, ds⟩ := p
    unfold addLine
    split
    · rename_i e
      subst e
      simp only [has_cons, List.mem_append, List.mem_singleton]
      constructor
      · rintro (⟨h1, h2 | h2⟩ | h)
        · exact Or.inr (Or.inl ⟨h1, h2⟩)
        · exact Or.inl ⟨h1, h2⟩
        · exact Or.inr (Or.inr h)
      · rintro (⟨h1, h2⟩ | ⟨h1, h2⟩ | h)
        · exact Or.inl ⟨h1, Or.inr h2⟩
        · exact Or.inl ⟨h1, Or.inl h2⟩
        · exact Or.inr h
    · split
      · simp only [has_cons, List.mem_singleton]
      · simp only [has_cons, ih]
        constructor
        · rintro (h | h | h)
          · exact Or.inr (Or.inl h)
          · exact Or.inl h
          · exact Or.inr (Or.inr h)
        · rintro (h | h | h)
          · exact Or.inr (Or.inl h)
          · exact Or.inl h
          · exact Or.inr (Or.inr h)

theorem addLine_ne_nil (db : Db) (r : String) (d : Date) : addLine db r d ≠ [] := by
  cases db with
  | nil => simp [addLine]
  | cons p tl =>
    obtain ⟨a, ds⟩ := p
    unfold addLine
    split
    · simp
    · split <;> simp

theorem foldl_addLine (lines : List Line) : ∀ (acc : Db), KeysSorted acc →
    KeysSorted (lines.foldl (fun db l => addLine db l.1 l.2) acc) ∧
    (∀ k, k ∈ (lines.foldl (fun db l => addLine db l.1 l.2) acc).map (·.1) ↔
        k ∈ acc.map (·.1) ∨ k ∈ lines.map (·.1)) ∧
    (∀ k x, Has (lines.foldl (fun db l => addLine db l.1 l.2) acc) k x ↔ Has acc k x ∨ (k, x) ∈ lines) ∧
    ((acc ≠ [] ∨ lines ≠ []) → lines.foldl (fun db l => addLine db l.1 l.2) acc ≠ []) := by
  induction lines with
  | nil => intro acc h; simp [h]
  | cons l ls ih =>
    intro acc h
    obtain ⟨i1, i2, i3, i4⟩ := ih (addLine acc l.1 l.2) (addLine_sorted acc l.1 l.2 h)
    simp only [List.foldl_cons]
    refine ⟨i1, ?_, ?_, ?_⟩
    · intro k
      rw [i2, addLine_keys]
      simp only [List.map_cons, List.mem_cons]
      constructor
      · rintro ((h | h) | h) <;> simp [h]
      · rintro (h | h | h) <;> simp [h]
    · intro k x
      rw [i3, addLine_has]
      simp only [List.mem_cons]
      constructor
      · rintro ((⟨h1, h2⟩ | h) | h)
        · exact Or.inr (Or.inl (by rw [h1, h2]))
        · exact Or.inl h
        · exact Or.inr (Or.inr h)
      · rintro (h | h | h)
        · exact Or.inl (Or.inr h)
        · exact Or.inl (Or.inl ⟨by rw [← h], by rw [← h]⟩)
        · exact Or.inr h
    · intro _
      exact i4 (Or.inl (addLine_ne_nil _ _ _))

/-- the `BTreeMap` built from the lines: strictly increasing keys, the keys are the regions of the
lines, `(region, date)` is recorded iff it is a line, non-empty iff there is a line -/
theorem group_spec (lines : List Line) :
    KeysSorted (group lines) ∧
    (∀ k, k ∈ (group lines).map (·.1) ↔ k ∈ lines.map (·.1)) ∧
    (∀ k x, Has (group lines) k x ↔ (k, x) ∈ lines) ∧
    (lines ≠ [] → group lines ≠ []) := by
  obtain ⟨h1, h2, h3, h4⟩ := foldl_addLine lines [] (by simp [KeysSorted])
  refine ⟨h1, ?_, ?_, ?_⟩
  · intro k; rw [group, h2]; simp
  · intro k x; rw [group, h3]; simp [has_nil]
  · intro h; exact h4 (Or.inr h)

theorem sorted_nodup (db : Db) (h : KeysSorted db) : (db.map (·.1)).Nodup := by
  unfold KeysSorted at h
  exact h.imp (fun {a b} hab e => by subst e; exact String.lt_irrefl _ hab)

/-- with distinct keys, a key has one date list -/
theorem nodup_unique : ∀ (db : Db), (db.map (·.1)).Nodup → ∀ k ds₁ ds₂,
    (k, ds₁) ∈ db → (k, ds₂) ∈ db → ds₁ = ds₂ := by
  intro db
  induction db with
  | nil => intro _ k ds₁ ds₂ h; cases h
  | cons p tl ih =>
    intro hn k ds₁ ds₂ h1 h2
    simp only [List.map_cons, List.nodup_cons] at hn
    obtain ⟨hn1, hn2⟩ := hn
    rcases List.mem_cons.mp h1 with e1 | m1
    · rcases List.mem_cons.mp h2 with e2 | m2
      · rw [← e1] at e2; cases e2; rfl
      · exfalso; apply hn1; rw [← e1]; exact List.mem_map_of_mem (f := (·.1)) m2
    · rcases List.mem_cons.mp h2 with e2 | m2
      · exfalso; apply hn1; rw [← e2]; exact List.mem_map_of_mem (f := (·.1)) m1
      · exact ih hn2 k ds₁ ds₂ m1 m2

/-! ## write then read, region by region -/

/-- what `decode` keeps of one `BTreeMap` entry: the country its key parses to and its calendar -/
def entry (p : String × List Date) : Option (String × CompactCalendar) :=
  match Country.fromStr p.1, fromList p.2 with
  | some c, .ok cal => some (c, cal)
  | _, _ => none

/-- induction over the regions with C15's framing theorem: each `deserialize` returns the calendar
`serialize`d for that region and leaves the reader at the start of the next one — also for regions
that are not country codes (their calendar is read and dropped) -/
theorem decodeRegions_encode : ∀ (db : Db) (rest : List Nat),
    (∀ p ∈ db, ∀ d ∈ p.2, d.valid = true) →
    ∃ bs, encodeDb db = .ok bs ∧
      decodeRegions (db.map (·.1)) (bs ++ rest) = .ok (db.filterMap entry) := by
  intro db
  induction db with
  | nil => intro rest _; exact ⟨[], rfl, rfl⟩
  | cons p tl ih =>
    intro rest hv
    obtain ⟨r, ds⟩ := p
    obtain ⟨c, hc, hinv, _⟩ := fromList_ok ds (hv (r, ds) List.mem_cons_self)
    obtain ⟨bs, hb, hd⟩ := ih rest (fun q hq => hv q (List.mem_cons_of_mem _ hq))
    refine ⟨serialize c ++ bs, ?_, ?_⟩
    · simp only [encodeDb, hc, hb]
    · simp only [List.map_cons, decodeRegions, List.append_assoc,
        roundtrip c (bs ++ rest) hinv.repr, hd, List.filterMap_cons, entry, hc]
      cases Country.fromStr r <;> rfl

/-! ## the pair list as a `HashMap` -/

theorem mapGet_mem : ∀ (m : CountryMap) (c : String) (v : CompactCalendar),
    mapGet m c = some v → (c, v) ∈ m := by
  intro m
  induction m with
  | nil => intro c v h; cases h
  | cons p tl ih =>
    intro c v h
    obtain ⟨k, w⟩ := p
    simp only [mapGet] at h
    split at h
    · rename_i v' hv'
      cases h
      exact List.mem_cons_of_mem _ (ih c _ hv')
    · split at h
      · rename_i e; cases h; subst e; exact List.mem_cons_self
      · cases h

theorem mapGet_none : ∀ (m : CountryMap) (c : String),
    mapGet m c = none ↔ ∀ v, (c, v) ∉ m := by
  intro m
  induction m with
  | nil => intro c; simp [mapGet]
  | cons p tl ih =>
    intro c
    obtain ⟨k, w⟩ := p
    simp only [mapGet]
    constructor
    · intro h v hm
      split at h
      · cases h
      · rename_i hn
        split at h
        · cases h
        · rename_i hk
          rcases List.mem_cons.mp hm with e | hm
          · cases e; exact hk rfl
          · exact (ih c).mp hn v hm
    · intro h
      have h1 : mapGet tl c = none := (ih c).mpr (fun v hv => h v (List.mem_cons_of_mem _ hv))
      have h2 : k ≠ c := fun e => h w (by rw [e]; exact List.mem_cons_self)
      simp [h1, h2]

/-- a key bound to a single value reads that value -/
theorem mapGet_unique (m : CountryMap) (c : String) (v : CompactCalendar)
    (h1 : (c, v) ∈ m) (h2 : ∀ v', (c, v') ∈ m → v' = v) : mapGet m c = some v := by
  cases h : mapGet m c with
  | none => exact absurd h1 ((mapGet_none m c).mp h v)
  | some v' => rw [h2 v' (mapGet_mem m c v' h)]

theorem mem_filterMap_entry (db : Db) (c : String) (cal : CompactCalendar) :
    (c, cal) ∈ db.filterMap entry ↔
      ∃ r ds, (r, ds) ∈ db ∧ Country.fromStr r = some c ∧ fromList ds = .ok cal := by
  simp only [List.mem_filterMap]
  constructor
  · rintro ⟨⟨r, ds⟩, hm, he⟩
    refine ⟨r, ds, hm, ?_⟩
    unfold entry at he
    split at he
    · rename_i h1 h2
      simp only [Option.some.injEq, Prod.mk.injEq] at he
      obtain ⟨rfl, rfl⟩ := he
      exact ⟨h1, h2⟩
    · cases he
  · rintro ⟨r, ds, hm, h1, h2⟩
    exact ⟨(r, ds), hm, by simp [entry, h1, h2]⟩

/-- reading the decoded map at a country: the calendar of THE region that parses to it.
Uses the injectivity of `FromStr` on its domain (decided on the generated tables) and the
distinctness of the `BTreeMap` keys. -/
theorem mapGet_entries (db : Db) (hn : (db.map (·.1)).Nodup) (c : String) (cal : CompactCalendar) :
    mapGet (db.filterMap entry) c = some cal ↔
      ∃ r ds, (r, ds) ∈ db ∧ Country.fromStr r = some c ∧ fromList ds = .ok cal := by
  constructor
  · intro h
    exact (mem_filterMap_entry db c cal).mp (mapGet_mem _ _ _ h)
  · intro h
    apply mapGet_unique _ _ _ ((mem_filterMap_entry db c cal).mpr h)
    intro v' hv'
    obtain ⟨r, ds, hm, h1, h2⟩ := h
    obtain ⟨r', ds', hm', h1', h2'⟩ := (mem_filterMap_entry db c v').mp hv'
    have e := fromStr_injective h1 h1'
    subst e
    have e2 := nodup_unique db hn r ds ds' hm hm'
    subst e2
    rw [h2] at h2'
    exact (Except.ok.inj h2').symm

/-! ## reading the text file -/

theorem parseDate_valid (s : List Char) (d : Date) (h : parseDate s = .ok d) : d.valid = true := by
  unfold parseDate at h
  split at h
  · split at h
    · simp only at h
      split at h
      · rename_i hv
        cases h
        exact hv
      · cases h
    · cases h
  · cases h

theorem parseLine_valid (l : String) (x : Line) (h : parseLine l = .ok x) : x.2.valid = true := by
  unfold parseLine at h
  simp only at h
  split at h
  · cases h
  · split at h
    · cases h
    · rename_i d hd
      cases h
      exact parseDate_valid _ _ hd

theorem mapM_valid : ∀ (ls : List String) (xs : List Line), ls.mapM parseLine = .ok xs →
    ∀ x ∈ xs, x.2.valid = true := by
  intro ls
  induction ls with
  | nil =>
    intro xs h
    simp only [List.mapM_nil, pure, Except.pure] at h
    cases h
    intro x hx; cases hx
  | cons l ls ih =>
    intro xs h
    simp only [List.mapM_cons, bind, Except.bind, pure, Except.pure] at h
    split at h
    · cases h
    · rename_i y hy
      split at h
      · cases h
      · rename_i ys hys
        cases h
        intro x hx
        rcases List.mem_cons.mp hx with rfl | hx
        · exact parseLine_valid l _ hy
        · exact ih ys hys x hx

/-- every date the model reads from a file is a valid date -/
theorem parseLines_valid (ls : List String) (xs : List Line) (h : parseLines ls = .ok xs) :
    ∀ x ∈ xs, x.2.valid = true := mapM_valid ls xs h

end OH.Proofs.HolidayDb
