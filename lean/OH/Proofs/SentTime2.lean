import OH.Proofs.SentTime1
/-
C05, time selector of sentences, part 2: `timespan` on a rendered `Span`.

The rule is the ordered choice `pre k1 | pre k2 | pre k3 | pre k4 | alt5` of SynTime2 (`g_timespan_eq`,
`rfl` against the generated grammar) where `pre K = time ~ space? ~ "-" ~ K` and
   k1 = extended_time ~ space? ~ "/" ~ space? ~ hour_minutes        (NO space? after the `-`)
   k2 = extended_time ~ space? ~ "/" ~ space? ~ minute              (NO space? after the `-`)
   k3 = space? ~ extended_time ~ timespan_plus
   k4 = space? ~ extended_time
   alt5 = time ~ timespan_plus.
The rendered shapes, with their optional single spaces:
   `a␣?-b␣?/␣?HH:MM` (k1)    `a␣?-b␣?/␣?MM` (k2; k1 fails: no `:` after the two digits)
   `a␣?-␣?b+` (k3; k1, k2 fail: on the space after `-`, or on the `+`)
   `a␣?-␣?b` (k4; k1, k2 fail: on the space after `-`, or on what follows; k3 fails: no `+` follows)
   `a+` (alt5; the others fail: no `-` after the time).
-/
namespace OH.Proofs.Sent
open OH.Model OH.Model.Peg OH.Model.Parser OH.Generated.Grammar OH.Proofs.Syn
open OH.Spec.Sent (Clock EvOff Var Start Stop Period Span eventName sp commaList)

/-! ### small pieces -/

theorem run_optSpace_sp (q : Bool) (b : Bool) (c : Char) (r : List Char) (h : ' ' ≠ c) :
    run optSpace q (sp b ++ c :: r) = some ⟨[], sp b, c :: r⟩ := by
  cases b
  · simpa [sp] using run_optSpace_cons q c r h
  · simpa [sp] using run_optSpace_space q (c :: r)

theorem run_optSpace_stop (q : Bool) (s : Bool) (b : Stop) (hb : b.wf = true) (inp : List Char) :
    run optSpace q (sp s ++ (b.render ++ inp)) = some ⟨[], sp s, b.render ++ inp⟩ := by
  obtain ⟨c, cs, e, hc⟩ := stop_head b hb
  rw [e]
  exact run_optSpace_sp q s c _ (timeStart_ne_space c hc)

/-- `extended_time` does not start with a space: this is why alternatives 1 and 2 fail on `a- b` -/
theorem run_ext_space (r : List Char) : run g_extended_time false (' ' :: r) = none := by
  simp [g_extended_time, g_extended_hour_minutes, g_extended_hour, g_variable_time, g_event, g_dawn,
    g_sunrise, g_sunset, g_dusk, peg]

theorem run_pre_sp (K : G) (a : Start) (ha : a.wf = true) (s1 : Bool) (inp : List Char) :
    run (pre K) false (a.render ++ (sp s1 ++ '-' :: inp)) =
      match run K false inp with
      | none => none
      | some r => some ⟨startTree a :: r.kids, a.render ++ (sp s1 ++ '-' :: r.eaten), r.rest⟩ := by
  rcases h : run K false inp with _ | r <;>
    simp [pre, peg, run_start a ha, run_optSpace_sp, h]

theorem run_pre_plus_sp (K : G) (a : Start) (ha : a.wf = true) (inp : List Char) :
    run (pre K) false (a.render ++ '+' :: inp) = none := by
  simp [pre, peg, run_start a ha, run_optSpace_cons]

theorem run_tailRep_sp (X : G) (s2 s3 : Bool) (c : Char) (cs : List Char) (hc : ' ' ≠ c) :
    run (tailRep X) false (sp s2 ++ '/' :: (sp s3 ++ c :: cs)) =
      match run X false (c :: cs) with
      | none => none
      | some r => some ⟨r.kids, sp s2 ++ '/' :: (sp s3 ++ r.eaten), r.rest⟩ := by
  rcases h : run X false (c :: cs) with _ | r <;>
    simp [tailRep, peg, run_optSpace_sp, hc, h]

/-! ### the period of a repetition -/

def perTree : Period → T
  | .minutes m => .node .minute (OH.Spec.Sent.pad2 m) []
  | .clock o => offTree o

theorem run_tailRep_hm_off (s2 s3 : Bool) (o : EvOff) (ho : o.wf = true) (rest : List Char) :
    run (tailRep g_hour_minutes) false (sp s2 ++ '/' :: (sp s3 ++ (o.render ++ rest))) =
      some ⟨[offTree o], sp s2 ++ '/' :: (sp s3 ++ o.render), rest⟩ := by
  obtain ⟨c, cs, e, hc⟩ := off_head o ho
  have h := run_hm_off o ho rest
  rw [e] at h ⊢
  simp only [List.cons_append] at h ⊢
  rw [run_tailRep_sp _ s2 s3 c _ (timeStart_ne_space c hc), h]

theorem run_tailRep_hm_minutes (s2 s3 : Bool) (m : Nat) (hm : m ≤ 59) (rest : List Char)
    (hr : ∀ r, rest ≠ ':' :: r) :
    run (tailRep g_hour_minutes) false (sp s2 ++ '/' :: (sp s3 ++ (OH.Spec.Sent.pad2 m ++ rest))) = none := by
  have h := run_hour_minutes_pad2 m (by omega) rest hr
  rw [clkpad2_eq m (by omega)]
  rw [pad2_lt100 m (by omega)] at h ⊢
  simp only [List.cons_append, List.nil_append] at h ⊢
  rw [run_tailRep_sp _ s2 s3 _ _ (dc_ne_space (m / 10) (by omega)), h]

theorem run_tailRep_minute_minutes (s2 s3 : Bool) (m : Nat) (hm : m ≤ 59) (rest : List Char) :
    run (tailRep g_minute) false (sp s2 ++ '/' :: (sp s3 ++ (OH.Spec.Sent.pad2 m ++ rest))) =
      some ⟨[.node .minute (OH.Spec.Sent.pad2 m) []], sp s2 ++ '/' :: (sp s3 ++ OH.Spec.Sent.pad2 m), rest⟩ := by
  have h := run_minute false m (by omega) rest
  rw [clkpad2_eq m (by omega)]
  rw [pad2_lt100 m (by omega)] at h ⊢
  simp only [List.cons_append, List.nil_append] at h ⊢
  rw [run_tailRep_sp _ s2 s3 _ _ (dc_ne_space (m / 10) (by omega)), h]
  rfl

/-! ### the four continuations after `time ~ space? ~ "-"` on the three shapes with a `-` -/

-- shape `b␣?/␣?HH:MM`
theorem run_k1_rep_clock (b : Stop) (hb : b.wf = true) (s2 s3 : Bool) (o : EvOff) (ho : o.wf = true)
    (rest : List Char) :
    run k1 false (b.render ++ (sp s2 ++ '/' :: (sp s3 ++ (o.render ++ rest)))) =
      some ⟨[stopTree b, offTree o], b.render ++ (sp s2 ++ '/' :: (sp s3 ++ o.render)), rest⟩ := by
  simp [k1, peg, run_stop b hb, run_tailRep_hm_off s2 s3 o ho rest]

-- shape `b␣?/␣?MM`
theorem run_k1_rep_minutes (b : Stop) (hb : b.wf = true) (s2 s3 : Bool) (m : Nat) (hm : m ≤ 59)
    (rest : List Char) (hr : ∀ r, rest ≠ ':' :: r) :
    run k1 false (b.render ++ (sp s2 ++ '/' :: (sp s3 ++ (OH.Spec.Sent.pad2 m ++ rest)))) = none := by
  simp [k1, peg, run_stop b hb, run_tailRep_hm_minutes s2 s3 m hm rest hr]

theorem run_k2_rep_minutes (b : Stop) (hb : b.wf = true) (s2 s3 : Bool) (m : Nat) (hm : m ≤ 59)
    (rest : List Char) :
    run k2 false (b.render ++ (sp s2 ++ '/' :: (sp s3 ++ (OH.Spec.Sent.pad2 m ++ rest)))) =
      some ⟨[stopTree b, .node .minute (OH.Spec.Sent.pad2 m) []],
            b.render ++ (sp s2 ++ '/' :: (sp s3 ++ OH.Spec.Sent.pad2 m)), rest⟩ := by
  simp [k2, peg, run_stop b hb, run_tailRep_minute_minutes s2 s3 m hm rest]

-- shape `␣?b+`
theorem run_k1_open_sp (s2 : Bool) (b : Stop) (hb : b.wf = true) (rest : List Char) :
    run k1 false (sp s2 ++ (b.render ++ '+' :: rest)) = none := by
  cases s2
  · simp [sp, k1, peg, run_stop b hb, run_tailRep_plus]
  · simp [sp, k1, peg, run_ext_space]

theorem run_k2_open_sp (s2 : Bool) (b : Stop) (hb : b.wf = true) (rest : List Char) :
    run k2 false (sp s2 ++ (b.render ++ '+' :: rest)) = none := by
  cases s2
  · simp [sp, k2, peg, run_stop b hb, run_tailRep_plus]
  · simp [sp, k2, peg, run_ext_space]

theorem run_k3_open_sp (s2 : Bool) (b : Stop) (hb : b.wf = true) (rest : List Char) :
    run k3 false (sp s2 ++ (b.render ++ '+' :: rest)) =
      some ⟨[stopTree b, plusTree], sp s2 ++ (b.render ++ ['+']), rest⟩ := by
  simp [k3, plusTree, peg, run_optSpace_stop false s2 b hb, run_stop b hb, g_timespan_plus]

-- shape `␣?b`
theorem run_k1_plain_sp (s2 : Bool) (b : Stop) (hb : b.wf = true) (rest : List Char) (hf : FollowSpan rest) :
    run k1 false (sp s2 ++ (b.render ++ rest)) = none := by
  cases s2
  · simp [sp, k1, peg, run_stop b hb, run_tailRep_follow _ _ rest hf]
  · simp [sp, k1, peg, run_ext_space]

theorem run_k2_plain_sp (s2 : Bool) (b : Stop) (hb : b.wf = true) (rest : List Char) (hf : FollowSpan rest) :
    run k2 false (sp s2 ++ (b.render ++ rest)) = none := by
  cases s2
  · simp [sp, k2, peg, run_stop b hb, run_tailRep_follow _ _ rest hf]
  · simp [sp, k2, peg, run_ext_space]

theorem run_k3_plain_sp (s2 : Bool) (b : Stop) (hb : b.wf = true) (rest : List Char) (hf : FollowSpan rest) :
    run k3 false (sp s2 ++ (b.render ++ rest)) = none := by
  have : run g_timespan_plus false rest = none := by
    cases rest with
    | nil => simp [g_timespan_plus, peg]
    | cons c r =>
      have : '+' ≠ c := by intro h; subst h; exact hf.2.1 r rfl
      simp [g_timespan_plus, peg, this]
  simp [k3, peg, run_optSpace_stop false s2 b hb, run_stop b hb, this]

theorem run_k4_plain_sp (s2 : Bool) (b : Stop) (hb : b.wf = true) (rest : List Char) :
    run k4 false (sp s2 ++ (b.render ++ rest)) = some ⟨[stopTree b], sp s2 ++ b.render, rest⟩ := by
  simp [k4, peg, run_optSpace_stop false s2 b hb, run_stop b hb]

/-! ### `timespan` on a rendered span -/

def spanKidsS : Span → List T
  | .from_ a => [startTree a, plusTree]
  | .range a _ _ b plus => if plus then [startTree a, stopTree b, plusTree] else [startTree a, stopTree b]
  | .repeated a _ b _ _ p => [startTree a, stopTree b, perTree p]

/-- the pair of a rendered span -/
def spanTreeS (s : Span) : T := .node .timespan s.render (spanKidsS s)

theorem run_span (s : Span) (h : s.wf = true) (rest : List Char) (hf : FollowSpan rest) :
    run g_timespan false (s.render ++ rest) = some ⟨[spanTreeS s], s.render, rest⟩ := by
  cases s with
  | from_ a =>
    simp only [Span.wf] at h
    simp only [spanTreeS, spanKidsS, Span.render, List.append_assoc, List.cons_append, List.nil_append]
    simp [g_timespan_eq, run_rule, run_alt, run_seq, run_pre_plus_sp _ a h, alt5, run_start a h, plusTree,
      g_timespan_plus, peg]
  | range a s1 s2 b plus =>
    simp only [Span.wf, Bool.and_eq_true] at h
    obtain ⟨ha, hb⟩ := h
    cases plus with
    | true =>
      simp only [spanTreeS, spanKidsS, Span.render, if_true, List.append_assoc, List.cons_append,
        List.nil_append]
      simp [g_timespan_eq, run_rule, run_alt, run_pre_sp _ a ha, run_k1_open_sp s2 b hb rest,
        run_k2_open_sp s2 b hb rest, run_k3_open_sp s2 b hb rest]
    | false =>
      simp only [spanTreeS, spanKidsS, Span.render, List.append_assoc, List.cons_append,
        List.nil_append, Bool.false_eq_true, if_false]
      simp [g_timespan_eq, run_rule, run_alt, run_pre_sp _ a ha, run_k1_plain_sp s2 b hb rest hf,
        run_k2_plain_sp s2 b hb rest hf, run_k3_plain_sp s2 b hb rest hf, run_k4_plain_sp s2 b hb rest]
  | repeated a s1 b s2 s3 p =>
    simp only [Span.wf, Bool.and_eq_true] at h
    obtain ⟨⟨ha, hb⟩, hp⟩ := h
    cases p with
    | minutes m =>
      simp only [Period.wf, decide_eq_true_eq] at hp
      simp only [spanTreeS, spanKidsS, perTree, Span.render, Period.render, List.append_assoc,
        List.cons_append, List.nil_append]
      simp [g_timespan_eq, run_rule, run_alt, run_pre_sp _ a ha,
        run_k1_rep_minutes b hb s2 s3 m hp rest hf.1, run_k2_rep_minutes b hb s2 s3 m hp rest]
    | clock o =>
      simp only [Period.wf] at hp
      simp only [spanTreeS, spanKidsS, perTree, Span.render, Period.render, List.append_assoc,
        List.cons_append, List.nil_append]
      simp [g_timespan_eq, run_rule, run_alt, run_pre_sp _ a ha, run_k1_rep_clock b hb s2 s3 o hp rest]

theorem build_minute_sent (m : Nat) (h : m ≤ 59) :
    buildMinute (.node .minute (OH.Spec.Sent.pad2 m) []) = .ok (m : Int) := by
  rw [clkpad2_eq m (by omega)]
  exact build_repTree_minute m (by omega)

theorem build_span (s : Span) (h : s.wf = true) : buildTimespan (spanTreeS s) = .ok s.denote := by
  cases s with
  | from_ a =>
    simp only [Span.wf] at h
    have bs := build_start a h
    simp [buildTimespan, spanTreeS, spanKidsS, Span.denote, plusTree, assertRule, time_rule_node,
      time_kids_node, bs, bind, Except.bind]
  | range a s1 s2 b plus =>
    simp only [Span.wf, Bool.and_eq_true] at h
    obtain ⟨ha, hb⟩ := h
    have bs := build_start a ha
    have be := build_stop b hb
    have re := stopTree_rule b
    cases plus <;>
      simp [buildTimespan, spanTreeS, spanKidsS, Span.denote, plusTree, assertRule, time_rule_node,
        time_kids_node, bs, be, re, bind, Except.bind]
  | repeated a s1 b s2 s3 p =>
    simp only [Span.wf, Bool.and_eq_true] at h
    obtain ⟨⟨ha, hb⟩, hp⟩ := h
    have bs := build_start a ha
    have be := build_stop b hb
    have re := stopTree_rule b
    cases p with
    | minutes m =>
      simp only [Period.wf, decide_eq_true_eq] at hp
      have bm := build_minute_sent m hp
      simp [buildTimespan, spanTreeS, spanKidsS, perTree, Span.denote, Period.mins, assertRule,
        time_rule_node, time_kids_node, bs, be, re, bm, bind, Except.bind]
    | clock o =>
      simp only [Period.wf] at hp
      have bm := build_hm_dur_off o hp
      have ro := offTree_rule o
      simp [buildTimespan, spanTreeS, spanKidsS, perTree, Span.denote, Period.mins, assertRule,
        time_rule_node, time_kids_node, bs, be, re, ro, bm, bind, Except.bind]

/-- **one span of a sentence**, in a context where no `:`, `+`, `/`, ` /` follows -/
theorem parses_span (s : Span) (h : s.wf = true) (rest : List Char) (hf : FollowSpan rest) :
    ParsesTo g_timespan buildTimespan s.render rest s.denote :=
  ⟨spanTreeS s, run_span s h rest hf, build_span s h⟩

/-- a rendered span starts with a digit, `(`, `d` or `s` -/
theorem span_head (s : Span) (h : s.wf = true) : ∃ c cs, s.render = c :: cs ∧ TimeStart c := by
  have key : ∀ (a : Start) (tl : List Char), a.wf = true → ∃ c cs, a.render ++ tl = c :: cs ∧ TimeStart c := by
    intro a tl ha
    obtain ⟨c, cs, e, hc⟩ := start_head a ha
    exact ⟨c, cs ++ tl, by rw [e]; rfl, hc⟩
  cases s with
  | from_ a => exact key a _ h
  | range a s1 s2 b plus =>
    simp only [Span.wf, Bool.and_eq_true] at h
    simp only [Span.render, List.append_assoc]
    exact key a _ h.1
  | repeated a s1 b s2 s3 p =>
    simp only [Span.wf, Bool.and_eq_true] at h
    simp only [Span.render, List.append_assoc]
    exact key a _ h.1.1

end OH.Proofs.Sent
