import OH.Proofs.SentTime2
/-
C05, time selector of sentences, part 3: the `,`-separated list of spans.
  `parses_span`  (SentTime2)   one span, when no `:`, `+`, `/`, ` /` follows (`FollowSpan`)
  `parses_spans`               `time_selector` on `commaList Span.render ts`, when moreover a following
                               `,` does not start another span (`FollowTimeSel`, both from SynTime*)
  `spans_head`                 the text starts with a digit, `(`, `d` or `s` (`TimeStart`).
-/
namespace OH.Proofs.Sent
open OH.Model OH.Model.Peg OH.Model.Parser OH.Generated.Grammar OH.Proofs.Syn
open OH.Spec.Sent (Clock EvOff Var Start Stop Period Span eventName sp commaList)

/-- the rendered tail `,b,c` of a list -/
def spanTailS : List Span → List Char
  | [] => []
  | s :: ss => ',' :: (s.render ++ spanTailS ss)

theorem commaList_span (s : Span) (ss : List Span) :
    commaList Span.render (s :: ss) = s.render ++ spanTailS ss := by
  induction ss generalizing s with
  | nil => simp [commaList, spanTailS]
  | cons u us ih => simp [commaList, spanTailS, ih u]

theorem followSpan_tailS (ss : List Span) (rest : List Char) (hf : FollowSpan rest) :
    FollowSpan (spanTailS ss ++ rest) := by
  cases ss with
  | nil => simpa [spanTailS] using hf
  | cons u us => exact followSpan_cons _ _ (by decide) (by decide) (by decide) (by decide)

theorem run_span_star (ss : List Span) (hok : ∀ s ∈ ss, s.wf = true) (rest : List Char)
    (hf : FollowTimeSel rest) :
    run (.star (.seq (.str [',']) g_timespan) : G) false (spanTailS ss ++ rest) =
      some ⟨ss.map spanTreeS, spanTailS ss, rest⟩ := by
  induction ss with
  | nil =>
    simpa [spanTailS, R.nil] using run_star_none (run_sep_timespan_none rest hf)
  | cons s ss ih =>
    have h1 : run (.seq (.str [',']) g_timespan : G) false (spanTailS (s :: ss) ++ rest) =
        some ⟨[spanTreeS s], ',' :: s.render, spanTailS ss ++ rest⟩ := by
      have := run_span s (hok s (by simp)) (spanTailS ss ++ rest) (followSpan_tailS ss rest hf.1)
      simp [spanTailS, peg, this]
    have := run_star_some h1 (by simp) (ih (fun u hu => hok u (by simp [hu])))
    simpa [R.append, spanTailS] using this

theorem mapM_build_span (ss : List Span) (hok : ∀ s ∈ ss, s.wf = true) :
    (ss.map spanTreeS).mapM buildTimespan = .ok (ss.map Span.denote) := by
  induction ss with
  | nil => rfl
  | cons s ss ih =>
    simp [List.mapM_cons, build_span s (hok s (by simp)), ih (fun u hu => hok u (by simp [hu])),
      bind, Except.bind, pure, Except.pure]

/-- **the time selector of a sentence**: a non-empty list of well-formed spans, in a context where the
list cannot go on, parses to the list of the spans they denote -/
theorem parses_spans (ts : List Span) (hne : ts ≠ []) (h : ts.all Span.wf = true) (rest : List Char)
    (hf : FollowTimeSel rest) :
    ParsesTo g_time_selector buildTimeSelector (commaList Span.render ts) rest (ts.map Span.denote) := by
  have hok : ∀ s ∈ ts, s.wf = true := by simpa [List.all_eq_true] using h
  cases ts with
  | nil => exact absurd rfl hne
  | cons s ss =>
    refine ParsesTo.mk' .time_selector ((s :: ss).map spanTreeS) ?_ ?_
    · rw [commaList_span]
      have h1 := run_span s (hok s (by simp)) (spanTailS ss ++ rest) (followSpan_tailS ss rest hf.1)
      have h2 := run_span_star ss (fun u hu => hok u (by simp [hu])) rest hf
      simp only [List.append_assoc]
      simp [g_time_selector, run_rule, run_seq, h1, h2, R.append]
    · have := mapM_build_span (s :: ss) hok
      simp only [buildTimeSelector, assertRule, time_rule_node, time_kids_node, reduceIte, bind,
        Except.bind, this]

/-- the rendered time selector starts with a digit, `(`, `d` or `s` -/
theorem spans_head (ts : List Span) (hne : ts ≠ []) (h : ts.all Span.wf = true) :
    ∃ c cs, commaList Span.render ts = c :: cs ∧ TimeStart c := by
  have hok : ∀ s ∈ ts, s.wf = true := by simpa [List.all_eq_true] using h
  cases ts with
  | nil => exact absurd rfl hne
  | cons s ss =>
    obtain ⟨c, cs, e, hc⟩ := span_head s (hok s (by simp))
    exact ⟨c, cs ++ spanTailS ss, by rw [commaList_span, e]; rfl, hc⟩

/-- the same under the standard context of a complete selector sequence (`FollowSel`) -/
theorem parses_spans_followSel (ts : List Span) (hne : ts ≠ []) (h : ts.all Span.wf = true)
    (rest : List Char) (hf : FollowSel rest) :
    ParsesTo g_time_selector buildTimeSelector (commaList Span.render ts) rest (ts.map Span.denote) :=
  parses_spans ts hne h rest (followTimeSel_of_followSel rest hf)

end OH.Proofs.Sent
