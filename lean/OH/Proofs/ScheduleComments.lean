import OH.Proofs.ScheduleIter
/-
Helper lemmas for C14/C17: comments carried by schedules.  Core tactics only.

`G` is any predicate on comment lists that is closed under `UniqueSortedVec::union`
(`cunion`), e.g. "sorted, duplicate-free, and every element comes from the inputs" — closure of
that instance is exactly what C15 proves about `union`.
-/
namespace OH.Proofs.Schedule
open OH.Model OH.Model.Schedule OH.Spec.Schedule

section closure
variable (G : List String → Prop) (hG : ∀ a b, G a → G b → G (cunion a b))
include hG

theorem mergeBuggyLoop_G (cur : TimeRange) (rest : List TimeRange)
    (h : ∀ t ∈ cur :: rest, G t.comments) : ∀ x ∈ mergeBuggyLoop cur rest, G x.comments := by
  fun_induction mergeBuggyLoop cur rest with
  | case1 cur => exact h
  | case2 cur u rest hc ih =>
    simp only [List.mem_cons, forall_eq_or_imp] at h ih
    exact ih ⟨hG _ _ h.1 h.2.1, h.2.2⟩
  | case3 cur u rest hc ih =>
    simp only [List.mem_cons, forall_eq_or_imp] at h ih ⊢
    exact ⟨h.1, ih h.2⟩

theorem mergeFixedLoop_G (cur : TimeRange) (rest : List TimeRange)
    (h : ∀ t ∈ cur :: rest, G t.comments) : ∀ x ∈ mergeFixedLoop cur rest, G x.comments := by
  fun_induction mergeFixedLoop cur rest with
  | case1 cur => exact h
  | case2 cur u rest hc ih =>
    simp only [List.mem_cons, forall_eq_or_imp] at h ih
    exact ih ⟨hG _ _ h.1 h.2.1, h.2.2⟩
  | case3 cur u rest hc ih =>
    simp only [List.mem_cons, forall_eq_or_imp] at h ih ⊢
    exact ⟨h.1, ih h.2⟩

theorem fromRanges_G (rs : List (Nat × Nat)) (k : Kind) (c : List String) (hc : G c) :
    ∀ t ∈ fromRanges rs k c, G t.comments := by
  have h0 : ∀ t ∈ sortByStart (mkRanges rs k c), G t.comments := by
    intro t ht
    rw [mem_sortByStart, mem_mkRanges] at ht
    obtain ⟨r, _, _, rfl⟩ := ht; exact hc
  unfold fromRanges
  first
  | (unfold fromRangesBuggy mergeBuggy
     split
     · simp
     · rename_i t ts e; rw [e] at h0; exact mergeBuggyLoop_G G hG t ts h0)
  | (unfold fromRangesFixed mergeFixed
     split
     · simp
     · rename_i t ts e; rw [e] at h0; exact mergeFixedLoop_G G hG t ts h0)

theorem beforeAbsorb_G (insS insE : Nat) (c : List String) (l : List TimeRange) (hc : G c)
    (hl : ∀ t ∈ l, G t.comments) : G (beforeAbsorb insS insE c l) := by
  fun_induction beforeAbsorb insS insE c l with
  | case1 c => exact hc
  | case2 c t ts _ _ ih => exact ih hc (fun u hu => hl u (by simp [hu]))
  | case3 c t ts _ _ ih => exact ih (hG _ _ hc (hl t (by simp))) (fun u hu => hl u (by simp [hu]))
  | case4 c t ts _ ih => exact ih hc (fun u hu => hl u (by simp [hu]))

theorem afterAbsorb_G (insS insE : Nat) (c : List String) (l : List TimeRange) (hc : G c)
    (hl : ∀ t ∈ l, G t.comments) : G (afterAbsorb insS insE c l) := by
  fun_induction afterAbsorb insS insE c l with
  | case1 c => exact hc
  | case2 c t ts _ _ ih => exact ih hc (fun u hu => hl u (by simp [hu]))
  | case3 c t ts _ _ ih => exact ih (hG _ _ hc (hl t (by simp))) (fun u hu => hl u (by simp [hu]))
  | case4 c t ts _ ih => exact ih hc (fun u hu => hl u (by simp [hu]))

theorem coalesceBeforeRev_G (ins : TimeRange) (rb : List TimeRange) (hi : G ins.comments)
    (hl : ∀ t ∈ rb, G t.comments) :
    G (coalesceBeforeRev ins rb).2.comments ∧ ∀ t ∈ (coalesceBeforeRev ins rb).1, G t.comments := by
  fun_induction coalesceBeforeRev ins rb with
  | case1 ins => exact ⟨hi, hl⟩
  | case2 ins t ts _ ih => exact ih (hG _ _ (hl t (by simp)) hi) (fun u hu => hl u (by simp [hu]))
  | case3 ins t ts _ => exact ⟨hi, hl⟩

theorem coalesceAfter_G (ins : TimeRange) (aft : List TimeRange) (hi : G ins.comments)
    (hl : ∀ t ∈ aft, G t.comments) :
    G (coalesceAfter ins aft).2.comments ∧ ∀ t ∈ (coalesceAfter ins aft).1, G t.comments := by
  fun_induction coalesceAfter ins aft with
  | case1 ins => exact ⟨hi, hl⟩
  | case2 ins t ts _ ih => exact ih (hG _ _ (hl t (by simp)) hi) (fun u hu => hl u (by simp [hu]))
  | case3 ins t ts _ => exact ⟨hi, hl⟩

theorem insert_G (s : Schedule) (ins : TimeRange) (hs : ∀ t ∈ s, G t.comments) (hi : G ins.comments) :
    ∀ t ∈ insert s ins, G t.comments := by
  have hb : ∀ t ∈ (before ins.s ins.e s).reverse, G t.comments := by
    intro t ht; rw [List.mem_reverse] at ht
    obtain ⟨u, hu, _, _, _, _, e⟩ := mem_before _ _ s t ht; rw [e]; exact hs u hu
  have ha : ∀ t ∈ after ins.s ins.e s, G t.comments := by
    intro t ht
    obtain ⟨u, hu, _, _, _, _, e⟩ := mem_after _ _ s t ht; rw [e]; exact hs u hu
  have h0 : G (insAbsorbed s ins).comments :=
    afterAbsorb_G G hG _ _ _ s (beforeAbsorb_G G hG _ _ _ s hi hs) hs
  have h1 := coalesceBeforeRev_G G hG (insAbsorbed s ins) _ h0 hb
  have h2 := coalesceAfter_G G hG (insStage1 s ins).2 _ h1.1 ha
  intro t ht
  unfold Schedule.insert at ht
  rw [List.mem_append, List.mem_reverse, List.mem_cons] at ht
  rcases ht with ht | rfl | ht
  · exact h1.2 t ht
  · exact h2.1
  · exact h2.2 t ht

theorem additionRev_G (r : List TimeRange) (a : Schedule) (ha : ∀ t ∈ a, G t.comments)
    (hr : ∀ t ∈ r, G t.comments) : ∀ t ∈ additionRev a r, G t.comments := by
  induction r generalizing a with
  | nil => exact ha
  | cons x xs ih =>
    exact ih (insert a x) (insert_G G hG a x ha (hr x (by simp))) (fun t ht => hr t (by simp [ht]))

theorem addition_G (a b : Schedule) (ha : ∀ t ∈ a, G t.comments) (hb : ∀ t ∈ b, G t.comments) :
    ∀ t ∈ addition a b, G t.comments :=
  additionRev_G G hG b.reverse a ha (fun t ht => hb t (List.mem_reverse.mp ht))

theorem nextLoop_G (y : TimeRange) (rs : List TimeRange) (hy : G y.comments)
    (hr : ∀ t ∈ rs, G t.comments) : G (nextLoop y rs).1.comments := by
  fun_induction nextLoop y rs with
  | case1 y => split <;> exact hy
  | case2 y n rest _ => exact hy
  | case3 y n rest _ _ => unfold extendHole; split <;> exact hy
  | case4 y n rest _ _ ih =>
    apply ih _ (fun u hu => hr u (by simp [hu]))
    have : (extendHole y n).comments = y.comments := by unfold extendHole; split <;> rfl
    simp only [this]
    exact hG _ _ hy (hr n (by simp))

omit hG in
theorem nextStart_sub (st : IterState) : ∀ u ∈ (nextStart st).2, u ∈ st.ranges := by
  unfold nextStart; split <;> (try split) <;> simp_all

omit hG in
theorem nextStart_G (st : IterState) (h0 : G []) (hr : ∀ t ∈ st.ranges, G t.comments) :
    G (nextStart st).1.comments := by
  unfold nextStart
  split
  · exact h0
  · rename_i n rest e
    split
    · exact hr n (by simp [e])
    · exact h0

theorem iterFrom_G (st : IterState) (h0 : G []) (hr : ∀ t ∈ st.ranges, G t.comments) :
    ∀ t ∈ (iterFrom st).1, G t.comments := by
  fun_induction iterFrom st with
  | case1 st hn => simp
  | case2 st v hn => simp
  | case3 st v st' hn r ih =>
    rcases next_cases st with ⟨_, h2⟩ | ⟨h1, h2, h3⟩ | ⟨_, _, h2⟩
    · rw [hn] at h2; cases h2
    · rw [hn] at h3
      injection h3 with hv hst
      subst hv hst
      have hsub : ∀ u ∈ (nextStart st).2, G u.comments := fun u hu => hr u (nextStart_sub st u hu)
      simp only [List.mem_cons, forall_eq_or_imp]
      refine ⟨nextLoop_G G hG _ _ (nextStart_G G st h0 hr) hsub, ih ?_⟩
      intro t ht
      exact hsub t (nextLoop_sub _ _ t ht)
    · rw [hn] at h2; cases h2

end closure

/-! ### ranges that nothing touches survive unchanged -/

/-- `t` and `u` neither overlap nor touch -/
def Apart (t u : TimeRange) : Prop := t.e < u.s ∨ u.e < t.s

theorem coalesceBeforeRev_popped (ins : TimeRange) (rb : List TimeRange)
    (hc : ∀ t ∈ rb, ∀ u ∈ rb, t.e = u.s → t.kind ≠ u.kind) :
    ∀ x ∈ rb, x ∈ (coalesceBeforeRev ins rb).1 ∨ (x.e = ins.s ∧ x.kind = ins.kind) := by
  fun_induction coalesceBeforeRev ins rb with
  | case1 ins => simp
  | case2 ins t ts hp ih =>
    intro x hx
    rcases List.mem_cons.mp hx with rfl | hx'
    · exact Or.inr hp
    · rcases ih (fun a ha b hb => hc a (by simp [ha]) b (by simp [hb])) x hx' with h | ⟨h1, h2⟩
      · exact Or.inl h
      · exact absurd (h2.trans hp.2.symm) (hc x hx t (by simp) h1)
  | case3 ins t ts hp => intro x hx; exact Or.inl hx

theorem coalesceAfter_popped (ins : TimeRange) (aft : List TimeRange)
    (hc : ∀ t ∈ aft, ∀ u ∈ aft, t.e = u.s → t.kind ≠ u.kind) :
    ∀ x ∈ aft, x ∈ (coalesceAfter ins aft).1 ∨ (ins.e = x.s ∧ x.kind = ins.kind) := by
  fun_induction coalesceAfter ins aft with
  | case1 ins => simp
  | case2 ins t ts hp ih =>
    intro x hx
    rcases List.mem_cons.mp hx with rfl | hx'
    · exact Or.inr hp
    · rcases ih (fun a ha b hb => hc a (by simp [ha]) b (by simp [hb])) x hx' with h | ⟨h1, h2⟩
      · exact Or.inl h
      · exact absurd (hp.2.trans h2.symm) (hc t (by simp) x hx h1)
  | case3 ins t ts hp => intro x hx; exact Or.inl hx

theorem mem_before_of_apart (insS insE : Nat) (l : Schedule) (t : TimeRange) (ht : t ∈ l)
    (h1 : t.s < t.e) (h2 : t.e < insS) (h3 : insS < insE) : t ∈ before insS insE l := by
  fun_induction before insS insE l with
  | case1 => simp at ht
  | case2 u us _ _ ih =>
    rcases List.mem_cons.mp ht with rfl | h
    · have : min t.e insS = t.e := by omega
      simp [this]
    · exact List.mem_cons_of_mem _ (ih h)
  | case3 u us c1 c2 ih =>
    rcases List.mem_cons.mp ht with rfl | h
    · omega
    · exact ih h
  | case4 u us c1 ih =>
    rcases List.mem_cons.mp ht with rfl | h
    · omega
    · exact ih h

theorem mem_after_of_apart (insS insE : Nat) (l : Schedule) (t : TimeRange) (ht : t ∈ l)
    (h1 : t.s < t.e) (h2 : insE < t.s) (h3 : insS < insE) : t ∈ after insS insE l := by
  fun_induction after insS insE l with
  | case1 => simp at ht
  | case2 u us _ _ ih =>
    rcases List.mem_cons.mp ht with rfl | h
    · have : max t.s insE = t.s := by omega
      simp [this]
    · exact List.mem_cons_of_mem _ (ih h)
  | case3 u us c1 c2 ih =>
    rcases List.mem_cons.mp ht with rfl | h
    · omega
    · exact ih h
  | case4 u us c1 ih =>
    rcases List.mem_cons.mp ht with rfl | h
    · omega
    · exact ih h

/-- a range of a coalesced schedule that the inserted range neither overlaps nor touches survives
`insert` unchanged (bounds, kind, comments) -/
theorem insert_keeps_old (s : Schedule) (hs : WF s) (hc : Coalesced s) (ins : TimeRange)
    (h : ins.s < ins.e) (t : TimeRange) (ht : t ∈ s) (ha : Apart t ins) : t ∈ insert s ins := by
  have hne := wf_nonempty s hs t ht
  unfold Schedule.insert
  rw [List.mem_append, List.mem_reverse, List.mem_cons]
  rcases ha with ha | ha
  · left
    have hb := mem_before_of_apart ins.s ins.e s t ht hne ha h
    rcases coalesceBeforeRev_popped (insAbsorbed s ins) (before ins.s ins.e s).reverse
      (fun a ha' b hb' => before_coalesced _ _ s hc a (List.mem_reverse.mp ha') b (List.mem_reverse.mp hb'))
      t (List.mem_reverse.mpr hb) with h1 | ⟨h1, _⟩
    · exact h1
    · have : (insAbsorbed s ins).s = ins.s := rfl
      omega
  · right; right
    have hb := mem_after_of_apart ins.s ins.e s t ht hne ha h
    have he : (insStage1 s ins).2.e = ins.e := by
      have h0 : WF ((before ins.s ins.e s).reverse.reverse ++ insAbsorbed s ins :: after ins.s ins.e s) := by
        rw [List.reverse_reverse]; exact wf_insertRaw s hs (insAbsorbed s ins) h
      exact (coalesceBeforeRev_spec (insAbsorbed s ins) _ _ h0).2.2.2.1
    rcases coalesceAfter_popped (insStage1 s ins).2 (after ins.s ins.e s)
      (after_coalesced _ _ s hc) t hb with h1 | ⟨h1, _⟩
    · exact h1
    · omega

theorem beforeAbsorb_of_apart (insS insE : Nat) (c : List String) (l : Schedule)
    (hne : ∀ t ∈ l, t.s < t.e) (ha : ∀ t ∈ l, t.e < insS ∨ insE < t.s) :
    beforeAbsorb insS insE c l = c := by
  fun_induction beforeAbsorb insS insE c l with
  | case1 c => rfl
  | case2 c t ts _ _ ih => exact ih (fun u hu => hne u (by simp [hu])) (fun u hu => ha u (by simp [hu]))
  | case3 c t ts c1 c2 ih =>
    have := hne t (by simp); have := ha t (by simp); omega
  | case4 c t ts _ ih => exact ih (fun u hu => hne u (by simp [hu])) (fun u hu => ha u (by simp [hu]))

theorem afterAbsorb_of_apart (insS insE : Nat) (c : List String) (l : Schedule)
    (hne : ∀ t ∈ l, t.s < t.e) (ha : ∀ t ∈ l, t.e < insS ∨ insE < t.s) :
    afterAbsorb insS insE c l = c := by
  fun_induction afterAbsorb insS insE c l with
  | case1 c => rfl
  | case2 c t ts _ _ ih => exact ih (fun u hu => hne u (by simp [hu])) (fun u hu => ha u (by simp [hu]))
  | case3 c t ts c1 c2 ih =>
    have := hne t (by simp); have := ha t (by simp); omega
  | case4 c t ts _ ih => exact ih (fun u hu => hne u (by simp [hu])) (fun u hu => ha u (by simp [hu]))

/-- an inserted range that neither overlaps nor touches any range of the schedule is stored
unchanged (bounds, kind, comments) -/
theorem insert_keeps_new (s : Schedule) (hs : WF s) (ins : TimeRange) (h : ins.s < ins.e)
    (ha : ∀ t ∈ s, Apart t ins) : ins ∈ insert s ins := by
  have hne := wf_nonempty s hs
  have e0 : insAbsorbed s ins = ins := by
    unfold insAbsorbed
    rw [beforeAbsorb_of_apart _ _ _ s hne ha, afterAbsorb_of_apart _ _ _ s hne ha]
  have e1 : insStage1 s ins = ((before ins.s ins.e s).reverse, ins) := by
    unfold insStage1; rw [e0]
    cases hb : (before ins.s ins.e s).reverse with
    | nil => rfl
    | cons x xs =>
      have hx : x ∈ before ins.s ins.e s := List.mem_reverse.mp (by rw [hb]; simp)
      obtain ⟨u, hu, _, h2, _⟩ := mem_before _ _ s x hx
      have := ha u hu; have := hne u hu
      unfold coalesceBeforeRev
      rw [if_neg]; rintro ⟨h3, _⟩; unfold Apart at *; omega
  have e2 : insStage2 s ins = (after ins.s ins.e s, ins) := by
    unfold insStage2; rw [e1]
    cases hb : after ins.s ins.e s with
    | nil => rfl
    | cons x xs =>
      have hx : x ∈ after ins.s ins.e s := by rw [hb]; simp
      obtain ⟨u, hu, _, h2, _⟩ := mem_after _ _ s x hx
      have := ha u hu; have := hne u hu
      unfold coalesceAfter
      rw [if_neg]; rintro ⟨h3, _⟩; simp only at h3; unfold Apart at *; omega
  unfold Schedule.insert
  rw [e2]; simp

theorem additionRev_keeps_old (r : List TimeRange) (a : Schedule) (ha : WF a) (hc : Coalesced a)
    (hr : ∀ x ∈ r, x.s < x.e) (t : TimeRange) (ht : t ∈ a) (hap : ∀ x ∈ r, Apart t x) :
    t ∈ additionRev a r := by
  induction r generalizing a with
  | nil => exact ht
  | cons x xs ih =>
    have hx := hr x (by simp)
    exact ih (insert a x) (insert_spec a ha x hx).1 (insert_coalesced a ha hc x hx)
      (fun u hu => hr u (by simp [hu])) (insert_keeps_old a ha hc x hx t ht (hap x (by simp)))
      (fun u hu => hap u (by simp [hu]))

/-- if no minute of `t` widened by one minute on each side is covered, nothing meets `t` -/
theorem apart_of_free (cur : Schedule) (hw : WF cur) (t : TimeRange) (ht : t.s < t.e)
    (hfree : ∀ m, t.s ≤ m + 1 → m ≤ t.e → stateAt cur m = none) : ∀ x ∈ cur, Apart x t := by
  intro x hx
  have hne := wf_nonempty cur hw x hx
  unfold Apart
  by_cases hc : x.e < t.s ∨ t.e < x.s
  · exact hc
  · exfalso
    have h1 := (stateAt_eq_none cur (max x.s (t.s - 1))).mp (hfree _ (by omega) (by omega)) x hx
    omega

theorem free_of_apart (l : Schedule) (t : TimeRange) (hap : ∀ x ∈ l, Apart x t) (m : Nat)
    (h1 : t.s ≤ m + 1) (h2 : m ≤ t.e) : stateAt l m = none := by
  rw [stateAt_eq_none]
  intro x hx
  have := hap x hx
  unfold Apart at this
  omega

theorem additionRev_keeps_new (r1 r2 : List TimeRange) (a : Schedule) (ha : WF a) (hc : Coalesced a)
    (t : TimeRange) (ht : t.s < t.e) (h1 : ∀ x ∈ r1, x.s < x.e) (h2 : ∀ x ∈ r2, x.s < x.e)
    (hapa : ∀ x ∈ a, Apart x t) (hap1 : ∀ x ∈ r1, Apart x t) (hap2 : ∀ x ∈ r2, Apart t x) :
    t ∈ additionRev a (r1 ++ t :: r2) := by
  have e : ∀ (r1 : List TimeRange) (a : Schedule),
      additionRev a (r1 ++ t :: r2) = additionRev (insert (additionRev a r1) t) r2 := by
    intro r1
    induction r1 with
    | nil => intro a; rfl
    | cons x xs ih => intro a; exact ih (insert a x)
  rw [e]
  obtain ⟨w, st⟩ := additionRev_spec r1 a ha h1
  have hc' := additionRev_coalesced r1 a ha hc h1
  have hfree : ∀ m, t.s ≤ m + 1 → m ≤ t.e → stateAt (additionRev a r1) m = none := by
    intro m m1 m2
    rw [st, free_of_apart a t hapa m m1 m2,
      free_of_apart r1.reverse t (fun x hx => hap1 x (List.mem_reverse.mp hx)) m m1 m2]
    rfl
  have hin := insert_keeps_new _ w t ht (apart_of_free _ w t ht hfree)
  exact additionRev_keeps_old r2 _ (insert_spec _ w t ht).1 (insert_coalesced _ w hc' t ht) h2 t hin hap2

end OH.Proofs.Schedule
