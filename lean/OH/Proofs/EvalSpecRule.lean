import OH.Proofs.EvalSpecSel
import OH.Proofs.EvalSpecTime
/-
C01 refinement, layer 4: one rule.  `ruleScheduleAt` never fails and the schedule it returns shows,
minute by minute, what the specification's `ruleDay` says (`some kind` on the covered minutes, nothing
elsewhere); it is `none` iff the rule applies neither today nor yesterday; when it does not apply
today it is the spill part (`ruleSpill`) only.  The schedules are well-formed and within 00:00–24:00.
-/
namespace OH.Proofs.EvalSpec
open OH.Model OH.Model.Cal OH.Props.C14 OH.Spec.Schedule
open OH.Spec (applies spanOn inToday inSpill ruleDay ruleSpill tab DayTab)

/-! ### day tables -/

theorem tab_at (f : Nat → Option Kind) (m : Nat) : (tab f).at m = if m < 1440 then f m else none := by
  unfold tab DayTab.at
  simp only [Array.getElem?_ofFn]
  split <;> simp

@[simp] theorem tab_size (f : Nat → Option Kind) : (tab f).size = 1440 := by simp [tab]

/-! ### the two schedules of a rule -/

/-- well-formed and within the day: what the rule combination needs to know about a schedule -/
def Good (s : Schedule) : Prop := WF s ∧ Within 1440 s

theorem good_addition (a b : Schedule) (ha : Good a) (hb : Good b) : Good (a.addition b) :=
  ⟨addition_wf a b ha.1 hb.1, addition_within 1440 a b ha.1 hb.1 ha.2 hb.2⟩

def todaySched (ctx : Ctx) (r : Rule) (d : Int) : Schedule :=
  Schedule.fromRanges (todayRanges (r.time.map (spanOn ctx d))) r.kind r.comments

/-- the schedule continued from day `p` into the next day -/
def spillSched (ctx : Ctx) (r : Rule) (p : Int) : Schedule :=
  Schedule.fromRanges (spillRanges (r.time.map (spanOn ctx p))) r.kind r.comments

theorem good_todaySched (ctx : Ctx) (r : Rule) (d : Int) : Good (todaySched ctx r d) :=
  ⟨fromRanges_wf _ _ _, fromRanges_within 1440 _ _ _ (todayRanges_within _)⟩

theorem good_spillSched (ctx : Ctx) (r : Rule) (p : Int) : Good (spillSched ctx r p) :=
  ⟨fromRanges_wf _ _ _, fromRanges_within 1440 _ _ _ (spillRanges_within _)⟩

theorem stateAt_todaySched (ctx : Ctx) (r : Rule) (d : Int) (m : Nat) :
    stateAt (todaySched ctx r d) m = if inToday (r.time.map (spanOn ctx d)) m = true then some r.kind else none := by
  unfold todaySched
  rw [fromRanges_covers]
  unfold fromSpec InRanges
  simp only [todayRanges_covers]

theorem stateAt_spillSched (ctx : Ctx) (r : Rule) (p : Int) (m : Nat) (hm : m < 1440) :
    stateAt (spillSched ctx r p) m = if inSpill (r.time.map (spanOn ctx p)) m = true then some r.kind else none := by
  unfold spillSched
  rw [fromRanges_covers]
  unfold fromSpec InRanges
  simp only [spillRanges_covers _ m hm]

/-- the value of `rule_sequence_schedule_at`, given whether the selector matched today (`a`) and
yesterday (`a1`) -/
def rulePureB (ctx : Ctx) (r : Rule) (d : Int) (a a1 : Bool) : Option Schedule :=
  match (if a then some (todaySched ctx r d) else none),
        (if a1 then some (spillSched ctx r (d - 1)) else none) with
  | some a, some b => some (a.addition b)
  | some a, none => some a
  | none, y => y

/-- … with the specification's `applies` for the two Booleans -/
def rulePure (ctx : Ctx) (r : Rule) (d : Int) : Option Schedule :=
  rulePureB ctx r d (applies ctx r d) (applies ctx r (d - 1))

/-- hypotheses about one rule and one day under which its selector is evaluated as specified, on the
day and on the day before -/
structure RuleOK (ctx : Ctx) (r : Rule) (d : Int) : Prop where
  wf : r.day.wf = true
  dated : DatedAgreeSel r.day d
  dated1 : DatedAgreeSel r.day (d - 1)

theorem filter_today (ctx : Ctx) (r : Rule) (d : Int) (h : RuleOK ctx r d)
    (h1 : dateStart ≤ d) (h2 : d < dateEnd) : r.day.filter ctx d = .ok (applies ctx r d) :=
  daySelectorFilter_eq ctx r.day d h.wf h.dated (by omega) h2

theorem filter_yesterday (ctx : Ctx) (r : Rule) (d : Int) (h : RuleOK ctx r d)
    (h1 : dateStart ≤ d) (h2 : d < dateEnd) : r.day.filter ctx (d - 1) = .ok (applies ctx r (d - 1)) :=
  daySelectorFilter_eq ctx r.day (d - 1) h.wf h.dated1 (by omega) (by omega)

/-- `rule_sequence_schedule_at` succeeds as soon as the two selector evaluations do -/
theorem ruleScheduleAt_eqB (ctx : Ctx) (r : Rule) (d : Int) (a a1 : Bool)
    (ha : r.day.filter ctx d = .ok a) (ha1 : r.day.filter ctx (d - 1) = .ok a1)
    (h1 : dateStart ≤ d) : ruleScheduleAt ctx r d = .ok (rulePureB ctx r d a a1) := by
  unfold ruleScheduleAt rulePureB
  rw [pred?_of_dateStart_le h1]
  simp only [ha, ha1, ok_bind, pure_eq_ok]
  cases a <;> cases a1 <;>
    simp [intervalsAt_eq, intervalsAtNextDay_eq, todaySched, spillSched] <;> rfl

theorem ruleScheduleAt_eq (ctx : Ctx) (r : Rule) (d : Int) (h : RuleOK ctx r d)
    (h1 : dateStart ≤ d) (h2 : d < dateEnd) : ruleScheduleAt ctx r d = .ok (rulePure ctx r d) :=
  ruleScheduleAt_eqB ctx r d _ _ (filter_today ctx r d h h1 h2) (filter_yesterday ctx r d h h1 h2) h1

theorem good_rulePureB (ctx : Ctx) (r : Rule) (d : Int) (a a1 : Bool) :
    ∀ s, rulePureB ctx r d a a1 = some s → Good s := by
  intro s hs
  unfold rulePureB at hs
  cases a <;> cases a1 <;> simp at hs
  · subst hs; exact good_spillSched ctx r (d - 1)
  · subst hs; exact good_todaySched ctx r d
  · subst hs; exact good_addition _ _ (good_todaySched ctx r d) (good_spillSched ctx r (d - 1))

theorem good_rulePure (ctx : Ctx) (r : Rule) (d : Int) : ∀ s, rulePure ctx r d = some s → Good s :=
  good_rulePureB ctx r d _ _

/-- `none` iff the rule applies neither today nor yesterday -/
theorem rulePure_eq_none (ctx : Ctx) (r : Rule) (d : Int) :
    rulePure ctx r d = none ↔ (applies ctx r d = false ∧ applies ctx r (d - 1) = false) := by
  unfold rulePure rulePureB
  cases applies ctx r d <;> cases applies ctx r (d - 1) <;> simp

/-- minute by minute, the rule's schedule is the specification's `ruleDay` -/
theorem rulePure_state (ctx : Ctx) (r : Rule) (d : Int) (m : Nat) (hm : m < 1440) :
    (rulePure ctx r d).bind (stateAt · m) = (ruleDay ctx r d).at m := by
  unfold rulePure rulePureB ruleDay
  simp only [tab_at, if_pos hm]
  cases applies ctx r d <;> cases applies ctx r (d - 1) <;>
    simp only [Bool.false_eq_true, if_false, if_true, Option.bind_none, Option.bind_some, Bool.false_and,
      Bool.true_and, Bool.or_false, Bool.false_or]
  · rw [stateAt_spillSched _ _ _ _ hm]
  · rw [stateAt_todaySched]
  · rw [addition_state _ _ (good_todaySched ctx r d).1 (good_spillSched ctx r (d - 1)).1,
      stateAt_spillSched _ _ _ _ hm, stateAt_todaySched]
    cases inSpill (r.time.map (spanOn ctx (d - 1))) m <;> cases inToday (r.time.map (spanOn ctx d)) m <;> simp

/-- when the rule does not apply today, what it says is its spill from yesterday only -/
theorem ruleDay_eq_ruleSpill (ctx : Ctx) (r : Rule) (d : Int) (h : applies ctx r d = false) (m : Nat) :
    (ruleDay ctx r d).at m = (ruleSpill ctx r d).at m := by
  unfold ruleDay ruleSpill
  simp only [tab_at, h, Bool.false_and, Bool.or_false]

end OH.Proofs.EvalSpec
