import OH.Proofs.HintFold
/-
Layer B, parts 2 and 3 (c) at the expression level: `next_change_hint` never panics, points strictly
after the day, and every day strictly between `d` and the hint has a single-kind schedule of the
kind of day `d` (`hint_sound_expr`).
-/
namespace OH.Model
open OH.Model.Cal OH.Spec.Schedule OH.Props.C14 OH.Proofs.Schedule

/-- the closure of `next_change_hint`: the hint contributed by one rule -/
def ruleHint (ctx : Ctx) (d : Int) (r : Rule) : M (Option Int) := do
  if isImmutableFullDay r.time then r.day.hint ctx d
  else
    let m ← (do
      if ← r.day.filter ctx d then pure true
      else match pred? d with
        | none => pure false
        | some p => r.day.filter ctx p)
    if !m then r.day.hint ctx d else pure (succ? d)

theorem nextChangeHint_eq (ctx : Ctx) (e : Expr) (d : Int) (h1 : dateStart ≤ d) (h2 : isConstant e = false) :
    nextChangeHint ctx e d = (do
      let hs ← mapM' (ruleHint ctx d) e
      match hs with
      | [] => pure none
      | _ => pure (hintsMin hs)) := by
  unfold nextChangeHint
  rw [if_neg (by omega), h2]
  rfl

theorem Rule.dayWf {r : Rule} (hw : r.wf = true) : r.day.wf = true := by
  simp only [Rule.wf, Bool.and_eq_true] at hw
  exact hw.1.1

/-- one rule's hint: total, after `d`; and when it leaves room for a day between `d` and itself, it
is the day selector's hint and the rule is a whole-day rule or matches neither `d` nor `d - 1` -/
theorem ruleHint_spec (ctx : Ctx) (hc : CtxWF ctx) (r : Rule) (hw : r.wf = true) (hdt : r.day.DatedOK)
    (d : Int) (hd1 : dateStart ≤ d) (hd2 : d < dateEnd) :
    ∃ h, ruleHint ctx d r = .ok h ∧ (∀ x, h = some x → d < x) ∧
      (d + 1 < hintDay d h → r.day.hint ctx d = .ok h ∧
        (isImmutableFullDay r.time = true ∨
          (r.day.filter ctx d = .ok false ∧ r.day.filter ctx (d - 1) = .ok false))) := by
  have hmin := minDay_eq
  have hmax := maxDay_eq
  have hds := Cal.dateStart_eq
  have hde := Cal.dateEnd_eq
  have H := r.day.hintOK ctx hc (Rule.dayWf hw) hdt d hd1 hd2
  obtain ⟨h, hh⟩ := H.total
  have hgt : ∀ x, h = some x → d < x := fun x hx => H.gt x (by rw [hh, hx])
  obtain ⟨t, ht⟩ := r.filter_total ctx hw hdt d
  obtain ⟨y, hy⟩ := r.filter_total ctx hw hdt (d - 1)
  have hp : pred? d = some (d - 1) := by simp [pred?]; omega
  have hsucc : succ? d = some (d + 1) := by simp [succ?]; omega
  have hev : ruleHint ctx d r
      = if isImmutableFullDay r.time = true then .ok h else if (t || y) = true then .ok (some (d + 1)) else .ok h := by
    unfold ruleHint
    by_cases him : isImmutableFullDay r.time = true
    · simp [him, hh]
    · simp only [him, Bool.false_eq_true, if_false, ht, hp, M.bind_ok]
      cases t <;> cases y <;> simp [hy, hh, hsucc]
  by_cases him : isImmutableFullDay r.time = true
  · rw [if_pos him] at hev
    exact ⟨h, hev, hgt, fun _ => ⟨hh, Or.inl him⟩⟩
  · rw [if_neg him] at hev
    by_cases hty : (t || y) = true
    · rw [if_pos hty] at hev
      refine ⟨some (d + 1), hev, ?_, ?_⟩
      · intro x hx; cases hx; omega
      · intro hlt; simp at hlt
    · rw [if_neg hty] at hev
      simp only [Bool.or_eq_true, not_or, Bool.not_eq_true] at hty
      rw [hty.1] at ht
      rw [hty.2] at hy
      exact ⟨h, hev, hgt, fun _ => ⟨hh, Or.inr ⟨ht, hy⟩⟩⟩

theorem mapM'_ok_mem' {α β} (f : α → M β) (l : List α) (ys : List β) (h : mapM' f l = .ok ys) :
    ∀ y ∈ ys, ∃ x ∈ l, f x = .ok y := by
  induction l generalizing ys with
  | nil => simp only [mapM', Except.ok.injEq] at h; subst h; simp
  | cons x xs ih =>
    simp only [mapM'] at h
    cases hx : f x with
    | error e => simp [hx] at h
    | ok b =>
      cases hxs : mapM' f xs with
      | error e => simp [hx, hxs] at h
      | ok bs =>
        simp only [hx, hxs, M.bind_ok, M.pure_eq, Except.ok.injEq] at h
        subst h
        intro z hz
        rcases List.mem_cons.1 hz with rfl | hz
        · exact ⟨x, by simp, hx⟩
        · obtain ⟨a, ha, e⟩ := ih bs hxs z hz
          exact ⟨a, by simp [ha], e⟩

/-- the filter value of rule `r` on day `d` -/
def cmOf (ctx : Ctx) (d : Int) (r : Rule) : Bool :=
  match r.day.filter ctx d with
  | .ok b => b
  | .error _ => false

/-- on a day `D` of `[d, hint)` a rule as in `ruleHint_spec` is quiet -/
theorem quiet_of_hint (ctx : Ctx) (hc : CtxWF ctx) (r : Rule) (hw : r.wf = true) (hdt : r.day.DatedOK)
    (d : Int) (hd1 : dateStart ≤ d) (hd2 : d < dateEnd) (h : Option Int)
    (hh : r.day.hint ctx d = .ok h)
    (hcase : isImmutableFullDay r.time = true ∨ (r.day.filter ctx d = .ok false ∧ r.day.filter ctx (d - 1) = .ok false))
    (D : Int) (hD1 : d ≤ D) (hD2 : D < hintDay d h) (hD3 : D < dateEnd) :
    QuietRule ctx D (cmOf ctx d) r := by
  have hmin := minDay_eq
  have hds := Cal.dateStart_eq
  have H := r.day.hintOK ctx hc (Rule.dayWf hw) hdt d hd1 hd2
  obtain ⟨t, ht⟩ := r.filter_total ctx hw hdt d
  have hcm : cmOf ctx d r = t := by simp [cmOf, ht]
  have hfD : r.day.filter ctx D = .ok t := by rw [H.sound h hh D hD1 hD2 hD3, ht]
  obtain ⟨y, hy⟩ := r.filter_total ctx hw hdt (D - 1)
  have he := ruleScheduleAt_eq ctx r D (by omega) t y hfD hy
  refine ⟨_, by rw [hcm]; exact hfD, he, ruleSchedOf_good ctx r D t y, ?_⟩
  rw [hcm]
  rcases hcase with him | ⟨f1, f2⟩
  · exact ruleSchedOf_immutable ctx r D t y him (rule_time_ne hw)
  · rw [ht] at f1
    cases f1
    have hy' : y = false := by
      by_cases e : D = d
      · subst e; rw [f2] at hy; cases hy; rfl
      · have := H.sound h hh (D - 1) (by omega) (by omega) (by omega)
        rw [this, ht] at hy; cases hy; rfl
    subst hy'
    exact uniK_nil

/-- PART 2 at the expression level -/
theorem nextChangeHint_ok (ctx : Ctx) (hc : CtxWF ctx) (e : Expr) (hw : ParserWF e = true) (hdt : ExprDatedOK e)
    (d : Int) (hd2 : d < dateEnd) :
    ∃ h, nextChangeHint ctx e d = .ok h ∧ d < hintDay d h := by
  have hds := Cal.dateStart_eq
  have hde := Cal.dateEnd_eq
  by_cases hd1 : d < dateStart
  · exact ⟨some dateStart, by simp [nextChangeHint, hd1], by simpa using hd1⟩
  by_cases hcst : isConstant e = true
  · refine ⟨some dateEnd, ?_, by simpa using hd2⟩
    unfold nextChangeHint; rw [if_neg hd1, if_pos hcst]
  · have hrules := parserWF_rules hw
    rw [nextChangeHint_eq ctx e d (by omega) (by simpa using hcst)]
    obtain ⟨hs, e1, _, e3⟩ := mapM'_total (ruleHint ctx d) e (fun r hr => by
      obtain ⟨h, a, _⟩ := ruleHint_spec ctx hc r (hrules r hr) (hdt r hr) d (by omega) hd2
      exact ⟨h, a⟩)
    have hg : HintsGt d hs := by
      intro x hx
      obtain ⟨r, hr, e'⟩ := e3 _ hx
      obtain ⟨h, a, b, _⟩ := ruleHint_spec ctx hc r (hrules r hr) (hdt r hr) d (by omega) hd2
      rw [a] at e'; cases e'
      exact b x rfl
    simp only [e1, M.bind_ok]
    cases hs with
    | nil => exact ⟨none, rfl, by simp only [hintDay]; omega⟩
    | cons a as =>
      exact ⟨_, rfl, hintDay_gt (hintsMin_gt hd2 _ hg)⟩

/-- PART 3 (c): between `d` and the hint every day is a single-kind day, and so is `d` itself if
there is such a day at all -/
theorem hint_sound_expr (ctx : Ctx) (hc : CtxWF ctx) (e : Expr) (hw : ParserWF e = true) (hdt : ExprDatedOK e)
    (d : Int) (hd1 : dateStart ≤ d) (hd2 : d < dateEnd) (hcst : isConstant e = false)
    (h : Option Int) (hh : nextChangeHint ctx e d = .ok h) (hroom : d + 1 < hintDay d h) :
    ∃ k, ∀ D, d ≤ D → D < hintDay d h → D < dateEnd →
      ∃ s, scheduleAt ctx e D = .ok s ∧ GoodS s ∧ DayKind s k := by
  have hrules := parserWF_rules hw
  rw [nextChangeHint_eq ctx e d hd1 hcst] at hh
  cases e1 : mapM' (ruleHint ctx d) e with
  | error x => rw [e1] at hh; cases hh
  | ok hs =>
    rw [e1] at hh
    simp only [M.bind_ok] at hh
    have hg : HintsGt d hs := by
      intro x hx
      obtain ⟨r, hr, e'⟩ := mapM'_ok_mem' _ _ _ e1 _ hx
      obtain ⟨h', a, b, _⟩ := ruleHint_spec ctx hc r (hrules r hr) (hdt r hr) d hd1 hd2
      rw [a] at e'; cases e'
      exact b x rfl
    have hval : h = hintsMin hs := by
      cases hs with
      | nil =>
        -- impossible: the rule list is not empty
        have := mapM'_ok_length _ _ _ e1
        cases e with
        | nil => simp [ParserWF] at hw
        | cons r rs => simp at this
      | cons a as => simpa using hh.symm
    subst hval
    refine ⟨(absFold (cmOf ctx d) e none).getD .closed, fun D hD1 hD2 hD3 => ?_⟩
    apply scheduleAt_quiet ctx e D (by omega) hD3 (cmOf ctx d)
    intro r hr
    obtain ⟨hv, hr1, hr2⟩ := mapM'_ok_mem _ _ _ e1 r hr
    obtain ⟨h', a, _, c⟩ := ruleHint_spec ctx hc r (hrules r hr) (hdt r hr) d hd1 hd2
    have hveq : hv = h' := by rw [a] at hr2; exact (Except.ok.inj hr2).symm
    subst hveq
    have hle := hintDay_hintsMin_le hd2 hs hg hv hr1
    obtain ⟨c1, c2⟩ := c (by omega)
    exact quiet_of_hint ctx hc r (hrules r hr) (hdt r hr) d hd1 hd2 hv c1 c2 D hD1 (by omega) hD3

end OH.Model
