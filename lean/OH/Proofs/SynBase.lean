import OH.Proofs.Peg
import OH.Model.Parser
import OH.Model.Print
/-
Foundation of the print → parse round-trip proofs (C05, C06).

`ParsesTo g build s rest x`: on input `s ++ rest` the grammar rule `g` matches exactly `s`, produces
ONE pair, and the builder turns that pair into `x`.  Every syntactic category gets a lemma
  `parses_X : okX x → FollowX rest → ParsesTo g_X buildX (Print.X x) rest x`
where `FollowX` says what may come next (PEG ordered choice and greedy repetition need it).

Also here: digit/number lemmas shared by all categories, and the lexical rules `minute`, `hour`,
`hour_minutes` as the worked pattern (`simp [g_X, run, …]` with the character facts as hypotheses).
-/
namespace OH.Proofs.Syn
open OH.Model OH.Model.Peg OH.Model.Parser OH.Generated.Grammar

def ParsesTo {α} (g : G) (build : T → PM α) (s rest : List Char) (x : α) : Prop :=
  ∃ t : T, run g false (s ++ rest) = some ⟨[t], s, rest⟩ ∧ build t = .ok x

/-- introduction rule: give the rule name and the inner pairs; the text is the printed string -/
theorem ParsesTo.mk' {α} {g : G} {build : T → PM α} {s rest : List Char} {x : α}
    (name : PRule) (kids : List T)
    (h1 : run g false (s ++ rest) = some ⟨[.node name s kids], s, rest⟩)
    (h2 : build (.node name s kids) = .ok x) : ParsesTo g build s rest x :=
  ⟨_, h1, h2⟩

abbrev dc := Print.digitChar

/-! ### what may follow, in printed output -/

/-- after a complete selector sequence: end of input, an additional-rule separator `", "`, or a
space followed by a modifier (`open`/`closed`/`unknown`/a comment) or a separator (`;`, `||`) -/
def FollowSel (rest : List Char) : Prop :=
  rest = [] ∨ (∃ r, rest = ',' :: ' ' :: r) ∨
    (∃ c r, rest = ' ' :: c :: r ∧ (c = 'o' ∨ c = 'c' ∨ c = 'u' ∨ c = '"' ∨ c = ';' ∨ c = '|'))

/-- first character of a printed time span: a digit, `(`, or the first letter of an event -/
def TimeStart (c : Char) : Prop := ('0' ≤ c ∧ c ≤ '9') ∨ c = '(' ∨ c = 'd' ∨ c = 's'

/-- first character of a printed weekday selector (`Mo Tu We Th Fr Sa Su PH SH`) -/
def WeekdayStart (c : Char) : Prop := c = 'M' ∨ c = 'T' ∨ c = 'W' ∨ c = 'F' ∨ c = 'S' ∨ c = 'P'

/-- after a weekday selector: as `FollowSel`, or a space and a time selector -/
def FollowWeekday (rest : List Char) : Prop :=
  FollowSel rest ∨ ∃ c r, rest = ' ' :: c :: r ∧ TimeStart c

/-- after the wide-range selectors (years, month days, weeks): as `FollowSel`, or a space and a
weekday or time selector -/
def FollowWide (rest : List Char) : Prop :=
  FollowSel rest ∨ ∃ c r, rest = ' ' :: c :: r ∧ (TimeStart c ∨ WeekdayStart c)

/-! ### digits -/

theorem dc_digit : ∀ d, d < 10 → '0' ≤ dc d ∧ dc d ≤ '9' := by decide
theorem dc_le5 : ∀ d, d < 6 → '0' ≤ dc d ∧ dc d ≤ '5' := by decide
theorem dc_le1 : ∀ d, d < 2 → '0' ≤ dc d ∧ dc d ≤ '1' := by decide
theorem dc_le3 : ∀ d, d < 4 → '0' ≤ dc d ∧ dc d ≤ '3' := by decide
theorem dc_val : ∀ d, d < 10 → digitVal (dc d) = some d := by decide
theorem dc_inj : ∀ a, a < 10 → ∀ b, b < 10 → dc a = dc b → a = b := by decide

/-- `{:02}` below 100 is two digits -/
theorem pad2_lt100 : ∀ n, n < 100 → Print.pad2 n = [dc (n / 10), dc (n % 10)] := by decide

theorem natOfDigits_pad2 : ∀ n, n < 100 → natOfDigits (Print.pad2 n) = some n := by decide

/-! ### the worked pattern: `minute`, `hour`, `hour_minutes` -/

theorem run_minute (q : Bool) (m : Nat) (hm : m < 60) (rest : List Char) :
    run g_minute q (Print.pad2 m ++ rest) =
      some (if q then ⟨[], Print.pad2 m, rest⟩
            else ⟨[.node .minute (Print.pad2 m) []], Print.pad2 m, rest⟩) := by
  rw [pad2_lt100 m (by omega)]
  have h1 := dc_le5 (m / 10) (by omega)
  have h2 := dc_digit (m % 10) (by omega)
  simp [g_minute, run, h1, h2, R.append]
  cases q <;> simp

theorem run_hour (q : Bool) (h : Nat) (hh : h < 24) (rest : List Char) :
    run g_hour q (Print.pad2 h ++ rest) =
      some (if q then ⟨[], Print.pad2 h, rest⟩
            else ⟨[.node .hour (Print.pad2 h) []], Print.pad2 h, rest⟩) := by
  rw [pad2_lt100 h (by omega)]
  have h2 := dc_digit (h % 10) (by omega)
  by_cases h20 : h < 20
  · have h1 := dc_le1 (h / 10) (by omega)
    simp [g_hour, run, h1, h2, R.append]
    cases q <;> simp
  · have e : h / 10 = 2 := by omega
    have h3 := dc_le3 (h % 10) (by omega)
    have : dc 2 = '2' := by decide
    simp [g_hour, run, e, this, h3, R.append, stripPrefix]
    cases q <;> simp

/-- `HH:MM` below 24:00 parses back to its minute count, whatever follows -/
theorem parses_hour_minutes (m : Nat) (hm : m < 1440) (rest : List Char) :
    ParsesTo g_hour_minutes buildHourMinutes (Print.extTime m) rest m := by
  refine ⟨.node .hour_minutes (Print.extTime m)
    [.node .hour (Print.pad2 (m / 60)) [], .node .minute (Print.pad2 (m % 60)) []], ?_, ?_⟩
  · simp [g_hour_minutes, run, Print.extTime, run_hour false (m / 60) (by omega),
      run_minute false (m % 60) (by omega), R.append, stripPrefix]
  · have a : m / 60 < 256 := by omega
    have b : m % 60 < 256 := by omega
    have c : ¬ ((48 < m / 60 ∨ 59 < m % 60) ∨ m / 60 = 48 ∧ 0 < m % 60) := by omega
    simp [buildHourMinutes, assertRule, Tree.rule, Tree.kids, Tree.text, parseBounded,
      natOfDigits_pad2 (m / 60) (by omega), natOfDigits_pad2 (m % 60) (by omega), u8Bound, buildExt,
      ExtendedTime.new, ExtendedTime.mins, a, b, c, bind, Except.bind]
    omega

end OH.Proofs.Syn
