import OH.Proofs.HintYear
/-
Layer B — dated ranges (`MonthdayRange.date`), part T: nothing panics.

`DateOffset.apply` is the pure function `DateOffset.shiftC` (clamped shift, then clamped move to the
target weekday) on representable days: the two `debug_assert!`s are unreachable.  `dateOnYear`,
`boundsOn`, `firstEndFrom`, `singleInterval`, `singleDayFind` are total, hence the filter (on every
day) and the hint.
-/
namespace OH.Model
open OH.Model.Cal

/-! ### `DateOffset::apply` -/

/-- `DateOffset::apply` as a pure function (on representable days) -/
def DateOffset.shiftC (o : DateOffset) (d : Int) : Int :=
  match o.wday with
  | .none => clampDay (d + o.days)
  | .prev t => clampDay (clampDay (d + o.days) - (((7 + weekday (clampDay (d + o.days)) - t) % 7 : Nat) : Int))
  | .next t => clampDay (clampDay (d + o.days) + (((7 + t - weekday (clampDay (d + o.days))) % 7 : Nat) : Int))

theorem clampDay_inRange (x : Int) : minDay ≤ clampDay x ∧ clampDay x ≤ maxDay := by
  have := minDay_eq; have := maxDay_eq
  unfold clampDay; omega

theorem clampDay_mono {x y : Int} (h : x ≤ y) : clampDay x ≤ clampDay y := by
  unfold clampDay; omega

theorem clampDay_of_inRange {x : Int} (h1 : minDay ≤ x) (h2 : x ≤ maxDay) : clampDay x = x := by
  unfold clampDay; omega

theorem DateOffset.apply_eq (o : DateOffset) (hw : o.wf = true) (d : Int) (h1 : minDay ≤ d) (h2 : d ≤ maxDay) :
    o.apply d = .ok (o.shiftC d) := by
  have hmin := minDay_eq; have hmax := maxDay_eq
  simp only [DateOffset.wf, Bool.and_eq_true] at hw
  obtain ⟨hwd, _⟩ := hw
  unfold DateOffset.apply DateOffset.shiftC
  simp only []
  rw [addDaysSat_clamp h1 h2]
  obtain ⟨c1, c2⟩ := clampDay_inRange (d + o.days)
  generalize clampDay (d + o.days) = d1 at *
  cases hwd' : o.wday with
  | none => rfl
  | prev t =>
    rw [hwd'] at hwd
    simp only [WdayOffset.wf, decide_eq_true_eq] at hwd
    simp only []
    rw [addDaysSat_clamp c1 c2]
    rw [if_pos]
    · rfl
    · simp only [Bool.or_eq_true, beq_iff_eq]
      have := weekday_lt d1
      by_cases hc : minDay ≤ d1 + -(((7 + weekday d1 - t) % 7 : Nat) : Int)
      · left
        rw [clampDay_of_inRange hc (by omega)]
        unfold weekday at *; omega
      · right
        unfold clampDay; omega
  | next t =>
    rw [hwd'] at hwd
    simp only [WdayOffset.wf, decide_eq_true_eq] at hwd
    simp only []
    rw [addDaysSat_clamp c1 c2]
    rw [if_pos]
    simp only [Bool.or_eq_true, beq_iff_eq]
    have := weekday_lt d1
    by_cases hc : d1 + (((7 + t - weekday d1) % 7 : Nat) : Int) ≤ maxDay
    · left
      rw [clampDay_of_inRange (by omega) hc]
      unfold weekday at *; omega
    · right
      unfold clampDay; omega

theorem DateOffset.shiftC_inRange (o : DateOffset) (d : Int) : minDay ≤ o.shiftC d ∧ o.shiftC d ≤ maxDay := by
  unfold DateOffset.shiftC
  split <;> exact clampDay_inRange _

/-- the result is within 6 days of the clamped plain shift -/
theorem DateOffset.shiftC_near (o : DateOffset) (d : Int) :
    clampDay (d + o.days) - 6 ≤ o.shiftC d ∧ o.shiftC d ≤ clampDay (d + o.days) + 6 := by
  have hmin := minDay_eq; have hmax := maxDay_eq
  obtain ⟨c1, c2⟩ := clampDay_inRange (d + o.days)
  unfold DateOffset.shiftC
  generalize clampDay (d + o.days) = d1 at *
  split
  · omega
  · unfold clampDay; omega
  · unfold clampDay; omega

/-- direction of the weekday move -/
theorem DateOffset.shiftC_dir (o : DateOffset) (d : Int) :
    (o.wday = .none → o.shiftC d = clampDay (d + o.days)) ∧
    ((∃ t, o.wday = .prev t) → clampDay (d + o.days) - 6 ≤ o.shiftC d ∧ o.shiftC d ≤ clampDay (d + o.days)) ∧
    ((∃ t, o.wday = .next t) → clampDay (d + o.days) ≤ o.shiftC d ∧ o.shiftC d ≤ clampDay (d + o.days) + 6) := by
  have hmin := minDay_eq; have hmax := maxDay_eq
  obtain ⟨c1, c2⟩ := clampDay_inRange (d + o.days)
  unfold DateOffset.shiftC
  generalize clampDay (d + o.days) = d1 at *
  refine ⟨?_, ?_, ?_⟩
  · intro h; rw [h]
  · rintro ⟨t, h⟩; rw [h]; simp only []; unfold clampDay; omega
  · rintro ⟨t, h⟩; rw [h]; simp only []; unfold clampDay; omega

/-- moving back to a weekday is monotone -/
theorem prevWd_mono (t : Nat) (ht : t ≤ 6) {x y : Int} (h : x ≤ y) :
    x - (((7 + weekday x - t) % 7 : Nat) : Int) ≤ y - (((7 + weekday y - t) % 7 : Nat) : Int) := by
  have := weekday_lt x; have := weekday_lt y
  unfold weekday at *; omega

theorem nextWd_mono (t : Nat) (ht : t ≤ 6) {x y : Int} (h : x ≤ y) :
    x + (((7 + t - weekday x) % 7 : Nat) : Int) ≤ y + (((7 + t - weekday y) % 7 : Nat) : Int) := by
  have := weekday_lt x; have := weekday_lt y
  unfold weekday at *; omega

theorem DateOffset.shiftC_mono (o : DateOffset) (hw : o.wf = true) {d d' : Int} (h : d ≤ d') :
    o.shiftC d ≤ o.shiftC d' := by
  simp only [DateOffset.wf, Bool.and_eq_true] at hw
  obtain ⟨hwd, _⟩ := hw
  have hc : clampDay (d + o.days) ≤ clampDay (d' + o.days) := clampDay_mono (by omega)
  unfold DateOffset.shiftC
  cases hwd' : o.wday with
  | none => exact hc
  | prev t =>
    rw [hwd'] at hwd
    simp only [WdayOffset.wf, decide_eq_true_eq] at hwd
    exact clampDay_mono (prevWd_mono t hwd hc)
  | next t =>
    rw [hwd'] at hwd
    simp only [WdayOffset.wf, decide_eq_true_eq] at hwd
    exact clampDay_mono (nextWd_mono t hwd hc)

theorem DateOffset.apply_total (o : DateOffset) (hw : o.wf = true) (d : Int) (h1 : minDay ≤ d) (h2 : d ≤ maxDay) :
    ∃ r, o.apply d = .ok r ∧ minDay ≤ r ∧ r ≤ maxDay :=
  ⟨_, o.apply_eq hw d h1 h2, o.shiftC_inRange d⟩

theorem DateOffset.apply_near (o : DateOffset) (hw : o.wf = true) (d : Int) (h1 : minDay ≤ d) (h2 : d ≤ maxDay)
    (r : Int) (h : o.apply d = .ok r) : clampDay (d + o.days) - 6 ≤ r ∧ r ≤ clampDay (d + o.days) + 6 := by
  rw [o.apply_eq hw d h1 h2] at h
  cases h
  exact o.shiftC_near d

theorem DateOffset.apply_mono (o : DateOffset) (hw : o.wf = true) {d d' : Int} (h1 : minDay ≤ d) (h2 : d ≤ d')
    (h3 : d' ≤ maxDay) (r r' : Int) (e : o.apply d = .ok r) (e' : o.apply d' = .ok r') : r ≤ r' := by
  rw [o.apply_eq hw d h1 (by omega)] at e
  rw [o.apply_eq hw d' (by omega) h3] at e'
  cases e; cases e'
  exact o.shiftC_mono hw h2

/-! ### `date_on_year` -/

theorem firstValidBelow_inRange (y : Int) (m : Nat) (succ : Bool) (n : Nat) (x : Int)
    (h : firstValidBelow y m succ n = some x) : minDay ≤ x ∧ x ≤ maxDay := by
  induction n with
  | zero => simp [firstValidBelow] at h
  | succ n ih =>
    simp only [firstValidBelow] at h
    split at h
    · cases h
    · cases hr : ofYmd? y m (n + 1) with
      | none => rw [hr] at h; exact ih h
      | some r =>
        rw [hr] at h
        have hrr := ofYmd?_inRange hr
        cases succ with
        | false => simp only [Bool.false_eq_true, if_false, Option.some.injEq] at h; omega
        | true =>
          simp only [if_true] at h
          cases hs : succ? r with
          | none => rw [hs] at h; exact ih h
          | some r' =>
            rw [hs] at h
            simp only [Option.some.injEq] at h
            have := succ?_eq_some_iff.1 hs
            omega

theorem dateEnd_inRange : minDay ≤ dateEnd ∧ dateEnd ≤ maxDay := by
  have := minDay_eq; have := maxDay_eq; have := Cal.dateEnd_eq; omega

theorem validYmdBefore_inRange (y : Int) (m d : Nat) (x : Int) (h : validYmdBefore y m d = some x) :
    minDay ≤ x ∧ x ≤ maxDay := by
  unfold validYmdBefore at h
  cases hr : ofYmd? y m d with
  | some r => rw [hr] at h; cases h; exact ofYmd?_inRange hr
  | none => rw [hr] at h; exact firstValidBelow_inRange _ _ _ _ _ h

theorem validYmdAfter_inRange (y : Int) (m d : Nat) (x : Int) (h : validYmdAfter y m d = some x) :
    minDay ≤ x ∧ x ≤ maxDay := by
  unfold validYmdAfter at h
  cases hr : ofYmd? y m d with
  | some r => rw [hr] at h; cases h; exact ofYmd?_inRange hr
  | none => rw [hr] at h; exact firstValidBelow_inRange _ _ _ _ _ h

theorem easter_inRange (y : Int) (x : Int) (h : easter y = .ok (some x)) : minDay ≤ x ∧ x ≤ maxDay := by
  simp only [easter] at h
  split at h
  · cases h
  · split at h
    · cases h
    · simp only [Except.ok.injEq] at h
      exact ofYmd?_inRange h

theorem dateOnYear_total (ds : DateSpec) (_hw : ds.wf = true) (y : Int) (after : Bool) :
    ∃ r, dateOnYear ds y after = .ok r ∧ ∀ x, r = some x → minDay ≤ x ∧ x ≤ maxDay := by
  cases ds with
  | easter yr =>
    have key : ∀ yy : Int, ∃ r, easter yy = .ok r ∧ ∀ x, r = some x → minDay ≤ x ∧ x ≤ maxDay := by
      intro yy
      obtain ⟨r, hr⟩ := easter_no_panic yy
      refine ⟨r, hr, ?_⟩
      intro x hx; subst hx
      exact easter_inRange yy _ hr
    cases yr with
    | none => exact key y
    | some y0 => exact key y0
  | fixed yr m d =>
    cases yr with
    | none =>
      refine ⟨_, rfl, ?_⟩
      intro x hx
      cases after
      · exact validYmdBefore_inRange _ _ _ _ hx
      · exact validYmdAfter_inRange _ _ _ _ hx
    | some yy =>
      simp only [dateOnYear]
      split
      · refine ⟨_, rfl, ?_⟩
        intro x hx
        cases after
        · exact validYmdBefore_inRange _ _ _ _ hx
        · exact validYmdAfter_inRange _ _ _ _ hx
      · exact ⟨none, rfl, by simp⟩

/-- the value of `dateOnYear` as an `Option` (total function) -/
def dateOnYearV (ds : DateSpec) (y : Int) (after : Bool) : Option Int :=
  match dateOnYear ds y after with
  | .ok r => r
  | .error _ => none

theorem dateOnYear_eq (ds : DateSpec) (hw : ds.wf = true) (y : Int) (after : Bool) :
    dateOnYear ds y after = .ok (dateOnYearV ds y after) := by
  obtain ⟨r, hr, _⟩ := dateOnYear_total ds hw y after
  unfold dateOnYearV; rw [hr]

theorem dateOnYearV_inRange (ds : DateSpec) (hw : ds.wf = true) (y : Int) (after : Bool) (x : Int)
    (h : dateOnYearV ds y after = some x) : minDay ≤ x ∧ x ≤ maxDay := by
  obtain ⟨r, hr, hx⟩ := dateOnYear_total ds hw y after
  unfold dateOnYearV at h; rw [hr] at h
  exact hx x h

/-- the shifted projection of a bound on year `y` -/
def boundV (ds : DateSpec) (off : DateOffset) (after : Bool) (y : Int) : Option Int :=
  (dateOnYearV ds y after).map off.shiftC

/-! ### `boundsOn`, `firstEndFrom`, `singleInterval`, `singleDayFind` -/

theorem boundsOn_eq (ds : DateSpec) (off : DateOffset) (hd : ds.wf = true) (ho : off.wf = true) (after : Bool)
    (ys : List Int) : boundsOn ds off after ys = .ok (ys.filterMap (boundV ds off after)) := by
  induction ys with
  | nil => rfl
  | cons y ys ih =>
    simp only [boundsOn, ih, M.bind_ok, dateOnYear_eq ds hd y after, List.filterMap_cons, boundV]
    cases hv : dateOnYearV ds y after with
    | none => rfl
    | some x =>
      obtain ⟨x1, x2⟩ := dateOnYearV_inRange ds hd y after x hv
      simp only [off.apply_eq ho x x1 x2, M.bind_ok, Option.map_some, M.pure_eq]

/-- pure `firstEndFrom` -/
def firstEndV (e : DateSpec) (eo : DateOffset) (start : Int) (ys : List Int) : Option Int :=
  (ys.filterMap (boundV e eo false)).find? (fun x => x ≥ start)

theorem firstEndFrom_eq (e : DateSpec) (eo : DateOffset) (hd : e.wf = true) (ho : eo.wf = true) (start : Int)
    (ys : List Int) : firstEndFrom e eo start ys = .ok (firstEndV e eo start ys) := by
  induction ys with
  | nil => rfl
  | cons y ys ih =>
    simp only [firstEndFrom, ih, M.bind_ok, dateOnYear_eq e hd y false, firstEndV, List.filterMap_cons, boundV]
    cases hv : dateOnYearV e y false with
    | none => rfl
    | some x =>
      obtain ⟨x1, x2⟩ := dateOnYearV_inRange e hd y false x hv
      simp only [eo.apply_eq ho x x1 x2, M.bind_ok, Option.map_some, M.pure_eq, List.find?_cons]
      by_cases hc : eo.shiftC x ≥ start
      · simp [hc]
      · simp [hc, boundV]

/-- pure `singleInterval` -/
def singleIntervalV (s : DateSpec) (so : DateOffset) (e : DateSpec) (eo : DateOffset) : Option (Int × Int) :=
  match dateYear s with
  | none => none
  | some sy =>
    match boundV s so true sy with
    | none => none
    | some start =>
      match dateYear e with
      | some ey =>
        (match boundV e eo false ey with
         | none => none
         | some stop => some (start, stop))
      | none =>
        let y0 := yearBeforeOffset start eo
        some (start, (firstEndV e eo start [y0 - 1, y0, y0 + 1, y0 + 2]).getD dateEnd)

theorem singleInterval_eq (s : DateSpec) (so : DateOffset) (e : DateSpec) (eo : DateOffset)
    (hw : (MonthdayRange.date s so e eo).wf = true) :
    singleInterval s so e eo = .ok (singleIntervalV s so e eo) := by
  simp only [MonthdayRange.wf, Bool.and_eq_true] at hw
  obtain ⟨⟨⟨hs, hso⟩, he⟩, heo⟩ := hw
  unfold singleInterval singleIntervalV
  cases hsy : dateYear s with
  | none => rfl
  | some sy =>
    simp only [dateOnYear_eq s hs sy true, M.bind_ok, boundV]
    cases hv : dateOnYearV s sy true with
    | none => rfl
    | some s0 =>
      obtain ⟨x1, x2⟩ := dateOnYearV_inRange s hs sy true s0 hv
      simp only [so.apply_eq hso s0 x1 x2, M.bind_ok, Option.map_some]
      cases hey : dateYear e with
      | some ey =>
        simp only [dateOnYear_eq e he ey false, M.bind_ok]
        cases hv' : dateOnYearV e ey false with
        | none => rfl
        | some e0 =>
          obtain ⟨y1, y2⟩ := dateOnYearV_inRange e he ey false e0 hv'
          simp only [eo.apply_eq heo e0 y1 y2, M.bind_ok, Option.map_some, M.pure_eq]
      | none =>
        simp only [firstEndFrom_eq e eo he heo, M.bind_ok]
        generalize firstEndV e eo (so.shiftC s0) _ = r
        cases r <;> rfl

/-- pure `singleDayFind` -/
def singleDayV (m dd : Nat) (so eo : DateOffset) (d : Int) : List Int → Option (Int × Int)
  | [] => none
  | y :: ys =>
    match ofYmd? y m dd with
    | none => singleDayV m dd so eo d ys
    | some f => if eo.shiftC f ≥ d then some (so.shiftC f, eo.shiftC f) else singleDayV m dd so eo d ys

theorem singleDayFind_eq (m dd : Nat) (so eo : DateOffset) (hso : so.wf = true) (heo : eo.wf = true) (d : Int)
    (ys : List Int) : singleDayFind m dd so eo d ys = .ok (singleDayV m dd so eo d ys) := by
  induction ys with
  | nil => rfl
  | cons y ys ih =>
    simp only [singleDayFind, singleDayV]
    cases hf : ofYmd? y m dd with
    | none => exact ih
    | some f =>
      obtain ⟨x1, x2⟩ := ofYmd?_inRange hf
      simp only [so.apply_eq hso f x1 x2, eo.apply_eq heo f x1 x2, M.bind_ok, M.pure_eq]
      split
      · rfl
      · exact ih

/-! ### the filter and the hint as pure functions -/

/-- the single-day path is taken for `s = e = .fixed fy m dd` (with or without a year) -/
def singleDayOf (s e : DateSpec) : Option (Option Nat × Nat × Nat) :=
  match s with
  | .fixed fy m dd => if DateSpec.fixed fy m dd = e then some (fy, m, dd) else none
  | _ => none

/-- the years searched by the single-day path: the year of the date if it carries one, else a
window around the year `y` of the day -/
def sdYears (fy : Option Nat) (y : Int) (after : Nat) : List Int :=
  match fy with
  | some fy => [(fy : Int)]
  | none => yearsAround y 1 after

/-- what the single-day filter and hint make of the occurrence found -/
def sdRes (d : Int) : Option (Int × Int) → Bool
  | none => false
  | some r => r.1 ≤ d && d ≤ r.2

def sdNext (d : Int) : Option (Int × Int) → Int
  | none => dateEnd
  | some r => if r.1 ≤ d then (succ? r.2).getD dateEnd else r.1

/-- pure dated filter -/
def datedFilterV (s : DateSpec) (so : DateOffset) (e : DateSpec) (eo : DateOffset) (d : Int) : Bool :=
  match singleDayOf s e with
  | some (fy, m, dd) => sdRes d (singleDayV m dd so eo d (sdYears fy (yearBeforeOffset d eo) 8))
  | none =>
    match singleIntervalV s so e eo with
    | some iv => iv.1 ≤ d && d ≤ iv.2
    | none =>
      isOpenFromIntervals d (intervalsFromBounds ((yearsAround (yearBeforeOffset d so) 2 2).filterMap (boundV s so true))
        ((yearsAround (yearBeforeOffset d eo) 2 2).filterMap (boundV e eo false)))

/-- pure dated hint -/
def datedHintV (s : DateSpec) (so : DateOffset) (e : DateSpec) (eo : DateOffset) (d : Int) : Int :=
  match singleDayOf s e with
  | some (fy, m, dd) => sdNext d (singleDayV m dd so eo d (sdYears fy (yearBeforeOffset d eo) 10))
  | none =>
    match singleIntervalV s so e eo with
    | some iv => nextChangeFromIntervals d [iv]
    | none =>
      nextChangeFromIntervals d (intervalsFromBounds ((yearsAround (yearBeforeOffset d so) 2 10).filterMap (boundV s so true))
        ((yearsAround (yearBeforeOffset d eo) 2 10).filterMap (boundV e eo false)))

theorem MonthdayRange.date_filter_eq (s : DateSpec) (so : DateOffset) (e : DateSpec) (eo : DateOffset)
    (hw : (MonthdayRange.date s so e eo).wf = true) (d : Int) :
    (MonthdayRange.date s so e eo).filter d = .ok (datedFilterV s so e eo d) := by
  have hsi := singleInterval_eq s so e eo hw
  simp only [MonthdayRange.wf, Bool.and_eq_true] at hw
  obtain ⟨⟨⟨hs, hso⟩, he⟩, heo⟩ := hw
  unfold MonthdayRange.filter datedFilterV
  have hgen : ∀ s : DateSpec, s.wf = true → singleInterval s so e eo = .ok (singleIntervalV s so e eo) → (do
      match ← singleInterval s so e eo with
      | some iv => pure (decide (iv.1 ≤ d) && decide (d ≤ iv.2))
      | none =>
        let starts ← boundsOn s so true (yearsAround (yearBeforeOffset d so) 2 2)
        let ends ← boundsOn e eo false (yearsAround (yearBeforeOffset d eo) 2 2)
        pure (isOpenFromIntervals d (intervalsFromBounds starts ends)) : M Bool) =
      .ok (match singleIntervalV s so e eo with
        | some iv => decide (iv.1 ≤ d) && decide (d ≤ iv.2)
        | none => isOpenFromIntervals d (intervalsFromBounds ((yearsAround (yearBeforeOffset d so) 2 2).filterMap (boundV s so true))
          ((yearsAround (yearBeforeOffset d eo) 2 2).filterMap (boundV e eo false)))) := by
    intro s hs hsi
    simp only [hsi, M.bind_ok]
    cases singleIntervalV s so e eo with
    | some iv => rfl
    | none => simp only [boundsOn_eq s so hs hso, boundsOn_eq e eo he heo, M.bind_ok, M.pure_eq]
  cases s with
  | easter yr => exact hgen _ hs hsi
  | fixed yr m dd =>
    by_cases h : DateSpec.fixed yr m dd = e
    · have hb : (DateSpec.fixed yr m dd == e) = true := by simpa using h
      simp only [hb, singleDayOf, if_pos h, singleDayFind_eq _ _ so eo hso heo, M.bind_ok]
      cases yr <;> simp only [sdYears]
      all_goals
        generalize singleDayV m dd so eo d _ = r
        cases r <;> rfl
    · have hb : (DateSpec.fixed yr m dd == e) = false := by simpa using h
      simp only [hb, singleDayOf, if_neg h]
      exact hgen _ hs hsi

theorem MonthdayRange.date_hint_eq (s : DateSpec) (so : DateOffset) (e : DateSpec) (eo : DateOffset)
    (hw : (MonthdayRange.date s so e eo).wf = true) (d : Int) :
    (MonthdayRange.date s so e eo).hint d = .ok (some (datedHintV s so e eo d)) := by
  have hsi := singleInterval_eq s so e eo hw
  simp only [MonthdayRange.wf, Bool.and_eq_true] at hw
  obtain ⟨⟨⟨hs, hso⟩, he⟩, heo⟩ := hw
  unfold MonthdayRange.hint datedHintV
  have hgen : ∀ s : DateSpec, s.wf = true → singleInterval s so e eo = .ok (singleIntervalV s so e eo) → (do
      match ← singleInterval s so e eo with
      | some iv => pure (some (nextChangeFromIntervals d [iv]))
      | none =>
        let starts ← boundsOn s so true (yearsAround (yearBeforeOffset d so) 2 10)
        let ends ← boundsOn e eo false (yearsAround (yearBeforeOffset d eo) 2 10)
        pure (some (nextChangeFromIntervals d (intervalsFromBounds starts ends))) : M (Option Int)) =
      .ok (some (match singleIntervalV s so e eo with
        | some iv => nextChangeFromIntervals d [iv]
        | none => nextChangeFromIntervals d (intervalsFromBounds ((yearsAround (yearBeforeOffset d so) 2 10).filterMap (boundV s so true))
          ((yearsAround (yearBeforeOffset d eo) 2 10).filterMap (boundV e eo false))))) := by
    intro s hs hsi
    simp only [hsi, M.bind_ok]
    cases singleIntervalV s so e eo with
    | some iv => rfl
    | none => simp only [boundsOn_eq s so hs hso, boundsOn_eq e eo he heo, M.bind_ok, M.pure_eq]
  cases s with
  | easter yr => exact hgen _ hs hsi
  | fixed yr m dd =>
    by_cases h : DateSpec.fixed yr m dd = e
    · have hb : (DateSpec.fixed yr m dd == e) = true := by simpa using h
      simp only [hb, singleDayOf, if_pos h, singleDayFind_eq _ _ so eo hso heo, M.bind_ok]
      cases yr <;> simp only [sdYears]
      all_goals
        generalize singleDayV m dd so eo d _ = r
        cases r <;> rfl
    · have hb : (DateSpec.fixed yr m dd == e) = false := by simpa using h
      simp only [hb, singleDayOf, if_neg h]
      exact hgen _ hs hsi

theorem MonthdayRange.filter_total (r : MonthdayRange) (hw : r.wf = true) (d : Int) : ∃ b, r.filter d = .ok b := by
  cases r with
  | month lo hi yr => exact ⟨_, rfl⟩
  | date s so e eo => exact ⟨_, MonthdayRange.date_filter_eq s so e eo hw d⟩

theorem MonthdayRange.date_hint_total (s : DateSpec) (so : DateOffset) (e : DateSpec) (eo : DateOffset)
    (hw : (MonthdayRange.date s so e eo).wf = true) (d : Int) :
    ∃ h, (MonthdayRange.date s so e eo).hint d = .ok (some h) :=
  ⟨_, MonthdayRange.date_hint_eq s so e eo hw d⟩

end OH.Model
