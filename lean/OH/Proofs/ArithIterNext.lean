import OH.Generated.Arith
import OH.Proofs.ArithSched
import OH.Proofs.ArithIter
/-
Helper definitions of `OH/Props/ArithC02IterNext.lean` (rs2lean, seventh increment, tag `iter`, second part): the generated
`TimeDomainIterator` at the model's types, its reading as the model's `ItState`, and the values of the named parameters of
the generated `next` (`try_into()` of `ExtendedTime` on minute counts, `consume_until_next_kind` as the model's `consume`).
-/
namespace OH.Proofs.ArithIterNext
open OH.Model OH.Model.RustInt OH.Generated.Arith OH.Generated.Arith.Localize OH.Proofs.ArithIter

/-! ### `<TimeDomainIterator as Iterator>::next` -/

open OH.Proofs.ArithSched in
/-- the generated iterator at the model's types: `ExtendedTime` = its minute count, `OpeningHours<L>` = the day level `Env` -/
abbrev GState := TimeDomainIterator Nat Kind (List String) Env

open OH.Proofs.ArithSched in
/-- the model's iterator state of a generated one -/
def toSt (s : GState) : ItState := ⟨s.curr_date, s.curr_schedule.map toM⟩

open OH.Proofs.ArithSched in
/-- a model state put back into the generated iterator `s` (the fields `next` never writes are kept) -/
def ofSt (s : GState) (st : ItState) : GState := ⟨s.opening_hours, st.date, st.sched.map ofM, s.end_datetime⟩

/-- the panic of a model error: `.expect("got invalid time from schedule")` on a `Result<_, ()>` prints `: ()` -/
def panicNext (p : String) : Err :=
  if p = "opening_hours.rs:next got invalid time from schedule" then .panic "got invalid time from schedule: ()" else .panic p

/-- `<ExtendedTime as TryInto<NaiveTime>>::try_into` on minute counts: `NaiveTime::from_hms_opt(hour, minute, 0).ok_or(())` -/
def tryIntoNaiveTime (m : Nat) : Option Int := if m < 1440 then some ((m : Int) * nsPerMin) else none

/-- `consume_until_next_kind` as the model computes it (`consume`; `start_date` = the current date on entry) -/
def consumeOf (s : GState) (k : Kind) : R GState :=
  match consume s.opening_hours (instDay s.end_datetime) s.curr_date k (toSt s) with
  | .ok st => .ok (ofSt s st)
  | .error p => .error (panicNext p)

/-- an outcome of the model's `itNext` as an outcome of the generated `next` on `s` -/
def liftNext (s : GState) : M (Option (Interval × ItState)) → R (Option DN × GState)
  | .ok none => .ok (none, s)
  | .ok (some (iv, st)) => .ok (some (ofIv iv), ofSt s st)
  | .error p => .error (panicNext p)

theorem cmpMin_eq_min (a b : Int) : cmpMin a b = min a b := by
  unfold cmpMin
  simp only [Int.min_def]
  split <;> split <;> omega

end OH.Proofs.ArithIterNext
