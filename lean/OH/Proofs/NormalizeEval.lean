import OH.Proofs.Normalize
import OH.Props.C14
import OH.Props.Calendar
import OH.Proofs.CalendarEval
import OH.Model.Iter
/-
C07: the link between the paving and the evaluator (`OH.Model.scheduleAt`).

 * Step B (`tail_equiv`): the loop body of `schedule_at` only looks at the *kinds, minute by minute,* of
   the schedule accumulated so far (and never at the `matched` flag): two accumulated schedules that
   show the same kind at every minute of the day are indistinguishable for all the rules that follow.
 * Step A (`prefix_reads_paving`): folding canonical rules with `schedule_at`'s loop body gives, at
   every minute `m` of day `d`, the kind stored in the paving `normalize` builds from the same rules at
   the point (m, year d, month d, ISO week d, weekday d) — this contains (b): the canonical selector of
   a rule is the evaluator's day filter and time selector seen as a set of points.
-/
namespace OH.Proofs.NormalizeEval
open OH.Model OH.Model.Cal OH.Model.Norm OH.Model.Schedule OH.Spec.Schedule OH.Proofs.Schedule
open OH.Proofs.Normalize OH.Proofs.Paving

/-! ## schedules accumulated by `schedule_at` (`Option<Schedule>`) -/

/-- what `schedule_at` can accumulate: ranges non-empty, increasing, within 00:00-24:00 -/
def EvOK (ev : Option Schedule) : Prop :=
  match ev with
  | none => True
  | some s => WF s ∧ Within 1440 s

def stateOpt (ev : Option Schedule) (m : Nat) : Option Kind :=
  match ev with
  | none => none
  | some s => stateAt s m

/-- the kind `schedule_at(..).into_iter()` shows at minute `m` if `ev` is the final value -/
def kindAt (ev : Option Schedule) (m : Nat) : Kind := (stateOpt ev m).getD Kind.closed

theorem kindAt_eq_dayState (ev : Option Schedule) (m : Nat) : kindAt ev m = dayState (ev.getD []) m := by
  cases ev <;> simp [kindAt, stateOpt, dayState, stateAt]

/-- the overlay `match (prev, curr) { (Some p, Some c) => Some(p.addition(c)), (p, c) => p.or(c) }` -/
def addOpt (p c : Option Schedule) : Option Schedule :=
  match p, c with
  | some p, some c => some (p.addition c)
  | p, c => p <|> c

theorem addOpt_ok (p c : Option Schedule) (hp : EvOK p) (hc : EvOK c) : EvOK (addOpt p c) := by
  cases p with
  | none => cases c <;> simpa [addOpt] using hc
  | some p =>
    cases c with
    | none => simpa [addOpt] using hp
    | some c =>
      exact ⟨OH.Props.C14.addition_wf p c hp.1 hc.1, OH.Props.C14.addition_within 1440 p c hp.1 hc.1 hp.2 hc.2⟩

theorem addOpt_state (p c : Option Schedule) (hp : EvOK p) (hc : EvOK c) (m : Nat) :
    stateOpt (addOpt p c) m = (stateOpt c m).or (stateOpt p m) := by
  cases p with
  | none => cases c <;> simp [addOpt, stateOpt]
  | some p =>
    cases c with
    | none => simp [addOpt, stateOpt]
    | some c => exact OH.Props.C14.addition_state p c hp.1 hc.1 m

theorem addOpt_kindAt (p c : Option Schedule) (hp : EvOK p) (hc : EvOK c) (m : Nat) :
    kindAt (addOpt p c) m = match stateOpt c m with | some k => k | none => kindAt p m := by
  simp only [kindAt, addOpt_state p c hp hc m]
  cases stateOpt c m <;> simp

/-- `prev_eval.as_ref().map(Schedule::is_always_closed).unwrap_or(true)` -/
def alwaysClosedOpt (ev : Option Schedule) : Bool := (ev.map Schedule.isAlwaysClosed).getD true

theorem alwaysClosedOpt_iff (ev : Option Schedule) (h : EvOK ev) :
    alwaysClosedOpt ev = true ↔ ∀ m, m < 1440 → kindAt ev m = Kind.closed := by
  cases ev with
  | none => simp [alwaysClosedOpt, kindAt, stateOpt]
  | some s =>
    simp only [alwaysClosedOpt, Option.map_some, Option.getD_some]
    constructor
    · intro hc m _
      rw [kindAt_eq_dayState]
      exact OH.Props.C14.isAlwaysClosed_dayState s hc m
    · intro hall
      rw [OH.Props.C14.isAlwaysClosed_iff]
      intro t ht
      have hne := wf_nonempty s h.1 t ht
      have hw := h.2 t ht
      have := hall t.s (by omega)
      rw [kindAt_eq_dayState] at this
      simp only [Option.getD_some, dayState, stateAt_of_mem s h.1 t ht t.s ⟨Nat.le_refl _, hne⟩,
        Option.getD_some] at this
      exact this

/-! ## the loop body of `schedule_at` as a function of the accumulated schedule -/

/-- the new accumulated schedule, given the rule's own day match and schedule -/
def stepEval (op : RuleOp) (kind : Kind) (currMatch : Bool) (prev curr : Option Schedule) : Option Schedule :=
  match op, kind with
  | .normal, .open | .normal, .unknown => if currMatch then curr else addOpt prev curr
  | .additional, _ | .normal, .closed => addOpt prev curr
  | .fallback, _ => if !(alwaysClosedOpt prev) then prev else curr

theorem scheduleStep_filter_error (ctx : Ctx) (d : Int) (st : Bool × Option Schedule) (r : Rule) (e : String)
    (h : r.day.filter ctx d = .error e) : scheduleStep ctx d st r = .error e := by
  obtain ⟨b, prev⟩ := st
  simp [scheduleStep, h, bind, Except.bind]

theorem scheduleStep_eval_error (ctx : Ctx) (d : Int) (st : Bool × Option Schedule) (r : Rule) (cm : Bool) (e : String)
    (h1 : r.day.filter ctx d = .ok cm) (h2 : ruleScheduleAt ctx r d = .error e) :
    scheduleStep ctx d st r = .error e := by
  obtain ⟨b, prev⟩ := st
  simp [scheduleStep, h1, h2, bind, Except.bind]

theorem scheduleStep_ok (ctx : Ctx) (d : Int) (b : Bool) (prev : Option Schedule) (r : Rule) (cm : Bool)
    (ce : Option Schedule) (h1 : r.day.filter ctx d = .ok cm) (h2 : ruleScheduleAt ctx r d = .ok ce) :
    ∃ st', scheduleStep ctx d (b, prev) r = .ok st' ∧ st'.2 = stepEval r.op r.kind cm prev ce := by
  unfold scheduleStep stepEval
  simp only [h1, h2, bind, Except.bind, pure, Except.pure]
  cases r.op <;> cases r.kind <;> simp only [addOpt, alwaysClosedOpt]
  all_goals first
    | exact ⟨_, rfl, rfl⟩
    | (by_cases hc : (!(Option.map isAlwaysClosed prev).getD true) = true
       · simp only [hc, if_true]; exact ⟨_, rfl, by simp⟩
       · simp only [hc]; exact ⟨_, rfl, by simp⟩)

/-! ## every rule's own schedule is within the day -/

theorem fromRanges_evok (L : List (Nat × Nat)) (k : Kind) (c : List String)
    (h : ∀ r ∈ L, r.2 ≤ 1440) : EvOK (some (fromRanges L k c)) := by
  have hw := OH.Props.C14.fromRanges_wf L k c
  refine ⟨hw, within_of_stateAt 1440 _ hw ?_⟩
  intro m hm
  rw [OH.Props.C14.fromRanges_covers]
  unfold fromSpec
  rw [if_neg]
  rintro ⟨r, hr, _, h2⟩
  have := h r hr
  omega

theorem pwf_nonempty : ∀ (l : List (Nat × Nat)), PWF l → ∀ r ∈ l, r.1 < r.2 := by
  intro l
  induction l with
  | nil => intro _ r hr; cases hr
  | cons t ts ih =>
    intro h r hr
    rcases List.mem_cons.mp hr with rfl | hr'
    · exact h.1
    · exact ih h.2.2 r hr'

theorem rangesUnion_le (X : List (Nat × Nat)) (lim : Nat) (h : ∀ r ∈ X, r.1 < r.2 ∧ r.2 ≤ lim) :
    ∀ r ∈ rangesUnion X, r.2 ≤ lim := by
  intro r hr
  have hp := OH.Props.C14.rangesUnion_wf X (fun x hx => (h x hx).1)
  -- every range of the union is non-empty, so it covers its last minute, which an input range covers
  have hne : r.1 < r.2 := pwf_nonempty _ hp r hr
  have := (OH.Props.C14.rangesUnion_covers X (r.2 - 1)).mp ⟨r, hr, by omega, by omega⟩
  obtain ⟨x, hx, _, h2⟩ := this
  have := (h x hx).2
  omega

theorem intervalsAt_le (ctx : Ctx) (ts : List TimeSpan) (d : Int) (L : List (Nat × Nat))
    (h : intervalsAt ctx ts d = .ok L) : ∀ r ∈ L, r.2 ≤ 1440 := by
  simp only [intervalsAt, bind, Except.bind, pure, Except.pure] at h
  split at h
  · cases h
  · rename_i rs _
    cases h
    apply rangesUnion_le
    intro r hr
    simp only [List.mem_filterMap] at hr
    obtain ⟨a, _, ha⟩ := hr
    have := OH.Props.C14.rangeIntersection_some a (0, 1440) r ha
    refine ⟨this.1, ?_⟩
    have h2 := (this.2 (r.2 - 1)).mp ⟨by omega, by omega⟩
    simp only at h2
    omega

theorem intervalsAtNextDay_le (ctx : Ctx) (ts : List TimeSpan) (d : Int) (L : List (Nat × Nat))
    (h : intervalsAtNextDay ctx ts d = .ok L) : ∀ r ∈ L, r.2 ≤ 1440 := by
  simp only [intervalsAtNextDay, bind, Except.bind, pure, Except.pure] at h
  split at h
  · cases h
  · rename_i rs _
    cases h
    apply rangesUnion_le
    intro r hr
    simp only [List.mem_map, List.mem_filterMap] at hr
    obtain ⟨q, ⟨a, _, ha⟩, rfl⟩ := hr
    have := OH.Props.C14.rangeIntersection_some a (1440, 2880) q ha
    have h2 := (this.2 (q.2 - 1)).mp ⟨by omega, by omega⟩
    have h3 := (this.2 q.1).mp ⟨by omega, this.1⟩
    simp only at h2 h3
    simp only
    omega

/-- the part of `rule_sequence_schedule_at` for the rule matching today -/
def todayPart (ctx : Ctx) (r : Rule) (d : Int) : M (Option Schedule) :=
  match r.day.filter ctx d with
  | .error e => .error e
  | .ok b =>
    if b = true then
      match intervalsAt ctx r.time d with
      | .error e => .error e
      | .ok rs => .ok (some (fromRanges rs r.kind r.comments))
    else .ok none

/-- the part for the rule matching yesterday (a time span continued past midnight) -/
def yesterdayPart (ctx : Ctx) (r : Rule) (d : Int) : M (Option Schedule) :=
  match pred? d with
  | none => .ok none
  | some p =>
    match r.day.filter ctx p with
    | .error e => .error e
    | .ok b =>
      if b = true then
        match intervalsAtNextDay ctx r.time p with
        | .error e => .error e
        | .ok rs => .ok (some (fromRanges rs r.kind r.comments))
      else .ok none

def combineParts (t y : Option Schedule) : Option Schedule :=
  match t, y with
  | some a, some b => some (a.addition b)
  | some a, none => some a
  | none, y => y

theorem ruleScheduleAt_eq (ctx : Ctx) (r : Rule) (d : Int) :
    ruleScheduleAt ctx r d =
      match todayPart ctx r d with
      | .error e => .error e
      | .ok t =>
        match yesterdayPart ctx r d with
        | .error e => .error e
        | .ok y => .ok (combineParts t y) := by
  simp only [ruleScheduleAt, todayPart, yesterdayPart, combineParts, bind, Except.bind, pure, Except.pure]
  cases r.day.filter ctx d with
  | error e => rfl
  | ok b =>
    cases b with
    | true =>
      simp only [if_true]
      cases intervalsAt ctx r.time d with
      | error e => rfl
      | ok rs =>
        simp only
        cases pred? d with
        | none => rfl
        | some p =>
          simp only
          cases r.day.filter ctx p with
          | error e => rfl
          | ok b2 =>
            cases b2 with
            | true =>
              simp only [if_true]
              cases intervalsAtNextDay ctx r.time p <;> rfl
            | false => rfl
    | false =>
      simp only [Bool.false_eq_true, if_false]
      cases pred? d with
      | none => rfl
      | some p =>
        simp only
        cases r.day.filter ctx p with
        | error e => rfl
        | ok b2 =>
          cases b2 with
          | true =>
            simp only [if_true]
            cases intervalsAtNextDay ctx r.time p <;> rfl
          | false => rfl

theorem todayPart_evok (ctx : Ctx) (r : Rule) (d : Int) (t : Option Schedule) (h : todayPart ctx r d = .ok t) :
    EvOK t := by
  unfold todayPart at h
  split at h
  · cases h
  · split at h
    · split at h
      · cases h
      · rename_i rs hrs
        cases h
        exact fromRanges_evok rs _ _ (intervalsAt_le ctx r.time d rs hrs)
    · cases h; trivial

theorem yesterdayPart_evok (ctx : Ctx) (r : Rule) (d : Int) (t : Option Schedule) (h : yesterdayPart ctx r d = .ok t) :
    EvOK t := by
  unfold yesterdayPart at h
  split at h
  · cases h; trivial
  · split at h
    · cases h
    · split at h
      · split at h
        · cases h
        · rename_i rs hrs
          cases h
          exact fromRanges_evok rs _ _ (intervalsAtNextDay_le ctx r.time _ rs hrs)
      · cases h; trivial

theorem combineParts_evok (t y : Option Schedule) (ht : EvOK t) (hy : EvOK y) : EvOK (combineParts t y) := by
  cases t with
  | none => exact hy
  | some a =>
    cases y with
    | none => exact ht
    | some b =>
      exact ⟨OH.Props.C14.addition_wf a b ht.1 hy.1, OH.Props.C14.addition_within 1440 a b ht.1 hy.1 ht.2 hy.2⟩

/-- `rule_sequence_schedule_at` returns a schedule within the day -/
theorem ruleScheduleAt_evok (ctx : Ctx) (r : Rule) (d : Int) (ce : Option Schedule)
    (h : ruleScheduleAt ctx r d = .ok ce) : EvOK ce := by
  rw [ruleScheduleAt_eq] at h
  split at h
  · cases h
  · rename_i t ht
    split at h
    · cases h
    · rename_i y hy
      cases h
      exact combineParts_evok t y (todayPart_evok ctx r d t ht) (yesterdayPart_evok ctx r d y hy)

/-! ## Step B: the rules that follow cannot tell two equivalent accumulated schedules apart -/

/-- same kind at every minute of the day -/
def Equiv (a b : Option Schedule) : Prop :=
  EvOK a ∧ EvOK b ∧ ∀ m, m < 1440 → kindAt a m = kindAt b m

theorem equiv_refl (a : Option Schedule) (h : EvOK a) : Equiv a a := ⟨h, h, fun _ _ => rfl⟩

theorem stepEval_equiv (op : RuleOp) (kind : Kind) (cm : Bool) (p1 p2 ce : Option Schedule)
    (h : Equiv p1 p2) (hc : EvOK ce) : Equiv (stepEval op kind cm p1 ce) (stepEval op kind cm p2 ce) := by
  obtain ⟨h1, h2, hk⟩ := h
  have hadd : Equiv (addOpt p1 ce) (addOpt p2 ce) := by
    refine ⟨addOpt_ok _ _ h1 hc, addOpt_ok _ _ h2 hc, fun m hm => ?_⟩
    rw [addOpt_kindAt p1 ce h1 hc, addOpt_kindAt p2 ce h2 hc, hk m hm]
  have hac : alwaysClosedOpt p1 = alwaysClosedOpt p2 := by
    have i1 := alwaysClosedOpt_iff p1 h1
    have i2 := alwaysClosedOpt_iff p2 h2
    cases hc1 : alwaysClosedOpt p1 with
    | true =>
      have := i1.mp hc1
      exact (i2.mpr (fun m hm => by rw [← hk m hm]; exact this m hm)).symm
    | false =>
      cases hc2 : alwaysClosedOpt p2 with
      | false => rfl
      | true =>
        have := i2.mp hc2
        have := i1.mpr (fun m hm => by rw [hk m hm]; exact this m hm)
        rw [hc1] at this; cases this
  unfold stepEval
  cases op <;> cases kind <;> simp only
  all_goals first
    | exact hadd
    | (split
       · exact equiv_refl ce hc
       · exact hadd)
    | (rw [hac]
       split
       · exact ⟨h1, h2, hk⟩
       · exact equiv_refl ce hc)

/-- **Step B** -/
theorem tail_equiv (ctx : Ctx) (d : Int) (m : Nat) (hm : m < 1440) : ∀ (l : List Rule) (b1 b2 : Bool)
    (p1 p2 : Option Schedule), Equiv p1 p2 →
    (foldM' (scheduleStep ctx d) (b1, p1) l).map (fun st => kindAt st.2 m)
      = (foldM' (scheduleStep ctx d) (b2, p2) l).map (fun st => kindAt st.2 m) := by
  intro l
  induction l with
  | nil =>
    intro b1 b2 p1 p2 h
    simp only [foldM', Except.map]
    rw [h.2.2 m hm]
  | cons r l ih =>
    intro b1 b2 p1 p2 h
    simp only [foldM', bind, Except.bind]
    cases hf : r.day.filter ctx d with
    | error e =>
      rw [scheduleStep_filter_error ctx d _ r e hf, scheduleStep_filter_error ctx d _ r e hf]
    | ok cm =>
      cases he : ruleScheduleAt ctx r d with
      | error e =>
        rw [scheduleStep_eval_error ctx d _ r cm e hf he, scheduleStep_eval_error ctx d _ r cm e hf he]
      | ok ce =>
        obtain ⟨st1, hs1, hv1⟩ := scheduleStep_ok ctx d b1 p1 r cm ce hf he
        obtain ⟨st2, hs2, hv2⟩ := scheduleStep_ok ctx d b2 p2 r cm ce hf he
        rw [hs1, hs2]
        simp only
        obtain ⟨c1, q1⟩ := st1
        obtain ⟨c2, q2⟩ := st2
        simp only at hv1 hv2
        subst hv1; subst hv2
        exact ih c1 c2 _ _ (stepEval_equiv r.op r.kind cm p1 p2 ce h (ruleScheduleAt_evok ctx r d ce he))

/-! ## (b) the canonical selector of a rule is the evaluator's filter -/

section listfilter
set_option linter.unusedSectionVars false
variable {α T : Type} [LT T] [LE T] [DecidableLT T] [DecidableLE T]

theorem splitInvertedRange_ne_nil (B : Bounded T) (rg : T × T) : splitInvertedRange B rg ≠ [] := by
  unfold splitInvertedRange; split <;> simp

theorem anyM_go (B : Bounded T) (mk : α → NM (Option (T × T))) (f : α → M Bool) (a : T) :
    ∀ (l : List α) (L0 : List (T × T)), tryFromIterGo B mk l = .ok (some L0) →
    (∀ x ∈ l, ∀ rg, mk x = .ok (some rg) → f x = .ok (inRanges (splitInvertedRange B rg) a)) →
    anyM f l = .ok (inRanges L0 a) ∧ (l ≠ [] → L0 ≠ []) := by
  intro l
  induction l with
  | nil =>
    intro L0 h _
    simp only [tryFromIterGo, Except.ok.injEq, Option.some.injEq] at h
    subst h
    exact ⟨rfl, fun h => absurd rfl h⟩
  | cons x l ih =>
    intro L0 h hel
    simp only [tryFromIterGo] at h
    split at h
    · cases h
    · cases h
    · rename_i rg hmk
      split at h
      · cases h
      · cases h
      · rename_i rs hrs
        simp only [Except.ok.injEq, Option.some.injEq] at h
        subst h
        obtain ⟨h1, _⟩ := ih rs hrs (fun y hy => hel y (List.mem_cons_of_mem _ hy))
        refine ⟨?_, fun _ h' => splitInvertedRange_ne_nil B rg (List.append_eq_nil_iff.mp h').1⟩
        simp only [anyM, bind, Except.bind, hel x (by simp) rg hmk, pure, Except.pure]
        cases hx : inRanges (splitInvertedRange B rg) a with
        | true => simp [inRanges] at hx ⊢; exact Or.inl hx
        | false =>
          simp only [Bool.false_eq_true, if_false]
          rw [h1]
          congr 1
          simp only [inRanges] at hx ⊢
          simp [hx]

/-- a selector list seen through `try_from_iterator` is the evaluator's `[T]::filter` -/
theorem listFilter_canon (B : Bounded T) (mk : α → NM (Option (T × T))) (f : α → M Bool) (a : T)
    (l : List α) (L : List (T × T)) (h : tryFromIterator B mk l = .ok (some L))
    (hel : ∀ x ∈ l, ∀ rg, mk x = .ok (some rg) → f x = .ok (inRanges (splitInvertedRange B rg) a))
    (hb : inRanges [B.bounds] a = true) : listFilter f l = .ok (inRanges L a) := by
  unfold tryFromIterator at h
  split at h
  · cases h
  · cases h
  · rename_i L0 hgo
    simp only [Except.ok.injEq, Option.some.injEq] at h
    subst h
    obtain ⟨h1, h2⟩ := anyM_go B mk f a l L0 hgo hel
    unfold listFilter
    cases l with
    | nil =>
      simp only [tryFromIterGo, Except.ok.injEq, Option.some.injEq] at hgo
      subst hgo
      simp [hb]
    | cons x l =>
      have := h2 (by simp)
      simp only [List.isEmpty_cons, Bool.false_eq_true, if_false]
      rw [h1]
      cases L0 with
      | nil => exact absurd rfl this
      | cons r rs => simp

end listfilter

/-- the point of the canonical day space a day falls on -/
def pt (d : Int) : Point4 := (.val (year d).toNat, .val (month d), .val (isoWeek d), .val (weekday d), ())

theorem year_window {d : Int} (h : dateStart ≤ d ∧ d < dateEnd) : 1900 ≤ year d ∧ year d ≤ 9999 := by
  have h1 := (OH.Props.Calendar.lt_ymdRaw_jan1_iff d 1900)
  have h2 := (OH.Props.Calendar.lt_ymdRaw_jan1_iff d 10000)
  have e1 : dateStart = ymdRaw 1900 1 1 := rfl
  have e2 : dateEnd = ymdRaw 10000 1 1 := rfl
  rw [← e1] at h1
  rw [← e2] at h2
  have := h2.mp h.2
  have : ¬ year d < 1900 := fun hc => by have := h1.mpr hc; omega
  omega

theorem frame_inRanges_val_val (lo hi y : Nat) :
    inRanges [(Frame.val lo, Frame.val hi)] (Frame.val y) = (decide (lo ≤ y) && decide (y < hi)) := by
  simp [inRanges, Frame.le_def, Frame.lt_def, Frame.leB, Frame.ltB]

theorem frame_inRanges_val_fin (lo y : Nat) :
    inRanges [(Frame.val lo, Frame.fin)] (Frame.val y) = decide (lo ≤ y) := by
  simp [inRanges, Frame.le_def, Frame.lt_def, Frame.leB, Frame.ltB]

theorem inRanges_two {T : Type} [LT T] [LE T] [DecidableLT T] [DecidableLE T] (r1 r2 : T × T) (a : T) :
    inRanges [r1, r2] a = (inRanges [r1] a || inRanges [r2] a) := by
  simp [inRanges]

/-- membership of a frame value in the ranges of one wrapping-aware inclusive range `lo..=hi` whose
frame is `fs..=fe` -/
theorem frame_split_mem (F : Framable) (lo hi s y : Nat) (hs : F.succ hi = .ok s)
    (hsv : hi ≠ F.frameEnd → s = hi + 1)
    (hlo : F.frameStart ≤ lo ∧ lo ≤ F.frameEnd) (_hhi : F.frameStart ≤ hi ∧ hi ≤ F.frameEnd)
    (hy : F.frameStart ≤ y ∧ y ≤ F.frameEnd) (rg : Frame × Frame)
    (hrg : toRangeStrict F lo hi = .ok rg) :
    inRanges (splitInvertedRange (frameB F) rg) (Frame.val y) = wrappingContains lo hi y := by
  unfold toRangeStrict at hrg
  by_cases he : hi = F.frameEnd
  · rw [if_pos he] at hrg
    cases hrg
    have : ¬ (Frame.fin ≤ Frame.val lo) := by simp [Frame.le_def, Frame.leB]
    simp only [splitInvertedRange, this, if_false, frame_inRanges_val_fin]
    simp only [wrappingContains]
    by_cases hlh : lo ≤ hi
    · simp only [hlh, if_true]; rw [Bool.eq_iff_iff]; simp only [decide_eq_true_eq]; omega
    · omega
  · rw [if_neg he, hs] at hrg
    cases hrg
    have hsv' := hsv he
    subst hsv'
    simp only [splitInvertedRange, frameB]
    by_cases hinv : Frame.val (hi + 1) ≤ Frame.val lo
    · simp only [hinv, if_true]
      have hinv' : hi + 1 ≤ lo := by simpa [Frame.le_def, Frame.leB] using hinv
      rw [inRanges_two, frame_inRanges_val_val, frame_inRanges_val_fin]
      have : ¬ lo ≤ hi := by omega
      simp only [wrappingContains, this, if_false]
      rw [Bool.eq_iff_iff]
      simp only [Bool.or_eq_true, Bool.and_eq_true, decide_eq_true_eq]
      omega
    · simp only [hinv, if_false]
      have hinv' : ¬ hi + 1 ≤ lo := by simpa [Frame.le_def, Frame.leB] using hinv
      rw [frame_inRanges_val_val]
      have : lo ≤ hi := by omega
      simp only [wrappingContains, this, if_true]
      rw [Bool.eq_iff_iff]
      simp only [Bool.and_eq_true, decide_eq_true_eq]
      omega

theorem year_elem (x : YearRange) (hx : (1900 ≤ x.lo ∧ x.lo ≤ 9999) ∧ (1900 ≤ x.hi ∧ x.hi ≤ 9999)) (d : Int)
    (hd : dateStart ≤ d ∧ d < dateEnd) (rg : Frame × Frame) (hmk : YearRange.tryMakeCanonical x = .ok (some rg)) :
    YearRange.filter x d = .ok (inRanges (splitInvertedRange (frameB yearF) rg) (Frame.val (year d).toNat)) := by
  have hy := year_window hd
  unfold YearRange.tryMakeCanonical at hmk
  split at hmk
  · cases hmk
  · rename_i hstep
    have hstep' : x.step = 1 := by simpa using hstep
    split at hmk
    · cases hmk
    · rename_i rg' hrg
      cases hmk
      have hs : yearF.succ x.hi = .ok (x.hi + 1) := by
        simp only [yearF]; rw [if_neg (by omega)]
      rw [frame_split_mem yearF x.lo x.hi (x.hi + 1) (year d).toNat hs (fun _ => rfl)
        (by simp only [yearF]; omega) (by simp only [yearF]; omega) (by simp only [yearF]; omega) rg hrg]
      unfold YearRange.filter
      simp only
      rw [if_neg (by omega)]
      cases wrappingContains x.lo x.hi (year d).toNat with
      | true => simp [hstep', Nat.mod_one]
      | false => simp

theorem month_elem (x : MonthdayRange) (hx : monthRangeOK x) (d : Int) (rg : Frame × Frame)
    (hmk : MonthdayRange.tryMakeCanonical x = .ok (some rg)) :
    MonthdayRange.filter x d = .ok (inRanges (splitInvertedRange (frameB monthF) rg) (Frame.val (month d))) := by
  have hm := OH.Props.Calendar.month_bounds d
  cases x with
  | date s so e eo => simp [MonthdayRange.tryMakeCanonical] at hmk
  | month lo hi yr =>
    cases yr with
    | some y => simp [MonthdayRange.tryMakeCanonical] at hmk
    | none =>
      simp only [monthRangeOK] at hx
      simp only [MonthdayRange.tryMakeCanonical] at hmk
      split at hmk
      · cases hmk
      · rename_i rg' hrg
        cases hmk
        rw [frame_split_mem monthF lo hi (hi % 12 + 1) (month d) rfl (by simp only [monthF]; omega)
          (by simp only [monthF]; omega) (by simp only [monthF]; omega) (by simp only [monthF]; omega) rg hrg]
        simp [MonthdayRange.filter]

theorem week_elem (x : WeekRange) (hx : (1 ≤ x.lo ∧ x.lo ≤ 53) ∧ (1 ≤ x.hi ∧ x.hi ≤ 53)) (d : Int)
    (rg : Frame × Frame) (hmk : WeekRange.tryMakeCanonical x = .ok (some rg)) :
    WeekRange.filter x d = .ok (inRanges (splitInvertedRange (frameB weekF) rg) (Frame.val (isoWeek d))) := by
  have hw := OH.Props.Calendar.isoWeek_bounds d
  unfold WeekRange.tryMakeCanonical at hmk
  split at hmk
  · cases hmk
  · rename_i hstep
    have hstep' : x.step = 1 := by simpa using hstep
    split at hmk
    · cases hmk
    · rename_i rg' hrg
      cases hmk
      rw [frame_split_mem weekF x.lo x.hi (x.hi % 53 + 1) (isoWeek d) rfl (by simp only [weekF]; omega)
        (by simp only [weekF]; omega) (by simp only [weekF]; omega) (by simp only [weekF]; omega) rg hrg]
      unfold WeekRange.filter
      simp only
      cases wrappingContains x.lo x.hi (isoWeek d) with
      | true => simp [hstep', Nat.mod_one]
      | false => simp

/-- the non-wrapping weekday test of a canonical weekday range (no offset, every `nth`) -/
theorem wdayFixedSimple_canon (lo hi : Nat) (d : Int) (hd : minDay ≤ d ∧ d ≤ maxDay) :
    wdayFixedSimple lo hi 0 allTrue5 allTrue5 d = .ok (wrappingContains lo hi (weekday d)) := by
  have hsat : addDaysSat d (satNeg 0) = d := by
    have : satNeg 0 = 0 := by simp [satNeg]
    rw [this]
    have := addDaysSat_eq (d := d) (n := 0) (by omega) (by omega) (by omega)
    simpa using this
  have hdom := OH.Props.Calendar.dayOfMonth_bounds d
  have hdim : daysInMonth (year d) (month d) ≤ 31 := by
    unfold daysInMonth; split <;> (try split) <;> omega
  unfold wdayFixedSimple
  simp only [hsat, countDaysInMonth_eq d hd.1 hd.2, bind, Except.bind, pure, Except.pure]
  rw [if_neg (by omega)]
  cases wrappingContains lo hi (weekday d) with
  | false => simp
  | true =>
    simp only [if_true]
    have hpos : (dayOfMonth d - 1) / 7 < 5 := by omega
    have : allTrue5[(dayOfMonth d - 1) / 7]? = some true := by
      have h5 : ∀ i, i < 5 → allTrue5[i]? = some true := by decide
      exact h5 _ hpos
    simp [nthGet, this]

theorem wday_elem (x : WeekDayRange) (hx : wdayRangeOK x) (ctx : Ctx) (d : Int) (hd : minDay ≤ d ∧ d ≤ maxDay)
    (rg : Frame × Frame) (hmk : WeekDayRange.tryMakeCanonical x = .ok (some rg)) :
    WeekDayRange.filter ctx x d = .ok (inRanges (splitInvertedRange (frameB wdayF) rg) (Frame.val (weekday d))) := by
  have hw := OH.Props.Calendar.weekday_lt d
  cases x with
  | holiday k off => simp [WeekDayRange.tryMakeCanonical] at hmk
  | fixed lo hi offset ns ne =>
    simp only [wdayRangeOK] at hx
    simp only [WeekDayRange.tryMakeCanonical] at hmk
    split at hmk
    · rename_i hc
      obtain ⟨rfl, rfl, rfl⟩ := hc
      split at hmk
      · cases hmk
      · rename_i rg' hrg
        cases hmk
        have hs : wdayF.succ hi = .ok ((hi + 1) % 7) := rfl
        rw [frame_split_mem wdayF lo hi ((hi + 1) % 7) (weekday d) hs (by simp only [wdayF]; omega)
          (by simp only [wdayF]; omega) (by simp only [wdayF]; omega) (by simp only [wdayF]; omega) rg hrg]
        unfold WeekDayRange.filter
        simp only
        by_cases hlh : lo > hi
        · rw [if_pos hlh]
          simp only [wdayFixedSimple_canon _ _ d hd, bind, Except.bind, pure, Except.pure]
          have hnle : ¬ lo ≤ hi := by omega
          cases h1 : wrappingContains lo 6 (weekday d) with
          | true =>
            simp only [if_true]
            congr 1
            simp only [wrappingContains, hnle, if_false] at h1 ⊢
            have : lo ≤ 6 := by omega
            simp only [this, if_true, decide_eq_true_eq] at h1
            simp [h1.1]
          | false =>
            simp only [Bool.false_eq_true, if_false]
            congr 1
            simp only [wrappingContains, hnle, if_false] at h1 ⊢
            have : lo ≤ 6 := by omega
            simp only [this, if_true, decide_eq_false_iff_not] at h1
            rw [Bool.eq_iff_iff]
            simp only [Nat.zero_le, if_true, true_and, decide_eq_true_eq]
            omega
        · rw [if_neg hlh]
          exact wdayFixedSimple_canon lo hi d hd
    · cases hmk

/-- the selector lists `ruleseq_to_selector` assembles -/
theorem ruleseqToSelector_parts (r : Rule) (sel : CanonicalSelector) (h : ruleseqToSelector r = .ok (some sel)) :
    tryFromIterator (frameB wdayF) WeekDayRange.tryMakeCanonical r.day.weekday = .ok (some sel.tail.tail.tail.tail.range) ∧
    tryFromIterator (frameB weekF) WeekRange.tryMakeCanonical r.day.week = .ok (some sel.tail.tail.tail.range) ∧
    tryFromIterator (frameB monthF) MonthdayRange.tryMakeCanonical r.day.monthday = .ok (some sel.tail.tail.range) ∧
    tryFromIterator (frameB yearF) YearRange.tryMakeCanonical r.day.year = .ok (some sel.tail.range) ∧
    tryFromIterator timeB TimeSpan.tryMakeCanonical r.time = .ok (some sel.range) := by
  unfold ruleseqToSelector at h
  split at h
  · cases h
  · cases h
  · rename_i wd hwd
    split at h
    · cases h
    · cases h
    · rename_i wk hwk
      split at h
      · cases h
      · cases h
      · rename_i md hmd
        split at h
        · cases h
        · cases h
        · rename_i yr hyr
          split at h
          · cases h
          · cases h
          · rename_i tm htm
            cases h
            exact ⟨hwd, hwk, hmd, hyr, htm⟩

theorem tryFromIterGo_elems {α T : Type} [LE T] [DecidableLE T] (B : Bounded T) (mk : α → NM (Option (T × T))) :
    ∀ (l : List α) (L : List (T × T)), tryFromIterGo B mk l = .ok (some L) →
    ∀ x ∈ l, ∃ rg, mk x = .ok (some rg) := by
  intro l
  induction l with
  | nil => intro L _ x hx; cases hx
  | cons y l ih =>
    intro L h x hx
    simp only [tryFromIterGo] at h
    split at h
    · cases h
    · cases h
    · rename_i rg hmk
      split at h
      · cases h
      · cases h
      · rename_i rs hrs
        rcases List.mem_cons.mp hx with rfl | hx'
        · exact ⟨rg, hmk⟩
        · exact ih rs hrs x hx'

theorem tryFromIterator_elems {α T : Type} [LE T] [DecidableLE T] (B : Bounded T) (mk : α → NM (Option (T × T)))
    (l : List α) (L : List (T × T)) (h : tryFromIterator B mk l = .ok (some L)) :
    ∀ x ∈ l, ∃ rg, mk x = .ok (some rg) := by
  unfold tryFromIterator at h
  split at h
  · cases h
  · cases h
  · rename_i L0 hgo
    exact tryFromIterGo_elems B mk l L0 hgo

theorem pt_bounds_true (d : Int) (hd : dateStart ≤ d ∧ d < dateEnd) :
    inRanges [(frameB yearF).bounds] (Frame.val (year d).toNat) = true ∧
    inRanges [(frameB monthF).bounds] (Frame.val (month d)) = true ∧
    inRanges [(frameB weekF).bounds] (Frame.val (isoWeek d)) = true ∧
    inRanges [(frameB wdayF).bounds] (Frame.val (weekday d)) = true := by
  have hy := year_window hd
  have hm := OH.Props.Calendar.month_bounds d
  have hw := OH.Props.Calendar.isoWeek_bounds d
  simp only [Bounded.bounds, frameB, frame_inRanges_val_fin, yearF, monthF, weekF, wdayF, decide_eq_true_eq]
  omega

theorem window_representable {d : Int} (hd : dateStart - 1 ≤ d ∧ d < dateEnd) : minDay ≤ d ∧ d ≤ maxDay := by
  have := OH.Props.Calendar.dateStart_eq
  have := OH.Props.Calendar.dateEnd_eq
  have := OH.Props.Calendar.minDay_eq
  have := OH.Props.Calendar.maxDay_eq
  omega

/-- **(b), days**: on a day of the supported window the day filter of a canonical rule is membership
of the day's point (year, month, ISO week, weekday) in the day part of its canonical selector -/
theorem dayFilter_canon (ctx : Ctx) (r : Rule) (hr : RuleOK r) (sel : CanonicalSelector)
    (hsel : ruleseqToSelector r = .ok (some sel)) (d : Int) (hd : dateStart ≤ d ∧ d < dateEnd) :
    r.day.filter ctx d = .ok (Paving.mem (P := DaysCovered) (pt d) sel.tail) := by
  obtain ⟨hwd, hwk, hmd, hyr, _⟩ := ruleseqToSelector_parts r sel hsel
  obtain ⟨oky, okm, okw, okd, _⟩ := hr
  obtain ⟨by1, by2, by3, by4⟩ := pt_bounds_true d hd
  have hrep := window_representable (d := d) ⟨by omega, hd.2⟩
  have f1 := listFilter_canon (frameB yearF) YearRange.tryMakeCanonical (fun x => x.filter d)
    (Frame.val (year d).toNat) r.day.year _ hyr (fun x hx rg hmk => year_elem x (oky x hx) d hd rg hmk) by1
  have f2 := listFilter_canon (frameB monthF) MonthdayRange.tryMakeCanonical (fun x => x.filter d)
    (Frame.val (month d)) r.day.monthday _ hmd (fun x hx rg hmk => month_elem x (okm x hx) d rg hmk) by2
  have f3 := listFilter_canon (frameB weekF) WeekRange.tryMakeCanonical (fun x => x.filter d)
    (Frame.val (isoWeek d)) r.day.week _ hwk (fun x hx rg hmk => week_elem x (okw x hx) d rg hmk) by3
  have f4 := listFilter_canon (frameB wdayF) WeekDayRange.tryMakeCanonical (fun x => x.filter ctx d)
    (Frame.val (weekday d)) r.day.weekday _ hwd (fun x hx rg hmk => wday_elem x (okd x hx) ctx d hrep rg hmk) by4
  have hmem : Paving.mem (P := DaysCovered) (pt d) sel.tail =
      (inRanges sel.tail.range (Frame.val (year d).toNat) &&
       (inRanges sel.tail.tail.range (Frame.val (month d)) &&
        (inRanges sel.tail.tail.tail.range (Frame.val (isoWeek d)) &&
         (inRanges sel.tail.tail.tail.tail.range (Frame.val (weekday d)) && true)))) := rfl
  rw [hmem]
  simp only [DaySelector.filter, f1, f2, f3, f4, bind, Except.bind, pure, Except.pure]
  cases inRanges sel.tail.range (Frame.val (year d).toNat) <;>
  cases inRanges sel.tail.tail.range (Frame.val (month d)) <;>
  cases inRanges sel.tail.tail.tail.range (Frame.val (isoWeek d)) <;>
  cases inRanges sel.tail.tail.tail.tail.range (Frame.val (weekday d)) <;> rfl

/-! ### the day filter of a canonical rule never panics (needed for "yesterday") -/

theorem anyM_total {α : Type} (f : α → M Bool) : ∀ (l : List α), (∀ x ∈ l, ∃ b, f x = .ok b) → ∃ b, anyM f l = .ok b := by
  intro l
  induction l with
  | nil => intro _; exact ⟨false, rfl⟩
  | cons x l ih =>
    intro h
    obtain ⟨b, hb⟩ := h x (by simp)
    obtain ⟨b', hb'⟩ := ih (fun y hy => h y (List.mem_cons_of_mem _ hy))
    simp only [anyM, bind, Except.bind, hb, pure, Except.pure]
    cases b with
    | true => exact ⟨true, rfl⟩
    | false => exact ⟨b', by simpa using hb'⟩

theorem listFilter_total {α : Type} (f : α → M Bool) (l : List α) (h : ∀ x ∈ l, ∃ b, f x = .ok b) :
    ∃ b, listFilter f l = .ok b := by
  unfold listFilter
  split
  · exact ⟨true, rfl⟩
  · exact anyM_total f l h

theorem year_total (x : YearRange) (p : Int) (rg : Frame × Frame) (hmk : YearRange.tryMakeCanonical x = .ok (some rg)) :
    ∃ b, YearRange.filter x p = .ok b := by
  unfold YearRange.tryMakeCanonical at hmk
  split at hmk
  · cases hmk
  · rename_i hstep
    have hstep' : x.step = 1 := by simpa using hstep
    unfold YearRange.filter
    simp only
    split
    · exact ⟨_, rfl⟩
    · split
      · rw [if_neg (by omega)]; exact ⟨_, rfl⟩
      · exact ⟨_, rfl⟩

theorem week_total (x : WeekRange) (p : Int) (rg : Frame × Frame) (hmk : WeekRange.tryMakeCanonical x = .ok (some rg)) :
    ∃ b, WeekRange.filter x p = .ok b := by
  unfold WeekRange.tryMakeCanonical at hmk
  split at hmk
  · cases hmk
  · rename_i hstep
    have hstep' : x.step = 1 := by simpa using hstep
    unfold WeekRange.filter
    simp only
    split
    · rw [if_neg (by omega)]; exact ⟨_, rfl⟩
    · exact ⟨_, rfl⟩

theorem month_total (x : MonthdayRange) (p : Int) (rg : Frame × Frame)
    (hmk : MonthdayRange.tryMakeCanonical x = .ok (some rg)) : ∃ b, MonthdayRange.filter x p = .ok b := by
  cases x with
  | date s so e eo => simp [MonthdayRange.tryMakeCanonical] at hmk
  | month lo hi yr => exact ⟨_, rfl⟩

theorem dayFilter_total (ctx : Ctx) (r : Rule) (hr : RuleOK r) (sel : CanonicalSelector)
    (hsel : ruleseqToSelector r = .ok (some sel)) (p : Int) (hp : minDay ≤ p ∧ p ≤ maxDay) :
    ∃ b, r.day.filter ctx p = .ok b := by
  obtain ⟨hwd, hwk, hmd, hyr, _⟩ := ruleseqToSelector_parts r sel hsel
  obtain ⟨_, _, _, okd, _⟩ := hr
  obtain ⟨b1, f1⟩ := listFilter_total (fun (x : YearRange) => x.filter p) r.day.year (fun x hx => by
    obtain ⟨rg, hrg⟩ := tryFromIterator_elems _ _ _ _ hyr x hx; exact year_total x p rg hrg)
  obtain ⟨b2, f2⟩ := listFilter_total (fun (x : MonthdayRange) => x.filter p) r.day.monthday (fun x hx => by
    obtain ⟨rg, hrg⟩ := tryFromIterator_elems _ _ _ _ hmd x hx; exact month_total x p rg hrg)
  obtain ⟨b3, f3⟩ := listFilter_total (fun (x : WeekRange) => x.filter p) r.day.week (fun x hx => by
    obtain ⟨rg, hrg⟩ := tryFromIterator_elems _ _ _ _ hwk x hx; exact week_total x p rg hrg)
  obtain ⟨b4, f4⟩ := listFilter_total (fun (x : WeekDayRange) => x.filter ctx p) r.day.weekday (fun x hx => by
    obtain ⟨rg, hrg⟩ := tryFromIterator_elems _ _ _ _ hwd x hx
    exact ⟨_, wday_elem x (okd x hx) ctx p hp rg hrg⟩)
  simp only [DaySelector.filter, f1, f2, f3, f4, bind, Except.bind, pure, Except.pure]
  cases b1 <;> cases b2 <;> cases b3 <;> exact ⟨_, rfl⟩

/-! ### (b), times -/

theorem tryMake_shape (t : TimeSpan) (rg : Nat × Nat) (h : TimeSpan.tryMakeCanonical t = .ok (some rg)) :
    t = ⟨.fixed rg.1, .fixed rg.2, false, none⟩ ∧ rg.1 < rg.2 ∧ rg.2 ≤ 1440 := by
  obtain ⟨st, sp, oe, rp⟩ := t
  cases st with
  | «variable» ev off => simp [TimeSpan.tryMakeCanonical] at h
  | fixed s =>
    cases sp with
    | «variable» ev off => simp [TimeSpan.tryMakeCanonical] at h
    | fixed e =>
      cases oe with
      | true => simp [TimeSpan.tryMakeCanonical] at h
      | false =>
        cases rp with
        | some x => simp [TimeSpan.tryMakeCanonical] at h
        | none =>
          simp only [TimeSpan.tryMakeCanonical] at h
          have hb : timeB.boundEnd = 1440 := rfl
          by_cases hc : s ≥ e ∨ e > timeB.boundEnd
          · rw [if_pos hc] at h; cases h
          · rw [if_neg hc] at h
            cases h
            rw [hb] at hc
            exact ⟨rfl, by simp only; omega, by simp only; omega⟩

theorem time_go (ctx : Ctx) (d : Int) : ∀ (l : List TimeSpan) (L0 : List (Nat × Nat)),
    tryFromIterGo timeB TimeSpan.tryMakeCanonical l = .ok (some L0) →
    mapM' (fun t => TimeSpan.asNaive ctx d t) l = .ok L0 ∧ ∀ r ∈ L0, r.1 < r.2 ∧ r.2 ≤ 1440 := by
  intro l
  induction l with
  | nil =>
    intro L0 h
    simp only [tryFromIterGo, Except.ok.injEq, Option.some.injEq] at h
    subst h
    exact ⟨rfl, fun r hr => by cases hr⟩
  | cons t l ih =>
    intro L0 h
    simp only [tryFromIterGo] at h
    split at h
    · cases h
    · cases h
    · rename_i rg hmk
      split at h
      · cases h
      · cases h
      · rename_i rs hrs
        simp only [Except.ok.injEq, Option.some.injEq] at h
        subst h
        obtain ⟨h1, h2⟩ := ih rs hrs
        obtain ⟨ht, hse, he⟩ := tryMake_shape t rg hmk
        have hsplit : splitInvertedRange timeB rg = [rg] := by
          unfold splitInvertedRange
          rw [if_neg (by omega)]
        have hasn : TimeSpan.asNaive ctx d t = .ok rg := by
          rw [ht]
          simp only [TimeSpan.asNaive, Time.asNaive, hse, if_true]
        rw [hsplit]
        refine ⟨?_, ?_⟩
        · simp only [mapM', bind, Except.bind, hasn, h1, pure, Except.pure, List.singleton_append]
        · intro r hr
          rcases List.mem_cons.mp hr with rfl | hr'
          · exact ⟨hse, he⟩
          · exact h2 r hr'

/-- **(b), times**: the time selector of a canonical rule opens exactly the minutes of the time part of
its canonical selector, and nothing on the next day -/
theorem timeSel_canon (ctx : Ctx) (ts : List TimeSpan) (hne : ts ≠ []) (L : List (Nat × Nat))
    (h : tryFromIterator timeB TimeSpan.tryMakeCanonical ts = .ok (some L)) (d p : Int) :
    (∃ X, intervalsAt ctx ts d = .ok X ∧ ∀ m, InRanges X m ↔ inRanges L m = true) ∧
    intervalsAtNextDay ctx ts p = .ok [] := by
  unfold tryFromIterator at h
  split at h
  · cases h
  · cases h
  · rename_i L0 hgo
    simp only [Except.ok.injEq, Option.some.injEq] at h
    have hL0 : L0 ≠ [] := by
      cases ts with
      | nil => exact absurd rfl hne
      | cons t l =>
        simp only [tryFromIterGo] at hgo
        split at hgo
        · cases hgo
        · cases hgo
        · rename_i rg _
          split at hgo
          · cases hgo
          · cases hgo
          · cases hgo
            intro h'
            exact splitInvertedRange_ne_nil timeB rg (List.append_eq_nil_iff.mp h').1
    have hL : L = L0 := by
      cases L0 with
      | nil => exact absurd rfl hL0
      | cons a l => simpa using h.symm
    subst hL
    constructor
    · obtain ⟨h1, h2⟩ := time_go ctx d ts L hgo
      refine ⟨rangesUnion (L.filterMap (fun r => rangeIntersection r (0, 1440))),
        by simp only [intervalsAt, h1, bind, Except.bind, pure, Except.pure], ?_⟩
      intro m
      unfold InRanges
      rw [OH.Props.C14.rangesUnion_covers]
      constructor
      · rintro ⟨r, hr, hm⟩
        simp only [List.mem_filterMap] at hr
        obtain ⟨a, ha, hra⟩ := hr
        have := (OH.Props.C14.rangeIntersection_some a (0, 1440) r hra).2 m
        have hm' := this.mp hm
        simp only [inRanges, List.any_eq_true, Bool.and_eq_true, decide_eq_true_eq]
        exact ⟨a, ha, hm'.1⟩
      · intro hm
        simp only [inRanges, List.any_eq_true, Bool.and_eq_true, decide_eq_true_eq] at hm
        obtain ⟨a, ha, hma⟩ := hm
        have hb := h2 a ha
        cases hri : rangeIntersection a (0, 1440) with
        | none =>
          exact absurd ⟨hma, by simp only; omega⟩ (OH.Props.C14.rangeIntersection_none a (0, 1440) hri m)
        | some r =>
          refine ⟨r, List.mem_filterMap.mpr ⟨a, ha, hri⟩, ?_⟩
          exact ((OH.Props.C14.rangeIntersection_some a (0, 1440) r hri).2 m).mpr ⟨hma, by simp only; omega⟩
    · obtain ⟨h1, h2⟩ := time_go ctx p ts L hgo
      simp only [intervalsAtNextDay, h1, bind, Except.bind, pure, Except.pure]
      have : L.filterMap (fun r => rangeIntersection r (1440, 2880)) = [] := by
        apply List.filterMap_eq_nil_iff.mpr
        intro a ha
        have hb := h2 a ha
        unfold rangeIntersection
        simp only
        rw [if_neg (by omega)]
      rw [this]
      rfl

/-! ## the own schedule of a canonical rule -/

theorem fromRanges_nil (k : Kind) (c : List String) : fromRanges [] k c = [] := rfl

theorem addition_nil (s : Schedule) : s.addition [] = s := rfl

/-- on a day of the supported window a canonical rule contributes its kind exactly on the minutes of
its time selector when the day matches, and nothing otherwise (its spans never pass midnight) -/
theorem canonRule_eval (ctx : Ctx) (r : Rule) (hr : RuleOK r) (sel : CanonicalSelector)
    (hsel : ruleseqToSelector r = .ok (some sel)) (d : Int) (hd : dateStart ≤ d ∧ d < dateEnd) :
    ∃ ce, ruleScheduleAt ctx r d = .ok ce ∧ EvOK ce ∧
      ∀ m, stateOpt ce m =
        if Paving.mem (P := DaysCovered) (pt d) sel.tail = true ∧ inRanges sel.range m = true
        then some r.kind else none := by
  obtain ⟨_, _, _, _, htm⟩ := ruleseqToSelector_parts r sel hsel
  obtain ⟨⟨X, hX, hXm⟩, hnext⟩ := timeSel_canon ctx r.time hr.2.2.2.2 sel.range htm d (d - 1)
  have hfil := dayFilter_canon ctx r hr sel hsel d hd
  have hpred := OH.Props.Calendar.pred?_of_dateStart_le hd.1
  obtain ⟨b, hb⟩ := dayFilter_total ctx r hr sel hsel (d - 1)
    (window_representable (d := d - 1) ⟨by omega, by omega⟩)
  have hXle := intervalsAt_le ctx r.time d X hX
  have hstate : ∀ m, stateAt (fromRanges X r.kind r.comments) m =
      if inRanges sel.range m = true then some r.kind else none := by
    intro m
    rw [OH.Props.C14.fromRanges_covers]
    unfold fromSpec
    by_cases hm : inRanges sel.range m = true
    · rw [if_pos ((hXm m).mpr hm), if_pos hm]
    · rw [if_neg (fun h => hm ((hXm m).mp h)), if_neg hm]
  have hty : yesterdayPart ctx r d = .ok (if b = true then some [] else none) := by
    unfold yesterdayPart
    rw [hpred]
    simp only [hb]
    cases b with
    | true => simp [hnext, fromRanges_nil]
    | false => simp
  rw [ruleScheduleAt_eq]
  by_cases hmem : Paving.mem (P := DaysCovered) (pt d) sel.tail = true
  · have htd : todayPart ctx r d = .ok (some (fromRanges X r.kind r.comments)) := by
      unfold todayPart
      simp only [hfil, hmem, if_true, hX]
    rw [htd, hty]
    simp only
    cases b with
    | true =>
      refine ⟨some (fromRanges X r.kind r.comments), by simp [combineParts, addition_nil],
        fromRanges_evok X _ _ hXle, fun m => ?_⟩
      simp only [stateOpt, hstate m, hmem, true_and]
    | false =>
      refine ⟨some (fromRanges X r.kind r.comments), by simp [combineParts],
        fromRanges_evok X _ _ hXle, fun m => ?_⟩
      simp only [stateOpt, hstate m, hmem, true_and]
  · have htd : todayPart ctx r d = .ok none := by
      unfold todayPart
      simp only [hfil, hmem]
      simp
    rw [htd, hty]
    simp only
    cases b with
    | true =>
      refine ⟨some [], by simp [combineParts], ⟨trivial, fun t ht => by cases ht⟩, fun m => ?_⟩
      simp [stateOpt, stateAt, hmem]
    | false =>
      refine ⟨none, by simp [combineParts], trivial, fun m => ?_⟩
      simp [stateOpt, hmem]

/-! ## Step A: folding canonical rules with `schedule_at` reads the paving -/

/-- the accumulated schedule shows, minute by minute, the kind stored in the paving at the point of
day `d` -/
def Reads (d : Int) (ev : Option Schedule) (p : Canonical) : Prop :=
  EvOK ev ∧ ∀ m, m < 1440 → kindAt ev m = (Paving.get p ((m, pt d) : Point5)).1

theorem mem5_eq (m : Nat) (y : Point4) (sel : CanonicalSelector) :
    Paving.mem (P := Canonical) ((m, y) : Point5) sel =
      (inRanges sel.range m && Paving.mem (P := DaysCovered) y sel.tail) := rfl

theorem mem5_fullDay (m : Nat) (hm : m < 1440) (y : Point4) (sel : CanonicalSelector) :
    Paving.mem (P := Canonical) ((m, y) : Point5) (fullDaySelector sel) = Paving.mem (P := DaysCovered) y sel.tail := by
  rw [mem5_eq]
  have : inRanges (fullDaySelector sel).range m = true := by
    simp [fullDaySelector, inRanges, Bounded.bounds, timeB]; omega
  rw [this]
  rfl

theorem reads_step (ctx : Ctx) (d : Int) (hd : dateStart ≤ d ∧ d < dateEnd) (r : Rule) (hr : RuleOK r)
    (hnf : r.op ≠ .fallback) (sel : CanonicalSelector) (hsel : ruleseqToSelector r = .ok (some sel))
    (b : Bool) (ev : Option Schedule) (p : Canonical) (hp : LawfulPaving.WF p) (h : Reads d ev p) :
    ∃ st, scheduleStep ctx d (b, ev) r = .ok st ∧ Reads d st.2 (pavingStep p r sel) := by
  obtain ⟨ce, hce, hceok, hcest⟩ := canonRule_eval ctx r hr sel hsel d hd
  have hfil := dayFilter_canon ctx r hr sel hsel d hd
  obtain ⟨st, hst, hst2⟩ := scheduleStep_ok ctx d b ev r _ ce hfil hce
  refine ⟨st, hst, ?_⟩
  rw [hst2]
  obtain ⟨hevok, hevk⟩ := h
  have hadd_ok := addOpt_ok ev ce hevok hceok
  have hadd_k : ∀ m, m < 1440 → kindAt (addOpt ev ce) m =
      if Paving.mem (P := DaysCovered) (pt d) sel.tail = true ∧ inRanges sel.range m = true then r.kind
      else (Paving.get p ((m, pt d) : Point5)).1 := by
    intro m hm
    rw [addOpt_kindAt ev ce hevok hceok m, hcest m]
    by_cases hc : Paving.mem (P := DaysCovered) (pt d) sel.tail = true ∧ inRanges sel.range m = true
    · simp only [hc, and_self, if_true]
    · simp only [hc, if_false]
      exact hevk m hm
  have hce_k : ∀ m, kindAt ce m =
      if Paving.mem (P := DaysCovered) (pt d) sel.tail = true ∧ inRanges sel.range m = true then r.kind
      else Kind.closed := by
    intro m
    simp only [kindAt, hcest m]
    split <;> rfl
  -- the paving side
  have hpav : ∀ m, m < 1440 → (Paving.get (pavingStep p r sel) ((m, pt d) : Point5)).1 =
      if Paving.mem (P := DaysCovered) (pt d) sel.tail = true ∧ inRanges sel.range m = true then r.kind
      else if (r.op = .normal ∧ r.kind ≠ .closed) ∧ Paving.mem (P := DaysCovered) (pt d) sel.tail = true
        then Kind.closed
      else (Paving.get p ((m, pt d) : Point5)).1 := by
    intro m hm
    rw [get_pavingStep p hp r sel, mem5_eq, mem5_fullDay m hm]
    by_cases h1 : Paving.mem (P := DaysCovered) (pt d) sel.tail = true
    · by_cases h2 : inRanges sel.range m = true
      · simp [h1, h2, ruleVal]
      · simp only [h1, h2, Bool.false_and, Bool.false_eq_true, if_false, and_false, and_true]
        split <;> rfl
    · simp [h1]
  unfold stepEval
  cases hop : r.op with
  | fallback => exact absurd hop hnf
  | additional =>
    refine ⟨by cases r.kind <;> exact hadd_ok, fun m hm => ?_⟩
    have : kindAt (match RuleOp.additional, r.kind with
        | .normal, .open | .normal, .unknown => if Paving.mem (P := DaysCovered) (pt d) sel.tail = true then ce else addOpt ev ce
        | .additional, _ | .normal, .closed => addOpt ev ce
        | .fallback, _ => if (!alwaysClosedOpt ev) = true then ev else ce) m = kindAt (addOpt ev ce) m := by
      cases r.kind <;> rfl
    rw [this, hadd_k m hm, hpav m hm]
    simp [hop]
  | normal =>
    cases hk : r.kind with
    | closed =>
      refine ⟨hadd_ok, fun m hm => ?_⟩
      simp only
      rw [hadd_k m hm, hpav m hm]
      simp [hk]
    | «open» =>
      simp only
      by_cases hm1 : Paving.mem (P := DaysCovered) (pt d) sel.tail = true
      · rw [if_pos hm1]
        refine ⟨hceok, fun m hm => ?_⟩
        rw [hce_k m, hpav m hm]
        simp [hm1, hop, hk]
      · rw [if_neg hm1]
        refine ⟨hadd_ok, fun m hm => ?_⟩
        rw [hadd_k m hm, hpav m hm]
        simp [hm1]
    | unknown =>
      simp only
      by_cases hm1 : Paving.mem (P := DaysCovered) (pt d) sel.tail = true
      · rw [if_pos hm1]
        refine ⟨hceok, fun m hm => ?_⟩
        rw [hce_k m, hpav m hm]
        simp [hm1, hop, hk]
      · rw [if_neg hm1]
        refine ⟨hadd_ok, fun m hm => ?_⟩
        rw [hadd_k m hm, hpav m hm]
        simp [hm1]

/-- **Step A** -/
theorem prefix_reads (ctx : Ctx) (d : Int) (hd : dateStart ≤ d ∧ d < dateEnd) : ∀ (l : List Rule)
    (p p' : Canonical) (b : Bool) (ev : Option Schedule), (∀ r ∈ l, RuleOK r) → LawfulPaving.WF p →
    foldRules p l = some p' → Reads d ev p →
    ∃ st, foldM' (scheduleStep ctx d) (b, ev) l = .ok st ∧ Reads d st.2 p' := by
  intro l
  induction l with
  | nil =>
    intro p p' b ev _ _ hf hr
    simp only [foldRules, Option.some.injEq] at hf
    subst hf
    exact ⟨(b, ev), rfl, hr⟩
  | cons r l ih =>
    intro p p' b ev hok hp hf hr
    simp only [foldRules] at hf
    split at hf
    · cases hf
    · rename_i hnf
      split at hf
      · rename_i sel hsel
        obtain ⟨st, hst, hrd⟩ := reads_step ctx d hd r (hok r (by simp)) hnf sel hsel b ev p hp hr
        obtain ⟨st', hst', hrd'⟩ := ih (pavingStep p r sel) p' st.1 st.2
          (fun x hx => hok x (List.mem_cons_of_mem _ hx)) (wf_pavingStep p hp r sel) hf hrd
        refine ⟨st', ?_, hrd'⟩
        simp only [foldM', bind, Except.bind, hst]
        exact hst'
      · cases hf

theorem foldM'_append {σ α : Type} (f : σ → α → M σ) : ∀ (a b : List α) (s : σ),
    foldM' f s (a ++ b) = (match foldM' f s a with | .error e => .error e | .ok s' => foldM' f s' b) := by
  intro a
  induction a with
  | nil => intro b s; rfl
  | cons x a ih =>
    intro b s
    simp only [List.cons_append, foldM', bind, Except.bind]
    cases f s x with
    | error e => rfl
    | ok s' => exact ih b s'

theorem reads_empty (d : Int) : Reads d none (Paving.empty : Canonical) := by
  refine ⟨trivial, fun m _ => ?_⟩
  rw [LawfulPaving.get_empty]
  rfl

/-- the kinds `schedule_at` shows, minute by minute, as a function of the final accumulated value -/
theorem scheduleAt_kind (ctx : Ctx) (e : Expr) (d : Int) (hd : dateStart ≤ d ∧ d < dateEnd) (m : Nat) :
    (scheduleAt ctx e d).map (fun s => dayState s m)
      = (foldM' (scheduleStep ctx d) (false, none) e).map (fun st => kindAt st.2 m) := by
  unfold scheduleAt
  have : ¬ ((!decide (dateStart ≤ d ∧ d < dateEnd)) = true) := by simp [hd]
  rw [if_neg this]
  simp only [bind, Except.bind, pure, Except.pure]
  cases foldM' (scheduleStep ctx d) (false, none) e with
  | error e => rfl
  | ok st =>
    obtain ⟨b, ev⟩ := st
    simp only [Except.map, kindAt_eq_dayState]

/-- **C07 on the model**: the normal form shows, at every minute of every day, the kind the original
expression shows; an evaluation panic of a rule of the untouched tail is the same panic -/
theorem normalize_preserves_kinds (ctx : Ctx) (e n : Expr) (he : ExprOK e) (hn : normalizeG true e = .ok n)
    (d : Int) (m : Nat) (hm : m < 1440) :
    (scheduleAt ctx n d).map (fun s => dayState s m) = (scheduleAt ctx e d).map (fun s => dayState s m) := by
  by_cases hd : dateStart ≤ d ∧ d < dateEnd
  · rw [scheduleAt_kind ctx n d hd m, scheduleAt_kind ctx e d hd m]
    unfold normalizeG at hn
    split at hn
    · cases hn
    · rename_i P rest hfold
      split at hn
      · cases hn
      · rename_i rs hrs
        cases hn
        obtain ⟨pre, rfl, hfr, _⟩ := foldPrefix_split e Paving.empty P rest hfold
        have hpre : ∀ r ∈ pre, RuleOK r := fun r hr => he r (List.mem_append_left _ hr)
        have hP : PavOK P := pavOK_foldRules pre _ _ hpre pavOK_empty hfr
        obtain ⟨P2, hf2, hP2, hget, hall⟩ := foldback P hP rs hrs
        obtain ⟨st1, hst1, hr1⟩ := prefix_reads ctx d hd pre Paving.empty P false none hpre
          LawfulPaving.wf_empty hfr (reads_empty d)
        obtain ⟨st2, hst2, hr2⟩ := prefix_reads ctx d hd rs Paving.empty P2 false none hall
          LawfulPaving.wf_empty hf2 (reads_empty d)
        rw [foldM'_append, foldM'_append, hst1, hst2]
        simp only
        obtain ⟨b1, ev1⟩ := st1
        obtain ⟨b2, ev2⟩ := st2
        apply tail_equiv ctx d m hm rest b2 b1 ev2 ev1
        refine ⟨hr2.1, hr1.1, fun k hk => ?_⟩
        rw [hr2.2 k hk, hr1.2 k hk, hget]
  · unfold scheduleAt
    have : (!decide (dateStart ≤ d ∧ d < dateEnd)) = true := by simp [hd]
    rw [if_pos this, if_pos this]

/-! ## the same through `schedule_at(..).into_iter()` (`daySchedule`) -/

theorem stepEval_evok (op : RuleOp) (kind : Kind) (cm : Bool) (prev ce : Option Schedule)
    (hp : EvOK prev) (hc : EvOK ce) : EvOK (stepEval op kind cm prev ce) := by
  have hadd := addOpt_ok prev ce hp hc
  unfold stepEval
  cases op <;> cases kind <;> simp only
  all_goals first
    | exact hadd
    | (split
       · exact hc
       · exact hadd)
    | (split
       · exact hp
       · exact hc)

theorem fold_evok (ctx : Ctx) (d : Int) : ∀ (l : List Rule) (b : Bool) (ev : Option Schedule)
    (st : Bool × Option Schedule), EvOK ev → foldM' (scheduleStep ctx d) (b, ev) l = .ok st → EvOK st.2 := by
  intro l
  induction l with
  | nil => intro b ev st h hf; cases hf; exact h
  | cons r l ih =>
    intro b ev st h hf
    simp only [foldM', bind, Except.bind] at hf
    cases hfil : r.day.filter ctx d with
    | error e => rw [scheduleStep_filter_error ctx d _ r e hfil] at hf; cases hf
    | ok cm =>
      cases he : ruleScheduleAt ctx r d with
      | error e => rw [scheduleStep_eval_error ctx d _ r cm e hfil he] at hf; cases hf
      | ok ce =>
        obtain ⟨st1, hs1, hv1⟩ := scheduleStep_ok ctx d b ev r cm ce hfil he
        rw [hs1] at hf
        simp only at hf
        obtain ⟨c1, q1⟩ := st1
        simp only at hv1
        subst hv1
        exact ih c1 _ st (stepEval_evok r.op r.kind cm ev ce h (ruleScheduleAt_evok ctx r d ce he)) hf

/-- every schedule `schedule_at` returns — for ANY expression, context and day — has non-empty,
increasing, disjoint ranges within 00:00-24:00 -/
theorem scheduleAt_wf (ctx : Ctx) (e : Expr) (d : Int) (s : Schedule) (h : scheduleAt ctx e d = .ok s) :
    WF s ∧ Within 1440 s := by
  unfold scheduleAt at h
  split at h
  · cases h; exact ⟨trivial, fun t ht => by cases ht⟩
  · simp only [bind, Except.bind, pure, Except.pure] at h
    split at h
    · cases h
    · rename_i st hst
      cases h
      obtain ⟨b, ev⟩ := st
      have := fold_evok ctx d e false none (b, ev) trivial hst
      cases ev with
      | none => exact ⟨trivial, fun t ht => by cases ht⟩
      | some s' => exact this

/-- `schedule_at(..).into_iter()` never hits its assertion and shows `dayState` at every minute -/
theorem daySchedule_state (ctx : Ctx) (e : Expr) (d : Int) (m : Nat) (hm : m < 1440) :
    (daySchedule ctx e d).map (fun l => stateAt l m)
      = (scheduleAt ctx e d).map (fun s => some (dayState s m)) := by
  unfold daySchedule
  cases h : scheduleAt ctx e d with
  | error p => rfl
  | ok s =>
    obtain ⟨hw, _⟩ := scheduleAt_wf ctx e d s h
    simp only [OH.Props.C14.iter_no_panic s hw, Bool.false_eq_true, if_false, Except.map,
      OH.Props.C14.iter_state s hw m hm]

theorem except_map_map {ε α β γ : Type} (f : α → β) (g : β → γ) (x : Except ε α) :
    (x.map f).map g = x.map (fun a => g (f a)) := by cases x <;> rfl

/-- **C07 through the day iterator** -/
theorem normalize_preserves_daySchedule (ctx : Ctx) (e n : Expr) (he : ExprOK e)
    (hn : normalizeG true e = .ok n) (d : Int) (m : Nat) (hm : m < 1440) :
    (daySchedule ctx n d).map (fun l => stateAt l m) = (daySchedule ctx e d).map (fun l => stateAt l m) := by
  rw [daySchedule_state ctx n d m hm, daySchedule_state ctx e d m hm]
  have := normalize_preserves_kinds ctx e n he hn d m hm
  have h2 := congrArg (fun x => Except.map (fun k => some k) x) this
  simp only [except_map_map] at h2
  exact h2

end OH.Proofs.NormalizeEval
