import OH.Proofs.Peg
/-
Conformance of the PEG engine (any grammar): whatever `run e q inp` returns, the list of pairs it
produced and the text it consumed have the *shape* the expression `e` prescribes.

`Conf e q kids text` is defined by structural recursion on `e`; it forgets the input, the rest and
the backtracking (it is an over-approximation: ordered choice becomes `∨`, the look-aheads become
"nothing").  `run_conf : run e q inp = some r → Conf e q r.kids r.eaten`.

This is what the totality proofs of the builders need: a builder is only ever applied to trees that
conform to the grammar rule it is written for.
-/
namespace OH.Model.Peg

variable {ρ : Type}

/-- zero or more rounds, each conforming to `P`, concatenated -/
inductive StarConf (P : List (Tree ρ) → List Char → Prop) : List (Tree ρ) → List Char → Prop
  | nil : StarConf P [] []
  | cons {k1 : List (Tree ρ)} {t1 : List Char} {k2 : List (Tree ρ)} {t2 : List Char} :
      P k1 t1 → StarConf P k2 t2 → StarConf P (k1 ++ k2) (t1 ++ t2)

/-- `Conf e q kids text`: `kids`/`text` is a possible (pairs, consumed text) of `e` in mode `q` -/
def Conf : PExpr ρ → Bool → List (Tree ρ) → List Char → Prop
  | .str s, _, k, t => k = [] ∧ t = s
  | .range lo hi, _, k, t => k = [] ∧ ∃ c, t = [c] ∧ lo ≤ c ∧ c ≤ hi
  | .any, _, k, t => k = [] ∧ ∃ c, t = [c]
  | .soi, _, k, t => k = [] ∧ t = []
  | .eoi, _, k, t => k = [] ∧ t = []
  | .seq a b, q, k, t => ∃ k1 t1 k2 t2, Conf a q k1 t1 ∧ Conf b q k2 t2 ∧ k = k1 ++ k2 ∧ t = t1 ++ t2
  | .alt a b, q, k, t => Conf a q k t ∨ Conf b q k t
  | .opt a, q, k, t => (k = [] ∧ t = []) ∨ Conf a q k t
  | .star a, q, k, t => StarConf (Conf a q) k t
  | .notp _, _, k, t => k = [] ∧ t = []
  | .andp _, _, k, t => k = [] ∧ t = []
  | .rule n atomic a, q, k, t =>
    ∃ k', Conf a (q || atomic) k' t ∧ k = (if q then [] else [Tree.node n t k'])

theorem iterate_conf {f : List Char → Option (R ρ)} {P : List (Tree ρ) → List Char → Prop}
    (hf : ∀ inp r, f inp = some r → P r.kids r.eaten) (n : Nat) (inp : List Char) :
    StarConf P (iterate f n inp).kids (iterate f n inp).eaten := by
  induction n generalizing inp with
  | zero => exact StarConf.nil
  | succ n ih =>
    simp only [iterate]
    split
    · exact StarConf.nil
    · next r1 h1 =>
      split
      · exact StarConf.nil
      · exact StarConf.cons (hf _ _ h1) (ih r1.rest)

/-- the engine only produces what the expression prescribes -/
theorem run_conf (e : PExpr ρ) : ∀ (q : Bool) (inp : List Char) (r : R ρ),
    run e q inp = some r → Conf e q r.kids r.eaten := by
  induction e with
  | str s =>
    intro q inp r h
    simp only [run, Option.map_eq_some_iff] at h
    obtain ⟨x, _, rfl⟩ := h
    exact ⟨rfl, rfl⟩
  | range lo hi =>
    intro q inp r h
    cases inp with
    | nil => simp [run] at h
    | cons c cs =>
      simp only [run] at h
      split at h
      · next hc => cases h; exact ⟨rfl, c, rfl, hc.1, hc.2⟩
      · cases h
  | any =>
    intro q inp r h
    cases inp with
    | nil => simp [run] at h
    | cons c cs => simp only [run] at h; cases h; exact ⟨rfl, c, rfl⟩
  | soi => intro q inp r h; simp only [run] at h; cases h; exact ⟨rfl, rfl⟩
  | eoi =>
    intro q inp r h
    cases inp with
    | nil => simp only [run] at h; cases h; exact ⟨rfl, rfl⟩
    | cons c cs => simp [run] at h
  | seq a b iha ihb =>
    intro q inp r h
    simp only [run] at h
    split at h
    · cases h
    · next r1 h1 =>
      split at h
      · cases h
      · next r2 h2 =>
        cases h
        exact ⟨_, _, _, _, iha q _ _ h1, ihb q _ _ h2, rfl, rfl⟩
  | alt a b iha ihb =>
    intro q inp r h
    simp only [run] at h
    split at h
    · next x hx => cases h; exact Or.inl (iha q _ _ hx)
    · exact Or.inr (ihb q _ _ h)
  | opt a iha =>
    intro q inp r h
    simp only [run] at h
    split at h
    · next x hx => cases h; exact Or.inr (iha q _ _ hx)
    · cases h; exact Or.inl ⟨rfl, rfl⟩
  | star a iha =>
    intro q inp r h
    simp only [run] at h
    cases h
    exact iterate_conf (iha q) _ _
  | notp a _ =>
    intro q inp r h
    simp only [run] at h
    split at h
    · cases h
    · cases h; exact ⟨rfl, rfl⟩
  | andp a _ =>
    intro q inp r h
    simp only [run] at h
    split at h
    · cases h; exact ⟨rfl, rfl⟩
    · cases h
  | rule name atomic a iha =>
    intro q inp r h
    simp only [run] at h
    split at h
    · cases h
    · next r1 h1 =>
      have := iha _ _ _ h1
      split at h
      · next hq => cases h; exact ⟨_, this, by simp [hq]⟩
      · next hq => cases h; exact ⟨_, this, by simp [hq]⟩

/-- in quiet mode (inside an atomic rule or a look-ahead) no pair is produced -/
theorem StarConf.kids_nil {P : List (Tree ρ) → List Char → Prop}
    (hP : ∀ k t, P k t → k = []) {k : List (Tree ρ)} {t : List Char} (h : StarConf P k t) : k = [] := by
  induction h with
  | nil => rfl
  | cons h1 _ ih => rw [hP _ _ h1, ih]; rfl

theorem Conf.quiet_kids (e : PExpr ρ) : ∀ (k : List (Tree ρ)) (t : List Char), Conf e true k t → k = [] := by
  induction e with
  | str s => intro k t h; exact h.1
  | range lo hi => intro k t h; exact h.1
  | any => intro k t h; exact h.1
  | soi => intro k t h; exact h.1
  | eoi => intro k t h; exact h.1
  | seq a b iha ihb =>
    intro k t h
    obtain ⟨k1, t1, k2, t2, h1, h2, rfl, _⟩ := h
    rw [iha _ _ h1, ihb _ _ h2]; rfl
  | alt a b iha ihb =>
    intro k t h
    rcases h with h | h
    · exact iha _ _ h
    · exact ihb _ _ h
  | opt a iha =>
    intro k t h
    rcases h with h | h
    · exact h.1
    · exact iha _ _ h
  | star a iha => intro k t h; exact StarConf.kids_nil iha h
  | notp a _ => intro k t h; exact h.1
  | andp a _ => intro k t h; exact h.1
  | rule name atomic a _ =>
    intro k t h
    obtain ⟨k', _, hk⟩ := h
    simpa using hk

/-- a property of every round of a repetition holds of every pair of the repetition -/
theorem StarConf.forall_mem {P : List (Tree ρ) → List Char → Prop} {Q : Tree ρ → Prop}
    (hP : ∀ k t, P k t → ∀ x ∈ k, Q x) {k : List (Tree ρ)} {t : List Char} (h : StarConf P k t) :
    ∀ x ∈ k, Q x := by
  induction h with
  | nil => intro x hx; cases hx
  | cons h1 _ ih =>
    intro x hx
    rcases List.mem_append.mp hx with hx | hx
    · exact hP _ _ h1 x hx
    · exact ih x hx

/-- a property of the text of every round that is closed under concatenation -/
theorem StarConf.text {P : List (Tree ρ) → List Char → Prop} {Q : List Char → Prop}
    (hnil : Q []) (happ : ∀ a b, Q a → Q b → Q (a ++ b))
    (hP : ∀ k t, P k t → Q t) {k : List (Tree ρ)} {t : List Char} (h : StarConf P k t) : Q t := by
  induction h with
  | nil => exact hnil
  | cons h1 _ ih => exact happ _ _ (hP _ _ h1) ih

/-- a non-quiet rule produces exactly one pair, carrying the rule's name -/
theorem Conf.rule_shape {n : ρ} {atomic : Bool} {a : PExpr ρ} {k : List (Tree ρ)} {t : List Char}
    (h : Conf (.rule n atomic a) false k t) : ∃ k', k = [Tree.node n t k'] ∧ Conf a atomic k' t := by
  obtain ⟨k', h1, hk⟩ := h
  exact ⟨k', by simpa using hk, by simpa using h1⟩

/-- the entry point only returns pairs the grammar prescribes -/
theorem parseWith_conf {entry : PExpr ρ} {inp : List Char} {ks : List (Tree ρ)}
    (h : parseWith entry inp = some ks) : ∃ t, Conf entry false ks t := by
  simp only [parseWith, Option.map_eq_some_iff] at h
  obtain ⟨r, hr, rfl⟩ := h
  exact ⟨_, run_conf entry false inp r hr⟩

end OH.Model.Peg
