import OH.Proofs.EvalSpecDatedYear
/-
C01 refinement, dated ranges: the decidable class `datedSafe` (on the range and the day) under which
the model's filter is the specification's `datedOk`, and the rule-level class `datedPlain` (no
offsets, or Easter with a small offset) that implies it on every day.
-/
namespace OH.Proofs.EvalSpec
open OH.Model OH.Model.Cal
open OH.Spec (shift dateInstance exactInstance specYear datedOk candidateYears yearsNear yearSpan isFixedDate datedDefined)

def offSmallD (o : DateOffset) : Bool := decide (-100000 ≤ o.days ∧ o.days ≤ 100000)

/-- every shifted instance of the bound on the years `ys` stays inside the year it is taken on -/
def staysOn (ds : DateSpec) (o : DateOffset) (after : Bool) (ys : List Int) : Bool :=
  ys.all (fun k => match proj ds o after k with | some p => year p == k | none => true)

theorem staysOn_iff (ds : DateSpec) (o : DateOffset) (after : Bool) (ys : List Int) :
    staysOn ds o after ys = true ↔ ∀ k ∈ ys, ∀ p, proj ds o after k = some p → InY k p := by
  unfold staysOn
  simp only [List.all_eq_true]
  constructor
  · intro h k hk p hp
    have := h k hk
    rw [hp] at this
    simp only [beq_iff_eq] at this
    exact inY_iff_year.2 this
  · intro h k hk
    cases hp : proj ds o after k with
    | none => rfl
    | some p => simp only [beq_iff_eq]; exact inY_iff_year.1 (h k hk p hp)

/-- The class of (dated range, day) pairs the refinement covers — decidable; `ys` are the years the
specification looks at (`candidateYears`: around the day and around the years the bounds carry):
 * both day offsets within ±100 000 days;
 * the range has a defined meaning (`datedDefined`: not "no year … year");
 * every bound WITHOUT a year, shifted by its offset, stays inside the year it is projected on, for
   each of the years `ys` ("year-locality"; a bound WITH a year may be shifted anywhere). -/
def datedSafe (s : DateSpec) (so : DateOffset) (e : DateSpec) (eo : DateOffset) (d : Int) : Bool :=
  let ys := candidateYears s e (yearSpan so eo) d
  offSmallD so && offSmallD eo &&
  (match specYear s, specYear e with
   | none, none => staysOn s so true ys && staysOn e eo false ys
   | some _, none => staysOn e eo false ys
   | some _, some _ => true
   | none, some _ => false)

theorem dated_eq_of_safe (s : DateSpec) (so : DateOffset) (e : DateSpec) (eo : DateOffset) (d : Int)
    (hwf : (MonthdayRange.date s so e eo).wf = true) (hsafe : datedSafe s so e eo d = true)
    (h1 : dateStart - 1 ≤ d) (h2 : d < dateEnd) :
    MonthdayRange.filter (.date s so e eo) d = .ok (datedOk s so e eo d) := by
  simp only [MonthdayRange.wf, DateOffset.wf, Bool.and_eq_true] at hwf
  obtain ⟨⟨⟨ws, ⟨wso, _⟩⟩, we⟩, ⟨weo, _⟩⟩ := hwf
  unfold datedSafe at hsafe
  simp only [Bool.and_eq_true, offSmallD, decide_eq_true_eq] at hsafe
  obtain ⟨⟨hss, hes⟩, hcls⟩ := hsafe
  have hs : BoundOK s so := ⟨ws, wso, hss⟩
  have he : BoundOK e eo := ⟨we, weo, hes⟩
  cases hsy : specYear s with
  | none =>
    cases hey : specYear e with
    | some ey => simp [hsy, hey] at hcls
    | none =>
      simp only [hsy, hey, Bool.and_eq_true, staysOn_iff] at hcls
      rw [candidateYears_yearless s e _ d hsy hey] at hcls
      obtain ⟨cS, cE⟩ := hcls
      by_cases hns : s = e ∧ isFixedDate s = true
      · -- a single fixed day without a year
        obtain ⟨rfl, hfx⟩ := hns
        cases s with
        | easter yr => simp [isFixedDate] at hfx
        | fixed yr m dd =>
          cases yr with
          | some n => simp [specYear] at hsy
          | none =>
            have exact_inst : ∀ k f after, ofYmd? k m dd = some f →
                dateInstance (.fixed none m dd) k after = some f := by
              intro k f after hf; simp [dateInstance, hf]
            apply dated_single_eq m dd so eo d wso hss weo hes h1 h2
            · intro k hk1 hk2 f hf
              exact cS k ((mem_yearsNear _ _ _).2 ⟨hk1, hk2⟩) _ (by simp [proj, exact_inst k f true hf])
            · intro k hk1 hk2 f hf
              exact cE k ((mem_yearsNear _ _ _).2 ⟨hk1, hk2⟩) _ (by simp [proj, exact_inst k f false hf])
      · exact dated_yearless_eq s so e eo d hs he hsy hey hns h1 h2
          (fun k a b p hp => cS k ((mem_yearsNear _ _ _).2 ⟨a, b⟩) p hp)
          (fun k a b p hp => cE k ((mem_yearsNear _ _ _).2 ⟨a, b⟩) p hp)
  | some sy =>
    cases hey : specYear e with
    | none =>
      simp only [hsy, hey, staysOn_iff] at hcls
      exact dated_year_yearless_eq s so e eo d hs he sy hsy hey h1 h2 hcls
    | some ey =>
      simp only [hsy, hey] at hcls
      by_cases hns : s = e ∧ isFixedDate s = true
      · obtain ⟨rfl, hfx⟩ := hns
        cases s with
        | easter yr => simp [isFixedDate] at hfx
        | fixed yr m dd =>
          cases yr with
          | none => simp [specYear] at hsy
          | some n =>
            have hn : 1900 ≤ n ∧ n ≤ 9999 := by
              have := ws
              simp only [DateSpec.wf, optYearOk, OH.Model.yearOk, Bool.and_eq_true, decide_eq_true_eq] at this
              omega
            exact dated_single_year_eq n m dd so eo d hn wso hss weo hes h1 h2
      · exact dated_year_year_eq s so e eo d hs he sy ey hsy hey hns h1 h2

/-! ### rule-level classes: safe on every day -/

def noOffset (o : DateOffset) : Bool := o.wday == .none && o.days == 0

/-- Easter shifted by at most 70 days either way (and possibly to a neighbouring weekday) stays in its year -/
def easterSmall (ds : DateSpec) (o : DateOffset) : Bool :=
  (match ds with | .easter _ => true | _ => false) && decide (-70 ≤ o.days ∧ o.days ≤ 70)

/-- a bound whose shifted instances provably stay in their year, whatever the year -/
def boundPlain (ds : DateSpec) (o : DateOffset) : Bool := noOffset o || easterSmall ds o

theorem shift_noOffset (o : DateOffset) (h : noOffset o = true) (p : Int) : shift o p = p := by
  simp only [noOffset, Bool.and_eq_true, beq_iff_eq] at h
  unfold shift
  simp only [h.1, h.2]
  omega

theorem yearStart_mar22 (k : Int) : ymdRaw k 3 22 = yearStart (k + 1) - 284 := by
  have := monthStart_mar k
  rw [yearStart_succ]; unfold ymdRaw; omega

theorem yearStart_apr25 (k : Int) : ymdRaw k 4 25 = yearStart (k + 1) - 250 := by
  have := monthStart_apr k
  rw [yearStart_succ]; unfold ymdRaw; omega

theorem boundPlain_stays (ds : DateSpec) (o : DateOffset) (after : Bool) (hwf : ds.wf = true)
    (h : boundPlain ds o = true) (k : Int) (hk : 0 ≤ k ∧ k ≤ 20000) (p : Int)
    (hp : proj ds o after k = some p) : InY k p := by
  obtain ⟨q, hq, rfl⟩ := proj_eq_some hp
  have hin := dateInstance_year ds k after hwf hk.1 (by unfold maxYear; omega) q hq
  simp only [boundPlain, Bool.or_eq_true] at h
  rcases h with h | h
  · rw [shift_noOffset o h]; exact hin
  · simp only [easterSmall, Bool.and_eq_true, decide_eq_true_eq] at h
    cases ds with
    | fixed yr m dd => simp at h
    | easter yr =>
      obtain ⟨d, he, hyd, lo, hi, _⟩ := easter_spec k hk.1 (by unfold maxYear; omega)
      simp only [dateInstance, he] at hq
      split at hq
      · cases hq
        have sb := shift_bounds o q
        rw [yearStart_mar22] at lo
        rw [yearStart_apr25] at hi
        have hl := yearLen_cases k
        have hs := yearStart_succ k
        unfold InY; omega
      · cases hq

theorem staysOn_of_plain (ds : DateSpec) (o : DateOffset) (after : Bool) (hwf : ds.wf = true)
    (h : boundPlain ds o = true) (ys : List Int) (hys : ∀ k ∈ ys, 0 ≤ k ∧ k ≤ 20000) :
    staysOn ds o after ys = true := by
  rw [staysOn_iff]
  intro k hk p hp
  exact boundPlain_stays ds o after hwf h k (hys k hk) p hp

/-- Rule-level class (no reference to the day): the range has a defined meaning; bounds WITHOUT a
year carry no offset (or are Easter shifted by at most 70 days); a bound WITH a year may carry any
offset within ±100 000 days. -/
def datedPlain (s : DateSpec) (so : DateOffset) (e : DateSpec) (eo : DateOffset) : Bool :=
  offSmallD so && offSmallD eo &&
  (match specYear s, specYear e with
   | none, none => boundPlain s so && boundPlain e eo
   | some _, none => boundPlain e eo
   | some _, some _ => true
   | none, some _ => false)

theorem datedSafe_of_plain (s : DateSpec) (so : DateOffset) (e : DateSpec) (eo : DateOffset) (d : Int)
    (hwf : (MonthdayRange.date s so e eo).wf = true) (h : datedPlain s so e eo = true)
    (h1 : dateStart - 1 ≤ d) (h2 : d < dateEnd) : datedSafe s so e eo d = true := by
  simp only [MonthdayRange.wf, Bool.and_eq_true] at hwf
  obtain ⟨⟨⟨ws, _⟩, we⟩, _⟩ := hwf
  unfold datedPlain at h
  unfold datedSafe
  simp only [Bool.and_eq_true] at h ⊢
  obtain ⟨⟨hss, hes⟩, hcls⟩ := h
  refine ⟨⟨hss, hes⟩, ?_⟩
  simp only [offSmallD, decide_eq_true_eq] at hss hes
  have hw := yearSpan_bounds so eo hss hes
  have hy := year_window h1 h2
  have hsyr : ∀ sy, specYear s = some sy → 1900 ≤ sy ∧ sy ≤ 9999 := by
    intro sy hsy
    obtain ⟨_, _, a, b⟩ := proj_some_own_year s so true ws sy hsy
    exact ⟨a, b⟩
  have heyr : ∀ ey, specYear e = some ey → 1900 ≤ ey ∧ ey ≤ 9999 := by
    intro ey hey
    obtain ⟨_, _, a, b⟩ := proj_some_own_year e eo false we ey hey
    exact ⟨a, b⟩
  have hys : ∀ k ∈ candidateYears s e (yearSpan so eo) d, 0 ≤ k ∧ k ≤ 20000 := by
    intro k hk
    rw [mem_candidateYears] at hk
    rcases hk with hk | ⟨sy, hsy, hk⟩ | ⟨ey, hey, hk⟩
    · omega
    · have := hsyr sy hsy; omega
    · have := heyr ey hey; omega
  cases hsy : specYear s with
  | none =>
    cases hey : specYear e with
    | none =>
      simp only [hsy, hey, Bool.and_eq_true] at hcls ⊢
      exact ⟨staysOn_of_plain s so true ws hcls.1 _ hys, staysOn_of_plain e eo false we hcls.2 _ hys⟩
    | some ey => simp [hsy, hey] at hcls
  | some sy =>
    cases hey : specYear e with
    | none =>
      simp only [hsy, hey] at hcls ⊢
      exact staysOn_of_plain e eo false we hcls _ hys
    | some ey => rfl

end OH.Proofs.EvalSpec
