import OH.Proofs.EvalSpecDatedYear
import OH.Proofs.EvalSpecDatedWide
/-
C01 refinement, dated ranges: the decidable class `datedSafe` (on the range and the day) under which
the model's filter is the specification's `datedOk`, and the rule-level class `datedPlain` (no
offsets, or Easter with a small offset) that implies it on every day.
-/
namespace OH.Proofs.EvalSpec
open OH.Model OH.Model.Cal
open OH.Spec (shift dateInstance exactInstance specYear datedOk candidateYears yearsNear yearSpan isFixedDate datedDefined)

def offSmallD (o : DateOffset) : Bool := decide (-100000 ≤ o.days ∧ o.days ≤ 100000)

/-- every shifted instance of the bound on the years `ys` stays inside the year it is taken on -/
def staysOn (ds : DateSpec) (o : DateOffset) (after : Bool) (ys : List Int) : Bool :=
  ys.all (fun k => match proj ds o after k with | some p => year p == k | none => true)

theorem staysOn_iff (ds : DateSpec) (o : DateOffset) (after : Bool) (ys : List Int) :
    staysOn ds o after ys = true ↔ ∀ k ∈ ys, ∀ p, proj ds o after k = some p → InY k p := by
  unfold staysOn
  simp only [List.all_eq_true]
  constructor
  · intro h k hk p hp
    have := h k hk
    rw [hp] at this
    simp only [beq_iff_eq] at this
    exact inY_iff_year.2 this
  · intro h k hk
    cases hp : proj ds o after k with
    | none => rfl
    | some p => simp only [beq_iff_eq]; exact inY_iff_year.1 (h k hk p hp)

/-- `WindowOK` as a Boolean: the window `y-2 … y+2` of the implementation is adequate for day `d`:
with `S k`, `E k` the shifted instances of the two bounds on year `k`, for the years `y-w … y+w` the
specification looks at: `S` and `E` increase from each year to the next, `d < S (y+2)`, `d ≤ E (y+3)`,
and some start `S k`, `k ∈ y-2 … y+1`, is at or before `d` and after `E (y-3)`. -/
def windowOKb (s : DateSpec) (so : DateOffset) (e : DateSpec) (eo : DateOffset) (d : Int) : Bool :=
  let y := year d
  let w := yearSpan so eo
  let S := projT s so true
  let E := projT e eo false
  (List.range (2 * w)).all (fun (i : Nat) =>
      decide (S (y - w + i) < S (y - w + i + 1)) && decide (E (y - w + i) < E (y - w + i + 1)))
    && decide (d < S (y + 2)) && decide (d ≤ E (y + 3))
    && ([y - 2, y - 1, y, y + 1] : List Int).any (fun k0 => decide (S k0 ≤ d) && decide (E (y - 3) < S k0))

theorem windowOKb_iff (s : DateSpec) (so : DateOffset) (e : DateSpec) (eo : DateOffset) (d : Int) :
    windowOKb s so e eo d = true ↔
      WindowOK (projT s so true) (projT e eo false) (year d) d (yearSpan so eo) := by
  unfold windowOKb
  simp only [Bool.and_eq_true, List.all_eq_true, List.mem_range, decide_eq_true_eq, List.any_eq_true,
    List.mem_cons, List.not_mem_nil, or_false]
  constructor
  · rintro ⟨⟨⟨hm, a⟩, c⟩, k0, hk0, e'⟩
    refine ⟨fun k h1 h2 => ?_, fun k h1 h2 => ?_, a, c, k0, by omega, by omega, e'.1, e'.2⟩
    · have := (hm (k - (year d - yearSpan so eo)).toNat (by omega)).1
      rw [show year d - (yearSpan so eo : Int) + ((k - (year d - yearSpan so eo)).toNat : Int) = k by omega] at this
      exact this
    · have := (hm (k - (year d - yearSpan so eo)).toNat (by omega)).2
      rw [show year d - (yearSpan so eo : Int) + ((k - (year d - yearSpan so eo)).toNat : Int) = k by omega] at this
      exact this
  · intro h
    obtain ⟨k0, a, b, c, e'⟩ := h.w4
    exact ⟨⟨⟨fun i hi => ⟨h.monoS _ (by omega) (by omega), h.monoE _ (by omega) (by omega)⟩, h.w1⟩, h.w3⟩,
      k0, by omega, c, e'⟩

/-- The class of (dated range, day) pairs the refinement covers — decidable; `ys` are the years the
specification looks at (`candidateYears`: around the day and around the years the bounds carry):
 * both day offsets within ±100 000 days;
 * the range has a defined meaning (`datedDefined`: not "no year … year");
 * both bounds WITHOUT a year (and not a single day): the implementation's window is adequate
   (`windowOKb`), or — also for a single day — year-locality: every shifted instance stays inside the
   year it is projected on, for each of the years `ys`;
 * start WITH a year, end without: year-locality of the end; both WITH a year: nothing more. -/
def datedSafe (s : DateSpec) (so : DateOffset) (e : DateSpec) (eo : DateOffset) (d : Int) : Bool :=
  let ys := candidateYears s e (yearSpan so eo) d
  offSmallD so && offSmallD eo &&
  (match specYear s, specYear e with
   | none, none => (staysOn s so true ys && staysOn e eo false ys)
        || (!(s == e && isFixedDate s) && windowOKb s so e eo d)
   | some _, none => staysOn e eo false ys
   | some _, some _ => true
   | none, some _ => false)

theorem dated_eq_of_safe (s : DateSpec) (so : DateOffset) (e : DateSpec) (eo : DateOffset) (d : Int)
    (hwf : (MonthdayRange.date s so e eo).wf = true) (hsafe : datedSafe s so e eo d = true)
    (h1 : dateStart - 1 ≤ d) (h2 : d < dateEnd) :
    MonthdayRange.filter (.date s so e eo) d = .ok (datedOk s so e eo d) := by
  simp only [MonthdayRange.wf, DateOffset.wf, Bool.and_eq_true] at hwf
  obtain ⟨⟨⟨ws, ⟨wso, _⟩⟩, we⟩, ⟨weo, _⟩⟩ := hwf
  unfold datedSafe at hsafe
  simp only [Bool.and_eq_true, offSmallD, decide_eq_true_eq] at hsafe
  obtain ⟨⟨hss, hes⟩, hcls⟩ := hsafe
  have hs : BoundOK s so := ⟨ws, wso, hss⟩
  have he : BoundOK e eo := ⟨we, weo, hes⟩
  cases hsy : specYear s with
  | none =>
    cases hey : specYear e with
    | some ey => simp [hsy, hey] at hcls
    | none =>
      simp only [hsy, hey, Bool.or_eq_true, Bool.and_eq_true, staysOn_iff, Bool.not_eq_true',
        Bool.and_eq_false_iff, windowOKb_iff] at hcls
      rw [candidateYears_yearless s e _ d hsy hey] at hcls
      rcases hcls with ⟨cS, cE⟩ | ⟨hnsb, hW⟩
      · by_cases hns : s = e ∧ isFixedDate s = true
        · -- a single fixed day without a year
          obtain ⟨rfl, hfx⟩ := hns
          cases s with
          | easter yr => simp [isFixedDate] at hfx
          | fixed yr m dd =>
            cases yr with
            | some n => simp [specYear] at hsy
            | none =>
              have exact_inst : ∀ k f after, ofYmd? k m dd = some f →
                  dateInstance (.fixed none m dd) k after = some f := by
                intro k f after hf; simp [dateInstance, hf]
              apply dated_single_eq m dd so eo d wso hss weo hes h1 h2
              · intro k hk1 hk2 f hf
                exact cS k ((mem_yearsNear _ _ _).2 ⟨hk1, hk2⟩) _ (by simp [proj, exact_inst k f true hf])
              · intro k hk1 hk2 f hf
                exact cE k ((mem_yearsNear _ _ _).2 ⟨hk1, hk2⟩) _ (by simp [proj, exact_inst k f false hf])
        · have hy := year_window h1 h2
          have hw := yearSpan_bounds so eo hss hes
          apply dated_yearless_eq s so e eo d hs he hsy hey hns h1 h2
          apply windowOK_of_inY _ _ _ _ _ hw.1 (inY_year d)
          · intro k a b
            obtain ⟨p, hp⟩ := proj_some_yearless s so true ws hsy k (by omega)
            have := cS k ((mem_yearsNear _ _ _).2 ⟨a, b⟩) p hp
            simpa [projT, hp] using this
          · intro k a b
            obtain ⟨p, hp⟩ := proj_some_yearless e eo false we hey k (by omega)
            have := cE k ((mem_yearsNear _ _ _).2 ⟨a, b⟩) p hp
            simpa [projT, hp] using this
      · have hns : ¬ (s = e ∧ isFixedDate s = true) := by
          rintro ⟨rfl, hfx⟩
          rcases hnsb with h | h
          · simp at h
          · rw [hfx] at h; cases h
        exact dated_yearless_eq s so e eo d hs he hsy hey hns h1 h2 hW
  | some sy =>
    cases hey : specYear e with
    | none =>
      simp only [hsy, hey, staysOn_iff] at hcls
      exact dated_year_yearless_eq s so e eo d hs he sy hsy hey h1 h2 hcls
    | some ey =>
      simp only [hsy, hey] at hcls
      by_cases hns : s = e ∧ isFixedDate s = true
      · obtain ⟨rfl, hfx⟩ := hns
        cases s with
        | easter yr => simp [isFixedDate] at hfx
        | fixed yr m dd =>
          cases yr with
          | none => simp [specYear] at hsy
          | some n =>
            exact dated_single_year_eq n m dd so eo d wso weo
      · exact dated_year_year_eq s so e eo d hs he sy ey hsy hey hns h1 h2

/-! ### rule-level classes: safe on every day -/

def noOffset (o : DateOffset) : Bool := o.wday == .none && o.days == 0

/-- Easter shifted by at most 70 days either way (and possibly to a neighbouring weekday) stays in its year -/
def easterSmall (ds : DateSpec) (o : DateOffset) : Bool :=
  (match ds with | .easter _ => true | _ => false) && decide (-70 ≤ o.days ∧ o.days ≤ 70)

/-- a bound whose shifted instances provably stay in their year, whatever the year -/
def boundPlain (ds : DateSpec) (o : DateOffset) : Bool := noOffset o || easterSmall ds o

theorem shift_noOffset (o : DateOffset) (h : noOffset o = true) (p : Int)
    (hp : minDay ≤ p ∧ p ≤ maxDay) : shift o p = p := by
  simp only [noOffset, Bool.and_eq_true, beq_iff_eq] at h
  unfold shift
  simp only [h.1, h.2]
  rw [addDaysSat_eq (by omega) (by omega) (by omega)]
  omega

theorem yearStart_mar22 (k : Int) : ymdRaw k 3 22 = yearStart (k + 1) - 284 := by
  have := monthStart_mar k
  rw [yearStart_succ]; unfold ymdRaw; omega

theorem yearStart_apr25 (k : Int) : ymdRaw k 4 25 = yearStart (k + 1) - 250 := by
  have := monthStart_apr k
  rw [yearStart_succ]; unfold ymdRaw; omega

theorem boundPlain_stays (ds : DateSpec) (o : DateOffset) (after : Bool) (hwf : ds.wf = true)
    (h : boundPlain ds o = true) (k : Int) (hk : 0 ≤ k ∧ k ≤ 20000) (p : Int)
    (hp : proj ds o after k = some p) : InY k p := by
  obtain ⟨q, hq, rfl⟩ := proj_eq_some hp
  have hin := dateInstance_year ds k after hwf hk.1 (by unfold maxYear; omega) q hq
  simp only [boundPlain, Bool.or_eq_true] at h
  rcases h with h | h
  · have hr := inYear_range hk hin
    rw [shift_noOffset o h q ⟨by rw [minDay_eq]; omega, by rw [maxDay_eq]; omega⟩]; exact hin
  · simp only [easterSmall, Bool.and_eq_true, decide_eq_true_eq] at h
    cases ds with
    | fixed yr m dd => simp at h
    | easter yr =>
      obtain ⟨d, he, hyd, lo, hi, _⟩ := easter_spec k hk.1 (by unfold maxYear; omega)
      simp only [dateInstance, he] at hq
      split at hq
      · cases hq
        have hr := inYear_range hk (inY_iff_year.2 hyd)
        have sb := shift_bounds o q (by omega) (by rw [minDay_eq]; omega) (by rw [maxDay_eq]; omega)
        rw [yearStart_mar22] at lo
        rw [yearStart_apr25] at hi
        have hl := yearLen_cases k
        have hs := yearStart_succ k
        unfold InY; omega
      · cases hq

theorem staysOn_of_plain (ds : DateSpec) (o : DateOffset) (after : Bool) (hwf : ds.wf = true)
    (h : boundPlain ds o = true) (ys : List Int) (hys : ∀ k ∈ ys, 0 ≤ k ∧ k ≤ 20000) :
    staysOn ds o after ys = true := by
  rw [staysOn_iff]
  intro k hk p hp
  exact boundPlain_stays ds o after hwf h k (hys k hk) p hp

/-- Rule-level class (no reference to the day): the range has a defined meaning; day offsets within
±100 000 days; a bound WITH a year: nothing more; two bounds WITHOUT a year: they carry no offset (or
are Easter shifted by at most 70 days), or — not a single day — the shifted bounds stay within about a
year of their nominal year and occurrences are shorter than about a year (`datedWideB`); a yearless end
after a start with a year: no offset (or Easter ± ≤ 70 days). -/
def datedPlain (s : DateSpec) (so : DateOffset) (e : DateSpec) (eo : DateOffset) : Bool :=
  offSmallD so && offSmallD eo &&
  (match specYear s, specYear e with
   | none, none => (boundPlain s so && boundPlain e eo)
        || (!(s == e && isFixedDate s) && datedWideB s so e eo)
   | some _, none => boundPlain e eo
   | some _, some _ => true
   | none, some _ => false)

theorem datedSafe_of_plain (s : DateSpec) (so : DateOffset) (e : DateSpec) (eo : DateOffset) (d : Int)
    (hwf : (MonthdayRange.date s so e eo).wf = true) (h : datedPlain s so e eo = true)
    (h1 : dateStart - 1 ≤ d) (h2 : d < dateEnd) : datedSafe s so e eo d = true := by
  simp only [MonthdayRange.wf, DateOffset.wf, Bool.and_eq_true] at hwf
  obtain ⟨⟨⟨ws, ⟨wso, _⟩⟩, we⟩, ⟨weo, _⟩⟩ := hwf
  unfold datedPlain at h
  unfold datedSafe
  simp only [Bool.and_eq_true] at h ⊢
  obtain ⟨⟨hss, hes⟩, hcls⟩ := h
  refine ⟨⟨hss, hes⟩, ?_⟩
  simp only [offSmallD, decide_eq_true_eq] at hss hes
  have hw := yearSpan_bounds so eo hss hes
  have hy := year_window h1 h2
  have hsyr : ∀ sy, specYear s = some sy → 1900 ≤ sy ∧ sy ≤ 9999 := by
    intro sy hsy
    obtain ⟨_, _, a, b⟩ := proj_some_own_year s so true ws sy hsy
    exact ⟨a, b⟩
  have heyr : ∀ ey, specYear e = some ey → 1900 ≤ ey ∧ ey ≤ 9999 := by
    intro ey hey
    obtain ⟨_, _, a, b⟩ := proj_some_own_year e eo false we ey hey
    exact ⟨a, b⟩
  have hys : ∀ k ∈ candidateYears s e (yearSpan so eo) d, 0 ≤ k ∧ k ≤ 20000 := by
    intro k hk
    rw [mem_candidateYears] at hk
    rcases hk with hk | ⟨sy, hsy, hk⟩ | ⟨ey, hey, hk⟩
    · omega
    · have := hsyr sy hsy; omega
    · have := heyr ey hey; omega
  cases hsy : specYear s with
  | none =>
    cases hey : specYear e with
    | none =>
      simp only [hsy, hey, Bool.or_eq_true, Bool.and_eq_true] at hcls
      simp only [Bool.or_eq_true, Bool.and_eq_true]
      rcases hcls with hcls | hcls
      · left
        exact ⟨staysOn_of_plain s so true ws hcls.1 _ hys, staysOn_of_plain e eo false we hcls.2 _ hys⟩
      · right
        refine ⟨hcls.1, ?_⟩
        rw [windowOKb_iff]
        exact windowOK_of_wide s so e eo d ⟨ws, wso, hss⟩ ⟨we, weo, hes⟩ hsy hey hcls.2 h1 h2
    | some ey => simp [hsy, hey] at hcls
  | some sy =>
    cases hey : specYear e with
    | none =>
      simp only [hsy, hey] at hcls ⊢
      exact staysOn_of_plain e eo false we hcls _ hys
    | some ey => rfl

end OH.Proofs.EvalSpec
