import OH.Proofs.EvalSpecDatedYear
import OH.Proofs.EvalSpecDatedWide
import OH.Proofs.DatedFar
import OH.Proofs.EvalSpecDatedAll
import OH.Proofs.EvalSpecDatedYearAll
/-
C01 refinement, dated ranges: the decidable class under which the model's filter is the specification's
`datedOk` on every day of 1899-12-31 … 9999-12-31.

Since the pairing windows of `MonthdayRange::Date` are centred on the year the bound has to come from
(`yearBeforeOffset`: the year of `d - day offset`) the class no longer depends on the day, on year-locality
or on the size of the shift relative to a year.  A defined meaning, and (`datedPlain`):
 * both bounds carry a year: ANY offsets;
 * two fixed dates without a year (`rangeAllD`, OH/Proofs/EvalSpecDatedAll.lean on top of EvalSpecDatedWide.lean):
   ANY offsets.  The shifted instances the specification looks at (`yearSpan` years on either side of the day) may
   be pinned at `NaiveDate::MIN/MAX` or lie outside the calendar: weak monotonicity; beyond ±92 000 000 days the
   code's own windows are cut by the calendar and may hold pinned (equal) occurrences: `ensure_increasing_iter`
   keeps one of each, and a window that starts at the first / ends at the last year of the calendar is adequate;
   (`offsWideD`, ±92 000 000 days, is the part of this class the HINT theorems cover);
 * a yearless start moved by +99 500 000 days or more: nothing ever starts (OH/Proofs/DatedFar.lean; any dates);
 * a start with a year before a fixed yearless end (`startYearD`, OH/Proofs/EvalSpecDatedYearAll.lean): start
   offset within ±92 000 000 days (the shifted start is not pinned), ANY end offset;
 * Easter without a year (`offsSmallD`, OH/Proofs/EvalSpecDated.lean, EvalSpecDatedYear.lean): both day offsets
   within ±300 000 days (every year looked at is then a year ≥ 0, where `easter()` is the Gregorian computus: on a
   negative year it is not a date between March 22nd and April 25th — it can be `Feb 30`: no occurrence); the same
   files prove ±30 000 000 days for fixed dates (every year looked at lies in -165 000 … 175 000, where no shifted
   instance saturates) — subsumed by the cases above.
What remains outside and why: notes/DATED-BOUND.md.
-/
namespace OH.Proofs.EvalSpec
open OH.Model OH.Model.Cal
open OH.Spec (shift dateInstance exactInstance specYear datedOk candidateYears yearsNear yearSpan isFixedDate datedDefined)

/-- a day offset within ±30 000 000 days (about ±82 000 years) -/
def offSmallD (o : DateOffset) : Bool := decide (-30000000 ≤ o.days ∧ o.days ≤ 30000000)

/-- a day offset within ±300 000 days (about ±820 years): the bound when one side of the range is Easter -/
def offEasterD (o : DateOffset) : Bool := decide (-300000 ≤ o.days ∧ o.days ≤ 300000)

/-- the two day offsets of a dated range are in the scope of the theorems: within ±30 000 000 days, and
within ±300 000 days when one of the two dates is Easter -/
def offsSmallD (s : DateSpec) (so : DateOffset) (e : DateSpec) (eo : DateOffset) : Bool :=
  offSmallD so && offSmallD eo && ((isFixedDate s && isFixedDate e) || (offEasterD so && offEasterD eo))

/-- under `offsSmallD` there is a first year `L` from which both dates are known (`BoundOK L`) and that the
specification's candidate years do not go below -/
theorem offsSmallD_spec (s : DateSpec) (so : DateOffset) (e : DateSpec) (eo : DateOffset)
    (h : offsSmallD s so e eo = true) :
    (-30000000 ≤ so.days ∧ so.days ≤ 30000000) ∧ (-30000000 ≤ eo.days ∧ eo.days ≤ 30000000) ∧
    ∃ L : Int, -165000 ≤ L ∧ (isFixedDate s = false → 0 ≤ L) ∧ (isFixedDate e = false → 0 ≤ L) ∧
      L + yearSpan so eo ≤ 1899 := by
  simp only [offsSmallD, offSmallD, offEasterD, Bool.and_eq_true, Bool.or_eq_true, decide_eq_true_eq] at h
  obtain ⟨⟨hss, hes⟩, hc⟩ := h
  refine ⟨hss, hes, ?_⟩
  rcases hc with ⟨fs, fe⟩ | ⟨es, ee⟩
  · refine ⟨-165000, by omega, by simp [fs], by simp [fe], ?_⟩
    have := yearSpan_bounds so eo hss hes
    omega
  · refine ⟨0, by omega, fun _ => by omega, fun _ => by omega, ?_⟩
    unfold yearSpan
    omega

/-- a day offset within ±92 000 000 days (about ±252 000 years): as far as the years the code looks at
(`ys-2 … ys+10` around the year of `d - offset`, `d` a day of 1900–9999) are years of chrono's calendar -/
def offWideD (o : DateOffset) : Bool := decide (-92000000 ≤ o.days ∧ o.days ≤ 92000000)

/-- a fixed date without a year (`Jan 01`, `Feb 29`) -/
def fixedYearless (ds : DateSpec) : Bool := isFixedDate ds && (specYear ds).isNone

/-- two fixed yearless dates (OH/Proofs/EvalSpecDatedWide.lean): both day offsets within ±92 000 000 days; for a
single day (`Feb 29 -N days-Feb 29 +M days`) the END offset only — the start offset is any `Int` -/
def offsWideD (s : DateSpec) (so : DateOffset) (e : DateSpec) (eo : DateOffset) : Bool :=
  fixedYearless s && fixedYearless e && offWideD eo && (s == e || offWideD so)

/-- two fixed yearless dates — a range or a single day (OH/Proofs/EvalSpecDatedAll.lean): EVERY day offset,
within and beyond representability -/
def rangeAllD (s e : DateSpec) : Bool := fixedYearless s && fixedYearless e

/-- a start with a year (fixed or Easter) before a fixed yearless end (OH/Proofs/EvalSpecDatedYearAll.lean): start
offset within ±92 000 000 days (the shifted start is not pinned), EVERY end offset -/
def startYearD (s : DateSpec) (so : DateOffset) (e : DateSpec) : Bool :=
  (specYear s).isSome && fixedYearless e && offWideD so

/-- Rule-level class (no reference to the day): the range has a defined meaning (`datedDefined`: not
"no year … year") and
 * both bounds carry a year: any offsets;
 * two fixed dates without a year (`Jan 01 …-Dec 31 …`, `Feb 29 -N days-Feb 29 +M days`): ANY offsets
   (`rangeAllD`; `offsWideD`, ±92 000 000 days, is the part of it the hint theorems cover);
 * a start with a year before a fixed yearless end: start offset within ±92 000 000 days, any end offset
   (`startYearD`);
 * otherwise (a yearless Easter): both day offsets within ±300 000 days (`offsSmallD`; ±30 000 000 days when both
   dates are fixed — subsumed by the cases above).
 * or: a yearless start moved by +99 500 000 days or more (`offFarStartD`, OH/Proofs/DatedFar.lean: beyond
   representability — nothing ever starts before 10000-01-01), any dates, any end offset.
Nothing else: any weekday shift, single days, ranges longer than a year, offsets that differ by thousands of
years. -/
def datedPlain (s : DateSpec) (so : DateOffset) (e : DateSpec) (eo : DateOffset) : Bool :=
  (((specYear s).isSome && (specYear e).isSome) || offsSmallD s so e eo || offsWideD s so e eo
    || ((specYear s).isNone && offFarStartD so) || rangeAllD s e || startYearD s so e) && datedDefined s e

/-- The class of (dated range, day) pairs the refinement covers: it no longer depends on the day (the
parameter is kept for the statements that quantify over days). -/
def datedSafe (s : DateSpec) (so : DateOffset) (e : DateSpec) (eo : DateOffset) (_d : Int) : Bool :=
  datedPlain s so e eo

theorem dated_eq_of_wide (s : DateSpec) (so : DateOffset) (e : DateSpec) (eo : DateOffset) (d : Int)
    (hwf : (MonthdayRange.date s so e eo).wf = true) (hw : offsWideD s so e eo = true)
    (h1 : dateStart - 1 ≤ d) (h2 : d < dateEnd) :
    MonthdayRange.filter (.date s so e eo) d = .ok (datedOk s so e eo d) := by
  simp only [MonthdayRange.wf, Bool.and_eq_true] at hwf
  obtain ⟨⟨⟨ws, wso⟩, we⟩, weo⟩ := hwf
  have wso' : so.wday.wf = true := by simp only [DateOffset.wf, Bool.and_eq_true] at wso; exact wso.1
  have weo' : eo.wday.wf = true := by simp only [DateOffset.wf, Bool.and_eq_true] at weo; exact weo.1
  simp only [offsWideD, fixedYearless, offWideD, Bool.and_eq_true, Bool.or_eq_true, decide_eq_true_eq,
    Option.isNone_iff_eq_none, beq_iff_eq] at hw
  obtain ⟨⟨⟨⟨fs, ys⟩, ⟨fe, ye⟩⟩, hes⟩, hso⟩ := hw
  by_cases hns : s = e ∧ isFixedDate s = true
  · obtain ⟨rfl, _⟩ := hns
    cases s with
    | easter yr => simp [isFixedDate] at fs
    | fixed yr m dd =>
      cases yr with
      | some n => simp [specYear] at ys
      | none => exact dated_single_eqW m dd so eo d wso weo hes h1 h2
  · have hss : -92000000 ≤ so.days ∧ so.days ≤ 92000000 := by
      rcases hso with h | h
      · exact absurd ⟨h, fs⟩ hns
      · exact h
    exact dated_yearless_eqW s so e eo d ⟨ws, wso', fs, ys, hss⟩ ⟨we, weo', fe, ye, hes⟩ hns h1 h2

theorem dated_eq_of_plain (s : DateSpec) (so : DateOffset) (e : DateSpec) (eo : DateOffset) (d : Int)
    (hwf : (MonthdayRange.date s so e eo).wf = true) (hsafe : datedPlain s so e eo = true)
    (h1 : dateStart - 1 ≤ d) (h2 : d < dateEnd) :
    MonthdayRange.filter (.date s so e eo) d = .ok (datedOk s so e eo d) := by
  by_cases hwide : offsWideD s so e eo = true
  · exact dated_eq_of_wide s so e eo d hwf hwide h1 h2
  by_cases hfar : ((specYear s).isNone && offFarStartD so) = true
  · simp only [Bool.and_eq_true, Option.isNone_iff_eq_none, offFarStartD, decide_eq_true_eq] at hfar
    exact dated_far_eq s so e eo d hwf hfar.1 hfar.2 h2
  by_cases hall : rangeAllD s e = true
  · simp only [MonthdayRange.wf, Bool.and_eq_true] at hwf
    obtain ⟨⟨⟨ws, wso⟩, we⟩, weo⟩ := hwf
    simp only [rangeAllD, fixedYearless, Bool.and_eq_true, Option.isNone_iff_eq_none] at hall
    obtain ⟨⟨fs, ys⟩, ⟨fe, ye⟩⟩ := hall
    by_cases hse : s = e
    · subst hse
      cases s with
      | easter yr => simp [isFixedDate] at fs
      | fixed yr m dd =>
        cases yr with
        | some n => simp [specYear] at ys
        | none => exact dated_single_eqA m dd so eo d wso weo h1 h2
    · exact dated_yearless_eqA s so e eo d ⟨ws, wso, fs, ys⟩ ⟨we, weo, fe, ye⟩ (fun h => hse h.1) h1 h2
  by_cases hsyd : startYearD s so e = true
  · simp only [MonthdayRange.wf, Bool.and_eq_true] at hwf
    obtain ⟨⟨⟨ws, wso⟩, we⟩, weo⟩ := hwf
    simp only [startYearD, fixedYearless, offWideD, Bool.and_eq_true, Option.isNone_iff_eq_none,
      decide_eq_true_eq] at hsyd
    obtain ⟨⟨hsome, ⟨fe, ye⟩⟩, hss⟩ := hsyd
    obtain ⟨sy, hsy⟩ := Option.isSome_iff_exists.1 hsome
    exact dated_year_yearless_eqA s so e eo d ws wso hss ⟨we, weo, fe, ye⟩ sy hsy h2
  simp only [MonthdayRange.wf, DateOffset.wf, Bool.and_eq_true] at hwf
  obtain ⟨⟨⟨ws, ⟨wso, _⟩⟩, we⟩, ⟨weo, _⟩⟩ := hwf
  unfold datedPlain at hsafe
  rw [Bool.not_eq_true] at hfar hall hsyd
  simp only [Bool.and_eq_true, Bool.or_eq_true, hwide, hfar, hall, hsyd] at hsafe
  obtain ⟨hoff, hdef⟩ := hsafe
  cases hsy : specYear s with
  | none =>
    have hoff : offsSmallD s so e eo = true := by
      rcases hoff with ((((h | h) | h) | h) | h) | h
      · simp [hsy] at h
      · exact h
      · exact absurd h (by simp)
      · exact absurd h (by simp)
      · exact absurd h (by simp)
      · exact absurd h (by simp)
    obtain ⟨hss, hes, L, hL1, hLs, hLe, hL⟩ := offsSmallD_spec s so e eo hoff
    have hs : BoundOK L s so := ⟨ws, wso, hss, hL1, hLs⟩
    have he : BoundOK L e eo := ⟨we, weo, hes, hL1, hLe⟩
    cases hey : specYear e with
    | some ey => simp [datedDefined, hsy, hey] at hdef
    | none =>
      by_cases hns : s = e ∧ isFixedDate s = true
      · -- a single fixed day without a year
        obtain ⟨rfl, hfx⟩ := hns
        cases s with
        | easter yr => simp [isFixedDate] at hfx
        | fixed yr m dd =>
          cases yr with
          | some n => simp [specYear] at hsy
          | none => exact dated_single_eq m dd so eo d wso hss weo hes h1 h2
      · exact dated_yearless_eq s so e eo d hs he hL hsy hey hns h1 h2
  | some sy =>
    cases hey : specYear e with
    | none =>
      have hoff : offsSmallD s so e eo = true := by
        rcases hoff with ((((h | h) | h) | h) | h) | h
        · simp [hey] at h
        · exact h
        · exact absurd h (by simp)
        · exact absurd h (by simp)
        · exact absurd h (by simp)
        · exact absurd h (by simp)
      obtain ⟨hss, hes, L, hL1, hLs, hLe, hL⟩ := offsSmallD_spec s so e eo hoff
      exact dated_year_yearless_eq s so e eo d ⟨ws, wso, hss, hL1, hLs⟩ ⟨we, weo, hes, hL1, hLe⟩ hL sy hsy hey h1 h2
    | some ey =>
      by_cases hns : s = e ∧ isFixedDate s = true
      · obtain ⟨rfl, hfx⟩ := hns
        cases s with
        | easter yr => simp [isFixedDate] at hfx
        | fixed yr m dd =>
          cases yr with
          | none => simp [specYear] at hsy
          | some n => exact dated_single_year_eq n m dd so eo d wso weo
      · exact dated_year_year_eq s so e eo d ws wso we weo sy ey hsy hey hns

theorem dated_eq_of_safe (s : DateSpec) (so : DateOffset) (e : DateSpec) (eo : DateOffset) (d : Int)
    (hwf : (MonthdayRange.date s so e eo).wf = true) (hsafe : datedSafe s so e eo d = true)
    (h1 : dateStart - 1 ≤ d) (h2 : d < dateEnd) :
    MonthdayRange.filter (.date s so e eo) d = .ok (datedOk s so e eo d) :=
  dated_eq_of_plain s so e eo d hwf hsafe h1 h2

theorem datedSafe_of_plain (s : DateSpec) (so : DateOffset) (e : DateSpec) (eo : DateOffset) (d : Int)
    (h : datedPlain s so e eo = true) : datedSafe s so e eo d = true := h

end OH.Proofs.EvalSpec
