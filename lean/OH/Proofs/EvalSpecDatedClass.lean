import OH.Proofs.EvalSpecDatedYear
/-
C01 refinement, dated ranges: the decidable class under which the model's filter is the specification's
`datedOk` on every day of 1899-12-31 … 9999-12-31.

Since the pairing windows of `MonthdayRange::Date` are centred on the year the bound has to come from
(`yearBeforeOffset`: the year of `d - day offset`) the class no longer depends on the day, on year-locality
or on the size of the shift relative to a year: both day offsets within ±100 000 days (so that every year
looked at lies in 0 … 20 000, where instances exist and nothing saturates) and a defined meaning.
-/
namespace OH.Proofs.EvalSpec
open OH.Model OH.Model.Cal
open OH.Spec (shift dateInstance exactInstance specYear datedOk candidateYears yearsNear yearSpan isFixedDate datedDefined)

def offSmallD (o : DateOffset) : Bool := decide (-100000 ≤ o.days ∧ o.days ≤ 100000)

/-- Rule-level class (no reference to the day): both day offsets within ±100 000 days, and the range has a
defined meaning (`datedDefined`: not "no year … year").  Nothing else: any weekday shift, bounds with or
without a year, single days, ranges longer than a year, offsets that differ by several years. -/
def datedPlain (s : DateSpec) (so : DateOffset) (e : DateSpec) (eo : DateOffset) : Bool :=
  offSmallD so && offSmallD eo && datedDefined s e

/-- The class of (dated range, day) pairs the refinement covers: it no longer depends on the day (the
parameter is kept for the statements that quantify over days). -/
def datedSafe (s : DateSpec) (so : DateOffset) (e : DateSpec) (eo : DateOffset) (_d : Int) : Bool :=
  datedPlain s so e eo

theorem dated_eq_of_plain (s : DateSpec) (so : DateOffset) (e : DateSpec) (eo : DateOffset) (d : Int)
    (hwf : (MonthdayRange.date s so e eo).wf = true) (hsafe : datedPlain s so e eo = true)
    (h1 : dateStart - 1 ≤ d) (h2 : d < dateEnd) :
    MonthdayRange.filter (.date s so e eo) d = .ok (datedOk s so e eo d) := by
  simp only [MonthdayRange.wf, DateOffset.wf, Bool.and_eq_true] at hwf
  obtain ⟨⟨⟨ws, ⟨wso, _⟩⟩, we⟩, ⟨weo, _⟩⟩ := hwf
  unfold datedPlain at hsafe
  simp only [Bool.and_eq_true, offSmallD, decide_eq_true_eq] at hsafe
  obtain ⟨⟨hss, hes⟩, hdef⟩ := hsafe
  have hs : BoundOK s so := ⟨ws, wso, hss⟩
  have he : BoundOK e eo := ⟨we, weo, hes⟩
  cases hsy : specYear s with
  | none =>
    cases hey : specYear e with
    | some ey => simp [datedDefined, hsy, hey] at hdef
    | none =>
      by_cases hns : s = e ∧ isFixedDate s = true
      · -- a single fixed day without a year
        obtain ⟨rfl, hfx⟩ := hns
        cases s with
        | easter yr => simp [isFixedDate] at hfx
        | fixed yr m dd =>
          cases yr with
          | some n => simp [specYear] at hsy
          | none => exact dated_single_eq m dd so eo d wso hss weo hes h1 h2
      · exact dated_yearless_eq s so e eo d hs he hsy hey hns h1 h2
  | some sy =>
    cases hey : specYear e with
    | none => exact dated_year_yearless_eq s so e eo d hs he sy hsy hey h1 h2
    | some ey =>
      by_cases hns : s = e ∧ isFixedDate s = true
      · obtain ⟨rfl, hfx⟩ := hns
        cases s with
        | easter yr => simp [isFixedDate] at hfx
        | fixed yr m dd =>
          cases yr with
          | none => simp [specYear] at hsy
          | some n => exact dated_single_year_eq n m dd so eo d wso weo
      · exact dated_year_year_eq s so e eo d hs he sy ey hsy hey hns h1 h2

theorem dated_eq_of_safe (s : DateSpec) (so : DateOffset) (e : DateSpec) (eo : DateOffset) (d : Int)
    (hwf : (MonthdayRange.date s so e eo).wf = true) (hsafe : datedSafe s so e eo d = true)
    (h1 : dateStart - 1 ≤ d) (h2 : d < dateEnd) :
    MonthdayRange.filter (.date s so e eo) d = .ok (datedOk s so e eo d) :=
  dated_eq_of_plain s so e eo d hwf hsafe h1 h2

theorem datedSafe_of_plain (s : DateSpec) (so : DateOffset) (e : DateSpec) (eo : DateOffset) (d : Int)
    (h : datedPlain s so e eo = true) : datedSafe s so e eo d = true := h

end OH.Proofs.EvalSpec
