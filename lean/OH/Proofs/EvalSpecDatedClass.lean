import OH.Proofs.EvalSpecDatedYear
/-
C01 refinement, dated ranges: the decidable class under which the model's filter is the specification's
`datedOk` on every day of 1899-12-31 … 9999-12-31.

Since the pairing windows of `MonthdayRange::Date` are centred on the year the bound has to come from
(`yearBeforeOffset`: the year of `d - day offset`) the class no longer depends on the day, on year-locality
or on the size of the shift relative to a year: both day offsets within ±30 000 000 days (so that every year
looked at — by the code around the year of `d - offset`, by the specification `yearSpan` years around the
year of `d` — lies in -165 000 … 175 000, where instances exist and no shifted instance saturates at chrono's
extreme dates), within ±300 000 days when a bound is Easter (every year looked at is then a year ≥ 0, where
`easter()` is the Gregorian computus), and a defined meaning.

Why not more (notes/DATED-BOUND.md): the specification looks for instances on `3 + (|so| + |eo|) / 365` years on
EITHER side of the evaluated day, so with two offsets of `B` days an instance `2B` days away from the day is
shifted by `B` more: beyond `3B ≈ 92 000 000` days its shifted day is pinned at `NaiveDate::MIN/MAX` and the
strict order of the shifted instances the proofs rest on (`StepMono`) is lost; and `easter()` on a negative
year is not a date between March 22nd and April 25th (it can be `Feb 30`: no occurrence).
-/
namespace OH.Proofs.EvalSpec
open OH.Model OH.Model.Cal
open OH.Spec (shift dateInstance exactInstance specYear datedOk candidateYears yearsNear yearSpan isFixedDate datedDefined)

/-- a day offset within ±30 000 000 days (about ±82 000 years) -/
def offSmallD (o : DateOffset) : Bool := decide (-30000000 ≤ o.days ∧ o.days ≤ 30000000)

/-- a day offset within ±300 000 days (about ±820 years): the bound when one side of the range is Easter -/
def offEasterD (o : DateOffset) : Bool := decide (-300000 ≤ o.days ∧ o.days ≤ 300000)

/-- the two day offsets of a dated range are in the scope of the theorems: within ±30 000 000 days, and
within ±300 000 days when one of the two dates is Easter -/
def offsSmallD (s : DateSpec) (so : DateOffset) (e : DateSpec) (eo : DateOffset) : Bool :=
  offSmallD so && offSmallD eo && ((isFixedDate s && isFixedDate e) || (offEasterD so && offEasterD eo))

/-- under `offsSmallD` there is a first year `L` from which both dates are known (`BoundOK L`) and that the
specification's candidate years do not go below -/
theorem offsSmallD_spec (s : DateSpec) (so : DateOffset) (e : DateSpec) (eo : DateOffset)
    (h : offsSmallD s so e eo = true) :
    (-30000000 ≤ so.days ∧ so.days ≤ 30000000) ∧ (-30000000 ≤ eo.days ∧ eo.days ≤ 30000000) ∧
    ∃ L : Int, -165000 ≤ L ∧ (isFixedDate s = false → 0 ≤ L) ∧ (isFixedDate e = false → 0 ≤ L) ∧
      L + yearSpan so eo ≤ 1899 := by
  simp only [offsSmallD, offSmallD, offEasterD, Bool.and_eq_true, Bool.or_eq_true, decide_eq_true_eq] at h
  obtain ⟨⟨hss, hes⟩, hc⟩ := h
  refine ⟨hss, hes, ?_⟩
  rcases hc with ⟨fs, fe⟩ | ⟨es, ee⟩
  · refine ⟨-165000, by omega, by simp [fs], by simp [fe], ?_⟩
    have := yearSpan_bounds so eo hss hes
    omega
  · refine ⟨0, by omega, fun _ => by omega, fun _ => by omega, ?_⟩
    unfold yearSpan
    omega

/-- Rule-level class (no reference to the day): the range has a defined meaning (`datedDefined`: not
"no year … year") and, unless BOTH bounds carry a year (then: any offsets), both day offsets are within
±30 000 000 days (±300 000 days when a bound is Easter).  Nothing else: any weekday shift, bounds with or
without a year, single days, ranges longer than a year, offsets that differ by thousands of years. -/
def datedPlain (s : DateSpec) (so : DateOffset) (e : DateSpec) (eo : DateOffset) : Bool :=
  (((specYear s).isSome && (specYear e).isSome) || offsSmallD s so e eo) && datedDefined s e

/-- The class of (dated range, day) pairs the refinement covers: it no longer depends on the day (the
parameter is kept for the statements that quantify over days). -/
def datedSafe (s : DateSpec) (so : DateOffset) (e : DateSpec) (eo : DateOffset) (_d : Int) : Bool :=
  datedPlain s so e eo

theorem dated_eq_of_plain (s : DateSpec) (so : DateOffset) (e : DateSpec) (eo : DateOffset) (d : Int)
    (hwf : (MonthdayRange.date s so e eo).wf = true) (hsafe : datedPlain s so e eo = true)
    (h1 : dateStart - 1 ≤ d) (h2 : d < dateEnd) :
    MonthdayRange.filter (.date s so e eo) d = .ok (datedOk s so e eo d) := by
  simp only [MonthdayRange.wf, DateOffset.wf, Bool.and_eq_true] at hwf
  obtain ⟨⟨⟨ws, ⟨wso, _⟩⟩, we⟩, ⟨weo, _⟩⟩ := hwf
  unfold datedPlain at hsafe
  simp only [Bool.and_eq_true, Bool.or_eq_true] at hsafe
  obtain ⟨hoff, hdef⟩ := hsafe
  cases hsy : specYear s with
  | none =>
    have hoff : offsSmallD s so e eo = true := by
      rcases hoff with h | h
      · simp [hsy] at h
      · exact h
    obtain ⟨hss, hes, L, hL1, hLs, hLe, hL⟩ := offsSmallD_spec s so e eo hoff
    have hs : BoundOK L s so := ⟨ws, wso, hss, hL1, hLs⟩
    have he : BoundOK L e eo := ⟨we, weo, hes, hL1, hLe⟩
    cases hey : specYear e with
    | some ey => simp [datedDefined, hsy, hey] at hdef
    | none =>
      by_cases hns : s = e ∧ isFixedDate s = true
      · -- a single fixed day without a year
        obtain ⟨rfl, hfx⟩ := hns
        cases s with
        | easter yr => simp [isFixedDate] at hfx
        | fixed yr m dd =>
          cases yr with
          | some n => simp [specYear] at hsy
          | none => exact dated_single_eq m dd so eo d wso hss weo hes h1 h2
      · exact dated_yearless_eq s so e eo d hs he hL hsy hey hns h1 h2
  | some sy =>
    cases hey : specYear e with
    | none =>
      have hoff : offsSmallD s so e eo = true := by
        rcases hoff with h | h
        · simp [hey] at h
        · exact h
      obtain ⟨hss, hes, L, hL1, hLs, hLe, hL⟩ := offsSmallD_spec s so e eo hoff
      exact dated_year_yearless_eq s so e eo d ⟨ws, wso, hss, hL1, hLs⟩ ⟨we, weo, hes, hL1, hLe⟩ hL sy hsy hey h1 h2
    | some ey =>
      by_cases hns : s = e ∧ isFixedDate s = true
      · obtain ⟨rfl, hfx⟩ := hns
        cases s with
        | easter yr => simp [isFixedDate] at hfx
        | fixed yr m dd =>
          cases yr with
          | none => simp [specYear] at hsy
          | some n => exact dated_single_year_eq n m dd so eo d wso weo
      · exact dated_year_year_eq s so e eo d ws wso we weo sy ey hsy hey hns

theorem dated_eq_of_safe (s : DateSpec) (so : DateOffset) (e : DateSpec) (eo : DateOffset) (d : Int)
    (hwf : (MonthdayRange.date s so e eo).wf = true) (hsafe : datedSafe s so e eo d = true)
    (h1 : dateStart - 1 ≤ d) (h2 : d < dateEnd) :
    MonthdayRange.filter (.date s so e eo) d = .ok (datedOk s so e eo d) :=
  dated_eq_of_plain s so e eo d hwf hsafe h1 h2

theorem datedSafe_of_plain (s : DateSpec) (so : DateOffset) (e : DateSpec) (eo : DateOffset) (d : Int)
    (h : datedPlain s so e eo = true) : datedSafe s so e eo d = true := h

end OH.Proofs.EvalSpec
