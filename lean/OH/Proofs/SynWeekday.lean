import OH.Proofs.SynWeekday3
/-
The weekday selector: print → parse round trip (C05/C06, weekday part).

 * SynWeekday1: comma-separated lists in general (`run_comma_star`, `run_comma_list`), `wday`, the nth
   entries between brackets and THE ARRAY STEP `replay_nthEntries` (finite, by `decide` on 2^10 cases);
 * SynWeekday2: one element: `okRange`, `FollowWd`, `parses_holiday`, `parses_weekday_range`;
 * SynWeekday3: the sequences and the selector: `okWeekdays`, `FollowWdSel`,
   `parses_weekday_selector'` (weak context) and `parses_weekday_selector` (`FollowWeekday`).

Below: regression facts on the value that used NOT to round-trip (all positions set, with a day
offset: it was printed `Mo +1 day`, which the grammar rejects).  Since the printer writes the brackets
whenever there is an offset, it is inside `okWeekdays` and covered by the theorem.
-/
namespace OH.Proofs.Syn
open OH.Model OH.Model.Parser

example : okWeekdays [.fixed 0 0 1 allTrue5 allTrue5] = true := by decide

example : Print.weekDayRange (.fixed 0 0 1 allTrue5 allTrue5)
    = "Mo[1,2,3,4,5,-1,-2,-3,-4,-5] +1 day".toList := by decide

/-- values the parser cannot build are outside `okWeekdays`: brackets or an offset on a span of days,
an offset on `SH`, a weekday range between two blocks of holidays -/
example : okWeekdays [.fixed 0 4 0 [true, false, false, false, false] allFalse5] = false := by decide
example : okWeekdays [.fixed 0 4 1 allTrue5 allTrue5] = false := by decide
example : okWeekdays [.holiday .school 1] = false := by decide
example : okWeekdays [.holiday .pub 0, .fixed 0 0 0 allTrue5 allTrue5, .holiday .pub 0] = false := by
  decide

end OH.Proofs.Syn
