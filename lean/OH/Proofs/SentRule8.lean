import OH.Proofs.SentRule6
import OH.Proofs.SentRule7
import OH.Proofs.SynRule8
/-
C05, assembly, part 8: `wide_range_selectors = { comment ~ ":" | monthday_selector ~ week_selector? ~ sep?
  | year_selector? ~ monthday_selector? ~ week_selector? ~ sep? }` on the year / month-day / week
selectors of a sentence, the discharge of `WideHypS`, and THE THEOREM
  `sentence_parses : s.wf = true → Parser.parseChars s.render = .ok s.denote`.
 * years written: the second alternative FAILS (`Wide.wf`: when month days follow, the years are not a
   single plain year and the month days do not start with a year), the third reads everything;
 * no years, month days written: the second alternative;
 * only weeks: the second alternative fails (`week…` is no date), the third reads the weeks.
-/
namespace OH.Proofs.Sent
open OH.Model OH.Model.Peg OH.Model.Parser OH.Generated.Grammar OH.Proofs.Syn OH.Proofs.Syn.Wide
open OH.Proofs.Sent.Wide
open OH.Spec.Sent (YearR MdRange WeekSel WideSep Sel SRule Sentence commaList)

/-! ### the parts of the text -/

/-- the week selector with the space that precedes it after years or month days -/
def weekPartS (ys : List YearR) (ms : List MdRange) : Option WeekSel → List Char
  | none => []
  | some w => (if ys.isEmpty && ms.isEmpty then [] else [' ']) ++ w.render

def weeksVal : Option WeekSel → List WeekRange
  | none => []
  | some w => w.denote

theorem wideBody_parts (ys : List YearR) (ms : List MdRange) (ws : Option WeekSel) :
    wideBody ys ms ws = commaList YearR.render ys ++ (commaList MdRange.render ms ++ weekPartS ys ms ws) := by
  cases ws <;> simp [wideBody, weekPartS, List.append_assoc]

theorem wideVal_parts (ys : List YearR) (ms : List MdRange) (ws : Option WeekSel) :
    wideVal ys ms ws = ⟨ys.map YearR.denote, ms.map MdRange.denote, weeksVal ws, none⟩ := by
  cases ws <;> rfl

theorem commaList_nil {α} (f : α → List Char) : commaList f [] = [] := rfl

/-! ### the optional parts -/

theorem opt_weekS (ys : List YearR) (ms : List MdRange) (ws : Option WeekSel)
    (hws : ∀ w, ws = some w → w.wf = true) (sp rest : List Char) (ctx : WideCtxS sp rest) :
    ∃ ks, run (.opt g_week_selector) false (weekPartS ys ms ws ++ (sp ++ rest))
        = some ⟨ks, weekPartS ys ms ws, sp ++ rest⟩
      ∧ OptKid ks .week_selector buildWeekSelector (weeksVal ws) := by
  cases ws with
  | none => exact ⟨[], by simp [weekPartS, run_opt, ctx.noweek, R.nil], .inl ⟨rfl, rfl⟩⟩
  | some w =>
    have hf := headX_followWeek _ ctx.head
    by_cases hl : (ys.isEmpty && ms.isEmpty) = true
    · obtain ⟨t, ht, hb⟩ := parses_weeksel_start w (hws w rfl) _ hf
      refine ⟨[t], ?_, .inr ⟨t, rfl, rule_of_run ht, hb⟩⟩
      simp only [weekPartS, hl, if_true, List.nil_append]
      exact opt_some' ht
    · obtain ⟨t, ht, hb⟩ := parses_weeksel w (hws w rfl) _ hf
      refine ⟨[t], ?_, .inr ⟨t, rfl, rule_of_run ht, hb⟩⟩
      simp only [weekPartS, hl]
      exact opt_some' ht

theorem opt_mdS (ms : List MdRange) (hms : ms.all MdRange.wf = true) (Z : List Char)
    (h1 : ms ≠ [] → FollowMd Z) (h2 : ms = [] → run g_monthday_selector false Z = none) :
    ∃ ks, run (.opt g_monthday_selector) false (commaList MdRange.render ms ++ Z)
        = some ⟨ks, commaList MdRange.render ms, Z⟩
      ∧ OptKid ks .monthday_selector buildMonthdaySelector (ms.map MdRange.denote) := by
  apply opt_part
  · intro hne
    have hne' : ms ≠ [] := by intro e; subst e; exact hne rfl
    exact parses_mdranges ms hne' hms Z (h1 hne')
  · intro he
    have : ms = [] := by cases ms with
      | nil => rfl
      | cons _ _ => simp at he
    subst this
    exact ⟨rfl, h2 rfl⟩

/-- what follows the month-day selector (or the years when there is none): the week part and the context -/
theorem weekPartS_cases (ys : List YearR) (ms : List MdRange) (ws : Option WeekSel) (hne : ¬ (ys = [] ∧ ms = []))
    (X : List Char) :
    (ws = none ∧ weekPartS ys ms ws ++ X = X) ∨ ∃ r, weekPartS ys ms ws ++ X = ' ' :: 'w' :: r := by
  cases ws with
  | none => exact .inl ⟨rfl, rfl⟩
  | some w =>
    have hl : (ys.isEmpty && ms.isEmpty) = false := by
      cases ys <;> cases ms <;> simp_all
    obtain ⟨r, e⟩ := weeksel_head w
    exact .inr ⟨'e' :: 'e' :: 'k' :: (r ++ X), by simp [weekPartS, hl, e]⟩

/-! ### head of the text -/

theorem wideBody_head (ys : List YearR) (ms : List MdRange) (ws : Option WeekSel) (sep : WideSep)
    (h : (OH.Spec.Sent.Wide.sel ys ms ws sep).wf = true) :
    (∃ c cs, wideBody ys ms ws = c :: cs ∧ RuleStart c ∧ c ≠ '"')
      ∧ ∀ rest, run g_always_open false (wideBody ys ms ws ++ rest) = none := by
  obtain ⟨hys, hms, hws, -⟩ := wide_sel_wf ys ms ws sep h
  rw [wideBody_parts]
  by_cases hy : ys = []
  · subst hy
    by_cases hm : ms = []
    · subst hm
      cases ws with
      | none => simp [OH.Spec.Sent.Wide.wf] at h
      | some w =>
        obtain ⟨r, e⟩ := weeksel_head w
        simp only [commaList_nil, weekPartS, List.isEmpty_nil, Bool.and_self, if_true, List.nil_append]
        refine ⟨⟨'w', _, e, by simp [RuleStart], by decide⟩, ?_⟩
        intro rest
        exact run_always_open_none_week w rest
    · obtain ⟨c, r, e, hc, -⟩ := mdranges_head ms hm hms
      obtain ⟨g1, g2⟩ := mdStart_ruleStart c hc
      simp only [commaList_nil, List.nil_append]
      refine ⟨⟨c, r ++ weekPartS [] ms ws, by rw [e]; rfl, g1, g2⟩, ?_⟩
      intro rest
      rw [List.append_assoc]
      exact run_always_open_none_mdranges ms hm hms _
  · obtain ⟨c, r, e, hc⟩ := years_head ys hy hys
    obtain ⟨g1, g2⟩ := mdStart_ruleStart c (.inl hc)
    refine ⟨⟨c, _, by rw [e]; rfl, g1, g2⟩, ?_⟩
    intro rest
    rw [List.append_assoc]
    exact run_always_open_none_yearsS ys hy hys _

/-! ### `wide_range_selectors` -/

theorem parses_wideS (ys : List YearR) (ms : List MdRange) (ws : Option WeekSel) (sep : WideSep)
    (h : (OH.Spec.Sent.Wide.sel ys ms ws sep).wf = true) (sp rest : List Char) (haft : AfterWideS sp rest) :
    ParsesTo g_wide_range_selectors buildWideRangeSelectors (wideBody ys ms ws ++ sp) rest
      (wideVal ys ms ws) := by
  obtain ⟨⟨c, cs, ehead, -, hq⟩, -⟩ := wideBody_head ys ms ws sep h
  obtain ⟨hys, hms, hws, hboth⟩ := wide_sel_wf ys ms ws sep h
  have ctx := wideCtxS_of_after sp rest haft
  have hS := ctx.sep
  obtain ⟨kw, hW, okw⟩ := opt_weekS ys ms ws hws sp rest ctx
  have h1 : run g_comment false (wideBody ys ms ws ++ sp ++ rest) = none := by
    apply run_comment_none
    intro r e
    rw [ehead] at e
    simp only [List.cons_append, List.cons.injEq] at e
    exact hq e.1
  have einp : wideBody ys ms ws ++ sp ++ rest
      = commaList YearR.render ys ++ (commaList MdRange.render ms ++ (weekPartS ys ms ws ++ (sp ++ rest))) := by
    rw [wideBody_parts]; simp only [List.append_assoc]
  have etext : wideBody ys ms ws ++ sp
      = commaList YearR.render ys ++ (commaList MdRange.render ms ++ (weekPartS ys ms ws ++ sp)) := by
    rw [wideBody_parts]; simp only [List.append_assoc]
  rw [einp] at h1
  unfold ParsesTo
  rw [einp, etext, wideVal_parts]
  by_cases hy : ys = []
  · subst hy
    simp only [commaList_nil, List.nil_append, List.map_nil] at h1 ⊢
    by_cases hm : ms = []
    · -- only weeks
      subst hm
      cases ws with
      | none => simp [OH.Spec.Sent.Wide.wf] at h
      | some w =>
        simp only [commaList_nil, List.nil_append, List.map_nil] at h1 ⊢
        have ew : ∀ Y, weekPartS [] [] (some w) ++ Y = w.render ++ Y := by
          intro Y; simp [weekPartS]
        have h2 : run g_monthday_selector false (weekPartS [] [] (some w) ++ (sp ++ rest)) = none := by
          rw [ew]; exact run_monthday_selector_none_week w _
        have hY : run (.opt g_year_selector) false (weekPartS [] [] (some w) ++ (sp ++ rest))
            = some ⟨[], [], weekPartS [] [] (some w) ++ (sp ++ rest)⟩ := by
          rw [ew]; exact opt_none' (run_year_selector_none_week w _)
        have hM := opt_none' h2
        have hrun := run_wide_alt3 _ [] [] kw [] [] _ sp _ _ _ rest h1 h2 hY hM hW hS
        simp only [List.nil_append] at hrun
        exact ⟨_, hrun, build_wide _ [] [] kw [] [] _ (.inl ⟨rfl, rfl⟩) (.inl ⟨rfl, rfl⟩) okw⟩
    · -- month days (and maybe weeks): the second alternative
      have hfm : FollowMd (weekPartS [] ms ws ++ (sp ++ rest)) := by
        rcases weekPartS_cases [] ms ws (by simp [hm]) (sp ++ rest) with ⟨-, e⟩ | ⟨r, e⟩
        · rw [e]; exact ctx.fmd
        · rw [e]; exact FollowMd_week r
      obtain ⟨tm, htm, hbm⟩ := parses_mdranges ms hm hms _ hfm
      have hrun := run_wide_alt2 _ tm kw _ _ sp _ _ rest h1 htm hW hS
      refine ⟨_, hrun, ?_⟩
      exact build_wide _ [] [tm] kw [] _ _ (.inl ⟨rfl, rfl⟩) (.inr ⟨tm, rfl, rule_of_run htm, hbm⟩) okw
  · -- years: the second alternative fails, the third reads everything
    by_cases hm : ms = []
    · subst hm
      simp only [commaList_nil, List.nil_append, List.map_nil] at h1 ⊢
      -- what follows the years: the week part, or the context
      have hR : FollowYear (weekPartS ys [] ws ++ (sp ++ rest)) ∧ NoDigit (weekPartS ys [] ws ++ (sp ++ rest))
          ∧ YearNotDate (weekPartS ys [] ws ++ (sp ++ rest))
          ∧ run g_monthday_selector false (weekPartS ys [] ws ++ (sp ++ rest)) = none := by
        rcases weekPartS_cases ys [] ws (by simp [hy]) (sp ++ rest) with ⟨-, e⟩ | ⟨r, e⟩
        · rw [e]
          exact ⟨headX_followYear _ ctx.head, headX_noDigit _ ctx.head, ctx.ynd,
            run_monthday_selector_none_head _ (headX_not_mdStart _ ctx.head)⟩
        · rw [e]
          exact ⟨FollowYear_weeksel _, NoDigit_weeksel _, YearNotDate_week r,
            run_monthday_selector_none_head _ (by intro c r' e'; cases e'; exact not_MdStartChar_space)⟩
      obtain ⟨f1, f2, f3, f4⟩ := hR
      have h2 := run_monthday_selector_none_yearsS ys hy hys _ (fun _ => f3)
      obtain ⟨ty, hty, hby⟩ := parses_years ys hy hys _ f1 (YearStepFollowS_of_NoDigit ys _ f2)
      have hY := opt_some' hty
      have hM := opt_none' f4
      have hrun := run_wide_alt3 _ [ty] [] kw _ [] _ sp _ _ _ rest h1 h2 hY hM hW hS
      simp only [List.nil_append] at hrun
      exact ⟨_, hrun, build_wide _ [ty] [] kw _ [] _ (.inr ⟨ty, rfl, rule_of_run hty, hby⟩)
        (.inl ⟨rfl, rfl⟩) okw⟩
    · obtain ⟨hsingle, hfirst⟩ := hboth hy hm
      have hfm : FollowMd (weekPartS ys ms ws ++ (sp ++ rest)) := by
        rcases weekPartS_cases ys ms ws (by simp [hm]) (sp ++ rest) with ⟨-, e⟩ | ⟨r, e⟩
        · rw [e]; exact ctx.fmd
        · rw [e]; exact FollowMd_week r
      obtain ⟨km, hM, okm⟩ := opt_mdS ms hms _ (fun _ => hfm) (fun e => absurd e hm)
      have h2 := run_monthday_selector_none_years_md ys hy hys hsingle
        (commaList MdRange.render ms ++ (weekPartS ys ms ws ++ (sp ++ rest)))
      obtain ⟨ty, hty, hby⟩ := parses_years ys hy hys _ (FollowYear_mdranges ms hm hms _)
        (YearStepFollowS_of_NoDigit ys _ (NoDigit_mdranges ms hm hms hfirst _))
      have hY := opt_some' hty
      have hrun := run_wide_alt3 _ [ty] km kw _ _ _ sp _ _ _ rest h1 h2 hY hM hW hS
      exact ⟨_, hrun, build_wide _ [ty] km kw _ _ _ (.inr ⟨ty, rfl, rule_of_run hty, hby⟩) okm okw⟩

/-- the hypothesis of the rule-level lemmas holds for every well-formed wide part -/
theorem wideHypS_of_wf (ys : List YearR) (ms : List MdRange) (ws : Option WeekSel) (sep : WideSep)
    (h : (OH.Spec.Sent.Wide.sel ys ms ws sep).wf = true) : WideHypS ys ms ws := by
  obtain ⟨⟨c, cs, e, hc, -⟩, hao⟩ := wideBody_head ys ms ws sep h
  exact ⟨hao, ⟨c, cs, e, hc⟩, parses_wideS ys ms ws sep h⟩

theorem wideOK_of_wf (s : Sel) (h : s.wf = true) : WideOK s := by
  cases s with
  | always => trivial
  | sel w wd ts =>
    cases w with
    | empty => trivial
    | comment c => trivial
    | sel ys ms ws sep =>
      simp only [Sel.wf, Bool.and_eq_true] at h
      exact wideHypS_of_wf ys ms ws sep h.1.1.1

/-! ### the theorem -/

/-- **C05**: every well-formed sentence of the supported grammar, written out, is parsed to the
expression it denotes -/
theorem sentence_parses (s : Sentence) (h : s.wf = true) : Parser.parseChars s.render = .ok s.denote := by
  have h' := h
  simp only [Sentence.wf, SRule.wf, Bool.and_eq_true, List.all_eq_true] at h'
  exact sentence_parses_partial s h (wideOK_of_wf _ h'.1.1) (fun p hp => wideOK_of_wf _ (h'.2 p hp).1)

/-- the same on strings -/
theorem sentence_parses_string (s : Sentence) (h : s.wf = true) :
    Parser.parse (String.ofList s.render) = .ok s.denote := by
  simp only [Parser.parse, String.toList_ofList]
  exact sentence_parses s h

end OH.Proofs.Sent
