import OH.Proofs.EvalSpecDatedBase
import OH.Proofs.EvalSpecPairing
import OH.Proofs.EvalSpecSel
/-
C01 refinement, dated ranges: the model's helpers in terms of the specification's vocabulary
(`dateInstance`, `shift`), under the hypothesis `BoundOK` (well-formed date, well-formed weekday
shift, day offset within ±100 000 days — nothing saturates) and for years 0 … 20 000.
-/
namespace OH.Proofs.EvalSpec
open OH.Model OH.Model.Cal
open OH.Spec (shift dateInstance exactInstance specYear datedOk candidateYears yearsNear yearSpan isFixedDate)

/-- a bound of a dated range the refinement covers: parser-well-formed, offset within ±100 000 days -/
structure BoundOK (ds : DateSpec) (o : DateOffset) : Prop where
  wf : ds.wf = true
  owf : o.wday.wf = true
  small : -100000 ≤ o.days ∧ o.days ≤ 100000

theorem yearStart_0 : yearStart 0 = -366 := by decide
theorem yearStart_20001 : yearStart 20001 = 7304850 := by decide

/-- a day of the years 0 … 20 000 -/
theorem inYear_range {y p : Int} (hy : 0 ≤ y ∧ y ≤ 20000) (hp : yearStart y < p ∧ p ≤ yearStart (y + 1)) :
    -366 < p ∧ p ≤ 7304850 := by
  have h1 : yearStart 0 ≤ yearStart y := yearStart_le hy.1
  have h2 : yearStart (y + 1) ≤ yearStart 20001 := yearStart_le (by omega)
  rw [yearStart_0] at h1; rw [yearStart_20001] at h2
  omega

theorem apply_inst {ds : DateSpec} {o : DateOffset} (h : BoundOK ds o) {y : Int} {after : Bool} {p : Int}
    (_hy : 0 ≤ y ∧ y ≤ 20000) (_hp : dateInstance ds y after = some p) : o.apply p = .ok (shift o p) :=
  apply_eq_shift o h.owf p

/-- with a small offset, an instance of the years 0 … 20 000 is shifted without saturation -/
theorem inst_shift_bounds {ds : DateSpec} {o : DateOffset} (h : BoundOK ds o) {y : Int} {after : Bool} {p : Int}
    (hy : 0 ≤ y ∧ y ≤ 20000) (hp : dateInstance ds y after = some p) :
    p + o.days - 6 ≤ shift o p ∧ shift o p ≤ p + o.days + 6 := by
  have hin := dateInstance_year ds y after h.wf hy.1 (by unfold maxYear; omega) p hp
  have := inYear_range hy hin
  have hs := h.small
  exact shift_bounds o p (by omega) (by rw [minDay_eq]; omega) (by rw [maxDay_eq]; omega)

/-- the shifted instance of a bound on a year, if any -/
def proj (ds : DateSpec) (o : DateOffset) (after : Bool) (y : Int) : Option Int :=
  (dateInstance ds y after).map (shift o)

theorem boundsOn_eq {ds : DateSpec} {o : DateOffset} (h : BoundOK ds o) (after : Bool) (ys : List Int)
    (hys : ∀ y ∈ ys, (0 ≤ y ∧ y ≤ 20000) ∧ (specYear ds = none ∨ specYear ds = some y)) :
    boundsOn ds o after ys = .ok (ys.filterMap (proj ds o after)) := by
  induction ys with
  | nil => rfl
  | cons y ys ih =>
    have hy := hys y (by simp)
    have ih' := ih (fun z hz => hys z (by simp [hz]))
    unfold boundsOn
    rw [ih', dateOnYear_eq_instance ds y after h.wf (by unfold minYear; omega) (by unfold maxYear; omega) hy.2]
    simp only [ok_bind, List.filterMap_cons, proj]
    cases hp : dateInstance ds y after with
    | none => rfl
    | some p => simp only [apply_inst h hy.1 hp, ok_bind, pure_eq_ok, Option.map_some]

theorem firstEndFrom_eq {e : DateSpec} {eo : DateOffset} (h : BoundOK e eo) (start : Int) (ys : List Int)
    (hys : ∀ y ∈ ys, (0 ≤ y ∧ y ≤ 20000) ∧ (specYear e = none ∨ specYear e = some y)) :
    firstEndFrom e eo start ys = .ok ((ys.filterMap (proj e eo false)).find? (fun x => decide (x ≥ start))) := by
  induction ys with
  | nil => rfl
  | cons y ys ih =>
    have hy := hys y (by simp)
    have ih' := ih (fun z hz => hys z (by simp [hz]))
    unfold firstEndFrom
    rw [dateOnYear_eq_instance e y false h.wf (by unfold minYear; omega) (by unfold maxYear; omega) hy.2]
    simp only [ok_bind, List.filterMap_cons, proj]
    cases hp : dateInstance e y false with
    | none => exact ih'
    | some p =>
      simp only [apply_inst h hy.1 hp, ok_bind, pure_eq_ok, Option.map_some, List.find?_cons]
      by_cases hge : shift eo p ≥ start
      · simp [hge]
      · simp only [hge, if_false, decide_false]; exact ih'

theorem yearsAround_1_1 (y : Int) : yearsAround y 1 1 = [y - 1, y, y + 1] := by
  unfold yearsAround
  simp only [List.range_succ, List.range_zero, List.nil_append, List.cons_append, List.map_cons, List.map_nil]
  congr 1
  · omega
  · congr 1
    · omega
    · congr 1; omega

theorem yearsAround_2_2 (y : Int) : yearsAround y 2 2 = [y - 2, y - 1, y, y + 1, y + 2] := by
  unfold yearsAround
  simp only [List.range_succ, List.range_zero, List.nil_append, List.cons_append, List.map_cons, List.map_nil]
  congr 1
  · omega
  · congr 1
    · omega
    · congr 1
      · omega
      · congr 1
        · omega
        · congr 1; omega

/-! ### days inside a year -/

/-- `p` is a day of year `k` -/
def InY (k p : Int) : Prop := yearStart k < p ∧ p ≤ yearStart (k + 1)

theorem inY_iff_year {k p : Int} : InY k p ↔ year p = k := by
  unfold InY; rw [year_eq_iff]

theorem inY_year (p : Int) : InY (year p) p := inY_iff_year.2 rfl

theorem inY_lt {a b p q : Int} (hab : a < b) (hp : InY a p) (hq : InY b q) : p < q := by
  have : yearStart (a + 1) ≤ yearStart b := yearStart_le (by omega)
  unfold InY at *; omega

/-- days of the same year are less than a year apart; days of different years are ordered like the years -/
theorem inY_le_of_lt {a b p q : Int} (hp : InY a p) (hq : InY b q) (h : p < q) : a ≤ b := by
  by_cases hab : b < a
  · have := inY_lt hab hq hp; omega
  · omega

/-! ### class (c): both bounds without a year — the window `y-1 … y+1` against all candidate years -/

/-- The window `y-2 … y+2` is adequate for day `d` (of year `y`) and the projections `S`, `E` of the two
bounds on the years `y-w … y+w` the specification looks at:
 * successive projections increase;
 * the start projected on `y+2` is after `d`;
 * the end projected on `y+3` is not before `d`;
 * some start of the window is at or before `d` and after the end projected on `y-3` (then so is the
   latest start at or before `d`). -/
structure WindowOK (S E : Int → Int) (y d : Int) (w : Nat) : Prop where
  monoS : ∀ k, y - w ≤ k → k < y + w → S k < S (k + 1)
  monoE : ∀ k, y - w ≤ k → k < y + w → E k < E (k + 1)
  w1 : d < S (y + 2)
  w3 : d ≤ E (y + 3)
  w4 : ∃ k0, y - 2 ≤ k0 ∧ k0 ≤ y + 1 ∧ S k0 ≤ d ∧ E (y - 3) < S k0

theorem mono_of_step (F : Int → Int) (lo hi : Int) (h : ∀ k, lo ≤ k → k < hi → F k < F (k + 1))
    (a b : Int) (ha : lo ≤ a) (hab : a ≤ b) (hb : b ≤ hi) : F a ≤ F b ∧ (a < b → F a < F b) := by
  obtain ⟨n, rfl⟩ : ∃ n : Nat, b = a + n := ⟨(b - a).toNat, by omega⟩
  induction n with
  | zero => simp
  | succ n ih =>
    have ih' := ih (by omega) (by omega)
    have st := h (a + n) (by omega) (by omega)
    rw [show a + ((n + 1 : Nat) : Int) = a + n + 1 by omega]
    constructor
    · omega
    · intro _; omega

/-- The pairing of the projections on the years `y-2 … y+2` selects the same days as "some start
instance at or before `d`, on any of the years `y-w … y+w`, has no end instance between it and `d`" —
provided the window is adequate (`WindowOK`). -/
theorem window_pair_iff (S E : Int → Int) (y d : Int) (w : Nat) (hw : 3 ≤ w) (ok : WindowOK S E y d w) :
    PairSpec [S (y - 2), S (y - 1), S y, S (y + 1), S (y + 2)]
        [E (y - 2), E (y - 1), E y, E (y + 1), E (y + 2)] d ↔
      ∃ k, y - w ≤ k ∧ k ≤ y + w ∧ S k ≤ d ∧ ∀ j, y - w ≤ j → j ≤ y + w → ¬ (S k ≤ E j ∧ E j < d) := by
  have mS := mono_of_step S (y - w) (y + w) ok.monoS
  have mE := mono_of_step E (y - w) (y + w) ok.monoE
  have hgt := ok.w1
  unfold PairSpec
  simp only [List.mem_cons, List.not_mem_nil, or_false, exists_eq_or_imp, forall_eq_or_imp, exists_eq_left,
    forall_eq]
  constructor
  · rintro (h | h)
    · -- some window start qualifies; the later of it and `k0` qualifies on all candidate years
      obtain ⟨k0, hk0a, hk0b, hk0le, hk0e⟩ := ok.w4
      have key : ∀ k, (k = y - 2 ∨ k = y - 1 ∨ k = y ∨ k = y + 1 ∨ k = y + 2) → S k ≤ d →
          (¬ (S k ≤ E (y - 2) ∧ E (y - 2) < d) ∧ ¬ (S k ≤ E (y - 1) ∧ E (y - 1) < d) ∧
            ¬ (S k ≤ E y ∧ E y < d) ∧ ¬ (S k ≤ E (y + 1) ∧ E (y + 1) < d) ∧
            ¬ (S k ≤ E (y + 2) ∧ E (y + 2) < d)) →
          ∃ k, y - w ≤ k ∧ k ≤ y + w ∧ S k ≤ d ∧ ∀ j, y - w ≤ j → j ≤ y + w → ¬ (S k ≤ E j ∧ E j < d) := by
        intro k hk hle hno
        -- k' = max k k0
        obtain ⟨k', hk'1, hk'2, hk'le, hkk', hk0k'⟩ : ∃ k', y - 2 ≤ k' ∧ k' ≤ y + 2 ∧ S k' ≤ d ∧ S k ≤ S k' ∧ S k0 ≤ S k' := by
          by_cases hc : k ≤ k0
          · exact ⟨k0, hk0a, by omega, hk0le, (mS k k0 (by omega) hc (by omega)).1, Int.le_refl _⟩
          · exact ⟨k, by omega, by omega, hle, Int.le_refl _, (mS k0 k (by omega) (by omega) (by omega)).1⟩
        refine ⟨k', by omega, by omega, hk'le, fun j hj1 hj2 => ?_⟩
        by_cases hj : j < y - 2
        · -- an end of an earlier year lies before the start `k0`
          have a := (mE j (y - 3) hj1 (by omega) (by omega)).1
          omega
        · by_cases hj' : y + 2 < j
          · have a := (mE (y + 3) j (by omega) (by omega) hj2).1
            have := ok.w3
            omega
          · have : j = y - 2 ∨ j = y - 1 ∨ j = y ∨ j = y + 1 ∨ j = y + 2 := by omega
            rcases this with rfl | rfl | rfl | rfl | rfl
            · have := hno.1; omega
            · have := hno.2.1; omega
            · have := hno.2.2.1; omega
            · have := hno.2.2.2.1; omega
            · have := hno.2.2.2.2; omega
      rcases h with ⟨h1, h2⟩ | ⟨h1, h2⟩ | ⟨h1, h2⟩ | ⟨h1, h2⟩ | ⟨h1, h2⟩
      · exact key (y - 2) (by omega) h1 h2
      · exact key (y - 1) (by omega) h1 h2
      · exact key y (by omega) h1 h2
      · exact key (y + 1) (by omega) h1 h2
      · exact key (y + 2) (by omega) h1 h2
    · -- the leftover case needs the start of year y+2 at or before d
      omega
  · rintro ⟨k, hk1, hk2, hle, hno⟩
    left
    have hky : k ≤ y + 1 := by
      by_cases h : y + 1 < k
      · have := (mS (y + 2) k (by omega) (by omega) hk2).1; omega
      · omega
    have n0 := hno (y - 2) (by omega) (by omega)
    have n1 := hno (y - 1) (by omega) (by omega)
    have n2 := hno y (by omega) (by omega)
    have n3 := hno (y + 1) (by omega) (by omega)
    have n4 := hno (y + 2) (by omega) (by omega)
    by_cases hk : k < y - 2
    · -- an earlier start: the start of year y-2 lies between it and d
      left
      have h1 := (mS k (y - 2) hk1 (by omega) (by omega)).1
      obtain ⟨k0, hk0a, hk0b, hk0le, _⟩ := ok.w4
      have h2 : S (y - 2) ≤ d := by have := (mS (y - 2) k0 (by omega) hk0a (by omega)).1; omega
      refine ⟨h2, by omega, by omega, by omega, by omega, by omega⟩
    · have : k = y - 2 ∨ k = y - 1 ∨ k = y ∨ k = y + 1 := by omega
      rcases this with rfl | rfl | rfl | rfl
      · left; exact ⟨hle, n0, n1, n2, n3, n4⟩
      · right; left; exact ⟨hle, n0, n1, n2, n3, n4⟩
      · right; right; left; exact ⟨hle, n0, n1, n2, n3, n4⟩
      · right; right; right; left; exact ⟨hle, n0, n1, n2, n3, n4⟩

/-- year-locality (every projection stays in the year it is taken on) makes the window adequate -/
theorem windowOK_of_inY (S E : Int → Int) (y d : Int) (w : Nat) (hw : 3 ≤ w) (hd : InY y d)
    (hS : ∀ k, y - w ≤ k → k ≤ y + w → InY k (S k))
    (hE : ∀ k, y - w ≤ k → k ≤ y + w → InY k (E k)) : WindowOK S E y d w where
  monoS := fun k a b => inY_lt (by omega) (hS k a (by omega)) (hS (k + 1) (by omega) (by omega))
  monoE := fun k a b => inY_lt (by omega) (hE k a (by omega)) (hE (k + 1) (by omega) (by omega))
  w1 := inY_lt (by omega) hd (hS (y + 2) (by omega) (by omega))
  w3 := by have := inY_lt (show y < y + 3 by omega) hd (hE (y + 3) (by omega) (by omega)); omega
  w4 := ⟨y - 2, by omega, by omega,
    by have := inY_lt (show y - 2 < y by omega) (hS (y - 2) (by omega) (by omega)) hd; omega,
    inY_lt (by omega) (hE (y - 3) (by omega) (by omega)) (hS (y - 2) (by omega) (by omega))⟩

/-! ### class (c), concretely -/

theorem yearSpan_bounds (so eo : DateOffset) (h1 : -100000 ≤ so.days ∧ so.days ≤ 100000)
    (h2 : -100000 ≤ eo.days ∧ eo.days ≤ 100000) : 3 ≤ yearSpan so eo ∧ yearSpan so eo ≤ 551 := by
  unfold yearSpan
  omega

/-- every shifted instance of the bound on the years `y-w … y+w` stays inside the year it is taken on -/
def StaysInYear (ds : DateSpec) (o : DateOffset) (after : Bool) (y : Int) (w : Nat) : Prop :=
  ∀ k, y - w ≤ k → k ≤ y + w → ∀ p, proj ds o after k = some p → InY k p

/-- a well-formed date without a year has an instance on every year 0 … 20 000 -/
theorem proj_some_yearless (ds : DateSpec) (o : DateOffset) (after : Bool) (hwf : ds.wf = true)
    (hyl : specYear ds = none) (k : Int) (hk : 0 ≤ k ∧ k ≤ 20000) : ∃ p, proj ds o after k = some p := by
  unfold proj
  cases ds with
  | easter yr =>
    cases yr with
    | some n => simp [specYear] at hyl
    | none =>
      obtain ⟨d, he, _⟩ := easter_spec k hk.1 (by unfold maxYear; omega)
      exact ⟨shift o d, by simp [dateInstance, he]⟩
  | fixed yr m dd =>
    cases yr with
    | some n => simp [specYear] at hyl
    | none =>
      simp only [DateSpec.wf, Bool.and_eq_true, decide_eq_true_eq] at hwf
      obtain ⟨⟨⟨⟨_, hm1⟩, hm2⟩, hd1⟩, hd2⟩ := hwf
      rw [dateInstance_fixed none k m dd after (Or.inl rfl) (by unfold minYear; omega) (by unfold maxYear; omega)
        hm1 hm2 hd1 hd2]
      exact ⟨_, rfl⟩

theorem singleInterval_none (s : DateSpec) (so : DateOffset) (e : DateSpec) (eo : DateOffset)
    (h : specYear s = none) : singleInterval s so e eo = .ok none := by
  unfold singleInterval
  have : dateYear s = none := h
  rw [this]

/-- `MonthdayRange::Date::filter` on a range that is not a single fixed day, when
`single_interval_from_bounds` yields an interval -/
theorem filter_of_interval (s : DateSpec) (so : DateOffset) (e : DateSpec) (eo : DateOffset) (d : Int)
    (hns : ¬ (s = e ∧ isFixedDate s = true)) (iv : Int × Int)
    (h : singleInterval s so e eo = .ok (some iv)) :
    MonthdayRange.filter (.date s so e eo) d = .ok (decide (iv.1 ≤ d) && decide (d ≤ iv.2)) := by
  unfold MonthdayRange.filter
  simp only []
  split
  · rename_i fy m dd heq
    exfalso; apply hns
    simp only [beq_iff_eq] at heq
    exact ⟨heq, rfl⟩
  · simp only [h, ok_bind, pure_eq_ok]

/-- the generic (windowed) branch of `MonthdayRange::Date::filter` -/
theorem filter_generic (s : DateSpec) (so : DateOffset) (e : DateSpec) (eo : DateOffset) (d : Int)
    (hsy : specYear s = none) (hns : ¬ (s = e ∧ isFixedDate s = true)) (ss es : List Int)
    (h1 : boundsOn s so true (yearsAround (year d) 2 2) = .ok ss)
    (h2 : boundsOn e eo false (yearsAround (year d) 2 2) = .ok es) :
    MonthdayRange.filter (.date s so e eo) d = .ok (isOpenFromIntervals d (intervalsFromBounds ss es)) := by
  have hsi := singleInterval_none s so e eo hsy
  unfold MonthdayRange.filter
  simp only []
  split
  · rename_i fy m dd heq
    exfalso; apply hns
    simp only [beq_iff_eq] at heq
    exact ⟨heq, rfl⟩
  · simp only [hsi, h1, h2, ok_bind, pure_eq_ok]

theorem candidateYears_yearless (s e : DateSpec) (w : Nat) (d : Int) (hs : specYear s = none)
    (he : specYear e = none) : candidateYears s e w d = yearsNear (year d) w := by
  unfold candidateYears; rw [hs, he]; simp

/-- the shifted instance of a bound on a year (0 where there is none: never the case for a well-formed
date without a year on the years 0 … 20 000) -/
def projT (ds : DateSpec) (o : DateOffset) (after : Bool) (k : Int) : Int := (proj ds o after k).getD 0

/-- Class (c): a dated range whose two bounds carry no year (and that is not a single fixed day):
the model's filter is the specification's `datedOk` on every day of 1899-12-31 … 9999-12-31 for which
the window `y-2 … y+2` is adequate (`WindowOK`). -/
theorem dated_yearless_eq (s : DateSpec) (so : DateOffset) (e : DateSpec) (eo : DateOffset) (d : Int)
    (hs : BoundOK s so) (he : BoundOK e eo) (hsy : specYear s = none) (hey : specYear e = none)
    (hns : ¬ (s = e ∧ isFixedDate s = true)) (h1 : dateStart - 1 ≤ d) (h2 : d < dateEnd)
    (hW : WindowOK (projT s so true) (projT e eo false) (year d) d (yearSpan so eo)) :
    MonthdayRange.filter (.date s so e eo) d = .ok (datedOk s so e eo d) := by
  have hy : 1899 ≤ year d ∧ year d ≤ 9999 := year_window h1 h2
  have hw := yearSpan_bounds so eo hs.small he.small
  generalize hwdef : yearSpan so eo = w at *
  generalize hydef : year d = y at *
  -- total projections
  generalize hSdef : projT s so true = S at hW
  generalize hEdef : projT e eo false = E at hW
  have pS : ∀ k, y - w ≤ k → k ≤ y + w → proj s so true k = some (S k) := by
    intro k hk1 hk2
    obtain ⟨p, hp⟩ := proj_some_yearless s so true hs.wf hsy k (by omega)
    simp only [← hSdef, projT, hp, Option.getD_some]
  have pE : ∀ k, y - w ≤ k → k ≤ y + w → proj e eo false k = some (E k) := by
    intro k hk1 hk2
    obtain ⟨p, hp⟩ := proj_some_yearless e eo false he.wf hey k (by omega)
    simp only [← hEdef, projT, hp, Option.getD_some]
  -- the model
  have hys : ∀ k ∈ [y - 2, y - 1, y, y + 1, y + 2], (0 ≤ k ∧ k ≤ 20000) := by
    intro k hk; simp only [List.mem_cons, List.not_mem_nil, or_false] at hk; omega
  have b1 : boundsOn s so true (yearsAround (year d) 2 2)
      = .ok [S (y - 2), S (y - 1), S y, S (y + 1), S (y + 2)] := by
    rw [hydef, yearsAround_2_2, boundsOn_eq hs true _ (fun k hk => ⟨hys k hk, Or.inl hsy⟩)]
    simp only [List.filterMap_cons, List.filterMap_nil, pS (y - 2) (by omega) (by omega),
      pS (y - 1) (by omega) (by omega), pS y (by omega) (by omega), pS (y + 1) (by omega) (by omega),
      pS (y + 2) (by omega) (by omega)]
  have b2 : boundsOn e eo false (yearsAround (year d) 2 2)
      = .ok [E (y - 2), E (y - 1), E y, E (y + 1), E (y + 2)] := by
    rw [hydef, yearsAround_2_2, boundsOn_eq he false _ (fun k hk => ⟨hys k hk, Or.inl hey⟩)]
    simp only [List.filterMap_cons, List.filterMap_nil, pE (y - 2) (by omega) (by omega),
      pE (y - 1) (by omega) (by omega), pE y (by omega) (by omega), pE (y + 1) (by omega) (by omega),
      pE (y + 2) (by omega) (by omega)]
  rw [filter_generic s so e eo d hsy hns _ _ b1 b2]
  congr 1
  rw [Bool.eq_iff_iff]
  have sorted5 : ∀ (F : Int → Int), (∀ k, y - w ≤ k → k < y + w → F k < F (k + 1)) →
      [F (y - 2), F (y - 1), F y, F (y + 1), F (y + 2)].Pairwise (· < ·) := by
    intro F mF
    have a := mF (y - 2) (by omega) (by omega)
    have b := mF (y - 1) (by omega) (by omega)
    have c := mF y (by omega) (by omega)
    have d' := mF (y + 1) (by omega) (by omega)
    rw [show y - 2 + 1 = y - 1 by omega] at a
    rw [show y - 1 + 1 = y by omega] at b
    rw [show y + 1 + 1 = y + 2 by omega] at d'
    simp only [List.pairwise_cons, List.mem_cons, List.not_mem_nil, or_false, forall_eq_or_imp, forall_eq,
      false_imp_iff, implies_true, List.Pairwise.nil, and_true]
    omega
  have sortS := sorted5 S hW.monoS
  have sortE := sorted5 E hW.monoE
  rw [isOpen_intervalsFromBounds' _ _ d sortS sortE (Or.inr ⟨S (y + 2), by simp, hW.w1⟩) (by omega),
    window_pair_iff S E y d w (by omega) hW, datedOk_range_iff s so e eo d hns]
  -- the specification
  have cand : ∀ k, k ∈ candidateYears s e (yearSpan so eo) d ↔ y - w ≤ k ∧ k ≤ y + w := by
    intro k; rw [candidateYears_yearless s e _ d hsy hey, mem_yearsNear, hwdef, hydef]
  simp only [hey, ne_eq, not_true_eq_false, false_imp_iff, and_true]
  constructor
  · rintro ⟨k, hk1, hk2, hle, hno⟩
    refine ⟨S k, mem_specStarts.2 ⟨k, (cand k).2 ⟨hk1, hk2⟩, ?_⟩, hle, ?_⟩
    · have := pS k hk1 hk2
      unfold proj at this
      rw [Option.map_eq_some_iff] at this
      obtain ⟨p, hp, hpe⟩ := this
      exact ⟨p, hp, hpe.symm⟩
    · intro x hx
      obtain ⟨j, hj, p, hp, rfl⟩ := mem_specEnds.1 hx
      have hj' := (cand j).1 hj
      have := pE j hj'.1 hj'.2
      simp only [proj, hp, Option.map_some, Option.some.injEq] at this
      rw [this]; exact hno j hj'.1 hj'.2
  · rintro ⟨s0, hs0, hle, hno⟩
    obtain ⟨k, hk, p, hp, rfl⟩ := mem_specStarts.1 hs0
    have hk' := (cand k).1 hk
    have ek := pS k hk'.1 hk'.2
    simp only [proj, hp, Option.map_some, Option.some.injEq] at ek
    refine ⟨k, hk'.1, hk'.2, by rw [← ek]; exact hle, fun j hj1 hj2 => ?_⟩
    have ej := pE j hj1 hj2
    unfold proj at ej
    rw [Option.map_eq_some_iff] at ej
    obtain ⟨q, hq, hqe⟩ := ej
    rw [← ek, ← hqe]
    exact hno _ (mem_specEnds.2 ⟨j, (cand j).2 ⟨hj1, hj2⟩, q, hq, rfl⟩)

/-! ### class (b): a single fixed day without a year (`Dec 25`, `Feb 29`, `May 1 -1 day-May 1 +2 days`) -/

/-- shifted single-day interval of year `k`, if the day exists on that year -/
def dayIv (m dd : Nat) (so eo : DateOffset) (k : Int) : Option (Int × Int) :=
  (ofYmd? k m dd).map (fun f => (shift so f, shift eo f))

theorem singleDayFind_eq (m dd : Nat) (so eo : DateOffset) (d : Int)
    (hso : so.wday.wf = true) (heo : eo.wday.wf = true) (ys : List Int) :
    singleDayFind m dd so eo d ys =
      .ok ((ys.filterMap (dayIv m dd so eo)).find? (fun r => decide (r.2 ≥ d))) := by
  induction ys with
  | nil => rfl
  | cons k ks ih =>
    unfold singleDayFind
    simp only [List.filterMap_cons, dayIv]
    cases hf : ofYmd? k m dd with
    | none => exact ih
    | some f =>
      simp only [apply_eq_shift so hso f, apply_eq_shift eo heo f, ok_bind, pure_eq_ok, Option.map_some,
        List.find?_cons]
      by_cases hge : shift eo f ≥ d
      · simp [hge]
      · simp only [hge, if_false, decide_false]; exact ih

/-- `match found { None => false, Some(r) => r.contains(d) }` -/
def ivContains (d : Int) : Option (Int × Int) → Bool
  | none => false
  | some r => decide (r.1 ≤ d) && decide (d ≤ r.2)

/-- first interval of the three years around `d` that ends at or after `d`: it contains `d` iff the
interval of `d`'s own year does — provided the shifted bounds stay inside their years -/
theorem single_find_iff (F : Int → Option (Int × Int)) (y d : Int) (hd : InY y d)
    (hF : ∀ k, (k = y - 1 ∨ k = y ∨ k = y + 1) → ∀ r, F k = some r → InY k r.1 ∧ InY k r.2) :
    ivContains d (([y - 1, y, y + 1].filterMap F).find? (fun r => decide (r.2 ≥ d))) = true
      ↔ ∃ r, F y = some r ∧ r.1 ≤ d ∧ d ≤ r.2 := by
  have h1 := hF (y - 1) (by omega)
  have h2 := hF y (by omega)
  have h3 := hF (y + 1) (by omega)
  -- the interval of year y-1 ends before d, the interval of year y+1 starts after d
  have skip1 : ∀ r, F (y - 1) = some r → decide (r.2 ≥ d) = false := by
    intro r hr; have := inY_lt (show y - 1 < y by omega) (h1 r hr).2 hd
    simp only [ge_iff_le, decide_eq_false_iff_not]; omega
  have last : ∀ r, F (y + 1) = some r → decide (r.2 ≥ d) = true ∧ ¬ r.1 ≤ d := by
    intro r hr
    have a := inY_lt (show y < y + 1 by omega) hd (h3 r hr).2
    have b := inY_lt (show y < y + 1 by omega) hd (h3 r hr).1
    simp only [ge_iff_le, decide_eq_true_eq]; omega
  simp only [List.filterMap_cons, List.filterMap_nil]
  unfold ivContains
  cases e1 : F (y - 1) with
  | none =>
    cases e2 : F y with
    | none =>
      cases e3 : F (y + 1) with
      | none => simp
      | some r3 => have := last r3 e3; simp [this.1, this.2]
    | some r2 =>
      by_cases hge : r2.2 ≥ d
      · simp [hge]
      · cases e3 : F (y + 1) with
        | none => simp [hge]
        | some r3 =>
          have := last r3 e3
          simp only [List.find?_cons, hge, decide_false, this.1]
          simp only [this.2, decide_false, Bool.false_and, Bool.false_eq_true, Option.some.injEq,
            exists_eq_left', false_iff, not_and, Int.not_le]
          intro _; omega
  | some r1 =>
    have s1 := skip1 r1 e1
    cases e2 : F y with
    | none =>
      cases e3 : F (y + 1) with
      | none => simp [s1]
      | some r3 => have := last r3 e3; simp [s1, this.1, this.2]
    | some r2 =>
      by_cases hge : r2.2 ≥ d
      · simp [s1, hge]
      · cases e3 : F (y + 1) with
        | none => simp [s1, hge]
        | some r3 =>
          have := last r3 e3
          simp only [List.find?_cons, s1, hge, decide_false, this.1]
          simp only [this.2, decide_false, Bool.false_and, Bool.false_eq_true, Option.some.injEq,
            exists_eq_left', false_iff, not_and, Int.not_le]
          intro _; omega

/-- `MonthdayRange::Date::filter` on a single fixed day (with or without a year) -/
theorem filter_single (fy : Option Nat) (m dd : Nat) (so eo : DateOffset) (d : Int)
    (res : Option (Int × Int))
    (h : singleDayFind m dd so eo d
      (match fy with | some fy => [(fy : Int)] | none => yearsAround (year d) 1 1) = .ok res) :
    MonthdayRange.filter (.date (.fixed fy m dd) so (.fixed fy m dd) eo) d = .ok (ivContains d res) := by
  unfold MonthdayRange.filter
  simp only [beq_self_eq_true]
  cases fy with
  | none =>
    simp only [] at h
    simp only [h, ok_bind]
    cases res <;> rfl
  | some n =>
    simp only [] at h
    simp only [h, ok_bind]
    cases res <;> rfl

/-- every existing instance of the day `m/dd` on the years `y-w … y+w`, shifted, stays in its year -/
def DayStaysInYear (m dd : Nat) (o : DateOffset) (y : Int) (w : Nat) : Prop :=
  ∀ k, y - w ≤ k → k ≤ y + w → ∀ f, ofYmd? k m dd = some f → InY k (shift o f)

/-- Class (b): a single fixed day without a year. -/
theorem dated_single_eq (m dd : Nat) (so eo : DateOffset) (d : Int)
    (hso : so.wday.wf = true) (hss : -100000 ≤ so.days ∧ so.days ≤ 100000)
    (heo : eo.wday.wf = true) (hes : -100000 ≤ eo.days ∧ eo.days ≤ 100000)
    (h1 : dateStart - 1 ≤ d) (h2 : d < dateEnd)
    (hS : DayStaysInYear m dd so (year d) (yearSpan so eo))
    (hE : DayStaysInYear m dd eo (year d) (yearSpan so eo)) :
    MonthdayRange.filter (.date (.fixed none m dd) so (.fixed none m dd) eo) d
      = .ok (datedOk (.fixed none m dd) so (.fixed none m dd) eo d) := by
  have hy : 1899 ≤ year d ∧ year d ≤ 9999 := year_window h1 h2
  have hw := yearSpan_bounds so eo hss hes
  have hd : InY (year d) d := inY_year d
  have hfind := singleDayFind_eq m dd so eo d hso heo [year d - 1, year d, year d + 1]
  rw [filter_single none m dd so eo d _ (by simp only []; rw [yearsAround_1_1]; exact hfind)]
  congr 1
  have key := single_find_iff (dayIv m dd so eo) (year d) d hd (by
    intro k hk r hr
    unfold dayIv at hr
    rw [Option.map_eq_some_iff] at hr
    obtain ⟨f, hf, rfl⟩ := hr
    exact ⟨hS k (by omega) (by omega) f hf, hE k (by omega) (by omega) f hf⟩)
  have spec : datedOk (.fixed none m dd) so (.fixed none m dd) eo d = true ↔
      ∃ r, dayIv m dd so eo (year d) = some r ∧ r.1 ≤ d ∧ d ≤ r.2 := by
    unfold datedOk
    simp only [isFixedDate, and_self, if_true]
    rw [candidateYears_yearless _ _ _ d rfl rfl]
    simp only [List.any_eq_true, mem_yearsNear, exactInstance, Option.isNone_none, true_or, if_true]
    constructor
    · rintro ⟨k, hk, hm⟩
      cases hf : ofYmd? k m dd with
      | none => simp [hf] at hm
      | some f =>
        simp only [hf, Bool.and_eq_true, decide_eq_true_eq] at hm
        have a := hS k hk.1 hk.2 f hf
        have b := hE k hk.1 hk.2 f hf
        -- d lies between two days of year k, hence k is d's year
        have : k = year d := by
          by_cases hlt : k < year d
          · have := inY_lt hlt b hd; omega
          · by_cases hgt : year d < k
            · have := inY_lt hgt hd a; omega
            · omega
        subst this
        exact ⟨(shift so f, shift eo f), by simp [dayIv, hf], hm.1, hm.2⟩
    · rintro ⟨r, hr, h1, h2⟩
      unfold dayIv at hr
      rw [Option.map_eq_some_iff] at hr
      obtain ⟨f, hf, rfl⟩ := hr
      exact ⟨year d, by omega, by simp [hf, h1, h2]⟩
  rw [Bool.eq_iff_iff, key, spec]

/-- Class (b'): a single fixed day WITH a year (`2024 Dec 25`, `2021 Feb 29`, also with offsets on
both sides): the day of that year, if it exists, and nothing else.  No condition at all: any day, any
offsets. -/
theorem dated_single_year_eq (n m dd : Nat) (so eo : DateOffset) (d : Int)
    (hso : so.wday.wf = true) (heo : eo.wday.wf = true) :
    MonthdayRange.filter (.date (.fixed (some n) m dd) so (.fixed (some n) m dd) eo) d
      = .ok (datedOk (.fixed (some n) m dd) so (.fixed (some n) m dd) eo d) := by
  have hfind := singleDayFind_eq m dd so eo d hso heo [(n : Int)]
  rw [filter_single (some n) m dd so eo d _ (by simp only []; exact hfind)]
  congr 1
  rw [Bool.eq_iff_iff]
  unfold datedOk
  simp only [isFixedDate, and_self, if_true, List.any_eq_true]
  have hmem : (n : Int) ∈ candidateYears (.fixed (some n) m dd) (.fixed (some n) m dd) (yearSpan so eo) d := by
    unfold candidateYears
    simp only [specYear, Option.map_some, List.mem_append, mem_yearsNear]
    right; omega
  simp only [List.filterMap_cons, List.filterMap_nil, dayIv]
  cases hf : ofYmd? (n : Int) m dd with
  | none =>
    simp only [Option.map_none, List.find?_nil, ivContains, Bool.false_eq_true, false_iff, not_exists, not_and]
    intro k _
    by_cases hkn : (n : Int) = k
    · subst hkn; simp [exactInstance, hf]
    · simp [exactInstance, hkn]
  | some f =>
    simp only [Option.map_some, List.find?_cons, List.find?_nil]
    constructor
    · intro h
      refine ⟨n, hmem, ?_⟩
      by_cases hge : shift eo f ≥ d
      · simp only [hge, decide_true, ivContains, Bool.and_eq_true, decide_eq_true_eq] at h
        simp only [exactInstance, Option.isNone_some, Bool.false_eq_true, Option.map_some, or_true, if_true, hf,
          Bool.and_eq_true, decide_eq_true_eq]
        exact ⟨h.1, hge⟩
      · simp [hge, ivContains] at h
    · rintro ⟨k, _, hm⟩
      by_cases hkn : (n : Int) = k
      · subst hkn
        simp only [exactInstance, Option.isNone_some, Bool.false_eq_true, Option.map_some, or_true, if_true, hf,
          Bool.and_eq_true, decide_eq_true_eq] at hm
        have hge : shift eo f ≥ d := hm.2
        simp only [hge, decide_true, ivContains, Bool.and_eq_true, decide_eq_true_eq]
        exact ⟨hm.1, trivial⟩
      · simp [exactInstance, hkn] at hm

end OH.Proofs.EvalSpec
