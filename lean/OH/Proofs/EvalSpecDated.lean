import OH.Proofs.EvalSpecDatedBase
import OH.Proofs.EvalSpecPairing
import OH.Proofs.EvalSpecSel
/-
C01 refinement, dated ranges: the model's helpers in terms of the specification's vocabulary
(`dateInstance`, `shift`), under the hypothesis `BoundOK L` (well-formed date, well-formed weekday
shift, day offset within ±30 000 000 days) and for the years `L … 175 000`, `-165 000 ≤ L` — where nothing
saturates: the shifted instances of these years lie between -90 265 384 and 93 917 443, inside chrono's
calendar — and `0 ≤ L` when the bound is Easter (the computus is the Gregorian one from year 0 on only).

The search windows of `MonthdayRange::Date` are centred on the year the bound has to come from
(`yearBeforeOffset d o` = the year of `d - day offset`).  The window theorems are generic in the
windows, so that the filter (5 + 5 years) and the hint (13 + 13 years) share them:
 * `openOn_widen`/`pairSpec_run`: the pairing on two ADEQUATE runs of years = the pairing on all years;
 * `dated_window_eq` (class c, two yearless bounds): any runs reaching two years below and above the two
   centres give the specification's `datedOk`; `dated_yearless_eq` is the filter's instance;
 * `single_window_iff` (class b, a single day without a year): the years `c-1 … c+8` around the year `c` of
   `d - end offset` (eight years always contain a February 29th: `day_exists_late`); `dated_single_eq`.
No year-locality, no bound on the shift relative to a year, no condition on the length of an occurrence.
-/
namespace OH.Proofs.EvalSpec
open OH.Model OH.Model.Cal
open OH.Spec (shift dateInstance exactInstance specYear datedOk candidateYears yearsNear yearSpan isFixedDate)

/-- a year on which the instances of the date are known: one of -165 000 … 175 000, and not before year 0
for Easter -/
def YrOK (ds : DateSpec) (k : Int) : Prop := (-165000 ≤ k ∧ k ≤ 175000) ∧ (isFixedDate ds = false → 0 ≤ k)

/-- a bound of a dated range the refinement covers on the years `L … 175 000`: parser-well-formed, offset
within ±30 000 000 days; `L` is not below -165 000, and not below 0 for Easter -/
structure BoundOK (L : Int) (ds : DateSpec) (o : DateOffset) : Prop where
  wf : ds.wf = true
  owf : o.wday.wf = true
  small : -30000000 ≤ o.days ∧ o.days ≤ 30000000
  lo : -165000 ≤ L
  east : isFixedDate ds = false → 0 ≤ L

theorem BoundOK.yr {L : Int} {ds : DateSpec} {o : DateOffset} (h : BoundOK L ds o) {k : Int}
    (hk : L ≤ k ∧ k ≤ 175000) : YrOK ds k :=
  ⟨⟨by have := h.lo; omega, hk.2⟩, fun hf => by have := h.east hf; omega⟩

theorem yearStart_lo : yearStart (-165000) = -60265378 := by decide
theorem yearStart_hi : yearStart 175001 = 63917437 := by decide

/-- a day of the years -165 000 … 175 000 -/
theorem inYear_range {y p : Int} (hy : -165000 ≤ y ∧ y ≤ 175000) (hp : yearStart y < p ∧ p ≤ yearStart (y + 1)) :
    -60265378 < p ∧ p ≤ 63917437 := by
  have h1 : yearStart (-165000) ≤ yearStart y := yearStart_le hy.1
  have h2 : yearStart (y + 1) ≤ yearStart 175001 := yearStart_le (by omega)
  rw [yearStart_lo] at h1; rw [yearStart_hi] at h2
  omega

theorem apply_inst {L : Int} {ds : DateSpec} {o : DateOffset} (h : BoundOK L ds o) {y : Int} {after : Bool} {p : Int}
    (_hy : L ≤ y ∧ y ≤ 175000) (_hp : dateInstance ds y after = some p) : o.apply p = .ok (shift o p) :=
  apply_eq_shift o h.owf p

/-- an instance of a year the date is known on lies inside that year -/
theorem inst_inYear {ds : DateSpec} (hwf : ds.wf = true) {y : Int} (hy : YrOK ds y) {after : Bool} {p : Int}
    (hp : dateInstance ds y after = some p) : yearStart y < p ∧ p ≤ yearStart (y + 1) :=
  dateInstance_year ds y after hwf (by have := hy.1; unfold minYear; omega) hy.2
    (by have := hy.1; unfold maxYear; omega) p hp

/-- with an offset within the bound, an instance of the years `L … 175 000` is shifted without saturation -/
theorem inst_shift_bounds {L : Int} {ds : DateSpec} {o : DateOffset} (h : BoundOK L ds o) {y : Int} {after : Bool}
    {p : Int} (hy : L ≤ y ∧ y ≤ 175000) (hp : dateInstance ds y after = some p) :
    p + o.days - 6 ≤ shift o p ∧ shift o p ≤ p + o.days + 6 := by
  have hin := inst_inYear h.wf (h.yr hy) hp
  have := inYear_range (h.yr hy).1 hin
  have hs := h.small
  exact shift_bounds o p (by omega) (by rw [minDay_eq]; omega) (by rw [maxDay_eq]; omega)

/-- the shifted instance of a bound on a year, if any -/
def proj (ds : DateSpec) (o : DateOffset) (after : Bool) (y : Int) : Option Int :=
  (dateInstance ds y after).map (shift o)

theorem boundsOn_eq {L : Int} {ds : DateSpec} {o : DateOffset} (h : BoundOK L ds o) (after : Bool) (ys : List Int)
    (hys : ∀ y ∈ ys, (L ≤ y ∧ y ≤ 175000) ∧ (specYear ds = none ∨ specYear ds = some y)) :
    boundsOn ds o after ys = .ok (ys.filterMap (proj ds o after)) := by
  induction ys with
  | nil => rfl
  | cons y ys ih =>
    have hy := hys y (by simp)
    have ih' := ih (fun z hz => hys z (by simp [hz]))
    have hlo := h.lo
    unfold boundsOn
    rw [ih', dateOnYear_eq_instance ds y after h.wf (by unfold minYear; omega) (by unfold maxYear; omega) hy.2]
    simp only [ok_bind, List.filterMap_cons, proj]
    cases hp : dateInstance ds y after with
    | none => rfl
    | some p => simp only [apply_inst h hy.1 hp, ok_bind, pure_eq_ok, Option.map_some]

theorem firstEndFrom_eq {L : Int} {e : DateSpec} {eo : DateOffset} (h : BoundOK L e eo) (start : Int) (ys : List Int)
    (hys : ∀ y ∈ ys, (L ≤ y ∧ y ≤ 175000) ∧ (specYear e = none ∨ specYear e = some y)) :
    firstEndFrom e eo start ys = .ok ((ys.filterMap (proj e eo false)).find? (fun x => decide (x ≥ start))) := by
  induction ys with
  | nil => rfl
  | cons y ys ih =>
    have hy := hys y (by simp)
    have ih' := ih (fun z hz => hys z (by simp [hz]))
    have hlo := h.lo
    unfold firstEndFrom
    rw [dateOnYear_eq_instance e y false h.wf (by unfold minYear; omega) (by unfold maxYear; omega) hy.2]
    simp only [ok_bind, List.filterMap_cons, proj]
    cases hp : dateInstance e y false with
    | none => exact ih'
    | some p =>
      simp only [apply_inst h hy.1 hp, ok_bind, pure_eq_ok, Option.map_some, List.find?_cons]
      by_cases hge : shift eo p ≥ start
      · simp [hge]
      · simp only [hge, if_false, decide_false]; exact ih'


/-! ### runs of consecutive years -/

/-- the years `a, a+1, …, a+n-1` -/
def yearRun (a : Int) (n : Nat) : List Int := (List.range n).map (fun (i : Nat) => a + (i : Int))

theorem yearsAround_eq_run (y : Int) (b a : Nat) : yearsAround y b a = yearRun (y - (b : Int)) (b + a + 1) := rfl

theorem mem_yearRun (a : Int) (n : Nat) (k : Int) : k ∈ yearRun a n ↔ a ≤ k ∧ k < a + n := by
  unfold yearRun
  simp only [List.mem_map, List.mem_range]
  constructor
  · rintro ⟨i, hi, rfl⟩; omega
  · intro h; exact ⟨(k - a).toNat, by omega, by omega⟩

theorem filterMap_eq_map_of {α β} (F : α → Option β) (T : α → β) (l : List α)
    (h : ∀ x ∈ l, F x = some (T x)) : l.filterMap F = l.map T := by
  induction l with
  | nil => rfl
  | cons x xs ih =>
    rw [List.filterMap_cons, h x (by simp), List.map_cons, ih (fun y hy => h y (by simp [hy]))]

theorem run_filterMap {β} (F : Int → Option β) (T : Int → β) (a : Int) (n : Nat)
    (h : ∀ k, a ≤ k → k < a + n → F k = some (T k)) : (yearRun a n).filterMap F = (yearRun a n).map T :=
  filterMap_eq_map_of F T _ (fun k hk => by rw [mem_yearRun] at hk; exact h k hk.1 hk.2)

/-- `F` increases from each year to the next on `lo … hi` -/
def StepMono (F : Int → Int) (lo hi : Int) : Prop := ∀ k, lo ≤ k → k < hi → F k < F (k + 1)

theorem mono_of_step (F : Int → Int) (lo hi : Int) (h : StepMono F lo hi)
    (a b : Int) (ha : lo ≤ a) (hab : a ≤ b) (hb : b ≤ hi) : F a ≤ F b ∧ (a < b → F a < F b) := by
  obtain ⟨n, rfl⟩ : ∃ n : Nat, b = a + n := ⟨(b - a).toNat, by omega⟩
  induction n with
  | zero => simp
  | succ n ih =>
    have ih' := ih (by omega) (by omega)
    have st := h (a + n) (by omega) (by omega)
    rw [show a + ((n + 1 : Nat) : Int) = a + n + 1 by omega]
    constructor
    · omega
    · intro _; omega

theorem run_map_sorted (T : Int → Int) (lo hi a : Int) (n : Nat) (m : StepMono T lo hi) (h1 : lo ≤ a)
    (h2 : a + n ≤ hi + 1) : ((yearRun a n).map T).Pairwise (· < ·) := by
  unfold yearRun
  rw [List.map_map, List.pairwise_map]
  refine List.Pairwise.imp_of_mem ?_ (List.pairwise_lt_range (n := n))
  intro i j hin hjn hij
  simp only [List.mem_range] at hin hjn
  simp only [Function.comp]
  exact (mono_of_step T lo hi m (a + i) (a + j) (by omega) (by omega) (by omega)).2 (by omega)

/-! ### days inside a year -/

/-- `p` is a day of year `k` -/
def InY (k p : Int) : Prop := yearStart k < p ∧ p ≤ yearStart (k + 1)

theorem inY_iff_year {k p : Int} : InY k p ↔ year p = k := by
  unfold InY; rw [year_eq_iff]

theorem inY_year (p : Int) : InY (year p) p := inY_iff_year.2 rfl

theorem inY_lt {a b p q : Int} (hab : a < b) (hp : InY a p) (hq : InY b q) : p < q := by
  have : yearStart (a + 1) ≤ yearStart b := yearStart_le (by omega)
  unfold InY at *; omega

/-- days of the same year are less than a year apart; days of different years are ordered like the years -/
theorem inY_le_of_lt {a b p q : Int} (hp : InY a p) (hq : InY b q) (h : p < q) : a ≤ b := by
  by_cases hab : b < a
  · have := inY_lt hab hq hp; omega
  · omega

/-- days `n` apart lie in years at most `n / 365 + 1` apart -/
theorem year_dist {a b p q : Int} (hp : InY a p) (hq : InY b q) (n : Nat) (h1 : p - q ≤ n) (h2 : q - p ≤ n) :
    a - b ≤ n / 365 + 1 ∧ b - a ≤ n / 365 + 1 := by
  unfold InY at *
  constructor
  · by_cases h : a ≤ b
    · omega
    · have := (yearStart_add_le (b + 1) (a - b - 1).toNat).1
      rw [show b + 1 + ((a - b - 1).toNat : Int) = a by omega] at this
      omega
  · by_cases h : b ≤ a
    · omega
    · have := (yearStart_add_le (a + 1) (b - a - 1).toNat).1
      rw [show a + 1 + ((b - a - 1).toNat : Int) = b by omega] at this
      omega

theorem yearStart_step (a b : Int) (h : b = a + 1) :
    365 ≤ yearStart b - yearStart a ∧ yearStart b - yearStart a ≤ 366 := by
  subst h
  have := yearStart_succ a
  have := yearLen_cases a
  omega

/-! ### the pairing on two windows of years against the pairing on all years

`S k`, `E k` are the shifted instances of the two bounds on year `k`.  The implementation pairs the
starts of the years `a1 … a2` with the ends of the years `b1 … b2`; the specification looks at a larger
set of years.  Both select the same days as soon as each window is ADEQUATE for the day: its first start
is at or before `d`, its last start after `d`, its first end before `d`, its last end at or after `d`. -/

/-- `d` is selected by the pairing of the starts `S k`, `a1 ≤ k ≤ a2`, with the ends `E j`, `b1 ≤ j ≤ b2`:
some start at or before `d` has no end between it and `d` -/
def OpenOn (S E : Int → Int) (a1 a2 b1 b2 d : Int) : Prop :=
  ∃ k, a1 ≤ k ∧ k ≤ a2 ∧ S k ≤ d ∧ ∀ j, b1 ≤ j → j ≤ b2 → ¬ (S k ≤ E j ∧ E j < d)

structure Adequate (S E : Int → Int) (a1 a2 b1 b2 d : Int) : Prop where
  sLo : S a1 ≤ d
  sHi : d < S a2
  eLo : E b1 < d
  eHi : d ≤ E b2

/-- an adequate window selects the same days as any range of years containing it on which the instances
increase -/
theorem openOn_widen (S E : Int → Int) (lo hi a1 a2 b1 b2 d : Int) (mS : StepMono S lo hi)
    (mE : StepMono E lo hi) (ha : lo ≤ a1 ∧ a1 ≤ a2 ∧ a2 ≤ hi) (hb : lo ≤ b1 ∧ b1 ≤ b2 ∧ b2 ≤ hi)
    (ok : Adequate S E a1 a2 b1 b2 d) :
    OpenOn S E a1 a2 b1 b2 d ↔ OpenOn S E lo hi lo hi d := by
  have MS := mono_of_step S lo hi mS
  have ME := mono_of_step E lo hi mE
  constructor
  · rintro ⟨k, hk1, hk2, hle, hno⟩
    refine ⟨k, by omega, by omega, hle, fun j hj1 hj2 => ?_⟩
    by_cases hj : j < b1
    · have a := (ME j b1 hj1 (by omega) (by omega)).1
      have b := hno b1 (by omega) (by omega)
      have := ok.eLo
      omega
    · by_cases hj' : b2 < j
      · have a := (ME b2 j (by omega) (by omega) hj2).1
        have := ok.eHi
        omega
      · exact hno j (by omega) (by omega)
  · rintro ⟨k, hk1, hk2, hle, hno⟩
    have hk : k < a2 := by
      by_cases h : a2 ≤ k
      · have := (MS a2 k (by omega) h hk2).1
        have := ok.sHi
        omega
      · omega
    by_cases hka : a1 ≤ k
    · exact ⟨k, hka, by omega, hle, fun j hj1 hj2 => hno j (by omega) (by omega)⟩
    · refine ⟨a1, by omega, by omega, ok.sLo, fun j hj1 hj2 => ?_⟩
      have a := (MS k a1 hk1 (by omega) (by omega)).1
      have := hno j (by omega) (by omega)
      omega

/-- the right-hand side of the pairing theorem on two runs of years -/
theorem pairSpec_run (S E : Int → Int) (a1 : Int) (na : Nat) (b1 : Int) (nb : Nat) (d : Int) :
    PairSpec ((yearRun a1 na).map S) ((yearRun b1 nb).map E) d ↔
      OpenOn S E a1 (a1 + na - 1) b1 (b1 + nb - 1) d := by
  unfold PairSpec OpenOn
  simp only [List.mem_map, mem_yearRun]
  constructor
  · rintro ⟨s, ⟨k, hk, rfl⟩, hle, hno⟩
    exact ⟨k, by omega, by omega, hle, fun j hj1 hj2 => hno (E j) ⟨j, ⟨by omega, by omega⟩, rfl⟩⟩
  · rintro ⟨k, hk1, hk2, hle, hno⟩
    refine ⟨S k, ⟨k, ⟨by omega, by omega⟩, rfl⟩, hle, ?_⟩
    rintro x ⟨j, hj, rfl⟩
    exact hno j (by omega) (by omega)

/-! ### class (c): both bounds without a year -/

/-- within the offset bound the cap of `yearSpan` (the whole calendar) is not reached -/
theorem yearSpan_small (so eo : DateOffset) (h1 : -30000000 ≤ so.days ∧ so.days ≤ 30000000)
    (h2 : -30000000 ≤ eo.days ∧ eo.days ≤ 30000000) :
    yearSpan so eo = 3 + (so.days.natAbs + eo.days.natAbs) / 365 := by
  unfold yearSpan
  omega

theorem yearSpan_bounds (so eo : DateOffset) (h1 : -30000000 ≤ so.days ∧ so.days ≤ 30000000)
    (h2 : -30000000 ≤ eo.days ∧ eo.days ≤ 30000000) : 3 ≤ yearSpan so eo ∧ yearSpan so eo ≤ 164386 := by
  unfold yearSpan
  omega

/-- a well-formed date without a year has an instance on every year it is known on -/
theorem proj_some_yearless (ds : DateSpec) (o : DateOffset) (after : Bool) (hwf : ds.wf = true)
    (hyl : specYear ds = none) (k : Int) (hk : YrOK ds k) : ∃ p, proj ds o after k = some p := by
  unfold proj
  obtain ⟨⟨hk1, hk2⟩, hkE⟩ := hk
  cases ds with
  | easter yr =>
    cases yr with
    | some n => simp [specYear] at hyl
    | none =>
      obtain ⟨d, he, _⟩ := easter_spec k (hkE rfl) (by unfold maxYear; omega)
      exact ⟨shift o d, by simp [dateInstance, he]⟩
  | fixed yr m dd =>
    cases yr with
    | some n => simp [specYear] at hyl
    | none =>
      simp only [DateSpec.wf, Bool.and_eq_true, decide_eq_true_eq] at hwf
      obtain ⟨⟨⟨⟨_, hm1⟩, hm2⟩, hd1⟩, hd2⟩ := hwf
      rw [dateInstance_fixed none k m dd after (Or.inl rfl) (by unfold minYear; omega) (by unfold maxYear; omega)
        hm1 hm2 hd1 hd2]
      exact ⟨_, rfl⟩

theorem proj_eq_some {ds : DateSpec} {o : DateOffset} {after : Bool} {k P : Int}
    (h : proj ds o after k = some P) : ∃ p, dateInstance ds k after = some p ∧ shift o p = P := by
  unfold proj at h
  rw [Option.map_eq_some_iff] at h
  exact h

theorem singleInterval_none (s : DateSpec) (so : DateOffset) (e : DateSpec) (eo : DateOffset)
    (h : specYear s = none) : singleInterval s so e eo = .ok none := by
  unfold singleInterval
  have : dateYear s = none := h
  rw [this]

/-- `MonthdayRange::Date::filter` on a range that is not a single fixed day, when
`single_interval_from_bounds` yields an interval -/
theorem filter_of_interval (s : DateSpec) (so : DateOffset) (e : DateSpec) (eo : DateOffset) (d : Int)
    (hns : ¬ (s = e ∧ isFixedDate s = true)) (iv : Int × Int)
    (h : singleInterval s so e eo = .ok (some iv)) :
    MonthdayRange.filter (.date s so e eo) d = .ok (decide (iv.1 ≤ d) && decide (d ≤ iv.2)) := by
  unfold MonthdayRange.filter
  simp only []
  split
  · rename_i fy m dd heq
    exfalso; apply hns
    simp only [beq_iff_eq] at heq
    exact ⟨heq, rfl⟩
  · simp only [h, ok_bind, pure_eq_ok]

/-- the generic (windowed) branch of `MonthdayRange::Date::filter`: the starts are looked for around the
year of `d - start offset`, the ends around the year of `d - end offset` -/
theorem filter_generic (s : DateSpec) (so : DateOffset) (e : DateSpec) (eo : DateOffset) (d : Int)
    (hsy : specYear s = none) (hns : ¬ (s = e ∧ isFixedDate s = true)) (ss es : List Int)
    (h1 : boundsOn s so true (yearsAround (yearBeforeOffset d so) 2 2) = .ok ss)
    (h2 : boundsOn e eo false (yearsAround (yearBeforeOffset d eo) 2 2) = .ok es) :
    MonthdayRange.filter (.date s so e eo) d = .ok (isOpenFromIntervals d (intervalsFromBounds ss es)) := by
  have hsi := singleInterval_none s so e eo hsy
  unfold MonthdayRange.filter
  simp only []
  split
  · rename_i fy m dd heq
    exfalso; apply hns
    simp only [beq_iff_eq] at heq
    exact ⟨heq, rfl⟩
  · simp only [hsi, h1, h2, ok_bind, pure_eq_ok]

theorem candidateYears_yearless (s e : DateSpec) (w : Nat) (d : Int) (hs : specYear s = none)
    (he : specYear e = none) : candidateYears s e w d = yearsNear (year d) w := by
  unfold candidateYears; rw [hs, he]; simp

/-- the shifted instance of a bound on a year (0 where there is none: never the case for a well-formed
date without a year on the years it is known on) -/
def projT (ds : DateSpec) (o : DateOffset) (after : Bool) (k : Int) : Int := (proj ds o after k).getD 0

theorem proj_eq_projT (ds : DateSpec) (o : DateOffset) (after : Bool) (hwf : ds.wf = true)
    (hyl : specYear ds = none) (k : Int) (hk : YrOK ds k) :
    proj ds o after k = some (projT ds o after k) := by
  obtain ⟨p, hp⟩ := proj_some_yearless ds o after hwf hyl k hk
  simp only [projT, hp, Option.getD_some]

/-! #### position of the instances inside their year -/

theorem monthStart_leap_bounds (leap : Bool) (m : Nat) :
    monthStart false m ≤ monthStart leap m ∧ monthStart leap m ≤ monthStart false m + 1 := by
  cases leap
  · omega
  · unfold monthStart
    split <;> simp

theorem monthStart_false_range (m : Nat) : 0 ≤ monthStart false m ∧ monthStart false m ≤ 365 := by
  unfold monthStart; split <;> simp

/-- position of the clamped instance of `m/dd` inside its year -/
theorem fixedInstance_pos (y : Int) (m dd : Nat) (after : Bool) (hd2 : dd ≤ 31) :
    yearStart y + monthStart false m + dd - 3 ≤ fixedInstance y m dd after ∧
      fixedInstance y m dd after ≤ yearStart y + monthStart false m + dd + 1 := by
  have hb := monthStart_leap_bounds (isLeap y) m
  have hdim := daysInMonth_bounds y m
  unfold fixedInstance
  by_cases hv : dd ≤ daysInMonth y m
  · rw [if_pos hv]; unfold ymdRaw; omega
  · rw [if_neg hv]
    cases after <;> simp only [if_true, Bool.false_eq_true, if_false] <;> unfold ymdRaw <;> omega

/-- every instance of the date on year `k` lies between `yearStart k + posLo` and `yearStart k + posHi`
(`yearStart k` = the day before Jan 1): a fixed date moves by the leap day and by clamping
(`Feb 31` → Feb 28 … Mar 1), Easter between Mar 22 and Apr 25 -/
def posLo : DateSpec → Int
  | .fixed _ m dd => monthStart false m + dd - 3
  | .easter _ => 81

def posHi : DateSpec → Int
  | .fixed _ m dd => monthStart false m + dd + 1
  | .easter _ => 116

theorem pos_width (ds : DateSpec) : posHi ds - posLo ds ≤ 35 := by
  cases ds <;> simp only [posLo, posHi] <;> omega

theorem pos_range (ds : DateSpec) (hwf : ds.wf = true) : -2 ≤ posLo ds ∧ posHi ds ≤ 397 := by
  cases ds with
  | easter yr => simp [posLo, posHi]
  | fixed yr m dd =>
    simp only [DateSpec.wf, Bool.and_eq_true, decide_eq_true_eq] at hwf
    obtain ⟨⟨⟨⟨_, hm1⟩, hm2⟩, hd1⟩, hd2⟩ := hwf
    have := monthStart_false_range m
    simp only [posLo, posHi]
    omega

theorem inst_pos (ds : DateSpec) (hwf : ds.wf = true) (hyl : specYear ds = none) (k : Int)
    (hk : YrOK ds k) (after : Bool) (p : Int) (hp : dateInstance ds k after = some p) :
    yearStart k + posLo ds ≤ p ∧ p ≤ yearStart k + posHi ds := by
  obtain ⟨⟨hk1, hk2⟩, hkE⟩ := hk
  cases ds with
  | easter yr =>
    obtain ⟨d, he, _, lo, hi, _⟩ := easter_spec k (hkE rfl) (by unfold maxYear; omega)
    simp only [dateInstance, he] at hp
    split at hp
    · cases hp
      have h3 := monthStart_mar k
      have h4 := monthStart_apr k
      have hl := yearLen_cases k
      simp only [posLo, posHi]
      unfold ymdRaw at lo hi
      omega
    · cases hp
  | fixed yr m dd =>
    cases yr with
    | some n => simp [specYear] at hyl
    | none =>
      simp only [DateSpec.wf, Bool.and_eq_true, decide_eq_true_eq] at hwf
      obtain ⟨⟨⟨⟨_, hm1⟩, hm2⟩, hd1⟩, hd2⟩ := hwf
      rw [dateInstance_fixed none k m dd after (Or.inl rfl) (by unfold minYear; omega) (by unfold maxYear; omega)
        hm1 hm2 hd1 hd2] at hp
      cases hp
      have := fixedInstance_pos k m dd after hd2
      simp only [posLo, posHi]
      omega

/-- position range of the SHIFTED instances (day offset, and up to 6 days of weekday shift) -/
def shiftLo (ds : DateSpec) (o : DateOffset) : Int := posLo ds + o.days - 6
def shiftHi (ds : DateSpec) (o : DateOffset) : Int := posHi ds + o.days + 6

theorem projT_pos {L : Int} {ds : DateSpec} {o : DateOffset} (h : BoundOK L ds o) (hyl : specYear ds = none)
    (after : Bool) (k : Int) (hk : L ≤ k ∧ k ≤ 175000) :
    yearStart k + shiftLo ds o ≤ projT ds o after k ∧ projT ds o after k ≤ yearStart k + shiftHi ds o := by
  obtain ⟨P, hP⟩ := proj_some_yearless ds o after h.wf hyl k (h.yr hk)
  obtain ⟨p, hp, rfl⟩ := proj_eq_some hP
  have a := inst_pos ds h.wf hyl k (h.yr hk) after p hp
  have b := inst_shift_bounds h hk hp
  simp only [projT, hP, Option.getD_some, shiftLo, shiftHi]
  omega

/-- the shifted instances of a yearless bound increase from each year to the next -/
theorem projT_stepMono {L : Int} {ds : DateSpec} {o : DateOffset} (h : BoundOK L ds o) (hyl : specYear ds = none)
    (after : Bool) : StepMono (projT ds o after) L 175000 := by
  intro k h1 h2
  have p1 := projT_pos h hyl after k ⟨h1, by omega⟩
  have p2 := projT_pos h hyl after (k + 1) ⟨by omega, by omega⟩
  have := yearStart_step k (k + 1) rfl
  have := pos_width ds
  simp only [shiftLo, shiftHi] at *
  omega

/-- `a` being the year of `d - offset`, the instances of the years up to `a - 2` are shifted before `d` … -/
theorem projT_lt_of_year {L : Int} {ds : DateSpec} {o : DateOffset} (h : BoundOK L ds o) (hyl : specYear ds = none)
    (after : Bool) (d a k : Int) (ha : InY a (d - o.days)) (hk : L ≤ k ∧ k ≤ 175000) (hka : k + 2 ≤ a) :
    projT ds o after k < d := by
  have p := projT_pos h hyl after k hk
  have r := pos_range ds h.wf
  have s1 := yearStart_step k (k + 1) rfl
  have s2 := yearStart_step (k + 1) (k + 2) (by omega)
  have := yearStart_le (a := k + 2) (b := a) hka
  unfold InY at ha
  simp only [shiftLo, shiftHi] at *
  omega

/-- … and the instances of the years from `a + 2` on are shifted after `d` -/
theorem lt_projT_of_year {L : Int} {ds : DateSpec} {o : DateOffset} (h : BoundOK L ds o) (hyl : specYear ds = none)
    (after : Bool) (d a k : Int) (ha : InY a (d - o.days)) (hk : L ≤ k ∧ k ≤ 175000) (hka : a + 2 ≤ k) :
    d < projT ds o after k := by
  have p := projT_pos h hyl after k hk
  have r := pos_range ds h.wf
  have s1 := yearStart_step (a + 1) (a + 2) (by omega)
  have := yearStart_le (a := a + 2) (b := k) hka
  unfold InY at ha
  simp only [shiftLo, shiftHi] at *
  omega

/-- the centre of the implementation's windows: without saturation, the year of `d - offset` -/
theorem yearBeforeOffset_eq (d : Int) (o : DateOffset) (hs : -30000000 ≤ o.days ∧ o.days ≤ 30000000)
    (hd : -60000000 ≤ d ∧ d ≤ 60000000) : yearBeforeOffset d o = year (d - o.days) := by
  unfold yearBeforeOffset
  have e : satNeg o.days = -o.days := by unfold satNeg; rw [if_neg (by omega)]
  rw [e, addDaysSat_eq (by omega) (by rw [minDay_eq]; omega) (by rw [maxDay_eq]; omega)]
  congr 1

theorem window_days {d : Int} (h1 : dateStart - 1 ≤ d) (h2 : d < dateEnd) : 693595 ≤ d ∧ d ≤ 3652059 := by
  rw [dateStart_eq] at h1; rw [dateEnd_eq] at h2; omega

/-- the year of `d - offset` is within `|offset| / 365 + 1` years of the year of `d` -/
theorem year_sub_near (d n : Int) :
    year (d - n) - year d ≤ n.natAbs / 365 + 1 ∧ year d - year (d - n) ≤ n.natAbs / 365 + 1 :=
  year_dist (inY_year (d - n)) (inY_year d) n.natAbs (by omega) (by omega)

/-- declarative reading of `datedOk` for two yearless bounds: the pairing on the candidate years -/
theorem datedOk_yearless_iff {L : Int} (s : DateSpec) (so : DateOffset) (e : DateSpec) (eo : DateOffset) (d : Int)
    (hs : BoundOK L s so) (he : BoundOK L e eo) (hL : L + yearSpan so eo ≤ 1899)
    (hsy : specYear s = none) (hey : specYear e = none)
    (hns : ¬ (s = e ∧ isFixedDate s = true)) (h1 : dateStart - 1 ≤ d) (h2 : d < dateEnd) :
    datedOk s so e eo d = true ↔
      OpenOn (projT s so true) (projT e eo false) (year d - yearSpan so eo) (year d + yearSpan so eo)
        (year d - yearSpan so eo) (year d + yearSpan so eo) d := by
  have hy : 1899 ≤ year d ∧ year d ≤ 9999 := year_window h1 h2
  have hw := yearSpan_bounds so eo hs.small he.small
  rw [datedOk_range_iff s so e eo d hns]
  have cand : ∀ k, k ∈ candidateYears s e (yearSpan so eo) d ↔
      year d - yearSpan so eo ≤ k ∧ k ≤ year d + yearSpan so eo := by
    intro k; rw [candidateYears_yearless s e _ d hsy hey, mem_yearsNear]
  have pS : ∀ k, year d - yearSpan so eo ≤ k → k ≤ year d + yearSpan so eo →
      proj s so true k = some (projT s so true k) :=
    fun k a b => proj_eq_projT s so true hs.wf hsy k (hs.yr (by omega))
  have pE : ∀ k, year d - yearSpan so eo ≤ k → k ≤ year d + yearSpan so eo →
      proj e eo false k = some (projT e eo false k) :=
    fun k a b => proj_eq_projT e eo false he.wf hey k (he.yr (by omega))
  simp only [hey, ne_eq, not_true_eq_false, false_imp_iff, and_true]
  unfold OpenOn
  constructor
  · rintro ⟨s0, hs0, hle, hno⟩
    obtain ⟨k, hk, p, hp, rfl⟩ := mem_specStarts.1 hs0
    have hk' := (cand k).1 hk
    have ek := pS k hk'.1 hk'.2
    simp only [proj, hp, Option.map_some, Option.some.injEq] at ek
    refine ⟨k, hk'.1, hk'.2, by rw [← ek]; exact hle, fun j hj1 hj2 => ?_⟩
    have ej := pE j hj1 hj2
    unfold proj at ej
    rw [Option.map_eq_some_iff] at ej
    obtain ⟨q, hq, hqe⟩ := ej
    rw [← ek, ← hqe]
    exact hno _ (mem_specEnds.2 ⟨j, (cand j).2 ⟨hj1, hj2⟩, q, hq, rfl⟩)
  · rintro ⟨k, hk1, hk2, hle, hno⟩
    refine ⟨projT s so true k, mem_specStarts.2 ⟨k, (cand k).2 ⟨hk1, hk2⟩, ?_⟩, hle, ?_⟩
    · have := pS k hk1 hk2
      unfold proj at this
      rw [Option.map_eq_some_iff] at this
      obtain ⟨p, hp, hpe⟩ := this
      exact ⟨p, hp, hpe.symm⟩
    · intro x hx
      obtain ⟨j, hj, p, hp, rfl⟩ := mem_specEnds.1 hx
      have hj' := (cand j).1 hj
      have := pE j hj'.1 hj'.2
      simp only [proj, hp, Option.map_some, Option.some.injEq] at this
      rw [this]; exact hno j hj'.1 hj'.2

/-- THE WINDOW THEOREM.  Two yearless bounds (not a single fixed day), day offsets within ±30 000 000 days
(and the years the specification looks at, `year d ± yearSpan`, not below `L`),
any day of 1899-12-31 … 9999-12-31: pairing the starts of the years `a1 … a1+na-1` with the ends of the
years `b1 … b1+nb-1` selects `d` iff the specification does — for ANY two runs of years such that the
first reaches two years below and two years above the year of `d - start offset`, the second two years
below and above the year of `d - end offset`.  (The filter takes exactly these five years on each side,
the hint thirteen.) -/
theorem dated_window_eq {L : Int} (s : DateSpec) (so : DateOffset) (e : DateSpec) (eo : DateOffset) (d : Int)
    (hs : BoundOK L s so) (he : BoundOK L e eo) (hL : L + yearSpan so eo ≤ 1899)
    (hsy : specYear s = none) (hey : specYear e = none)
    (hns : ¬ (s = e ∧ isFixedDate s = true)) (h1 : dateStart - 1 ≤ d) (h2 : d < dateEnd)
    (a1 : Int) (na : Nat) (b1 : Int) (nb : Nat)
    (ha : L ≤ a1 ∧ a1 + na ≤ 175001) (hb : L ≤ b1 ∧ b1 + nb ≤ 175001)
    (ha1 : a1 + 2 ≤ year (d - so.days)) (ha2 : year (d - so.days) + 2 ≤ a1 + na - 1)
    (hb1 : b1 + 2 ≤ year (d - eo.days)) (hb2 : year (d - eo.days) + 2 ≤ b1 + nb - 1) :
    isOpenFromIntervals d (intervalsFromBounds ((yearRun a1 na).filterMap (proj s so true))
      ((yearRun b1 nb).filterMap (proj e eo false))) = datedOk s so e eo d := by
  have hy : 1899 ≤ year d ∧ year d ≤ 9999 := year_window h1 h2
  have hw := yearSpan_bounds so eo hs.small he.small
  have hwdef : yearSpan so eo = 3 + (so.days.natAbs + eo.days.natAbs) / 365 := yearSpan_small so eo hs.small he.small
  have nS := year_sub_near d so.days
  have nE := year_sub_near d eo.days
  have hss := hs.small
  have hes := he.small
  have iS : InY (year (d - so.days)) (d - so.days) := inY_year _
  have iE : InY (year (d - eo.days)) (d - eo.days) := inY_year _
  generalize year (d - so.days) = ys at *
  generalize year (d - eo.days) = ye at *
  have mS := projT_stepMono hs hsy true
  have mE := projT_stepMono he hey false
  generalize hSdef : projT s so true = S at *
  generalize hEdef : projT e eo false = E at *
  have pS : ∀ k, L ≤ k → k ≤ 175000 → proj s so true k = some (S k) := by
    intro k a b; rw [← hSdef]; exact proj_eq_projT s so true hs.wf hsy k (hs.yr ⟨a, b⟩)
  have pE : ∀ k, L ≤ k → k ≤ 175000 → proj e eo false k = some (E k) := by
    intro k a b; rw [← hEdef]; exact proj_eq_projT e eo false he.wf hey k (he.yr ⟨a, b⟩)
  have ltS : ∀ k, L ≤ k → k ≤ 175000 → k + 2 ≤ ys → S k < d := by
    intro k a b c; rw [← hSdef]; exact projT_lt_of_year hs hsy true d ys k iS ⟨a, b⟩ c
  have gtS : ∀ k, L ≤ k → k ≤ 175000 → ys + 2 ≤ k → d < S k := by
    intro k a b c; rw [← hSdef]; exact lt_projT_of_year hs hsy true d ys k iS ⟨a, b⟩ c
  have ltE : ∀ k, L ≤ k → k ≤ 175000 → k + 2 ≤ ye → E k < d := by
    intro k a b c; rw [← hEdef]; exact projT_lt_of_year he hey false d ye k iE ⟨a, b⟩ c
  have gtE : ∀ k, L ≤ k → k ≤ 175000 → ye + 2 ≤ k → d < E k := by
    intro k a b c; rw [← hEdef]; exact lt_projT_of_year he hey false d ye k iE ⟨a, b⟩ c
  rw [run_filterMap _ S a1 na (fun k a b => pS k (by omega) (by omega)),
    run_filterMap _ E b1 nb (fun k a b => pE k (by omega) (by omega))]
  have sortS := run_map_sorted S L 175000 a1 na mS (by omega) (by omega)
  have sortE := run_map_sorted E L 175000 b1 nb mE (by omega) (by omega)
  have hlast : d < S (a1 + na - 1) := gtS _ (by omega) (by omega) (by omega)
  rw [Bool.eq_iff_iff, isOpen_intervalsFromBounds' _ _ d sortS sortE (by omega),
    pairSpec_run S E a1 na b1 nb d,
    openOn_widen S E L 175000 a1 (a1 + na - 1) b1 (b1 + nb - 1) d mS mE (by omega) (by omega)
      ⟨by have := ltS a1 (by omega) (by omega) (by omega); omega, hlast,
        ltE b1 (by omega) (by omega) (by omega),
        by have := gtE (b1 + nb - 1) (by omega) (by omega) (by omega); omega⟩,
    datedOk_yearless_iff s so e eo d hs he hL hsy hey hns h1 h2, hSdef, hEdef]
  generalize yearSpan so eo = w at *
  generalize year d = y at *
  exact (openOn_widen S E L 175000 (y - w) (y + w) (y - w) (y + w) d mS mE (by omega) (by omega)
    ⟨by have := ltS (y - w) (by omega) (by omega) (by omega); omega,
      gtS (y + w) (by omega) (by omega) (by omega),
      ltE (y - w) (by omega) (by omega) (by omega),
      by have := gtE (y + w) (by omega) (by omega) (by omega); omega⟩).symm

/-- Class (c): a dated range whose two bounds carry no year (and that is not a single fixed day):
the model's filter is the specification's `datedOk` on EVERY day of 1899-12-31 … 9999-12-31, whatever
the offsets within ±30 000 000 days (`L`: the years `year d ± yearSpan` are years the bounds are known on). -/
theorem dated_yearless_eq {L : Int} (s : DateSpec) (so : DateOffset) (e : DateSpec) (eo : DateOffset) (d : Int)
    (hs : BoundOK L s so) (he : BoundOK L e eo) (hL : L + yearSpan so eo ≤ 1899)
    (hsy : specYear s = none) (hey : specYear e = none)
    (hns : ¬ (s = e ∧ isFixedDate s = true)) (h1 : dateStart - 1 ≤ d) (h2 : d < dateEnd) :
    MonthdayRange.filter (.date s so e eo) d = .ok (datedOk s so e eo d) := by
  have hy : 1899 ≤ year d ∧ year d ≤ 9999 := year_window h1 h2
  have hdw := window_days h1 h2
  have hwdef : yearSpan so eo = 3 + (so.days.natAbs + eo.days.natAbs) / 365 := yearSpan_small so eo hs.small he.small
  have nS := year_sub_near d so.days
  have nE := year_sub_near d eo.days
  have hss := hs.small
  have hes := he.small
  have eS := yearBeforeOffset_eq d so hs.small (by omega)
  have eE := yearBeforeOffset_eq d eo he.small (by omega)
  have b1 : boundsOn s so true (yearsAround (yearBeforeOffset d so) 2 2)
      = .ok ((yearRun (year (d - so.days) - 2) 5).filterMap (proj s so true)) := by
    rw [eS, yearsAround_eq_run, boundsOn_eq hs true _ (fun k hk => by
      rw [mem_yearRun] at hk; exact ⟨by omega, Or.inl hsy⟩)]
    rfl
  have b2 : boundsOn e eo false (yearsAround (yearBeforeOffset d eo) 2 2)
      = .ok ((yearRun (year (d - eo.days) - 2) 5).filterMap (proj e eo false)) := by
    rw [eE, yearsAround_eq_run, boundsOn_eq he false _ (fun k hk => by
      rw [mem_yearRun] at hk; exact ⟨by omega, Or.inl hey⟩)]
    rfl
  rw [filter_generic s so e eo d hsy hns _ _ b1 b2]
  congr 1
  exact dated_window_eq s so e eo d hs he hL hsy hey hns h1 h2 _ 5 _ 5 (by omega) (by omega)
    (by omega) (by omega) (by omega) (by omega)

/-! ### class (b): a single fixed day without a year (`Dec 25`, `Feb 29`, `May 1 -1 day-May 1 +2 days`) -/

/-- shifted single-day interval of year `k`, if the day exists on that year -/
def dayIv (m dd : Nat) (so eo : DateOffset) (k : Int) : Option (Int × Int) :=
  (ofYmd? k m dd).map (fun f => (shift so f, shift eo f))

theorem singleDayFind_eq (m dd : Nat) (so eo : DateOffset) (d : Int)
    (hso : so.wday.wf = true) (heo : eo.wday.wf = true) (ys : List Int) :
    singleDayFind m dd so eo d ys =
      .ok ((ys.filterMap (dayIv m dd so eo)).find? (fun r => decide (r.2 ≥ d))) := by
  induction ys with
  | nil => rfl
  | cons k ks ih =>
    unfold singleDayFind
    simp only [List.filterMap_cons, dayIv]
    cases hf : ofYmd? k m dd with
    | none => exact ih
    | some f =>
      simp only [apply_eq_shift so hso f, apply_eq_shift eo heo f, ok_bind, pure_eq_ok, Option.map_some,
        List.find?_cons]
      by_cases hge : shift eo f ≥ d
      · simp [hge]
      · simp only [hge, if_false, decide_false]; exact ih

/-- `match found { None => false, Some(r) => r.contains(d) }` -/
def ivContains (d : Int) : Option (Int × Int) → Bool
  | none => false
  | some r => decide (r.1 ≤ d) && decide (d ≤ r.2)

/-- the first interval that ends at or after `d` contains `d` iff some interval does, when the
intervals start in increasing order -/
theorem find_contains_iff (G : List (Int × Int)) (d : Int) (hs : G.Pairwise (fun r r' => r.1 ≤ r'.1)) :
    ivContains d (G.find? (fun r => decide (r.2 ≥ d))) = true ↔ ∃ r ∈ G, r.1 ≤ d ∧ d ≤ r.2 := by
  induction G with
  | nil => simp [ivContains]
  | cons x xs ih =>
    rw [List.pairwise_cons] at hs
    simp only [List.find?_cons]
    by_cases hx : x.2 ≥ d
    · rw [show decide (x.2 ≥ d) = true from decide_eq_true hx]
      simp only [ivContains, Bool.and_eq_true, decide_eq_true_eq]
      constructor
      · intro h; exact ⟨x, by simp, h.1, h.2⟩
      · rintro ⟨r, hr, h1, h2⟩
        rcases List.mem_cons.1 hr with rfl | hr'
        · exact ⟨h1, h2⟩
        · have := hs.1 r hr'; exact ⟨by omega, hx⟩
    · rw [show decide (x.2 ≥ d) = false from decide_eq_false hx]
      simp only []
      rw [ih hs.2]
      constructor
      · rintro ⟨r, hr, h⟩; exact ⟨r, by simp [hr], h⟩
      · rintro ⟨r, hr, h1, h2⟩
        rcases List.mem_cons.1 hr with rfl | hr'
        · omega
        · exact ⟨r, hr', h1, h2⟩

/-- `MonthdayRange::Date::filter` on a single fixed day (with or without a year) -/
theorem filter_single (fy : Option Nat) (m dd : Nat) (so eo : DateOffset) (d : Int)
    (res : Option (Int × Int))
    (h : singleDayFind m dd so eo d
      (match fy with | some fy => [(fy : Int)] | none => yearsAround (yearBeforeOffset d eo) 1 8) = .ok res) :
    MonthdayRange.filter (.date (.fixed fy m dd) so (.fixed fy m dd) eo) d = .ok (ivContains d res) := by
  unfold MonthdayRange.filter
  simp only [beq_self_eq_true]
  cases fy with
  | none =>
    simp only [] at h
    simp only [h, ok_bind]
    cases res <;> rfl
  | some n =>
    simp only [] at h
    simp only [h, ok_bind]
    cases res <;> rfl

/-- position of an existing occurrence of the day `m/dd` inside its year -/
theorem day_pos {k : Int} {m dd : Nat} {f : Int} (h : ofYmd? k m dd = some f) :
    (minYear ≤ k ∧ k ≤ maxYear) ∧ yearStart k + monthStart false m + dd ≤ f ∧
      f ≤ yearStart k + monthStart false m + dd + 1 ∧ yearStart k < f ∧ f ≤ yearStart (k + 1) := by
  obtain ⟨k1, k2, v, rfl⟩ := ofYmd?_eq_some_iff.1 h
  have b := ymdRaw_bounds v
  have := monthStart_leap_bounds (isLeap k) m
  rw [yearStart_succ]
  refine ⟨⟨k1, k2⟩, ?_, ?_, b.1, b.2⟩ <;> unfold ymdRaw <;> omega

/-- among eight consecutive years one is a leap year -/
theorem leap_in_8 (a : Int) : ∃ L, a ≤ L ∧ L ≤ a + 7 ∧ isLeap L = true := by
  have key : ∀ x : Int, x % 4 = 0 → isLeap x = true ∨ isLeap (x + 4) = true := by
    intro x hx
    simp only [isLeap_iff]
    omega
  -- the first multiple of four from `a` on
  obtain ⟨x, hx1, hx2, hx3⟩ : ∃ x : Int, a ≤ x ∧ x ≤ a + 3 ∧ x % 4 = 0 :=
    ⟨a + (4 - a % 4) % 4, by omega, by omega, by omega⟩
  rcases key x hx3 with h | h
  · exact ⟨x, hx1, by omega, h⟩
  · exact ⟨x + 4, by omega, by omega, h⟩

/-- a day that exists on some year exists on one of any eight consecutive years — and not in the first
31 days of the first of them: every year for most days, every leap year for February 29th -/
theorem day_exists_late (m dd : Nat) (k0 f0 : Int) (h0 : ofYmd? k0 m dd = some f0) (a : Int)
    (ha : minYear ≤ a ∧ a + 7 ≤ maxYear) :
    ∃ k f, a ≤ k ∧ k ≤ a + 7 ∧ ofYmd? k m dd = some f ∧ yearStart a + 32 ≤ f := by
  obtain ⟨_, _, v0, _⟩ := ofYmd?_eq_some_iff.1 h0
  obtain ⟨m1, m2, d1, d2⟩ := v0
  by_cases hv : dd ≤ daysInMonth (a + 1) m
  · -- the day exists on the second year
    have v : ValidYmd (a + 1) m dd := ⟨m1, m2, d1, hv⟩
    refine ⟨a + 1, _, by omega, by omega, ofYmd?_of_valid (by omega) (by omega) v, ?_⟩
    have := (ymdRaw_bounds v).1
    have := yearStart_step a (a + 1) rfl
    omega
  · -- February 29th
    have hm : m = 2 := by
      unfold daysInMonth at hv d2
      split at hv <;> split at d2 <;> first | omega | rfl | skip
      all_goals simp_all
    subst hm
    have hdd : dd = 29 := by
      have a1 := daysInMonth_bounds k0 2
      have a2 := daysInMonth_bounds (a + 1) 2
      unfold daysInMonth at hv d2 a1 a2
      simp only [] at hv d2 a1 a2
      split at hv <;> split at d2 <;> omega
    subst hdd
    obtain ⟨L, hL1, hL2, hL⟩ := leap_in_8 a
    have v : ValidYmd L 2 29 := ⟨by omega, by omega, by omega, by simp [daysInMonth, hL]⟩
    refine ⟨L, _, hL1, hL2, ofYmd?_of_valid (by omega) (by omega) v, ?_⟩
    have := yearStart_le (a := a) (b := L) hL1
    unfold ymdRaw
    simp only [monthStart]
    omega

/-- declarative reading of `datedOk` for a single fixed day without a year -/
theorem datedOk_single_iff (m dd : Nat) (so eo : DateOffset) (d : Int) :
    datedOk (.fixed none m dd) so (.fixed none m dd) eo d = true ↔
      ∃ k, year d - yearSpan so eo ≤ k ∧ k ≤ year d + yearSpan so eo ∧
        ∃ f, ofYmd? k m dd = some f ∧ shift so f ≤ d ∧ d ≤ shift eo f := by
  unfold datedOk
  simp only [isFixedDate, and_self, if_true]
  rw [candidateYears_yearless _ _ _ d rfl rfl]
  simp only [List.any_eq_true, mem_yearsNear, exactInstance, Option.isNone_none, true_or, if_true]
  constructor
  · rintro ⟨k, hk, hm⟩
    cases hf : ofYmd? k m dd with
    | none => simp [hf] at hm
    | some f =>
      simp only [hf, Bool.and_eq_true, decide_eq_true_eq] at hm
      exact ⟨k, hk.1, hk.2, f, hf, hm.1, hm.2⟩
  · rintro ⟨k, hk1, hk2, f, hf, h1, h2⟩
    exact ⟨k, ⟨hk1, hk2⟩, by simp [hf, h1, h2]⟩

/-- facts about the occurrences of a single day shifted by offsets within ±30 000 000 days, on the years
-165 000 … 175 000 -/
structure SDFacts (m dd : Nat) (so eo : DateOffset) : Prop where
  /-- the shifts do not saturate -/
  sb : ∀ k f, -165000 ≤ k → k ≤ 175000 → ofYmd? k m dd = some f →
    (f + so.days - 6 ≤ shift so f ∧ shift so f ≤ f + so.days + 6) ∧
    (f + eo.days - 6 ≤ shift eo f ∧ shift eo f ≤ f + eo.days + 6)
  /-- occurrences of successive years are at least 364 days apart -/
  gap : ∀ k f k' f', -165000 ≤ k → k < k' → k' ≤ 175000 → ofYmd? k m dd = some f → ofYmd? k' m dd = some f' →
    f + 364 ≤ f'

theorem sdFacts (m dd : Nat) (so eo : DateOffset)
    (hss : -30000000 ≤ so.days ∧ so.days ≤ 30000000) (hes : -30000000 ≤ eo.days ∧ eo.days ≤ 30000000) :
    SDFacts m dd so eo := by
  constructor
  · intro k f k1 k2 hf
    obtain ⟨_, _, _, p1, p2⟩ := day_pos hf
    have := inYear_range ⟨k1, k2⟩ ⟨p1, p2⟩
    exact ⟨shift_bounds so f (by omega) (by rw [minDay_eq]; omega) (by rw [maxDay_eq]; omega),
      shift_bounds eo f (by omega) (by rw [minDay_eq]; omega) (by rw [maxDay_eq]; omega)⟩
  · intro k f k' f' k1 kk k2 hf hf'
    obtain ⟨_, a1, a2, _, _⟩ := day_pos hf
    obtain ⟨_, b1, b2, _, _⟩ := day_pos hf'
    have := yearStart_step k (k + 1) rfl
    have := yearStart_le (a := k + 1) (b := k') (by omega)
    omega

/-- THE SINGLE-DAY WINDOW THEOREM.  `c` being the year of `d - end offset`: some occurrence of the years
`c-1 … c-2+n` (`n ≥ 10`), shifted, contains `d` iff the specification selects `d`. -/
theorem single_window_iff (m dd : Nat) (so eo : DateOffset) (d : Int)
    (hss : -30000000 ≤ so.days ∧ so.days ≤ 30000000) (hes : -30000000 ≤ eo.days ∧ eo.days ≤ 30000000)
    (h1 : dateStart - 1 ≤ d) (h2 : d < dateEnd) (n : Nat) (hn : 10 ≤ n ∧ n ≤ 100) :
    (∃ r ∈ (yearRun (year (d - eo.days) - 1) n).filterMap (dayIv m dd so eo), r.1 ≤ d ∧ d ≤ r.2) ↔
      datedOk (.fixed none m dd) so (.fixed none m dd) eo d = true := by
  have hy : 1899 ≤ year d ∧ year d ≤ 9999 := year_window h1 h2
  have hw := yearSpan_bounds so eo hss hes
  have hwdef : yearSpan so eo = 3 + (so.days.natAbs + eo.days.natAbs) / 365 := yearSpan_small so eo hss hes
  have nE := year_sub_near d eo.days
  have iE : InY (year (d - eo.days)) (d - eo.days) := inY_year _
  have iD : InY (year d) d := inY_year d
  have F := sdFacts m dd so eo hss hes
  rw [datedOk_single_iff]
  generalize year (d - eo.days) = c at *
  generalize yearSpan so eo = w at *
  generalize year d = y at *
  simp only [List.mem_filterMap, mem_yearRun, dayIv, Option.map_eq_some_iff]
  constructor
  · rintro ⟨r, ⟨k, hk, f, hf, rfl⟩, hle, hge⟩
    simp only at hle hge
    obtain ⟨_, _, _, p1, p2⟩ := day_pos hf
    have sb := F.sb k f (by omega) (by omega) hf
    have := year_dist (a := k) (b := y) (p := f) (q := d) ⟨p1, p2⟩ iD (so.days.natAbs + eo.days.natAbs + 6)
      (by omega) (by omega)
    exact ⟨k, by omega, by omega, f, hf, hle, hge⟩
  · rintro ⟨k, hk1, hk2, f, hf, hle, hge⟩
    obtain ⟨_, _, _, p1, p2⟩ := day_pos hf
    have sb := F.sb k f (by omega) (by omega) hf
    -- the occurrence is not older than the year before `c`
    have hkc : c - 1 ≤ k := by
      by_cases h : k + 2 ≤ c
      · have := yearStart_le (a := k + 2) (b := c) h
        have := yearStart_step (k + 1) (k + 2) (by omega)
        unfold InY at iE
        omega
      · omega
    by_cases hk8 : k < c - 1 + n
    · exact ⟨_, ⟨k, ⟨hkc, hk8⟩, f, hf, rfl⟩, hle, hge⟩
    · -- a later occurrence: one of the years c+1 … c+8 does as well
      obtain ⟨k1, f1, a1, a2, hf1, hlate⟩ := day_exists_late m dd k f hf (c + 1)
        (by unfold minYear maxYear; omega)
      have sb1 := F.sb k1 f1 (by omega) (by omega) hf1
      have g := F.gap k1 f1 k f (by omega) (by omega) (by omega) hf1 hf
      unfold InY at iE
      exact ⟨_, ⟨k1, ⟨by omega, by omega⟩, f1, hf1, rfl⟩, by simp only; omega, by simp only; omega⟩

/-- the shifted occurrences of a run of years start in increasing order -/
theorem dayIv_sorted (m dd : Nat) (so eo : DateOffset)
    (hss : -30000000 ≤ so.days ∧ so.days ≤ 30000000) (hes : -30000000 ≤ eo.days ∧ eo.days ≤ 30000000)
    (a : Int) (n : Nat) (ha : -165000 ≤ a ∧ a + n ≤ 175001) :
    ((yearRun a n).filterMap (dayIv m dd so eo)).Pairwise (fun r r' => r.1 ≤ r'.1) := by
  have F := sdFacts m dd so eo hss hes
  unfold yearRun
  rw [List.filterMap_map, List.pairwise_filterMap]
  refine List.Pairwise.imp_of_mem ?_ (List.pairwise_lt_range (n := n))
  intro i j hin hjn hij r hr r' hr'
  simp only [List.mem_range] at hin hjn
  simp only [Function.comp, dayIv, Option.map_eq_some_iff] at hr hr'
  obtain ⟨f, hf, rfl⟩ := hr
  obtain ⟨f', hf', rfl⟩ := hr'
  have := F.sb (a + i) f (by omega) (by omega) hf
  have := F.sb (a + j) f' (by omega) (by omega) hf'
  have := F.gap (a + i) f (a + j) f' (by omega) (by omega) (by omega) hf hf'
  simp only
  omega

/-- Class (b): a single fixed day without a year — every day of 1899-12-31 … 9999-12-31, any offsets
within ±30 000 000 days. -/
theorem dated_single_eq (m dd : Nat) (so eo : DateOffset) (d : Int)
    (hso : so.wday.wf = true) (hss : -30000000 ≤ so.days ∧ so.days ≤ 30000000)
    (heo : eo.wday.wf = true) (hes : -30000000 ≤ eo.days ∧ eo.days ≤ 30000000)
    (h1 : dateStart - 1 ≤ d) (h2 : d < dateEnd) :
    MonthdayRange.filter (.date (.fixed none m dd) so (.fixed none m dd) eo) d
      = .ok (datedOk (.fixed none m dd) so (.fixed none m dd) eo d) := by
  have hy : 1899 ≤ year d ∧ year d ≤ 9999 := year_window h1 h2
  have hdw := window_days h1 h2
  have nE := year_sub_near d eo.days
  have eE := yearBeforeOffset_eq d eo hes (by omega)
  have hfind := singleDayFind_eq m dd so eo d hso heo (yearRun (year (d - eo.days) - 1) 10)
  rw [filter_single none m dd so eo d _ (by simp only []; rw [eE, yearsAround_eq_run]; exact hfind)]
  congr 1
  rw [Bool.eq_iff_iff, find_contains_iff _ d (dayIv_sorted m dd so eo hss hes _ 10 (by omega)),
    single_window_iff m dd so eo d hss hes h1 h2 10 (by omega)]


/-- Class (b'): a single fixed day WITH a year (`2024 Dec 25`, `2021 Feb 29`, also with offsets on
both sides): the day of that year, if it exists, and nothing else.  No condition at all: any day, any
offsets. -/
theorem dated_single_year_eq (n m dd : Nat) (so eo : DateOffset) (d : Int)
    (hso : so.wday.wf = true) (heo : eo.wday.wf = true) :
    MonthdayRange.filter (.date (.fixed (some n) m dd) so (.fixed (some n) m dd) eo) d
      = .ok (datedOk (.fixed (some n) m dd) so (.fixed (some n) m dd) eo d) := by
  have hfind := singleDayFind_eq m dd so eo d hso heo [(n : Int)]
  rw [filter_single (some n) m dd so eo d _ (by simp only []; exact hfind)]
  congr 1
  rw [Bool.eq_iff_iff]
  unfold datedOk
  simp only [isFixedDate, and_self, if_true, List.any_eq_true]
  have hmem : (n : Int) ∈ candidateYears (.fixed (some n) m dd) (.fixed (some n) m dd) (yearSpan so eo) d := by
    unfold candidateYears
    simp only [specYear, Option.map_some, List.mem_append, mem_yearsNear]
    right; omega
  simp only [List.filterMap_cons, List.filterMap_nil, dayIv]
  cases hf : ofYmd? (n : Int) m dd with
  | none =>
    simp only [Option.map_none, List.find?_nil, ivContains, Bool.false_eq_true, false_iff, not_exists, not_and]
    intro k _
    by_cases hkn : (n : Int) = k
    · subst hkn; simp [exactInstance, hf]
    · simp [exactInstance, hkn]
  | some f =>
    simp only [Option.map_some, List.find?_cons, List.find?_nil]
    constructor
    · intro h
      refine ⟨n, hmem, ?_⟩
      by_cases hge : shift eo f ≥ d
      · simp only [hge, decide_true, ivContains, Bool.and_eq_true, decide_eq_true_eq] at h
        simp only [exactInstance, Option.isNone_some, Bool.false_eq_true, Option.map_some, or_true, if_true, hf,
          Bool.and_eq_true, decide_eq_true_eq]
        exact ⟨h.1, hge⟩
      · simp [hge, ivContains] at h
    · rintro ⟨k, _, hm⟩
      by_cases hkn : (n : Int) = k
      · subst hkn
        simp only [exactInstance, Option.isNone_some, Bool.false_eq_true, Option.map_some, or_true, if_true, hf,
          Bool.and_eq_true, decide_eq_true_eq] at hm
        have hge : shift eo f ≥ d := hm.2
        simp only [hge, decide_true, ivContains, Bool.and_eq_true, decide_eq_true_eq]
        exact ⟨hm.1, trivial⟩
      · simp [exactInstance, hkn] at hm

end OH.Proofs.EvalSpec
