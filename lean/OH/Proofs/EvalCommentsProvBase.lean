import OH.Props.C17
/-
C17, expression level (part 1 of 3): what a single rule contributes on a day, and a generic
invariant threaded through the loop body of `schedule_at` and the fold over the rules.
-/
namespace OH.Proofs.EvalCommentsProv
open OH.Model OH.Model.Cal OH.Model.Schedule OH.Spec.Schedule OH.Proofs.Schedule OH.Props.C14
open OH.Proofs.SortedVec

/-! ### vocabulary -/

/-- the day selector of `r` matches `d`, or the day before (spans continued past midnight) -/
def AppliesOn (ctx : Ctx) (r : Rule) (d : Day) : Prop :=
  r.day.filter ctx d = .ok true ∨ r.day.filter ctx (d - 1) = .ok true

/-- the day selector of `r` matches neither `d` nor the day before (the evaluator only looks at the
day before when it is representable: `pred_opt`) -/
def NoMatch (ctx : Ctx) (r : Rule) (d : Day) : Prop :=
  r.day.filter ctx d = .ok false ∧ ∀ p, pred? d = some p → r.day.filter ctx p = .ok false

/-- every rule carries a strictly sorted (hence duplicate-free) comment list — what the parser builds
(`UniqueSortedVec::from`, `OH.Props.C20.fromVec_sorted`) -/
def SortedComments (e : Expr) : Prop := ∀ r ∈ e, Sorted r.comments

/-- a property of the schedule held in the loop state of `schedule_at`, if any -/
def OptAll (P : Schedule → Prop) (o : Option Schedule) : Prop := ∀ s, o = some s → P s

theorem optAll_none (P : Schedule → Prop) : OptAll P none := fun _ h => by cases h

theorem optAll_some {P : Schedule → Prop} {s : Schedule} (h : P s) : OptAll P (some s) :=
  fun _ e => by cases e; exact h

theorem pred?_eq {d p : Day} (h : pred? d = some p) : p = d - 1 := by
  unfold pred? at h
  split at h
  · cases h; rfl
  · cases h

theorem cunion_self {c : List String} (h : Sorted c) : cunion c c = c := OH.Props.C20.union_idem h

/-! ### one rule on one day -/

theorem fromRanges_kind (rs : List (Nat × Nat)) (k : Kind) (c : List String) :
    ∀ t ∈ fromRanges rs k c, t.kind = k := by
  intro t ht
  have hw := fromRanges_wf rs k c
  have hne := wf_nonempty _ hw t ht
  have h1 := stateAt_of_mem _ hw t ht t.s ⟨Nat.le_refl _, hne⟩
  rw [fromRanges_covers] at h1
  unfold fromSpec at h1
  split at h1
  · exact (Option.some.inj h1).symm
  · cases h1

/-- the kinds of `a.addition(b)` are kinds of `a` or of `b` -/
theorem addition_kind (a b : Schedule) (ha : WF a) (hb : WF b) (k : Kind)
    (ka : ∀ t ∈ a, t.kind = k) (kb : ∀ t ∈ b, t.kind = k) : ∀ t ∈ addition a b, t.kind = k := by
  intro t ht
  have hw := addition_wf a b ha hb
  have hne := wf_nonempty _ hw t ht
  have h1 := stateAt_of_mem _ hw t ht t.s ⟨Nat.le_refl _, hne⟩
  rw [addition_state a b ha hb] at h1
  cases hsb : stateAt b t.s with
  | some k' =>
    rw [hsb] at h1
    obtain ⟨u, hu, _, _, e⟩ := stateAt_eq_some b t.s k' hsb
    have : k' = t.kind := by simpa using h1
    rw [← this, ← e]; exact kb u hu
  | none =>
    rw [hsb] at h1
    obtain ⟨u, hu, _, _, e⟩ := stateAt_eq_some a t.s t.kind (by simpa using h1)
    rw [← e]; exact ka u hu

/-- every range carries exactly the comments `c` -/
def AllComments (c : List String) (s : Schedule) : Prop := ∀ t ∈ s, t.comments = c

theorem addition_allComments (a b : Schedule) (c : List String) (hc : Sorted c)
    (ua : AllComments c a) (ub : AllComments c b) : AllComments c (addition a b) :=
  addition_G (fun x => x = c) (fun x y hx hy => by rw [hx, hy]; exact cunion_self hc) a b ua ub

/-- WHAT ONE RULE CONTRIBUTES.  If `rule_sequence_schedule_at` returns a schedule for rule `r` on day
`d`, then `r` applies on `d` or on `d − 1`, the schedule is well-formed and coalesced, every range
has the kind of `r` and (the comment list of `r` being sorted and duplicate-free) carries exactly the
comments of `r`. -/
theorem ruleScheduleAt_some (ctx : Ctx) (r : Rule) (d : Day) {s : Schedule}
    (h : ruleScheduleAt ctx r d = .ok (some s)) :
    AppliesOn ctx r d ∧ WF s ∧ Coalesced s ∧ (∀ t ∈ s, t.kind = r.kind) ∧
      (Sorted r.comments → AllComments r.comments s) := by
  have F := fun rs (hc : Sorted r.comments) =>
    fromRanges_comments rs r.kind r.comments (cunion_self hc)
  have K := fun rs => fromRanges_kind rs r.kind r.comments
  have W := fun rs => fromRanges_wf rs r.kind r.comments
  have C := fun rs => fromRanges_coalesced rs r.kind r.comments
  unfold ruleScheduleAt at h
  unfold AppliesOn
  generalize hA : r.day.filter ctx d = A at h ⊢
  generalize intervalsAt ctx r.time d = B at h
  cases hp : pred? d with
  | none =>
    rw [hp] at h
    rcases A with _ | _ | _ <;> rcases B with _ | _ <;>
      simp only [bind, Except.bind, pure, Except.pure, Bool.false_eq_true, if_false, if_true,
        reduceCtorEq, Except.ok.injEq, Option.some.injEq] at h
    all_goals subst h
    all_goals exact ⟨Or.inl rfl, W _, C _, K _, F _⟩
  | some p =>
    rw [hp] at h
    have ep := pred?_eq hp
    subst ep
    dsimp only at h
    generalize hA' : r.day.filter ctx (d - 1) = A' at h ⊢
    generalize intervalsAtNextDay ctx r.time (d - 1) = B' at h
    rcases A with _ | _ | _ <;> rcases B with _ | _ <;> rcases A' with _ | _ | _ <;>
      rcases B' with _ | _ <;>
      simp only [bind, Except.bind, pure, Except.pure, Bool.false_eq_true, if_false, if_true,
        reduceCtorEq, Except.ok.injEq, Option.some.injEq] at h
    all_goals subst h
    all_goals first
      | exact ⟨Or.inl rfl, W _, C _, K _, F _⟩
      | exact ⟨Or.inr rfl, W _, C _, K _, F _⟩
      | exact ⟨Or.inl rfl, addition_wf _ _ (W _) (W _), addition_coalesced _ _ (W _) (C _) (W _),
          addition_kind _ _ (W _) (W _) _ (K _) (K _),
          fun hc => addition_allComments _ _ _ hc (F _ hc) (F _ hc)⟩

/-- a rule whose day selector matches neither `d` nor `d − 1` contributes nothing -/
theorem ruleScheduleAt_noMatch (ctx : Ctx) (r : Rule) (d : Day) (h : NoMatch ctx r d) :
    ruleScheduleAt ctx r d = .ok none := by
  obtain ⟨h1, h2⟩ := h
  unfold ruleScheduleAt
  rw [h1]
  cases hp : pred? d with
  | none => rfl
  | some p =>
    dsimp only
    rw [h2 p hp]
    rfl

/-! ### the loop body and the fold, for an arbitrary invariant -/

theorem optAll_additionOr {P P' Q : Schedule → Prop}
    (hkeep : ∀ a, P a → P' a) (hnew : ∀ b, Q b → P' b)
    (hadd : ∀ a b, P a → Q b → P' (addition a b))
    {p c : Option Schedule} : OptAll P p → OptAll Q c →
    OptAll P' (match p, c with
        | some p, some c => some (Schedule.addition p c)
        | p, c => p <|> c) := by
  intro hp hc
  cases p <;> cases c
  · exact optAll_none _
  · exact optAll_some (hnew _ (hc _ rfl))
  · exact optAll_some (hkeep _ (hp _ rfl))
  · exact optAll_some (hadd _ _ (hp _ rfl) (hc _ rfl))

/-- THE LOOP BODY OF `schedule_at`, for any three schedule predicates: `P` holds before, `Q` holds
for what the rule contributes, `P'` is wanted after.  The new state is the old schedule, the
contribution of the rule, or the `addition` of both — nothing else. -/
theorem scheduleStep_inv {P P' Q : Schedule → Prop}
    (hkeep : ∀ a, P a → P' a) (hnew : ∀ b, Q b → P' b)
    (hadd : ∀ a b, P a → Q b → P' (addition a b))
    {ctx : Ctx} {d : Day} {st st' : Bool × Option Schedule} {r : Rule}
    (hst : OptAll P st.2) (hr : ∀ s, ruleScheduleAt ctx r d = .ok (some s) → Q s)
    (h : scheduleStep ctx d st r = .ok st') : OptAll P' st'.2 := by
  obtain ⟨pm, pe⟩ := st
  simp only at hst
  unfold scheduleStep at h
  cases hf : r.day.filter ctx d with
  | error m => rw [hf] at h; cases h
  | ok cm =>
    cases hc : ruleScheduleAt ctx r d with
    | error m => rw [hf, hc] at h; cases h
    | ok ce =>
      rw [hf, hc] at h
      have hce : OptAll Q ce := fun s hs => hr s (by rw [hc, hs])
      have hA := optAll_additionOr hkeep hnew hadd hst hce
      have hK : OptAll P' pe := fun s hs => hkeep s (hst s hs)
      have hN : OptAll P' ce := fun s hs => hnew s (hce s hs)
      simp only [bind, Except.bind] at h
      cases hop : r.op <;> cases hk : r.kind <;> rw [hop, hk] at h <;>
        simp only [pure, Except.pure, Except.ok.injEq] at h
      case fallback.open | fallback.closed | fallback.unknown =>
        split at h <;> (cases h; assumption)
      case normal.open | normal.unknown =>
        subst h
        show OptAll P' (if cm = true then ce else _)
        split
        · exact hN
        · exact hA
      all_goals (subst h; exact hA)

theorem foldM'_inv {σ α} (I : σ → Prop) (f : σ → α → M σ) (l : List α)
    (hstep : ∀ s x s', x ∈ l → I s → f s x = .ok s' → I s')
    (s s' : σ) (hs : I s) (h : foldM' f s l = .ok s') : I s' := by
  induction l generalizing s with
  | nil => cases h; exact hs
  | cons x xs ih =>
    simp only [foldM'] at h
    cases hx : f s x with
    | error m => rw [hx] at h; cases h
    | ok s1 =>
      rw [hx] at h
      exact ih (fun a b c hb => hstep a b c (List.mem_cons_of_mem _ hb)) s1
        (hstep s x s1 (by simp) hs hx) h

/-- a single predicate kept by `addition` and true of everything the rules contribute is true of the
schedule of the day -/
theorem scheduleAt_inv {P : Schedule → Prop} (hnil : P [])
    (hadd : ∀ a b, P a → P b → P (addition a b))
    {ctx : Ctx} {e : Expr} {d : Day}
    (hr : ∀ r ∈ e, ∀ s, ruleScheduleAt ctx r d = .ok (some s) → P s)
    {s : Schedule} (h : scheduleAt ctx e d = .ok s) : P s := by
  unfold scheduleAt at h
  split at h
  · cases h; exact hnil
  · cases hf : foldM' (scheduleStep ctx d) (false, none) e with
    | error m => rw [hf] at h; cases h
    | ok st =>
      rw [hf] at h
      obtain ⟨m, ev⟩ := st
      have hI : OptAll P ev :=
        foldM'_inv (fun st => OptAll P st.2) (scheduleStep ctx d) e
          (fun s x s' hx hs hstep =>
            scheduleStep_inv (fun _ h => h) (fun _ h => h) hadd hs (hr x hx) hstep)
          (false, none) (m, ev) (optAll_none _) hf
      simp only [bind, Except.bind, pure, Except.pure, Except.ok.injEq] at h
      subst h
      cases ev with
      | none => exact hnil
      | some s => exact hI s rfl

end OH.Proofs.EvalCommentsProv
