import OH.Proofs.HintDated
import OH.Proofs.EvalSpecDatedClass
/-
Layer B — dated ranges without a year on the start (`MonthdayRange.date`), soundness of the hint for
day offsets of ANY size within ±30 000 000 days (±300 000 days when a bound is Easter).

Since the search windows of `MonthdayRange::Date` are centred on the year the bound has to come from
(`yearBeforeOffset`: the year of `d - day offset`), the filter is the specification's `datedOk` on every
day (`OH.Proofs.EvalSpec.dated_yearless_eq`, `dated_single_eq`) and the hint, which reads the same
interval list on longer windows (`c-2 … c+10`, `c-1 … c+10` for a single day), is sound:

 * windowed general path: on a FIXED interval list the answer of `next_change_from_intervals` bounds a
   stretch on which `is_open_from_intervals` is constant (`intervals_sound`); the hint is at most three
   years away (`nextChange_le`), so its thirteen-year windows are adequate for every day before it
   (`dated_window_eq`) and the list gives the specification's answer on all of them;
 * single-day path: the first occurrence that does not end before `d` has the least start among those
   (`find_sorted_spec`); the specification's answer on the days before the hint follows directly.
-/
namespace OH.Proofs.EvalSpec
open OH.Model OH.Model.Cal
open OH.Spec (shift dateInstance exactInstance specYear datedOk candidateYears yearsNear yearSpan isFixedDate datedDefined)

/-! ### a fixed interval list -/

theorem nextChange_cons (d : Int) (r : Int × Int) (ivs : List (Int × Int)) :
    nextChangeFromIntervals d (r :: ivs) =
      if d ≤ r.2 then (if r.1 ≤ d then (succ? r.2).getD dateEnd else r.1) else nextChangeFromIntervals d ivs := by
  simp only [nextChangeFromIntervals, List.find?_cons]
  by_cases h : d ≤ r.2
  · simp [h]
  · simp [h]

theorem nextChange_nil (d : Int) : nextChangeFromIntervals d [] = dateEnd := by
  simp [nextChangeFromIntervals]

/-- the answer of `next_change_from_intervals` is after the day -/
theorem nextChange_gt (L : List (Int × Int)) (d : Int) (hd : d < dateEnd) : d < nextChangeFromIntervals d L := by
  induction L with
  | nil => rw [nextChange_nil]; exact hd
  | cons r rs ih =>
    rw [nextChange_cons]
    split
    · split
      · cases hs : succ? r.2 with
        | none => simpa using hd
        | some x => have := succ?_eq_some_iff.1 hs; simp only [Option.getD_some]; omega
      · omega
    · exact ih

/-- On a fixed list of intervals, `is_open_from_intervals` is constant from `d` up to the answer of
`next_change_from_intervals` — for lists whose intervals are not inverted, except for those ending at
`DATE_END` (a start after `DATE_END`) and those starting at or before `d` (the `(DATE_START, end)`
intervals of leftover ends). -/
theorem intervals_sound (L : List (Int × Int)) (d d' : Int)
    (hwf : ∀ r ∈ L, r.1 ≤ r.2 ∨ dateEnd ≤ r.2 ∨ r.1 ≤ d)
    (h1 : d ≤ d') (h2 : d' < nextChangeFromIntervals d L) (h3 : d' < dateEnd) :
    isOpenFromIntervals d' L = isOpenFromIntervals d L := by
  induction L with
  | nil => rfl
  | cons r rs ih =>
    have hr := hwf r (by simp)
    rw [nextChange_cons] at h2
    rw [isOpen_cons, isOpen_cons]
    by_cases hd : d ≤ r.2
    · rw [if_pos hd] at h2 ⊢
      by_cases hs : r.1 ≤ d
      · rw [if_pos hs] at h2
        have hd' : d' ≤ r.2 := by
          cases hsu : succ? r.2 with
          | none => have := succ?_eq_none_iff.1 hsu; have := maxDay_eq; have := dateEnd_eq; omega
          | some x => have := succ?_eq_some_iff.1 hsu; rw [hsu] at h2; simp only [Option.getD_some] at h2; omega
        rw [if_pos hd']
        have : r.1 ≤ d' := by omega
        simp [hs, this]
      · rw [if_neg hs] at h2
        have hd' : d' ≤ r.2 := by omega
        rw [if_pos hd']
        have : ¬ r.1 ≤ d' := by omega
        simp [hs, this]
    · rw [if_neg hd] at h2 ⊢
      have hd' : ¬ d' ≤ r.2 := by omega
      rw [if_neg hd']
      exact ih (fun x hx => hwf x (by simp [hx])) h2

/-- the intervals built by `intervals_from_bounds` are not inverted, except those ending at `DATE_END` -/
theorem intervalsGo_wf (ss es : List Int) :
    ∀ r ∈ intervalsGo ss es, r.1 ≤ r.2 ∨ r.2 = dateEnd := by
  fun_induction intervalsGo ss es with
  | case1 => simp
  | case2 s ss es hdw ih =>
    intro r hr
    rcases List.mem_cons.1 hr with rfl | hr
    · right; rfl
    · exact ih r hr
  | case3 s ss es e et hdw hse ih =>
    intro r hr
    rcases List.mem_cons.1 hr with rfl | hr
    · left; exact dropWhile_head_ge s es e et hdw
    · exact ih r hr
  | case4 s ss es e et hdw hse ih =>
    intro r hr
    rcases List.mem_cons.1 hr with rfl | hr
    · left; exact dropWhile_head_ge s es e et hdw
    · exact ih r hr

/-- the answer of `next_change_from_intervals` on paired bounds is at most the later of any start after `d`
and the day after any end at or after `d` -/
theorem nextChange_le (ss es : List Int) (d : Int) (hdd : d < dateEnd) (hs : ss.Pairwise (· < ·)) (he : es.Pairwise (· < ·))
    (s' : Int) (hs' : s' ∈ ss) (hds : d < s') (e' : Int) (he' : e' ∈ es) (hde : d ≤ e') (hmax : e' < maxDay) :
    nextChangeFromIntervals d (intervalsGo ss es) ≤ max s' (e' + 1) := by
  fun_induction intervalsGo ss es with
  | case1 => simp at hs'
  | case2 s ss es hdw ih =>
    -- every end lies before `s`: then `e'` does, and `d < s`
    have := mem_dropWhile_or s es e' he'
    rw [hdw] at this
    have hlt : e' < s := by simpa using this
    rw [nextChange_cons]
    have hdE : d ≤ dateEnd := by omega
    rw [if_pos (by simpa using hdE), if_neg (by omega)]
    rw [List.pairwise_cons] at hs
    rcases List.mem_cons.1 hs' with rfl | h
    · omega
    · have := hs.1 s' h; omega
  | case3 s ss es e et hdw hse ih =>
    have hge := dropWhile_head_ge s es e et hdw
    have hmem := mem_dropWhile_or s es
    have hpw : (e :: et).Pairwise (· < ·) := hdw ▸ he.sublist (List.dropWhile_sublist _)
    rw [hdw] at hmem
    rw [List.pairwise_cons] at hs hpw
    have hse : s = e := by simpa using hse
    subst hse
    rw [nextChange_cons]
    by_cases hd : d ≤ s
    · rw [if_pos (by simpa using hd)]
      have hss' : s ≤ s' := by
        rcases List.mem_cons.1 hs' with rfl | h
        · omega
        · have := hs.1 s' h; omega
      split
      · -- `d = s`: the answer is the day after `s`
        cases hsu : succ? s with
        | none => have := succ?_eq_none_iff.1 hsu; omega
        | some x => have := succ?_eq_some_iff.1 hsu; simp only [Option.getD_some]; omega
      · omega
    · rw [if_neg (by simpa using hd)]
      have hs'' : s' ∈ ss := by
        rcases List.mem_cons.1 hs' with rfl | h
        · omega
        · exact h
      have he'' : e' ∈ et := by
        rcases hmem e' he' with h | h
        · rcases List.mem_cons.1 h with rfl | h
          · omega
          · exact h
        · omega
      exact ih hs.2 hpw.2 hs'' he''
  | case4 s ss es e et hdw hse ih =>
    have hge := dropWhile_head_ge s es e et hdw
    have hmem := mem_dropWhile_or s es
    have hpw : (e :: et).Pairwise (· < ·) := hdw ▸ he.sublist (List.dropWhile_sublist _)
    rw [hdw] at hmem
    have hpw' := hpw
    rw [List.pairwise_cons] at hs hpw'
    rw [nextChange_cons]
    by_cases hd : d ≤ e
    · rw [if_pos (by simpa using hd)]
      have hss' : s ≤ s' := by
        rcases List.mem_cons.1 hs' with rfl | h
        · omega
        · have := hs.1 s' h; omega
      split
      · -- `s ≤ d ≤ e`: `e` is the first end at or after `s`, hence at most `e'`
        have hee' : e ≤ e' := by
          rcases hmem e' he' with h | h
          · rcases List.mem_cons.1 h with rfl | h
            · omega
            · have := hpw'.1 e' h; omega
          · omega
        cases hsu : succ? e with
        | none => have := succ?_eq_none_iff.1 hsu; omega
        | some x => have := succ?_eq_some_iff.1 hsu; simp only [Option.getD_some]; omega
      · omega
    · rw [if_neg (by simpa using hd)]
      have hs'' : s' ∈ ss := by
        rcases List.mem_cons.1 hs' with rfl | h
        · omega
        · exact h
      have he'' : e' ∈ e :: et := by
        rcases hmem e' he' with h | h
        · exact h
        · omega
      exact ih hs.2 hpw hs'' he''

/-! ### S3: the windowed general path -/

theorem yearStart_add2_le (a : Int) : yearStart (a + 2) ≤ yearStart a + 732 := by
  unfold yearStart; omega

theorem yearStart_add4_ge (a : Int) : yearStart a + 1460 ≤ yearStart (a + 4) := by
  unfold yearStart; omega

theorem year_le_of_le_yearStart {x k : Int} (h : x ≤ yearStart (k + 1)) : year x ≤ k := by
  have := year_spec x
  have : yearStart (year x) < yearStart (k + 1) := by omega
  have := yearStart_lt_iff.1 this
  omega

/-- the generic (windowed) branch of `MonthdayRange::Date::next_change_hint` -/
theorem hint_generic (s : DateSpec) (so : DateOffset) (e : DateSpec) (eo : DateOffset) (d : Int)
    (hsy : specYear s = none) (hns : ¬ (s = e ∧ isFixedDate s = true)) (ss es : List Int)
    (h1 : boundsOn s so true (yearsAround (yearBeforeOffset d so) 2 10) = .ok ss)
    (h2 : boundsOn e eo false (yearsAround (yearBeforeOffset d eo) 2 10) = .ok es) :
    MonthdayRange.hint (.date s so e eo) d =
      .ok (some (nextChangeFromIntervals d (intervalsFromBounds ss es))) := by
  have hsi := singleInterval_none s so e eo hsy
  unfold MonthdayRange.hint
  simp only []
  split
  · rename_i fy m dd heq
    exfalso; apply hns
    simp only [beq_iff_eq] at heq
    exact ⟨heq, rfl⟩
  · simp only [hsi, h1, h2, ok_bind, pure_eq_ok]

/-- **S3**: two yearless bounds (not a single fixed day), day offsets within ±30 000 000 days (`L`: the years
`year d ± yearSpan` are years the bounds are known on): the hint is sound on every day of the evaluation
window, whatever the size of the shifts. -/
theorem dated_yearless_hintOK {L : Int} (s : DateSpec) (so : DateOffset) (e : DateSpec) (eo : DateOffset)
    (hs : BoundOK L s so) (he : BoundOK L e eo) (hL : L + yearSpan so eo ≤ 1899)
    (hsy : specYear s = none) (hey : specYear e = none)
    (hns : ¬ (s = e ∧ isFixedDate s = true)) (d : Int) (hd1 : dateStart ≤ d) (hd2 : d < dateEnd) :
    HintOK (MonthdayRange.date s so e eo).filter (MonthdayRange.date s so e eo).hint d := by
  have hy : 1899 ≤ year d ∧ year d ≤ 9999 := year_window (by omega) hd2
  have hdw := window_days (d := d) (by omega) hd2
  have nS := year_sub_near d so.days
  have nE := year_sub_near d eo.days
  have hss := hs.small
  have hes := he.small
  have hwdef : yearSpan so eo = 3 + (so.days.natAbs + eo.days.natAbs) / 365 := yearSpan_small so eo hss hes
  have eS := yearBeforeOffset_eq d so hs.small (by omega)
  have eE := yearBeforeOffset_eq d eo he.small (by omega)
  have iS : InY (year (d - so.days)) (d - so.days) := inY_year _
  have iE : InY (year (d - eo.days)) (d - eo.days) := inY_year _
  have b1 : boundsOn s so true (yearsAround (yearBeforeOffset d so) 2 10)
      = .ok ((yearRun (year (d - so.days) - 2) 13).filterMap (proj s so true)) := by
    rw [eS, yearsAround_eq_run, boundsOn_eq hs true _ (fun k hk => by
      rw [mem_yearRun] at hk; exact ⟨by omega, Or.inl hsy⟩)]
    rfl
  have b2 : boundsOn e eo false (yearsAround (yearBeforeOffset d eo) 2 10)
      = .ok ((yearRun (year (d - eo.days) - 2) 13).filterMap (proj e eo false)) := by
    rw [eE, yearsAround_eq_run, boundsOn_eq he false _ (fun k hk => by
      rw [mem_yearRun] at hk; exact ⟨by omega, Or.inl hey⟩)]
    rfl
  refine HintOK.of_some (hint_generic s so e eo d hsy hns _ _ b1 b2) (nextChange_gt _ d hd2) ?_
  intro d' a b c
  rw [dated_yearless_eq s so e eo d' hs he hL hsy hey hns (by omega) c,
    dated_yearless_eq s so e eo d hs he hL hsy hey hns (by omega) hd2]
  congr 1
  -- the projections
  have mS := projT_stepMono hs hsy true
  have mE := projT_stepMono he hey false
  have posS := fun k (hk : L ≤ k ∧ k ≤ 175000) => projT_pos hs hsy true k hk
  have posE := fun k (hk : L ≤ k ∧ k ≤ 175000) => projT_pos he hey false k hk
  have rS := pos_range s hs.wf
  have rE := pos_range e he.wf
  have gtS := lt_projT_of_year hs hsy true d _ (year (d - so.days) + 2) iS (by omega) (by omega)
  have gtE := lt_projT_of_year he hey false d _ (year (d - eo.days) + 2) iE (by omega) (by omega)
  have pS2 := posS (year (d - so.days) + 2) (by omega)
  have pE2 := posE (year (d - eo.days) + 2) (by omega)
  generalize hys : year (d - so.days) = ys at *
  generalize hye : year (d - eo.days) = ye at *
  have fS := run_filterMap (proj s so true) (projT s so true) (ys - 2) 13
    (fun k a b => proj_eq_projT s so true hs.wf hsy k (hs.yr (by omega)))
  have fE := run_filterMap (proj e eo false) (projT e eo false) (ye - 2) 13
    (fun k a b => proj_eq_projT e eo false he.wf hey k (he.yr (by omega)))
  have sortS := run_map_sorted (projT s so true) L 175000 (ys - 2) 13 mS (by omega) (by omega)
  have sortE := run_map_sorted (projT e eo false) L 175000 (ye - 2) 13 mE (by omega) (by omega)
  -- the hint is at most 1135 days away
  have hbound : d' ≤ d + 1134 := by
    rw [fS, fE, intervalsFromBounds, ensureIncreasing_of_sorted _ sortS, ensureIncreasing_of_sorted _ sortE] at b
    have := nextChange_le _ _ d hd2 sortS sortE (projT s so true (ys + 2))
      (List.mem_map.2 ⟨ys + 2, (mem_yearRun _ _ _).2 ⟨by omega, by omega⟩, rfl⟩) gtS
      (projT e eo false (ye + 2))
      (List.mem_map.2 ⟨ye + 2, (mem_yearRun _ _ _).2 ⟨by omega, by omega⟩, rfl⟩) (by omega)
      (by
        have := yearStart_le (a := ye + 2) (b := 175000) (by omega)
        have := yearStart_hi
        have := yearStart_step 175000 175001 rfl
        rw [maxDay_eq]
        simp only [shiftLo, shiftHi] at pE2
        omega)
    have := yearStart_add2_le ys
    have := yearStart_add2_le ye
    unfold InY at iS iE
    simp only [shiftLo, shiftHi] at pS2 pE2
    omega
  have uS : year (d' - so.days) ≤ ys + 4 := by
    apply year_le_of_le_yearStart
    have := yearStart_add4_ge (ys + 1)
    rw [show ys + 1 + 4 = ys + 4 + 1 by omega] at this
    unfold InY at iS
    omega
  have uE : year (d' - eo.days) ≤ ye + 4 := by
    apply year_le_of_le_yearStart
    have := yearStart_add4_ge (ye + 1)
    rw [show ye + 1 + 4 = ye + 4 + 1 by omega] at this
    unfold InY at iE
    omega
  have lS : ys ≤ year (d' - so.days) := by rw [← hys]; exact year_mono (by omega)
  have lE : ye ≤ year (d' - eo.days) := by rw [← hye]; exact year_mono (by omega)
  rw [← dated_window_eq s so e eo d' hs he hL hsy hey hns (by omega) c (ys - 2) 13 (ye - 2) 13 (by omega) (by omega)
      (by omega) (by omega) (by omega) (by omega),
    ← dated_window_eq s so e eo d hs he hL hsy hey hns (by omega) hd2 (ys - 2) 13 (ye - 2) 13 (by omega) (by omega)
      (by omega) (by omega) (by omega) (by omega)]
  apply intervals_sound _ d d' ?_ a b c
  intro r hr
  rw [intervalsFromBounds] at hr
  rcases intervalsGo_wf _ _ r hr with h | h
  · exact Or.inl h
  · exact Or.inr (Or.inl (by omega))

/-! ### S2: the single-day path without a year -/

/-- on a list sorted by starts, the first interval that ends at or after `d` has the least start among
those that do -/
theorem find_sorted_spec (G : List (Int × Int)) (d : Int) (hs : G.Pairwise (fun r r' => r.1 ≤ r'.1)) :
    match G.find? (fun r => decide (r.2 ≥ d)) with
    | none => ∀ r ∈ G, r.2 < d
    | some r0 => r0 ∈ G ∧ r0.2 ≥ d ∧ ∀ r ∈ G, r.2 ≥ d → r0.1 ≤ r.1 := by
  induction G with
  | nil => simp
  | cons x xs ih =>
    rw [List.pairwise_cons] at hs
    simp only [List.find?_cons]
    by_cases hx : x.2 ≥ d
    · rw [show decide (x.2 ≥ d) = true from decide_eq_true hx]
      refine ⟨by simp, hx, fun r hr _ => ?_⟩
      rcases List.mem_cons.1 hr with rfl | hr'
      · omega
      · exact hs.1 r hr'
    · rw [show decide (x.2 ≥ d) = false from decide_eq_false hx]
      have := ih hs.2
      simp only []
      cases hf : xs.find? (fun r => decide (r.2 ≥ d)) with
      | none =>
        rw [hf] at this
        intro r hr
        rcases List.mem_cons.1 hr with rfl | hr'
        · omega
        · exact this r hr'
      | some r0 =>
        rw [hf] at this
        refine ⟨by simp [this.1], this.2.1, fun r hr hr2 => ?_⟩
        rcases List.mem_cons.1 hr with rfl | hr'
        · omega
        · exact this.2.2 r hr' hr2

/-- the single-day branch of `MonthdayRange::Date::next_change_hint`, without a year -/
theorem hint_single (m dd : Nat) (so eo : DateOffset) (d : Int) (res : Option (Int × Int))
    (h : singleDayFind m dd so eo d (yearsAround (yearBeforeOffset d eo) 1 10) = .ok res) :
    MonthdayRange.hint (.date (.fixed none m dd) so (.fixed none m dd) eo) d = .ok (some (sdNext d res)) := by
  unfold MonthdayRange.hint
  simp only [beq_self_eq_true]
  simp only [h, ok_bind]
  cases res <;> rfl

/-- an occurrence that contains the day is one the specification looks at -/
theorem sd_contains_spec (m dd : Nat) (so eo : DateOffset)
    (hss : -30000000 ≤ so.days ∧ so.days ≤ 30000000) (hes : -30000000 ≤ eo.days ∧ eo.days ≤ 30000000)
    (x : Int) (k f : Int) (hk : -165000 ≤ k ∧ k ≤ 175000) (hf : ofYmd? k m dd = some f)
    (h1 : shift so f ≤ x) (h2 : x ≤ shift eo f) :
    datedOk (.fixed none m dd) so (.fixed none m dd) eo x = true := by
  have hwdef : yearSpan so eo = 3 + (so.days.natAbs + eo.days.natAbs) / 365 := yearSpan_small so eo hss hes
  have F := sdFacts m dd so eo hss hes
  obtain ⟨_, _, _, p1, p2⟩ := day_pos hf
  have sb := F.sb k f hk.1 hk.2 hf
  have := year_dist (a := k) (b := year x) (p := f) (q := x) ⟨p1, p2⟩ (inY_year x)
    (so.days.natAbs + eo.days.natAbs + 6) (by omega) (by omega)
  rw [datedOk_single_iff]
  exact ⟨k, by omega, by omega, f, hf, h1, h2⟩

/-- the specification selects a day through an occurrence that is not older than the year before the year
of `x - end offset` -/
theorem spec_sd_elim (m dd : Nat) (so eo : DateOffset)
    (hss : -30000000 ≤ so.days ∧ so.days ≤ 30000000) (hes : -30000000 ≤ eo.days ∧ eo.days ≤ 30000000)
    (x : Int) (hx1 : dateStart - 1 ≤ x) (hx2 : x < dateEnd)
    (h : datedOk (.fixed none m dd) so (.fixed none m dd) eo x = true) :
    ∃ k f, (-165000 ≤ k ∧ k ≤ 175000) ∧ year (x - eo.days) - 1 ≤ k ∧ ofYmd? k m dd = some f ∧
      shift so f ≤ x ∧ x ≤ shift eo f := by
  have hy : 1899 ≤ year x ∧ year x ≤ 9999 := year_window hx1 hx2
  have hw := yearSpan_bounds so eo hss hes
  have F := sdFacts m dd so eo hss hes
  have iE : InY (year (x - eo.days)) (x - eo.days) := inY_year _
  rw [datedOk_single_iff] at h
  obtain ⟨k, hk1, hk2, f, hf, hle, hge⟩ := h
  obtain ⟨_, _, _, p1, p2⟩ := day_pos hf
  have sb := F.sb k f (by omega) (by omega) hf
  refine ⟨k, f, ⟨by omega, by omega⟩, ?_, hf, hle, hge⟩
  generalize year (x - eo.days) = c at *
  by_cases hc : k + 2 ≤ c
  · have := yearStart_le (a := k + 2) (b := c) hc
    have := yearStart_step (k + 1) (k + 2) (by omega)
    unfold InY at iE
    omega
  · omega

/-- **S2**: a single fixed day without a year, day offsets within ±30 000 000 days: the hint is sound on
every day of the evaluation window, whatever the size of the shifts (occurrences longer than a year,
February 29th included). -/
theorem dated_single_hintOK (m dd : Nat) (so eo : DateOffset)
    (hso : so.wday.wf = true) (hss : -30000000 ≤ so.days ∧ so.days ≤ 30000000)
    (heo : eo.wday.wf = true) (hes : -30000000 ≤ eo.days ∧ eo.days ≤ 30000000)
    (d : Int) (hd1 : dateStart ≤ d) (hd2 : d < dateEnd) :
    HintOK (MonthdayRange.date (.fixed none m dd) so (.fixed none m dd) eo).filter
      (MonthdayRange.date (.fixed none m dd) so (.fixed none m dd) eo).hint d := by
  have hy : 1899 ≤ year d ∧ year d ≤ 9999 := year_window (by omega) hd2
  have hdw := window_days (d := d) (by omega) hd2
  have nE := year_sub_near d eo.days
  have eE := yearBeforeOffset_eq d eo hes (by omega)
  have iE : InY (year (d - eo.days)) (d - eo.days) := inY_year _
  have F := sdFacts m dd so eo hss hes
  have hfind := singleDayFind_eq m dd so eo d hso heo (yearRun (year (d - eo.days) - 1) 12)
  have hsort := dayIv_sorted m dd so eo hss hes (year (d - eo.days) - 1) 12 (by omega)
  have hspec := find_sorted_spec _ d hsort
  have hhintG : ∀ res, ((yearRun (year (d - eo.days) - 1) 12).filterMap (dayIv m dd so eo)).find?
        (fun r => decide (r.2 ≥ d)) = res →
      MonthdayRange.hint (.date (.fixed none m dd) so (.fixed none m dd) eo) d = .ok (some (sdNext d res)) := by
    intro res hres
    exact hint_single m dd so eo d res (by rw [eE, yearsAround_eq_run, ← hres]; exact hfind)
  have hF : ∀ x, dateStart ≤ x → x < dateEnd →
      (MonthdayRange.date (.fixed none m dd) so (.fixed none m dd) eo).filter x =
        .ok (datedOk (.fixed none m dd) so (.fixed none m dd) eo x) :=
    fun x a b => dated_single_eq m dd so eo x hso hss heo hes (by omega) b
  have lE : ∀ x, d ≤ x → year (d - eo.days) ≤ year (x - eo.days) := fun x hx => year_mono (by omega)
  generalize hc : year (d - eo.days) = c at *
  -- membership in the list of shifted occurrences
  have hmem : ∀ r, r ∈ (yearRun (c - 1) 12).filterMap (dayIv m dd so eo) ↔
      ∃ k, (c - 1 ≤ k ∧ k < c - 1 + 12) ∧ ∃ f, ofYmd? k m dd = some f ∧ (shift so f, shift eo f) = r := by
    intro r
    simp only [List.mem_filterMap, mem_yearRun, dayIv, Option.map_eq_some_iff]
    constructor
    · rintro ⟨k, hk, f, hf, rfl⟩; exact ⟨k, by omega, f, hf, rfl⟩
    · rintro ⟨k, hk, f, hf, rfl⟩; exact ⟨k, by omega, f, hf, rfl⟩
  -- a later occurrence (year `c+11` or after) comes with one of the years `c+1 … c+8` that ends after `d`
  have hlate : ∀ k f, c + 11 ≤ k → k ≤ 175000 → ofYmd? k m dd = some f →
      ∃ k1 f1, (c - 1 ≤ k1 ∧ k1 < c - 1 + 12) ∧ ofYmd? k1 m dd = some f1 ∧ d < shift eo f1 ∧
        shift so f1 < shift so f := by
    intro k f hk1 hk2 hf
    obtain ⟨k1, f1, a1, a2, hf1, hl⟩ := day_exists_late m dd k f hf (c + 1) (by unfold minYear maxYear; omega)
    have sb1 := F.sb k1 f1 (by omega) (by omega) hf1
    have sb := F.sb k f (by omega) hk2 hf
    have g := F.gap k1 f1 k f (by omega) (by omega) hk2 hf1 hf
    unfold InY at iE
    exact ⟨k1, f1, ⟨by omega, by omega⟩, hf1, by omega, by omega⟩
  cases hres : ((yearRun (c - 1) 12).filterMap (dayIv m dd so eo)).find? (fun r => decide (r.2 ≥ d)) with
  | none =>
    have hhint := hhintG none hres
    rw [hres] at hspec
    simp only [sdNext] at hspec hhint
    -- no occurrence ends at or after `d`: nothing is selected from `d` on
    have hno : ∀ x, d ≤ x → x < dateEnd →
        datedOk (.fixed none m dd) so (.fixed none m dd) eo x = false := by
      intro x hx1 hx2
      rw [← Bool.not_eq_true]
      intro hsel
      obtain ⟨k, f, hk, hkc, hf, hle, hge⟩ := spec_sd_elim m dd so eo hss hes x (by omega) hx2 hsel
      have := lE x hx1
      by_cases hin : k < c - 1 + 12
      · have := hspec _ ((hmem _).2 ⟨k, ⟨by omega, hin⟩, f, hf, rfl⟩)
        simp only at this
        omega
      · obtain ⟨k1, f1, hk1, hf1, hgt, _⟩ := hlate k f (by omega) hk.2 hf
        have := hspec _ ((hmem _).2 ⟨k1, hk1, f1, hf1, rfl⟩)
        simp only at this
        omega
    refine HintOK.of_some hhint hd2 ?_
    intro d' a b c'
    rw [hF d' (by omega) c', hF d hd1 hd2, hno d' a c', hno d (by omega) hd2]
  | some r0 =>
    have hhint := hhintG (some r0) hres
    rw [hres] at hspec
    simp only [sdNext] at hspec hhint
    obtain ⟨hr0, hr0d, hleast⟩ := hspec
    obtain ⟨k0, hk0, f0, hf0, rfl⟩ := (hmem r0).1 hr0
    simp only at hr0d hleast hhint
    by_cases hs0 : shift so f0 ≤ d
    · -- `d` is inside the occurrence: so is every day up to its end
      rw [if_pos hs0] at hhint
      have hsel : ∀ x, d ≤ x → x ≤ shift eo f0 →
          datedOk (.fixed none m dd) so (.fixed none m dd) eo x = true :=
        fun x h1 h2 => sd_contains_spec m dd so eo hss hes x k0 f0 (by omega) hf0 (by omega) h2
      cases hsu : succ? (shift eo f0) with
      | none =>
        have hm := succ?_eq_none_iff.1 hsu
        rw [hsu] at hhint
        refine HintOK.of_some hhint (by simpa using hd2) ?_
        intro d' a b c'
        have := maxDay_eq; have := dateEnd_eq
        rw [hF d' (by omega) c', hF d hd1 hd2, hsel d' a (by omega), hsel d (by omega) hr0d]
      | some y =>
        have hm := succ?_eq_some_iff.1 hsu
        rw [hsu] at hhint
        simp only [Option.getD_some] at hhint
        refine HintOK.of_some hhint (by omega) ?_
        intro d' a b c'
        rw [hF d' (by omega) c', hF d hd1 hd2, hsel d' a (by omega), hsel d (by omega) hr0d]
    · -- `d` is before the occurrence: nothing is selected before its start
      rw [if_neg hs0] at hhint
      have hno : ∀ x, d ≤ x → x < shift so f0 → x < dateEnd →
          datedOk (.fixed none m dd) so (.fixed none m dd) eo x = false := by
        intro x hx1 hx3 hx2
        rw [← Bool.not_eq_true]
        intro hsel
        obtain ⟨k, f, hk, hkc, hf, hle, hge⟩ := spec_sd_elim m dd so eo hss hes x (by omega) hx2 hsel
        have := lE x hx1
        by_cases hin : k < c - 1 + 12
        · have := hleast _ ((hmem _).2 ⟨k, ⟨by omega, hin⟩, f, hf, rfl⟩) (by simp only; omega)
          simp only at this
          omega
        · obtain ⟨k1, f1, hk1, hf1, hgt, hlt⟩ := hlate k f (by omega) hk.2 hf
          have := hleast _ ((hmem _).2 ⟨k1, hk1, f1, hf1, rfl⟩) (by simp only; omega)
          simp only at this
          omega
      refine HintOK.of_some hhint (by omega) ?_
      intro d' a b c'
      rw [hF d' (by omega) c', hF d hd1 hd2, hno d' a b c', hno d (by omega) (by omega) hd2]

end OH.Proofs.EvalSpec
