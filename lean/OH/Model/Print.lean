import OH.Model.Syntax
import OH.Model.ExtendedTime
/-
Model of every `Display` implementation of opening-hours-syntax (`rules/mod.rs`, `rules/day.rs`,
`rules/time.rs`, `display.rs`, `extended_time.rs`): one Lean definition per `fmt`, same control flow,
producing the list of characters written.  Integers are printed in decimal as Rust's `{}` does,
`{:02}` is `pad2`.  The only panic site (`weeknum_iter.next().unwrap()` when both nth arrays are all
false) is the predicate `printPanics`.
Core-only imports (linked into the driver).
-/
namespace OH.Model.Print
open OH.Model

def digitChar (n : Nat) : Char := ExtendedTime.digitChar n

/-- decimal digits of a natural number, most significant first (`{}` on an unsigned integer);
fuel-free formulation by structural recursion on a bound -/
def natDigitsAux : Nat → Nat → List Char → List Char
  | 0, _, acc => acc
  | fuel + 1, n, acc =>
    if n < 10 then digitChar n :: acc
    else natDigitsAux fuel (n / 10) (digitChar (n % 10) :: acc)

def natStr (n : Nat) : List Char := natDigitsAux (n + 1) n []

/-- `{}` on a signed integer -/
def intStr (i : Int) : List Char :=
  if i < 0 then '-' :: natStr i.natAbs else natStr i.toNat

/-- `{:02}` on an unsigned integer -/
def pad2 (n : Nat) : List Char :=
  if n < 10 then ['0', digitChar n] else natStr n

/-- `{:02}` on a signed integer (the sign counts in the width) -/
def pad2Int (i : Int) : List Char :=
  if i < 0 then intStr i else pad2 i.toNat

def str (s : String) : List Char := s.toList

-- display.rs ---------------------------------------------------------------------------------

/-- `write_days_offset` -/
def daysOffset (offset : Int) : List Char :=
  if offset = 0 then []
  else
    [' '] ++ (if offset > 0 then ['+'] else []) ++ intStr offset ++ str " day"
      ++ (if offset.natAbs > 1 then ['s'] else [])

/-- `write_selector`: elements separated by `,` -/
def selector {α} (f : α → List Char) : List α → List Char
  | [] => []
  | [x] => f x
  | x :: y :: rest => f x ++ [','] ++ selector f (y :: rest)

-- rules/day.rs -------------------------------------------------------------------------------

def wdayStr : Nat → List Char
  | 0 => str "Mo" | 1 => str "Tu" | 2 => str "We" | 3 => str "Th"
  | 4 => str "Fr" | 5 => str "Sa" | _ => str "Su"

/-- `Display for Month`: the first three letters of the English name -/
def monthStr : Nat → List Char
  | 1 => str "Jan" | 2 => str "Feb" | 3 => str "Mar" | 4 => str "Apr" | 5 => str "May"
  | 6 => str "Jun" | 7 => str "Jul" | 8 => str "Aug" | 9 => str "Sep" | 10 => str "Oct"
  | 11 => str "Nov" | _ => str "Dec"

def yearRange (r : YearRange) : List Char :=
  natStr r.lo
    ++ (if r.lo ≠ r.hi ∨ r.step ≠ 1 then '-' :: natStr r.hi else [])
    ++ (if r.step ≠ 1 then '/' :: natStr r.step else [])

def date : DateSpec → List Char
  | .fixed year month day =>
    (match year with | some y => natStr y ++ [' '] | none => [])
      ++ monthStr month ++ [' '] ++ natStr day
  | .easter year =>
    (match year with | some y => natStr y ++ [' '] | none => []) ++ str "easter"

def wdayOffset : WdayOffset → List Char
  | .none => []
  | .next w => '+' :: wdayStr w
  | .prev w => '-' :: wdayStr w

def dateOffset (o : DateOffset) : List Char := wdayOffset o.wday ++ daysOffset o.days

def monthdayRange : MonthdayRange → List Char
  | .month lo hi year =>
    (match year with | some y => natStr y | none => [])
      ++ monthStr lo ++ (if lo ≠ hi then '-' :: monthStr hi else [])
  | .date s so e eo =>
    date s ++ dateOffset so
      ++ (if (s, so) ≠ (e, eo) then ['-'] ++ date e ++ dateOffset eo else [])

/-- `MonthdayRange::starts_with_year` -/
def startsWithYear : MonthdayRange → Bool
  | .month _ _ year => year.isSome
  | .date (.fixed (some _) _ _) _ _ _ => true
  | .date (.easter (some _)) _ _ _ => true
  | .date _ _ _ _ => false

/-- the numbers printed between brackets: `idx + 1` for the set positions of `nth_from_start`, then
`-(idx) - 1` for those of `nth_from_end` -/
def nthNumbers (ns ne : List Bool) : List Int :=
  ((List.range ns.length).filter (fun i => ns.getD i false)).map (fun i => ((i + 1 : Nat) : Int))
    ++ ((List.range ne.length).filter (fun i => ne.getD i false)).map (fun i => -((i : Nat) : Int) - 1)

def weekDayRange : WeekDayRange → List Char
  | .fixed lo hi offset ns ne =>
    wdayStr lo ++ (if lo ≠ hi then '-' :: wdayStr hi else [])
      ++ (if ns.contains false || ne.contains false || offset ≠ 0 then
            ['['] ++ selector intStr (nthNumbers ns ne) ++ [']']
          else [])
      ++ daysOffset offset
  | .holiday kind offset =>
    (match kind with | .pub => str "PH" | .school => str "SH") ++ daysOffset offset

/-- `weeknum_iter.next().unwrap()` fails: the brackets are written (some position is false, or there
is a day offset) and no position is true -/
def weekDayRangePanics : WeekDayRange → Bool
  | .fixed _ _ offset ns ne =>
    (ns.contains false || ne.contains false || offset ≠ 0) && (nthNumbers ns ne).isEmpty
  | .holiday _ _ => false

def weekRange (r : WeekRange) : List Char :=
  if r.lo = r.hi ∧ r.step = 1 then pad2 r.lo
  else pad2 r.lo ++ ['-'] ++ pad2 r.hi ++ (if r.step ≠ 1 then '/' :: natStr r.step else [])

def daySelector (s : DaySelector) : List Char :=
  (if !(s.year.isEmpty && s.monthday.isEmpty && s.week.isEmpty) then
      selector yearRange s.year
        ++ (match s.year, s.monthday with
            | [y], first :: _ =>
              if y.lo = y.hi ∧ y.step = 1 ∧ !startsWithYear first then '-' :: natStr y.hi else []
            | _, _ => [])
        ++ selector monthdayRange s.monthday
        ++ (if !s.week.isEmpty then
              (if !s.year.isEmpty || !s.monthday.isEmpty then [' '] else [])
                ++ str "week" ++ selector weekRange s.week
            else [])
        ++ (if !s.weekday.isEmpty then [' '] else [])
    else [])
    ++ selector weekDayRange s.weekday

-- rules/time.rs ------------------------------------------------------------------------------

def eventStr : TimeEvent → List Char
  | .dawn => str "dawn" | .sunrise => str "sunrise" | .sunset => str "sunset" | .dusk => str "dusk"

/-- `Display for ExtendedTime` on a minute count -/
def extTime (m : Nat) : List Char := pad2 (m / 60) ++ [':'] ++ pad2 (m % 60)

def time : Time → List Char
  | .fixed m => extTime m
  | .variable ev off =>
    if off < 0 then ['('] ++ eventStr ev ++ ['-'] ++ pad2 (off.natAbs / 60) ++ [':'] ++ pad2 (off.natAbs % 60) ++ [')']
    else if off > 0 then ['('] ++ eventStr ev ++ ['+'] ++ pad2 (off.natAbs / 60) ++ [':'] ++ pad2 (off.natAbs % 60) ++ [')']
    else eventStr ev

def timeSpan (t : TimeSpan) : List Char :=
  time t.start
    ++ (if !t.openEnd || t.stop ≠ .fixed 1440 then '-' :: time t.stop else [])
    ++ (if t.openEnd then ['+'] else [])
    ++ (match t.repeats with
        | none => []
        | some r =>
          ['/'] ++ (if Int.tdiv r 60 > 0 then pad2Int (Int.tdiv r 60) ++ [':'] else [])
            ++ pad2Int (Int.tmod r 60))

-- rules/mod.rs -------------------------------------------------------------------------------

def kindStr : Kind → List Char
  | .open => str "open" | .closed => str "closed" | .unknown => str "unknown"

/-- `[String]::join(", ")` -/
def joinComments : List String → List Char
  | [] => []
  | [c] => c.toList
  | c :: d :: rest => c.toList ++ str ", " ++ joinComments (d :: rest)

def rule (r : Rule) : List Char :=
  let (s1, empty1) : List Char × Bool :=
    if r.isConstant then (str "24/7", false)
    else
      let ds := daySelector r.day
      let e := r.day.isEmpty
      if !is0024 r.time then
        (ds ++ (if !e then [' '] else []) ++ selector timeSpan r.time, e && is0024 r.time)
      else (ds, e)
  let (s2, empty2) : List Char × Bool :=
    if r.kind ≠ .open then (s1 ++ (if !empty1 then [' '] else []) ++ kindStr r.kind, false)
    else (s1, empty1)
  if !r.comments.isEmpty then
    s2 ++ (if !empty2 then [' '] else []) ++ ['"'] ++ joinComments r.comments ++ ['"']
  else s2

def sepStr : RuleOp → List Char
  | .normal => str " ; " | .additional => str ", " | .fallback => str " || "

def exprTail : List Rule → List Char
  | [] => []
  | r :: rest => sepStr r.op ++ rule r ++ exprTail rest

/-- `Display for OpeningHoursExpression` -/
def expr : Expr → List Char
  | [] => str "closed"
  | first :: rest => rule first ++ exprTail rest

def printPanics (e : Expr) : Bool :=
  e.any fun r => r.day.weekday.any weekDayRangePanics

/-- `to_string()`: `none` = the `unwrap` in `Display for WeekDayRange` panics -/
def toString? (e : Expr) : Option String :=
  if printPanics e then none else some (String.ofList (expr e))

end OH.Model.Print
