import OH.Model.Eval
/-
Model of the time-domain part of `opening-hours/src/opening_hours.rs`:
`TimeDomainIterator::{new, consume_until_next_kind, next}`, `iter_range_naive`, `state`,
`next_change` (for `NoLocation`: `naive`/`datetime` are the identity; the time-zone mapping is
C09's model).

A naive instant (`NaiveDateTime`) is an `Int` count of nanoseconds since day 0, 00:00 of the
`Cal.Day` numbering: `t = day * 86_400·10⁹ + nanosecond of the day` (chrono's leap-second
representation is outside the model).
Core-only imports.
-/
namespace OH.Model
open OH.Model.Cal

/-- notation, not an `abbrev` (see `Cal.Day`) -/

def nsPerMin : Int := 60000000000
def nsPerDay : Int := 86400000000000

scoped notation "Instant" => Int

def instDay (t : Instant) : Day := t / nsPerDay
def instTod (t : Instant) : Int := t % nsPerDay
/-- `ExtendedTime::from(NaiveTime)`: hour and minute, seconds dropped -/
def instMinuteOfDay (t : Instant) : Nat := (instTod t / nsPerMin).toNat
def mkInstant (d : Day) (minute : Nat) : Instant := d * nsPerDay + minute * nsPerMin

def instStart : Instant := mkInstant dateStart 0      -- DATE_START
def instEnd : Instant := mkInstant dateEnd 0          -- DATE_END
/-- `NaiveDateTime::MIN` / `MAX` -/
def instMin : Instant := minDay * nsPerDay
def instMax : Instant := maxDay * nsPerDay + (nsPerDay - 1)
/-- `TimeDelta::MAX` = `i64::MAX` milliseconds, in nanoseconds -/
def deltaMax : Int := 9223372036854775807 * 1000000

structure Interval where
  start : Instant
  stop : Instant
  kind : Kind
  comments : List String
  deriving DecidableEq, Repr

structure ItState where
  date : Day
  sched : List TimeRange

/-- What the time-domain iterator needs from the day level: the tiled schedule of a day, the
next-change hint, and the interval-size bound.  The iterator functions below are written against
this record so that their correctness (C02 Layer A) is proved once for *any* day level that meets
`EnvOK`; the concrete one is `envOf ctx e`. -/
structure Env where
  sched : Int → M (List TimeRange)
  hint : Int → M (Option Int)
  bound : Option Int

/-- `schedule_at(date).into_iter()` collected; the `pre_yield` assert is a panic site -/
def daySchedule (ctx : Ctx) (e : Expr) (d : Day) : M (List TimeRange) :=
  match scheduleAt ctx e d with
  | .error p => .error p
  | .ok s =>
    if Schedule.iterPanics s then .error "schedule.rs:IntoIter::pre_yield infinite loop detected"
    else .ok (Schedule.iter s)

def envOf (ctx : Ctx) (e : Expr) : Env := ⟨daySchedule ctx e, nextChangeHint ctx e, ctx.bound⟩

/-- `TimeDomainIterator::new` -/
def itNew (env : Env) (start stop : Instant) : M ItState :=
  let d := instDay start
  let tm := instMinuteOfDay start
  match env.sched d with
  | .error p => .error p
  | .ok s =>
    let s := if start ≥ stop then [] else s
    .ok ⟨d, s.dropWhile (fun tr => !(tr.s ≤ tm && tm < tr.e))⟩

/-- `max(max_interval_size, 0).checked_add(1 day).unwrap_or(TimeDelta::MAX)` -/
def boundLimit (b : Int) : Int :=
  if max b 0 + nsPerDay > deltaMax then deltaMax else max b 0 + nsPerDay

/-- limit day used by the termination measure of the iterator -/
def limitDay (endDay : Day) : Day := max (endDay + 1) dateEnd

/-- `consume_until_next_kind` -/
def consume (env : Env) (endDay startDate : Day) (kind : Kind) (st : ItState) : M ItState :=
  match hs : st.sched with
  | [] => .ok st
  | tr :: rest =>
    if tr.kind != kind then .ok st
    else
      -- `if self.curr_date - start_date > max_interval_size + TimeDelta::days(1) { return }`
      let boundHit : M Bool :=
        match env.bound with
        | none => .ok false
        | some b => .ok ((st.date - startDate) * nsPerDay > boundLimit b)
      match boundHit with
      | .error p => .error p
      | .ok true => .ok st
      | .ok false =>
        match hr : rest with
        | _ :: _ => consume env endDay startDate kind ⟨st.date, rest⟩
        | [] =>
          match env.hint st.date with
          | .error p => .error p
          | .ok h =>
            match (match h with | some x => some x | none => succ? st.date) with
            | none => .error "opening_hours.rs:consume reached invalid date"
            | some nd =>
              if hgt : nd > st.date then
                if hle : nd ≤ endDay ∧ nd < dateEnd then
                  match env.sched nd with
                  | .error p => .error p
                  | .ok s => consume env endDay startDate kind ⟨nd, s⟩
                else .ok ⟨nd, []⟩
              else .error "opening_hours.rs:consume infinite loop detected"
termination_by ((limitDay endDay - st.date).toNat, st.sched.length)
decreasing_by
  · apply Prod.Lex.right'
    · simp
    · simp [hs, hr]
  · apply Prod.Lex.left
    have h1 := hle.1
    have h2 := hle.2
    simp only [limitDay, gt_iff_lt] at *
    omega

/-- the minute of a schedule bound as a `NaiveTime` (`try_into().expect("got invalid time from schedule")`) -/
def clockMinute (m : Nat) : M Nat :=
  if m < 1440 then .ok m else .error "opening_hours.rs:next got invalid time from schedule"

/-- `TimeDomainIterator::next` -/
def itNext (env : Env) (stop : Instant) (st : ItState) : M (Option (Interval × ItState)) :=
  match st.sched with
  | [] => .ok none
  | tr :: _ =>
    match clockMinute tr.s with
    | .error p => .error p
    | .ok sm =>
      let start := mkInstant st.date sm
      match consume env (instDay stop) st.date tr.kind st with
      | .error p => .error p
      | .ok st' =>
        let endTime := match st'.sched with | t :: _ => t.s | [] => 0
        match clockMinute endTime with
        | .error p => .error p
        | .ok em =>
          let stop' := min stop (mkInstant st'.date em)
          match env.bound with
          | some b =>
            if stop' - start > b then .ok (some (⟨start, instEnd, tr.kind, tr.comments⟩, st'))
            else .ok (some (⟨start, stop', tr.kind, tr.comments⟩, st'))
          | none => .ok (some (⟨start, stop', tr.kind, tr.comments⟩, st'))

def itMeasure (endDay : Day) (st : ItState) : Nat :=
  (limitDay endDay - st.date).toNat * 4096 + min st.sched.length 4095

/-- `iter_range_naive(from, to)` collected: `take_while(start < to)` and clipping.  The Rust
iterator is an unbounded loop around `next`; the model refuses to continue (`.error`) if a step
makes no progress, which is how an endless iteration of the real code shows up here. -/
def collect (env : Env) (frm to : Instant) (st : ItState) (acc : List Interval) : M (List Interval) :=
  match itNext env to st with
  | .error p => .error p
  | .ok none => .ok acc.reverse
  | .ok (some (iv, st')) =>
    if iv.start ≥ to then .ok acc.reverse
    else if h : itMeasure (instDay to) st' < itMeasure (instDay to) st then
      collect env frm to st' (⟨max iv.start frm, min iv.stop to, iv.kind, iv.comments⟩ :: acc)
    else .error "model: iterator made no progress (unbounded iteration)"
termination_by itMeasure (instDay to) st

def iterRangeG (env : Env) (frm to : Instant) : M (List Interval) :=
  let frm := min instEnd frm
  let to := min instEnd to
  match itNew env frm to with
  | .error p => .error p
  | .ok st => collect env frm to st []

def iterRangeNaive (ctx : Ctx) (e : Expr) (frm to : Instant) : M (List Interval) :=
  iterRangeG (envOf ctx e) frm to

/-- first item of `iter_range_naive(from, to)` only (what `state` and `next_change` consume) -/
def firstIntervalG (env : Env) (frm to : Instant) : M (Option Interval) :=
  let frm := min instEnd frm
  let to := min instEnd to
  match itNew env frm to with
  | .error p => .error p
  | .ok st =>
    match itNext env to st with
    | .error p => .error p
    | .ok none => .ok none
    | .ok (some (iv, _)) =>
      if iv.start ≥ to then .ok none
      else .ok (some ⟨max iv.start frm, min iv.stop to, iv.kind, iv.comments⟩)

def firstInterval (ctx : Ctx) (e : Expr) (frm to : Instant) : M (Option Interval) :=
  firstIntervalG (envOf ctx e) frm to

/-- `OpeningHours::state` -/
def state (ctx : Ctx) (e : Expr) (t : Instant) : M Kind :=
  -- `if naive(current_time) >= DATE_END { return Closed }`; below that `t + 1 minute` cannot overflow
  if t ≥ instEnd then .ok .closed
  else match firstInterval ctx e t (t + nsPerMin) with
    | .error p => .error p
    | .ok none => .ok .closed
    | .ok (some iv) => .ok iv.kind

/-- `OpeningHours::next_change` -/
def nextChange (ctx : Ctx) (e : Expr) (t : Instant) : M (Option Instant) :=
  match firstInterval ctx e t instEnd with
  | .error p => .error p
  | .ok none => .ok none
  | .ok (some iv) => if iv.stop ≥ instEnd then .ok none else .ok (some iv.stop)

/-! ### the same two entry points over an abstract day level (`state ctx e t = stateG (envOf ctx e) t` by `rfl`) -/

/-- `OpeningHours::state` over an abstract `Env` (`state ctx e t = stateG (envOf ctx e) t` by `rfl`) -/
def stateG (env : Env) (t : Instant) : M Kind :=
  if t ≥ instEnd then .ok .closed
  else match firstIntervalG env t (t + nsPerMin) with
    | .error p => .error p
    | .ok none => .ok .closed
    | .ok (some iv) => .ok iv.kind

/-- `OpeningHours::next_change` over an abstract `Env` -/
def nextChangeG (env : Env) (t : Instant) : M (Option Instant) :=
  match firstIntervalG env t instEnd with
  | .error p => .error p
  | .ok none => .ok none
  | .ok (some iv) => if iv.stop ≥ instEnd then .ok none else .ok (some iv.stop)

end OH.Model
