/-
A PEG interpreter with pest's pair structure (the engine behind `#[derive(Parser)] #[grammar =
"grammar.pest"]` in opening-hours-syntax/src/parser.rs).  The grammar itself is NOT written here: it
is regenerated from `grammar.pest` on every run by translators/pest2lean.py into
OH/Generated/Grammar.lean as closed `PExpr` terms (the grammar has no recursion).

What is modelled (pest 2.x semantics for the constructs grammar.pest uses):
 * strings, character ranges, `ANY`, `SOI`, `EOI`, sequence `~` (no implicit whitespace: the grammar
   defines no WHITESPACE/COMMENT rule), ordered choice `|` with backtracking, `?`, `*`, `+` and `{n}`
   (expanded by the translator), the look-aheads `!` and `&` (which produce no pairs);
 * normal rules produce one pair (rule, matched text, inner pairs); silent rules `_{}` are inlined by
   the translator; atomic rules `@{}` produce their own pair but their inner rules produce none
   (`quiet` mode); `EOI` is a built-in rule that produces a pair;
 * `e*` stops when `e` fails.  pest loops for ever on a body that succeeds without consuming anything
   and therefore rejects such grammars when the derive macro runs; the model stops instead, and the
   translator checks that no starred body is nullable.
Input is a `List Char` (Unicode scalar values, as pest's `ANY`).
Core-only imports (the driver links this).
-/
namespace OH.Model.Peg

inductive PExpr (ρ : Type) where
  | str (s : List Char)
  | range (lo hi : Char)
  | any
  | soi
  | eoi
  | seq (a b : PExpr ρ)
  | alt (a b : PExpr ρ)
  | opt (a : PExpr ρ)
  | star (a : PExpr ρ)
  | notp (a : PExpr ρ)
  | andp (a : PExpr ρ)
  | rule (name : ρ) (atomic : Bool) (body : PExpr ρ)
  deriving Repr

/-- a pest `Pair`: rule, `as_str()`, `into_inner()` -/
inductive Tree (ρ : Type) where
  | node (rule : ρ) (text : List Char) (kids : List (Tree ρ))
  deriving Repr

def Tree.rule {ρ} : Tree ρ → ρ
  | .node r _ _ => r
def Tree.text {ρ} : Tree ρ → List Char
  | .node _ t _ => t
def Tree.kids {ρ} : Tree ρ → List (Tree ρ)
  | .node _ _ k => k

/-- result of a successful match: pairs produced, text consumed, remaining input -/
structure R (ρ : Type) where
  kids : List (Tree ρ)
  eaten : List Char
  rest : List Char
  deriving Repr

def R.nil {ρ} (inp : List Char) : R ρ := ⟨[], [], inp⟩

def R.append {ρ} (r1 r2 : R ρ) : R ρ := ⟨r1.kids ++ r2.kids, r1.eaten ++ r2.eaten, r2.rest⟩

def stripPrefix : List Char → List Char → Option (List Char)
  | [], s => some s
  | _ :: _, [] => none
  | c :: cs, d :: ds => if c = d then stripPrefix cs ds else none

/-- `e*` with fuel: repeat `f` while it succeeds and consumes something -/
def iterate {ρ} (f : List Char → Option (R ρ)) : Nat → List Char → R ρ
  | 0, inp => R.nil inp
  | n + 1, inp =>
    match f inp with
    | none => R.nil inp
    | some r1 => if r1.eaten.isEmpty then R.nil inp else r1.append (iterate f n r1.rest)

/-- `run e quiet inp`: match `e` at the head of `inp`; `quiet` = inside an atomic rule or a
look-ahead (no pairs are produced) -/
def run {ρ} : PExpr ρ → (quiet : Bool) → (inp : List Char) → Option (R ρ)
  | .str s, _, inp => (stripPrefix s inp).map fun r => ⟨[], s, r⟩
  | .range lo hi, _, inp =>
    match inp with
    | c :: r => if lo ≤ c ∧ c ≤ hi then some ⟨[], [c], r⟩ else none
    | [] => none
  | .any, _, inp =>
    match inp with
    | c :: r => some ⟨[], [c], r⟩
    | [] => none
  | .soi, _, inp => some (R.nil inp)
  | .eoi, _, inp =>
    match inp with
    | [] => some (R.nil [])
    | _ :: _ => none
  | .seq a b, q, inp =>
    match run a q inp with
    | none => none
    | some r1 =>
      match run b q r1.rest with
      | none => none
      | some r2 => some (r1.append r2)
  | .alt a b, q, inp =>
    match run a q inp with
    | some x => some x
    | none => run b q inp
  | .opt a, q, inp =>
    match run a q inp with
    | some x => some x
    | none => some (R.nil inp)
  | .notp a, _, inp =>
    match run a true inp with
    | some _ => none
    | none => some (R.nil inp)
  | .andp a, _, inp =>
    match run a true inp with
    | some _ => some (R.nil inp)
    | none => none
  | .rule name atomic a, q, inp =>
    match run a (q || atomic) inp with
    | none => none
    | some r =>
      if q then some ⟨[], r.eaten, r.rest⟩
      else some ⟨[Tree.node name r.eaten r.kids], r.eaten, r.rest⟩
  | .star a, q, inp => some (iterate (run a q) (inp.length + 1) inp)

/-- `e+` -/
def PExpr.plus {ρ} (a : PExpr ρ) : PExpr ρ := .seq a (.star a)

/-- `e{n}` -/
def PExpr.rep {ρ} (a : PExpr ρ) : Nat → PExpr ρ
  | 0 => .str []
  | 1 => a
  | n + 2 => .seq a (PExpr.rep a (n + 1))

/-- nullable (may succeed without consuming): the translator's progress check for starred bodies is
re-done in Lean by `decide` on this over-approximation -/
def PExpr.nullable {ρ} : PExpr ρ → Bool
  | .str s => s.isEmpty
  | .range _ _ => false
  | .any => false
  | .soi => true
  | .eoi => true
  | .seq a b => a.nullable && b.nullable
  | .alt a b => a.nullable || b.nullable
  | .opt _ => true
  | .star _ => true
  | .notp _ => true
  | .andp _ => true
  | .rule _ _ a => a.nullable

/-- every starred body is non-nullable (pest's "non-progressing repetition" validation) -/
def PExpr.starsProgress {ρ} : PExpr ρ → Bool
  | .seq a b => a.starsProgress && b.starsProgress
  | .alt a b => a.starsProgress && b.starsProgress
  | .opt a => a.starsProgress
  | .star a => !a.nullable && a.starsProgress
  | .notp a => a.starsProgress
  | .andp a => a.starsProgress
  | .rule _ _ a => a.starsProgress
  | _ => true

/-- entry point: pest's `Parser::parse(rule, input)`: the pairs of a whole-input match -/
def parseWith {ρ} (entry : PExpr ρ) (inp : List Char) : Option (List (Tree ρ)) :=
  (run entry false inp).map (·.kids)

end OH.Model.Peg
