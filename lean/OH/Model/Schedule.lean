import OH.Model.SortedVec
import OH.Model.Syntax
/-
Model of `opening-hours/src/schedule.rs` (`TimeRange`, `Schedule`, `IntoIter`, macro `schedule!`)
and of the three helpers of `opening-hours/src/utils/range.rs` used by the evaluator
(`ranges_union`, `range_intersection`, `WrappingRange::wrapping_contains`).

One Lean definition per Rust function, same control flow, bug for bug.

* Times (`ExtendedTime`) are `Nat` minutes from midnight (0..=2880): by C19 the derived order on
  `ExtendedTime` is the order of `mins_from_midnight` and the conversion is a bijection, so nothing
  is lost.  `MIDNIGHT_00 = 0`, `MIDNIGHT_24 = 1440`.
* Comments (`UniqueSortedVec<Arc<str>>`) are `List String`, combined with `SortedVec.union`
  (the `Ord` of `str` is byte-wise lexicographic = code-point lexicographic = Lean's `String` order).
* There is no integer arithmetic in these functions (only comparisons, `min`, `max`), hence no
  overflow site.  The only panic site is the `assert!` of `IntoIter::pre_yield`
  ("infinite loop detected", schedule.rs:243), modelled explicitly by `NextResult.panic`;
  `OH.Props.C14.iter_no_panic` proves it unreachable for every schedule the API can build.
  The `unwrap()`s in `insert` and `next` directly follow a successful `last()`/`peek()` and are
  matched structurally.

Core-only imports: this file is linked into the compiled driver.
-/
namespace OH.Model

-- `Kind` (`RuleKind`, declaration order Open, Closed, Unknown) is defined in OH/Model/Syntax.lean

/-- `schedule::TimeRange`; `range = s..e` in minutes -/
structure TimeRange where
  s : Nat
  e : Nat
  kind : Kind
  comments : List String
  deriving DecidableEq, Repr, Inhabited

/-- `schedule::Schedule` (the field `inner`) -/
abbrev Schedule := List TimeRange

/-- `UniqueSortedVec::union` on comments -/
abbrev cunion (a b : List String) : List String := SortedVec.union a b

namespace Schedule

/-- `Schedule::new()` -/
def new : Schedule := []

/-- `Schedule::is_empty` -/
def isEmpty (s : Schedule) : Bool := List.isEmpty s

/-! ### `from_ranges` -/

/-- one insertion step of the model of `inner.sort_unstable_by_key(|rng| rng.range.start)`.
`x` precedes every element of the list in the input, and is placed before the elements with the
same key: the result is the *stable* sort.

NOTE (unspecified behaviour of the Rust code): `sort_unstable_by_key` does not specify the order of
elements with equal starts.  All elements of one `from_ranges` call share kind and comments, so
elements with equal starts differ only by their end, and the order matters only because of the
defect in the merge loop below (with `max` the result does not depend on it).  The current standard
library uses insertion sort for slices of at most 20 elements, which is stable; the model follows
that, and the correspondence suite stays within 20 ranges per call. -/
def sortInsert (x : TimeRange) : List TimeRange → List TimeRange
  | [] => [x]
  | y :: ys => if y.s < x.s then y :: sortInsert x ys else x :: y :: ys

def sortByStart : List TimeRange → List TimeRange
  | [] => []
  | x :: xs => sortInsert x (sortByStart xs)

/-- the `while i + 1 < inner.len()` loop of `from_ranges` (schedule.rs:93-102) AS ORIGINALLY WRITTEN:
elements before `i` are final, `cur` is `inner[i]`, the list argument is `inner[i+1..]`.
Line 95 assigned the end of the right-hand range instead of the maximum of both ends (defect D6). -/
def mergeBuggyLoop (cur : TimeRange) : List TimeRange → List TimeRange
  | [] => [cur]
  | u :: rest =>
    if cur.e ≥ u.s then
      mergeBuggyLoop { cur with e := u.e, comments := cunion cur.comments u.comments } rest
    else cur :: mergeBuggyLoop u rest

def mergeBuggy : List TimeRange → List TimeRange
  | [] => []
  | t :: ts => mergeBuggyLoop t ts

/-- the same loop with the one-line repair
`inner[i].range.end = max(inner[i].range.end, inner[i + 1].range.end)` (the code as it is now) -/
def mergeFixedLoop (cur : TimeRange) : List TimeRange → List TimeRange
  | [] => [cur]
  | u :: rest =>
    if cur.e ≥ u.s then
      mergeFixedLoop { cur with e := max cur.e u.e, comments := cunion cur.comments u.comments } rest
    else cur :: mergeFixedLoop u rest

def mergeFixed : List TimeRange → List TimeRange
  | [] => []
  | t :: ts => mergeFixedLoop t ts

/-- `.filter(|range| range.start < range.end).map(|range| TimeRange { range, kind, comments })` -/
def mkRanges (rs : List (Nat × Nat)) (k : Kind) (c : List String) : List TimeRange :=
  (rs.filter (fun r => r.1 < r.2)).map (fun r => ⟨r.1, r.2, k, c⟩)

/-- `Schedule::from_ranges` as it was written before the repair of line 95 -/
def fromRangesBuggy (rs : List (Nat × Nat)) (k : Kind) (c : List String) : Schedule :=
  mergeBuggy (sortByStart (mkRanges rs k c))

/-- `Schedule::from_ranges` with the repaired merge loop -/
def fromRangesFixed (rs : List (Nat × Nat)) (k : Kind) (c : List String) : Schedule :=
  mergeFixed (sortByStart (mkRanges rs k c))

/-- `Schedule::from_ranges`.  THE SWITCH (one line): `fromRangesFixed` mirrors the code since the
repair of schedule.rs:95 (`max` of the two ends, /repo commit "fix: Schedule::from_ranges keeps the
larger end when merging overlapping ranges"); `fromRangesBuggy` mirrors the code before it
(defect D6) and is kept for the record and for the refutation theorem. -/
def fromRanges (rs : List (Nat × Nat)) (k : Kind) (c : List String) : Schedule :=
  fromRangesFixed rs k c

/-! ### `insert` -/

/-- the collected vector `before` of `insert`:
`filter(start < ins_end)`, then `end = min(end, ins_start)`, kept if still non-empty -/
def before (insS insE : Nat) : List TimeRange → List TimeRange
  | [] => []
  | t :: ts =>
    if t.s < insE then
      if t.s < min t.e insS then { t with e := min t.e insS } :: before insS insE ts
      else before insS insE ts
    else before insS insE ts

/-- the side effect of the `before` pass on `ins_tr.comments`: ranges that become empty give their
comments to the inserted range (`ins.comments.union(tr.comments)`), in order -/
def beforeAbsorb (insS insE : Nat) (c : List String) : List TimeRange → List String
  | [] => c
  | t :: ts =>
    if t.s < insE then
      if t.s < min t.e insS then beforeAbsorb insS insE c ts
      else beforeAbsorb insS insE (cunion c t.comments) ts
    else beforeAbsorb insS insE c ts

/-- the collected vector `after` of `insert`:
`filter(end > ins_start)`, then `start = max(start, ins_end)`, kept if still non-empty -/
def after (insS insE : Nat) : List TimeRange → List TimeRange
  | [] => []
  | t :: ts =>
    if t.e > insS then
      if max t.s insE < t.e then { t with s := max t.s insE } :: after insS insE ts
      else after insS insE ts
    else after insS insE ts

/-- the side effect of the `after` pass on `ins_tr.comments` -/
def afterAbsorb (insS insE : Nat) (c : List String) : List TimeRange → List String
  | [] => c
  | t :: ts =>
    if t.e > insS then
      if max t.s insE < t.e then afterAbsorb insS insE c ts
      else afterAbsorb insS insE (cunion c t.comments) ts
    else afterAbsorb insS insE c ts

/-- first coalescing loop (`while before.last()…`), on the REVERSED `before` vector:
returns the reversed remaining vector and the extended inserted range -/
def coalesceBeforeRev (ins : TimeRange) : List TimeRange → List TimeRange × TimeRange
  | [] => ([], ins)
  | t :: ts =>
    if t.e = ins.s ∧ t.kind = ins.kind then
      coalesceBeforeRev { ins with s := t.s, comments := cunion t.comments ins.comments } ts
    else (t :: ts, ins)

/-- second coalescing loop (`while after.peek()…`): returns the remaining `after` and the
extended inserted range -/
def coalesceAfter (ins : TimeRange) : List TimeRange → List TimeRange × TimeRange
  | [] => ([], ins)
  | t :: ts =>
    if ins.e = t.s ∧ t.kind = ins.kind then
      coalesceAfter { ins with e := t.e, comments := cunion t.comments ins.comments } ts
    else (t :: ts, ins)

/-- the inserted range after both filter passes: its comments have absorbed those of the ranges
that the passes dropped -/
def insAbsorbed (self : Schedule) (ins : TimeRange) : TimeRange :=
  { ins with comments := afterAbsorb ins.s ins.e (beforeAbsorb ins.s ins.e ins.comments self) self }

/-- state after the first coalescing loop: (reversed `before`, inserted range) -/
def insStage1 (self : Schedule) (ins : TimeRange) : List TimeRange × TimeRange :=
  coalesceBeforeRev (insAbsorbed self ins) (before ins.s ins.e self).reverse

/-- state after the second coalescing loop: (`after`, inserted range) -/
def insStage2 (self : Schedule) (ins : TimeRange) : List TimeRange × TimeRange :=
  coalesceAfter (insStage1 self ins).2 (after ins.s ins.e self)

/-- `Schedule::insert` (private): `before`, then the inserted range, then `after` -/
def insert (self : Schedule) (ins : TimeRange) : Schedule :=
  (insStage1 self ins).1.reverse ++ (insStage2 self ins).2 :: (insStage2 self ins).1

/-! ### `addition` -/

/-- `addition` with `other` given in REVERSE order: `other.inner.pop()` takes the last range first -/
def additionRev (self : Schedule) : List TimeRange → Schedule
  | [] => self
  | tr :: rest => additionRev (insert self tr) rest

/-- `Schedule::addition(self, other)` -/
def addition (self other : Schedule) : Schedule := additionRev self other.reverse

/-- `Schedule::is_always_closed` -/
def isAlwaysClosed (s : Schedule) : Bool := s.all (fun rg => rg.kind == Kind.closed)

/-! ### `IntoIter` -/

/-- `ExtendedTime::MIDNIGHT_24` in minutes -/
abbrev midnight24 : Nat := 1440

/-- `schedule::IntoIter`; `ranges` is what remains in the peekable iterator -/
structure IterState where
  lastEnd : Nat
  ranges : List TimeRange
  deriving Repr

/-- `IntoIter::new` -/
def IterState.new (s : Schedule) : IterState := ⟨0, s⟩

/-- the `while let Some(next_range) = self.ranges.peek()` loop of `next`, including the code after
the loop ("extend with the last hole").  Returns the range handed to `pre_yield` and what remains
in `self.ranges`. -/
def extendHole (y n : TimeRange) : TimeRange :=
  if n.s > y.e then { y with e := n.s } else y

def nextLoop (y : TimeRange) : List TimeRange → TimeRange × List TimeRange
  | [] => (if y.kind = Kind.closed then { y with e := midnight24 } else y, [])
  | n :: rest =>
    if n.s > y.e ∧ y.kind ≠ Kind.closed then (y, n :: rest)          -- range before the hole is not closed
    -- otherwise "just extend the closed range with this hole" (`extendHole`)
    else if (extendHole y n).kind ≠ n.kind then (extendHole y n, n :: rest)   -- next range has a different state
    else nextLoop ⟨(extendHole y n).s, n.e, (extendHole y n).kind, cunion (extendHole y n).comments n.comments⟩ rest

inductive NextResult where
  /-- `None`: iteration ended -/
  | done
  /-- `Some(value)` and the new iterator state -/
  | yield (value : TimeRange) (st : IterState)
  /-- the `assert!` of `pre_yield` failed (schedule.rs:243 "infinite loop detected") -/
  | panic (value : TimeRange)
  deriving Repr

/-- the range `next` starts from, and the remaining ranges -/
def nextStart (st : IterState) : TimeRange × List TimeRange :=
  match st.ranges with
  | [] => (⟨st.lastEnd, st.lastEnd, Kind.closed, []⟩, [])      -- hole, `next_start.unwrap_or(self.last_end)`
  | n :: rest =>
    if n.s = st.lastEnd then (n, rest)                           -- start from an interval
    else (⟨st.lastEnd, n.s, Kind.closed, []⟩, n :: rest)         -- start from a hole

/-- the range handed to `pre_yield` and what remains in `self.ranges` -/
def nextRaw (st : IterState) : TimeRange × List TimeRange :=
  nextLoop (nextStart st).1 (nextStart st).2

/-- `IntoIter::next` followed by `pre_yield` -/
def next (st : IterState) : NextResult :=
  if st.lastEnd ≥ midnight24 then NextResult.done
  else if (nextRaw st).1.s < (nextRaw st).1.e then
    NextResult.yield (nextRaw st).1 ⟨(nextRaw st).1.e, (nextRaw st).2⟩
  else NextResult.panic (nextRaw st).1

theorem extendHole_s (y n : TimeRange) : (extendHole y n).s = y.s := by
  unfold extendHole; split <;> rfl

theorem nextLoop_s (y : TimeRange) (rs : List TimeRange) : (nextLoop y rs).1.s = y.s := by
  fun_induction nextLoop y rs <;> (try split) <;> simp_all [extendHole_s]

theorem nextStart_s (st : IterState) : (nextStart st).1.s = st.lastEnd := by
  unfold nextStart; split <;> (try split) <;> simp_all

/-- every successful `next` moves `last_end` forward (this is what the `assert!` guarantees) -/
theorem next_progress (st : IterState) (v : TimeRange) (st' : IterState)
    (h : next st = NextResult.yield v st') : st.lastEnd < st'.lastEnd ∧ st.lastEnd < midnight24 := by
  unfold next at h
  split at h
  · cases h
  · split at h
    · rename_i h1 h2
      cases h
      have e : (nextRaw st).1.s = st.lastEnd := by rw [nextRaw, nextLoop_s, nextStart_s]
      rw [e] at h2
      simp only [midnight24] at *; omega
    · cases h

/-- collecting the iterator: the yielded ranges and whether the `assert!` fired.
Terminates because `last_end` strictly increases up to 24:00 (measure `1440 - last_end`). -/
def iterFrom (st : IterState) : List TimeRange × Bool :=
  match _h : next st with
  | NextResult.done => ([], false)
  | NextResult.panic _ => ([], true)
  | NextResult.yield v st' =>
    let r := iterFrom st'
    (v :: r.1, r.2)
termination_by midnight24 - st.lastEnd
decreasing_by
  have := next_progress st v st' _h
  omega

/-- `schedule.into_iter().collect()`: the ranges yielded (before the panic, if any) -/
def iter (s : Schedule) : List TimeRange := (iterFrom (IterState.new s)).1

/-- does `schedule.into_iter()` hit the `assert!` of `pre_yield`? -/
def iterPanics (s : Schedule) : Bool := (iterFrom (IterState.new s)).2

end Schedule

/-! ### the macro `schedule!` -/

/-- one `{time} => {state}, comments… => {time}` link of the macro: kind, comment literals, end -/
abbrev MacroLink := Kind × List String × Nat

/-- the macro `schedule!`: each sequence `t0 => k1 => t1 => k2 => t2 …` adds
`from_ranges([prev..curr], kind, vec![comments].into())` to the schedule, left to right.
(`ExtendedTime::new(..).expect(..)` of the macro is outside this model: times are given in minutes.) -/
def scheduleMacro (seqs : List (Nat × List MacroLink)) : Schedule :=
  seqs.foldl (fun sch sq =>
    (sq.2.foldl (fun (acc : Schedule × Nat) (ln : MacroLink) =>
      (Schedule.addition acc.1 (Schedule.fromRanges [(acc.2, ln.2.2)] ln.1 (SortedVec.fromVec ln.2.1)), ln.2.2))
      (sch, sq.1)).1) Schedule.new

/-! ### `utils/range.rs` -/

/-- the `while let Some(item) = ranges.next()` loop inside the `from_fn` closure of `ranges_union`,
unrolled over all calls of the closure: `cur` is `current_opt` -/
def rangesUnionLoop (cur : Nat × Nat) : List (Nat × Nat) → List (Nat × Nat)
  | [] => [cur]
  | item :: rest =>
    if cur.2 ≥ item.1 then
      rangesUnionLoop (if item.2 > cur.2 then (cur.1, item.2) else cur) rest
    else cur :: rangesUnionLoop item rest

def sortPairInsert (x : Nat × Nat) : List (Nat × Nat) → List (Nat × Nat)
  | [] => [x]
  | y :: ys => if y.1 < x.1 then y :: sortPairInsert x ys else x :: y :: ys

/-- `ranges.sort_unstable_by(|r1, r2| r1.start.cmp(&r2.start))` (stable insertion sort; here the
order of equal starts does not influence the result, see `OH.Props.C14.rangesUnion_covers`) -/
def sortPairs : List (Nat × Nat) → List (Nat × Nat)
  | [] => []
  | x :: xs => sortPairInsert x (sortPairs xs)

/-- `ranges_union(ranges).collect()`.  Note: empty and inverted input ranges are NOT removed. -/
def rangesUnion (rs : List (Nat × Nat)) : List (Nat × Nat) :=
  match sortPairs rs with
  | [] => []
  | cur :: rest => rangesUnionLoop cur rest

/-- `range_intersection(range_1, range_2)` -/
def rangeIntersection (a b : Nat × Nat) : Option (Nat × Nat) :=
  let result := (max a.1 b.1, min a.2 b.2)
  if result.1 < result.2 then some result else none

/-- `RangeInclusive::wrapping_contains(&self, elt)` for `self = lo..=hi` -/
def wrappingContains {α : Type} [LE α] [DecidableRel (α := α) (· ≤ ·)] (lo hi x : α) : Bool :=
  if lo ≤ hi then decide (lo ≤ x ∧ x ≤ hi)
  else decide (lo ≤ x ∨ x ≤ hi)

end OH.Model
