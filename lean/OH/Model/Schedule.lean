import OH.Model.Syntax
import OH.Model.SortedVec
/-
Model of `opening-hours/src/schedule.rs` and `utils/range.rs`.  Times are minutes (0..2880).
Core-only imports.
-/
namespace OH.Model

structure TimeRange where
  s : Nat
  e : Nat
  kind : Kind
  comments : List String
  deriving DecidableEq, Repr, Inhabited

abbrev Schedule := List TimeRange

/-- stable insertion by key (model of `sort_unstable_by_key`; equal keys keep the input order, which is
what Rust's small-slice insertion sort does; the order of equal keys is observable only through D6) -/
def insertByStart (x : Nat × Nat) : List (Nat × Nat) → List (Nat × Nat)
  | [] => [x]
  | y :: ys => if x.1 ≤ y.1 then x :: y :: ys else y :: insertByStart x ys

def sortByStart : List (Nat × Nat) → List (Nat × Nat)
  | [] => []
  | x :: xs => insertByStart x (sortByStart xs)

/-- `ranges_union` -/
def mergeSorted (cur : Nat × Nat) : List (Nat × Nat) → List (Nat × Nat)
  | [] => [cur]
  | it :: rest =>
    if cur.2 ≥ it.1 then mergeSorted (cur.1, if it.2 > cur.2 then it.2 else cur.2) rest
    else cur :: mergeSorted it rest

def rangesUnion (rs : List (Nat × Nat)) : List (Nat × Nat) :=
  match sortByStart rs with
  | [] => []
  | c :: rest => mergeSorted c rest

/-- `range_intersection` -/
def rangeIntersection (a b : Nat × Nat) : Option (Nat × Nat) :=
  let r := (max a.1 b.1, min a.2 b.2)
  if r.1 < r.2 then some r else none

/-- `WrappingRange::wrapping_contains` for `RangeInclusive` -/
def wrappingContains (lo hi x : Nat) : Bool :=
  if lo ≤ hi then lo ≤ x && x ≤ hi else lo ≤ x || x ≤ hi

namespace Schedule

/-- the merging loop of `from_ranges` after the sort -/
def mergeLoop (k : Kind) : TimeRange → List TimeRange → List TimeRange
  | cur, [] => [cur]
  | cur, nxt :: rest =>
    if cur.e ≥ nxt.s then
      mergeLoop k { cur with e := max cur.e nxt.e, comments := SortedVec.union cur.comments nxt.comments } rest
    else cur :: mergeLoop k nxt rest

/-- `Schedule::from_ranges` -/
def fromRanges (rs : List (Nat × Nat)) (k : Kind) (c : List String) : Schedule :=
  match (sortByStart (rs.filter (fun r => r.1 < r.2))).map (fun r => (⟨r.1, r.2, k, c⟩ : TimeRange)) with
  | [] => []
  | t :: ts => mergeLoop k t ts

def isAlwaysClosed (s : Schedule) : Bool := s.all (·.kind == .closed)

/-- first pass of `insert`: ranges starting before the end of `ins`, clipped to its start;
ranges that become empty give their comments to `ins` -/
def before : List TimeRange → TimeRange → List TimeRange × TimeRange
  | [], ins => ([], ins)
  | t :: ts, ins =>
    if t.s < ins.e then
      let e' := min t.e ins.s
      if t.s < e' then
        let (r, ins') := before ts ins
        ({ t with e := e' } :: r, ins')
      else before ts { ins with comments := SortedVec.union ins.comments t.comments }
    else before ts ins

/-- second pass of `insert` -/
def after : List TimeRange → TimeRange → List TimeRange × TimeRange
  | [], ins => ([], ins)
  | t :: ts, ins =>
    if t.e > ins.s then
      let s' := max t.s ins.e
      if s' < t.e then
        let (r, ins') := after ts ins
        ({ t with s := s' } :: r, ins')
      else after ts { ins with comments := SortedVec.union ins.comments t.comments }
    else after ts ins

/-- coalescing with the last ranges of `before` (given reversed) -/
def absorbBefore : List TimeRange → TimeRange → List TimeRange × TimeRange
  | [], ins => ([], ins)
  | t :: ts, ins =>
    if t.e == ins.s && t.kind == ins.kind then
      absorbBefore ts { ins with s := t.s, comments := SortedVec.union t.comments ins.comments }
    else (t :: ts, ins)

def absorbAfter : List TimeRange → TimeRange → List TimeRange × TimeRange
  | [], ins => ([], ins)
  | t :: ts, ins =>
    if ins.e == t.s && t.kind == ins.kind then
      absorbAfter ts { ins with e := t.e, comments := SortedVec.union t.comments ins.comments }
    else (t :: ts, ins)

/-- `Schedule::insert` -/
def insert (s : Schedule) (ins : TimeRange) : Schedule :=
  let (bef, ins1) := before s ins
  let (aft, ins2) := after s ins1
  let (befRev, ins3) := absorbBefore bef.reverse ins2
  let (aft', ins4) := absorbAfter aft ins3
  befRev.reverse ++ ins4 :: aft'

/-- `Schedule::addition`: pops the ranges of `other` from the end -/
def addition (a : Schedule) (other : Schedule) : Schedule :=
  other.reverse.foldl insert a

/-- the `while let Some(next_range) = self.ranges.peek()` loop of `IntoIter::next`;
returns the yielded range and the remaining ranges -/
def extend : TimeRange → List TimeRange → TimeRange × List TimeRange
  | y, [] => (if y.kind == .closed then { y with e := 1440 } else y, [])
  | y, n :: rest =>
    if n.s > y.e ∧ y.kind != .closed then (y, n :: rest)
    else
      let y1 := if n.s > y.e then { y with e := n.s } else y
      if y1.kind != n.kind then (y1, n :: rest)
      else extend { y1 with e := n.e, comments := SortedVec.union y1.comments n.comments } rest

/-- `IntoIter` collected.  `pre_yield`'s `assert!(start < end, "infinite loop detected")` is the
only panic site; `iterAux` stops there and reports it. -/
def iterAux : Nat → Nat → List TimeRange → List TimeRange × Bool
  | 0, _, _ => ([], true)                      -- fuel exhausted: counted as the panic outcome
  | fuel + 1, lastEnd, ranges =>
    if lastEnd ≥ 1440 then ([], false)
    else
      let (y0, rest0) : TimeRange × List TimeRange :=
        match ranges with
        | r :: rest => if r.s == lastEnd then (r, rest) else (⟨lastEnd, r.s, .closed, []⟩, r :: rest)
        | [] => (⟨lastEnd, lastEnd, .closed, []⟩, [])
      let (y, rest) := extend y0 rest0
      if y.s < y.e then
        let (out, p) := iterAux fuel y.e rest
        (y :: out, p)
      else ([], true)

def iterFull (s : Schedule) : List TimeRange × Bool := iterAux (2 * s.length + 2) 0 s

def iter (s : Schedule) : List TimeRange := (iterFull s).1
def iterPanics (s : Schedule) : Bool := (iterFull s).2

end Schedule
end OH.Model
