import OH.Model.Eval
/-
C11 — sun events: the small model additions.

 * `F64`: doubles as far as `sunrise::Coordinates::new` looks at them.  That function performs NO
   arithmetic, only `is_nan` and four strict comparisons with the exactly representable constants
   ±90.0, ±180.0; every finite double is exactly a rational, so `finite (q : Rat)` with the order of
   the rationals is a faithful model of those comparisons (`-0.0` is `0`: IEEE compares them equal).
 * `coordsNew`: `sunrise::Coordinates::new` (sunrise-1.2.1/src/coordinates.rs:15-22), to which
   `opening_hours::localization::Coordinates::new` delegates (coordinates.rs:16-21).
 * `sunriseSunset`: the AST of the expression `sunrise-sunset`, `sunCtx ev`: a context without
   holidays whose locale has the event times `ev`.

NOT modelled: the `sunrise` crate's solar geometry (floating-point trigonometry:
`SolarDay::new`, `hour_angle`, `acos`, the cast `f64 as i64` of a Julian day) and `tzf-rs`'s polygon
lookup.  In the evaluator model the event times are DATA of the context (`Ctx.event`, minutes of the
day as `TzLocation::event_time` returns them: the local time of day of the UTC instant, its date
dropped, seconds dropped by `ExtendedTime::from(NaiveTime)`).
Core-only imports.
-/
namespace OH.Model.Sun
open OH.Model

inductive F64
  | nan
  | negInf
  | finite (q : Rat)
  | posInf
  deriving DecidableEq, Repr

/-- `f64::is_nan` -/
def F64.isNan : F64 → Bool
  | .nan => true
  | _ => false

/-- IEEE `<`: false as soon as one side is NaN -/
def F64.lt : F64 → F64 → Bool
  | .nan, _ | _, .nan => false
  | .negInf, .negInf => false
  | .negInf, _ => true
  | _, .negInf => false
  | .posInf, _ => false
  | .finite _, .posInf => true
  | .finite a, .finite b => decide (a < b)

/-- IEEE `<=`: false as soon as one side is NaN -/
def F64.le : F64 → F64 → Bool
  | .nan, _ | _, .nan => false
  | .negInf, _ => true
  | _, .posInf => true
  | .posInf, _ => false
  | _, .negInf => false
  | .finite a, .finite b => decide (a ≤ b)

/-- IEEE `>` is `<` with the sides swapped -/
def F64.gt (a b : F64) : Bool := b.lt a

/-- `sunrise::Coordinates::new(lat, lon)`:
`if lat.is_nan() || lon.is_nan() || lat < -90.0 || lat > 90.0 || lon < -180.0 || lon > 180.0 { return None }` -/
def coordsNew (lat lon : F64) : Option (F64 × F64) :=
  if lat.isNan || lon.isNan || lat.lt (.finite (-90)) || lat.gt (.finite 90)
      || lon.lt (.finite (-180)) || lon.gt (.finite 180) then none
  else some (lat, lon)

/-- the value of an IEEE-754 binary64 bit pattern -/
def F64.ofBits (bits : Nat) : F64 :=
  let sign : Nat := bits / 2 ^ 63 % 2
  let e : Nat := bits / 2 ^ 52 % 2048
  let m : Nat := bits % 2 ^ 52
  if e = 2047 then (if m = 0 then (if sign = 0 then .posInf else .negInf) else .nan)
  else
    let mant : Nat := if e = 0 then m else 2 ^ 52 + m
    let ex : Int := (if e = 0 then 1 else (e : Int)) - 1075
    let mag : Rat := if ex ≥ 0 then ((mant * 2 ^ ex.toNat : Nat) : Rat) else (mant : Rat) / ((2 ^ (-ex).toNat : Nat) : Rat)
    .finite (if sign = 0 then mag else -mag)

/-- `sunrise-sunset`: one rule, no day selector, one span between the two events, kind open -/
def sunriseSunset : Expr :=
  [⟨⟨[], [], [], []⟩, [⟨.variable .sunrise 0, .variable .sunset 0, false, none⟩], .open, .normal, []⟩]

/-- a context without holidays and bound whose locale gives the event times `ev` -/
def sunCtx (ev : Int → TimeEvent → Nat) : Ctx := ⟨[], [], ev, none⟩

end OH.Model.Sun
