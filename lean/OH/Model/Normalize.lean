import OH.Model.Syntax
import OH.Model.SortedVec
/-
Model of `OpeningHoursExpression::normalize` (`opening-hours-syntax/src/rules/mod.rs:57-86`) and of
`opening-hours-syntax/src/normalize/{mod,canonical,paving,frame}.rs`.  One definition per Rust
function, same control flow, bug for bug.

* `Frame`, `Framable`, `Bounded`  — frame.rs
* `MakeCanonical` (`try_make_canonical`, `into_type`, `try_from_iterator`, `into_selector`) — canonical.rs
* `Paving` (class mirroring the Rust trait), `Cell`, `Dim` (`cut_at`, `set`, `is_val`, `pop_filter`),
  `PSel` (`PavingSelector`: `dim_front`, `into_unpack_front`) — paving.rs
* `ruleseqToSelector`, `canonicalToSeq` — normalize/mod.rs
* `normalizeM`, `normalize` — rules/mod.rs

Values: `ExtendedTime` is a minute count (`Nat`, C19); `Year`/`Month`/`WeekNum`/`OrderedWeekday` are
`Nat` (weekday 0 = Monday, the order of `number_from_monday`); the value stored in the canonical paving
is `(Kind × List String)` (`(RuleKind, UniqueSortedVec<Arc<str>>)`; a `UniqueSortedVec` value is its
underlying sorted list, see OH.Model.SortedVec — normalisation never builds one, it only moves them).

Panic sites (the harness is built with overflow checks) are explicit `Except.error`s:
`Year::succ` (`u16` overflow at 65535), `Year::pred` (`u16` underflow at 0), `WeekNum::pred`
(`u8` overflow of `*self + 51`).  None is reachable from parser output
(`OH.Proofs.Normalize.normalizeG_ok`).  The other `unwrap`/index sites of paving.rs (`cuts.first()`,
`cuts.last()`, `cols[insert_pos - 1]`, `cuts[end_idx]`) are excluded by the representation invariant
`Shape` (cuts strictly increasing, one column between two cuts), which every operation preserves
(`OH.Proofs.Paving.reachable_wf`).

D13 (`paving.rs:209-217`): until commit 18307f0 `Dim::is_val` returned `val == default` on the first
range sticking out of the cuts (`isValBuggy`, kept for the record with its refutation theorem
`OH.Proofs.Paving.d13_refutes_isVal`); the repaired version (`isValFixed`, the current tree) differs in
one branch.  The flag `d13Repaired` selects which one `isVal`, `popFilter`, `canonicalToSeq` and
`normalize` use: a single definition switches the whole model.
Core-only imports.
-/
namespace OH.Model.Norm
open OH.Model

abbrev NM := Except String

/-! ## frame.rs -/

/-- `enum Frame<T> { Val(T), End }` over `T = Nat` -/
inductive Frame
  | val (n : Nat)
  | fin
  deriving DecidableEq, Repr, Inhabited

namespace Frame

/-- `impl Ord for Frame<T>` (`cmp … != Greater`) -/
def leB : Frame → Frame → Bool
  | val a, val b => decide (a ≤ b)
  | val _, fin => true
  | fin, val _ => false
  | fin, fin => true

/-- `impl Ord for Frame<T>` (`cmp … == Less`) -/
def ltB : Frame → Frame → Bool
  | val a, val b => decide (a < b)
  | val _, fin => true
  | fin, val _ => false
  | fin, fin => false

instance : LE Frame := ⟨fun a b => leB a b = true⟩
instance : LT Frame := ⟨fun a b => ltB a b = true⟩
instance : DecidableLE Frame := fun a b => inferInstanceAs (Decidable (leB a b = true))
instance : DecidableLT Frame := fun a b => inferInstanceAs (Decidable (ltB a b = true))

theorem le_def (a b : Frame) : a ≤ b ↔ leB a b = true := Iff.rfl
theorem lt_def (a b : Frame) : a < b ↔ ltB a b = true := Iff.rfl

end Frame

/-- `trait Framable` as a record: the four implementations are `yearF`, `monthF`, `weekF`, `wdayF` -/
structure Framable where
  frameStart : Nat
  frameEnd : Nat
  succ : Nat → NM Nat
  pred : Nat → NM Nat

/-- `impl Framable for Year` (`Year(u16)`): `Year(self.0 + 1)`, `Year(self.0 - 1)` -/
def yearF : Framable where
  frameStart := 1900
  frameEnd := 9999
  succ y := if y + 1 > 65535 then .error "frame.rs:57 Year::succ u16 overflow" else .ok (y + 1)
  pred y := if y = 0 then .error "frame.rs:61 Year::pred u16 underflow" else .ok (y - 1)

/-- `impl Framable for Month`: `Month::next`, `Month::prev` (months 1..12) -/
def monthF : Framable where
  frameStart := 1
  frameEnd := 12
  succ m := .ok (m % 12 + 1)
  pred m := .ok ((m + 10) % 12 + 1)

/-- `impl Framable for WeekNum` (`WeekNum(u8)`): `*self % 53 + 1`, `(*self + 51) % 53 + 1` -/
def weekF : Framable where
  frameStart := 1
  frameEnd := 53
  succ w := .ok (w % 53 + 1)
  pred w := if w + 51 > 255 then .error "frame.rs:74 WeekNum::pred u8 overflow" else .ok ((w + 51) % 53 + 1)

/-- `impl Framable for OrderedWeekday`: `Weekday::succ`, `Weekday::pred` (0 = Monday … 6 = Sunday) -/
def wdayF : Framable where
  frameStart := 0
  frameEnd := 6
  succ d := .ok ((d + 1) % 7)
  pred d := .ok ((d + 6) % 7)

/-- `Frame::to_range_strict` -/
def toRangeStrict (F : Framable) (lo hi : Nat) : NM (Frame × Frame) :=
  if hi = F.frameEnd then .ok (.val lo, .fin)
  else match F.succ hi with
    | .error p => .error p
    | .ok s => .ok (.val lo, .val s)

/-- `Frame::to_range_inclusive` -/
def toRangeInclusive (F : Framable) (r : Frame × Frame) : NM (Option (Nat × Nat)) :=
  match r with
  | (.val x, .val y) =>
    match F.pred y with
    | .error p => .error p
    | .ok py => .ok (some (x, py))
  | (.val x, .fin) => .ok (some (x, F.frameEnd))
  | (.fin, .val y) =>
    match F.pred y with
    | .error p => .error p
    | .ok py => .ok (some (F.frameEnd, py))
  | (.fin, .fin) => .ok none

/-- `trait Bounded`: `BOUND_START`, `BOUND_END` (excluded) -/
structure Bounded (T : Type) where
  boundStart : T
  boundEnd : T

/-- `Bounded::bounds` -/
def Bounded.bounds {T : Type} (B : Bounded T) : T × T := (B.boundStart, B.boundEnd)

/-- `impl<T: Framable> Bounded for Frame<T>` -/
def frameB (F : Framable) : Bounded Frame := ⟨.val F.frameStart, .fin⟩

/-- `impl Bounded for ExtendedTime`: `MIDNIGHT_00 .. MIDNIGHT_24` -/
def timeB : Bounded Nat := ⟨0, 1440⟩

/-- `Bounded::split_inverted_range` -/
def splitInvertedRange {T : Type} [LE T] [DecidableLE T] (B : Bounded T) (r : T × T) : List (T × T) :=
  if r.2 ≤ r.1 then [(B.boundStart, r.2), (r.1, B.boundEnd)] else [r]

/-! ## paving.rs -/

/-- `Default` of the value type of a paving (`RuleKind::default() = Closed`, `bool::default() = false`).
A dedicated class because `Inhabited Kind` (derived in OH.Model.Syntax) is `Kind.open`. -/
class HasDflt (V : Type) where
  dflt : V

instance : HasDflt (Kind × List String) := ⟨(.closed, [])⟩
instance : HasDflt Bool := ⟨false⟩

/-- `struct Cell<Val> { inner }` -/
structure Cell (V : Type) where
  inner : V
  deriving DecidableEq, Repr

/-- `struct Dim<T, U> { cuts, cols }` -/
structure Dim (T U : Type) where
  cuts : List T
  cols : List U
  deriving DecidableEq, Repr

/-- `struct PavingSelector<T, U> { range, tail }`; `EmptyPavingSelector` is `Unit` -/
structure PSel (T S : Type) where
  range : List (T × T)
  tail : S
  deriving DecidableEq, Repr

/-- `dim_front` -/
def PSel.dimFront {T S : Type} (tail : S) (range : List (T × T)) : PSel T S := ⟨range, tail⟩

/-- `into_unpack_front` -/
def PSel.intoUnpackFront {T S : Type} (s : PSel T S) : List (T × T) × S := (s.range, s.tail)

/-- `trait Paving` (`set`, `is_val`, `pop_filter`, `Default`), with `S = Self::Selector`,
`V = Self::Value`.  `isValG`/`popFilterG` take the D13 flag (`false` = the code as written).
The remaining fields are not in the Rust trait: `get`/`mem` are the pointwise reading used by the
theorems (a paving denotes a function `Pt → V`, a selector a set of points), `cutsOf`/`gjoin`/
`gempty`/`gridPts` enumerate the corner points of the grid spanned by all cuts, which the
termination measure of `canonicalToSeq` counts. -/
class Paving (V S Pt G : outParam Type) (P : Type) where
  empty : P
  set : P → S → V → P
  isValG : Bool → P → S → V → Bool
  popFilterG : Bool → P → (V → Bool) → Option ((V × S) × P)
  get : P → Pt → V
  mem : Pt → S → Bool
  cutsOf : P → G
  gjoin : G → G → G
  gempty : G
  gridPts : G → List Pt

section cell
variable {V : Type} [HasDflt V] [DecidableEq V]

/-- `impl Paving for Cell<Val>` -/
instance : Paving V Unit Unit Unit (Cell V) where
  empty := ⟨HasDflt.dflt⟩
  set _ _ v := ⟨v⟩
  isValG _ c _ v := decide (c.inner = v)
  popFilterG _ c f := if f c.inner then some ((c.inner, ()), ⟨HasDflt.dflt⟩) else none
  get c _ := c.inner
  mem _ _ := true
  cutsOf _ := ()
  gjoin _ _ := ()
  gempty := ()
  gridPts _ := [()]

end cell

section dim
variable {T U V S Pt G : Type}
variable [LT T] [LE T] [DecidableLT T] [DecidableLE T] [DecidableEq T]

/-- `Dim::cut_at`.  Rust: `binary_search`, `Vec::insert` at the found position, then one of five cases
for the columns.  Here: a *structurally recursive sorted insert with column duplication* — walking
the strictly increasing `cuts` (invariant `Shape`, OH.Proofs.Paving) from the left finds the same
position as the binary search; the five cases are: first cut ever (no column), second cut (one default
column), new last cut (push default), new first cut (insert default at 0), cut inside column
`insert_pos - 1` (that column is cloned). -/
def cutAt (dflt : U) : List T → List U → T → List T × List U
  | [], us, v => ([v], us)                                   -- `cuts.len() == 1`: no interval yet
  | [c], us, v =>
    if v < c then ([v, c], us ++ [dflt])                     -- `cuts.len() == 2`: `cols.push(default)`
    else if v = c then ([c], us)                             -- already cut
    else ([c, v], us ++ [dflt])                              -- `cuts.len() == 2` / added at the end
  | c0 :: c1 :: cs, [], _ => (c0 :: c1 :: cs, [])            -- ill-shaped (excluded by `Shape`)
  | c0 :: c1 :: cs, u :: us, v =>
    if v < c0 then (v :: c0 :: c1 :: cs, dflt :: u :: us)    -- `insert_pos == 0`
    else if v = c0 then (c0 :: c1 :: cs, u :: us)            -- already cut
    else if v < c1 then (c0 :: v :: c1 :: cs, u :: u :: us)  -- `cols.insert(pos, cols[pos - 1].clone())`
    else ((c0 :: (cutAt dflt (c1 :: cs) us v).1), (u :: (cutAt dflt (c1 :: cs) us v).2))

/-- the column containing `x`: column `i` spans `[cuts[i], cuts[i+1])` -/
def colAt : List T → List U → T → Option U
  | c0 :: c1 :: cs, u :: us, x => if c0 ≤ x ∧ x < c1 then some u else colAt (c1 :: cs) us x
  | _, _, _ => none

variable [HasDflt V] [DecidableEq V] [Paving V S Pt G U]

/-- the loop `for (col_start, col_val) in cuts.zip(&mut cols)` of `Dim::set` -/
def setCols (lo hi : T) (t : S) (v : V) : List T → List U → List U
  | c :: cs, u :: us => (if lo ≤ c ∧ c < hi then Paving.set u t v else u) :: setCols lo hi t v cs us
  | _, us => us

/-- one iteration of the `for range in ranges` loop of `Dim::set` -/
def Dim.setRange (d : Dim T U) (r : T × T) (t : S) (v : V) : Dim T U :=
  ⟨(cutAt Paving.empty (cutAt Paving.empty d.cuts d.cols r.1).1 (cutAt Paving.empty d.cuts d.cols r.1).2 r.2).1,
   setCols r.1 r.2 t v
    (cutAt Paving.empty (cutAt Paving.empty d.cuts d.cols r.1).1 (cutAt Paving.empty d.cuts d.cols r.1).2 r.2).1
    (cutAt Paving.empty (cutAt Paving.empty d.cuts d.cols r.1).1 (cutAt Paving.empty d.cuts d.cols r.1).2 r.2).2⟩

/-- `Dim::set` -/
def Dim.set (d : Dim T U) (sel : PSel T S) (v : V) : Dim T U :=
  sel.range.foldl (fun d r => d.setRange r sel.tail v) d

/-- the inner loop of `Dim::is_val` over `cuts.zip(cuts.skip(1)).zip(cols)`: every column that
overlaps `[lo, hi)` has the value on the tail selector -/
def colsAllVal (fx : Bool) (lo hi : T) (t : S) (v : V) : List T → List U → Bool
  | c0 :: c1 :: cs, u :: us =>
    (if c0 < hi ∧ lo < c1 then Paving.isValG fx u t v else true) && colsAllVal fx lo hi t v (c1 :: cs) us
  | _, _ => true

/-- `range.start < *cuts.first().unwrap() || range.end > *cuts.last().unwrap()`; the `unwrap`s are
reached only when `cols` is not empty, hence (invariant `Shape`) `cuts` is not empty either -/
def sticksOut (cuts : List T) (r : T × T) : Bool :=
  match cuts.head?, cuts.getLast? with
  | some f, some l => decide (r.1 < f) || decide (l < r.2)
  | _, _ => true

/-- the loop `for range in ranges` of `Dim::is_val`.  `fx = false` is the code as written: on the
first range that is not inside `[cuts.first, cuts.last]` (or when there is no column) it *returned*
`val == default` — without looking at the columns this range overlaps nor at the remaining ranges
(D13).  `fx = true` is the current, repaired code: in that case only a non-default `val` is refuted at
once (`if *val != default { return false; }`), otherwise the columns are checked like for any other
range. -/
def isValRanges (fx : Bool) (d : Dim T U) (t : S) (v : V) : List (T × T) → Bool
  | [] => true
  | r :: rs =>
    if r.2 ≤ r.1 then isValRanges fx d t v rs            -- "Wrapping ranges are not supported": continue
    else if d.cols.isEmpty || sticksOut d.cuts r then
      if fx then
        if v ≠ HasDflt.dflt then false
        else colsAllVal fx r.1 r.2 t v d.cuts d.cols && isValRanges fx d t v rs
      else decide (v = HasDflt.dflt)                      -- old paving.rs:216 `return *val == default`
    else colsAllVal fx r.1 r.2 t v d.cuts d.cols && isValRanges fx d t v rs

/-- `Dim::is_val` -/
def Dim.isValG (fx : Bool) (d : Dim T U) (sel : PSel T S) (v : V) : Bool :=
  isValRanges fx d sel.tail v sel.range

/-- the `while end_idx < self.cols.len()` loop of `Dim::pop_filter` and the final push, as a
recursion over the cuts and columns from `end_idx` on.  `run = some cuts[start_idx]` when
`start_idx < end_idx` (a run of columns is being collected), `none` when `start_idx = end_idx`. -/
def scanRuns (fx : Bool) (t : S) (v : V) : Option T → List T → List U → List (T × T)
  | run, c :: cs, u :: us =>
    if Paving.isValG fx u t v then scanRuns fx t v (some (run.getD c)) cs us
    else (match run with | some s => [(s, c)] | none => []) ++ scanRuns fx t v none cs us
  | run, [c], [] => match run with | some s => [(s, c)] | none => []
  | _, _, _ => []

/-- the `find_map` of `Dim::pop_filter` followed by the run scan: value, tail selector, ranges, and the
columns with the first matching one popped -/
def popCols (fx : Bool) (f : V → Bool) : List T → List U → Option (V × S × List (T × T) × List U)
  | c :: cs, u :: us =>
    match Paving.popFilterG fx u f with
    | some ((v, t), u') => some (v, t, scanRuns fx t v (some c) cs us, u' :: us)
    | none =>
      match popCols fx f cs us with
      | some (v, t, rg, us') => some (v, t, rg, u :: us')
      | none => none
  | _, _ => none

/-- `Dim::pop_filter` -/
def Dim.popFilterG (fx : Bool) (d : Dim T U) (f : V → Bool) : Option ((V × PSel T S) × Dim T U) :=
  match popCols fx f d.cuts d.cols with
  | none => none
  | some (v, t, rg, cols') =>
    some ((v, ⟨rg, t⟩), Dim.set (⟨d.cuts, cols'⟩ : Dim T U) ⟨rg, t⟩ HasDflt.dflt)

/-- pointwise reading of a `Dim`: points outside the cuts read as the default -/
def Dim.get (d : Dim T U) (x : T × Pt) : V :=
  match colAt d.cuts d.cols x.1 with
  | some u => Paving.get u x.2
  | none => HasDflt.dflt

/-- selector membership: some range `[start, end)` holds the first coordinate (an inverted or empty
range holds nothing, as in `set`) and the tail selector holds the rest -/
def PSel.mem (x : T × Pt) (sel : PSel T S) : Bool :=
  sel.range.any (fun r => decide (r.1 ≤ x.1) && decide (x.1 < r.2)) && Paving.mem (P := U) x.2 sel.tail

/-- union of two lists without repeating the members of the first -/
def lunion (a b : List T) : List T := a ++ b.filter (fun t => decide (t ∉ a))

/-- all cuts of a `Dim`, level by level -/
def Dim.cutsOf (d : Dim T U) : List T × G :=
  (d.cuts, d.cols.foldr (fun u g => Paving.gjoin (P := U) (Paving.cutsOf u) g) (Paving.gempty (P := U)))

/-- `impl Paving for Dim<T, U>` -/
instance : Paving V (PSel T S) (T × Pt) (List T × G) (Dim T U) where
  empty := ⟨[], []⟩
  set := Dim.set
  isValG := Dim.isValG
  popFilterG := Dim.popFilterG
  get := Dim.get
  mem := PSel.mem (U := U)
  cutsOf := Dim.cutsOf
  gjoin a b := (lunion a.1 b.1, Paving.gjoin (P := U) a.2 b.2)
  gempty := ([], Paving.gempty (P := U))
  gridPts g := g.1.flatMap (fun t => (Paving.gridPts (P := U) g.2).map (fun y => (t, y)))

end dim

/-- D13 switch: `true` = `Dim::is_val` of the current tree (repaired in /repo commit 18307f0),
`false` = the code as it was before (early `return *val == default`) -/
def d13Repaired : Bool := true

section api
variable {V S Pt G P : Type} [Paving V S Pt G P]

def isValBuggy (p : P) (s : S) (v : V) : Bool := Paving.isValG false p s v
def isValFixed (p : P) (s : S) (v : V) : Bool := Paving.isValG true p s v
/-- `Paving::is_val` of the current tree -/
def isVal (p : P) (s : S) (v : V) : Bool := Paving.isValG d13Repaired p s v
/-- `Paving::pop_filter` of the current tree -/
def popFilter (p : P) (f : V → Bool) : Option ((V × S) × P) := Paving.popFilterG d13Repaired p f

end api

/-! ## canonical.rs -/

abbrev Val := Kind × List String

abbrev Paving1D (T V : Type) := Dim T (Cell V)
abbrev Paving2D (T U V : Type) := Dim T (Paving1D U V)
abbrev Paving3D (T U W V : Type) := Dim T (Paving2D U W V)
abbrev Paving4D (T U W X V : Type) := Dim T (Paving3D U W X V)
abbrev Paving5D (T U W X Y V : Type) := Dim T (Paving4D U W X Y V)

abbrev Sel1D (T : Type) := PSel T Unit
abbrev Sel2D (T U : Type) := PSel T (Sel1D U)
abbrev Sel3D (T U W : Type) := PSel T (Sel2D U W)
abbrev Sel4D (T U W X : Type) := PSel T (Sel3D U W X)
abbrev Sel5D (T U W X Y : Type) := PSel T (Sel4D U W X Y)

/-- `type Canonical` : time × year × month × week × weekday -/
abbrev Canonical := Paving5D Nat Frame Frame Frame Frame Val
/-- `type CanonicalSelector` -/
abbrev CanonicalSelector := Sel5D Nat Frame Frame Frame Frame
/-- the day part of a canonical selector / the type of `days_covered` -/
abbrev DaySel4 := Sel4D Frame Frame Frame Frame
abbrev DaysCovered := Paving4D Frame Frame Frame Frame Bool
/-- a point of the canonical space: (minute, year, month, week, weekday) -/
abbrev Point5 := Nat × Frame × Frame × Frame × Frame × Unit
abbrev Point4 := Frame × Frame × Frame × Frame × Unit

/-- `MakeCanonical::try_from_iterator`: the `for elem in iter` loop, `?` on the first element that is
not canonical, `split_inverted_range` on each range -/
def tryFromIterGo {α T : Type} [LE T] [DecidableLE T] (B : Bounded T) (mk : α → NM (Option (T × T))) :
    List α → NM (Option (List (T × T)))
  | [] => .ok (some [])
  | x :: xs =>
    match mk x with
    | .error p => .error p
    | .ok none => .ok none
    | .ok (some r) =>
      match tryFromIterGo B mk xs with
      | .error p => .error p
      | .ok none => .ok none
      | .ok (some rs) => .ok (some (splitInvertedRange B r ++ rs))

/-- `MakeCanonical::try_from_iterator` -/
def tryFromIterator {α T : Type} [LE T] [DecidableLE T] (B : Bounded T) (mk : α → NM (Option (T × T)))
    (l : List α) : NM (Option (List (T × T))) :=
  match tryFromIterGo B mk l with
  | .error p => .error p
  | .ok none => .ok none
  | .ok (some rs) => .ok (some (if rs.isEmpty then [B.bounds] else rs))

/-- `filter_map(|rg| Self::into_type(rg))` -/
def filterMapM {α β : Type} (f : α → NM (Option β)) : List α → NM (List β)
  | [] => .ok []
  | x :: xs =>
    match f x with
    | .error p => .error p
    | .ok r =>
      match filterMapM f xs with
      | .error p => .error p
      | .ok rs => .ok (match r with | some y => y :: rs | none => rs)

/-- `MakeCanonical::into_selector` -/
def intoSelector {α T : Type} [DecidableEq T] (B : Bounded T) (intoType : T × T → NM (Option α))
    (canonical : List (T × T)) (removeFullRanges : Bool) : NM (List α) :=
  filterMapM intoType (canonical.filter (fun rg => !(removeFullRanges && rg == B.bounds)))

/-- `impl MakeCanonical for YearRange` -/
def YearRange.tryMakeCanonical (r : YearRange) : NM (Option (Frame × Frame)) :=
  if r.step ≠ 1 then .ok none
  else match toRangeStrict yearF r.lo r.hi with
    | .error p => .error p
    | .ok rg => .ok (some rg)

def YearRange.intoType (rg : Frame × Frame) : NM (Option YearRange) :=
  match toRangeInclusive yearF rg with
  | .error p => .error p
  | .ok none => .ok none
  | .ok (some (lo, hi)) => .ok (some ⟨lo, hi, 1⟩)

/-- `impl MakeCanonical for MonthdayRange` -/
def MonthdayRange.tryMakeCanonical (r : MonthdayRange) : NM (Option (Frame × Frame)) :=
  match r with
  | .month lo hi none =>
    match toRangeStrict monthF lo hi with
    | .error p => .error p
    | .ok rg => .ok (some rg)
  | _ => .ok none

def MonthdayRange.intoType (rg : Frame × Frame) : NM (Option MonthdayRange) :=
  match toRangeInclusive monthF rg with
  | .error p => .error p
  | .ok none => .ok none
  | .ok (some (lo, hi)) => .ok (some (.month lo hi none))

/-- `impl MakeCanonical for WeekRange` -/
def WeekRange.tryMakeCanonical (r : WeekRange) : NM (Option (Frame × Frame)) :=
  if r.step ≠ 1 then .ok none
  else match toRangeStrict weekF r.lo r.hi with
    | .error p => .error p
    | .ok rg => .ok (some rg)

def WeekRange.intoType (rg : Frame × Frame) : NM (Option WeekRange) :=
  match toRangeInclusive weekF rg with
  | .error p => .error p
  | .ok none => .ok none
  | .ok (some (lo, hi)) => .ok (some ⟨lo, hi, 1⟩)

def allTrue5 : List Bool := [true, true, true, true, true]

/-- `impl MakeCanonical for WeekDayRange` -/
def WeekDayRange.tryMakeCanonical (r : WeekDayRange) : NM (Option (Frame × Frame)) :=
  match r with
  | .fixed lo hi offset ns ne =>
    if offset = 0 ∧ ns = allTrue5 ∧ ne = allTrue5 then
      match toRangeStrict wdayF lo hi with
      | .error p => .error p
      | .ok rg => .ok (some rg)
    else .ok none
  | .holiday .. => .ok none

def WeekDayRange.intoType (rg : Frame × Frame) : NM (Option WeekDayRange) :=
  match toRangeInclusive wdayF rg with
  | .error p => .error p
  | .ok none => .ok none
  | .ok (some (lo, hi)) => .ok (some (.fixed lo hi 0 allTrue5 allTrue5))

/-- `impl MakeCanonical for TimeSpan` (`ExtendedTime::BOUND_END` = 24:00) -/
def TimeSpan.tryMakeCanonical (t : TimeSpan) : NM (Option (Nat × Nat)) :=
  match t with
  | ⟨.fixed s, .fixed e, false, none⟩ =>
    if s ≥ e ∨ e > timeB.boundEnd then .ok none else .ok (some (s, e))
  | _ => .ok none

def TimeSpan.intoType (rg : Nat × Nat) : NM (Option TimeSpan) :=
  .ok (some ⟨.fixed rg.1, .fixed rg.2, false, none⟩)

/-! ## normalize/mod.rs -/

/-- `ruleseq_to_selector`: the five `try_from_iterator(..)?` in source order (weekday, week, monthday,
year, time) -/
def ruleseqToSelector (rs : Rule) : NM (Option CanonicalSelector) :=
  match tryFromIterator (frameB wdayF) WeekDayRange.tryMakeCanonical rs.day.weekday with
  | .error p => .error p
  | .ok none => .ok none
  | .ok (some wd) =>
  match tryFromIterator (frameB weekF) WeekRange.tryMakeCanonical rs.day.week with
  | .error p => .error p
  | .ok none => .ok none
  | .ok (some wk) =>
  match tryFromIterator (frameB monthF) MonthdayRange.tryMakeCanonical rs.day.monthday with
  | .error p => .error p
  | .ok none => .ok none
  | .ok (some md) =>
  match tryFromIterator (frameB yearF) YearRange.tryMakeCanonical rs.day.year with
  | .error p => .error p
  | .ok none => .ok none
  | .ok (some yr) =>
  match tryFromIterator timeB TimeSpan.tryMakeCanonical rs.time with
  | .error p => .error p
  | .ok none => .ok none
  | .ok (some tm) => .ok (some ⟨tm, ⟨yr, ⟨md, ⟨wk, ⟨wd, ()⟩⟩⟩⟩⟩)

/-- the `find_map` over `[Open, Unknown, Closed]` of `canonical.pop_filter(..)`; a `pop_filter` that
returns `None` leaves the paving unchanged -/
def popKinds (fx : Bool) (p : Canonical) : Option ((Val × CanonicalSelector) × Canonical) :=
  match Paving.popFilterG fx p (fun (v : Val) => v.1 == Kind.open) with
  | some r => some r
  | none =>
    match Paving.popFilterG fx p (fun (v : Val) => v.1 == Kind.unknown) with
    | some r => some r
    | none => Paving.popFilterG fx p (fun (v : Val) => v.1 == Kind.closed && !v.2.isEmpty)

/-- the body of the `from_fn` closure of `canonical_to_seq` after the `pop_filter`:
the rule and the updated `days_covered` -/
def emitRule (fx : Bool) (dc : DaysCovered) (v : Val) (sel : CanonicalSelector) : NM (Rule × DaysCovered) :=
  let daySel : DaySel4 := sel.tail
  let op := if Paving.isValG fx dc daySel false then RuleOp.normal else RuleOp.additional
  let dc' : DaysCovered := Paving.set dc daySel true
  match intoSelector (frameB yearF) YearRange.intoType daySel.range true with
  | .error p => .error p
  | .ok year =>
  match intoSelector (frameB monthF) MonthdayRange.intoType daySel.tail.range true with
  | .error p => .error p
  | .ok monthday =>
  match intoSelector (frameB weekF) WeekRange.intoType daySel.tail.tail.range true with
  | .error p => .error p
  | .ok week =>
  match intoSelector (frameB wdayF) WeekDayRange.intoType daySel.tail.tail.tail.range true with
  | .error p => .error p
  | .ok weekday =>
  match intoSelector timeB TimeSpan.intoType sel.range false with
  | .error p => .error p
  | .ok time => .ok (⟨⟨year, monthday, week, weekday⟩, time, v.1, op, v.2⟩, dc')

/-- the grid points: corners of the grid spanned by all cuts of `p`, level by level -/
def gridOf (p : Canonical) : List Point5 := Paving.gridPts (P := Canonical) (Paving.cutsOf p)

/-- the points of `live` that are still not the default in `p` -/
def stillLive (p : Canonical) (live : List Point5) : List Point5 :=
  live.filter (fun x => Paving.get p x ≠ (HasDflt.dflt : Val))

/-- `canonical_to_seq` collected.  The Rust iterator calls `pop_filter` until it returns `None`.
Termination measure: `live.length`, where `live` is the list of grid points (fixed once, from the
paving `normalize` built) whose value is still not the default.  A successful `pop_filter` resets a
non-empty box whose lower corner is a grid point and never makes a point non-default, so the list
strictly shrinks (`OH.Proofs.Normalize.popKinds_live_lt`, from `OH.Proofs.Paving.pop_live_lt`); the model
tests exactly this and reports `error` if a pop made no progress — a branch proved unreachable
(`OH.Proofs.Normalize.canonicalToSeq_ok`), kept so that
the definition does not *assume* the termination argument.  The number of non-default *cells* is not
a measure: resetting a box can split a neighbouring cell in three
(`OH.Proofs.Paving.nonDefaultCells_not_decreasing`). -/
def canonicalToSeqG (fx : Bool) (p : Canonical) (dc : DaysCovered) (live : List Point5) : NM (List Rule) :=
  match popKinds fx p with
  | none => .ok []
  | some ((v, sel), p') =>
    if _h : (stillLive p' live).length < live.length then
      match emitRule fx dc v sel with
      | .error e => .error e
      | .ok (r, dc') =>
        match canonicalToSeqG fx p' dc' (stillLive p' live) with
        | .error e => .error e
        | .ok rs => .ok (r :: rs)
    else .error "model: canonical_to_seq made no progress (unbounded iteration)"
termination_by live.length

/-- `canonical_to_seq` -/
def canonicalToSeq (fx : Bool) (p : Canonical) : NM (List Rule) :=
  canonicalToSeqG fx p Paving.empty (stillLive p (gridOf p))

/-! ## rules/mod.rs -/

/-- the selector `day_selector.dim_front([Bounded::bounds()])` (whole day, same days) -/
def fullDaySelector (sel : CanonicalSelector) : CanonicalSelector := ⟨[timeB.bounds], sel.tail⟩

/-- the body of the `while let` loop of `normalize` for a rule whose selector is `sel` -/
def pavingStep (p : Canonical) (r : Rule) (sel : CanonicalSelector) : Canonical :=
  let p1 : Canonical :=
    if r.op = .normal ∧ r.kind ≠ .closed then Paving.set p (fullDaySelector sel) (HasDflt.dflt : Val) else p
  Paving.set p1 sel (r.kind, r.comments)

/-- the `while let Some(rule) = rules_queue.peek()` loop: the paving of the canonical prefix and the
remaining queue (from the first fallback rule or the first rule that is not canonical) -/
def foldPrefix (p : Canonical) : List Rule → NM (Canonical × List Rule)
  | [] => .ok (p, [])
  | r :: rest =>
    if r.op = .fallback then .ok (p, r :: rest)
    else match ruleseqToSelector r with
      | .error e => .error e
      | .ok none => .ok (p, r :: rest)
      | .ok (some sel) => foldPrefix (pavingStep p r sel) rest

/-- `OpeningHoursExpression::normalize`, panics explicit -/
def normalizeG (fx : Bool) (e : Expr) : NM Expr :=
  match foldPrefix Paving.empty e with
  | .error p => .error p
  | .ok (p, rest) =>
    match canonicalToSeq fx p with
    | .error p => .error p
    | .ok rs => .ok (rs ++ rest)

def normalizeM (e : Expr) : NM Expr := normalizeG d13Repaired e

/-- `OpeningHoursExpression::normalize`; total on parser output (`OH.Props.C13.C13_no_panic`), the
`.error` outcome (a Rust panic) is mapped to the input -/
def normalize (e : Expr) : Expr :=
  match normalizeM e with
  | .ok r => r
  | .error _ => e

end OH.Model.Norm
