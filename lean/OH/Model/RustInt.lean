/-
Rust's machine integers as the translator `translators/rs2lean.py` uses them (support library of
`OH/Generated/Arith.lean`; hand-written, small, core-only).

A value of a Rust integer type `T` is an `Int` together with the type, which the translator tracks
and passes to every operation as a `Ty`.  The semantics is that of the build the harness uses
(`overflow-checks = true`): every place where the Rust code can leave the straight line is an
explicit outcome of `R α = Except Err α`:

* `+ - *` and unary `-` on `T`: the mathematical result if it is representable in `T`, otherwise
  `.error (.overflow site)` (Rust panics there with overflow checks on and wraps otherwise; the
  theorems show the outcome is unreachable, which covers both builds);
* `/` and `%`: truncation towards zero, remainder with the sign of the dividend (`Int.tdiv`,
  `Int.tmod`); a zero divisor is `.error (.divZero site)`; `T::MIN / -1` and `T::MIN % -1` are
  `.error (.overflow site)` (they panic in every build);
* `<<`, `>>`: a shift amount `≥` the bit width is `.error (.overflow site)`; `<<` drops the bits shifted
  out (no overflow check on the value, as in Rust);
* `e as T`: two's-complement wrap-around (`wrap`);  `try_into()`: a range test (`tryInto`);
  `checked_add/sub/mul`: `none` exactly when the mathematical result is not representable;
* `expect`/`unwrap`/`assert!`: `.error (.panic message)`.

`site` is `"<function>:<line>"`; no theorem mentions a site, so moving a line changes nothing.
The lemmas `omega`/`simp` need to see through these definitions are in `OH/Proofs/RustInt.lean`.
-/
namespace OH.Model.RustInt

inductive Ty where
  | u8 | u16 | u32 | u64 | usize | i8 | i16 | i32 | i64 | isize
  deriving DecidableEq, Repr

namespace Ty

/-- bit width (`usize`/`isize`: 64, the harness target is x86-64) -/
def bits : Ty → Nat
  | u8 | i8 => 8
  | u16 | i16 => 16
  | u32 | i32 => 32
  | u64 | i64 | usize | isize => 64

def signed : Ty → Bool
  | i8 | i16 | i32 | i64 | isize => true
  | _ => false

/-- `T::MIN`, as a literal (so that `simp` reduces it to a numeral `omega` can use) -/
def min : Ty → Int
  | u8 | u16 | u32 | u64 | usize => 0
  | i8 => -128
  | i16 => -32768
  | i32 => -2147483648
  | i64 | isize => -9223372036854775808

/-- `T::MAX`, as a literal -/
def max : Ty → Int
  | u8 => 255
  | u16 => 65535
  | u32 => 4294967295
  | u64 | usize => 18446744073709551615
  | i8 => 127
  | i16 => 32767
  | i32 => 2147483647
  | i64 | isize => 9223372036854775807

/-- `2 ^ bits`, as a literal -/
def modulus : Ty → Int
  | u8 | i8 => 256
  | u16 | i16 => 65536
  | u32 | i32 => 4294967296
  | u64 | i64 | usize | isize => 18446744073709551616

end Ty

/-- the ways a translated function leaves the straight line -/
inductive Err where
  /-- arithmetic overflow at `site` (a panic with overflow checks on, wrap-around otherwise) -/
  | overflow (site : String)
  /-- division or remainder by zero at `site` (a panic in every build) -/
  | divZero (site : String)
  /-- `expect` / `unwrap` / `assert!` with this message -/
  | panic (msg : String)
  deriving DecidableEq, Repr

abbrev R (α : Type) := Except Err α

/-- sequencing (written out instead of `>>=` so that proofs unfold one definition) -/
@[inline] def bnd {α β : Type} (x : R α) (f : α → R β) : R β :=
  match x with
  | .ok a => f a
  | .error e => .error e

/-- `x` is a value of type `t` -/
def InRange (t : Ty) (x : Int) : Prop := t.min ≤ x ∧ x ≤ t.max

instance (t : Ty) (x : Int) : Decidable (InRange t x) := by unfold InRange; exact inferInstance

/-- the result of an arithmetic operation on `t`: representable or overflow -/
def chk (t : Ty) (site : String) (x : Int) : R Int :=
  if t.min ≤ x ∧ x ≤ t.max then .ok x else .error (.overflow site)

def add (t : Ty) (site : String) (a b : Int) : R Int := chk t site (a + b)
def sub (t : Ty) (site : String) (a b : Int) : R Int := chk t site (a - b)
def mul (t : Ty) (site : String) (a b : Int) : R Int := chk t site (a * b)
def neg (t : Ty) (site : String) (a : Int) : R Int := chk t site (-a)

/-- `a / b`: the only unrepresentable quotient is `T::MIN / -1` -/
def div (t : Ty) (site : String) (a b : Int) : R Int :=
  if b = 0 then .error (.divZero site) else chk t site (a.tdiv b)

/-- `a % b` -/
def rem (t : Ty) (site : String) (a b : Int) : R Int :=
  if b = 0 then .error (.divZero site)
  else if t.signed = true ∧ a = t.min ∧ b = -1 then .error (.overflow site)
  else .ok (a.tmod b)

/-- `x as T` -/
def wrap (t : Ty) (x : Int) : Int := (x - t.min) % t.modulus + t.min

/-- `x.try_into()` towards `t` (`Ok` ↦ `some`) -/
def tryInto (t : Ty) (x : Int) : Option Int :=
  if t.min ≤ x ∧ x ≤ t.max then some x else none

def checkedAdd (t : Ty) (a b : Int) : Option Int := tryInto t (a + b)
def checkedSub (t : Ty) (a b : Int) : Option Int := tryInto t (a - b)
def checkedMul (t : Ty) (a b : Int) : Option Int := tryInto t (a * b)

/-- `a.saturating_sub(b)`: the difference, clamped to the type -/
def saturatingSub (t : Ty) (a b : Int) : Int :=
  if a - b < t.min then t.min else if a - b > t.max then t.max else a - b

/-! ### bit operations (the translator emits them for unsigned types only) -/

def band (a b : Int) : Int := ((a.toNat &&& b.toNat : Nat) : Int)
def bor (a b : Int) : Int := ((a.toNat ||| b.toNat : Nat) : Int)
def bxor (a b : Int) : Int := ((a.toNat ^^^ b.toNat : Nat) : Int)

/-- `a << b` on an unsigned `t` (`b` of any integer type) -/
def shl (t : Ty) (site : String) (a b : Int) : R Int :=
  if 0 ≤ b ∧ b < t.bits then .ok ((((a.toNat <<< b.toNat) % t.modulus.toNat : Nat) : Int))
  else .error (.overflow site)

/-- `a >> b` on an unsigned `t` -/
def shr (t : Ty) (site : String) (a b : Int) : R Int :=
  if 0 ≤ b ∧ b < t.bits then .ok (((a.toNat >>> b.toNat : Nat) : Int))
  else .error (.overflow site)

/-- index of the least set bit of a non-zero `n`, found by halving -/
def lowestBit (n : Nat) : Nat :=
  if n = 0 then 0
  else if n % 2 = 1 then 0
  else lowestBit (n / 2) + 1
termination_by n
decreasing_by omega

/-- `x.trailing_zeros()` on an unsigned `t`: the bit width for `0` -/
def trailingZeros (t : Ty) (x : Int) : Int :=
  if x.toNat = 0 then (t.bits : Int) else (lowestBit x.toNat : Int)

/-- `x.count_ones()` on an unsigned `t` -/
def countOnes (t : Ty) (x : Int) : Int :=
  ((((List.range t.bits).filter x.toNat.testBit).length : Nat) : Int)

/-! ### generic code over an ordered type, `std::ops::Range`, `std::ops::RangeInclusive`, `std::cmp::max/min`

A generic parameter `T: PartialOrd` / `T: Ord` of a translated function is a Lean type parameter with
decidable `≤` and `<`: the comparison operators of the trait.  NOTHING else is assumed of them (no law
relating `<` to `≤`, no totality): a theorem about a generated generic definition that needs such a law
has to instantiate `T`, and then the instance is Lean's order on `Nat`/`Int`.  A shared reference `&T` is
translated as the value (`&A: PartialOrd<&B>` compares the referents). -/

/-- `std::ops::Range<T>` (`start..end`): the two public fields -/
structure Range (T : Type) where
  start : T
  «end» : T
  deriving DecidableEq, Repr

/-- `std::ops::RangeInclusive<T>` (`start..=end`, never iterated: the `exhausted` flag stays `false`);
`start()` / `end()` are the accessors -/
structure RangeInclusive (T : Type) where
  start : T
  «end» : T
  deriving DecidableEq, Repr

/-- `RangeBounds::contains` of `start..end`: `start <= x && x < end` -/
def Range.contains {T : Type} [LE T] [LT T] [DecidableLE T] [DecidableLT T] (r : Range T) (x : T) : Bool :=
  decide (r.start ≤ x) && decide (x < r.«end»)

/-- `RangeBounds::contains` of `start..=end`: `start <= x && x <= end` -/
def RangeInclusive.contains {T : Type} [LE T] [DecidableLE T] (r : RangeInclusive T) (x : T) : Bool :=
  decide (r.start ≤ x) && decide (x ≤ r.«end»)

/-- `std::cmp::max(a, b)` = `max_by(a, b, Ord::cmp)`: `a` if `cmp(a, b) == Greater`, else `b` -/
def cmpMax {T : Type} [LT T] [DecidableLT T] (a b : T) : T := if b < a then a else b

/-- `std::cmp::min(a, b)` = `min_by(a, b, Ord::cmp)`: `b` if `cmp(a, b) == Greater`, else `a` -/
def cmpMin {T : Type} [LT T] [DecidableLT T] (a b : T) : T := if b < a then b else a

end OH.Model.RustInt
