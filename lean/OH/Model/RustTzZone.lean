import OH.Model.RustTz
import OH.Model.Tz
/-
The meaning, in the transition-table model `OH/Model/Tz.lean`, of the chrono / chrono-tz trait methods that the
translated `Localize for TzLocation<Tz>` calls on its generic `Tz: TimeZone` (named parameters
`ext_from_local_datetime`, `ext_with_timezone`, `ext_naive_local` of the generated definitions; the theorems of
`OH/Props/ArithC09Tz.lean` instantiate `Tz := Zone`, `DT := DateTime` and pass these BY NAME).  Hand-written, small.

* `Tz` is a `Zone` (initial offset + transition table); a `DateTime<Tz>` is the pair (UTC instant in ns, the zone it is
  expressed in);
* `tz.from_local_datetime(&n)`: the instants `fromLocal z n` whose local reading is `n`, in increasing order —
  none: `LocalResult::None`, one: `Single`, more: `Ambiguous(first, last)`;
* `dt.with_timezone(&tz)` (= `tz.from_utc_datetime(&dt.naive_utc())`): the same instant in the zone `tz`;
* `dt.naive_local()`: `naiveChecked` (`checked_add_offset(..).expect("Local time out of range for `NaiveDateTime`")`).

TRUSTED: that chrono-tz computes this for the table extracted from it — exactly the statement "modelled, not verified:
chrono-tz's database ..., chrono's from_local_datetime (0/1/2 instants)" already in the trusted base of C09, tied by the
`tz.*` differential suites; nothing is added to it except the spelling of each call below.  (For a table with three or
more readings of one local time chrono-tz only inspects the spans adjacent to the one its binary search finds; the
model's `earliest?` / `latest?` already make the choice `first` / `last`, impossible for `zoneOK` tables.)
-/
namespace OH.Model.RustTzZone
open OH.Model OH.Model.Tz OH.Model.RustInt

/-- a `chrono::DateTime<Tz>`: the absolute instant (UTC reading, ns) and the zone value it carries -/
structure DateTime where
  utc : Int
  zone : Zone

/-- `TimeZone::from_local_datetime` -/
def from_local_datetime (z : Zone) (n : Int) : LocalResult DateTime :=
  match fromLocal z n with
  | [] => .none
  | [u] => .single ⟨u, z⟩
  | a :: b :: rest => .ambiguous ⟨a, z⟩ ⟨(b :: rest).getLast (List.cons_ne_nil b rest), z⟩

/-- `DateTime::with_timezone` -/
def with_timezone (dt : DateTime) (z : Zone) : DateTime := ⟨dt.utc, z⟩

/-- `DateTime::naive_local` -/
def naive_local (dt : DateTime) : R Int :=
  match naiveChecked dt.zone dt.utc with
  | .ok n => .ok n
  | .error _ => .error (.panic "Local time out of range for `NaiveDateTime`")

end OH.Model.RustTzZone
