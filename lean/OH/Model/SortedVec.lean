/-
Model of `opening-hours-syntax/src/sorted_vec.rs` (`UniqueSortedVec<T>`), generic in the element
type through `Ord` (Rust: `T: Ord`).  A value is the underlying `Vec<T>` as a `List α`.
Core-only imports: this file is linked into the compiled driver.
-/
namespace OH.Model.SortedVec

variable {α : Type} [Ord α]

/-- insertion into a sorted list (helper of the model of `sort_unstable`) -/
def insertSorted (x : α) : List α → List α
  | [] => [x]
  | y :: ys => if compare x y == .gt then y :: insertSorted x ys else x :: y :: ys

/-- `vec.sort_unstable()`: for a total order the result is determined up to the order of equal
elements, which `dedup` then removes; modelled by insertion sort. -/
def sort : List α → List α
  | [] => []
  | x :: xs => insertSorted x (sort xs)

/-- `vec.dedup()`: removes consecutive repeated elements (`==` is `compare = .eq` for `Ord` types) -/
def dedup : List α → List α
  | [] => []
  | [x] => [x]
  | x :: y :: rest => if compare x y == .eq then dedup (y :: rest) else x :: dedup (y :: rest)

/-- `From<Vec<T>>` -/
def fromVec (v : List α) : List α := dedup (sort v)

/-- `union(self, other)`, the five-way match with recursion on the popped tails -/
def union (a b : List α) : List α :=
  match ha : a.getLast?, hb : b.getLast? with
  | _, none => a                                   -- (_, [])
  | none, _ => b                                   -- ([], _)
  | some tx, some ty =>
    match a.head?, b.head? with
    | some hx, some hy =>
      if compare tx hy == .lt then a ++ b          -- tail_x < head_y
      else if compare ty hx == .lt then b ++ a     -- tail_y < head_x
      else
        match compare tx ty with
        | .gt => union a.dropLast b ++ [tx]
        | .lt => union a b.dropLast ++ [ty]
        | .eq => union a.dropLast b.dropLast ++ [tx]
    | _, _ => a                                    -- unreachable: both non-empty
termination_by a.length + b.length
decreasing_by
  all_goals
    have la : a ≠ [] := by intro h; simp [h] at ha
    have lb : b ≠ [] := by intro h; simp [h] at hb
    have := List.length_pos_iff.mpr la
    have := List.length_pos_iff.mpr lb
    simp only [List.length_dropLast]
    omega

/-- `to_ref(&self)`: the same elements seen through `Borrow::borrow` (`f`); the Rust doc comment
"the order is assumed to be equivalent for borrowed content" is the `Borrow` contract. -/
def toRef {β : Type} (f : α → β) (v : List α) : List β := v.map f

/-- `slice::binary_search` on `v[lo..hi)`: `Ok(i)` ↦ `(true, i)`, `Err(i)` ↦ `(false, i)`.
For a strictly increasing vector the result does not depend on the probing strategy. -/
def binarySearch (v : Array α) (x : α) (lo hi : Nat) : Bool × Nat :=
  if h : lo < hi then
    let mid := lo + (hi - lo) / 2
    match v[mid]? with
    | none => (false, lo)
    | some y =>
      match compare y x with
      | .eq => (true, mid)
      | .lt => binarySearch v x (mid + 1) hi
      | .gt => binarySearch v x lo mid
  else (false, lo)
termination_by hi - lo
decreasing_by all_goals omega

/-- `contains(&self, x)` -/
def contains (v : List α) (x : α) : Bool := (binarySearch v.toArray x 0 v.length).1

/-- `find_first_following(&self, x)` -/
def findFirstFollowing (v : List α) (x : α) : Option α :=
  v[(binarySearch v.toArray x 0 v.length).2]?

end OH.Model.SortedVec
