import OH.Model.Calendar
import OH.Model.Syntax
import OH.Model.Schedule
/-
Model of the evaluator: `opening-hours/src/filter/date_filter.rs`, `filter/time_filter.rs`,
`utils/dates.rs` and the day-level part of `opening_hours.rs` (`schedule_at`,
`next_change_hint`, `is_constant`).  One definition per Rust function, same control flow,
bug for bug.  Every site where the Rust code can panic is an `Except.error` naming the site
(the harness is built with overflow checks, so integer overflows are panics too).
Core-only imports.
-/
namespace OH.Model
open OH.Model.Cal

abbrev M := Except String

/-- Evaluation context (`Context<L>` seen from the evaluator): the two holiday calendars as
strictly increasing day lists (C15 ties `CompactCalendar` to this reading), the locale's event
times in minutes of the day, and the interval-size bound in nanoseconds. -/
structure Ctx where
  pub : List Day
  school : List Day
  event : Day → TimeEvent → Nat
  bound : Option Int

/-- `NoLocation::event_time` -/
def defaultEvent (_ : Day) : TimeEvent → Nat
  | .dawn => 360 | .sunrise => 420 | .sunset => 1140 | .dusk => 1200

def Ctx.default : Ctx := ⟨[], [], defaultEvent, none⟩

def calContains (c : List Day) (d : Day) : Bool := c.contains d

/-- `CompactCalendar::first_after`: least member strictly after `d` -/
def calFirstAfter : List Day → Day → Option Day
  | [], _ => none
  | x :: xs, d => if d < x then some x else calFirstAfter xs d

/-- `add_days_saturating(date, days)`: `Duration::try_days` is `None` beyond ±(i64::MAX / 86_400_000)
days and `checked_add_signed` is `None` when the result is not representable; both fall back to
`NaiveDate::MIN` / `NaiveDate::MAX` according to the sign of `days` -/
def addDaysSat (d : Int) (n : Int) : Int :=
  if n < -106751991167 ∨ n > 106751991167 then (if n < 0 then minDay else maxDay)
  else match addDays? d n with
    | some r => r
    | none => if n < 0 then minDay else maxDay

/-- `offset.saturating_neg()` on `i64` -/
def satNeg (n : Int) : Int := if n ≤ -9223372036854775808 then 9223372036854775807 else -n

/-- `DateOffset::apply` (the two `debug_assert!`s cannot fail: either the shifted date has the
target weekday or it saturated at the corresponding end of the representable dates) -/
def DateOffset.apply (o : DateOffset) (d : Int) : M Int :=
  let d1 := addDaysSat d o.days
  match o.wday with
  | .none => .ok d1
  | .prev target =>
    let diff := (7 + weekday d1 - target) % 7
    let r := addDaysSat d1 (-(diff : Int))
    if weekday r == target % 7 || r == minDay then .ok r else .error "day.rs:DateOffset::apply debug_assert prev"
  | .next target =>
    let diff := (7 + target - weekday d1) % 7
    let r := addDaysSat d1 diff
    if weekday r == target % 7 || r == maxDay then .ok r else .error "day.rs:DateOffset::apply debug_assert next"

/-- `valid_ymd_before` / `valid_ymd_after`: candidates `day-1, …, 28` after the exact date; `none` when
no candidate can be built, which is the case exactly for a year chrono cannot represent -/
def firstValidBelow (y : Int) (m : Nat) (succ : Bool) : Nat → Option Day
  | 0 => none
  | d + 1 =>
    if d + 1 < 28 then none
    else match ofYmd? y m (d + 1) with
      | some r => if succ then (match succ? r with | some r' => some r' | none => firstValidBelow y m succ d) else some r
      | none => firstValidBelow y m succ d

def validYmdBefore (y : Int) (m d : Nat) : Option Day :=
  match ofYmd? y m d with
  | some r => some r
  | none => firstValidBelow y m false (d - 1)

def validYmdAfter (y : Int) (m d : Nat) : Option Day :=
  match ofYmd? y m d with
  | some r => some r
  | none => firstValidBelow y m true (d - 1)

/-- `ensure_increasing_iter` -/
def ensureIncAux (last : Day) : List Day → List Day
  | [] => []
  | x :: xs => if x ≤ last then ensureIncAux last xs else x :: ensureIncAux x xs

def ensureIncreasing : List Day → List Day
  | [] => []
  | x :: xs => x :: ensureIncAux x xs

theorem length_dropWhile_le {α} (p : α → Bool) (l : List α) : (l.dropWhile p).length ≤ l.length := by
  induction l with
  | nil => simp
  | cons x xs ih => simp only [List.dropWhile]; split <;> simp <;> omega

/-- `intervals_from_bounds` on already increasing bounds; inclusive intervals.  Once the starts are
used up the stream ends: an end without a start before it closes nothing.
The `unreachable!()` arm (start > end after the skip) cannot be taken: ends below the start were
just dropped. -/
def intervalsGo : List Day → List Day → List (Day × Day)
  | [], _ => []
  | s :: ss, es =>
    match h : es.dropWhile (· < s) with
    | [] => (s, dateEnd) :: intervalsGo ss []
    | e :: et => if s == e then (s, e) :: intervalsGo ss et else (s, e) :: intervalsGo ss (e :: et)
termination_by ss es => ss.length + es.length
decreasing_by
  all_goals simp_wf
  all_goals
    have := length_dropWhile_le (· < s) es
    rw [h] at this
    simp at this
    omega

def intervalsFromBounds (starts ends : List Day) : List (Day × Day) :=
  intervalsGo (ensureIncreasing starts) (ensureIncreasing ends)

/-- `is_open_from_intervals` -/
def isOpenFromIntervals (d : Day) (ivs : List (Day × Day)) : Bool :=
  match ivs.find? (fun r => r.2 ≥ d) with
  | none => false
  | some r => r.1 ≤ d && d ≤ r.2

/-- `next_change_from_intervals` -/
def nextChangeFromIntervals (d : Day) (ivs : List (Day × Day)) : Day :=
  match ivs.find? (fun r => r.2 ≥ d) with
  | none => dateEnd
  | some r => if r.1 ≤ d then (succ? r.2).getD dateEnd else r.1

/-- `Option<NaiveDate>` ordered with `None` least (derived `Ord` on `Option`) -/
def optMin : Option Day → Option Day → Option Day
  | none, _ => none
  | _, none => none
  | some a, some b => some (min a b)

/-- `iter.min()` over hints, `Some(DATE_END)` for an empty list -/
def hintsMin : List (Option Day) → Option Day
  | [] => some dateEnd
  | [h] => h
  | h :: hs => optMin h (hintsMin hs)

/-! ### year ranges -/

def YearRange.filter (r : YearRange) (d : Day) : M Bool :=
  let y := year d
  if y < 0 ∨ y > 65535 then .ok false
  else
    let y := y.toNat
    if wrappingContains r.lo r.hi y then
      if r.step = 0 then .error "date_filter.rs:YearRange::filter remainder by zero"
      else .ok ((if y ≥ r.lo then y - r.lo else r.lo - y) % r.step == 0)
    else .ok false

def YearRange.hint (r : YearRange) (d : Day) : M (Option Day) :=
  let y := year d
  if y < 0 ∨ y > 65535 then .ok (some dateEnd)
  else
    let cur := y.toNat
    if r.lo > r.hi then .ok none
    else if r.hi < cur then .ok (some dateEnd)
    else do
      -- computed on `i32`: nothing overflows
      let next : Int ←
        if cur < r.lo then pure (r.lo : Int)
        else if r.step = 1 then pure ((r.hi : Int) + 1)
        else if r.step = 0 then .error "date_filter.rs:YearRange::hint remainder by zero"
        else if (cur - r.lo) % r.step = 0 then pure ((cur : Int) + 1)
        else
          let x := cur - r.lo
          pure ((r.lo : Int) + ((r.step * ((x + r.step - 1) / r.step) : Nat) : Int))
      pure (some ((ofYmd? next 1 1).getD dateEnd))

/-! ### month and date ranges -/

/-- `Month::next` -/
def monthNext (m : Nat) : Nat := m % 12 + 1

/-- `date_on_year` -/
def dateOnYear (ds : DateSpec) (forYear : Int) (after : Bool) : M (Option Day) :=
  match ds with
  | .easter y => easter (match y with | some y => (y : Int) | none => forYear)
  | .fixed none m d => .ok (if after then validYmdAfter forYear m d else validYmdBefore forYear m d)
  | .fixed (some y) m d =>
    if (y : Int) = forYear then .ok (if after then validYmdAfter y m d else validYmdBefore y m d)
    else .ok none

/-- projections of a bound on the years `ys`, shifted by its offset -/
def boundsOn (ds : DateSpec) (off : DateOffset) (after : Bool) : List Int → M (List Day)
  | [] => .ok []
  | y :: ys => do
    let rest ← boundsOn ds off after ys
    match ← dateOnYear ds y after with
    | none => pure rest
    | some d => do
      let d' ← off.apply d
      pure (d' :: rest)

/-- `date_year` -/
def dateYear : DateSpec → Option Int
  | .fixed y _ _ => y.map (fun (n : Nat) => (n : Int))
  | .easter y => y.map (fun (n : Nat) => (n : Int))

/-- `year_before_offset`: the year of the day once the day offset of a bound is taken away from it
(`add_days_saturating(date, offset.day_offset.saturating_neg()).year()`); the search windows of a
dated range are centred on it.  (Irreducible: the elaborator must not evaluate calendar arithmetic when
it generates the equations of the functions below; `unfold yearBeforeOffset` opens it.) -/
@[irreducible] def yearBeforeOffset (d : Int) (o : DateOffset) : Int := year (addDaysSat d (satNeg o.days))

/-- the lazy `(y0-1..=y0+2).filter_map(end on y).map(offset).find(>= start)` of
`single_interval_from_bounds` -/
def firstEndFrom (e : DateSpec) (eo : DateOffset) (start : Int) : List Int → M (Option Int)
  | [] => .ok none
  | y :: ys => do
    match ← dateOnYear e y false with
    | none => firstEndFrom e eo start ys
    | some d => do
      let d' ← eo.apply d
      if d' ≥ start then pure (some d') else firstEndFrom e eo start ys

/-- `single_interval_from_bounds`: `none` when the start carries no year (or cannot be built) -/
def singleInterval (s : DateSpec) (so : DateOffset) (e : DateSpec) (eo : DateOffset) : M (Option (Int × Int)) :=
  match dateYear s with
  | none => .ok none
  | some sy => do
    match ← dateOnYear s sy true with
    | none => pure none
    | some s0 => do
      let start ← so.apply s0
      match dateYear e with
      | some ey => do
        match ← dateOnYear e ey false with
        | none => pure none
        | some e0 => do
          let stop ← eo.apply e0
          pure (some (start, stop))
      | none => do
        let y0 := yearBeforeOffset start eo
        match ← firstEndFrom e eo start [y0 - 1, y0, y0 + 1, y0 + 2] with
        | some stop => pure (some (start, stop))
        | none => pure (some (start, dateEnd))

/-- `single_day_intervals(..)` consumed by `find(|rg| rg.end >= date)`: first occurrence of the
single day `m/dd` (years where it exists only) whose shifted end is not before `d` -/
def singleDayFind (m dd : Nat) (so eo : DateOffset) (d : Int) : List Int → M (Option (Int × Int))
  | [] => .ok none
  | y :: ys =>
    match ofYmd? y m dd with
    | none => singleDayFind m dd so eo d ys
    | some f => do
      let s ← so.apply f
      let e ← eo.apply f
      if e ≥ d then pure (some (s, e)) else singleDayFind m dd so eo d ys

def yearsAround (y : Int) (before after : Nat) : List Int :=
  (List.range (before + after + 1)).map (fun (i : Nat) => y - (before : Int) + (i : Int))

def MonthdayRange.filter (r : MonthdayRange) (d : Day) : M Bool :=
  match r with
  | .month lo hi yr =>
    let inYear := (year d % 65536).toNat        -- `date.year() as u16`
    .ok ((yr.getD inYear == inYear) && wrappingContains lo hi (Cal.month d))
  | .date s so e eo => do
    let ys := yearBeforeOffset d so
    let ye := yearBeforeOffset d eo
    match s, (s == e : Bool) with
    | .fixed fy m dd, true =>
      -- a single day, with or without a year: only the years where it exists
      let years := match fy with | some fy => [(fy : Int)] | none => yearsAround ye 1 8
      match ← singleDayFind m dd so eo d years with
      | none => pure false
      | some r => pure (r.1 ≤ d && d ≤ r.2)
    | _, _ =>
      match ← singleInterval s so e eo with
      | some iv => pure (iv.1 ≤ d && d ≤ iv.2)
      | none =>
        let starts ← boundsOn s so true (yearsAround ys 2 2)
        let ends ← boundsOn e eo false (yearsAround ye 2 2)
        pure (isOpenFromIntervals d (intervalsFromBounds starts ends))

def MonthdayRange.hint (r : MonthdayRange) (d : Day) : M (Option Day) :=
  match r with
  | .month lo hi none =>
    let m := Cal.month d
    if monthNext hi == lo then .ok (some dateEnd)
    else
      let naive := if wrappingContains lo hi m then ofYmd? (year d) (monthNext hi) 1 else ofYmd? (year d) lo 1
      match naive with
      | none => .ok none
      | some n => if n > d then .ok (some n) else .ok (withYear? n (year n + 1))
  | .month lo hi (some yr) =>
    let y : Int := yr
    let firstDay (m : Nat) : Option Int := ofYmd? y m 1
    let lastDay (m : Nat) : Option Int :=
      if m < 12 then (ofYmd? y (m + 1) 1).bind pred? else ofYmd? y 12 31
    if lo ≤ hi then
      match firstDay lo, lastDay hi with
      | some a, some b => .ok (some (nextChangeFromIntervals d (intervalsFromBounds [a] [b])))
      | _, _ => .ok none
    else
      match firstDay 1, firstDay lo, lastDay hi, lastDay 12 with
      | some a1, some a2, some b1, some b2 =>
        .ok (some (nextChangeFromIntervals d (intervalsFromBounds [a1, a2] [b1, b2])))
      | _, _, _, _ => .ok none
  | .date s so e eo => do
    let ys := yearBeforeOffset d so
    let ye := yearBeforeOffset d eo
    match s, (s == e : Bool) with
    | .fixed fy m dd, true =>
      let years := match fy with | some fy => [(fy : Int)] | none => yearsAround ye 1 10
      match ← singleDayFind m dd so eo d years with
      | none => pure (some dateEnd)
      | some r => pure (some (if r.1 ≤ d then (succ? r.2).getD dateEnd else r.1))
    | _, _ =>
      match ← singleInterval s so e eo with
      | some iv => pure (some (nextChangeFromIntervals d [iv]))
      | none =>
        let starts ← boundsOn s so true (yearsAround ys 2 10)
        let ends ← boundsOn e eo false (yearsAround ye 2 10)
        pure (some (nextChangeFromIntervals d (intervalsFromBounds starts ends)))

/-! ### weekday and holiday ranges -/

/-- `utils::dates::count_days_in_month` -/
def countDaysInMonth (d : Day) : M Nat :=
  match addOneMonth? d with
  | none => .ok 31
  | some nxt =>
    let n := firstOfMonth nxt - firstOfMonth d
    if 0 ≤ n ∧ n ≤ 255 then .ok n.toNat else .error "dates.rs:count_days_in_month time not monotonic"

def nthGet (l : List Bool) (i : Nat) (site : String) : M Bool :=
  match l[i]? with
  | some b => .ok b
  | none => .error (site ++ ": index out of bounds")

/-- non-wrapping case of `WeekDayRange::Fixed::filter` -/
def wdayFixedSimple (lo hi : Nat) (offset : Int) (ns ne : List Bool) (d : Day) : M Bool := do
  let d' := addDaysSat d (satNeg offset)
  let dom := dayOfMonth d'
  let posStart := (dom - 1) / 7
  let cnt ← countDaysInMonth d'
  if cnt < dom then .error "date_filter.rs:WeekDayRange::filter u8 subtraction overflow"
  else
    let posEnd := (cnt - dom) / 7
    if wrappingContains lo hi (weekday d') then do
      if ← nthGet ns posStart "date_filter.rs:nth_from_start" then pure true
      else nthGet ne posEnd "date_filter.rs:nth_from_end"
    else pure false

def WeekDayRange.filter (ctx : Ctx) (r : WeekDayRange) (d : Day) : M Bool :=
  match r with
  | .fixed lo hi offset ns ne =>
    if lo > hi then do
      -- wrapping range: `start..=Sun` or `Mon..=end`
      if ← wdayFixedSimple lo 6 offset ns ne d then pure true
      else wdayFixedSimple 0 hi offset ns ne d
    else wdayFixedSimple lo hi offset ns ne d
  | .holiday k offset => do
    let d' := addDaysSat d (satNeg offset)
    pure (calContains (match k with | .pub => ctx.pub | .school => ctx.school) d')

def WeekDayRange.hint (ctx : Ctx) (r : WeekDayRange) (d : Day) : M (Option Day) :=
  match r with
  | .fixed .. => .ok none
  | .holiday k offset => do
    let cal := match k with | .pub => ctx.pub | .school => ctx.school
    let d' := addDaysSat d (satNeg offset)
    if calContains cal d' then pure (succ? d)
    else match calFirstAfter cal d' with
      | none => pure (some dateEnd)
      | some f => pure (some (addDaysSat f offset))

/-! ### week ranges -/

def WeekRange.filter (r : WeekRange) (d : Day) : M Bool :=
  let w := isoWeek d
  if wrappingContains r.lo r.hi w then
    if r.step = 0 then .error "date_filter.rs:WeekRange::filter remainder by zero"
    else .ok ((w - r.lo) % r.step == 0)        -- `saturating_sub`
  else .ok false

/-- the `while res <= date` loop of `WeekRange::next_change_hint` -/
def weekHintLoop (d : Day) (w : Nat) : Nat → Day → M (Option Day)
  | 0, _ => .error "model: weekHintLoop fuel exhausted"
  | fuel + 1, res =>
    if res ≤ d then
      match ofIsoYwd? (isoYear res + 1) w 0 with
      | none => .ok none
      | some r => weekHintLoop d w fuel r
    else .ok (some res)

def WeekRange.hint (r : WeekRange) (d : Day) : M (Option Day) :=
  let w := isoWeek d
  if r.lo > r.hi then .ok none
  else do
    let weeknum : Option Nat ←
      if wrappingContains r.lo r.hi w then
        if r.step = 1 then pure (some (r.hi % 54 + 1))
        else if r.step = 0 then .error "date_filter.rs:WeekRange::hint remainder by zero"
        else if (w - r.lo) % r.step = 0 then pure (some (w % 54 + 1))
        else pure none
      else pure (some r.lo)
    match weeknum with
    | none => pure none
    | some wn =>
      match ofIsoYwd? (isoYear d) wn 0 with
      | none => pure none
      | some res => weekHintLoop d wn ((d - res) / 364 + 3).toNat res

/-! ### selectors -/

/-- `impl DateFilter for [T]`: empty ⇒ true, else any (short-circuit) -/
def anyM {α} (f : α → M Bool) : List α → M Bool
  | [] => .ok false
  | x :: xs => do if ← f x then pure true else anyM f xs

def listFilter {α} (f : α → M Bool) (l : List α) : M Bool :=
  if l.isEmpty then .ok true else anyM f l

def mapM' {α β} (f : α → M β) : List α → M (List β)
  | [] => .ok []
  | x :: xs => do
    let y ← f x
    let ys ← mapM' f xs
    pure (y :: ys)

def listHint {α} (f : α → M (Option Day)) (l : List α) : M (Option Day) := do
  let hs ← mapM' f l
  pure (hintsMin hs)

/-- `DaySelector::filter` (`&&` short-circuits left to right) -/
def DaySelector.filter (ctx : Ctx) (s : DaySelector) (d : Day) : M Bool := do
  if !(← listFilter (·.filter d) s.year) then return false
  if !(← listFilter (·.filter d) s.monthday) then return false
  if !(← listFilter (·.filter d) s.week) then return false
  listFilter (·.filter ctx d) s.weekday

def DaySelector.hint (ctx : Ctx) (s : DaySelector) (d : Day) : M (Option Day) := do
  if s.isEmpty then return some dateEnd
  let a ← listHint (·.hint d) s.year
  let b ← listHint (·.hint d) s.monthday
  let c ← listHint (·.hint d) s.week
  let e ← listHint (·.hint ctx d) s.weekday
  pure (optMin (optMin a b) (optMin c e))

/-! ### time selectors -/

/-- `Time::as_naive` -/
def Time.asNaive (ctx : Ctx) (d : Day) : Time → Nat
  | .fixed m => m
  | .variable ev off =>
    let s : Int := (ctx.event d ev : Int) + off
    -- `add_minutes(offset).unwrap_or(MIDNIGHT_00)`
    if s < 0 ∨ s > 2880 then 0 else s.toNat

/-- `TimeSpan::as_naive` -/
def TimeSpan.asNaive (ctx : Ctx) (d : Day) (t : TimeSpan) : M (Nat × Nat) :=
  let s := t.start.asNaive ctx d
  let e := t.stop.asNaive ctx d
  if s < e then .ok (s, e)
  else
    -- `end.add_hours(24).unwrap_or(MIDNIGHT_48)`, then `max(start, wrapped_end)`
    let w := if e + 1440 > 2880 then 2880 else e + 1440
    .ok (s, max s w)

/-- `time_selector_intervals_at` -/
def intervalsAt (ctx : Ctx) (ts : List TimeSpan) (d : Day) : M (List (Nat × Nat)) := do
  let rs ← mapM' (·.asNaive ctx d) ts
  pure (rangesUnion (rs.filterMap (fun r => rangeIntersection r (0, 1440))))

/-- `time_selector_intervals_at_next_day` -/
def intervalsAtNextDay (ctx : Ctx) (ts : List TimeSpan) (d : Day) : M (List (Nat × Nat)) := do
  let rs ← mapM' (·.asNaive ctx d) ts
  pure (rangesUnion ((rs.filterMap (fun r => rangeIntersection r (1440, 2880))).map
    (fun r => (r.1 - 1440, r.2 - 1440))))

/-! ### day schedules -/

/-- `rule_sequence_schedule_at` -/
def ruleScheduleAt (ctx : Ctx) (r : Rule) (d : Day) : M (Option Schedule) := do
  let today ←
    if ← r.day.filter ctx d then do
      let rs ← intervalsAt ctx r.time d
      pure (some (Schedule.fromRanges rs r.kind r.comments))
    else pure none
  let yesterday ←
    match pred? d with
    | none => pure none
    | some p =>
      if ← r.day.filter ctx p then do
        let rs ← intervalsAtNextDay ctx r.time p
        pure (some (Schedule.fromRanges rs r.kind r.comments))
      else pure none
  match today, yesterday with
  | some a, some b => pure (some (a.addition b))
  | some a, none => pure (some a)
  | none, y => pure y

/-- the loop body of `schedule_at` -/
def scheduleStep (ctx : Ctx) (d : Day) (st : Bool × Option Schedule) (r : Rule) :
    M (Bool × Option Schedule) := do
  let (prevMatch, prevEval) := st
  let currMatch ← r.day.filter ctx d
  let currEval ← ruleScheduleAt ctx r d
  match r.op, r.kind with
  | .normal, .open | .normal, .unknown =>
    pure (currMatch || prevMatch,
      if currMatch then currEval
      else match prevEval, currEval with
        | some p, some c => some (p.addition c)
        | p, c => p <|> c)
  | .additional, _ | .normal, .closed =>
    pure (prevMatch || currMatch,
      match prevEval, currEval with
      | some p, some c => some (p.addition c)
      | p, c => p <|> c)
  | .fallback, _ =>
    if !((prevEval.map Schedule.isAlwaysClosed).getD true) then pure (prevMatch, prevEval)
    else pure (currMatch, currEval)

def foldM' {σ α} (f : σ → α → M σ) : σ → List α → M σ
  | s, [] => .ok s
  | s, x :: xs => do
    let s' ← f s x
    foldM' f s' xs

/-- `OpeningHours::schedule_at` -/
def scheduleAt (ctx : Ctx) (e : Expr) (d : Day) : M Schedule :=
  if !(dateStart ≤ d ∧ d < dateEnd) then .ok []
  else do
    let (_, ev) ← foldM' (scheduleStep ctx d) (false, none) e
    pure (ev.getD [])

/-- `OpeningHoursExpression::is_constant` -/
def isConstant (e : Expr) : Bool :=
  match e.getLast? with
  | none => true
  | some last =>
    let kind := last.kind
    match e.reverse.find? (fun rs => rs.day.isEmpty || !is0024 rs.time || rs.kind != kind) with
    | none => kind == .closed
    | some tail => tail.kind == kind && tail.isConstant && tail.op != .fallback

/-- `OpeningHours::next_change_hint` -/
def nextChangeHint (ctx : Ctx) (e : Expr) (d : Day) : M (Option Day) :=
  if d < dateStart then .ok (some dateStart)
  else if isConstant e then .ok (some dateEnd)
  else do
    let hs ← mapM' (fun (r : Rule) => do
      if isImmutableFullDay r.time then r.day.hint ctx d
      else
        -- `matched_today_or_yesterday` (`||` short-circuits; `pred_opt().is_some_and(..)`)
        let m ← (do
          if ← r.day.filter ctx d then pure true
          else match pred? d with
            | none => pure false
            | some p => r.day.filter ctx p)
        if !m then r.day.hint ctx d else pure (succ? d)) e
    -- `.min().flatten()`: `None` for an empty rule list
    match hs with
    | [] => pure none
    | _ => pure (hintsMin hs)

end OH.Model
