/-
Proleptic Gregorian calendar as chrono implements it (`NaiveDate`), over `Int`.

A day is chrono's `num_days_from_ce()` (0001-01-01 ↦ 1).  The definitions are *structural*:
`yearStart` is the closed-form count of days before Jan 1, the year of a day is found by a
bounded downward search against the monotone `yearStart`, the month by a 12-entry table —
so the inverse laws are nearly definitional and everything else is `omega` (DESIGN §3.1).
Modelled, not verified: chrono itself; the tie is the `cal.*` correspondence suite (every day
1900-01-01…9999-12-31 in the thorough tier).
Core-only imports.
-/
namespace OH.Model.Cal

/-- `Day` is notation (not an `abbrev`, which would hide hypotheses from `omega`) for `Int` -/
scoped notation "Day" => Int

def isLeap (y : Int) : Bool := y % 4 == 0 && (y % 100 != 0 || y % 400 == 0)

def yearLen (y : Int) : Int := if isLeap y then 366 else 365

/-- number of days before Jan 1 of year `y`, counted from 0001-01-01 (floor divisions) -/
def yearStart (y : Int) : Int := 365 * (y - 1) + (y - 1) / 4 - (y - 1) / 100 + (y - 1) / 400

/-- downward search for the year containing day index `z` (0-based from 0001-01-01) -/
def findYear (z : Int) : Nat → Int → Int
  | 0, y => y
  | fuel + 1, y => if yearStart y ≤ z then y else findYear z fuel (y - 1)

/-- an over-estimate and an under-estimate of the year of 0-based day index `z` -/
def yearHigh (z : Int) : Int := if 0 ≤ z then z / 365 + 1 else z / 366 + 1
def yearLow (z : Int) : Int := if 0 ≤ z then z / 366 + 1 else z / 365 + 1

/-- year of 0-based day index `z` -/
def yearOfIdx (z : Int) : Int := findYear z (yearHigh z - yearLow z).toNat (yearHigh z)

/-- year of a day (`date.year()`) -/
def year (d : Day) : Int := yearOfIdx (d - 1)

/-- 0-based ordinal of the day in its year (`date.ordinal0()`) -/
def ordinal0 (d : Day) : Int := d - 1 - yearStart (year d)

/-- days before the first of month `m` (1..12; 13 = year length) -/
def monthStart (leap : Bool) (m : Nat) : Int :=
  match m with
  | 0 => 0 | 1 => 0 | 2 => 31
  | 3 => if leap then 60 else 59
  | 4 => if leap then 91 else 90
  | 5 => if leap then 121 else 120
  | 6 => if leap then 152 else 151
  | 7 => if leap then 182 else 181
  | 8 => if leap then 213 else 212
  | 9 => if leap then 244 else 243
  | 10 => if leap then 274 else 273
  | 11 => if leap then 305 else 304
  | 12 => if leap then 335 else 334
  | _ => if leap then 366 else 365

/-- month (1..12) of 0-based ordinal `o` -/
def monthOfOrd (leap : Bool) (o : Int) : Nat :=
  if o < monthStart leap 2 then 1 else if o < monthStart leap 3 then 2
  else if o < monthStart leap 4 then 3 else if o < monthStart leap 5 then 4
  else if o < monthStart leap 6 then 5 else if o < monthStart leap 7 then 6
  else if o < monthStart leap 8 then 7 else if o < monthStart leap 9 then 8
  else if o < monthStart leap 10 then 9 else if o < monthStart leap 11 then 10
  else if o < monthStart leap 12 then 11 else 12

/-- `date.month()` -/
def month (d : Day) : Nat := monthOfOrd (isLeap (year d)) (ordinal0 d)

/-- `date.day()` -/
def dayOfMonth (d : Day) : Nat := (ordinal0 d - monthStart (isLeap (year d)) (month d) + 1).toNat

def daysInMonth (y : Int) (m : Nat) : Nat :=
  match m with
  | 2 => if isLeap y then 29 else 28
  | 4 | 6 | 9 | 11 => 30
  | _ => 31

/-- chrono's representable years: `NaiveDate::MIN` = -262143-01-01, `NaiveDate::MAX` = 262142-12-31 -/
def minYear : Int := -262143
def maxYear : Int := 262142

/-- day number of (y, m, d) without any validity check -/
def ymdRaw (y : Int) (m d : Nat) : Day := yearStart y + monthStart (isLeap y) m + d

/-- `NaiveDate::from_ymd_opt` -/
def ofYmd? (y : Int) (m d : Nat) : Option Day :=
  if minYear ≤ y ∧ y ≤ maxYear ∧ 1 ≤ m ∧ m ≤ 12 ∧ 1 ≤ d ∧ d ≤ daysInMonth y m then some (ymdRaw y m d) else none

def minDay : Day := ymdRaw minYear 1 1
def maxDay : Day := ymdRaw maxYear 12 31

def inRange (d : Day) : Bool := minDay ≤ d && d ≤ maxDay

/-- `date.weekday()` as `days_since(Mon)` / `num_days_from_monday()`: 0 = Monday … 6 = Sunday -/
def weekday (d : Day) : Nat := ((d - 1) % 7).toNat

/-- `date.iso_week().year()` : the ISO year is the year of the week's Thursday -/
def isoYear (d : Day) : Int := year (d - weekday d + 3)

/-- `date.iso_week().week()` (1..53) -/
def isoWeek (d : Day) : Nat := (ordinal0 (d - weekday d + 3) / 7 + 1).toNat

/-- number of ISO weeks of ISO year `y` (52 or 53): the week of Dec 28 is always the last one -/
def isoWeeksInYear (y : Int) : Nat := isoWeek (ymdRaw y 12 28)

/-- `NaiveDate::from_isoywd_opt(year, week, weekday)` (weekday 0 = Monday) -/
def ofIsoYwd? (y : Int) (w wd : Nat) : Option Day :=
  if 1 ≤ w ∧ w ≤ isoWeeksInYear y ∧ wd ≤ 6 then
    let jan4 := ymdRaw y 1 4
    let r : Day := jan4 - weekday jan4 + 7 * ((w : Int) - 1) + wd
    if inRange r then some r else none
  else none

/-- `succ_opt` / `pred_opt` -/
def succ? (d : Day) : Option Day := if d < maxDay then some (d + 1) else none
def pred? (d : Day) : Option Day := if minDay < d then some (d - 1) else none

/-- `date + Duration::days(n)`: chrono panics when the result is not representable -/
def addDays? (d : Day) (n : Int) : Option Day := if inRange (d + n) then some (d + n) else none

/-- `date.with_year(y)` -/
def withYear? (d : Day) (y : Int) : Option Day := ofYmd? y (month d) (dayOfMonth d)

/-- `date.with_day(1)` -/
def firstOfMonth (d : Day) : Day := d - (dayOfMonth d : Int) + 1

/-- `date.checked_add_months(Months::new(1))`: day clamped to the length of the target month -/
def addOneMonth? (d : Day) : Option Day :=
  let y := year d
  let m := month d
  let (y', m') := if m == 12 then (y + 1, 1) else (y, m + 1)
  ofYmd? y' m' (min (dayOfMonth d) (daysInMonth y' m'))

/-- `utils::dates::easter(year)`: anonymous Gregorian algorithm, Rust `i32` arithmetic
(`/` truncates towards zero, `%` takes the sign of the dividend: `Int.tdiv`/`Int.tmod`);
`n.try_into::<u32>().expect("month cannot be negative")` is a panic site: `.error`. -/
def easter (y : Int) : Except String (Option Day) :=
  let a := y.tmod 19
  let b := y.tdiv 100
  let c := y.tmod 100
  let d := b.tdiv 4
  let e := b.tmod 4
  let f := (b + 8).tdiv 25
  let g := (b - f + 1).tdiv 3
  let h := (19 * a + b - d - g + 15).tmod 30
  let i := c.tdiv 4
  let k := c.tmod 4
  let l := (32 + 2 * e + 2 * i - h - k).tmod 7
  let m := (a + 11 * h + 22 * l).tdiv 451
  let n := (h + l - 7 * m + 114).tdiv 31
  let o := (h + l - 7 * m + 114).tmod 31
  if n < 0 then .error "dates.rs:easter month cannot be negative"
  else if o + 1 < 0 then .error "dates.rs:easter day cannot be negative"
  else .ok (ofYmd? y n.toNat (o + 1).toNat)

/-- 1900-01-01 and 10000-01-01 (`DATE_START.date()`, `DATE_END.date()`) -/
def dateStart : Day := ymdRaw 1900 1 1
def dateEnd : Day := ymdRaw 10000 1 1

end OH.Model.Cal
